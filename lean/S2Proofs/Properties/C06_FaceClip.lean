/-
  Property C06 (work package c06face): FACE CLIPPING of the index builder — `addFaceEdge`, `ClipToPaddedFace`,
  `clipDestination`, `exitPoint`, `exitAxis`, `intersectsFace`, `intersectsOppositeEdges` (s2/shapeindex.go,
  s2/edge_clipping.go) on the bit-exact soft-float model `S2.IndexBuild`.

  `C06_ClipFloat.lean` proved I1 of the built index for real uv geometry under ONE hypothesis, `FaceEdgesOK shapes`
  (the uv endpoints of all face edges are finite and at most `1 + 2^-40` in magnitude).  Here, for shapes all of whose
  vertices are UNIT-ISH finite float vectors (`VerticesUnit`, decidable, `| |p|² − 1 | ≤ 2^-16`):

  (1) where the uv endpoints come from, branch by branch (`faceEdge_sources`):
        · the `maxUV` fast path                      — `CoordOK` by the test itself;
        · `validFaceXYZToUV` (both ends on the face) — `CoordOK`: correctly rounded quotients of magnitude ≤ 1 (`sameFace_coordOK`);
        · the `maxSafeUVCoord` early exit            — `CoordOK` by the test itself (through `math.Max`);
        · the exit point `scaleUV·exitPoint(exitAxis)` — `CoordOK` (`exitPoint_bounded`): the normal `PointCross` is finite,
          bounded and NOT the zero vector also for degenerate edges (`scaledNormal_usable`), `intersectsFace` +
          `intersectsOppositeEdges` + the sign-parity rule of `exitAxis` make the quotient of `exitPoint` at most
          `(1+2^-52)(1+2^-53)` in magnitude; the strict comparisons are used EXACTLY (rounding is monotone);
        · the RE-PROJECTION `(b.X/b.Z, b.Y/b.Z)` of the endpoint itself (`score > 0 ∧ b.Z > 0` in `clipDestination`): its
          boundedness is a consequence of the two tangent tests and of the score rule `aScore + bScore < 3` — a geometric
          argument that cannot be done with independent error bounds for the two tangent tests (corner-grazing lines, see
          DELIVER.md); NOT proved.
      Hence `faceEdgesOK_of_unit_partial : VerticesUnit → ReprojOK → FaceEdgesOK` where `ReprojOK` only speaks about re-projected
      endpoints, and `build_I1_unit_partial`.  The full statement is the `def faceEdgesOK_of_unit`.
      DEGENERATE EDGES (`v0 = v1`, the edges of point shapes): the re-projection branch IS proved —
      `clipToPaddedFace_degenerate_bounded` (all endpoints of `ClipToPaddedFace(a, a, f, cellPadding)` are `CoordOK`, every unit-ish `a`,
      every face): tangent tests within `2^-46` of `det(n̂, A, P)`, exit points within `2^-48` of the plane of `n̂`, 2-D Cramer / Lagrange
      arguments.  Hence `faceEdgesOK_of_unit_partial2` (only NON-degenerate re-projections left, `ReprojOK2`) and, with no
      hypothesis about the clipping at all, `faceEdgesOK_of_points` / `build_I1_points` / `sphere_I1_points` for collections whose edges
      are degenerate or take the fast path (`ShapesPointsOrDirect`, decidable) — e.g. every index of points, wherever they lie.
      Unconditional special case: `faceEdgesOK_of_direct` / `build_I1_direct` for shapes all of whose edges take the `maxUV` fast
      path (`ShapesDirect`, decidable without evaluating any clipping).
      FINDING (`clipPaddedBounded_false`, part of D60, REPAIRED): the natural postcondition of `ClipToPaddedFace` itself — endpoints
      inside the padded face — was FALSE for unit-ish endpoints that differ only by subnormal amounts (the pre-repair `PointCross`
      underflowed, the re-projected endpoint had u = −1.1108 on face 2); stated on the faithful pre-repair function
      `clipToPaddedFaceOld` (= the body of `clipToPaddedFace` with `Crossing.pointCrossOld`); after the repair the edge is rejected
      on that face (`exF1_clip_repaired`).  `addFaceEdge` was shielded by its fast path on that input.  For the repaired function the
      postcondition (`ClipPaddedBounded`) is open: neither proved nor refuted.
  (2) `FaceClipSound`, the spherical meaning: `MeetsSphere f v0 v1 c` (a point of the great-circle arc has gnomonic image on
      face `f` inside the uv-rectangle of `c`).  Same-face case PROVED: gnomonic projection maps great circles to lines
      (`gnomonic_maps_arcs_to_segments`, exact), `validFaceXYZToUV` is within `2^-54` per coordinate of the exact image
      (`sameFace_within`), so `MeetsSphere → MeetsReal` (`faceClipSound_sameFace`).  The clipped case is the `def FaceClipSound`.
  (3) `sphere_I1_sameFace_partial`: every spherical edge with both endpoints on face `f` is listed in every index cell of
      face `f` that it meets (under `VerticesUnit`, `ReprojOK`); `sphere_I1_direct`, `sphere_I1_points`: the same with decidable
      hypotheses only.
  FINDING (`faceClipDocumented_false`, D60, REPAIRED): the documented `faceClipErrorUVDist = 9·dblEpsilon` failed by a factor > 100 for
      endpoints that are antipodal up to one ulp per coordinate (kernel evaluation of the pre-repair function `clipToPaddedFaceOld`
      = `/repo` before the repair, exact rational distance to the great circle: 1085.9 dblEpsilon); through the index this was a
      C06 violation (replay `corpus/C06/fixed_D60_pointcross_antipodal.txt`).  After the repair (exact fallback in `PointCross`) the
      same endpoint is 0.017 dblEpsilon from the exact circle (`exF2_clip_repaired`, `exF2_near_repaired`); the two functions agree
      wherever the float `PointCross` passes its threshold (`clipToPaddedFace_eq_old`).  `FaceClipDocumented` for the repaired
      function is open.
-/
import S2Proofs.Properties.C06_ClipFloat
import S2Proofs.C06Face.Sphere
import S2Proofs.C06Face.Degen
import S2Proofs.Properties.C06_PointCross

namespace S2Proofs.C06Clip
open S2 S2.CellID S2.CellM S2.PaddedCellM S2.IndexBuild S2Proofs.F64Order S2Proofs.C06BuildH S2Proofs.C06Build
open S2Proofs.C06Face

/-! ## (1) boundedness of the face edges -/

/-- what is NOT proved: a re-projected endpoint (an endpoint of a face edge on face `f` that equals the gnomonic projection
    `(b.X/b.Z, b.Y/b.Z)` of its own vertex in the frame of `f`) is `CoordOK`.  Implied by `FaceEdgesOK`, decidable per input
    through `faceEdgesOKb`. -/
def ReprojOK (shapes : Array Shape) : Prop :=
  ∀ f, f < 6 → ∀ fe ∈ faceEdgesOf (allFaceEdges shapes) f,
    (fe.a = reproj f fe.v0 → CoordOK fe.a.1 ∧ CoordOK fe.a.2) ∧
    (fe.b = reproj f fe.v1 → CoordOK fe.b.1 ∧ CoordOK fe.b.2)

/-- FULL STATEMENT (not proved): the face edges of unit-ish shapes are bounded -/
def faceEdgesOK_of_unit : Prop := ∀ shapes : Array Shape, VerticesUnit shapes → FaceEdgesOK shapes

/-- the normal `scaledN` of `ClipToPaddedFace(a, b, f, cellPadding)` is finite, bounded by `2^10` and not the zero vector,
    for all unit-ish `a`, `b` — including `a = b`, `a = −b` (the `Ortho` branch of `PointCross`) — and every face -/
theorem scaledNormal_usable (a b : V3) (ha : UnitIsh a) (hb : UnitIsh b) (f : Nat) : NOK (scaledNormal a b f) :=
  scaledNormal_nok a b ha hb f

/-- the exit point `scaleUV · n.exitPoint(n.exitAxis())` of a usable normal that passed `intersectsFace` has finite
    coordinates of magnitude at most `1 + 2^-40` -/
theorem exitPoint_bounded (n : V3) (hn : NOK n) (hi : intersectsFace n = true) (s : F64) (hs : ScaleOK s) :
    CoordOK (s * (exitPoint n (exitAxis n)).1) ∧ CoordOK (s * (exitPoint n (exitAxis n)).2) :=
  exitPoint_coordOK n hn hi s hs

/-- the same for the reversed line `scaledN.Mul(-1)` that `ClipToPaddedFace` uses for the endpoint A -/
theorem exitPoint_bounded_reversed (n : V3) (hn : NOK n) (hi : intersectsFace n = true) (s : F64) (hs : ScaleOK s) :
    CoordOK (s * (exitPoint (n.mul negOne) (exitAxis (n.mul negOne))).1) ∧
    CoordOK (s * (exitPoint (n.mul negOne) (exitAxis (n.mul negOne))).2) :=
  exitPoint_coordOK _ (nok_neg n hn) (by rw [intersectsFace_neg n hn.fin]; exact hi) s hs

/-- the same-face path: for a unit-ish `v` on face `f` both coordinates of `validFaceXYZToUV(f, v)` are `CoordOK` -/
theorem sameFace_coordOK (v : V3) (hv : UnitIsh v) :
    CoordOK (STUV.validFaceXYZToUV (STUV.face v) v).1 ∧ CoordOK (STUV.validFaceXYZToUV (STUV.face v) v).2 := by
  obtain ⟨_, _, _, c1, c2, _, _⟩ := validFace_spec v hv _ rfl
  exact ⟨c1, c2⟩

/-- one call of `clipDestination` with a usable normal: the point is `CoordOK`, or the score is 3, or the point is the
    re-projection of `b` -/
theorem clipDestination_sources (a b n aTan bTan : V3) (s : F64) (hn : NOK n) (hi : intersectsFace n = true)
    (hs : ScaleOK s) :
    (CoordOK (clipDestination a b n aTan bTan s).1.1 ∧ CoordOK (clipDestination a b n aTan bTan s).1.2) ∨
    (clipDestination a b n aTan bTan s).2 = 3 ∨
    (clipDestination a b n aTan bTan s).1 = (b.x / b.z, b.y / b.z) :=
  clipDestination_cases a b n aTan bTan s hn hi hs

/-- **sources of the uv endpoints**: every face edge of unit-ish shapes lies on a face `< 6` and each of its uv endpoints is
    `CoordOK` or the re-projection of its own vertex -/
theorem faceEdge_sources (shapes : Array Shape) (hu : VerticesUnit shapes) :
    ∀ f, ∀ fe ∈ faceEdgesOf (allFaceEdges shapes) f, f < 6 ∧
      ((CoordOK fe.a.1 ∧ CoordOK fe.a.2) ∨ fe.a = reproj f fe.v0) ∧
      ((CoordOK fe.b.1 ∧ CoordOK fe.b.2) ∨ fe.b = reproj f fe.v1) := by
  intro f fe hfe
  obtain ⟨h1, _, _, h4, h5⟩ := allFaceEdges_ok shapes hu (f, fe) (faceEdgesOf_mem hfe)
  exact ⟨h1, h4, h5⟩

/-- `ReprojOK` is weaker than `FaceEdgesOK` -/
theorem reprojOK_of_faceEdgesOK (shapes : Array Shape) (h : FaceEdgesOK shapes) : ReprojOK shapes := by
  intro f hf fe hfe
  obtain ⟨a1, a2, b1, b2⟩ := h f hf fe hfe
  exact ⟨fun _ => ⟨a1, a2⟩, fun _ => ⟨b1, b2⟩⟩

/-- **(1), partial**: for unit-ish shapes all face edges are bounded as soon as the re-projected endpoints are.
    Missing for `faceEdgesOK_of_unit`: `ReprojOK` itself (the analysis of the tangent tests of `clipDestination`). -/
theorem faceEdgesOK_of_unit_partial (shapes : Array Shape) (hu : VerticesUnit shapes) (hr : ReprojOK shapes) :
    FaceEdgesOK shapes := by
  intro f hf fe hfe
  obtain ⟨_, ha, hb⟩ := faceEdge_sources shapes hu f fe hfe
  obtain ⟨ra, rb⟩ := hr f hf fe hfe
  have A : CoordOK fe.a.1 ∧ CoordOK fe.a.2 := by
    rcases ha with h | h
    · exact h
    · exact ra h
  have B : CoordOK fe.b.1 ∧ CoordOK fe.b.2 := by
    rcases hb with h | h
    · exact h
    · exact rb h
  exact ⟨A.1, A.2, B.1, B.2⟩

/-- I1 of the built index for real uv geometry, for unit-ish shapes, under `ReprojOK` only -/
theorem build_I1_unit_partial (shapes : Array Shape) (hu : VerticesUnit shapes) (hr : ReprojOK shapes) :
    I1 shapes MeetsReal :=
  build_I1_float shapes (faceEdgesOK_of_unit_partial shapes hu hr)

/-! ### an unconditional special case: edges that take the `maxUV` fast path -/

/-- the edge `(v0, v1)` takes the fast path of `addFaceEdge`: both endpoints on the same face with all four uv coordinates at
    most `maxUV = 1 − cellPadding` in magnitude (decidable; true for every edge that stays `4·10^-15` away from the boundary of a
    cube face) -/
def EdgeDirect (v0 v1 : V3) : Bool :=
  STUV.face v0 == STUV.face v1 &&
  (F64.le (STUV.validFaceXYZToUV (STUV.face v0) v0).1.abs maxUV && F64.le (STUV.validFaceXYZToUV (STUV.face v0) v0).2.abs maxUV &&
   F64.le (STUV.validFaceXYZToUV (STUV.face v0) v1).1.abs maxUV && F64.le (STUV.validFaceXYZToUV (STUV.face v0) v1).2.abs maxUV)

/-- every edge of every shape takes the fast path -/
def ShapesDirect (shapes : Array Shape) : Prop :=
  ∀ id, id < shapes.size → ∀ e, e < shapes[id]!.edges.size →
    EdgeDirect (shapes[id]!.edges[e]!).1 (shapes[id]!.edges[e]!).2 = true

/-- for such shapes `FaceEdgesOK` holds with NO further hypothesis (not even on the vertices: NaN, infinite or zero vertices
    fail the `≤ maxUV` tests), hence I1 by `build_I1_float` -/
theorem faceEdgesOK_of_direct (shapes : Array Shape) (hd : ShapesDirect shapes) : FaceEdgesOK shapes := by
  intro f _ fe hfe
  have hp := faceEdgesOf_mem hfe
  unfold allFaceEdges at hp
  rw [List.mem_flatMap] at hp
  obtain ⟨id, hid, hp⟩ := hp
  rw [List.mem_range] at hid
  unfold shapeFaceEdges at hp
  rw [List.mem_flatMap] at hp
  obtain ⟨e, he, hp⟩ := hp
  rw [List.mem_range] at he
  have hdir := hd id hid e he
  unfold EdgeDirect at hdir
  simp only [Bool.and_eq_true, beq_iff_eq] at hdir
  obtain ⟨hface, ⟨⟨l1, l2⟩, l3⟩, l4⟩ := hdir
  unfold addFaceEdge at hp
  simp only at hp
  rw [if_pos (by simpa using hface)] at hp
  have hall : (F64.le (STUV.validFaceXYZToUV (STUV.face (shapes[id]!.edges[e]!).1) (shapes[id]!.edges[e]!).1).1.abs maxUV &&
      F64.le (STUV.validFaceXYZToUV (STUV.face (shapes[id]!.edges[e]!).1) (shapes[id]!.edges[e]!).1).2.abs maxUV &&
      F64.le (STUV.validFaceXYZToUV (STUV.face (shapes[id]!.edges[e]!).1) (shapes[id]!.edges[e]!).2).1.abs maxUV &&
      F64.le (STUV.validFaceXYZToUV (STUV.face (shapes[id]!.edges[e]!).1) (shapes[id]!.edges[e]!).2).2.abs maxUV) = true := by
    simp only [Bool.and_eq_true]; exact ⟨⟨⟨l1, l2⟩, l3⟩, l4⟩
  rw [if_pos hall] at hp
  simp only [List.mem_singleton] at hp
  have hfe' : fe = _ := (Prod.mk.inj hp).2
  have m := maxUV_facts
  rw [hfe']
  exact ⟨coordOK_of_abs_le m.1 m.2 l1, coordOK_of_abs_le m.1 m.2 l2, coordOK_of_abs_le m.1 m.2 l3,
    coordOK_of_abs_le m.1 m.2 l4⟩

/-- I1 for real uv geometry with a purely decidable hypothesis that needs no evaluation of the clipping -/
theorem build_I1_direct (shapes : Array Shape) (hd : ShapesDirect shapes) : I1 shapes MeetsReal :=
  build_I1_float shapes (faceEdgesOK_of_direct shapes hd)

instance (shapes : Array Shape) : Decidable (ShapesDirect shapes) := by unfold ShapesDirect; infer_instance

/-- non-vacuity: a polyline inside face 0, (1, .25, .25) → (1, .5, .375) → (1, −.5, .1) -/
def exDirect : Array Shape :=
  #[⟨1, #[(⟨⟨0x3FF0000000000000⟩, ⟨0x3FD0000000000000⟩, ⟨0x3FD0000000000000⟩⟩,
           ⟨⟨0x3FF0000000000000⟩, ⟨0x3FE0000000000000⟩, ⟨0x3FD8000000000000⟩⟩),
          (⟨⟨0x3FF0000000000000⟩, ⟨0x3FE0000000000000⟩, ⟨0x3FD8000000000000⟩⟩,
           ⟨⟨0x3FF0000000000000⟩, ⟨0xBFE0000000000000⟩, ⟨0x3FB999999999999A⟩⟩)],
     ⟨⟨0x3FF0000000000000⟩, ⟨0⟩, ⟨0⟩⟩, false⟩]

example : ShapesDirect exDirect := by decide +kernel
example : I1 exDirect MeetsReal := build_I1_direct exDirect (by decide +kernel)

/-! ### degenerate edges (point shapes): the re-projection branch PROVED -/

/-- **`ClipToPaddedFace(a, a, f, cellPadding)` is bounded**: for every unit-ish `a` and every face both returned endpoints are
    `CoordOK` — including the re-projection branch (tangent tests `fl((P−A)·aTan)` within `2^-46` of `det(n̂, A, P)`, the exit
    points within `2^-48` of the plane of `n̂ = Normalize(Ortho(a))`, and the 2-D Cramer / Lagrange arguments `DegenReal.G1 / G2`) -/
theorem clipToPaddedFace_degenerate_bounded (a : V3) (ha : UnitIsh a) (f : Nat) (p q : R2)
    (h : clipToPaddedFace a a f cellPadding = some (p, q)) :
    (CoordOK p.1 ∧ CoordOK p.2) ∧ (CoordOK q.1 ∧ CoordOK q.2) :=
  clip_degenerate_ok a ha f p q h

/-- what is still NOT proved, now only for NON-degenerate edges -/
def ReprojOK2 (shapes : Array Shape) : Prop :=
  ∀ f, f < 6 → ∀ fe ∈ faceEdgesOf (allFaceEdges shapes) f, fe.v0 ≠ fe.v1 →
    (fe.a = reproj f fe.v0 → CoordOK fe.a.1 ∧ CoordOK fe.a.2) ∧
    (fe.b = reproj f fe.v1 → CoordOK fe.b.1 ∧ CoordOK fe.b.2)

/-- **(1), partial, second form**: the re-projected endpoints of degenerate edges need no hypothesis -/
theorem faceEdgesOK_of_unit_partial2 (shapes : Array Shape) (hu : VerticesUnit shapes) (hr : ReprojOK2 shapes) :
    FaceEdgesOK shapes := by
  intro f hf fe hfe
  by_cases hd : fe.v0 = fe.v1
  · obtain ⟨A, B⟩ := allFaceEdges_degenerate shapes hu (f, fe) (faceEdgesOf_mem hfe) hd
    exact ⟨A.1, A.2, B.1, B.2⟩
  · obtain ⟨_, ha, hb⟩ := faceEdge_sources shapes hu f fe hfe
    obtain ⟨ra, rb⟩ := hr f hf fe hfe hd
    have A : CoordOK fe.a.1 ∧ CoordOK fe.a.2 := by
      rcases ha with h | h
      · exact h
      · exact ra h
    have B : CoordOK fe.b.1 ∧ CoordOK fe.b.2 := by
      rcases hb with h | h
      · exact h
      · exact rb h
    exact ⟨A.1, A.2, B.1, B.2⟩

/-- every edge is degenerate (`PointVector` shapes) or takes the fast path -/
def ShapesPointsOrDirect (shapes : Array Shape) : Prop :=
  ∀ id, id < shapes.size → ∀ e, e < shapes[id]!.edges.size →
    (shapes[id]!.edges[e]!).1 = (shapes[id]!.edges[e]!).2 ∨
    EdgeDirect (shapes[id]!.edges[e]!).1 (shapes[id]!.edges[e]!).2 = true

/-- **UNCONDITIONAL for point shapes**: unit-ish shapes all of whose edges are degenerate or take the fast path have bounded face
    edges, wherever the points lie (cube corners, cube edges, within the padding of a face boundary …) -/
theorem faceEdgesOK_of_points (shapes : Array Shape) (hu : VerticesUnit shapes) (hp : ShapesPointsOrDirect shapes) :
    FaceEdgesOK shapes := by
  apply faceEdgesOK_of_unit_partial2 shapes hu
  intro f _ fe hfe hnd
  -- a non-degenerate edge of such a collection takes the fast path: its endpoints passed the `maxUV` tests
  have hmem := faceEdgesOf_mem hfe
  unfold allFaceEdges at hmem
  rw [List.mem_flatMap] at hmem
  obtain ⟨id, hid, hmem⟩ := hmem
  rw [List.mem_range] at hid
  unfold shapeFaceEdges at hmem
  rw [List.mem_flatMap] at hmem
  obtain ⟨e, he, hmem⟩ := hmem
  rw [List.mem_range] at he
  obtain ⟨u0, u1⟩ := hu id hid e he
  obtain ⟨_, a2, a3, _, _⟩ := addFaceEdge_ok _ (by exact u0) (by exact u1) (f, fe) hmem
  rcases hp id hid e he with hdeg | hdir
  · exact absurd (by rw [a2, a3]; exact hdeg) hnd
  · unfold EdgeDirect at hdir
    simp only [Bool.and_eq_true, beq_iff_eq] at hdir
    obtain ⟨hface, ⟨⟨l1, l2⟩, l3⟩, l4⟩ := hdir
    unfold addFaceEdge at hmem
    simp only at hmem
    rw [if_pos (by simpa using hface)] at hmem
    have hall : (F64.le (STUV.validFaceXYZToUV (STUV.face (shapes[id]!.edges[e]!).1) (shapes[id]!.edges[e]!).1).1.abs maxUV &&
        F64.le (STUV.validFaceXYZToUV (STUV.face (shapes[id]!.edges[e]!).1) (shapes[id]!.edges[e]!).1).2.abs maxUV &&
        F64.le (STUV.validFaceXYZToUV (STUV.face (shapes[id]!.edges[e]!).1) (shapes[id]!.edges[e]!).2).1.abs maxUV &&
        F64.le (STUV.validFaceXYZToUV (STUV.face (shapes[id]!.edges[e]!).1) (shapes[id]!.edges[e]!).2).2.abs maxUV) = true := by
      simp only [Bool.and_eq_true]; exact ⟨⟨⟨l1, l2⟩, l3⟩, l4⟩
    rw [if_pos hall] at hmem
    simp only [List.mem_singleton] at hmem
    have hfe' : fe = _ := (Prod.mk.inj hmem).2
    have m := maxUV_facts
    rw [hfe']
    exact ⟨fun _ => ⟨coordOK_of_abs_le m.1 m.2 l1, coordOK_of_abs_le m.1 m.2 l2⟩,
      fun _ => ⟨coordOK_of_abs_le m.1 m.2 l3, coordOK_of_abs_le m.1 m.2 l4⟩⟩

/-- **I1 for point shapes, no hypothesis about the clipping**: every point (degenerate edge) — and every fast-path edge — is
    listed in every index cell whose padded uv-rectangle its face edge meets -/
theorem build_I1_points (shapes : Array Shape) (hu : VerticesUnit shapes) (hp : ShapesPointsOrDirect shapes) :
    I1 shapes MeetsReal :=
  build_I1_float shapes (faceEdgesOK_of_points shapes hu hp)

instance (shapes : Array Shape) : Decidable (ShapesPointsOrDirect shapes) := by
  unfold ShapesPointsOrDirect; infer_instance

/-- non-vacuity: a point shape with the cube corner `(1,1,1)/√3`, the cube-edge midpoint `(1,1,0)/√2` and the face centre
    `(1, 0, 0)`: none of the first two takes the fast path, all six faces are tried -/
def exPoints : Array Shape :=
  #[⟨0, #[(⟨⟨0x3FE279A74590331C⟩, ⟨0x3FE279A74590331C⟩, ⟨0x3FE279A74590331C⟩⟩,
           ⟨⟨0x3FE279A74590331C⟩, ⟨0x3FE279A74590331C⟩, ⟨0x3FE279A74590331C⟩⟩),
          (⟨⟨0x3FE6A09E667F3BCD⟩, ⟨0x3FE6A09E667F3BCD⟩, ⟨0⟩⟩, ⟨⟨0x3FE6A09E667F3BCD⟩, ⟨0x3FE6A09E667F3BCD⟩, ⟨0⟩⟩),
          (⟨⟨0x3FF0000000000000⟩, ⟨0⟩, ⟨0⟩⟩, ⟨⟨0x3FF0000000000000⟩, ⟨0⟩, ⟨0⟩⟩)],
     ⟨⟨0x3FF0000000000000⟩, ⟨0⟩, ⟨0⟩⟩, false⟩]

example : VerticesUnit exPoints ∧ ShapesPointsOrDirect exPoints := by decide +kernel
example : I1 exPoints MeetsReal := build_I1_points exPoints (by decide +kernel) (by decide +kernel)
/-- the corner and the edge midpoint really go through `ClipToPaddedFace` on all six faces: the corner gets face edges on the faces
    0, 1, 2, the edge midpoint on the faces 0, 1, the centre on face 0 (fast path) -/
example : ((allFaceEdges exPoints).map (fun x => (x.1, x.2.edgeID))) = [(0, 0), (1, 0), (2, 0), (0, 1), (1, 1), (0, 2)] := by
  decide +kernel

/-! ### FINDING (D60, repaired): the natural postcondition of `ClipToPaddedFace` was false (PointCross underflow) -/

/-- the natural postcondition of `ClipToPaddedFace(a, b, f, cellPadding)`: the returned uv endpoints lie in the padded face (up to
    `2^-40`).  FALSE — see `clipPaddedBounded_false`.  (`FaceEdgesOK` is about `addFaceEdge`, whose `maxUV` fast path catches the
    counterexample below; no counterexample to `faceEdgesOK_of_unit` is known.) -/
def ClipPaddedBoundedOf (clip : V3 → V3 → Nat → F64 → Option (R2 × R2)) : Prop :=
  ∀ (a b : V3) (f : Nat) (p q : R2), UnitIsh a → UnitIsh b → f < 6 →
    clip a b f cellPadding = some (p, q) →
    (CoordOK p.1 ∧ CoordOK p.2) ∧ (CoordOK q.1 ∧ CoordOK q.2)

/-- the postcondition for the CURRENT (repaired, D60) `ClipToPaddedFace`: open (not proved, no counterexample known) -/
def ClipPaddedBounded : Prop := ClipPaddedBoundedOf clipToPaddedFace

/-- `ClipToPaddedFace` BEFORE repair D60: the same body with the pre-repair `PointCross` (`Crossing.pointCrossOld`:
    `fl((a+b) × (b−a))`, `Ortho` only when that float vector is exactly zero; no exact fallback) -/
def clipToPaddedFaceOld (a b : V3) (f : Nat) (padding : F64) : Option (R2 × R2) :=
  if STUV.face a == f && STUV.face b == f then
    some (STUV.validFaceXYZToUV f a, STUV.validFaceXYZToUV f b)
  else
    let normUVW := faceXYZtoUVW f (Crossing.pointCrossOld a b)
    let aUVW := faceXYZtoUVW f a
    let bUVW := faceXYZtoUVW f b
    let scaleUV := F64.one + padding
    let scaledN : V3 := ⟨scaleUV * normUVW.x, scaleUV * normUVW.y, normUVW.z⟩
    if !intersectsFace scaledN then none else
    let normUVW :=
      if F64.lt (F64.fmax normUVW.x.abs (F64.fmax normUVW.y.abs normUVW.z.abs)) twoPowM511
      then normUVW.mul twoPow563 else normUVW
    let normUVW := normUVW.normalize
    let aTan := normUVW.cross aUVW
    let bTan := bUVW.cross normUVW
    let (aUV, aScore) := clipDestination bUVW aUVW (scaledN.mul negOne) bTan aTan scaleUV
    let (bUV, bScore) := clipDestination aUVW bUVW scaledN aTan bTan scaleUV
    if aScore + bScore < 3 then some (aUV, bUV) else none

/-- the two functions agree wherever the float value of `PointCross` passes the threshold test (the repair is conservative) -/
theorem clipToPaddedFace_eq_old (a b : V3) (f : Nat) (padding : F64)
    (h : F64.ge (EdgeNum.pointCrossFloat a b).norm2 EdgeNum.pointCrossMinNorm2 = true) :
    clipToPaddedFace a b f padding = clipToPaddedFaceOld a b f padding := by
  unfold clipToPaddedFace clipToPaddedFaceOld
  have e : Crossing.pointCross a b = Crossing.pointCrossOld a b := S2Proofs.C06PointCross.pointCross_eq_old_of_ge a b h
  rw [e]

/-- `a = (0.7432, 0, √(1−0.7432²))`, `b = a + (0, 2^-1074, 0)`: two unit vectors that differ by the smallest subnormal -/
def exF1a : V3 := ⟨⟨0x3FE7C84B5DCC63F1⟩, ⟨0⟩, ⟨0x3FE56904120A22C5⟩⟩
def exF1b : V3 := ⟨⟨0x3FE7C84B5DCC63F1⟩, ⟨1⟩, ⟨0x3FE56904120A22C5⟩⟩

/-- BEFORE repair D60: on face 2 the pre-repair model (like `/repo` then: `ClipToPaddedFace(a, b, 2, cellPadding) = (−1.1107967046234235, −0), …, true`) accepts the
    edge and returns the re-projection of `a`, whose u-coordinate is `−1.1108`: `(a+b) × (b−a)` is `(−1, 0, 1)·2^-1074` after
    underflow (true direction `(−0.669, 0, 0.743)`), so the clipped "great circle" is the line `u = −1` of face 2 although `a`
    lies at `u = −1.11` -/
theorem exF1_clip :
    (match clipToPaddedFaceOld exF1a exF1b 2 cellPadding with
      | some (p, _) => p.1.bits == 0xBFF1C5D2C3EDCB79
      | none => false) = true := by decide +kernel

theorem exF1_notOK : ¬ CoordOK (⟨0xBFF1C5D2C3EDCB79⟩ : F64) := by
  intro h
  have hb := h.2
  have ht : S2.Exact.toInt (⟨0xBFF1C5D2C3EDCB79⟩ : F64) = -(5002583625026425 * 2 ^ 1022) := by decide +kernel
  have hv : rv (⟨0xBFF1C5D2C3EDCB79⟩ : F64) = -(5002583625026425 / 2 ^ 52) := by
    rw [rv_of_toInt' ht]
    push_cast
    rw [show (2 : ℝ) ^ 1074 = 2 ^ 52 * 2 ^ 1022 by rw [← pow_add]]
    have h2 : (2 : ℝ) ^ 1022 ≠ 0 := by positivity
    rw [neg_div, mul_div_mul_right _ _ h2]
  rw [hv, abs_neg, abs_of_pos (by positivity)] at hb
  norm_num at hb

/-- **the postcondition failed BEFORE repair D60**: unit-ish endpoints, face 2, accepted, u-coordinate `−1.1108` -/
theorem clipPaddedBounded_false : ¬ ClipPaddedBoundedOf clipToPaddedFaceOld := by
  intro h
  have hu1 : UnitIsh exF1a := by decide +kernel
  have hu2 : UnitIsh exF1b := by decide +kernel
  have hc := exF1_clip
  cases hclip : clipToPaddedFaceOld exF1a exF1b 2 cellPadding with
  | none => rw [hclip] at hc; exact absurd hc (by decide)
  | some pq =>
    obtain ⟨p, q⟩ := pq
    rw [hclip] at hc
    have hbits : p.1.bits = 0xBFF1C5D2C3EDCB79 := by simpa using hc
    have hp : p.1 = ⟨0xBFF1C5D2C3EDCB79⟩ := by
      cases hp1 : p.1 with
      | mk b => rw [hp1] at hbits; simp only at hbits; rw [hbits]
    have := (h exF1a exF1b 2 p q hu1 hu2 (by decide) hclip).1.1
    rw [hp] at this
    exact exF1_notOK this

/-- AFTER repair D60 the edge is rejected on face 2 (the exact normal `(−a.z, 0, a.x)` does not meet the face), and on face 0 (the
    face of both endpoints) the same-face shortcut answers: the counterexample is gone -/
theorem exF1_clip_repaired :
    (clipToPaddedFace exF1a exF1b 2 cellPadding).isNone = true ∧
    ((List.range 6).map fun f => (clipToPaddedFace exF1a exF1b f cellPadding).isSome) = [true, false, false, false, false, false] := by
  decide +kernel

/-- the record `addShapeInternal` would hand to `addFaceEdge` for this edge -/
def exF1fe : FaceEdge :=
  { shapeID := 0, edgeID := 0, maxLevel := 30, hasInterior := false,
    a := (fzero, fzero), b := (fzero, fzero), v0 := exF1a, v1 := exF1b }

/-- the index builder is shielded on this input: both endpoints are on face 0 with `|u|, |v| ≤ maxUV`, `addFaceEdge` takes the fast
    path and appends exactly one face edge (on face 0) -/
example : (addFaceEdge exF1fe).map (fun x => x.1) = [0] := by decide +kernel

/-! ### FINDING (D60, repaired): `faceClipErrorUVDist = 9·dblEpsilon` failed for nearly antipodal endpoints (PointCross had no relative accuracy) -/

/-- squared distance form of "the uv point `e` is within `δ` of the EXACT great circle through `a` and `b`" on face `f`:
    with `N = A × B` (exact, in the (u,v,w) frame of `f`) the line is `N.x·u + N.y·v + N.z = 0` -/
def WithinOfCircle (δ : ℝ) (f : Nat) (a b : V3) (e : R2) : Prop :=
  let A := faceXYZtoUVW f a
  let B := faceXYZtoUVW f b
  let nx := rv A.y * rv B.z - rv A.z * rv B.y
  let ny := rv A.z * rv B.x - rv A.x * rv B.z
  let nz := rv A.x * rv B.y - rv A.y * rv B.x
  (nx * rv e.1 + ny * rv e.2 + nz) ^ 2 ≤ δ ^ 2 * (nx ^ 2 + ny ^ 2)

/-- the documented accuracy of `ClipToPaddedFace` (`faceClipErrorUVDist = 9 * dblEpsilon`: "the maximum distance from a clipped point to
    the corresponding exact result"), for unit-ish endpoints.  FALSE — `faceClipDocumented_false`. -/
def FaceClipDocumentedOf (clip : V3 → V3 → Nat → F64 → Option (R2 × R2)) : Prop :=
  ∀ (a b : V3) (f : Nat) (p q : R2), UnitIsh a → UnitIsh b → f < 6 →
    clip a b f cellPadding = some (p, q) →
    WithinOfCircle (9 * dblEps) f a b p ∧ WithinOfCircle (9 * dblEps) f a b q

/-- the documented accuracy for the CURRENT (repaired, D60) `ClipToPaddedFace`: open (not proved; the counterexample below is gone,
    `exF2_near_repaired`) -/
def FaceClipDocumented : Prop := FaceClipDocumentedOf clipToPaddedFace

/-- two unit vectors, antipodal up to one ulp per coordinate (`a + b = (2^-53, −2^-53, 2^-62) ≠ 0`) -/
def exF2a : V3 := ⟨⟨0xbfe6a00328eb3734⟩, ⟨0x3fe6a136e4af2daf⟩, ⟨0xbf563ca930f4445c⟩⟩
def exF2b : V3 := ⟨⟨0x3fe6a00328eb3735⟩, ⟨0xbfe6a136e4af2db0⟩, ⟨0x3f563ca930f4445d⟩⟩

/-- kernel evaluation, BEFORE repair D60: on face 0 the pre-repair model (like `/repo` then) returns the first endpoint
    `(1 + 17·2^-52, 0.32480212635…)` -/
theorem exF2_clip :
    (match clipToPaddedFaceOld exF2a exF2b 0 cellPadding with
      | some (p, _) => p.1.bits == 0x3ff0000000000011 && p.2.bits == 0x3fd4c98edb968e19
      | none => false) = true := by decide +kernel

theorem rv_bits {x : F64} {m : ℤ} {k : ℕ} (h : S2.Exact.toInt x = m * 2 ^ k) (hk : k ≤ 1074) :
    rv x = (m : ℝ) / 2 ^ (1074 - k) := by
  rw [rv_of_toInt' h]
  push_cast
  have e : (2 : ℝ) ^ 1074 = 2 ^ (1074 - k) * 2 ^ k := by rw [← pow_add]; congr 1; omega
  rw [e]
  have h2 : (2 : ℝ) ^ k ≠ 0 := by positivity
  rw [mul_div_mul_right _ _ h2]

/-- that endpoint is more than 1000 dblEpsilon away from the exact great circle through `a` and `b` (exact rational arithmetic;
    the true value is 1085.9 dblEpsilon = 2.4e-13, `cellPadding` is 17.2 dblEpsilon) -/
theorem exF2_far : ¬ WithinOfCircle (1000 * dblEps) 0 exF2a exF2b (⟨0x3ff0000000000011⟩, ⟨0x3fd4c98edb968e19⟩) := by
  have h1 : rv (⟨0xbfe6a00328eb3734⟩ : F64) = -1592096229871053 / 2 ^ 51 :=
    (rv_bits (m := -1592096229871053) (k := 1023) (by decide +kernel) (by norm_num)).trans (by norm_num)
  have h2 : rv (⟨0x3fe6a136e4af2daf⟩ : F64) = 6369706624626095 / 2 ^ 53 :=
    (rv_bits (m := 6369706624626095) (k := 1021) (by decide +kernel) (by norm_num)).trans (by norm_num)
  have h3 : rv (⟨0xbf563ca930f4445c⟩ : F64) = -1564786714022167 / 2 ^ 60 :=
    (rv_bits (m := -1564786714022167) (k := 1014) (by decide +kernel) (by norm_num)).trans (by norm_num)
  have h4 : rv (⟨0x3fe6a00328eb3735⟩ : F64) = 6368384919484213 / 2 ^ 53 :=
    (rv_bits (m := 6368384919484213) (k := 1021) (by decide +kernel) (by norm_num)).trans (by norm_num)
  have h5 : rv (⟨0xbfe6a136e4af2db0⟩ : F64) = -398106664039131 / 2 ^ 49 :=
    (rv_bits (m := -398106664039131) (k := 1025) (by decide +kernel) (by norm_num)).trans (by norm_num)
  have h6 : rv (⟨0x3f563ca930f4445d⟩ : F64) = 6259146856088669 / 2 ^ 62 :=
    (rv_bits (m := 6259146856088669) (k := 1012) (by decide +kernel) (by norm_num)).trans (by norm_num)
  have h7 : rv (⟨0x3ff0000000000011⟩ : F64) = 4503599627370513 / 2 ^ 52 :=
    (rv_bits (m := 4503599627370513) (k := 1022) (by decide +kernel) (by norm_num)).trans (by norm_num)
  have h8 : rv (⟨0x3fd4c98edb968e19⟩ : F64) = 5851114940829209 / 2 ^ 54 :=
    (rv_bits (m := 5851114940829209) (k := 1020) (by decide +kernel) (by norm_num)).trans (by norm_num)
  unfold WithinOfCircle exF2a exF2b faceXYZtoUVW dblEps
  simp only
  rw [h1, h2, h3, h4, h5, h6, h7, h8]
  norm_num

/-- AFTER repair D60 the first endpoint on face 0 is `(1 + 17·2^-52, 0x3fd4c98edb969f49)` (what the repaired Go code returns) … -/
theorem exF2_clip_repaired :
    (match clipToPaddedFace exF2a exF2b 0 cellPadding with
      | some (p, _) => p.1.bits == 0x3ff0000000000011 && p.2.bits == 0x3fd4c98edb969f49
      | none => false) = true := by decide +kernel

/-- … and it is within ONE dblEpsilon of the exact great circle (true value 0.017 dblEpsilon; before the repair 1085.9) -/
theorem exF2_near_repaired : WithinOfCircle (1 * dblEps) 0 exF2a exF2b (⟨0x3ff0000000000011⟩, ⟨0x3fd4c98edb969f49⟩) := by
  have h1 : rv (⟨0xbfe6a00328eb3734⟩ : F64) = -1592096229871053 / 2 ^ 51 :=
    (rv_bits (m := -1592096229871053) (k := 1023) (by decide +kernel) (by norm_num)).trans (by norm_num)
  have h2 : rv (⟨0x3fe6a136e4af2daf⟩ : F64) = 6369706624626095 / 2 ^ 53 :=
    (rv_bits (m := 6369706624626095) (k := 1021) (by decide +kernel) (by norm_num)).trans (by norm_num)
  have h3 : rv (⟨0xbf563ca930f4445c⟩ : F64) = -1564786714022167 / 2 ^ 60 :=
    (rv_bits (m := -1564786714022167) (k := 1014) (by decide +kernel) (by norm_num)).trans (by norm_num)
  have h4 : rv (⟨0x3fe6a00328eb3735⟩ : F64) = 6368384919484213 / 2 ^ 53 :=
    (rv_bits (m := 6368384919484213) (k := 1021) (by decide +kernel) (by norm_num)).trans (by norm_num)
  have h5 : rv (⟨0xbfe6a136e4af2db0⟩ : F64) = -398106664039131 / 2 ^ 49 :=
    (rv_bits (m := -398106664039131) (k := 1025) (by decide +kernel) (by norm_num)).trans (by norm_num)
  have h6 : rv (⟨0x3f563ca930f4445d⟩ : F64) = 6259146856088669 / 2 ^ 62 :=
    (rv_bits (m := 6259146856088669) (k := 1012) (by decide +kernel) (by norm_num)).trans (by norm_num)
  have h7 : rv (⟨0x3ff0000000000011⟩ : F64) = 4503599627370513 / 2 ^ 52 :=
    (rv_bits (m := 4503599627370513) (k := 1022) (by decide +kernel) (by norm_num)).trans (by norm_num)
  have h8 : rv (⟨0x3fd4c98edb969f49⟩ : F64) = 5851114940833609 / 2 ^ 54 :=
    (rv_bits (m := 5851114940833609) (k := 1020) (by decide +kernel) (by norm_num)).trans (by norm_num)
  unfold WithinOfCircle exF2a exF2b faceXYZtoUVW dblEps
  simp only
  rw [h1, h2, h3, h4, h5, h6, h7, h8]
  norm_num

/-- **the documented bound failed BEFORE repair D60** (by a factor of more than 100) -/
theorem faceClipDocumented_false : ¬ FaceClipDocumentedOf clipToPaddedFaceOld := by
  intro h
  have hu1 : UnitIsh exF2a := by decide +kernel
  have hu2 : UnitIsh exF2b := by decide +kernel
  have hc := exF2_clip
  cases hclip : clipToPaddedFaceOld exF2a exF2b 0 cellPadding with
  | none => rw [hclip] at hc; exact absurd hc (by decide)
  | some pq =>
    obtain ⟨p, q⟩ := pq
    rw [hclip] at hc
    simp only [Bool.and_eq_true, beq_iff_eq] at hc
    have hp1 : p.1 = ⟨0x3ff0000000000011⟩ := by
      cases hp : p.1 with
      | mk b => have := hc.1; rw [hp] at this; simp only at this; rw [this]
    have hp2 : p.2 = ⟨0x3fd4c98edb968e19⟩ := by
      cases hp : p.2 with
      | mk b => have := hc.2; rw [hp] at this; simp only at this; rw [this]
    have hw := (h exF2a exF2b 0 p q hu1 hu2 (by decide) hclip).1
    apply exF2_far
    have hpe : p = (⟨0x3ff0000000000011⟩, ⟨0x3fd4c98edb968e19⟩) := Prod.ext hp1 hp2
    rw [hpe] at hw
    unfold WithinOfCircle at hw ⊢
    simp only at hw ⊢
    refine le_trans hw ?_
    apply mul_le_mul_of_nonneg_right _ (by positivity)
    unfold dblEps
    norm_num

/-! ## (2) the spherical meaning of a face edge -/

/-- FULL STATEMENT (not proved, and as stated REFUTED by experiment against `/repo` for edges whose endpoints are antipodal up to
    a few ulps: `Point.PointCross` then has no relative accuracy, the uv segment is up to > 1000 dblEpsilon off the exact arc and a
    leaf index cell that the exact edge crosses does not list it — replay `docs/delivered/c06face_experiments/D_antipodal_index_miss…`;
    a true statement must exclude `|v0 + v1|` of the order of an ulp, and — because of `clipPaddedBounded_false` — endpoints that
    differ only by subnormal amounts) of `FaceClipSound`: for unit-ish shapes, whenever the spherical edge `e` of shape `id` meets a
    spherical cell `c` of face `f`, one of the face edges of `(id, e)` on face `f` `MeetsReal` the cell `c`
    (the exact uv segment between its float endpoints meets the uv-rectangle of `c` expanded by `cellPadding − 4·dblEpsilon`;
    the documented budget for this step is `faceClipErrorUVCoord = 9/√2·dblEpsilon ≈ 6.4·dblEpsilon`). -/
def FaceClipSound : Prop :=
  ∀ shapes : Array Shape, VerticesUnit shapes →
    ∀ id, id < shapes.size → ∀ e, e < shapes[id]!.edges.size → ∀ f, f < 6 → ∀ c : CellID,
      isValid c = true → lo (fromFace f) ≤ lo c → hi c ≤ hi (fromFace f) →
      MeetsSphere f (shapes[id]!.edges[e]!).1 (shapes[id]!.edges[e]!).2 c →
      ∃ fe ∈ faceEdgesOf (allFaceEdges shapes) f, fe.shapeID = id ∧ fe.edgeID = e ∧ MeetsReal fe c

/-- gnomonic projection maps great-circle arcs to segments, EXACTLY: for `w0, w1 > 0` and `t ∈ [0,1]` the projection of the
    chord point `(1−t)·P0 + t·P1` is the point with parameter `τ = t·w1/((1−t)·w0 + t·w1) ∈ [0,1]` of the segment between
    the projections of `P0` and `P1` (one coordinate; the same `τ` for both) -/
theorem gnomonic_maps_arcs_to_segments {u0 u1 w0 w1 t : ℝ} (hw0 : 0 < w0) (hw1 : 0 < w1) (h0 : 0 ≤ t) (h1 : t ≤ 1) :
    0 < (1 - t) * w0 + t * w1 ∧
    0 ≤ t * w1 / ((1 - t) * w0 + t * w1) ∧ t * w1 / ((1 - t) * w0 + t * w1) ≤ 1 ∧
    ((1 - t) * u0 + t * u1) / ((1 - t) * w0 + t * w1) =
      u0 / w0 + t * w1 / ((1 - t) * w0 + t * w1) * (u1 / w1 - u0 / w0) :=
  gnomonic_line hw0 hw1 h0 h1

/-- `validFaceXYZToUV(f, v)` of a unit-ish `v` on face `f` is within `2^-54` (a quarter of `dblEpsilon`) per coordinate of
    the exact gnomonic image; the w-coordinate of `v` in the frame of `f` is at least 1/2 -/
theorem sameFace_within (v : V3) (hv : UnitIsh v) :
    1 / 2 ≤ rv (faceXYZtoUVW (STUV.face v) v).z ∧
    |rv (STUV.validFaceXYZToUV (STUV.face v) v).1 - gnoU (STUV.face v) v| ≤ 1 / 2 ^ 54 ∧
    |rv (STUV.validFaceXYZToUV (STUV.face v) v).2 - gnoV (STUV.face v) v| ≤ 1 / 2 ^ 54 := by
  obtain ⟨w, _, _, _, _, e1, e2⟩ := validFace_spec v hv _ rfl
  exact ⟨w, e1, e2⟩

/-- **`FaceClipSound`, same-face case**: a face edge made by `validFaceXYZToUV` from two unit-ish vertices of face `f`
    `MeetsReal` every cell that the spherical edge meets (error `2^-54` per coordinate ≪ `faceClipErrorUVCoord`) -/
theorem faceClipSound_sameFace (fe : FaceEdge) (f : Nat) (h0 : UnitIsh fe.v0) (h1 : UnitIsh fe.v1)
    (hf0 : STUV.face fe.v0 = f) (hf1 : STUV.face fe.v1 = f)
    (ha : fe.a = STUV.validFaceXYZToUV f fe.v0) (hb : fe.b = STUV.validFaceXYZToUV f fe.v1) (c : CellID)
    (hm : MeetsSphere f fe.v0 fe.v1 c) : MeetsReal fe c :=
  sameFace_meetsReal fe f h0 h1 hf0 hf1 ha hb c hm

/-! ## (3) I1 for spherical edges (same-face edges) -/

/-- **every spherical edge with both endpoints on face `f` is listed in every index cell of face `f` it meets**
    (unit-ish shapes; `ReprojOK` is needed only because `build_I1_float` wants ALL face edges bounded).
    Partial w.r.t. `FaceClipSound`: edges whose endpoints lie on different faces are not covered. -/
theorem sphere_I1_sameFace_partial (shapes : Array Shape) (hu : VerticesUnit shapes) (hr : ReprojOK shapes) :
    ∀ x ∈ build shapes, ∀ f, f < 6 → lo (fromFace f) ≤ lo x.id → hi x.id ≤ hi (fromFace f) →
    ∀ id, id < shapes.size → ∀ e, e < shapes[id]!.edges.size →
      STUV.face (shapes[id]!.edges[e]!).1 = f → STUV.face (shapes[id]!.edges[e]!).2 = f →
      MeetsSphere f (shapes[id]!.edges[e]!).1 (shapes[id]!.edges[e]!).2 x.id →
      (id, e) ∈ cellPairs x := by
  intro x hx f hf h1 h2 id hid e he hf0 hf1 hm
  obtain ⟨u0, u1⟩ := hu id hid e he
  -- the record `addShapeInternal` hands to `addFaceEdge`
  let fe0 : FaceEdge :=
    { shapeID := id, edgeID := e,
      maxLevel := maxLevelForEdge (shapes[id]!.edges[e]!).1 (shapes[id]!.edges[e]!).2,
      hasInterior := shapes[id]!.dim == 2, a := (fzero, fzero), b := (fzero, fzero),
      v0 := (shapes[id]!.edges[e]!).1, v1 := (shapes[id]!.edges[e]!).2 }
  have hin := addFaceEdge_sameFace fe0 f hf hf0 hf1
  have hall : (f, { fe0 with a := STUV.validFaceXYZToUV f fe0.v0, b := STUV.validFaceXYZToUV f fe0.v1 }) ∈
      allFaceEdges shapes := by
    unfold allFaceEdges
    rw [List.mem_flatMap]
    refine ⟨id, List.mem_range.2 hid, ?_⟩
    unfold shapeFaceEdges
    rw [List.mem_flatMap]
    exact ⟨e, List.mem_range.2 he, hin⟩
  have hfe : ({ fe0 with a := STUV.validFaceXYZToUV f fe0.v0, b := STUV.validFaceXYZToUV f fe0.v1 } : FaceEdge) ∈
      faceEdgesOf (allFaceEdges shapes) f := by
    unfold faceEdgesOf
    rw [List.mem_filterMap]
    exact ⟨_, hall, by simp⟩
  have hmr := faceClipSound_sameFace
    { fe0 with a := STUV.validFaceXYZToUV f fe0.v0, b := STUV.validFaceXYZToUV f fe0.v1 } f u0 u1 hf0 hf1 rfl rfl x.id hm
  exact build_I1_unit_partial shapes hu hr x hx f hf h1 h2 _ hfe hmr

/-- **unconditional (decidable hypotheses only) end-to-end form**: for unit-ish shapes all of whose edges take the `maxUV` fast path
    (each edge then lies strictly inside one cube face), every spherical edge is listed in every index cell of its face that it meets -/
theorem sphere_I1_direct (shapes : Array Shape) (hu : VerticesUnit shapes) (hd : ShapesDirect shapes) :
    ∀ x ∈ build shapes, ∀ id, id < shapes.size → ∀ e, e < shapes[id]!.edges.size →
      lo (fromFace (STUV.face (shapes[id]!.edges[e]!).1)) ≤ lo x.id →
      hi x.id ≤ hi (fromFace (STUV.face (shapes[id]!.edges[e]!).1)) →
      MeetsSphere (STUV.face (shapes[id]!.edges[e]!).1) (shapes[id]!.edges[e]!).1 (shapes[id]!.edges[e]!).2 x.id →
      (id, e) ∈ cellPairs x := by
  intro x hx id hid e he h1 h2 hm
  have hr := reprojOK_of_faceEdgesOK shapes (faceEdgesOK_of_direct shapes hd)
  have hdir := hd id hid e he
  unfold EdgeDirect at hdir
  simp only [Bool.and_eq_true, beq_iff_eq] at hdir
  exact sphere_I1_sameFace_partial shapes hu hr x hx _ (face_lt_six _ (hu id hid e he).1.fin) h1 h2 id hid e he rfl
    hdir.1.symm hm

/-- **unconditional end-to-end form for point shapes** (and fast-path edges): every point / edge is listed in every index cell of
    its own face that it meets on the sphere -/
theorem sphere_I1_points (shapes : Array Shape) (hu : VerticesUnit shapes) (hp : ShapesPointsOrDirect shapes) :
    ∀ x ∈ build shapes, ∀ id, id < shapes.size → ∀ e, e < shapes[id]!.edges.size →
      lo (fromFace (STUV.face (shapes[id]!.edges[e]!).1)) ≤ lo x.id →
      hi x.id ≤ hi (fromFace (STUV.face (shapes[id]!.edges[e]!).1)) →
      MeetsSphere (STUV.face (shapes[id]!.edges[e]!).1) (shapes[id]!.edges[e]!).1 (shapes[id]!.edges[e]!).2 x.id →
      (id, e) ∈ cellPairs x := by
  intro x hx id hid e he h1 h2 hm
  have hr := reprojOK_of_faceEdgesOK shapes (faceEdgesOK_of_points shapes hu hp)
  have hface : STUV.face (shapes[id]!.edges[e]!).2 = STUV.face (shapes[id]!.edges[e]!).1 := by
    rcases hp id hid e he with hdeg | hdir
    · rw [← hdeg]
    · unfold EdgeDirect at hdir
      simp only [Bool.and_eq_true, beq_iff_eq] at hdir
      exact hdir.1.symm
  exact sphere_I1_sameFace_partial shapes hu hr x hx _ (face_lt_six _ (hu id hid e he).1.fin) h1 h2 id hid e he rfl hface hm

/-! ## non-vacuity -/

/-- a polyline on the unit sphere: (1,0,0) → (0.6,0.8,0) (face 0 → face 1, through `ClipToPaddedFace` on all six faces),
    (0.6,0.8,0) → (0,1,0) (inside face 1), and a degenerate edge at the cube-edge midpoint direction (0.6,0.8,0)
    — all vertices are `UnitIsh` floats (0.6² + 0.8² = 1 up to rounding) -/
def exUnit : Array Shape :=
  #[⟨1, #[(⟨⟨0x3FF0000000000000⟩, ⟨0⟩, ⟨0⟩⟩, ⟨⟨0x3FE3333333333333⟩, ⟨0x3FE999999999999A⟩, ⟨0⟩⟩),
          (⟨⟨0x3FE3333333333333⟩, ⟨0x3FE999999999999A⟩, ⟨0⟩⟩, ⟨⟨0⟩, ⟨0x3FF0000000000000⟩, ⟨0⟩⟩),
          (⟨⟨0x3FE3333333333333⟩, ⟨0x3FE999999999999A⟩, ⟨0⟩⟩, ⟨⟨0x3FE3333333333333⟩, ⟨0x3FE999999999999A⟩, ⟨0⟩⟩)],
     ⟨⟨0x3FF0000000000000⟩, ⟨0⟩, ⟨0⟩⟩, false⟩]

theorem exUnit_unit : VerticesUnit exUnit := by decide +kernel

theorem exUnit_ok : faceEdgesOKb exUnit = true := by decide +kernel

/-- hypotheses of `sphere_I1_direct`: the edge (0.6, 0.8, 0) → (0, 1, 0) inside face 1 … it is within the `maxUV` square (u from −0.75 to 0) -/
def exUnitDirect : Array Shape :=
  #[⟨1, #[(⟨⟨0x3FE3333333333333⟩, ⟨0x3FE999999999999A⟩, ⟨0⟩⟩, ⟨⟨0⟩, ⟨0x3FF0000000000000⟩, ⟨0⟩⟩)],
     ⟨⟨0x3FF0000000000000⟩, ⟨0⟩, ⟨0⟩⟩, false⟩]

example : VerticesUnit exUnitDirect ∧ ShapesDirect exUnitDirect := by decide +kernel

/-- the hypotheses of `build_I1_unit_partial` / `sphere_I1_sameFace_partial` hold for a concrete input -/
example : VerticesUnit exUnit ∧ ReprojOK exUnit :=
  ⟨exUnit_unit, reprojOK_of_faceEdgesOK exUnit (fun f _ fe hfe => faceEdgeOK_of_all exUnit_ok f fe hfe)⟩

example : I1 exUnit MeetsReal :=
  build_I1_unit_partial exUnit exUnit_unit
    (reprojOK_of_faceEdgesOK exUnit (fun f _ fe hfe => faceEdgeOK_of_all exUnit_ok f fe hfe))

/-- hypotheses of `exitPoint_bounded`: the scaled normal of the first edge on face 0 is usable and passes `intersectsFace` -/
example : NOK (scaledNormal (exUnit[0]!.edges[0]!).1 (exUnit[0]!.edges[0]!).2 0) ∧
    intersectsFace (scaledNormal (exUnit[0]!.edges[0]!).1 (exUnit[0]!.edges[0]!).2 0) = true :=
  ⟨scaledNormal_usable _ _ (by decide +kernel) (by decide +kernel) 0, by decide +kernel⟩

end S2Proofs.C06Clip
