/-
  C16 (accuracy and unit length of `Intersection`) — package c16acc.

  All statements are about the bit-exact model `S2.EdgeNum.intersection` (tied to `s2.Intersection` by the regenerated ties
  `Ties/C16_EdgeNum.lean`).  `u = uR = 2^-53`, `ofV p` = the real vector of the exact values of the float vector `p`,
  `ofI X` = an integer vector as a real vector, `R3.SinLe r X ε` :⇔ |r×X|² ≤ ε²|r|²|X|²  (sine of the angle between the lines ≤ ε).
  `Xraw a0 a1 b0 b1 = ((a0×a1)×(b0×b1))` over the exact integers = the exact intersection direction of the two great circles.

  PROVED
    projection_bound_sound        the error estimate computed by `projection` IS an upper bound of the true error of the computed signed
                                  distance (with relative slack 2^-40), for nearly-unit inputs outside the deep-underflow regime
    intersection_accurate_stable  whenever the stable path accepts (and `StableSide` holds), its result is within sin ≤ 8·2^-53 of the exact
                                  intersection direction, finite, of unit length (| |r|² − 1 | ≤ 20·2^-53)
    intersection_accurate_exact   the exact path (non-collinear case) is within sin ≤ 3·2^-53, finite, unit length, correctly oriented w.r.t. Xraw
    intersection_unit             `Intersection` returns a finite point with | |p|² − 1 | ≤ 20·2^-53 = 10·2^-52 for every in-contract,
                                  non-collinear input (NO other side condition)
    accuracyClaim_partial         the clause of `AccuracyClaim` (the judge's verdict is not `no`: the result is on the correct side of the sphere
                                  and sin ≤ 8·2^-53) for every in-contract input whose edges are not nearly antipodal (`NotAntipodal`: excludes
                                  exactly the class of the known finding D38, for which `accuracyClaim_false` refutes the claim) and for which,
                                  IF the stable path accepts, `StableSide` holds
    intersection_radians          the same in radians: the angle between the returned point and the exact crossing is ≤ 8·2^-53·(1 + 2^-100)

  HYPOTHESES LEFT (all decidable predicates on the model, see `C16Acc/Hyp.lean`, `C16Acc/StableSide.lean`)
    NotAntipodal p q   1 + p·q ≥ 2^-40 (edge shorter than π − 2^-19.5).  NECESSARY in some form: finding D38.
    StableSide         (1) the two computed signed distances have weakly opposite signs — in the opposite case the code's estimate
                           `|b0Dist·b1Error − b1Dist·b0Error|` is NOT an a-priori upper bound of the interpolation error (see DELIVER.md);
                       (2)–(3) four quantities ≥ 2^-400 (excludes the deep-underflow regime, where the absolute rounding errors 2^-1075 are
                           not covered by the estimates).
    NonCollinear       (unit length only) the collinear rule of `intersectionExact` is not analysed.
-/
import S2Proofs.C16Acc.StableKernel
import S2Proofs.C16Acc.FinalMargin
import S2Proofs.C16Acc.Radians
import S2Proofs.C16Acc.SameSign

namespace S2Proofs.C16
open S2 S2.Exact S2.EdgeNum S2Proofs.F64Order S2Proofs.FloatErr S2Proofs.C16Acc

/-! ### the kernels -/

/-- **the error estimate of `projection` is an upper bound** (constants `3.5+2√3`, `32√3·dblError`, `1.5`): for finite nearly-unit
    `a0 a1 x`, with `aNormLen ≥ 2^-400` and `dist ≥ 2^-400`, `|proj − x·N| ≤ (1 − 2^-40)·bound`, `N = (a0−a1)×(a0+a1)` exact. -/
theorem projection_bound_sound (a0 a1 x : V3) (u0 : UnitPt a0) (u1 : UnitPt a1) (ux : UnitPt x)
    (gL : F64.le tinyF (aNormF a0 a1).norm = true)
    (gd : F64.le tinyF (F64.sqrt (C16K.pick x a0 a1).norm2) = true) :
    |val (projF a0 a1 x).1 - R3.dot (ofV x) (Nvec (ofV a0) (ofV a1))| ≤ (1 - 1 / 2 ^ 40) * val (projF a0 a1 x).2 :=
  (proj_certified a0 a1 x (unitR_of_unitPt u0) (unitR_of_unitPt u1) (unitR_of_unitPt ux) gL gd).2.2.2.2.2

/-- **(2) the stable path**: an accepted result is finite, within `sin ≤ 8·2^-53` of the exact intersection direction, unit length -/
theorem intersection_accurate_stable (a0 a1 b0 b1 r : V3)
    (u0 : UnitPt a0) (u1 : UnitPt a1) (u2 : UnitPt b0) (u3 : UnitPt b1)
    (side : StableSide a0 a1 b0 b1) (h : intersectionStableSorted a0 a1 b0 b1 = some r) :
    Fin3 r ∧ R3.SinLe (ofV r) (ofI (Xraw a0 a1 b0 b1)) (8 * uR) ∧ |(ofV r).norm2 - 1| ≤ 20 * uR := by
  obtain ⟨f, s, n⟩ := stable_kernel a0 a1 b0 b1 r (unitR_of_unitPt u0) (unitR_of_unitPt u1) (unitR_of_unitPt u2)
    (unitR_of_unitPt u3) side h
  exact ⟨f, sinLe_Xraw s, n⟩

/-- **(3) the exact path** (the two great circles differ): within `sin ≤ 3·2^-53`, oriented like `Xraw`, finite, unit length -/
theorem intersection_accurate_exact (a0 a1 b0 b1 : V3) (hX : NonCollinear a0 a1 b0 b1) :
    Fin3 (intersectionExact a0 a1 b0 b1) ∧
    R3.SinLe (ofV (intersectionExact a0 a1 b0 b1)) (ofI (Xraw a0 a1 b0 b1)) (3 * uR) ∧
    0 < R3.dot (ofV (intersectionExact a0 a1 b0 b1)) (ofI (Xraw a0 a1 b0 b1)) ∧
    |(ofV (intersectionExact a0 a1 b0 b1)).norm2 - 1| ≤ 20 * uR :=
  exact_spec scaleSpec a0 a1 b0 b1 hX

/-! ### the exit of `Intersection` -/

theorem intersection_unfold (a0 a1 b0 b1 : V3) :
    intersection a0 a1 b0 b1 =
      canonZero (signCorrect
        (match intersectionStableSorted (canonArgs a0 a1 b0 b1).1 (canonArgs a0 a1 b0 b1).2.1
            (canonArgs a0 a1 b0 b1).2.2.1 (canonArgs a0 a1 b0 b1).2.2.2 with
          | some p => p
          | none => intersectionExact (canonArgs a0 a1 b0 b1).1 (canonArgs a0 a1 b0 b1).2.1
            (canonArgs a0 a1 b0 b1).2.2.1 (canonArgs a0 a1 b0 b1).2.2.2)
        (sum4 (canonArgs a0 a1 b0 b1).1 (canonArgs a0 a1 b0 b1).2.1 (canonArgs a0 a1 b0 b1).2.2.1
          (canonArgs a0 a1 b0 b1).2.2.2)) := rfl

theorem exit_unit (pt s : V3) (hp : Fin3 pt) :
    Fin3 (canonZero (signCorrect pt s)) ∧ (ofV (canonZero (signCorrect pt s))).norm2 = (ofV pt).norm2 := by
  obtain ⟨fq, hq⟩ := signCorrect_val (s := s) hp
  obtain ⟨fz, vz⟩ := canonZero_val fq
  refine ⟨fz, ?_⟩
  rw [vz]
  rcases hq with ⟨_, e⟩ | ⟨_, e⟩
  · rw [e]
  · rw [e, R3.norm2_neg]

/-- the exact crossing direction of the canonical tuple is `±` that of the caller's tuple -/
theorem xraw_canon (a0 a1 b0 b1 : V3) :
    Xraw (canonArgs a0 a1 b0 b1).1 (canonArgs a0 a1 b0 b1).2.1 (canonArgs a0 a1 b0 b1).2.2.1 (canonArgs a0 a1 b0 b1).2.2.2
        = Xraw a0 a1 b0 b1 ∨
    Xraw (canonArgs a0 a1 b0 b1).1 (canonArgs a0 a1 b0 b1).2.1 (canonArgs a0 a1 b0 b1).2.2.1 (canonArgs a0 a1 b0 b1).2.2.2
        = (Xraw a0 a1 b0 b1).neg := by
  have e : ∀ p q r s : V3, Xraw p q r s = rawX (ofV3 p) (ofV3 q) (ofV3 r) (ofV3 s) := fun _ _ _ _ => rfl
  simp only [e]
  rcases canon_cases a0 a1 b0 b1 with h | h | h | h | h | h | h | h <;> rw [h] <;> simp only
  · exact Or.inl trivial
  · exact Or.inr (rawX_reverse_a _ _ _ _)
  · exact Or.inr (rawX_reverse_b _ _ _ _)
  · left; rw [rawX_reverse_b, rawX_reverse_a, iv3_neg_neg]
  · exact Or.inr (rawX_swap _ _ _ _)
  · left; rw [rawX_reverse_b, rawX_swap, iv3_neg_neg]
  · left; rw [rawX_reverse_a, rawX_swap, iv3_neg_neg]
  · right; rw [rawX_reverse_b, rawX_reverse_a, rawX_swap, iv3_neg_neg]

/-- **(1) unit length**: for every in-contract input whose great circles differ, `Intersection` returns a finite point `p` with
    `| |p|² − 1 | ≤ 20·2^-53` (= 10·2^-52; hence `| |p| − 1 | ≤ 10·2^-53`).  No other side condition. -/
theorem intersection_unit (a0 a1 b0 b1 : V3) (hc : InContract a0 a1 b0 b1) (hX : NonCollinear a0 a1 b0 b1) :
    Fin3 (intersection a0 a1 b0 b1) ∧ |(ofV (intersection a0 a1 b0 b1)).norm2 - 1| ≤ 20 * uR := by
  obtain ⟨u0, u1, u2, u3, _⟩ := hc
  obtain ⟨c0, c1, c2, c3⟩ := canon_forall UnitR a0 a1 b0 b1 (unitR_of_unitPt u0) (unitR_of_unitPt u1)
    (unitR_of_unitPt u2) (unitR_of_unitPt u3)
  have hXc : NonCollinear (canonArgs a0 a1 b0 b1).1 (canonArgs a0 a1 b0 b1).2.1 (canonArgs a0 a1 b0 b1).2.2.1
      (canonArgs a0 a1 b0 b1).2.2.2 := by
    unfold NonCollinear at *
    rcases xraw_canon a0 a1 b0 b1 with e | e <;> rw [e]
    · exact hX
    · exact iv3_neg_ne_zero hX
  rw [intersection_unfold]
  cases hK : intersectionStableSorted (canonArgs a0 a1 b0 b1).1 (canonArgs a0 a1 b0 b1).2.1
      (canonArgs a0 a1 b0 b1).2.2.1 (canonArgs a0 a1 b0 b1).2.2.2 with
  | some r =>
    simp only
    obtain ⟨fr, hu⟩ := stable_unit _ _ _ _ r c0 c1 c2 c3 hK
    obtain ⟨fz, hn⟩ := exit_unit r (sum4 (canonArgs a0 a1 b0 b1).1 (canonArgs a0 a1 b0 b1).2.1
      (canonArgs a0 a1 b0 b1).2.2.1 (canonArgs a0 a1 b0 b1).2.2.2) fr
    exact ⟨fz, by rw [hn]; exact hu⟩
  | none =>
    simp only
    obtain ⟨fp, _, _, hu⟩ := intersection_accurate_exact _ _ _ _ hXc
    obtain ⟨fz, hn⟩ := exit_unit _ (sum4 (canonArgs a0 a1 b0 b1).1 (canonArgs a0 a1 b0 b1).2.1
      (canonArgs a0 a1 b0 b1).2.2.1 (canonArgs a0 a1 b0 b1).2.2.2) fp
    exact ⟨fz, by rw [hn]; exact hu⟩

/-- the stable-path side condition of an input: IF the stable path accepts on the canonical tuple, `StableSide` holds there -/
def StableSideIfAccepted (a0 a1 b0 b1 : V3) : Prop :=
  (intersectionStableSorted (canonArgs a0 a1 b0 b1).1 (canonArgs a0 a1 b0 b1).2.1 (canonArgs a0 a1 b0 b1).2.2.1
      (canonArgs a0 a1 b0 b1).2.2.2).isSome = true →
    StableSide (canonArgs a0 a1 b0 b1).1 (canonArgs a0 a1 b0 b1).2.1 (canonArgs a0 a1 b0 b1).2.2.1
      (canonArgs a0 a1 b0 b1).2.2.2

instance (a0 a1 b0 b1 : V3) : Decidable (StableSideIfAccepted a0 a1 b0 b1) := by
  unfold StableSideIfAccepted; infer_instance

/-- the full statement behind `accuracyClaim_partial` -/
theorem intersection_accurate (a0 a1 b0 b1 : V3) (hc : InContract a0 a1 b0 b1)
    (hna : NotAntipodal a0 a1) (hnb : NotAntipodal b0 b1) (hside : StableSideIfAccepted a0 a1 b0 b1)
    (X : IV3) (hX : IA.exactCrossingClosed (ofV3 a0) (ofV3 a1) (ofV3 b0) (ofV3 b1) = some X) :
    Fin3 (intersection a0 a1 b0 b1) ∧
    IA.angleLe (ofV3 (intersection a0 a1 b0 b1)) X ⟨8, 2 ^ 53⟩ ≠ IA.Tri.no ∧
    R3.SinLe (ofV (intersection a0 a1 b0 b1)) (ofI X) (8 * uR) ∧
    0 < R3.dot (ofV (intersection a0 a1 b0 b1)) (ofI X) ∧
    |(ofV (intersection a0 a1 b0 b1)).norm2 - 1| ≤ 20 * uR := by
  obtain ⟨u0, u1, u2, u3, _⟩ := hc
  obtain ⟨hXrc, c0, c1, c2, c3⟩ := canon_crossing a0 a1 b0 b1 u0 u1 u2 u3 hna hnb X hX
  have h8 : (0 : ℝ) ≤ 8 * uR := by unfold uR; positivity
  rw [intersection_unfold]
  cases hK : intersectionStableSorted (canonArgs a0 a1 b0 b1).1 (canonArgs a0 a1 b0 b1).2.1
      (canonArgs a0 a1 b0 b1).2.2.1 (canonArgs a0 a1 b0 b1).2.2.2 with
  | some r =>
    simp only
    have side := hside (by rw [hK]; rfl)
    obtain ⟨fr, hs, hu⟩ := stable_kernel _ _ _ _ r c0 c1 c2 c3 side hK
    obtain ⟨fz, hv, hsq, hd, hn⟩ := final_of_kernel a0 a1 b0 b1 u0 u1 u2 u3 hna hnb X hX r fr h8 (le_refl _)
      (sinLe_Xraw hs) hu
    exact ⟨fz, hv, hsq, hd, by rw [hn]; exact hu⟩
  | none =>
    simp only
    obtain ⟨fp, hs, _, hu⟩ := intersection_accurate_exact _ _ _ _ hXrc
    have h3 : (0 : ℝ) ≤ 3 * uR := by unfold uR; positivity
    have h38 : 3 * uR ≤ 8 * uR := by unfold uR; norm_num
    obtain ⟨fz, hv, hsq, hd, hn⟩ := final_of_kernel a0 a1 b0 b1 u0 u1 u2 u3 hna hnb X hX _ fp h3 h38 hs hu
    exact ⟨fz, hv, hsq.mono h3 h38, hd, by rw [hn]; exact hu⟩

/-- **C16 accuracy, partial**: the clause of `AccuracyClaim` for the inputs outside the D38 class (`NotAntipodal`) that satisfy the
    stable-path side condition.  (`accuracyClaim_false`: without `NotAntipodal` the clause is false.) -/
theorem accuracyClaim_partial (a0 a1 b0 b1 : V3) (hc : InContract a0 a1 b0 b1)
    (hna : NotAntipodal a0 a1) (hnb : NotAntipodal b0 b1) (hside : StableSideIfAccepted a0 a1 b0 b1) :
    ∀ X, IA.exactCrossingClosed (ofV3 a0) (ofV3 a1) (ofV3 b0) (ofV3 b1) = some X →
      IA.angleLe (ofV3 (intersection a0 a1 b0 b1)) X ⟨8, 2 ^ 53⟩ ≠ IA.Tri.no :=
  fun X hX => (intersection_accurate a0 a1 b0 b1 hc hna hnb hside X hX).2.1

/-- **in radians**: the angle between the returned point and the (oriented) exact crossing point is at most `8·2^-53·(1 + 2^-100)` -/
theorem intersection_radians (a0 a1 b0 b1 : V3) (hc : InContract a0 a1 b0 b1)
    (hna : NotAntipodal a0 a1) (hnb : NotAntipodal b0 b1) (hside : StableSideIfAccepted a0 a1 b0 b1)
    (X : IV3) (hX : IA.exactCrossingClosed (ofV3 a0) (ofV3 a1) (ofV3 b0) (ofV3 b1) = some X) :
    vecAngle (ofV (intersection a0 a1 b0 b1)) (ofI X) ≤ 8 / 2 ^ 53 * (1 + 1 / 2 ^ 100) := by
  obtain ⟨_, _, hs, hd, hn⟩ := intersection_accurate a0 a1 b0 b1 hc hna hnb hside X hX
  have hr : 0 < (ofV (intersection a0 a1 b0 b1)).norm := by
    apply Real.sqrt_pos.mpr
    have := (abs_le.mp hn).1
    have : (20 : ℝ) * uR ≤ 1 / 2 := by unfold uR; norm_num
    linarith
  have hXn : 0 < (ofI X).norm := by
    by_contra h0
    have h0' : (ofI X).norm = 0 := le_antisymm (not_lt.mp h0) (R3.norm_nonneg _)
    have := R3.abs_dot_le (ofV (intersection a0 a1 b0 b1)) (ofI X)
    rw [h0', mul_zero] at this
    have := abs_nonneg (R3.dot (ofV (intersection a0 a1 b0 b1)) (ofI X))
    have h1 : |R3.dot (ofV (intersection a0 a1 b0 b1)) (ofI X)| = 0 := le_antisymm ‹_› this
    rw [abs_eq_zero] at h1
    linarith
  rw [vecAngle_eq_lineAngle hr hXn hd.le]
  exact lineAngle_le_8u hr hXn hs

/-! ### the sharp side condition of the hemisphere test -/

/-- the statement of `intersection_accurate` with `NotAntipodal a0 a1 ∧ NotAntipodal b0 b1` replaced by the SHARP condition `HemiMargin`
    (`X·S ≥ 2^-40·|X|` for the oriented exact crossing `X` and the exact vertex sum `S`, decided in integer arithmetic): it also covers
    inputs in which only ONE of the edges is nearly antipodal. -/
theorem intersection_accurate_margin (a0 a1 b0 b1 : V3) (hc : InContract a0 a1 b0 b1)
    (hside : StableSideIfAccepted a0 a1 b0 b1)
    (X : IV3) (hX : IA.exactCrossingClosed (ofV3 a0) (ofV3 a1) (ofV3 b0) (ofV3 b1) = some X)
    (hm : HemiMargin a0 a1 b0 b1 X) :
    Fin3 (intersection a0 a1 b0 b1) ∧
    IA.angleLe (ofV3 (intersection a0 a1 b0 b1)) X ⟨8, 2 ^ 53⟩ ≠ IA.Tri.no ∧
    R3.SinLe (ofV (intersection a0 a1 b0 b1)) (ofI X) (8 * uR) ∧
    0 < R3.dot (ofV (intersection a0 a1 b0 b1)) (ofI X) ∧
    |(ofV (intersection a0 a1 b0 b1)).norm2 - 1| ≤ 20 * uR := by
  obtain ⟨u0, u1, u2, u3, _⟩ := hc
  obtain ⟨_, _, hXrc, _⟩ := crossing_pm a0 a1 b0 b1 X hX
  obtain ⟨c0, c1, c2, c3⟩ := canon_forall UnitR a0 a1 b0 b1 (unitR_of_unitPt u0) (unitR_of_unitPt u1)
    (unitR_of_unitPt u2) (unitR_of_unitPt u3)
  have h8 : (0 : ℝ) ≤ 8 * uR := by unfold uR; positivity
  rw [intersection_unfold]
  cases hK : intersectionStableSorted (canonArgs a0 a1 b0 b1).1 (canonArgs a0 a1 b0 b1).2.1
      (canonArgs a0 a1 b0 b1).2.2.1 (canonArgs a0 a1 b0 b1).2.2.2 with
  | some r =>
    simp only
    have side := hside (by rw [hK]; rfl)
    obtain ⟨fr, hs, hu⟩ := stable_kernel _ _ _ _ r c0 c1 c2 c3 side hK
    obtain ⟨fz, hv, hsq, hd, hn⟩ := final_of_kernel_margin a0 a1 b0 b1 u0 u1 u2 u3 X hX hm r fr h8 (le_refl _)
      (sinLe_Xraw hs) hu
    exact ⟨fz, hv, hsq, hd, by rw [hn]; exact hu⟩
  | none =>
    simp only
    obtain ⟨fp, hs, _, hu⟩ := intersection_accurate_exact _ _ _ _ hXrc
    have h3 : (0 : ℝ) ≤ 3 * uR := by unfold uR; positivity
    have h38 : 3 * uR ≤ 8 * uR := by unfold uR; norm_num
    obtain ⟨fz, hv, hsq, hd, hn⟩ := final_of_kernel_margin a0 a1 b0 b1 u0 u1 u2 u3 X hX hm _ fp h3 h38 hs hu
    exact ⟨fz, hv, hsq.mono h3 h38, hd, by rw [hn]; exact hu⟩

/-- **C16 accuracy, partial, sharp form**: the clause of `AccuracyClaim` for every in-contract input with `HemiMargin` and the stable-path side
    condition -/
theorem accuracyClaim_margin_partial (a0 a1 b0 b1 : V3) (hc : InContract a0 a1 b0 b1)
    (hside : StableSideIfAccepted a0 a1 b0 b1) :
    ∀ X, IA.exactCrossingClosed (ofV3 a0) (ofV3 a1) (ofV3 b0) (ofV3 b1) = some X → HemiMargin a0 a1 b0 b1 X →
      IA.angleLe (ofV3 (intersection a0 a1 b0 b1)) X ⟨8, 2 ^ 53⟩ ≠ IA.Tri.no :=
  fun X hX hm => (intersection_accurate_margin a0 a1 b0 b1 hc hside X hX hm).2.1

/-! ### the guard of `projection_bound_sound` is necessary (deep-underflow regime) -/

private def mkT (x y z : UInt64) : V3 := ⟨⟨x⟩, ⟨y⟩, ⟨z⟩⟩
private def t0 := mkT 0x0000000000000000 0x3ff0000000000000 0x8000000000000000
private def t1 := mkT 0xbe77a541fa0c7cdb 0x3fefffffffffffd4 0x3e67e3316b572d48
private def tx := mkT 0x813b112136bbc703 0x3ff0000000000000 0x012b58075e24e2cf

/-- **without the `dist` guard the error estimate of `projection` is NOT an upper bound**: for these three unit vectors (found by experiment;
    `x` is 1e-302 away from the endpoint `a0`, so `|x − a0|²` underflows to 0) `bound = 0` although `proj ≠ x·N`
    (`proj·2^2148 ≠ x·N` over the scaled integers).  `aNormLen ≥ 2^-400` holds, only the guard on `dist` fails.  Harmless for `Intersection`
    (such a `proj` is far below the `2^-511` that the `xLen2 ≥ 2^-1022` guard of the stable path demands of `|x|`), but it is why `StableSide`
    has clause (3). -/
theorem projection_bound_needs_guard :
    UnitPt t0 ∧ UnitPt t1 ∧ UnitPt tx ∧ F64.le tinyF (aNormF t0 t1).norm = true ∧
    F64.le tinyF (F64.sqrt (C16K.pick tx t0 t1).norm2) = false ∧
    toInt (projF t0 t1 tx).2 = 0 ∧
    toInt (projF t0 t1 tx).1 * (scale : Int) ^ 2 ≠
      (ofV3 tx).dot (((ofV3 t0).sub (ofV3 t1)).cross ((ofV3 t0).add (ofV3 t1))) := by decide +kernel

/-- observation F-b: `float64(dblError)` (the decimal constant `1.110223024625156e-16`) is NOT `2^-53 = roundingEpsilon(float64)`: it is
    smaller, and so `float64(intersectionError) − tErr < 7·2^-53` (the acceptance threshold of the stable path errs on the safe side) -/
theorem dblError_lt_roundingEpsilon :
    toInt dblErrorF < toInt tErr ∧ toInt (intersectionErrorF - tErr) < 7 * 2 ^ 1021 := by decide +kernel

/-! ### the regime excluded by `StableSide` (1): computed distances of the SAME sign

  In exact arithmetic the code's interpolation-error formula `|d0·ε1 − d1·ε0| / (|d0−d1| − (ε0+ε1))` is STILL an upper bound of the
  scaled interpolation error `|t̃ − t|·|d0−d1| = |d0·P1 − d1·P0| / |P0−P1|` when the computed distances have the same sign, because
  the true distances of crossing edges have opposite signs (`P0·P1 ≤ 0`), which forces `|d1| ≤ ε1`.  What is NOT proved in that regime
  is the float evaluation: the numerator `fl(fl(d0·ε1) − fl(d1·ε0))` then suffers cancellation (the two products have the same sign), and
  the first-order slack that pays for the second-order terms in `stable_core` is no longer proportional to the term it has to cover. -/
theorem stable_estimate_same_sign_exact {d0 d1 ε0 ε1 P0 P1 : ℝ} (hs : 0 < d0 * d1)
    (hε0 : 0 ≤ ε0) (hε1 : 0 ≤ ε1) (hP0 : |d0 - P0| ≤ ε0) (hP1 : |d1 - P1| ≤ ε1) (hcross : P0 * P1 ≤ 0)
    (hacc : ε0 + ε1 < |d0 - d1|) :
    P0 - P1 ≠ 0 ∧ |d0 * P1 - d1 * P0| / |P0 - P1| ≤ |d0 * ε1 - d1 * ε0| / (|d0 - d1| - (ε0 + ε1)) :=
  same_sign_formula hs hε0 hε1 hP0 hP1 hcross hacc

/-! ### the collinear branch (partial) -/

theorem pickMin_mem (l : List (V3 × Bool)) (x : V3) :
    l.foldl pickStep x = x ∨ ∃ c ∈ l, l.foldl pickStep x = c.1 := by
  induction l generalizing x with
  | nil => exact Or.inl rfl
  | cons c t ih =>
    simp only [List.foldl_cons]
    rcases ih (pickStep x c) with h | ⟨c', hc', h⟩
    · rw [h]
      unfold pickStep
      split
      · exact Or.inr ⟨c, List.mem_cons_self, rfl⟩
      · exact Or.inl rfl
    · exact Or.inr ⟨c', List.mem_cons_of_mem _ hc', h⟩

/-- **unit length incl. the collinear branch, as far as it goes**: for every in-contract input, if the great circles differ OR the collinear
    rule of `intersectionExact` does not return its sentinel `(10,10,10)` on the canonical tuple, the result is finite and `| |p|² − 1 | ≤ 20·2^-53`.
    (NOT proved: that for crossing collinear edges the rule always finds a vertex.) -/
theorem intersection_unit_partial (a0 a1 b0 b1 : V3) (hc : InContract a0 a1 b0 b1)
    (hX : NonCollinear a0 a1 b0 b1 ∨
      intersectionExact (canonArgs a0 a1 b0 b1).1 (canonArgs a0 a1 b0 b1).2.1 (canonArgs a0 a1 b0 b1).2.2.1
        (canonArgs a0 a1 b0 b1).2.2.2 ≠ C16K.bigV) :
    Fin3 (intersection a0 a1 b0 b1) ∧ |(ofV (intersection a0 a1 b0 b1)).norm2 - 1| ≤ 20 * uR := by
  rcases hX with hX | hX
  · exact intersection_unit a0 a1 b0 b1 hc hX
  obtain ⟨u0, u1, u2, u3, _⟩ := hc
  obtain ⟨c0, c1, c2, c3⟩ := canon_forall UnitR a0 a1 b0 b1 (unitR_of_unitPt u0) (unitR_of_unitPt u1)
    (unitR_of_unitPt u2) (unitR_of_unitPt u3)
  rw [intersection_unfold]
  have h20 : (1 : ℝ) / 2 ^ 50 + 1 / 2 ^ 100 ≤ 20 * uR := by unfold uR; norm_num
  cases hK : intersectionStableSorted (canonArgs a0 a1 b0 b1).1 (canonArgs a0 a1 b0 b1).2.1
      (canonArgs a0 a1 b0 b1).2.2.1 (canonArgs a0 a1 b0 b1).2.2.2 with
  | some r =>
    simp only
    obtain ⟨fr, hu⟩ := stable_unit _ _ _ _ r c0 c1 c2 c3 hK
    obtain ⟨fz, hn⟩ := exit_unit r (sum4 (canonArgs a0 a1 b0 b1).1 (canonArgs a0 a1 b0 b1).2.1
      (canonArgs a0 a1 b0 b1).2.2.1 (canonArgs a0 a1 b0 b1).2.2.2) fr
    exact ⟨fz, by rw [hn]; exact hu⟩
  | none =>
    simp only
    generalize (canonArgs a0 a1 b0 b1).1 = t0 at *
    generalize (canonArgs a0 a1 b0 b1).2.1 = t1 at *
    generalize (canonArgs a0 a1 b0 b1).2.2.1 = t2 at *
    generalize (canonArgs a0 a1 b0 b1).2.2.2 = t3 at *
    -- the exact kernel returned a finite point of (nearly) unit length: either the rounded direction, or a vertex
    have hE : Fin3 (intersectionExact t0 t1 t2 t3) ∧ |(ofV (intersectionExact t0 t1 t2 t3)).norm2 - 1| ≤ 20 * uR := by
      by_cases hnc : NonCollinear t0 t1 t2 t3
      · obtain ⟨fp, _, _, hu⟩ := intersection_accurate_exact _ _ _ _ hnc
        exact ⟨fp, hu⟩
      · rw [C16K.exact_eq] at hX ⊢
        by_cases hz : V3.feq (C16K.xOf t0 t1 t2 t3) zero3 = true
        · rw [if_pos hz] at hX ⊢
          unfold pickMin at hX ⊢
          rcases pickMin_mem (C16K.cands t0 t1 t2 t3) C16K.bigV with h | ⟨c, hc, h⟩
          · exact absurd h hX
          · rw [h]
            unfold C16K.cands at hc
            simp only [List.mem_cons, List.mem_nil_iff, or_false] at hc
            rcases hc with rfl | rfl | rfl | rfl
            · exact ⟨c0.1, le_trans c0.2 h20⟩
            · exact ⟨c1.1, le_trans c1.2 h20⟩
            · exact ⟨c2.1, le_trans c2.2 h20⟩
            · exact ⟨c3.1, le_trans c3.2 h20⟩
        · -- the rounded direction is not the zero vector although the exact one is: impossible
          exfalso
          apply hz
          unfold NonCollinear at hnc
          have hzero : Xraw t0 t1 t2 t3 = ⟨0, 0, 0⟩ := not_not.mp hnc
          have hv : ((C16K.nrm t0 t1).cross (C16K.nrm t2 t3)).toIV3 = Xraw t0 t1 t2 t3 := by
            rw [C16K.toIV3_cross]; unfold C16K.nrm; rw [C16K.toIV3_cross, C16K.toIV3_cross, C16K.toIV3_ofV3,
              C16K.toIV3_ofV3, C16K.toIV3_ofV3, C16K.toIV3_ofV3]; rfl
          rw [hzero] at hv
          unfold C16K.xOf
          apply toVector_zero
          unfold PV.toIV3 at hv
          simp only [IV3.mk.injEq] at hv
          exact hv
    obtain ⟨fz, hn⟩ := exit_unit _ (sum4 t0 t1 t2 t3) hE.1
    exact ⟨fz, by rw [hn]; exact hE.2⟩

/-! ### non-vacuity: concrete in-contract inputs satisfying every hypothesis -/

private def mk (x y z : UInt64) : V3 := ⟨⟨x⟩, ⟨y⟩, ⟨z⟩⟩
private def e0 := mk 0xbfefd44ddc89bf69 0x3fba67e5fdc238ad 0x8000000000000001
private def e1 := mk 0xbfe8a56939bcbcbb 0xbfd7323388dac21c 0x3fe0cb605d9b5942
private def e2 := mk 0xbfd0fc39f116dc7b 0x3feeda3bd53c8ea0 0x8000000000000000
private def e3 := mk 0xbfeff135f8e02bbe 0x3faec05ffe58da34 0x8000000000000000

/-- an input on which the STABLE path accepts and all hypotheses of `intersection_accurate` hold -/
example : InContract e0 e1 e2 e3 ∧ NotAntipodal e0 e1 ∧ NotAntipodal e2 e3 ∧ StableSideIfAccepted e0 e1 e2 e3 ∧
    NonCollinear e0 e1 e2 e3 ∧
    (intersectionStableSorted (canonArgs e0 e1 e2 e3).1 (canonArgs e0 e1 e2 e3).2.1 (canonArgs e0 e1 e2 e3).2.2.1
      (canonArgs e0 e1 e2 e3).2.2.2).isSome = true ∧
    (IA.exactCrossingClosed (ofV3 e0) (ofV3 e1) (ofV3 e2) (ofV3 e3)).isSome = true := by decide +kernel

private def g0 := mk 0x3fefd7583bc82e2a 0x3fb9791363068b55 0x0000000000000000
private def g1 := mk 0x3fb97105218e28c2 0x3fefcd4669f1b2f2 0x3fa97105218e28c2
private def g2 := mk 0x3febe9369b855b66 0x3fdf46cc0e03ee18 0x3f94c35b6bb9e79a
private def g3 := mk 0x3fdf4d54ee2bcf86 0x3febe135387f4c4f 0x3fa543ab74316169

/-- an input (edges crossing at an angle of ~1e-15) on which the stable path REJECTS, the EXACT path is taken, and all hypotheses hold -/
example : InContract g0 g1 g2 g3 ∧ NotAntipodal g0 g1 ∧ NotAntipodal g2 g3 ∧ StableSideIfAccepted g0 g1 g2 g3 ∧
    NonCollinear g0 g1 g2 g3 ∧
    (intersectionStableSorted (canonArgs g0 g1 g2 g3).1 (canonArgs g0 g1 g2 g3).2.1 (canonArgs g0 g1 g2 g3).2.2.1
      (canonArgs g0 g1 g2 g3).2.2.2).isSome = false ∧
    (IA.exactCrossingClosed (ofV3 g0) (ofV3 g1) (ofV3 g2) (ofV3 g3)).isSome = true := by decide +kernel

private def k0 := mk 0x0000000000000000 0x3fee405c2c895498 0xbfd4ddd1118f2cc3
private def k1 := mk 0x0000000000000000 0xbfa7771b1bbb43e1 0xbfeff7645e7860e3
private def k2 := mk 0x0000000000000000 0xbfa657fd72b54c3d 0xbfeff8321526404e
private def k3 := mk 0x0000000000000000 0xbfe3813010bbeb1e 0xbfe95e60a884f08f

/-- exactly collinear overlapping edges (regression input F3): the hypotheses of `intersection_unit_partial` hold through its second disjunct -/
example : InContract k0 k1 k2 k3 ∧ ¬ NonCollinear k0 k1 k2 k3 ∧
    intersectionExact (canonArgs k0 k1 k2 k3).1 (canonArgs k0 k1 k2 k3).2.1 (canonArgs k0 k1 k2 k3).2.2.1
      (canonArgs k0 k1 k2 k3).2.2.2 ≠ C16K.bigV := by decide +kernel

private def s0 := mk 0x0000000000000000 0xbf1ac9f51a64ef76 0xbfeffffffd325ae4
private def s1 := mk 0x0000000000000000 0x3c04616c7b5e9928 0xbff0000000000000
private def s2 := mk 0x3f827c12b90b0197 0x3fab29af63c091c6 0xbfeff4211984a5e8
private def s3 := mk 0xbf69e9c5bf477dc0 0xbf930a18c5b8d71e 0xbfeffe8af97620d6

/-- the regime excluded by `StableSide` (1) is inhabited: an in-contract input (found by the generator `c16`) on which the stable path ACCEPTS
    although its two computed signed distances have the SAME sign (finding F-a of DELIVER.md; the actual error on this input is far below the bound) -/
example : InContract s0 s1 s2 s3 ∧ NotAntipodal s0 s1 ∧ NotAntipodal s2 s3 ∧
    (intersectionStableSorted (canonArgs s0 s1 s2 s3).1 (canonArgs s0 s1 s2 s3).2.1 (canonArgs s0 s1 s2 s3).2.2.1
      (canonArgs s0 s1 s2 s3).2.2.2).isSome = true ∧
    0 < toInt (projF (canonArgs s0 s1 s2 s3).1 (canonArgs s0 s1 s2 s3).2.1 (canonArgs s0 s1 s2 s3).2.2.1).1 *
        toInt (projF (canonArgs s0 s1 s2 s3).1 (canonArgs s0 s1 s2 s3).2.1 (canonArgs s0 s1 s2 s3).2.2.2).1 ∧
    ¬ StableSideIfAccepted s0 s1 s2 s3 := by decide +kernel

private def m0 := mk 0xbfeffffffffaec4b 0x3ee1d279f2c38217 0x3eb59c487eca8a63
private def m1 := mk 0x3feffffffffaf335 0xbee1c653a0993b21 0xbeb58d8d0a32356d
private def m2 := mk 0xbfefffe52aedfa6d 0x3f747eb989a8ccd8 0x3f485aedfd147da8
private def m3 := mk 0x3feffffffff1e802 0xbeedb512eb6493dd 0xbec1a6bbbfa1eddd

/-- an input (generator class "nearly antipodal endpoints") that is NOT covered by `intersection_accurate` (an edge is nearly antipodal) but
    satisfies all hypotheses of `intersection_accurate_margin` -/
example : InContract m0 m1 m2 m3 ∧ ¬ (NotAntipodal m0 m1 ∧ NotAntipodal m2 m3) ∧ StableSideIfAccepted m0 m1 m2 m3 ∧
    (IA.exactCrossingClosed (ofV3 m0) (ofV3 m1) (ofV3 m2) (ofV3 m3)).any
      (fun X => decide (HemiMargin m0 m1 m2 m3 X)) = true := by decide +kernel

end S2Proofs.C16
