/-
  C04 — "For any valid loop or polygon, whether it contains a point equals the parity of exact edge
  crossings from a fixed reference point, and the answer is the same whichever evaluation path is
  taken (brute force, spatial index, containment query object, before or after the index exists).
  Consequently any family of loops that tiles the sphere with shared edges (all cells of one level,
  the six faces, a loop and its inverse, a polygon and its complement) contains every point,
  including vertices and points on shared edges, exactly once."

  Model: `S2.Contain` (generic in the geometry `Geo P`; the oracle instantiates it with the exact
  orientation predicate).  What is proved here, for EVERY geometry with the stated laws, every loop
  size and every point (vertices included):

  * parity definition: `bruteContains` IS the crossing parity from the reference point XOR
    `originInside` (definition of the model = the code of `bruteForceContainsPoint`; tied to the
    implementation by the correspondence check `c04contain`);
  * inversion law (a): `bruteContains (invert L) p = !bruteContains L p`; a loop and its inverse
    contain every point exactly once;
  * polygons (b): the XOR over loops that `Polygon.ContainsPoint` computes equals
    `containsBruteForce` on the polygon seen as a Shape (holes traversed backwards, reference point
    = origin, contained = XOR of the loops' origin bits); inverting one loop complements the polygon;
    polygon + complement contain every point exactly once;
  * path equality (c): under the index invariants of one cell — the listed edge ids are
    duplicate-free and in range, I2 (no unlisted edge counts as a crossing of centre → p), I3
    (`containsCenter` = brute force at the centre) — and the parity cocycle (geometry, assumed),
    `Loop/Polygon.iteratorContainsPoint` and `ContainsPointQuery.shapeContains` (semi-open) return
    the brute-force answer; the open / closed models differ from it exactly when `p` is an endpoint
    of a listed edge.  (I1 — cells sorted, valid, disjoint — is what makes `LocatePoint` find THE
    cell: S2Proofs.Properties.C06 `locatePoint_*`; here the located cell is given.)

  Hypotheses (all explicit):
    `EqLaws G`     Go `==` on points is an equivalence (float vectors without NaN)
    `CrossLaws G`  edge-reversal symmetry of `EdgeOrVertexCrossing`; DERIVED here
                   (`crossLaws_of_signLaws`) from `EqLaws` and the swap antisymmetry of the
                   orientation sign `rs b a c = -rs a b c` (property C02)
    `ParityCocycle` crossing parity along ref → centre → p equals the parity along ref → p
                   (geometry of closed chains on the sphere; NOT proved, exercised by the oracle:
                   every index-path answer is compared with the exact brute-force parity)
  Not a theorem: `CellLoopsTile` (cell loops of one level contain every point exactly once) —
  Jordan-type geometry; searched exhaustively for levels 0–3 and on sampled neighbourhoods by the
  op `c04tile`.
-/
import S2.Contain
import S2Proofs.Contain.Basic
import S2Proofs.Contain.Cross
import Mathlib.Tactic.Ring
namespace S2Proofs.C04
open S2 S2.Contain S2Proofs.Contain

variable {P : Type}

/-! ### a concrete small geometry for the non-vacuity examples: integer points of the plane -/

/-- planar orientation of integer points; reference direction = one step to the right -/
def toyGeo : Geo (Int × Int) where
  eq a b := a == b
  rs a b c := Int.sign ((b.1 - a.1) * (c.2 - a.2) - (b.2 - a.2) * (c.1 - a.1))
  refDir a := (a.1 + 1, a.2)
  southern a := decide (a.2 < 0)

theorem toy_eqLaws : EqLaws toyGeo where
  refl a := by simp [toyGeo]
  symm a b h := by simp only [toyGeo, beq_iff_eq] at h ⊢; exact h.symm
  trans a b c h1 h2 := by simp only [toyGeo, beq_iff_eq] at h1 h2 ⊢; exact h1.trans h2

theorem toy_signSwap (a b c : Int × Int) : toyGeo.rs b a c = -(toyGeo.rs a b c) := by
  simp only [toyGeo]
  rw [← Int.sign_neg]
  congr 1
  ring

/-- the toy geometry satisfies the laws every theorem below assumes -/
theorem toy_crossLaws : CrossLaws toyGeo := crossLaws_of_signLaws toy_eqLaws toy_signSwap

/-- a square and a far reference point -/
def toySquare : LoopM (Int × Int) := mkLoop toyGeo (-7, -5) #[(0, 0), (4, 0), (4, 4), (0, 4)]

example : bruteContains toyGeo (-7, -5) toySquare (2, 2) = true := by decide
example : bruteContains toyGeo (-7, -5) toySquare (9, 2) = false := by decide
example : bruteContains toyGeo (-7, -5) (invert toySquare) (2, 2) = false := by decide +kernel
-- a vertex and a boundary point are decided too (semi-open rule)
example : bruteContains toyGeo (-7, -5) toySquare (0, 4) = true := by decide
example : bruteContains toyGeo (-7, -5) toySquare (4, 4) = false := by decide

/-! ### (0) the laws of the crossing function -/

/-- `EdgeOrVertexCrossing(a,b,c,d) = EdgeOrVertexCrossing(a,b,d,c)` whenever `==` is an
    equivalence and the orientation sign is antisymmetric in its first two arguments. -/
theorem crossLaws_of_signLaws {G : Geo P} (hE : EqLaws G)
    (hS : ∀ a b c, G.rs b a c = -(G.rs a b c)) : CrossLaws G :=
  S2Proofs.Contain.crossLaws_of_signLaws hE hS

example : CrossLaws toyGeo := crossLaws_of_signLaws toy_eqLaws toy_signSwap

/-! ### (a) parity and inversion -/

/-- Reversing the vertex order does not change the crossing parity of any segment with the loop. -/
theorem crossParity_reverse {G : Geo P} (hC : CrossLaws G) (a b : P) (vs : List P) :
    crossParity G a b (loopEdges vs.reverse) = crossParity G a b (loopEdges vs) :=
  crossParity_loop_reverse hC a b vs

/-- **Inversion law**: `Loop.Invert` (reverse the vertices, flip `originInside`) complements
    containment at EVERY point, vertices and boundary points included.
    (Go applies this to loops with ≥ 3 vertices; the statement holds for every vertex count.) -/
theorem bruteContains_invert {G : Geo P} (hC : CrossLaws G) (o : P) (L : LoopM P) (p : P) :
    bruteContains G o (invert L) p = !bruteContains G o L p := by
  unfold bruteContains invert
  simp only [Array.toList_reverse]
  rw [crossParity_loop_reverse hC]
  cases L.originInside <;> cases crossParity G o p (loopEdges L.vertices.toList) <;> rfl

example : bruteContains toyGeo (-7, -5) (invert toySquare) (0, 0)
    = !bruteContains toyGeo (-7, -5) toySquare (0, 0) :=
  bruteContains_invert toy_crossLaws _ _ _

/-- **Origin bit initialisation** (`initOriginAndBound`): for a loop of ≥ 3 vertices whose vertex 1
    differs from its two neighbours (true for every valid loop), the loop built by `LoopFromPoints`
    contains its vertex 1 iff `AngleContainsVertex(v0, v1, v2)` says so — whatever the crossing
    parity from the origin is.  This is the consistency the constructor establishes. -/
theorem mkLoop_contains_vertex1 (G : Geo P) (o v0 v1 v2 : P) (rest : List P)
    (h01 : G.eq v0 v1 = false) (h21 : G.eq v2 v1 = false) :
    bruteContains G o (mkLoop G o (v0 :: v1 :: v2 :: rest).toArray) v1 =
      angleContainsVertex G v0 v1 v2 := by
  unfold mkLoop initOriginInside
  have hs : ¬ ((v0 :: v1 :: v2 :: rest).toArray.size < 3) := by simp
  simp only [hs, ↓reduceIte, h01, h21, Bool.not_false, Bool.true_and]
  unfold bruteContains
  cases angleContainsVertex G v0 v1 v2 <;>
    cases crossParity G o v1 (loopEdges (v0 :: v1 :: v2 :: rest)) <;> rfl

example : bruteContains toyGeo (-7, -5) toySquare (4, 0) = angleContainsVertex toyGeo (0, 0) (4, 0) (4, 4) :=
  mkLoop_contains_vertex1 toyGeo _ _ _ _ [(0, 4)] (by decide) (by decide)

/-- Inverting twice gives back the loop. -/
theorem invert_invert (L : LoopM P) : invert (invert L) = L := by
  cases L; simp [invert]

/-- The one-vertex loops (empty / full) contain a point iff `originInside`: their only "edge" is
    degenerate.  (`Invert` swaps them by replacing the vertex, so empty ↔ full are complementary.) -/
theorem bruteContains_oneVertex {G : Geo P} (hE : EqLaws G) (o v p : P) (oi : Bool) :
    bruteContains G o ⟨#[v], oi⟩ p = oi := by
  unfold bruteContains crossParity
  simp [loopEdges, eovc_degenerate_edge G o p v v (hE.refl v)]

/-- A loop and its inverse contain every point exactly once (tiling of the sphere by two loops
    with all edges shared).  `_partial`: proved at model level, i.e. for `bruteContains`; that
    every evaluation path of the library returns `bruteContains` is the correspondence check. -/
theorem loop_and_inverse_partition_partial {G : Geo P} (hC : CrossLaws G) (o : P) (L : LoopM P)
    (p : P) :
    (bruteContains G o L p = true ∧ bruteContains G o (invert L) p = false) ∨
    (bruteContains G o L p = false ∧ bruteContains G o (invert L) p = true) := by
  rw [bruteContains_invert hC]
  cases bruteContains G o L p <;> simp

example :
    (bruteContains toyGeo (-7, -5) toySquare (4, 0) = true ∧
      bruteContains toyGeo (-7, -5) (invert toySquare) (4, 0) = false) ∨
    (bruteContains toyGeo (-7, -5) toySquare (4, 0) = false ∧
      bruteContains toyGeo (-7, -5) (invert toySquare) (4, 0) = true) :=
  loop_and_inverse_partition_partial toy_crossLaws _ _ _

/-! ### (b) polygons -/

/-- **Polygon containment is the XOR the code computes, and it is the Shape-level brute force**:
    `Polygon.ContainsPoint` (XOR over the loops of `bruteForceContainsPoint`) equals
    `containsBruteForce` applied to the polygon as a Shape — edges of holes reversed
    (`OrientedVertex`), reference point `OriginPoint`, `Contained` = XOR of the loops' origin bits.
    Holds at every point, for any number of loops, including empty / full loops. -/
theorem polygonContains_eq_containsBruteForce {G : Geo P} (hC : CrossLaws G) (hE : EqLaws G)
    (o : P) (pg : PolygonM P) (p : P) :
    polygonContains G o pg p = containsBruteForce G (polygonShape o pg) p := by
  have key : polygonContains G o pg p =
      (polygonOriginInside pg != crossParity G o p (polygonEdges (pg.filter fun l => !l.loop.isEmptyOrFull))) := by
    rw [crossParity_polygonEdges hC hE]
    unfold polygonContains polygonOriginInside bruteContains
    exact xorAll_map_bne (fun l => l.loop.originInside)
      (fun l => crossParity G o p (loopEdges l.loop.vertices.toList)) pg
  unfold containsBruteForce polygonShape
  simp only [bne_self_eq_false, Bool.false_eq_true, ↓reduceIte]
  split
  · rename_i h
    rw [key, crossParity_degenerate G o p _ h]; simp
  · exact key

example : polygonContains toyGeo (-7, -5) [⟨toySquare, false⟩] (2, 2)
    = containsBruteForce toyGeo (polygonShape (-7, -5) [⟨toySquare, false⟩]) (2, 2) :=
  polygonContains_eq_containsBruteForce toy_crossLaws toy_eqLaws _ _ _

/-- **Polygon vs complement**: `Polygon.Invert` inverts exactly one loop; whichever loop that is,
    containment is complemented at every point. -/
theorem polygonContains_invertAt {G : Geo P} (hC : CrossLaws G) (o : P) (pg : PolygonM P) (k : Nat)
    (hk : k < pg.length) (p : P) :
    polygonContains G o (polygonInvertAt pg k) p = !polygonContains G o pg p := by
  unfold polygonContains polygonInvertAt
  exact xorAll_mapIdx_flip (fun l => bruteContains G o l.loop p) (fun l => bruteContains G o l.loop p)
    (fun l => { l with loop := invert l.loop }) (fun l => bruteContains_invert hC o l.loop p)
    (fun _ => rfl) pg k hk

example : polygonContains toyGeo (-7, -5) (polygonInvertAt [⟨toySquare, false⟩] 0) (2, 2)
    = !polygonContains toyGeo (-7, -5) [⟨toySquare, false⟩] (2, 2) :=
  polygonContains_invertAt toy_crossLaws _ _ 0 (by simp) _

/-- A polygon and its complement contain every point exactly once (model level, see
    `loop_and_inverse_partition_partial`). -/
theorem polygon_and_complement_partition_partial {G : Geo P} (hC : CrossLaws G) (o : P)
    (pg : PolygonM P) (k : Nat) (hk : k < pg.length) (p : P) :
    (polygonContains G o pg p = true ∧ polygonContains G o (polygonInvertAt pg k) p = false) ∨
    (polygonContains G o pg p = false ∧ polygonContains G o (polygonInvertAt pg k) p = true) := by
  rw [polygonContains_invertAt hC o pg k hk]
  cases polygonContains G o pg p <;> simp

/-! ### (c) path equality -/

/-- **Parity cocycle** (geometry, assumed): for the closed edge set `es`, the crossing parity of
    ref → centre plus that of centre → p equals the parity of ref → p. -/
def ParityCocycle (G : Geo P) (ref center p : P) (es : List (P × P)) : Prop :=
  (crossParity G ref center es != crossParity G center p es) = crossParity G ref p es

/-- Invariants of ONE index cell for one shape with edge list `es`, reference point `ref` and
    `refContained`, seen from the query point `p`. -/
structure CellHyp (G : Geo P) (ref : P) (refContained : Bool) (es : List (P × P))
    (center : P) (containsCenter : Bool) (ids : List Nat) (p : P) : Prop where
  /-- the listed edge ids are duplicate-free … -/
  nodup : ids.Nodup
  /-- … and are edge ids of the shape -/
  inRange : ∀ i ∈ ids, i < es.length
  /-- I2: an edge that is not listed does not count as a crossing of centre → p -/
  i2 : ∀ i (h : i < es.length), i ∉ ids → edgeOrVertexCrossing G center p es[i].1 es[i].2 = false
  /-- I3: `containsCenter` is the brute-force answer at the cell centre -/
  i3 : containsCenter = (refContained != crossParity G ref center es)
  cocycle : ParityCocycle G ref center p es

/-- **Index path = brute force.**  `iteratorContainsPoint` (containsCenter XOR crossings of
    centre → p with the LISTED edges) returns the reference-point parity over ALL edges. -/
theorem iteratorContains_eq_parity {G : Geo P} {ref : P} {rc : Bool} {es : List (P × P)}
    {center : P} {cc : Bool} {ids : List Nat} {p : P} (h : CellHyp G ref rc es center cc ids p) :
    iteratorContains G center cc (listed es ids) p = (rc != crossParity G ref p es) := by
  unfold iteratorContains
  rw [crossParity_listed G center p es ids h.nodup h.inRange h.i2, h.i3, ← h.cocycle]
  cases rc <;> cases crossParity G ref center es <;> cases crossParity G center p es <;> rfl

/-- Loop form: the index path of `Loop.ContainsPoint` equals `bruteForceContainsPoint`. -/
theorem loop_indexPath_eq_bruteForce {G : Geo P} (o : P) (L : LoopM P) {center : P} {cc : Bool}
    {ids : List Nat} {p : P}
    (h : CellHyp G o L.originInside (loopEdges L.vertices.toList) center cc ids p) :
    iteratorContains G center cc (listed (loopEdges L.vertices.toList) ids) p = bruteContains G o L p :=
  iteratorContains_eq_parity h

/-- the semi-open `ContainsPointQuery.shapeContains` on a 2-dimensional shape is
    `iteratorContainsPoint` -/
theorem shapeContainsM_semiOpen (G : Geo P) (center : P) (cc : Bool) (es : List (P × P)) (p : P) :
    shapeContainsM G .semiOpen 2 center cc es p = iteratorContains G center cc es p := by
  unfold shapeContainsM iteratorContains
  cases es with
  | nil => simp [crossParity]
  | cons e es => simp [shapeContainsGo_semiOpen]

/-- **Query-object path = brute force** (semi-open model): `ContainsPointQuery.shapeContains` on the
    located cell returns `containsBruteForce(shape, p)`. -/
theorem shapeContains_eq_containsBruteForce {G : Geo P} (S : ShapeM P) (hd : S.dim = 2)
    {center : P} {cc : Bool} {ids : List Nat} {p : P}
    (h : CellHyp G S.refPoint S.refContained S.edges.toList center cc ids p) :
    shapeContainsM G .semiOpen S.dim center cc (listed S.edges.toList ids) p
      = containsBruteForce G S p := by
  rw [hd, shapeContainsM_semiOpen, iteratorContains_eq_parity h]
  unfold containsBruteForce
  simp only [hd, bne_self_eq_false, Bool.false_eq_true, ↓reduceIte]
  split
  · rename_i he
    rw [crossParity_degenerate G _ _ _ he]; simp
  · rfl

/-- Open model: the semi-open answer, except that an endpoint of a listed edge is never contained. -/
theorem shapeContainsM_open {G : Geo P} (hE : EqLaws G) (center : P) (cc : Bool)
    (es : List (P × P)) (p : P) (hne : es ≠ []) :
    shapeContainsM G .open_ 2 center cc es p =
      (shapeContainsM G .semiOpen 2 center cc es p && !isEndpoint G es p) := by
  unfold shapeContainsM
  cases es with
  | nil => exact absurd rfl hne
  | cons e es => simp [shapeContainsGo_open hE, shapeContainsGo_semiOpen]

/-- Closed model: the semi-open answer, except that an endpoint of a listed edge is always contained. -/
theorem shapeContainsM_closed {G : Geo P} (hE : EqLaws G) (center : P) (cc : Bool)
    (es : List (P × P)) (p : P) (hne : es ≠ []) :
    shapeContainsM G .closed 2 center cc es p =
      (shapeContainsM G .semiOpen 2 center cc es p || isEndpoint G es p) := by
  unfold shapeContainsM
  cases es with
  | nil => exact absurd rfl hne
  | cons e es => simp [shapeContainsGo_closed hE, shapeContainsGo_semiOpen]

/-- With no listed edge all three models return `containsCenter` (an interior / exterior cell). -/
theorem shapeContainsM_noEdges (G : Geo P) (vm : VertexModel) (dim : Nat) (center : P) (cc : Bool)
    (p : P) : shapeContainsM G vm dim center cc [] p = cc := by
  simp [shapeContainsM]

/-- non-vacuity of `CellHyp`: the toy square, one cell centred at (1,1) listing all four edges -/
example : CellHyp toyGeo (-7, -5) toySquare.originInside (loopEdges toySquare.vertices.toList)
    (1, 1) true [0, 1, 2, 3] (0, 0) where
  nodup := by decide
  inRange := by decide
  i2 := by decide
  i3 := by decide
  cocycle := by unfold ParityCocycle; decide

/-! ### the tiling claim -/

/-- The full tiling statement for cell loops: for a family `loops` (meant: the loops
    `LoopFromCell(c)` of ALL cells `c` of one level) every point is contained exactly once.
    Not provable here (Jordan-type geometry of the cube-face grid on the sphere + exactness of the
    shared float vertices); searched by the op `c04tile`. -/
def CellLoopsTile (G : Geo P) (o : P) (loops : List (LoopM P)) : Prop :=
  ∀ p : P, ((loops.filter fun L => bruteContains G o L p).length = 1)

/-- What is proved of it: the two-loop tilings (loop + inverse). -/
theorem tiling_two_loops_partial {G : Geo P} (hC : CrossLaws G) (o : P) (L : LoopM P) :
    CellLoopsTile G o [L, invert L] := by
  intro p
  rcases loop_and_inverse_partition_partial hC o L p with ⟨h1, h2⟩ | ⟨h1, h2⟩ <;>
    simp [h1, h2]

end S2Proofs.C04
