/-
  C19 for binary64, UNCONDITIONAL: the arithmetic hypothesis `F64ArithFacts` of `Properties/C19_Binary64.lean`
  discharged by the rounding lemmas of package `f64round` (`Properties/C19_F64.lean`, `S2Proofs/F64Round/*`).
  After this file no theorem of the binary64 interval algebra depends on an unproved fact about floating point.

  (This file needs `f64round`'s deliverable; everything else of package `c19f64` does not.)
-/
import S2Proofs.Properties.C19_Binary64
import S2Proofs.Properties.C19_F64

namespace S2Proofs.C19B64
open S2 S2.IvlOps S2.IvlF64 S2Proofs S2Proofs.F64Order S2Proofs.F64Carrier S2Proofs.F64Transfer

/-- all four assumed arithmetic facts hold for the soft-float -/
theorem f64ArithFacts : F64ArithFacts where
  le_add_nonneg := C19F64.le_add_nonneg
  add_nonpos_le := C19F64.add_nonpos_le
  rem_range := C19F64.rem_range
  add_fin := C19F64.add_fin

/-- `2·m` overflows for `|m| ≥ 2^1023` -/
theorem dblBig : DblBig := C19F64.dbl_big

/-- r1.Expanded by a non-negative finite margin keeps every original point. -/
theorem r1_expanded_contains_binary64 (i : R1 F64) (hi : Fin1 i) (m p : F64) (hm : Fin m)
    (h0 : F64.le (F64.zero false) m = true) (h : i.contains p = true) : (i.expanded m).contains p = true :=
  r1_expanded_contains_f64 f64ArithFacts i hi m p hm h0 h

/-- r2.Expanded by non-negative finite margins keeps every point; the result is valid. -/
theorem r2_expanded_contains_binary64 (r : R2Rect F64) (hr : Fin2 r) (m p : R2Point F64)
    (hm : FinP m) (hx : F64.le (F64.zero false) m.x = true) (hy : F64.le (F64.zero false) m.y = true) :
    (r.expanded m).isValid = true ∧ (r.containsPoint p = true → (r.expanded m).containsPoint p = true) :=
  r2_expanded_contains_f64 f64ArithFacts r hr m p hm hx hy

/-- the s1 expansion before the final containment check is a valid interval -/
theorem s1_expandedRaw_valid_binary64 (i : S1 F64) (hi : VS i) (m : F64) (hm : MarginOK m) :
    (i.expandedRaw m).isValid = true :=
  s1_expandedRaw_valid_f64 f64ArithFacts i hi m hm

/-- s1.Expanded (margin of any sign, `|m| < 2^1023`) returns a valid interval. -/
theorem s1_expanded_valid_binary64 (i : S1 F64) (hi : i.isValid = true) (m : F64) (hm : MarginOK m) :
    (i.expanded m).isValid = true :=
  s1_expanded_valid_f64 f64ArithFacts i hi m hm

/-- s1.Expanded by a non-negative margin keeps every original point. -/
theorem s1_expanded_contains_binary64 (i : S1 F64) (hi : i.isValid = true) (m p : F64) (hm : MarginOK m)
    (h0 : F64.le (F64.zero false) m = true) (hp : VPt p) (h : i.contains p = true) :
    (i.expanded m).contains p = true :=
  s1_expanded_contains_f64 f64ArithFacts i hi m p hm h0 hp h

/-- the lat-lng `expanded` is valid for valid input. -/
theorem ll_expanded_valid_binary64 (r : LLRect F64) (hr : r.isValid = true) (m : LatLng F64)
    (hm1 : Fin m.lat) (hm2 : MarginOK m.lng) : (r.expanded m).isValid = true :=
  ll_expanded_valid_f64 f64ArithFacts r hr m hm1 hm2

/-- the lat-lng `expanded` with non-negative margins keeps every point. -/
theorem ll_expanded_contains_binary64 (r : LLRect F64) (hr : r.isValid = true) (m ll : LatLng F64)
    (hm1 : Fin m.lat) (hm2 : MarginOK m.lng) (h1 : F64.le (F64.zero false) m.lat = true)
    (h2 : F64.le (F64.zero false) m.lng = true) (h : r.containsLatLng ll = true) :
    (r.expanded m).containsLatLng ll = true :=
  ll_expanded_contains_f64 f64ArithFacts r hr m ll hm1 hm2 h1 h2 h

/-! ### every finite margin -/

/-- s1.Expanded returns a valid interval for EVERY finite margin. -/
theorem s1_expanded_valid_allmargins_binary64 (i : S1 F64) (hi : i.isValid = true) (m : F64) (hm : Fin m) :
    (i.expanded m).isValid = true :=
  s1_expanded_valid_allmargins_f64 f64ArithFacts dblBig i hi m hm

/-- s1.Expanded by ANY finite non-negative margin keeps every original point. -/
theorem s1_expanded_contains_allmargins_binary64 (i : S1 F64) (hi : i.isValid = true) (m p : F64) (hm : Fin m)
    (h0 : F64.le (F64.zero false) m = true) (hp : VPt p) (h : i.contains p = true) :
    (i.expanded m).contains p = true :=
  s1_expanded_contains_allmargins_f64 f64ArithFacts dblBig i hi m p hm h0 hp h

/-- the lat-lng `expanded` is valid for valid input and ANY finite margins. -/
theorem ll_expanded_valid_allmargins_binary64 (r : LLRect F64) (hr : r.isValid = true) (m : LatLng F64)
    (hm1 : Fin m.lat) (hm2 : Fin m.lng) : (r.expanded m).isValid = true :=
  ll_expanded_valid_allmargins_f64 f64ArithFacts dblBig r hr m hm1 hm2

/-- the lat-lng `expanded` with ANY finite non-negative margins keeps every point. -/
theorem ll_expanded_contains_allmargins_binary64 (r : LLRect F64) (hr : r.isValid = true) (m ll : LatLng F64)
    (hm1 : Fin m.lat) (hm2 : Fin m.lng) (h1 : F64.le (F64.zero false) m.lat = true)
    (h2 : F64.le (F64.zero false) m.lng = true) (h : r.containsLatLng ll = true) :
    (r.expanded m).containsLatLng ll = true :=
  ll_expanded_contains_allmargins_f64 f64ArithFacts dblBig r hr m ll hm1 hm2 h1 h2 h

-- non-vacuity of the all-margins statements: the largest finite float as margin
example : Fin (⟨0x7fefffffffffffff⟩ : F64) ∧ ¬ MarginOK (⟨0x7fefffffffffffff⟩ : F64) ∧
    (⟨F64.one, F64.two⟩ : S1 F64).expanded ⟨0x7fefffffffffffff⟩ = S1.full ∧
    (⟨F64.one, F64.two⟩ : S1 F64).expanded ⟨0xffefffffffffffff⟩ = S1.empty := by decide +kernel

end S2Proofs.C19B64
