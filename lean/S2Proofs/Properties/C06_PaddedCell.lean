/-
  S2Proofs.Properties.C06_PaddedCell — the discrete facts about s2/paddedcell.go that the ShapeIndex
  interior tracker rests on (context of property C06).  Model: `S2.PaddedCellM` (integer fields
  id / level / orientation / iLo / jLo of a PaddedCell; `entryIJ` / `exitIJ` are the (i,j) pairs, in
  leaf-ij units, that `EntryVertex` / `ExitVertex` pass to `faceSiTiToXYZ`).

  Validity of a cell id is `S2.CellID.isValid id = true` (the predicate of C01).

  (T1) `paddedCell_fromParentIJ_eq_fromCellID`, `paddedCell_childAtPos_eq_fromCellID`,
       `paddedCell_descend_eq_fromCellID`            — the two constructors agree
  (T2) `paddedCell_childIJ_iff`, `paddedCell_childIJ_lt` — `ChildIJ` inverts `ijToPos`
  (T3) `paddedCell_entry_first`, `paddedCell_exit_last`, `paddedCell_exit_entry_sibling` (any record),
       `paddedCell_entry_first_child`, `paddedCell_exit_last_child`, `paddedCell_exit_entry_children` (ids)
  (T4) `paddedCell_exit_eq_entry_next`               — exit(c) = entry(c.Next()) within a face, every level
       `paddedCell_face_entry_exit`                  — the face cells
       `paddedCell_fromCellID_bounds`                — the (i,j) square of the padded cell is a level-k ij square
       `paddedCell_entry_exit_in_range`              — entry/exit (i,j) ≤ 2^30: the `uint32(2*i)` casts are exact
  (T5) `paddedCell_entry_eq_of_rangeMin_eq`, `paddedCell_tracker_chain` — the form used by the interior tracker
       (`atCellID` compares RangeMin, the next visited cell may have any level)
       `paddedCell_face_exit_eq_next_face_entry`     — the curve is continuous across faces as points (bit-exact)
-/
import S2Proofs.C06.PaddedCell
open S2 S2.CellID S2.Hilbert S2.PaddedCellM S2Proofs.C12H S2Proofs.C06PC
namespace S2Proofs.C06

/-! ### (T1) constructor agreement -/

/-- For every valid non-leaf cell `p` and `(i,j) ∈ {0,1}²`: building the child from the parent's padded
    cell gives exactly (id, level, orientation, iLo, jLo) of the padded cell built from the child id
    `p.Children()[ijToPos[orientation p][2i+j]]`. -/
theorem paddedCell_fromParentIJ_eq_fromCellID (p : CellID) (i j : Nat) (hv : isValid p = true)
    (hl : level p < 30) (hi : i < 2) (hj : j < 2) :
    fromParentIJ (fromCellID p) i j =
      fromCellID (child p (ijToPos[(fromCellID p).orientation]![2 * i + j]!)) := by
  obtain ⟨k, hc⟩ := (isValid_iff p).mp hv
  rw [hc.level_eq] at hl
  exact fromParentIJ_fromCellID hc hl hi hj

example : isValid (0xb1b2d3c500000000 : CellID) = true ∧ level (0xb1b2d3c500000000 : CellID) < 30 ∧
    (1 : Nat) < 2 ∧ (0 : Nat) < 2 := by decide

/-- Traversal-position form (how shapeindex.go uses it): `i,j := ChildIJ(pos)` followed by
    `PaddedCellFromParentIJ(p,i,j)` is the padded cell of the `pos`-th child id, for pos = 0..3. -/
theorem paddedCell_childAtPos_eq_fromCellID (p : CellID) (pos : Nat) (hv : isValid p = true)
    (hl : level p < 30) (hp : pos < 4) :
    childAtPos (fromCellID p) pos = fromCellID (child p pos) := by
  obtain ⟨k, hc⟩ := (isValid_iff p).mp hv
  rw [hc.level_eq] at hl
  exact childAtPos_fromCellID hc hl hp

example : isValid (0x1000000000000000 : CellID) = true ∧ level (0x1000000000000000 : CellID) < 30 ∧
    (3 : Nat) < 4 := by decide

/-- Any chain of `PaddedCellFromParentIJ` steps starting from the padded cell of a valid id `x` (in
    particular a face cell) that does not descend below level 30 ends in the padded cell of its own id;
    that id is valid and its level is `level x + number of steps`. -/
theorem paddedCell_descend_eq_fromCellID (path : List (Nat × Nat)) :
    ∀ (x : CellID), isValid x = true → (∀ ij ∈ path, ij.1 < 2 ∧ ij.2 < 2) →
      level x + path.length ≤ 30 →
      path.foldl (fun P ij => fromParentIJ P ij.1 ij.2) (fromCellID x) =
          fromCellID (path.foldl (fun P ij => fromParentIJ P ij.1 ij.2) (fromCellID x)).id ∧
        isValid (path.foldl (fun P ij => fromParentIJ P ij.1 ij.2) (fromCellID x)).id = true ∧
        level (path.foldl (fun P ij => fromParentIJ P ij.1 ij.2) (fromCellID x)).id
          = level x + path.length := by
  induction path with
  | nil =>
    intro x hv _ _
    simp only [List.foldl_nil, List.length_nil, Nat.add_zero]
    exact ⟨by rw [fromCellID_id], by rw [fromCellID_id]; exact hv, by rw [fromCellID_id]⟩
  | cons ij rest ih =>
    intro x hv hp hl
    obtain ⟨k, hc⟩ := (isValid_iff x).mp hv
    rw [hc.level_eq] at hl ⊢
    simp only [List.length_cons] at hl ⊢
    have hk : k < 30 := by omega
    obtain ⟨hi, hj⟩ := hp ij List.mem_cons_self
    obtain ⟨_, _, hq⟩ := join_ij _ _ hi hj
    have hpos := ijToPos_lt _ (fromCellID_orientation_lt hc) _ hq
    have hc' := hc.child_isCell hk hpos
    simp only [List.foldl_cons]
    rw [fromParentIJ_fromCellID hc hk hi hj]
    have := ih _ ((isValid_iff _).mpr ⟨_, hc'⟩) (fun ij h => hp ij (List.mem_cons_of_mem _ h))
      (by rw [hc'.level_eq]; omega)
    rw [hc'.level_eq] at this
    obtain ⟨h1, h2, h3⟩ := this
    exact ⟨h1, h2, by rw [h3]; omega⟩

example : isValid (0x7000000000000000 : CellID) = true ∧
    (∀ ij ∈ [((1 : Nat), (0 : Nat)), (1, 1), (0, 1)], ij.1 < 2 ∧ ij.2 < 2) ∧
    level (0x7000000000000000 : CellID) + [((1 : Nat), (0 : Nat)), (1, 1), (0, 1)].length ≤ 30 := by
  decide

/-! ### (T2) `ChildIJ` inverts the position table -/

/-- `ChildIJ(pos) = (i,j)` exactly when `ijToPos[orientation][2i+j] = pos`. -/
theorem paddedCell_childIJ_iff (P : PaddedCell) (pos i j : Nat) (ho : P.orientation < 4) (hp : pos < 4)
    (hi : i < 2) (hj : j < 2) :
    childIJ P pos = (i, j) ↔ ijToPos[P.orientation]![2 * i + j]! = pos := by
  unfold childIJ
  simp only
  obtain ⟨h1, h2, h3⟩ := split_ij _ (posToIJ_lt _ ho _ hp)
  obtain ⟨e1, e2, hq⟩ := join_ij i j hi hj
  constructor
  · intro h
    obtain ⟨ha, hb⟩ := Prod.mk.inj h
    rw [← ha, ← hb, h3]
    exact ijToPos_posToIJ _ ho _ hp
  · intro h
    rw [← h, posToIJ_ijToPos _ ho _ hq, e1, e2]

example : (⟨0x1000000000000000, 0, 3, 0, 0⟩ : PaddedCell).orientation < 4 ∧ (2 : Nat) < 4 ∧
    (0 : Nat) < 2 ∧ (1 : Nat) < 2 := by decide

/-- `ChildIJ` returns indices in `{0,1}²` and its four values (pos = 0..3) are pairwise different: the four
    children enumerated by position are the four (i,j) children. -/
theorem paddedCell_childIJ_lt (P : PaddedCell) (pos : Nat) (ho : P.orientation < 4) (hp : pos < 4) :
    (childIJ P pos).1 < 2 ∧ (childIJ P pos).2 < 2 ∧
      ∀ pos' < 4, childIJ P pos' = childIJ P pos → pos' = pos := by
  have hlt := split_ij _ (posToIJ_lt _ ho _ hp)
  refine ⟨hlt.1, hlt.2.1, ?_⟩
  intro pos' hp' h
  have a := (paddedCell_childIJ_iff P pos _ _ ho hp hlt.1 hlt.2.1).mp rfl
  have b := (paddedCell_childIJ_iff P pos' _ _ ho hp' hlt.1 hlt.2.1).mp h
  rw [← a, ← b]

example : (⟨0x1000000000000000, 0, 1, 0, 0⟩ : PaddedCell).orientation < 4 ∧ (3 : Nat) < 4 := by decide

/-! ### (T3) parent entry = first child entry, parent exit = last child exit, siblings chain -/

/-- The curve enters a (non-leaf) padded cell where it enters its first child (any record). -/
theorem paddedCell_entry_first (P : PaddedCell) (ho : P.orientation < 4) (hl : P.level < 30) :
    entryIJ (childAtPos P 0) = entryIJ P := entry_first P ho hl

example : (⟨0x1000000000000000, 7, 3, 12582912, 4194304⟩ : PaddedCell).orientation < 4 ∧
    (⟨0x1000000000000000, 7, 3, 12582912, 4194304⟩ : PaddedCell).level < 30 := by decide

/-- The curve exits a (non-leaf) padded cell where it exits its last child (any record). -/
theorem paddedCell_exit_last (P : PaddedCell) (ho : P.orientation < 4) (hl : P.level < 30) :
    exitIJ (childAtPos P 3) = exitIJ P := exit_last P ho hl

example : (⟨0x1000000000000000, 7, 1, 12582912, 4194304⟩ : PaddedCell).orientation < 4 ∧
    (⟨0x1000000000000000, 7, 1, 12582912, 4194304⟩ : PaddedCell).level < 30 := by decide

/-- Within a parent the exit vertex of child `t` is the entry vertex of child `t+1`, t = 0,1,2,
    for every orientation (any record, any level). -/
theorem paddedCell_exit_entry_sibling (P : PaddedCell) (t : Nat) (ho : P.orientation < 4) (ht : t < 3) :
    exitIJ (childAtPos P t) = entryIJ (childAtPos P (t + 1)) := exit_entry_sibling P t ho ht

example : (⟨0x1000000000000000, 7, 2, 12582912, 4194304⟩ : PaddedCell).orientation < 4 ∧
    (⟨0x1000000000000000, 7, 2, 12582912, 4194304⟩ : PaddedCell).level < 30 ∧ (2 : Nat) < 3 := by decide

/-- id form: entry vertex of a valid non-leaf cell = entry vertex of its first child. -/
theorem paddedCell_entry_first_child (p : CellID) (hv : isValid p = true) (hl : level p < 30) :
    entryIJ (fromCellID (child p 0)) = entryIJ (fromCellID p) := by
  obtain ⟨k, hc⟩ := (isValid_iff p).mp hv
  rw [hc.level_eq] at hl
  rw [← childAtPos_fromCellID hc hl (by omega)]
  exact entry_first _ (fromCellID_orientation_lt hc) (by rw [fromCellID_level hc]; exact hl)

example : isValid (0x5000000000000000 : CellID) = true ∧ level (0x5000000000000000 : CellID) < 30 := by decide

/-- id form: exit vertex of a valid non-leaf cell = exit vertex of its last child. -/
theorem paddedCell_exit_last_child (p : CellID) (hv : isValid p = true) (hl : level p < 30) :
    exitIJ (fromCellID (child p 3)) = exitIJ (fromCellID p) := by
  obtain ⟨k, hc⟩ := (isValid_iff p).mp hv
  rw [hc.level_eq] at hl
  rw [← childAtPos_fromCellID hc hl (by omega)]
  exact exit_last _ (fromCellID_orientation_lt hc) (by rw [fromCellID_level hc]; exact hl)

example : isValid (0x3fedcba987654324 : CellID) = true ∧ level (0x3fedcba987654324 : CellID) < 30 := by decide

/-- id form: exit vertex of child `t` = entry vertex of child `t+1` (t = 0,1,2). -/
theorem paddedCell_exit_entry_children (p : CellID) (t : Nat) (hv : isValid p = true) (hl : level p < 30)
    (ht : t < 3) :
    exitIJ (fromCellID (child p t)) = entryIJ (fromCellID (child p (t + 1))) := by
  obtain ⟨k, hc⟩ := (isValid_iff p).mp hv
  rw [hc.level_eq] at hl
  rw [← childAtPos_fromCellID hc hl (by omega), ← childAtPos_fromCellID hc hl (by omega)]
  exact exit_entry_sibling _ _ (fromCellID_orientation_lt hc) ht

example : isValid (0x9a40000000000000 : CellID) = true ∧ level (0x9a40000000000000 : CellID) < 30 ∧
    (1 : Nat) < 3 := by decide

/-! ### (T4) chaining along the curve -/

/-- For valid cells `c`, `c' = c.Next()` on the same face (then they have the same level): the exit
    vertex of `c` is the entry vertex of `c'`, at every level 0..30 (at level 0 the hypotheses are
    unsatisfiable: the successor of a face cell is another face). -/
theorem paddedCell_exit_eq_entry_next (c c' : CellID) (hv : isValid c = true) (hv' : isValid c' = true)
    (hn : c' = next c) (hf : face c' = face c) :
    level c' = level c ∧ exitIJ (fromCellID c) = entryIJ (fromCellID c') := by
  obtain ⟨k, hc⟩ := (isValid_iff c).mp hv
  have hlt := (hc.next_isCell_iff).mp (by rw [← hn]; exact (isValid_iff c').mp hv')
  have hc' : IsCell c' k := by rw [hn]; exact hc.next_isCell hlt
  exact ⟨by rw [hc.level_eq, hc'.level_eq], chain_level k c c' hc hc' hn hf⟩

/-- a level-14 cell that is a last child (child position 3 at level 14 and 13) and its successor -/
example : isValid (0xb1b2d3ff00000000 : CellID) = true ∧ isValid (next 0xb1b2d3ff00000000) = true ∧
    face (next 0xb1b2d3ff00000000) = face (0xb1b2d3ff00000000 : CellID) ∧
    childPosition (0xb1b2d3ff00000000 : CellID) 14 = 3 ∧ childPosition (0xb1b2d3ff00000000 : CellID) 13 = 3 := by
  decide
/-- leaves -/
example : isValid (0x3fedcba987654321 : CellID) = true ∧ isValid (next 0x3fedcba987654321) = true ∧
    face (next 0x3fedcba987654321) = face (0x3fedcba987654321 : CellID) := by decide

/-- The face cells: the curve enters face `f` at (i,j) = (0,0) and exits at (2^30, 0) on even faces,
    at (0, 2^30) on odd faces. -/
theorem paddedCell_face_entry_exit (f : Nat) (hf : f < 6) :
    entryIJ (fromCellID (fromFace f)) = (0, 0) ∧
      exitIJ (fromCellID (fromFace f)) = (if f % 2 = 0 then (2 ^ 30, 0) else (0, 2 ^ 30)) := by
  have hc := fromFace_isCell f hf
  have hface : face (fromFace f) = f := by
    rw [face_toNat, fromFace_toNat f hf]; omega
  rw [fromCellID_eq hc, prefixState_zero, hface]
  interval_cases f <;> decide

example : (4 : Nat) < 6 := by decide

/-- The integer square of the padded cell of a valid id: iLo, jLo are multiples of the cell size
    `sizeIJ level`, and the square lies in `[0, 2^30]²` (so `uint32(2*i)` in Entry/ExitVertex never wraps). -/
theorem paddedCell_fromCellID_bounds (c : CellID) (hv : isValid c = true) :
    (fromCellID c).id = c ∧ (fromCellID c).level = level c ∧ (fromCellID c).orientation < 4 ∧
      (fromCellID c).iLo % sizeIJ (level c) = 0 ∧ (fromCellID c).jLo % sizeIJ (level c) = 0 ∧
      (fromCellID c).iLo + sizeIJ (level c) ≤ 2 ^ 30 ∧ (fromCellID c).jLo + sizeIJ (level c) ≤ 2 ^ 30 := by
  obtain ⟨k, hc⟩ := (isValid_iff c).mp hv
  obtain ⟨hI, hJ, hO⟩ := prefixState_bounds c k
  have h1 := mul_pow_lt _ k hc.k_le hI
  have h2 := mul_pow_lt _ k hc.k_le hJ
  rw [Nat.add_mul, Nat.one_mul] at h1 h2
  rw [hc.level_eq, fromCellID_eq hc, sizeIJ_eq]
  exact ⟨rfl, rfl, hO, Nat.mul_mod_left _ _, Nat.mul_mod_left _ _, h1, h2⟩

example : isValid (0x5555555555555555 : CellID) = true := by decide

/-- The (i,j) of `EntryVertex` / `ExitVertex` of the padded cell of a valid id lie in `[0, 2^30]`, so the
    conversions `uint32(2*i)`, `uint32(2*j)` are exact (si, ti ≤ 2^31 = MaxSiTi). -/
theorem paddedCell_entry_exit_in_range (c : CellID) (hv : isValid c = true) :
    (entryIJ (fromCellID c)).1 ≤ 2 ^ 30 ∧ (entryIJ (fromCellID c)).2 ≤ 2 ^ 30 ∧
    (exitIJ (fromCellID c)).1 ≤ 2 ^ 30 ∧ (exitIJ (fromCellID c)).2 ≤ 2 ^ 30 ∧
    u32 (2 * (entryIJ (fromCellID c)).1) = 2 * (entryIJ (fromCellID c)).1 ∧
    u32 (2 * (entryIJ (fromCellID c)).2) = 2 * (entryIJ (fromCellID c)).2 ∧
    u32 (2 * (exitIJ (fromCellID c)).1) = 2 * (exitIJ (fromCellID c)).1 ∧
    u32 (2 * (exitIJ (fromCellID c)).2) = 2 * (exitIJ (fromCellID c)).2 := by
  obtain ⟨_, hl, _, _, _, h1, h2⟩ := paddedCell_fromCellID_bounds c hv
  have key : ∀ i : Nat, i ≤ 2 ^ 30 → u32 (2 * i) = 2 * i := by
    intro i hi; unfold u32; omega
  have a1 : (entryIJ (fromCellID c)).1 ≤ 2 ^ 30 := by
    unfold entryIJ; rw [hl]; split <;> simp only <;> omega
  have a2 : (entryIJ (fromCellID c)).2 ≤ 2 ^ 30 := by
    unfold entryIJ; rw [hl]; split <;> simp only <;> omega
  have a3 : (exitIJ (fromCellID c)).1 ≤ 2 ^ 30 := by
    unfold exitIJ; rw [hl]; simp only; split <;> simp only <;> omega
  have a4 : (exitIJ (fromCellID c)).2 ≤ 2 ^ 30 := by
    unfold exitIJ; rw [hl]; simp only; split <;> simp only <;> omega
  exact ⟨a1, a2, a3, a4, key _ a1, key _ a2, key _ a3, key _ a4⟩

example : isValid (0x0000000000000001 : CellID) = true := by decide

/-! ### what the interior tracker of shapeindex.go uses: `atCellID` compares `RangeMin`s -/

/-- The entry vertex of a valid cell depends only on its `RangeMin`: two valid cells (of any levels) that
    start at the same leaf have the same entry (i,j). -/
theorem paddedCell_entry_eq_of_rangeMin_eq (a b : CellID) (ha : isValid a = true) (hb : isValid b = true)
    (h : rangeMin a = rangeMin b) : entryIJ (fromCellID a) = entryIJ (fromCellID b) := by
  obtain ⟨k, hca⟩ := (isValid_iff a).mp ha
  obtain ⟨j, hcb⟩ := (isValid_iff b).mp hb
  by_cases hkj : k ≤ j
  · exact entry_of_rangeMin_eq (j - k) k a b hca (by rwa [show k + (j - k) = j by omega]) h
  · exact (entry_of_rangeMin_eq (k - j) j b a hcb (by rwa [show j + (k - j) = k by omega]) h.symm).symm

example : isValid (0x1000000000000000 : CellID) = true ∧ isValid (0x0000000000000001 : CellID) = true ∧
    rangeMin (0x1000000000000000 : CellID) = rangeMin (0x0000000000000001 : CellID) := by decide

/-- TRACKER STEP: after finishing a valid cell `c` the tracker stores `c.Next().RangeMin()`; whenever the next
    visited valid cell `d` (any level) satisfies `d.RangeMin() = c.Next().RangeMin()` (`atCellID`) on the
    same face, the stored focus `ExitVertex(c)` is `EntryVertex(d)` (as (i,j) pairs on that face). -/
theorem paddedCell_tracker_chain (c d : CellID) (hc : isValid c = true) (hn : isValid (next c) = true)
    (hf : face (next c) = face c) (hd : isValid d = true) (h : rangeMin d = rangeMin (next c)) :
    exitIJ (fromCellID c) = entryIJ (fromCellID d) := by
  rw [(paddedCell_exit_eq_entry_next c (next c) hc hn rfl hf).2]
  exact (paddedCell_entry_eq_of_rangeMin_eq d (next c) hd hn h).symm

/-- c = 1/0333 (level 4, a last child three times), c.Next() = 1/1000, d = the first level-8 descendant of 1/1 -/
example : isValid (0x27f0000000000000 : CellID) = true ∧ isValid (next 0x27f0000000000000) = true ∧
    face (next 0x27f0000000000000) = face (0x27f0000000000000 : CellID) ∧
    isValid (0x2800100000000000 : CellID) = true ∧
    rangeMin (0x2800100000000000 : CellID) = rangeMin (next 0x27f0000000000000) := by decide

/-- Across faces the curve is continuous as POINTS: the exit vertex of face `f` (soft-float
    `faceSiTiToXYZ(...).Normalize()`, bit-exact) is the entry vertex of face `f+1`, f = 0..4. -/
theorem paddedCell_face_exit_eq_next_face_entry :
    ∀ f < 5, exitVertex (fromCellID (fromFace f)) = entryVertex (fromCellID (fromFace (f + 1))) := by
  decide +kernel

example : (3 : Nat) < 5 := by decide

end S2Proofs.C06
