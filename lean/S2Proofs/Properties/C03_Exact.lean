/-
  Property C03, deepening: the hypothesis structure `SignLaws` (and `RSLaws` at the exact sign) of
  `S2Proofs.CrossingLemmas` DISCHARGED for the concrete exact orientation `Pred.exactDecision`, and the
  main conditional theorems of `Properties/C03.lean` restated without it.

  Input domain.  `Fin3 x` : the three coordinates are finite floats (NaN / Inf are out of contract:
  `big.Float` panics in `exactSign`).  Nothing else is needed for the rotation / swap laws and for all
  SYMMETRY statements of the exact crossing criterion (section 2: no `Dom`, no ±0 condition — the exact
  sign and Go's `==` both identify +0 and -0).
  A ±0 side condition is needed exactly where a statement speaks about structural equality `=` / `≠`
  of float vectors instead of Go's `==`:
     `SignLaws.unit` / `RSLaws.unit` ("±1 on pairwise DISTINCT points") is FALSE for the two
     bit patterns (1,+0,+0), (1,-0,-0) of one point (`unit_needs_signed_zero_condition` below).
  The condition is `EqInj S` : on `S`, `x == y → x = y` (no two members differ only in the sign of a
  zero); it is the `feq_iff` half of `Dom S` (the other half, `x = y → x == y`, follows from finiteness).

  What remains hypothesis in C03 after this file: `FloatSound S` only (float error analysis of
  triageSign / stableSign / the tangent rejection — not an orientation-algebra fact).
-/
import S2Proofs.Properties.C03
import S2Proofs.ExactSignLaws
import S2Proofs.F64Inj
namespace S2Proofs.C03
open S2 S2.Pred S2.Crossing S2.Crosser S2Proofs.F64Order S2Proofs.ExactLaws S2Proofs.F64Inj

local notation "E" => S2.Pred.exactDecision

/-! ## 1. the hypothesis structures, discharged -/

/-- on `S`, Go's `==` implies equality: no two members differ only in the sign of a zero coordinate -/
def EqInj (S : V3 → Prop) : Prop := ∀ x y, S x → S y → V3.feq x y = true → x = y

/-- all members have finite coordinates -/
def AllFin (S : V3 → Prop) : Prop := ∀ x, S x → Fin3 x

/-- `Dom S` is: finite-ness of `==` (no NaN), the ±0 condition, and no zero vector.  For finite point sets
    the first part is automatic. -/
theorem dom_exact {S : V3 → Prop} (hF : AllFin S) (hI : EqInj S)
    (hZ : ∀ x, S x → V3.feq x zero3 = false) : Dom S :=
  ⟨fun x y hx hy => ⟨hI x y hx hy, fun h => h ▸ feq_refl (hF x hx)⟩, hZ⟩

/-- conversely `Dom` contains the ±0 condition -/
theorem eqInj_of_dom {S : V3 → Prop} (hD : Dom S) : EqInj S :=
  fun x y hx hy h => (hD.feq_iff x y hx hy).1 h

example : AllFin (· ∈ L1) ∧ EqInj (· ∈ L1) :=
  ⟨by unfold AllFin; decide +kernel, eqInj_of_dom L1_dom⟩

/-- **`SignLaws` holds for the exact sign** on every set of finite points without ±0 twins.
    (`rot`, `swap` need finiteness only; `unit` needs the ±0 condition.) -/
theorem signLaws_exact {S : V3 → Prop} (hF : AllFin S) (hI : EqInj S) : SignLaws S where
  rot a b c ha hb hc := (E_rot (hF a ha) (hF b hb) (hF c hc)).symm
  swap a b c ha hb hc := E_swap12 (hF a ha) (hF b hb) (hF c hc)
  unit a b c ha hb hc hab hbc hca := by
    have ne : ∀ x y, S x → S y → x ≠ y → V3.feq x y = false := fun x y hx hy hne => by
      cases h : V3.feq x y
      · rfl
      · exact absurd (hI x y hx hy h) hne
    exact E_unit (hF a ha) (hF b hb) (hF c hc) (ne a b ha hb hab) (ne b c hb hc hbc) (ne c a hc ha hca)

/-- the instance for the example list, now by theorem instead of by enumeration of all triples -/
example : SignLaws (· ∈ L1) := signLaws_exact (by unfold AllFin; decide +kernel) (eqInj_of_dom L1_dom)

/-- `SignLaws` from `Dom` and finiteness (the form used with the theorems of `Properties/C03.lean`) -/
theorem signLaws_of_dom {S : V3 → Prop} (hD : Dom S) (hF : AllFin S) : SignLaws S :=
  signLaws_exact hF (eqInj_of_dom hD)

example : SignLaws (· ∈ L0) := signLaws_of_dom L0_dom (by unfold AllFin; decide +kernel)

/-- The ±0 condition in per-point, decidable form: if no coordinate of any member is the negative zero
    (and all are finite) then Go `==` is structural equality on `S` (`toInt` is injective on finite floats
    other than -0: `F64Inj.toInt_inj`). -/
theorem eqInj_of_noNegZero {S : V3 → Prop} (hF : AllFin S) (hZ : ∀ x, S x → NoNegZero3 x) : EqInj S :=
  fun x y hx hy h => v3_eq_of_feq (hF x hx) (hF y hy) (hZ x hx) (hZ y hy) h

example : ∀ x ∈ L0, NoNegZero3 x := by decide +kernel

/-- **`SignLaws` for the exact sign on ANY set of finite float points none of whose coordinates is -0.** -/
theorem signLaws_exact_noNegZero {S : V3 → Prop} (hF : AllFin S) (hZ : ∀ x, S x → NoNegZero3 x) :
    SignLaws S :=
  signLaws_exact hF (eqInj_of_noNegZero hF hZ)

example : SignLaws (· ∈ L0) :=
  signLaws_exact_noNegZero (by unfold AllFin; decide +kernel) (by decide +kernel)

/-- **`RSLaws` holds for the exact sign** (what the vertex rules need of the orientation function). -/
theorem rsLaws_exact {T : V3 → Prop} (hF : AllFin T) (hI : EqInj T) : RSLaws T exactDecision where
  anti x o y hx ho hy := E_swap13 (hF x hx) (hF o ho) (hF y hy)
  unit x o y hx ho hy := (signLaws_exact hF hI).unit x o y hx ho hy

example : RSLaws (· ∈ L1) exactDecision :=
  rsLaws_exact (by unfold AllFin; decide +kernel) (eqInj_of_dom L1_dom)

/-- The ±0 condition of `unit` is genuinely needed: two bit patterns of the point (1,0,0) are
    structurally distinct, finite, and the exact sign of a triple containing both is 0. -/
theorem unit_needs_signed_zero_condition :
    ¬ ∀ a b c : V3, Fin3 a → Fin3 b → Fin3 c → a ≠ b → b ≠ c → c ≠ a → (E a b c = 1 ∨ E a b c = -1) := by
  intro h
  have := h eX eXm eY (by decide +kernel) (by decide +kernel) (by decide +kernel) (by decide +kernel)
    (by decide +kernel) (by decide +kernel)
  have h0 : E eX eXm eY = 0 := by decide +kernel
  omega

/-! ## 2. the exact crossing criterion: symmetries for ALL finite points (no `Dom`, no ±0 condition) -/

section sym
variable {a b c d : V3}

/-- the four-orientation criterion in terms of the four signs the code computes — finite points only -/
theorem fourSame_iff_exact (ha : Fin3 a) (hb : Fin3 b) (hc : Fin3 c) (hd : Fin3 d) :
    fourSameWith exactDecision a b c d = true ↔
      (E a b c ≠ 0 ∧ E c d b = E a b c ∧ E a b d = -(E a b c) ∧ E c d a = -(E a b c)) := by
  have h1 : E a c b = -(E a b c) := E_swap23 ha hb hc
  have h2 : E c b d = -(E c d b) := E_swap23 hc hd hb
  have h3 : E b d a = E a b d := E_rot ha hb hd
  have h4 : E d a c = E c d a := E_rot hc hd ha
  unfold fourSameWith
  simp only [Bool.and_eq_true, bne_iff_ne, beq_iff_eq, ne_eq]
  rw [h1, h2, h3, h4]
  omega

example : fourSameWith exactDecision pX pY pC pD = true := by decide +kernel

/-- reversing AB leaves the exact criterion unchanged -/
theorem exactCrossing_reverse_ab_exact (ha : Fin3 a) (hb : Fin3 b) (hc : Fin3 c) (hd : Fin3 d) :
    exactCrossing b a c d = exactCrossing a b c d := by
  have hs : sharesEndpoint b a c d = sharesEndpoint a b c d := by
    unfold sharesEndpoint
    cases V3.feq a c <;> cases V3.feq a d <;> cases V3.feq b c <;> cases V3.feq b d <;> rfl
  have h4 : fourSameWith exactDecision b a c d = fourSameWith exactDecision a b c d := by
    rw [Bool.eq_iff_iff, fourSame_iff_exact hb ha hc hd, fourSame_iff_exact ha hb hc hd]
    have e1 : E b a c = -(E a b c) := E_swap12 ha hb hc
    have e2 : E b a d = -(E a b d) := E_swap12 ha hb hd
    rw [e1, e2]; omega
  unfold exactCrossing exactCrossingWith; rw [hs, h4]

/-- near-degenerate instance: `eXY` is exactly coplanar with `eX`, `eY`; `eXm` is a ±0 twin of `eX` -/
example : exactCrossing eY eXm eXY eZ = exactCrossing eXm eY eXY eZ :=
  exactCrossing_reverse_ab_exact (by decide +kernel) (by decide +kernel) (by decide +kernel) (by decide +kernel)

/-- reversing CD leaves the exact criterion unchanged -/
theorem exactCrossing_reverse_cd_exact (ha : Fin3 a) (hb : Fin3 b) (hc : Fin3 c) (hd : Fin3 d) :
    exactCrossing a b d c = exactCrossing a b c d := by
  have hs : sharesEndpoint a b d c = sharesEndpoint a b c d := by
    unfold sharesEndpoint
    cases V3.feq a c <;> cases V3.feq a d <;> cases V3.feq b c <;> cases V3.feq b d <;> rfl
  have h4 : fourSameWith exactDecision a b d c = fourSameWith exactDecision a b c d := by
    rw [Bool.eq_iff_iff, fourSame_iff_exact ha hb hd hc, fourSame_iff_exact ha hb hc hd]
    have e1 : E d c b = -(E c d b) := E_swap12 hc hd hb
    have e2 : E d c a = -(E c d a) := E_swap12 hc hd ha
    rw [e1, e2]; omega
  unfold exactCrossing exactCrossingWith; rw [hs, h4]

example : exactCrossing eX eY eZ eXYu = exactCrossing eX eY eXYu eZ :=
  exactCrossing_reverse_cd_exact (by decide +kernel) (by decide +kernel) (by decide +kernel) (by decide +kernel)

/-- exchanging the two edges leaves the exact criterion unchanged -/
theorem exactCrossing_swap_edges_exact (ha : Fin3 a) (hb : Fin3 b) (hc : Fin3 c) (hd : Fin3 d) :
    exactCrossing c d a b = exactCrossing a b c d := by
  have hs : sharesEndpoint c d a b = sharesEndpoint a b c d := by
    unfold sharesEndpoint
    rw [feq_comm hc ha, feq_comm hc hb, feq_comm hd ha, feq_comm hd hb]
    cases V3.feq a c <;> cases V3.feq a d <;> cases V3.feq b c <;> cases V3.feq b d <;> rfl
  have h4 : fourSameWith exactDecision c d a b = fourSameWith exactDecision a b c d := by
    rw [Bool.eq_iff_iff, fourSame_iff_exact hc hd ha hb, fourSame_iff_exact ha hb hc hd]
    omega
  unfold exactCrossing exactCrossingWith; rw [hs, h4]

example : exactCrossing pC pD pX pY = exactCrossing pX pY pC pD ∧ exactCrossing pX pY pC pD = 1 :=
  ⟨exactCrossing_swap_edges_exact (by decide +kernel) (by decide +kernel) (by decide +kernel)
    (by decide +kernel), by decide +kernel⟩

/-- all eight ways of writing the same pair of undirected edges give the same exact answer -/
theorem exactCrossing_eight_exact (ha : Fin3 a) (hb : Fin3 b) (hc : Fin3 c) (hd : Fin3 d) :
    exactCrossing b a c d = exactCrossing a b c d ∧ exactCrossing a b d c = exactCrossing a b c d ∧
    exactCrossing b a d c = exactCrossing a b c d ∧ exactCrossing c d a b = exactCrossing a b c d ∧
    exactCrossing d c a b = exactCrossing a b c d ∧ exactCrossing c d b a = exactCrossing a b c d ∧
    exactCrossing d c b a = exactCrossing a b c d := by
  have r1 := exactCrossing_reverse_ab_exact ha hb hc hd
  have r2 := exactCrossing_reverse_cd_exact ha hb hc hd
  have r3 := exactCrossing_swap_edges_exact ha hb hc hd
  refine ⟨r1, r2, ?_, r3, ?_, ?_, ?_⟩
  · rw [exactCrossing_reverse_ab_exact ha hb hd hc, r2]
  · rw [exactCrossing_reverse_ab_exact hc hd ha hb, r3]
  · rw [exactCrossing_reverse_cd_exact hc hd ha hb, r3]
  · rw [exactCrossing_reverse_ab_exact hc hd hb ha, exactCrossing_reverse_cd_exact hc hd ha hb, r3]

example : exactCrossing eXYu eZ eY eX = exactCrossing eX eY eZ eXYu :=
  (exactCrossing_eight_exact (a := eX) (b := eY) (c := eZ) (d := eXYu) (by decide +kernel) (by decide +kernel)
    (by decide +kernel) (by decide +kernel)).2.2.2.2.2.2

/-- degenerate edges (Go `==` endpoints, ±0 twins included): MaybeCross if a vertex is shared, otherwise
    DoNotCross — never Cross -/
theorem exactCrossing_degenerate_exact (ha : Fin3 a) (hb : Fin3 b) (hc : Fin3 c) (hd : Fin3 d)
    (hdeg : V3.feq a b = true ∨ V3.feq c d = true) :
    exactCrossing a b c d = if sharesEndpoint a b c d then 0 else -1 := by
  unfold exactCrossing exactCrossingWith
  cases hs : sharesEndpoint a b c d
  · have : ¬ (fourSameWith exactDecision a b c d = true) := by
      rw [fourSame_iff_exact ha hb hc hd]
      rcases hdeg with h | h
      · have := (E_zero_iff ha hb hc).2 (Or.inl h); omega
      · have := (E_zero_iff hc hd hb).2 (Or.inl h); omega
    simp [this]
  · simp

/-- an edge whose endpoints are the two bit patterns of (1,0,0) is degenerate for the exact criterion -/
example : exactCrossing eX eXm eY eZ = -1 := by
  rw [exactCrossing_degenerate_exact (by decide +kernel) (by decide +kernel) (by decide +kernel)
    (by decide +kernel) (Or.inl (by decide +kernel))]
  decide +kernel

/-- Cross (+1) implies that the four points are pairwise not `==` and both edges see the endpoints of the
    other on strictly opposite sides (the exact signs are ±1 and opposite) -/
theorem exactCrossing_one_exact (ha : Fin3 a) (hb : Fin3 b) (hc : Fin3 c) (hd : Fin3 d)
    (h : exactCrossing a b c d = 1) :
    E a b d = -(E a b c) ∧ E c d a = -(E c d b) ∧ E a b c ≠ 0 ∧ E c d b ≠ 0 ∧
      V3.feq a b = false ∧ V3.feq c d = false := by
  unfold exactCrossing exactCrossingWith at h
  cases hs : sharesEndpoint a b c d
  · rw [hs] at h
    by_cases h4 : fourSameWith exactDecision a b c d = true
    · obtain ⟨n0, e1, e2, e3⟩ := (fourSame_iff_exact ha hb hc hd).1 h4
      refine ⟨e2, by omega, n0, by omega, ?_, ?_⟩
      · cases hf : V3.feq a b
        · rfl
        · exact absurd ((E_zero_iff ha hb hc).2 (Or.inl hf)) n0
      · cases hf : V3.feq c d
        · rfl
        · exact absurd ((E_zero_iff hc hd hb).2 (Or.inl hf)) (by omega)
    · simp [h4] at h
  · rw [hs] at h; simp at h

example : exactCrossing pX pY pC pD = 1 := by decide +kernel

end sym

/-! ## 3. the theorems of `Properties/C03.lean` with `SignLaws` discharged

  `Dom S` (Go `==` is `=` on S, no zero vector) stays because these statements and the crosser's
  `c != e.c` / zero-value logic are phrased with `=`; `FloatSound S` stays (hence `_partial`). -/

section discharged
variable {S : V3 → Prop} {a b c d : V3}

/-- `CrossingSign` is decided exactly, GIVEN sound float filters — `SignLaws` no longer assumed. -/
theorem crossingSign_exact_signLawsFree_partial (hD : Dom S) (hfin : AllFin S) (hF : FloatSound S)
    (ha : S a) (hb : S b) (hc : S c) (hd : S d) :
    crossingSign a b c d = exactCrossing a b c d :=
  crossingSign_exact_partial hD (signLaws_of_dom hD hfin) hF ha hb hc hd

example : crossingSign pX pY pC pD = exactCrossing pX pY pC pD :=
  crossingSign_exact_signLawsFree_partial L0_dom (by unfold AllFin; decide +kernel) L0_floatSound
    (by mem) (by mem) (by mem) (by mem)

/-- symmetry of `CrossingSign` — `SignLaws` no longer assumed. -/
theorem crossingSign_symmetric_signLawsFree_partial (hD : Dom S) (hfin : AllFin S) (hF : FloatSound S)
    (ha : S a) (hb : S b) (hc : S c) (hd : S d) :
    crossingSign b a c d = crossingSign a b c d ∧ crossingSign a b d c = crossingSign a b c d ∧
    crossingSign c d a b = crossingSign a b c d :=
  crossingSign_symmetric_partial hD (signLaws_of_dom hD hfin) hF ha hb hc hd

example : crossingSign pC pD pX pY = crossingSign pX pY pC pD :=
  (crossingSign_symmetric_signLawsFree_partial L0_dom (by unfold AllFin; decide +kernel) L0_floatSound
    (by mem) (by mem) (by mem) (by mem)).2.2

/-- MaybeCross exactly when two vertices of different edges coincide — `SignLaws` no longer assumed. -/
theorem crossingSign_maybe_iff_signLawsFree_partial (hD : Dom S) (hfin : AllFin S) (hF : FloatSound S)
    (ha : S a) (hb : S b) (hc : S c) (hd : S d) :
    crossingSign a b c d = 0 ↔ (a = c ∨ a = d ∨ b = c ∨ b = d) :=
  crossingSign_maybe_iff_partial hD (signLaws_of_dom hD hfin) hF ha hb hc hd

example : crossingSign pX pY pX pD = 0 :=
  (crossingSign_maybe_iff_signLawsFree_partial L0_dom (by unfold AllFin; decide +kernel) L0_floatSound
    (by mem) (by mem) (by mem) (by mem)).mpr (Or.inl rfl)

/-- REFINEMENT of every crosser history by the stateless functions — `SignLaws` no longer assumed. -/
theorem crosser_refines_stateless_signLawsFree_partial (hD : Dom S) (hfin : AllFin S) (hF : FloatSound S)
    (ha : S a) (hb : S b) (ops : List Op) (hpts : ∀ op ∈ ops, ∀ p ∈ op.points, S p)
    (hwf : wellFormed ops = true) :
    run (init a b) ops = spec a b zero3 ops :=
  crosser_refines_stateless_partial hD (signLaws_of_dom hD hfin) hF ha hb ops hpts hwf

example : run (init pX pY) ops0 = spec pX pY zero3 ops0 :=
  crosser_refines_stateless_signLawsFree_partial L0_dom (by unfold AllFin; decide +kernel) L0_floatSound
    (by mem) (by mem) ops0 (by simp [ops0, Op.points, L0]) (by decide)

/-- the cache invariant after every history — `SignLaws` no longer assumed. -/
theorem crosser_invariant_signLawsFree_partial (hD : Dom S) (hfin : AllFin S) (hF : FloatSound S)
    (ha : S a) (hb : S b) (ops : List Op) (hpts : ∀ op ∈ ops, ∀ p ∈ op.points, S p)
    (hwf : wellFormed ops = true) :
    (exec (init a b) ops).acb = 0 ∨
      (exec (init a b) ops).acb = -(E a b (exec (init a b) ops).c) :=
  crosser_invariant_partial hD (signLaws_of_dom hD hfin) hF ha hb ops hpts hwf

example : (exec (init pX pY) ops0).acb = 0 ∨
    (exec (init pX pY) ops0).acb = -(E pX pY (exec (init pX pY) ops0).c) :=
  crosser_invariant_signLawsFree_partial L0_dom (by unfold AllFin; decide +kernel) L0_floatSound
    (by mem) (by mem) ops0 (by simp [ops0, Op.points, L0]) (by decide)

end discharged

/-! ## 4. the shared-vertex rules for the EXACT vertex crossing: unconditional

  `exactVertexCrossing` = `VertexCrossing` with every orientation evaluated by the exact sign.
  Hypotheses: the four points and the reference directions of the two candidate shared vertices are
  finite and there are no ±0 twins among them (`Dom T`: the rule is phrased with `=`). -/

section vertex
variable {T : V3 → Prop} {a b c d : V3}

/-- rule (4): two non-degenerate edges that share exactly one vertex — exactly one of VC(a,b,c,d),
    VC(c,d,a,b) holds, for the exact vertex crossing.  No hypothesis on the orientation function is left. -/
theorem exactVertexCrossing_exactly_one (hD : Dom T) (hfin : AllFin T)
    (ha : T a) (hb : T b) (hc : T c) (hd : T d) (hra : T (referenceDir a)) (hrb : T (referenceDir b))
    (hab : a ≠ b) (hcd : c ≠ d)
    (hone : (a = c ∧ b ≠ d) ∨ (b = d ∧ a ≠ c) ∨ (a = d ∧ b ≠ c) ∨ (b = c ∧ a ≠ d)) :
    exactVertexCrossing a b c d = !(exactVertexCrossing c d a b) :=
  vertexCrossing_exactly_one hD (rsLaws_exact hfin (eqInj_of_dom hD)) ha hb hc hd hra hrb hab hcd hone

example : exactVertexCrossing pX pY pX pD = !(exactVertexCrossing pX pD pX pY) :=
  exactVertexCrossing_exactly_one L1_dom (by unfold AllFin; decide +kernel) (by mem) (by mem) (by mem) (by mem)
    (by mem) (by mem) (by decide) (by decide) (Or.inl ⟨rfl, by decide⟩)

/-- the shared vertex may be approached along the great circle of the other edge (exact determinant 0,
    decided by the symbolic perturbation): `pM` is exactly coplanar with `pX`, `pY` -/
example : exactVertexCrossing pX pY pX pM = !(exactVertexCrossing pX pM pX pY) :=
  exactVertexCrossing_exactly_one L1_dom (by unfold AllFin; decide +kernel) (by mem) (by mem) (by mem) (by mem)
    (by mem) (by mem) (by decide) (by decide) (Or.inl ⟨rfl, by decide⟩)

/-- rules (1)–(3) of `VertexCrossing` for the exact vertex crossing (they need `Dom` only) together with
    rule (4): the complete list of the Go comment, no orientation hypothesis. -/
theorem exactVertexCrossing_rules123 (hD : Dom T) (ha : T a) (hb : T b) (hc : T c) (hd : T d) :
    exactVertexCrossing a a c d = false ∧ exactVertexCrossing a b c c = false ∧
    (a ≠ b → exactVertexCrossing a b a b = true ∧ exactVertexCrossing a b b a = true) ∧
    exactVertexCrossing a b d c = exactVertexCrossing a b c d ∧
    exactVertexCrossing b a c d = exactVertexCrossing a b c d ∧
    exactVertexCrossing b a d c = exactVertexCrossing a b c d := by
  have r1 := vertexCrossing_rule1 hD (orderedCCWWith exactDecision) ha hb hc hd
  have r3 := vertexCrossing_rule3 hD (orderedCCWWith exactDecision) ha hb hc hd
  exact ⟨r1.1, r1.2, fun hab => vertexCrossing_rule2 hD (orderedCCWWith exactDecision) ha hb hab,
    r3.1, r3.2.1, r3.2.2⟩

example : exactVertexCrossing pY pX pD pX = exactVertexCrossing pX pY pX pD :=
  (exactVertexCrossing_rules123 L1_dom (a := pX) (b := pY) (c := pX) (d := pD) (by mem) (by mem) (by mem)
    (by mem)).2.2.2.2.2

/-- `AngleContainsVertex` with exact orientations: false for ABA; complementary for ABC / CBA when A ≠ C. -/
theorem exactAngleContainsVertex_rules (hfin : AllFin T) (hI : EqInj T)
    (ha : T a) (hb : T b) (hc : T c) (hrb : T (referenceDir b)) (hab : a ≠ b) (hbc : b ≠ c) :
    (!(orderedCCWWith exactDecision (referenceDir b) a a b)) = false ∧
    (a ≠ c → (!(orderedCCWWith exactDecision (referenceDir b) c a b)) =
      !(!(orderedCCWWith exactDecision (referenceDir b) a c b))) :=
  angleContainsVertex_rules (rsLaws_exact hfin hI) ha hb hc hrb hab hbc

example : (!(orderedCCWWith exactDecision (referenceDir pX) pD pY pX)) =
    !(!(orderedCCWWith exactDecision (referenceDir pX) pY pD pX)) :=
  (exactAngleContainsVertex_rules (T := (· ∈ L1)) (by unfold AllFin; decide +kernel) (eqInj_of_dom L1_dom)
    (a := pY) (b := pX) (c := pD) (by mem) (by mem) (by mem) (by mem) (by decide) (by decide)).2 (by decide)

/-- `RobustSign` satisfies `RSLaws` wherever the float filters are sound — `SignLaws` no longer assumed;
    so rule (4) holds for the library's `VertexCrossing` under `Dom`, finiteness and `FloatSound` only. -/
theorem vertexCrossing_exactly_one_signLawsFree_partial {S : V3 → Prop} (hD : Dom S) (hfin : AllFin S)
    (hF : FloatSound S) (ha : S a) (hb : S b) (hc : S c) (hd : S d)
    (hra : S (referenceDir a)) (hrb : S (referenceDir b)) (hab : a ≠ b) (hcd : c ≠ d)
    (hone : (a = c ∧ b ≠ d) ∨ (b = d ∧ a ≠ c) ∨ (a = d ∧ b ≠ c) ∨ (b = c ∧ a ≠ d)) :
    vertexCrossing a b c d = !(vertexCrossing c d a b) :=
  vertexCrossing_exactly_one hD (rsLaws_robust hD (signLaws_of_dom hD hfin) hF) ha hb hc hd hra hrb hab hcd hone

/-- non-vacuity: a point set containing the reference directions on which `Dom`, finiteness and
    `FloatSound` are all checked by kernel evaluation -/
def L2 : List V3 := [pX, pY, pD, referenceDir pX, referenceDir pY]

private theorem L2_dom : Dom (· ∈ L2) := dom_of_check (by decide +kernel)
private theorem L2_tan1 : tanSoundB L2 pX = true := by decide +kernel
private theorem L2_tan2 : tanSoundB L2 pY = true := by decide +kernel
private theorem L2_tan3 : tanSoundB L2 pD = true := by decide +kernel
private theorem L2_tan4 : tanSoundB L2 (referenceDir pX) = true := by decide +kernel
private theorem L2_tan5 : tanSoundB L2 (referenceDir pY) = true := by decide +kernel
private theorem L2_floatSound : FloatSound (· ∈ L2) :=
  floatSound_of_parts (by decide +kernel) (by
    intro a ha
    simp only [L2, List.mem_cons, List.not_mem_nil, or_false] at ha
    rcases ha with h | h | h | h | h <;> rw [h]
    · exact L2_tan1
    · exact L2_tan2
    · exact L2_tan3
    · exact L2_tan4
    · exact L2_tan5)

example : vertexCrossing pX pY pX pD = !(vertexCrossing pX pD pX pY) :=
  vertexCrossing_exactly_one_signLawsFree_partial L2_dom (by unfold AllFin; decide +kernel) L2_floatSound
    (by simp [L2]) (by simp [L2]) (by simp [L2]) (by simp [L2]) (by simp [L2]) (by simp [L2])
    (by decide) (by decide) (Or.inl ⟨rfl, by decide⟩)

end vertex

end S2Proofs.C03
