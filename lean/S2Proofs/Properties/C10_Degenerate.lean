/-
  Property C10 (c), degenerate configurations: the hypothesis structure `SignLaws` of the monotone-chain hull
  DISCHARGED for the library's exact + symbolic orientation sign `Pred.exactDecisionI` and the sort order of
  `ConvexHull()` (`lt a b :⇔ RobustSign(origin, a, b) = +1`) with NO general-position hypothesis:
  `signLaws_degenerate : signLaws_degenerate_statement` (the statement left open in C10_Exact.lean).

  Proof: C02's global simulation of simplicity (`C02.sos_global_holds`, in the form
  `C02.exactDecision_realisable_pos`): on the finitely many vectors a law talks about (origin, the half-space
  witness `w`, at most four points) the decisions are the orientation signs of ONE genuine real configuration in
  general position, for which the laws are the Grassmann–Plücker sign consequences `trans_gpR … t3_gpR`.

  The right half-space hypothesis is on the SIGN: `exactDecisionI o w p = +1` for all points (the perturbed point
  is strictly inside the perturbed half-space).  It is implied by the geometric OPEN half-space `0 < det3 o w p`
  (`signLaws_open_halfspace`: any other degeneracy allowed — points coplanar with the centre, points coplanar with
  the origin, proportional vectors).  The geometric CLOSED half-space `0 ≤ det3 o w p` is NOT enough:
  `closed_halfspace_insufficient` (the sort order is cyclic on three points, two of them on the boundary plane).
-/
import S2Proofs.Properties.C10_Exact
import S2Proofs.Properties.C02_Chirotope

namespace S2Proofs.C10
open S2 S2.Exact S2.Pred S2.Bounds S2Proofs.PredLemmas S2Proofs.SosLemmas S2Proofs.C02 S2Proofs.C10L S2Proofs.ExactLaws

/-! ### the laws -/

section
variable {o w : IV3} {S : IV3 → Prop}

/-- `SignLaws`, counter-clockwise sort order, from the sign-level half-space hypothesis -/
theorem signLaws_of_halfspace_sign (hw : ∀ p, S p → exactDecisionI o w p = 1) :
    SignLaws (sgnOn S) (ltAround o S) where
  irrefl a hl := by
    have := (EI_zero_iff o a.1 a.1).2 (Or.inr (Or.inl rfl))
    unfold ltAround at hl; omega
  trans a b c hab hbc := by
    obtain ⟨f, m⟩ := exactDecision_realisable_pos [o, w, a.1, b.1, c.1]
    have wa := hw _ a.2; have wb := hw _ b.2; have wc := hw _ c.2
    unfold ltAround at *
    rw [m _ _ _ (by simp) (by simp) (by simp)] at hab hbc wa wb wc ⊢
    exact trans_gpR _ _ _ _ _ wa wb wc hab hbc
  cyc a b c := (EI_rot a.1 b.1 c.1).symm
  anti a b c := EI_swap12 a.1 b.1 c.1
  nondeg a b c hab hbc hac :=
    EI_unit a.1 b.1 c.1 (fun e => hab (Subtype.ext e)) (fun e => hbc (Subtype.ext e))
      (fun e => hac (Subtype.ext e.symm))
  t1 a b c d hab hbc hcd h1 h2 := by
    obtain ⟨f, m⟩ := exactDecision_realisable_pos [o, w, a.1, b.1, c.1, d.1]
    have wb := hw _ b.2; have wc := hw _ c.2; have wd := hw _ d.2
    unfold ltAround sgnOn at *
    rw [m _ _ _ (by simp) (by simp) (by simp)] at hab hbc hcd h1 h2 wb wc wd ⊢
    exact t1_gpR (f o) _ _ _ _ hab hbc (trans_gpR _ _ _ _ _ wb wc wd hbc hcd) h1 h2
  t2 p x y z hx hy hz h1 h2 := by
    obtain ⟨f, m⟩ := exactDecision_realisable_pos [o, p.1, x.1, y.1, z.1]
    unfold ltAround sgnOn at *
    rw [m _ _ _ (by simp) (by simp) (by simp)] at hx hy hz h1 h2 ⊢
    exact t2_gpR (f o) _ _ _ _ hx hy hz h1 h2
  t3 a b q p hab hqb hbp _ h1 h2 := by
    obtain ⟨f, m⟩ := exactDecision_realisable_pos [o, a.1, b.1, q.1, p.1]
    unfold ltAround sgnOn at *
    rw [m _ _ _ (by simp) (by simp) (by simp)] at hab hqb hbp h1 h2 ⊢
    exact t3_gpR (f o) _ _ _ _ hab hqb hbp h1 h2

/-- … and for the reversed (clockwise) sort order -/
theorem signLaws_of_halfspace_sign_rev (hw : ∀ p, S p → exactDecisionI o w p = 1) :
    SignLaws (sgnOn S) (fun a b => ltAround o S b a) where
  irrefl a hl := (signLaws_of_halfspace_sign hw).irrefl a hl
  trans a b c hab hbc := (signLaws_of_halfspace_sign hw).trans c b a hbc hab
  cyc := (signLaws_of_halfspace_sign hw).cyc
  anti := (signLaws_of_halfspace_sign hw).anti
  nondeg := (signLaws_of_halfspace_sign hw).nondeg
  t1 a b c d hab hbc hcd h1 h2 := by
    obtain ⟨f, m⟩ := exactDecision_realisable_pos [o, w, a.1, b.1, c.1, d.1]
    have wb := hw _ b.2; have wc := hw _ c.2; have wd := hw _ d.2
    unfold ltAround sgnOn at *
    rw [m _ _ _ (by simp) (by simp) (by simp)] at hab hbc hcd h1 h2 wb wc wd ⊢
    rw [← detR_neg_first] at hab hbc hcd
    rw [← detR_neg_neg] at wb wc wd
    exact t1_gpR (negR (f o)) _ _ _ _ hab hbc (trans_gpR _ _ _ _ _ wb wc wd hbc hcd) h1 h2
  t2 p x y z hx hy hz h1 h2 := by
    obtain ⟨f, m⟩ := exactDecision_realisable_pos [o, p.1, x.1, y.1, z.1]
    unfold ltAround sgnOn at *
    rw [m _ _ _ (by simp) (by simp) (by simp)] at hx hy hz h1 h2 ⊢
    rw [← detR_neg_first] at hx hy hz
    exact t2_gpR (negR (f o)) _ _ _ _ hx hy hz h1 h2
  t3 a b q p hab hqb hbp _ h1 h2 := by
    obtain ⟨f, m⟩ := exactDecision_realisable_pos [o, a.1, b.1, q.1, p.1]
    unfold ltAround sgnOn at *
    rw [m _ _ _ (by simp) (by simp) (by simp)] at hab hqb hbp h1 h2 ⊢
    rw [← detR_neg_first] at hab hqb hbp
    exact t3_gpR (negR (f o)) _ _ _ _ hab hqb hbp h1 h2

end

/-- **`SignLaws` for the exact sign, degenerate configurations included** (the statement left open in
    C10_Exact.lean): for every origin `o` and every set `S` of integer vectors (finite or not) for which some `w`
    has `RobustSign(o, w, p) = +1` for all `p ∈ S`, the exact + symbolic decision and the sort order of
    `ConvexHull()` satisfy all laws used by the monotone-chain proof, in both sort directions.
    (The side conditions `p ≠ o`, `w ∉ S`, `w ≠ o` of the statement are not used: they follow from the sign
    hypothesis when `S` is non-empty.) -/
theorem signLaws_degenerate : signLaws_degenerate_statement :=
  fun _ _ _ ⟨_, _, _, hw⟩ => ⟨signLaws_of_halfspace_sign hw, signLaws_of_halfspace_sign_rev hw⟩

/-- The geometric form: all points strictly inside an OPEN half-space bounded by a plane through the origin
    vector (`0 < det(o, w, p)`; in `ConvexHull()`: all points within the open hemisphere about the cap centre,
    `w = centre × origin`).  No other general-position assumption. -/
theorem signLaws_open_halfspace (o w : IV3) (S : IV3 → Prop) (hw : ∀ p, S p → 0 < det3 o w p) :
    SignLaws (sgnOn S) (ltAround o S) ∧ SignLaws (sgnOn S) (fun a b => ltAround o S b a) :=
  have h : ∀ p, S p → exactDecisionI o w p = 1 := fun p hp => EI_eq_one_of_det_pos _ _ _ (hw p hp)
  ⟨signLaws_of_halfspace_sign h, signLaws_of_halfspace_sign_rev h⟩

/-! ### the hull theorems without general position -/

/-- **The hull theorem for the exact sign, degenerate input allowed**: for distinct points of an open half-space
    through the origin vector, sorted around the origin as `ConvexHull()` sorts them, every input point is a vertex
    of the hull loop or is decided `+1` (left) against every edge of the loop, the closing edge included; in
    particular its exact determinant against every edge is ≥ 0 (no input point is strictly outside the loop). -/
theorem hull_contains_input_open_halfspace {o w : IV3} {S : IV3 → Prop} (hw : ∀ p, S p → 0 < det3 o w p)
    {pts vs : List {p // S p}} (hs : pts.Pairwise (ltAround o S)) (h3 : 3 ≤ pts.length)
    (hv : convexHullSorted (sgnOn S) pts = .loop vs) :
    ∀ a b, CyclicPair vs a b → ∀ p ∈ pts, p ≠ a → p ≠ b →
      exactDecisionI a.1 b.1 p.1 = 1 ∧ 0 ≤ det3 a.1 b.1 p.1 := by
  intro a b hc p hp hpa hpb
  have L := signLaws_open_halfspace o w S hw
  have h1 : exactDecisionI a.1 b.1 p.1 = 1 := hull_contains_input L.1 L.2 hs h3 hv a b hc p hp hpa hpb
  refine ⟨h1, ?_⟩
  by_contra hn
  have := EI_eq_neg_one_of_det_neg _ _ _ (not_le.mp hn)
  omega

/-- **The hull loop is convex for the exact sign, degenerate input allowed**: every cyclically consecutive triple
    of the loop is decided counter-clockwise (so its exact determinant is ≥ 0). -/
theorem hull_is_convex_open_halfspace {o w : IV3} {S : IV3 → Prop} (hw : ∀ p, S p → 0 < det3 o w p)
    {pts vs : List {p // S p}} (hs : pts.Pairwise (ltAround o S)) (h3 : 3 ≤ pts.length)
    (hv : convexHullSorted (sgnOn S) pts = .loop vs) :
    ∀ a b c, CyclicPair vs a b → CyclicPair vs b c → c ≠ a →
      exactDecisionI a.1 b.1 c.1 = 1 ∧ 0 ≤ det3 a.1 b.1 c.1 := by
  intro a b c h1 h2 hca
  have L := signLaws_open_halfspace o w S hw
  have h : exactDecisionI a.1 b.1 c.1 = 1 := hull_is_convex L.1 L.2 hs h3 hv a b c h1 h2 hca
  refine ⟨h, ?_⟩
  by_contra hn
  have := EI_eq_neg_one_of_det_neg _ _ _ (not_le.mp hn)
  omega

/-! ### non-vacuity: a degenerate point set -/

/-- six vectors above the plane z = 0: three on one plane through the centre with two of them PROPORTIONAL
    ((1,0,1) ∥ (2,0,2): the same point of the sphere given twice at different scale), (0,0,1), (1,0,1), (1,0,2)
    coplanar with the centre, and (1,0,1), (1,0,2), … coplanar with the sort origin (y = 0 plane contains `degO`) -/
def degCap : List IV3 := [⟨0, 0, 1⟩, ⟨1, 0, 1⟩, ⟨2, 0, 2⟩, ⟨1, 0, 2⟩, ⟨0, 1, 1⟩, ⟨1, 1, 1⟩]
def degO : IV3 := ⟨1, 0, 0⟩
def degW : IV3 := ⟨0, 1, 0⟩
def degS : IV3 → Prop := (· ∈ degCap)

/-- the instance is degenerate in every way `GenPos` forbids, and lies in the open half-space z > 0 -/
theorem degCap_facts :
    (∀ p ∈ degCap, 0 < det3 degO degW p) ∧
    det3 ⟨0, 0, 1⟩ ⟨1, 0, 1⟩ ⟨1, 0, 2⟩ = 0 ∧ det3 ⟨1, 0, 1⟩ ⟨2, 0, 2⟩ ⟨0, 1, 1⟩ = 0 ∧
    det3 degO ⟨0, 0, 1⟩ ⟨1, 0, 1⟩ = 0 ∧ det3 degO ⟨1, 0, 1⟩ ⟨2, 0, 2⟩ = 0 ∧
    exactDecisionI degO ⟨1, 0, 1⟩ ⟨2, 0, 2⟩ = 1 ∧ exactDecisionI ⟨0, 0, 1⟩ ⟨1, 0, 1⟩ ⟨1, 0, 2⟩ = -1 := by
  decide +kernel

example : SignLaws (sgnOn degS) (ltAround degO degS) ∧ SignLaws (sgnOn degS) (fun a b => ltAround degO degS b a) :=
  signLaws_open_halfspace degO degW degS (fun p hp => degCap_facts.1 p hp)

example : ¬ GenPos degO degS := fun h =>
  h.org ⟨1, 0, 1⟩ ⟨2, 0, 2⟩ (by simp [degS, degCap]) (by simp [degS, degCap]) (by decide) (by decide +kernel)

/-- a member of the instance with its membership proof -/
def degPt (p : IV3) (h : p ∈ degCap := by simp [degCap]) : {p // degS p} := ⟨p, h⟩

/-- `degCap` sorted around `degO` (the output of `sortAround`) and the hull the model computes for it: the collinear
    vertex (1,0,2) stays on the loop, (1,0,1) (same direction as (2,0,2)) is dropped -/
def degSorted : List {p // degS p} :=
  [degPt ⟨1, 1, 1⟩, degPt ⟨0, 1, 1⟩, degPt ⟨0, 0, 1⟩, degPt ⟨1, 0, 2⟩, degPt ⟨1, 0, 1⟩, degPt ⟨2, 0, 2⟩]
def degHull : List {p // degS p} :=
  [degPt ⟨1, 1, 1⟩, degPt ⟨0, 1, 1⟩, degPt ⟨0, 0, 1⟩, degPt ⟨1, 0, 2⟩, degPt ⟨2, 0, 2⟩]

private theorem degSorted_pairwise : degSorted.Pairwise (ltAround degO degS) := by
  unfold ltAround; decide +kernel

private theorem degHull_eq : convexHullSorted (sgnOn degS) degSorted = .loop degHull := by
  rw [convexHullSorted_loop (sgnOn degS) (by decide)]
  exact congrArg Hull.loop (by decide +kernel)

example : ∀ a b, CyclicPair degHull a b → ∀ p ∈ degSorted, p ≠ a → p ≠ b →
    exactDecisionI a.1 b.1 p.1 = 1 ∧ 0 ≤ det3 a.1 b.1 p.1 :=
  hull_contains_input_open_halfspace (fun p hp => degCap_facts.1 p hp) degSorted_pairwise (by decide) degHull_eq

example : ∀ a b c, CyclicPair degHull a b → CyclicPair degHull b c → c ≠ a →
    exactDecisionI a.1 b.1 c.1 = 1 ∧ 0 ≤ det3 a.1 b.1 c.1 :=
  hull_is_convex_open_halfspace (fun p hp => degCap_facts.1 p hp) degSorted_pairwise (by decide) degHull_eq

/-- instance of the hypotheses of `signLaws_degenerate_statement` (sign-level half-space with a point ON the
    boundary plane: `det(o, w, p) = 0` for p = (-2,1,0), decided +1 by the symbolic perturbation) -/
example : (∀ p, p ∈ [(⟨-2, 1, 0⟩ : IV3), ⟨0, 0, 1⟩, ⟨3, 0, 1⟩] → p ≠ degO) ∧
    (¬ degW ∈ [(⟨-2, 1, 0⟩ : IV3), ⟨0, 0, 1⟩, ⟨3, 0, 1⟩] ∧ degW ≠ degO ∧
      ∀ p, p ∈ [(⟨-2, 1, 0⟩ : IV3), ⟨0, 0, 1⟩, ⟨3, 0, 1⟩] → exactDecisionI degO degW p = 1) ∧
    det3 degO degW ⟨-2, 1, 0⟩ = 0 :=
  ⟨by decide +kernel, ⟨by simp [degW], by decide, by decide +kernel⟩, by decide +kernel⟩

/-! ### the closed half-space is not enough -/

/-- Three vectors of the CLOSED half-space `0 ≤ det(o, w, ·)` (two of them on the boundary plane, antipodal
    around the origin axis) whose sort order is cyclic: a < b < c < a.  So the half-space hypothesis of the laws
    cannot be weakened to the closed geometric half-space; the sign-level hypothesis fails for c. -/
theorem closed_halfspace_insufficient :
    let o : IV3 := ⟨0, 0, 1⟩; let w : IV3 := ⟨-1, 0, 0⟩
    let a : IV3 := ⟨-1, 0, 1⟩; let b : IV3 := ⟨0, -1, 1⟩; let c : IV3 := ⟨1, 0, 1⟩
    0 ≤ det3 o w a ∧ 0 ≤ det3 o w b ∧ 0 ≤ det3 o w c ∧
    exactDecisionI o a b = 1 ∧ exactDecisionI o b c = 1 ∧ exactDecisionI o c a = 1 ∧
    exactDecisionI o w c = -1 := by decide +kernel

end S2Proofs.C10
