/-
  Property C06, second sentence, for `Polygon` (package c06deep): "Every shape exposes one edge
  set: its edges enumerated by edge id and by (chain, offset) are identical and chain positions
  invert chain lookup."

  `Polygon_contract` (stated in S2Proofs/Properties/C06.lean) is the Shape contract
  `Contract (Polygon.acc s) (NumEdges s) (NumChains s)` for the state `s = PolygonFromLoops(loops)`
  of EVERY loop list satisfying `PolyValid` — any number of loops, hence both search paths of
  s2/polygon.go: the linear scans (`linSearch`, `sumLens`; ≤ 12 loops) and the `cumulativeEdges`
  scan (`cumSearch`; > 12 loops).  The three loop lemmas are in S2Proofs/C06/Polygon.lean
  (`linSearch_spec`, `cumSearch_spec`, `sumLens_spec`).

  `PolyValid loops`: either the polygon is the empty / full polygon (its single loop has one
  vertex) or no loop has exactly one vertex (what `Polygon.Validate` accepts as far as vertex
  counts go).  The hypothesis is necessary: see `polygon_contract_needs_valid`.
-/
import S2Proofs.Properties.C06
import S2Proofs.C06.Polygon
namespace S2Proofs.C06
open S2 S2.Shapes

/-- Polygon: for every valid loop list (any number of loops; empty and full polygon included) the
    six accessors satisfy the Shape contract: (i) `ChainPosition(e)` is in range and
    `ChainEdge(ChainPosition(e)) = Edge(e)`, (ii) `ChainPosition(Chain(i).Start + j) = (i, j)` and
    `Edge(Chain(i).Start + j) = ChainEdge(i, j)`, (iii) the chains tile `[0, NumEdges)`, (iv) no
    accessor panics on in-range arguments. -/
theorem polygon_contract : Polygon_contract := by
  intro loops hv
  rcases hv with ⟨l, rfl, hl⟩ | hv
  · exact polygon_contract_emptyFull l hl
  · rw [fromLoops_eq loops hv]
    have h := polyState_contract loops hv
    have e1 : Polygon.NumEdges (polyState loops) = (((lens loops).sum : Nat) : Int) := by
      simp [Polygon.NumEdges, polyState, sumNat_eq_sum]
    have e2 : Polygon.NumChains (polyState loops) = (((lens loops).length : Nat) : Int) := by
      simp [Polygon.NumChains, Polygon.NumLoops, polyState, lens_length]
    rw [e1, e2]
    exact h

/-- non-vacuity: three loops (linear path, one of them a hole), 14 loops (`cumulativeEdges` path,
    with a zero-vertex loop in the middle), the full and the empty polygon. -/
example : PolyValid [⟨3, false, 0⟩, ⟨4, false, 1⟩, ⟨2, false, 0⟩] := Or.inr (by decide)
example : PolyValid ((List.range 14).map fun k => (⟨if k = 5 then 0 else k + 2, false, k⟩ : LoopS)) := Or.inr (by decide)
example : PolyValid [⟨1, true, 0⟩] := Or.inl ⟨_, rfl, rfl⟩
example : Contract (Polygon.acc (PolygonS.fromLoops [⟨3, false, 0⟩, ⟨4, false, 1⟩, ⟨2, false, 0⟩])) 9 3 :=
  polygon_contract _ (Or.inr (by decide))
example : (PolygonS.fromLoops ((List.range 14).map fun k => (⟨k + 2, false, k⟩ : LoopS))).cumulativeEdges ≠ none := by decide
example : Contract (Polygon.acc (PolygonS.fromLoops ((List.range 14).map fun k => (⟨k + 2, false, k⟩ : LoopS)))) 119 14 :=
  polygon_contract _ (Or.inr (by decide))

/-- The hypothesis `PolyValid` cannot be dropped: for the (invalid) two-loop polygon consisting of a
    one-vertex loop and a triangle, `NumEdges = 4` but `Chain(0) = (0, 0)`, `Chain(1) = (1, 3)`:
    edge id 0 lies in no chain (`ChainPosition(0) = (0, 0)` with offset 0 ≥ length 0). -/
theorem polygon_contract_needs_valid :
    ¬ Contract (Polygon.acc (PolygonS.fromLoops [⟨1, false, 0⟩, ⟨3, false, 0⟩]))
        (Polygon.NumEdges (PolygonS.fromLoops [⟨1, false, 0⟩, ⟨3, false, 0⟩]))
        (Polygon.NumChains (PolygonS.fromLoops [⟨1, false, 0⟩, ⟨3, false, 0⟩])) := by
  intro h
  obtain ⟨c, o, st, len, ed, h1, _, _, h2, _, h3, h4, _⟩ := h.pos_edge 0 (by decide) (by decide)
  have hp : (Polygon.acc (PolygonS.fromLoops [⟨1, false, 0⟩, ⟨3, false, 0⟩])).chainPosition 0 = some (0, 0) := by decide
  rw [hp] at h1
  obtain ⟨rfl, rfl⟩ := Prod.mk.inj (Option.some.inj h1)
  have hc : (Polygon.acc (PolygonS.fromLoops [⟨1, false, 0⟩, ⟨3, false, 0⟩])).chain 0 = some (0, 0) := by decide
  rw [hc] at h2
  obtain ⟨_, rfl⟩ := Prod.mk.inj (Option.some.inj h2)
  omega

end S2Proofs.C06
