/-
  C08 — closest / furthest edge queries equal an exhaustive scan.

  Model: `S2.EdgeQueryM` (s2/edge_query.go statement by statement):
   (a) result post-processing (`sortAndUniqueResults`, truncation in `findEdges`);
   (b) `initCovering` / `addInitialRange` over the sorted cell-id list of the index, as REPAIRED
       (`initCovering`) and with the stray `break` of defect D7 (`initCoveringD7`);
   (c) the search (`findEdgesInternal`, `addResult`, `maybeAddResult` with the repaired duplicate
       filter and the inverted one of defect D9, brute force, best-first search with a priority
       queue, `initQueue` with the `maxResults == 1` shortcut) over an ABSTRACT index: a cell tree
       whose nodes carry `updateDistanceToCell`, edges carry their (shape, edge) key, and the
       distance type is the Go `distance` interface (`less/zero/infinity/sub`; `minDist`, `maxDist`).

  What is proved here (for ALL inputs, no size bounds):
   (i)   post-processing: sorted, duplicate-free, at most MaxResults, = prefix of the sorted
         de-duplicated input, the k best; independent of the algorithm behind `sort.Slice`;
   (ii)  `initCovering` (repaired): for every non-empty sorted list of pairwise disjoint valid cells
         the covering has 1..6 cells (≤ 4 on one face), is sorted / disjoint / valid, every index
         cell lies in exactly one covering cell, no covering cell is empty, the cached index-cell
         pointers are right.  The code with the stray `break` (D7) violates this: `example`s;
   (iii) search, Thm(hyp): numeric facts are HYPOTHESES (`WorldOK`: `updateDistanceToEdge` is exact,
         `updateDistanceToCell` is a sound lower bound, the initial cells are complete — these belong
         to C12 / C17 and to (ii)):  MaxResults ≠ 1: optimized = brute force = the k best within the
         limit; MaxResults = 1 (also `Distance`, `IsDistanceLess/Greater`): the reported distance is
         within MaxError of the true optimum in the sense of the Go doc (no edge is closer than
         `reported − MaxError`), exact when MaxError = 0, both paths agree on the distance; threshold
         form `IsDistanceLess t ⇔ Distance < t`; the repaired duplicate filter makes results
         duplicate-free, the inverted one (D9) returns nothing: `example`.
  Label: partial — the numeric lower bounds / exactness are hypotheses (`WorldOK`, and `WorldApprox`
  for targets that USE MaxError, i.e. shape-index targets).  For such targets the MaxResults = 1 case
  is proved here (`single_*_approx`); MaxResults ≠ 1 with an approximate target (`ApproxMultiSpec`,
  top-k / rank semantics), the furthest-edge instance written out, and the threshold calls for
  approximate targets are proved in `Properties/C08_Approx.lean`.
-/
import S2Proofs.EdgeQuery.Post
import S2Proofs.EdgeQuery.Cover
import S2Proofs.EdgeQuery.SearchMulti
import S2Proofs.EdgeQuery.SearchSingle
namespace S2Proofs.C08
open S2 S2.CellID S2.EdgeQueryM S2Proofs.EdgeQuery

variable {D : Type} [DecidableEq D] {I : DistI D}

/-! ## (i) Post-processing -/

/-- the answer of `findEdges` is strictly increasing in (distance, shapeID, edgeID) -/
theorem post_sorted (H : DistOrder I) (k : Nat) (rs : List (Result D)) :
    (postProcess I k rs).Pairwise (fun a b => Result.less I a b = true) :=
  S2Proofs.EdgeQuery.post_sorted H k rs

/-- … hence free of duplicates -/
theorem post_nodup (H : DistOrder I) (k : Nat) (rs : List (Result D)) : (postProcess I k rs).Nodup :=
  S2Proofs.EdgeQuery.post_nodup H k rs

/-- … and never longer than MaxResults -/
theorem post_length_le (k : Nat) (rs : List (Result D)) : (postProcess I k rs).length ≤ k :=
  S2Proofs.EdgeQuery.post_length_le I k rs

/-- it is the length-k prefix of the sorted, de-duplicated input, whose members are exactly the
    members of the input -/
theorem post_prefix (H : DistOrder I) (k : Nat) (rs : List (Result D)) :
    postProcess I k rs = (sortAndUniqueResults I rs).take k ∧
    (∀ r, r ∈ sortAndUniqueResults I rs ↔ r ∈ rs) ∧
    (sortAndUniqueResults I rs).Pairwise (fun a b => Result.less I a b = true) :=
  ⟨post_eq_take I k rs, sortAndUnique_mem I rs, sortAndUnique_sorted H rs⟩

/-- the k best: everything returned is smaller than everything not returned -/
theorem post_kbest (H : DistOrder I) (k : Nat) (rs : List (Result D)) :
    ∀ a ∈ postProcess I k rs, ∀ b ∈ rs, b ∉ postProcess I k rs → Result.less I a b = true :=
  S2Proofs.EdgeQuery.post_kbest H k rs

/-- Go's `sort.Slice` does not specify its algorithm: whatever sorted permutation it produces, the
    de-duplication loop yields the model's list -/
theorem post_independent_of_sort_algorithm (H : DistOrder I) (rs l' : List (Result D)) (hp : l'.Perm rs)
    (hs : l'.Pairwise (fun a b => Result.less I b a = false)) : uniqAdj l' = sortAndUniqueResults I rs :=
  sortAndUnique_unique H rs l' hp hs

/-- non-vacuity: both instantiations of the distance interface are strict total orders -/
example : DistOrder (minDist 1000) := minDist_order 1000
example : DistOrder (maxDist 1000) := maxDist_order 1000
example : postProcess (minDist 1000) 3 [⟨7,2,0⟩, ⟨3,1,5⟩, ⟨7,1,9⟩, ⟨3,1,5⟩, ⟨3,1,2⟩, ⟨900,0,0⟩]
    = [⟨3,1,2⟩, ⟨3,1,5⟩, ⟨7,1,9⟩] := by decide
example : postProcess (maxDist 1000) 3 [⟨7,2,0⟩, ⟨3,1,5⟩, ⟨7,1,9⟩, ⟨3,1,5⟩, ⟨3,1,2⟩, ⟨900,0,0⟩]
    = [⟨900,0,0⟩, ⟨7,1,9⟩, ⟨7,2,0⟩] := by decide

/-! ## (ii) The initial covering -/

/-- FULL STATEMENT for a covering function `f` (the repaired code satisfies it, the code with the
    stray `break` does not). -/
def InitCoveringSpec (f : List CellID → Option (List (CellID × Bool))) : Prop :=
  ∀ cells, IndexCellsOK cells →
  ∃ cov, f cells = some cov ∧
    1 ≤ cov.length ∧ cov.length ≤ 6 ∧
    ((∀ c ∈ cells, face c = face cells.head!) → cov.length ≤ 4) ∧
    (∀ p ∈ cov, isValid p.1 = true) ∧
    cov.Pairwise (fun a b => rangeMax a.1 < rangeMin b.1) ∧
    (∀ c ∈ cells, ∃ p ∈ cov, rangeMin p.1 ≤ rangeMin c ∧ rangeMax c ≤ rangeMax p.1) ∧
    (∀ c ∈ cells, ∀ p ∈ cov, ∀ q ∈ cov,
       (rangeMin p.1 ≤ rangeMin c ∧ rangeMax c ≤ rangeMax p.1) →
       (rangeMin q.1 ≤ rangeMin c ∧ rangeMax c ≤ rangeMax q.1) → p = q) ∧
    (∀ p ∈ cov, ∃ c ∈ cells, rangeMin p.1 ≤ rangeMin c ∧ rangeMax c ≤ rangeMax p.1) ∧
    (∀ p ∈ cov, p.2 = true ↔ p.1 ∈ cells)

/-- the repaired `initCovering`: for EVERY non-empty sorted list of pairwise disjoint valid index
    cells (any number of cells, 1–6 faces): 1..6 covering cells (≤ 4 on a single face), valid,
    sorted and disjoint, every index cell in exactly one of them, none empty, pointer flags right;
    in particular the loop fuel of the model never runs out -/
theorem initCovering_repaired_spec : InitCoveringSpec initCovering := by
  intro cells h
  obtain ⟨cov, h0, h1, h2, h3, _, h5, h6, h7, h8, h9, h10⟩ := initCovering_spec cells h
  exact ⟨cov, h0, h1, h2, h3, h5, h6, h7, h8, h9, h10⟩

/-- a single index cell is its own covering -/
theorem initCovering_single (c : CellID) (h : isValid c = true) : initCovering [c] = some [(c, true)] := by
  have hok : IndexCellsOK [c] := ⟨by simp, by simpa using h, by simp⟩
  obtain ⟨cov, h0, _, _, _, h4, _⟩ := initCovering_spec [c] hok
  rw [h0, h4 rfl]; rfl

/-- non-vacuity: cells of mixed levels on three faces -/
example : IndexCellsOK [child (fromFace 0) 1, child (child (fromFace 0) 2) 3, fromFace 1,
    child (child (child (fromFace 4) 0) 1) 2, child (fromFace 4) 3] := by decide +kernel

/-- DEFECT D7 (stray `break`): the property is FALSE for the unrepaired code.  Index cells on
    faces 0, 1, 3: the covering is [face 0, face 1] and the cell on face 3 is in no covering cell
    (every edge there is lost by the optimized search). -/
theorem initCoveringD7_violates_spec : ¬ InitCoveringSpec initCoveringD7 := by
  intro H
  have hok : IndexCellsOK [fromFace 0, fromFace 1, fromFace 3] := by decide +kernel
  obtain ⟨cov, h0, _, _, _, _, _, h6, _⟩ := H _ hok
  have e : initCoveringD7 [fromFace 0, fromFace 1, fromFace 3] = some [(fromFace 0, true), (fromFace 1, false)] := by
    decide +kernel
  rw [e] at h0
  cases h0
  obtain ⟨p, hp, h⟩ := h6 (fromFace 3) (by simp)
  simp only [List.mem_cons, List.mem_nil_iff, or_false] at hp
  rcases hp with rfl | rfl <;> revert h <;> decide +kernel

example : initCoveringD7 [fromFace 0, fromFace 1, fromFace 3] = some [(fromFace 0, true), (fromFace 1, false)] := by
  decide +kernel
example : initCovering [fromFace 0, fromFace 1, fromFace 3]
    = some [(fromFace 0, true), (fromFace 1, true), (fromFace 3, true)] := by decide +kernel
/-- on a single face the stray `break` does not lose cells but makes the covering overlap itself -/
example : initCoveringD7 [child (fromFace 2) 0, child (fromFace 2) 1, child (fromFace 2) 3]
    = some [(child (fromFace 2) 0, true), (fromFace 2, false)] := by decide +kernel

/-! ## (iii) The search -/

section Search
variable (I) (o : Opts D) (w : World D) (d : EdgeKey → D)

/-- the model's loop fuel never runs out: `findEdges` always answers -/
theorem findEdges_total : ∃ rs, findEdges I o w = some rs := S2Proofs.EdgeQuery.findEdges_total I o w

/-- MaxResults ≠ 1, exact target: the optimized search and the brute-force scan return the SAME
    list, namely the MaxResults best (distance, shape, edge) among the interior results and the
    edges within the distance limit.  MaxError plays no role (as the Go doc says). -/
theorem optimized_eq_bruteforce_multi (hI : DistOrder I) (H : WorldOK I w d) (h1 : o.maxResults ≠ 1)
    (hte : o.targetUsesMaxError = false) :
    findEdges I { o with useBruteForce := false } { w with small := false } =
      findEdges I { o with useBruteForce := true } w :=
  opt_eq_brute_multi I o w d hI H h1 hte

/-- … and that list is the post-processed exhaustive scan -/
theorem findEdges_multi_eq_scan (hI : DistOrder I) (H : WorldOK I w d) (h1 : o.maxResults ≠ 1)
    (hz : o.distanceLimit ≠ I.zero) (hte : o.targetUsesMaxError = false) :
    findEdges I o w = some (postProcess I o.maxResults
      (interiorResults I o w ++ (w.allEdges.filter (fun e => I.less (d e) o.distanceLimit)).map (hitOf d))) :=
  findEdges_multi_answer I o w d hI H h1 hz hte

/-- the repaired duplicate filter (`avoidDuplicates`: target uses MaxError, MaxResults > 1): no edge
    is reported twice, whatever distances the target computes (no geometric hypothesis) -/
theorem duplicate_filter_nodup (hif : o.invertedFilter = false) (hte : o.targetUsesMaxError = true)
    (hme : o.maxError ≠ I.zero) (hmr : o.maxResults > 1) (hb : o.useBruteForce = false) (hsm : w.small = false) :
    ∀ s, findEdgesInternal I o w = some s →
      ((s.results.filter (fun r => decide (r.edge ≥ 0))).map (fun r => (r.shape, r.edge))).Nodup :=
  dupfilter_nodup I o w hif hte hme hmr hb hsm

end Search

/-- DEFECT D9 (inverted duplicate filter): with the unrepaired filter the optimized search of a
    target that uses MaxError returns NOTHING, the repaired one returns the brute-force answer -/
example : findEdges Example.I0 (Example.oD9 true) Example.w0 = some [] := Example.d9_inverted_empty
example : findEdges Example.I0 (Example.oD9 false) Example.w0 = some [⟨10, 0, 0⟩, ⟨20, 0, 1⟩, ⟨30, 0, 2⟩] :=
  Example.d9_repaired
/-- non-vacuity of `WorldOK` (a node with two index cells sharing an edge, one of them enqueued) -/
example : WorldOK Example.I0 Example.w0 Example.d0 := Example.w0_ok

/-! ### MaxResults = 1 (`findEdge`, `Distance`, `IsDistanceLess`, `IsDistanceGreater`) -/

section Single
variable {o : Opts D} {w : World D} {d : EdgeKey → D}

/-- at most one result -/
theorem single_length (h1 : o.maxResults = 1) {rs : List (Result D)} (h : findEdges I o w = some rs) :
    rs.length ≤ 1 := S2Proofs.EdgeQuery.single_length h1 h

/-- on either path, a result is an interior result (distance zero, edge −1) or an edge of the index
    with its true distance, within the distance limit -/
theorem single_sound (O : DistOrder I) (S : SubLaws I o.maxError) (H : WorldOK I w d)
    (h1 : o.maxResults = 1) (hU : o.targetUsesMaxError = false) {rs : List (Result D)}
    (h : findEdges I o w = some rs) : ∀ r ∈ rs,
    (o.includeInteriors = true ∧ r.dist = I.zero ∧ r.edge = -1 ∧ r.shape ∈ w.interiors) ∨
    (∃ e ∈ w.allEdges, r = ⟨d e, e.shape, e.edge⟩ ∧ I.less (d e) o.distanceLimit = true) :=
  S2Proofs.EdgeQuery.single_sound O S H h1 hU h

/-- THE MaxError GUARANTEE (Go doc: "edges up to MaxError further away than the true closest edges
    may be substituted"): on either path no edge of the index is closer than the reported distance
    minus MaxError (for a furthest query: further than the reported distance plus MaxError) -/
theorem single_within_maxError (O : DistOrder I) (S : SubLaws I o.maxError) (H : WorldOK I w d)
    (h1 : o.maxResults = 1) (hU : o.targetUsesMaxError = false) {rs : List (Result D)}
    (h : findEdges I o w = some rs) :
    ∀ r ∈ rs, ∀ e ∈ w.allEdges, I.less (d e) (I.sub r.dist o.maxError) = false :=
  single_optimal O S H h1 hU h

/-- nothing returned ⇒ nothing is within the limit -/
theorem single_complete (O : DistOrder I) (S : SubLaws I o.maxError) (H : WorldOK I w d)
    (h1 : o.maxResults = 1) (hU : o.targetUsesMaxError = false) {rs : List (Result D)}
    (h : findEdges I o w = some rs) (hnil : rs = []) :
    ∀ e ∈ w.allEdges, I.less (d e) o.distanceLimit = false :=
  S2Proofs.EdgeQuery.single_complete O S H h1 hU h hnil

/-- with interiors included, a target inside an indexed polygon is at distance zero -/
theorem interior_distance_zero (O : DistOrder I) (S : SubLaws I o.maxError) (H : WorldOK I w d)
    (h1 : o.maxResults = 1) (hU : o.targetUsesMaxError = false) {rs : List (Result D)}
    (h : findEdges I o w = some rs) (hi : o.includeInteriors = true) (hne : w.interiors ≠ [])
    (hz : o.distanceLimit ≠ I.zero) : ∃ r ∈ rs, r.dist = I.zero :=
  single_interior O S H h1 hU h hi hne hz

/-- MaxError = 0: the reported distance is the true optimum -/
theorem single_exact_optimum (O : DistOrder I) (H : WorldOK I w d) (h1 : o.maxResults = 1)
    (hU : o.targetUsesMaxError = false) (hz : ∀ a, I.sub a o.maxError = a) {rs : List (Result D)}
    (h : findEdges I o w = some rs) : ∀ r ∈ rs, ∀ e ∈ w.allEdges, I.less (d e) r.dist = false :=
  single_exact O H h1 hU hz h

/-- MaxError = 0: `Distance` of the optimized search = `Distance` of the brute-force scan (the EDGE
    reported may differ among edges at the same distance: heap order / Go map order) -/
theorem distance_optimized_eq_bruteforce (O : DistOrder I) (H : WorldOK I w d)
    (hU : o.targetUsesMaxError = false) (hz : ∀ a, I.sub a o.maxError = a) :
    distance I { o with useBruteForce := false } { w with small := false } =
      distance I { o with useBruteForce := true } w :=
  distance_opt_eq_brute O H hU hz

/-- threshold form: `IsDistanceLess(t)` (= `IsDistanceGreater(t)` on a furthest query, which
    delegates to it: `less` is `>` there) holds iff `Distance` is `less` than `t` -/
theorem isDistanceLess_iff_distance_less (O : DistOrder I) (H : WorldOK I w d)
    (hU : o.targetUsesMaxError = false) (hlim : o.distanceLimit = I.infinity)
    (hz : ∀ a, I.sub a o.maxError = a) {straight t : D} (Sst : SubLaws I straight)
    (hinf : I.less I.zero I.infinity = true) (ht1 : I.less I.infinity t = false)
    (ht0 : I.less t I.zero = false)
    (hsh : ∀ e ∈ w.allEdges, 0 ≤ e.shape) (hin : ∀ sh ∈ w.interiors, 0 ≤ sh)
    {b : Bool} {dd : D} (hb : isDistanceLess I straight o w t = some b)
    (hd : distance I o w = some dd) : (b = true ↔ I.less dd t = true) :=
  isDistanceLess_iff O H hU hlim hz Sst hinf ht1 ht0 hsh hin hb hd

/-- the same guarantee for a target that USES MaxError (shape-index targets: the distances it
    computes may exceed the true ones by up to MaxError, cell distances are made conservative) -/
theorem single_within_maxError_approx (O : DistOrder I) (S : SubLaws I o.maxError)
    (M : SubMono I o.maxError) (A : WorldApprox I o.maxError w d) (h1 : o.maxResults = 1)
    (hU : o.targetUsesMaxError = true) (hne : o.maxError ≠ I.zero) {rs : List (Result D)}
    (h : findEdges I o w = some rs) :
    (∀ r ∈ rs, ∀ e ∈ w.allEdges, I.less (d e) (I.sub r.dist o.maxError) = false) ∧
    (∀ r ∈ rs,
      (o.includeInteriors = true ∧ r.dist = I.zero ∧ r.edge = -1 ∧ r.shape ∈ w.interiors) ∨
      (∃ e ∈ w.allEdges, r.shape = e.shape ∧ r.edge = e.edge ∧
        I.less r.dist o.distanceLimit = true ∧ I.less r.dist (d e) = false ∧
        I.less (d e) (I.sub r.dist o.maxError) = false)) ∧
    (rs = [] → ∀ e ∈ w.allEdges, I.less (d e) o.distanceLimit = false) :=
  ⟨single_optimal_approx O S M A h1 hU hne h, single_sound_approx O S M A h1 hU hne h,
   single_complete_approx O S M A h1 hU hne h⟩

end Single

/-- MaxResults > 1 with a target that uses MaxError — every edge within the limit is reported
    exactly once with a distance within MaxError of its true distance.  PROVED (for every distance
    type with the order laws) in `Properties/C08_Approx.lean`: `approxMultiSpec_proved`; the full
    documented semantics (any MaxResults ≠ 1, interiors, rank guarantee) is `approx_multi_topk`. -/
def ApproxMultiSpec (I : DistI D) (o : Opts D) (w : World D) (d : EdgeKey → D) : Prop :=
  WorldApprox I o.maxError w d → o.maxResults > 1 → o.targetUsesMaxError = true → o.maxError ≠ I.zero →
  o.includeInteriors = false → o.invertedFilter = false → o.maxResults ≥ w.allEdges.length →
  ∀ rs, findEdges I o w = some rs →
    (∀ e ∈ w.allEdges, I.less (d e) o.distanceLimit = true → ∃ r ∈ rs, r.shape = e.shape ∧ r.edge = e.edge) ∧
    (∀ r ∈ rs, ∃ e ∈ w.allEdges, r.shape = e.shape ∧ r.edge = e.edge ∧ I.less r.dist (d e) = false ∧
      I.less (d e) (I.sub r.dist o.maxError) = false)

/-- non-vacuity of the MaxResults = 1 hypotheses: `SubLaws` / `SubMono` hold for both distance types,
    `WorldOK` / `WorldApprox` for concrete worlds whose queue is really used -/
example : SubLaws (minDist 1000) 7 := minDist_sub 1000 7 (by decide)
example : SubLaws (maxDist 1000) 7 := maxDist_sub 1000 7 (by decide)
example : SubMono (minDist 1000) 7 := minDist_subMono 1000 7 (by decide)
example : WorldOK (minDist 1000) SingleEx0.w0 SingleEx0.d0 := SingleEx0.w0_ok
example : WorldApprox (minDist 1000) 7 SingleEx1.w1 SingleEx1.d1 := SingleEx1.w1_ok

end S2Proofs.C08
