/-
  Property C17 — point–edge and edge–edge distances (s2/edge_distances.go).

  Objects: `S2.EdgeNum` (line-by-line soft-float model of updateMinDistance, interiorDist, UpdateMaxDistance,
  updateEdgePairMinDistance, …; tied to the Go code by the oracle ops `c17…`, every result bit-exact).
  All theorems are about the model functions, for ALL inputs (NaN, Inf, non-unit vectors included) unless a
  hypothesis is stated.

  PROVED:
   (T1) the predicate forms are the flags of the update forms           isDistanceLess_eq_update, isInteriorDistanceLess_eq_update
   (T2) "false ⇒ value unchanged", "true ⇒ not ≥ old value" (finite: strictly smaller)
                                                                        interiorDist_false_unchanged, interiorDist_true_not_ge, interiorDist_true_lt,
                                                                        updateMinDistance_false_unchanged, updateMinDistance_true_not_ge, updateMinDistance_true_lt,
                                                                        updateMinDistance_always (alwaysUpdate: flag true, old value irrelevant)
   (T3) UpdateMaxDistance: "true ⇒ old < new", "false ⇒ unchanged", the antipode identity
                                                                        updateMaxDistance_eq, updateMaxDistance_true_lt, updateMaxDistance_false_unchanged,
                                                                        maxCandidate_antipode, maxCandidate_antipode_chord, maxCandidate_near
   (T4) X at an endpoint: the interior branch is never taken, the chord distance is a zero
                                                                        interiorDist_at_a, interiorDist_at_b, endpoint_a_zero, endpoint_b_zero
        (the vertex branch returns `chordFromLen2 (min xa2 xb2)` = s1.ChordAngleFromSquaredLength, the clamp to 4
        introduced by the repair of defect F6; a zero is unchanged by the clamp)
   (T4') the clamp: vertex-branch results are never above StraightChordAngle = 4
                                                                        updateMinDistance_le_four, (example) antipodal regression input of F6
   (T5) degenerate edge A = B: never the interior branch; the (clamped) vertex distance is returned
                                                                        interiorDist_degenerate, updateMinDistance_degenerate
   (T6) updateEdgePairMinDistance: the three cases; the threshold reading FAILS for a negative threshold
                                                                        edgePair_zero_threshold, edgePair_crossing, edgePair_no_crossing, edgePair_no_crossing_false_unchanged,
                                                                        edgePair_no_crossing_true_iff_lt (finite values), (example) negative threshold
   (T7) "IsDistanceLess(x,a,b,m) ⇔ DistanceFromSegment(x,a,b) < m" is FALSE at the literal strength (1 ulp, rounding
        of the interior formula vs. the vertex formula)                 not_thresholdAgrees, isDistanceLess_partial
  PARTIAL (stated as `def … : Prop`, judged by the oracle on every generated input, not proved):
   DistanceWithinMaxError, NotAboveEndpointDistance, ProjectRealisesDistance, InterpolateDistanceFraction,
   UninterpolateInterpolate  (error analysis of the float formulas / libm functions).
  Hypotheses `hn`, `hl` of (T4) ("the squared length |a−b|² is not NaN and not negative") hold for every pair of
  finite vectors; this sign fact about the rounding function is not proved here, hence kept as decidable hypotheses.
-/
import Mathlib.Tactic.SplitIfs
import Mathlib.Data.Real.Basic
import S2Proofs.F64Order
import S2Proofs.EdgeNumLemmas

namespace S2Proofs.C17
open S2 S2.Exact S2.EdgeNum S2Proofs.F64Order S2Proofs.EdgeNumLemmas

/-! ## (T1) predicate form = flag of the update form -/

/-- `IsDistanceLess(x,a,b,limit)` is the flag returned by `UpdateMinDistance(x,a,b,limit)`, which is
    `updateMinDistance(…, alwaysUpdate = false)`. -/
theorem isDistanceLess_eq_update (x a b : V3) (limit : F64) :
    isDistanceLess x a b limit = (updateMinDistance x a b limit false).2 := rfl

/-- `IsInteriorDistanceLess` is the flag of `interiorDist(…, alwaysUpdate = false)`. -/
theorem isInteriorDistanceLess_eq_update (x a b : V3) (limit : F64) :
    isInteriorDistanceLess x a b limit = (interiorDist x a b limit false).2 := rfl

/-! ## (T2) update discipline of the minimum forms -/

/-- `interiorDist` returns the old value whenever it returns `false` (any `alwaysUpdate`). -/
theorem interiorDist_false_unchanged (x a b : V3) (m : F64) (al : Bool) :
    (interiorDist x a b m al).2 = false → (interiorDist x a b m al).1 = m := by
  unfold interiorDist
  simp only []
  split_ifs <;> simp

/-- `interiorDist(…, false)` never returns `true` together with a value ≥ the old one. -/
theorem interiorDist_true_not_ge (x a b : V3) (m : F64) :
    (interiorDist x a b m false).2 = true → F64.ge (interiorDist x a b m false).1 m = false := by
  unfold interiorDist
  simp only []
  split_ifs with h1 h2 h3 h4 <;> simp
  simpa using h4

/-- for finite values "not ≥" is "<" -/
theorem not_ge_lt {r m : F64} (hr : Fin r) (hm : Fin m) (h : F64.ge r m = false) : F64.lt r m = true := by
  unfold F64.ge at h
  rw [lt_iff hr hm]
  have : ¬ (toInt m ≤ toInt r) := fun hh => by rw [(le_iff hm hr).mpr hh] at h; cases h
  omega

/-- … hence for finite values a `true` answer of `UpdateMinInteriorDistance` carries a strictly smaller value. -/
theorem interiorDist_true_lt (x a b : V3) (m : F64)
    (hr : Fin (interiorDist x a b m false).1) (hm : Fin m) :
    (interiorDist x a b m false).2 = true → F64.lt (interiorDist x a b m false).1 m = true :=
  fun h => not_ge_lt hr hm (interiorDist_true_not_ge x a b m h)

/-- `UpdateMinDistance` returns the old value whenever it returns `false`. -/
theorem updateMinDistance_false_unchanged (x a b : V3) (m : F64) :
    (updateMinDistance x a b m false).2 = false → (updateMinDistance x a b m false).1 = m := by
  unfold updateMinDistance
  simp only []
  split_ifs <;> simp

/-- `UpdateMinDistance` never returns `true` together with a value ≥ the old one. -/
theorem updateMinDistance_true_not_ge (x a b : V3) (m : F64) :
    (updateMinDistance x a b m false).2 = true → F64.ge (updateMinDistance x a b m false).1 m = false := by
  unfold updateMinDistance
  simp only []
  split_ifs with h1 h2
  · intro _; exact interiorDist_true_not_ge x a b m h1
  · simp
  · intro _; simpa using h2

/-- … hence for finite values a `true` answer of `UpdateMinDistance` carries a strictly smaller value. -/
theorem updateMinDistance_true_lt (x a b : V3) (m : F64)
    (hr : Fin (updateMinDistance x a b m false).1) (hm : Fin m) :
    (updateMinDistance x a b m false).2 = true → F64.lt (updateMinDistance x a b m false).1 m = true :=
  fun h => not_ge_lt hr hm (updateMinDistance_true_not_ge x a b m h)

-- non-vacuity: a finite update that returns true (X = (1,1,1), edge (0,1,0)–(0,0,1), old value 4)
example :
    let x : V3 := ⟨F64.one, F64.one, F64.one⟩
    let a : V3 := ⟨fz, F64.one, fz⟩
    let b : V3 := ⟨fz, fz, F64.one⟩
    Fin (updateMinDistance x a b f4 false).1 ∧ Fin f4 ∧ (updateMinDistance x a b f4 false).2 = true ∧
    Fin (interiorDist x a b f4 false).1 ∧ (interiorDist x a b f4 false).2 = true := by decide +kernel

/-- with `alwaysUpdate = true` (`DistanceFromSegment`, the antipode call of `UpdateMaxDistance`) the answer is
    always `true` and does not depend on the old value at all. -/
theorem updateMinDistance_always (x a b : V3) (m m' : F64) :
    (updateMinDistance x a b m true).2 = true ∧
      updateMinDistance x a b m true = updateMinDistance x a b m' true := by
  unfold updateMinDistance interiorDist
  simp only [Bool.not_true, Bool.false_and, Bool.false_eq_true, if_false]
  split_ifs <;> first | contradiction | simp

/-! ## (T3) UpdateMaxDistance -/

/-- the larger of the two endpoint chords, `maxChordAngle(ChordAngleBetweenPoints(x,a), ChordAngleBetweenPoints(x,b))` -/
def maxEndpointChord (x a b : V3) : F64 :=
  let ca := chordBetween x a
  let cb := chordBetween x b
  if F64.gt cb ca then cb else ca

/-- the candidate maximum distance of `UpdateMaxDistance` (the value of `dist` before the final comparison) -/
def maxCandidate (x a b : V3) : F64 :=
  let dist0 := maxEndpointChord x a b
  if F64.gt (chordExpanded dist0 (maxPointError dist0)) f2 then
    f4 - (updateMinDistance (x.mul fNegOne) a b dist0 true).1 else dist0

/-- `UpdateMaxDistance` compares the old value with the candidate, strictly. -/
theorem updateMaxDistance_eq (x a b : V3) (m : F64) :
    updateMaxDistance x a b m =
      if F64.lt m (maxCandidate x a b) then (maxCandidate x a b, true) else (m, false) := rfl

/-- returns `true` ⇒ the returned value is strictly greater than the old one -/
theorem updateMaxDistance_true_lt (x a b : V3) (m : F64) :
    (updateMaxDistance x a b m).2 = true → F64.lt m (updateMaxDistance x a b m).1 = true := by
  rw [updateMaxDistance_eq]
  split_ifs with h <;> simp
  exact h

/-- returns `false` ⇒ the old value is returned -/
theorem updateMaxDistance_false_unchanged (x a b : V3) (m : F64) :
    (updateMaxDistance x a b m).2 = false → (updateMaxDistance x a b m).1 = m := by
  rw [updateMaxDistance_eq]
  split_ifs <;> simp

/-- the 90-degree test of `UpdateMaxDistance` after repair D41: the larger endpoint chord, expanded by its
    `MaxPointError`, exceeds the right-angle chord 2 -/
def beyondRightAngle (x a b : V3) : Bool :=
  F64.gt (chordExpanded (maxEndpointChord x a b) (maxPointError (maxEndpointChord x a b))) f2

/-- **antipode identity as coded**: beyond a right angle (up to the error of the endpoint distances) the
    maximum distance is `4 −` the (always computed) minimum distance from the antipode `−x = x·(−1)`. -/
theorem maxCandidate_antipode (x a b : V3) (h : beyondRightAngle x a b = true) :
    maxCandidate x a b = f4 - (updateMinDistance (x.mul fNegOne) a b (maxEndpointChord x a b) true).1 := by
  unfold maxCandidate
  unfold beyondRightAngle at h
  simp only [h, if_true]

/-- the same identity in terms of `DistanceFromSegment`'s chord: `4 − dist(−x, ab)` -/
theorem maxCandidate_antipode_chord (x a b : V3) (h : beyondRightAngle x a b = true) :
    maxCandidate x a b = f4 - distanceFromSegmentChord (x.mul fNegOne) a b := by
  rw [maxCandidate_antipode x a b h]
  unfold distanceFromSegmentChord
  rw [(updateMinDistance_always (x.mul fNegOne) a b (maxEndpointChord x a b) fz).2]

/-- otherwise (also when the chord is NaN) the candidate is the larger endpoint chord. -/
theorem maxCandidate_near (x a b : V3) (h : beyondRightAngle x a b = false) :
    maxCandidate x a b = maxEndpointChord x a b := by
  unfold maxCandidate
  unfold beyondRightAngle at h
  simp only [h, Bool.false_eq_true, if_false]

-- non-vacuity: X = (1,0,0), edge (−1,0,0)–(0,1,0): the larger chord is 4 > 2 ; X = A: it is not
example :
    beyondRightAngle ⟨F64.one, fz, fz⟩ ⟨fNegOne, fz, fz⟩ ⟨fz, F64.one, fz⟩ = true ∧
    F64.gt (maxEndpointChord ⟨F64.one, fz, fz⟩ ⟨F64.one, fz, fz⟩ ⟨fz, F64.one, fz⟩) f2 = false := by
  decide +kernel

/-! ## (T4), (T5) the wedge test; endpoints and degenerate edges -/

/-- If the wedge test `(a−x)·(c×x) ≥ 0 ∨ (b−x)·(c×x) ≤ 0` of `interiorDist` succeeds, the answer is "not interior". -/
theorem interiorDist_wedge (x a b : V3) (m : F64) (al : Bool)
    (h : (F64.ge ((a.sub x).dot ((pointCross a b).cross x)) fz ||
          F64.le ((b.sub x).dot ((pointCross a b).cross x)) fz) = true) :
    (interiorDist x a b m al).2 = false := by
  unfold interiorDist
  simp only []
  split_ifs <;> simp

/-- without an interior answer, `updateMinDistance(…, alwaysUpdate = true)` returns the smaller vertex distance,
    clamped to 4 (`ChordAngleFromSquaredLength`) -/
theorem updateMinDistance_always_vertex (x a b : V3) (m : F64) (h : (interiorDist x a b m true).2 = false) :
    updateMinDistance x a b m true = (chordFromLen2 (F64.fmin (x.sub a).norm2 (x.sub b).norm2), true) := by
  unfold updateMinDistance
  simp [h]

-- non-vacuity of the two hypotheses above: X = (1,0,0) is the pole of the edge (0,1,0)–(0,0,1)
example :
    let x : V3 := ⟨F64.one, fz, fz⟩
    let a : V3 := ⟨fz, F64.one, fz⟩
    let b : V3 := ⟨fz, fz, F64.one⟩
    (F64.ge ((a.sub x).dot ((pointCross a b).cross x)) fz ||
      F64.le ((b.sub x).dot ((pointCross a b).cross x)) fz) = true ∧
    (interiorDist x a b fz true).2 = false := by decide +kernel

/-- **the clamp (repair of defect F6)**: with `alwaysUpdate = true` the flag is `true`, and whenever the interior
    branch is not taken the returned vertex distance is never above `StraightChordAngle` = 4. -/
theorem updateMinDistance_le_four (x a b : V3) (m : F64) :
    (updateMinDistance x a b m true).2 = true ∧
      ((interiorDist x a b m true).2 = false → F64.gt (updateMinDistance x a b m true).1 f4 = false) := by
  refine ⟨(updateMinDistance_always x a b m m).1, fun h => ?_⟩
  rw [updateMinDistance_always_vertex x a b m h]
  exact chordFromLen2_le_four _

def f6X : V3 := ⟨⟨0xbfe279a7458fc182⟩, ⟨0xbfe279a74590b2d5⟩, ⟨0xbfe279a745902501⟩⟩
def f6A : V3 := ⟨⟨0x3fe279a7458fc181⟩, ⟨0x3fe279a74590b2d5⟩, ⟨0x3fe279a745902501⟩⟩
def f6B : V3 := ⟨⟨0x3fe279a74590331d⟩, ⟨0x3fe279a74590331d⟩, ⟨0x3fe279a74590331d⟩⟩

-- regression for defect F6 (antipodal input): the raw squared length exceeds 4, the returned chord is exactly 4
example :
    distanceFromSegmentChord f6X f6A f6B = f4 ∧ (interiorDist f6X f6A f6B fz true).2 = false ∧
    F64.gt (F64.fmin (f6X.sub f6A).norm2 (f6X.sub f6B).norm2) f4 = true := by decide +kernel

/-- At X = A the interior branch is never taken (any old value, any `alwaysUpdate`).
    `hcx` : the vector `(A ⊗ B) × A` did not overflow (so that `0 · cx` is a zero, not NaN). -/
theorem interiorDist_at_a (a b : V3) (m : F64) (al : Bool) (ha : Fin3 a)
    (hcx : Fin3 ((pointCross a b).cross a)) : (interiorDist a a b m al).2 = false := by
  apply interiorDist_wedge
  obtain ⟨s, hs⟩ := zero3_dot hcx
  have hz : (F64.zero s).isZero = true := (zero_facts s).2.2.1
  rw [sub_self3 ha, hs]
  unfold F64.ge
  rw [(le_zero_of_isZero hz).1]; rfl

/-- At X = B likewise. -/
theorem interiorDist_at_b (a b : V3) (m : F64) (al : Bool) (hb : Fin3 b)
    (hcx : Fin3 ((pointCross a b).cross b)) : (interiorDist b a b m al).2 = false := by
  apply interiorDist_wedge
  obtain ⟨s, hs⟩ := zero3_dot hcx
  have hz : (F64.zero s).isZero = true := (zero_facts s).2.2.1
  rw [sub_self3 hb, hs, (le_zero_of_isZero hz).2]
  simp

/-- **Endpoint A**: the chord distance computed by `DistanceFromSegment(a, a, b)` is exactly zero. -/
theorem endpoint_a_zero (a b : V3) (ha : Fin3 a) (hcx : Fin3 ((pointCross a b).cross a))
    (hn : (a.sub b).norm2.isNaN = false) (hl : F64.lt (a.sub b).norm2 fz = false) :
    (distanceFromSegmentChord a a b).isZero = true := by
  unfold distanceFromSegmentChord
  rw [updateMinDistance_always_vertex a a b fz (interiorDist_at_a a b fz true ha hcx), sub_self3 ha, zero3_norm2]
  show (chordFromLen2 _).isZero = true
  rw [chordFromLen2_zero (fmin_zero_left hn hl)]
  exact fmin_zero_left hn hl

/-- **Endpoint B**: `DistanceFromSegment(b, a, b)` is exactly zero. -/
theorem endpoint_b_zero (a b : V3) (hb : Fin3 b) (hcx : Fin3 ((pointCross a b).cross b))
    (hn : (b.sub a).norm2.isNaN = false) (hl : F64.lt (b.sub a).norm2 fz = false) :
    (distanceFromSegmentChord b a b).isZero = true := by
  unfold distanceFromSegmentChord
  rw [updateMinDistance_always_vertex b a b fz (interiorDist_at_b a b fz true hb hcx), sub_self3 hb, zero3_norm2]
  show (chordFromLen2 _).isZero = true
  rw [chordFromLen2_zero (fmin_zero_right hn hl)]
  exact fmin_zero_right hn hl

-- non-vacuity of the endpoint hypotheses: A = (1,0,0), B = (0,1,0)
example :
    let a : V3 := ⟨F64.one, fz, fz⟩
    let b : V3 := ⟨fz, F64.one, fz⟩
    Fin3 a ∧ Fin3 b ∧ Fin3 ((pointCross a b).cross a) ∧ Fin3 ((pointCross a b).cross b) ∧
    (a.sub b).norm2.isNaN = false ∧ F64.lt (a.sub b).norm2 fz = false ∧
    (b.sub a).norm2.isNaN = false ∧ F64.lt (b.sub a).norm2 fz = false := by decide +kernel

/-- the full endpoint statement (both ends), as proved above -/
def EndpointZero : Prop :=
  ∀ a b : V3, Fin3 a → Fin3 b → Fin3 ((pointCross a b).cross a) → Fin3 ((pointCross a b).cross b) →
    (a.sub b).norm2.isNaN = false → F64.lt (a.sub b).norm2 fz = false →
    (b.sub a).norm2.isNaN = false → F64.lt (b.sub a).norm2 fz = false →
    (distanceFromSegmentChord a a b).isZero = true ∧ (distanceFromSegmentChord b a b).isZero = true

theorem endpointZero : EndpointZero :=
  fun a b ha hb h1 h2 h3 h4 h5 h6 => ⟨endpoint_a_zero a b ha h1 h3 h4, endpoint_b_zero a b hb h2 h5 h6⟩

/-- **Degenerate edge A = B**: `interiorDist` never answers "interior"
    (`t` = the common value of the two wedge dot products; a NaN `t` would fall through both comparisons). -/
theorem interiorDist_degenerate (x a : V3) (m : F64) (al : Bool)
    (ht : ((a.sub x).dot ((pointCross a a).cross x)).isNaN = false) :
    (interiorDist x a a m al).2 = false :=
  interiorDist_wedge x a a m al (ge_or_le_zero ht)

/-- … hence `DistanceFromSegment(x, a, a)` is the (twice computed, clamped) vertex distance. -/
theorem updateMinDistance_degenerate (x a : V3) (m : F64)
    (ht : ((a.sub x).dot ((pointCross a a).cross x)).isNaN = false) :
    updateMinDistance x a a m true = (chordFromLen2 (F64.fmin (x.sub a).norm2 (x.sub a).norm2), true) :=
  updateMinDistance_always_vertex x a a m (interiorDist_degenerate x a m true ht)

example : ((V3.sub ⟨fz, F64.one, fz⟩ ⟨F64.one, fz, fz⟩).dot
    ((pointCross ⟨fz, F64.one, fz⟩ ⟨fz, F64.one, fz⟩).cross ⟨F64.one, fz, fz⟩)).isNaN = false := by decide +kernel

/-! ## (T6) edge pairs -/

/-- threshold 0 (`minDist == 0`, also −0): nothing can be smaller; returns `(0, false)`. -/
theorem edgePair_zero_threshold (a0 a1 b0 b1 : V3) (m : F64) (h : F64.feq m fz = true) :
    updateEdgePairMinDistance a0 a1 b0 b1 m = (fz, false) := by
  unfold updateEdgePairMinDistance
  simp [h]

/-- crossing edges: returns `(0, true)` for EVERY threshold that is not `== 0` — also a negative or NaN one. -/
theorem edgePair_crossing (a0 a1 b0 b1 : V3) (m : F64) (h : F64.feq m fz = false)
    (hc : crosses a0 a1 b0 b1 = true) : updateEdgePairMinDistance a0 a1 b0 b1 m = (fz, true) := by
  unfold updateEdgePairMinDistance
  simp [h, hc]

/-- otherwise: the four point–edge updates are chained, the flag is their OR. -/
theorem edgePair_no_crossing (a0 a1 b0 b1 : V3) (m : F64) (h : F64.feq m fz = false)
    (hc : crosses a0 a1 b0 b1 = false) :
    updateEdgePairMinDistance a0 a1 b0 b1 m =
      let r1 := updateMinDistance a0 b0 b1 m false
      let r2 := updateMinDistance a1 b0 b1 r1.1 false
      let r3 := updateMinDistance b0 a0 a1 r2.1 false
      let r4 := updateMinDistance b1 a0 a1 r3.1 false
      (r4.1, r1.2 || r2.2 || r3.2 || r4.2) := by
  unfold updateEdgePairMinDistance updateMinDistancePub
  simp [h, hc]

/-- in the non-crossing case the flag is `true` only with a value that is not ≥ the old one, and `false` leaves
    the old value (the chain of (T2)). -/
theorem edgePair_no_crossing_false_unchanged (a0 a1 b0 b1 : V3) (m : F64) (h : F64.feq m fz = false)
    (hc : crosses a0 a1 b0 b1 = false) :
    (updateEdgePairMinDistance a0 a1 b0 b1 m).2 = false → (updateEdgePairMinDistance a0 a1 b0 b1 m).1 = m := by
  rw [edgePair_no_crossing a0 a1 b0 b1 m h hc]
  simp only [Bool.or_eq_false_iff]
  rintro ⟨⟨⟨h1, h2⟩, h3⟩, h4⟩
  have e1 := updateMinDistance_false_unchanged _ _ _ _ h1
  rw [e1] at h2 h3 h4 ⊢
  have e2 := updateMinDistance_false_unchanged _ _ _ _ h2
  rw [e2] at h3 h4 ⊢
  have e3 := updateMinDistance_false_unchanged _ _ _ _ h3
  rw [e3] at h4 ⊢
  exact updateMinDistance_false_unchanged _ _ _ _ h4

/-- one step of the chain on finite values: strictly smaller when the flag is set, unchanged otherwise -/
theorem updateMinDistance_step (x a b : V3) (m : F64)
    (hr : Fin (updateMinDistance x a b m false).1) (hm : Fin m) :
    ((updateMinDistance x a b m false).2 = true → toInt (updateMinDistance x a b m false).1 < toInt m) ∧
    ((updateMinDistance x a b m false).2 = false → toInt (updateMinDistance x a b m false).1 = toInt m) :=
  ⟨fun h => (lt_iff hr hm).mp (updateMinDistance_true_lt x a b m hr hm h),
   fun h => by rw [updateMinDistance_false_unchanged x a b m h]⟩

/-- the four chained point–edge updates of the non-crossing case -/
def edgeChain (a0 a1 b0 b1 : V3) (m : F64) : (F64 × Bool) × (F64 × Bool) × (F64 × Bool) × (F64 × Bool) :=
  let r1 := updateMinDistance a0 b0 b1 m false
  let r2 := updateMinDistance a1 b0 b1 r1.1 false
  let r3 := updateMinDistance b0 a0 a1 r2.1 false
  let r4 := updateMinDistance b1 a0 a1 r3.1 false
  (r1, r2, r3, r4)

/-- **non-crossing edges, finite values: `true` ⇔ the value strictly decreased** (and `false` ⇒ unchanged, above).
    `hfin` : the old value and the four intermediate minima are finite (no NaN / Inf). -/
theorem edgePair_no_crossing_true_iff_lt (a0 a1 b0 b1 : V3) (m : F64) (h : F64.feq m fz = false)
    (hc : crosses a0 a1 b0 b1 = false) (hm : Fin m)
    (hfin : Fin (edgeChain a0 a1 b0 b1 m).1.1 ∧ Fin (edgeChain a0 a1 b0 b1 m).2.1.1 ∧
      Fin (edgeChain a0 a1 b0 b1 m).2.2.1.1 ∧ Fin (edgeChain a0 a1 b0 b1 m).2.2.2.1) :
    (updateEdgePairMinDistance a0 a1 b0 b1 m).2 = true ↔
      F64.lt (updateEdgePairMinDistance a0 a1 b0 b1 m).1 m = true := by
  obtain ⟨f1, f2, f3, f4⟩ := hfin
  rw [edgePair_no_crossing a0 a1 b0 b1 m h hc]
  unfold edgeChain at f1 f2 f3 f4
  simp only at f1 f2 f3 f4 ⊢
  have s1 := updateMinDistance_step a0 b0 b1 m f1 hm
  have s2 := updateMinDistance_step a1 b0 b1 _ f2 f1
  have s3 := updateMinDistance_step b0 a0 a1 _ f3 f2
  have s4 := updateMinDistance_step b1 a0 a1 _ f4 f3
  rw [lt_iff f4 hm]
  generalize updateMinDistance a0 b0 b1 m false = r1 at *
  generalize updateMinDistance a1 b0 b1 r1.1 false = r2 at *
  generalize updateMinDistance b0 a0 a1 r2.1 false = r3 at *
  generalize updateMinDistance b1 a0 a1 r3.1 false = r4 at *
  obtain ⟨v1, g1⟩ := r1
  obtain ⟨v2, g2⟩ := r2
  obtain ⟨v3, g3⟩ := r3
  obtain ⟨v4, g4⟩ := r4
  simp only at s1 s2 s3 s4 ⊢
  cases g1 <;> cases g2 <;> cases g3 <;> cases g4 <;> simp at s1 s2 s3 s4 ⊢ <;> omega

example :
    let a0 : V3 := ⟨F64.one, fz, fz⟩
    let a1 : V3 := ⟨fz, F64.one, fz⟩
    let b0 : V3 := ⟨fz, fz, F64.one⟩
    let b1 : V3 := ⟨fNegOne, fz, F64.one⟩
    F64.feq f4 fz = false ∧ crosses a0 a1 b0 b1 = false ∧ Fin f4 ∧
    Fin (edgeChain a0 a1 b0 b1 f4).1.1 ∧ Fin (edgeChain a0 a1 b0 b1 f4).2.1.1 ∧
    Fin (edgeChain a0 a1 b0 b1 f4).2.2.1.1 ∧ Fin (edgeChain a0 a1 b0 b1 f4).2.2.2.1 ∧
    (updateEdgePairMinDistance a0 a1 b0 b1 f4).2 = true := by decide +kernel

-- non-vacuity of the three cases, and the failure of "true ⇔ decreased" for a NEGATIVE threshold:
-- edges (1,0,0)–(0,1,0) and (1,1,1)–(1,1,−1) cross; with m = −1 the call returns (0, true) although 0 < −1 is false.
example :
    let a0 : V3 := ⟨F64.one, fz, fz⟩
    let a1 : V3 := ⟨fz, F64.one, fz⟩
    let b0 : V3 := ⟨F64.one, F64.one, F64.one⟩
    let b1 : V3 := ⟨F64.one, F64.one, fNegOne⟩
    F64.feq fNegOne fz = false ∧ crosses a0 a1 b0 b1 = true ∧ crosses a0 a1 a0 a1 = false ∧ F64.feq (F64.zero true) fz = true ∧
    (updateEdgePairMinDistance a0 a1 b0 b1 fNegOne).2 = true ∧
    F64.lt (updateEdgePairMinDistance a0 a1 b0 b1 fNegOne).1 fNegOne = false := by decide +kernel

example : ∃ a0 a1 b0 b1 : V3, ∃ m : F64, (updateEdgePairMinDistance a0 a1 b0 b1 m).2 = true ∧
    F64.lt (updateEdgePairMinDistance a0 a1 b0 b1 m).1 m = false :=
  ⟨⟨F64.one, fz, fz⟩, ⟨fz, F64.one, fz⟩, ⟨F64.one, F64.one, F64.one⟩, ⟨F64.one, F64.one, fNegOne⟩, fNegOne,
    by decide +kernel⟩

/-! ## (T7) threshold form versus computed distance -/

/-- literal reading of "IsDistanceLess(x,a,b,m) ⇔ the distance computed by DistanceFromSegment is < m" -/
def ThresholdAgrees : Prop :=
  ∀ x a b m, isDistanceLess x a b m = F64.lt (distanceFromSegmentChord x a b) m

def cexX : V3 := ⟨⟨0x3fdb99b78e56b6f8⟩, ⟨0xbfe0e4a7b434a0c4⟩, ⟨0x3fe769c2020798f1⟩⟩
def cexA : V3 := ⟨⟨0x3fdf1cf205a78449⟩, ⟨0xbfdde66e8bc4a5bd⟩, ⟨0x3fe7a1e45c16056a⟩⟩
def cexB : V3 := ⟨⟨0x3fdf11c0ed3bc1db⟩, ⟨0xbfddde18a006eff3⟩, ⟨0x3fe7a83475f8bed1⟩⟩
def cexM : F64 := ⟨0x3f7ba0d5e1e972ec⟩

/-- The counterexample found by the oracle: the always-computed distance is the INTERIOR value `…72ec`; with that
    value as threshold the interior branch answers "not smaller" and the vertex branch then finds the vertex
    distance `…72eb` (1 ulp smaller), so `IsDistanceLess` says `true` while `d < d` is `false`. -/
theorem cex_facts :
    distanceFromSegmentChord cexX cexA cexB = cexM ∧ isDistanceLess cexX cexA cexB cexM = true ∧
    (updateMinDistance cexX cexA cexB cexM false).1 = ⟨0x3f7ba0d5e1e972eb⟩ ∧
    F64.lt (distanceFromSegmentChord cexX cexA cexB) cexM = false := by decide +kernel

/-- **The literal threshold reading is false.** -/
theorem not_thresholdAgrees : ¬ ThresholdAgrees := by
  intro h
  have h' := h cexX cexA cexB cexM
  rw [cex_facts.2.1, cex_facts.2.2.2] at h'
  cases h'

/-- What does hold: a `true` answer comes with an updated value that is not ≥ the limit
    (and, by `updateMinDistance_true_lt`, strictly below it for finite values). -/
theorem isDistanceLess_partial (x a b : V3) (m : F64) :
    isDistanceLess x a b m = true → F64.ge (updateMinDistancePub x a b m).1 m = false :=
  updateMinDistance_true_not_ge x a b m

/-! ## numeric claims — partial: judged by the oracle, not proved

  `fval` : real value of a finite float.  The true quantities are parameters: `trueDist2 x a b` = squared chord
  of the true minimum distance from the direction of x to the geodesic edge ab, `chord2 x y` = true squared
  chord between directions, `unit` = "within the normalisation error of unit length". -/

noncomputable def fval (x : F64) : ℝ := (toInt x : ℝ) / (scale : ℝ)

/-- partial: judged by the oracle, not proved — the computed chord distance is within
    `minUpdateDistanceMaxError` of the true one -/
def DistanceWithinMaxError (unit : V3 → Prop) (trueDist2 : V3 → V3 → V3 → ℝ) : Prop :=
  ∀ x a b, unit x → unit a → unit b →
    |fval (distanceFromSegmentChord x a b) - trueDist2 x a b|
      ≤ fval (minUpdateDistanceMaxError (distanceFromSegmentChord x a b))

/-- partial: judged by the oracle, not proved — never above the smaller endpoint distance plus the bound -/
def NotAboveEndpointDistance (unit : V3 → Prop) (chord2 : V3 → V3 → ℝ) : Prop :=
  ∀ x a b, unit x → unit a → unit b →
    fval (distanceFromSegmentChord x a b)
      ≤ min (chord2 x a) (chord2 x b) + fval (minUpdateDistanceMaxError (distanceFromSegmentChord x a b))

/-- partial: judged by the oracle, not proved — `Project(x,a,b)` realises the distance up to `tol` -/
def ProjectRealisesDistance (unit : V3 → Prop) (chord2 : V3 → V3 → ℝ) (trueDist2 : V3 → V3 → V3 → ℝ)
    (tol : ℝ) : Prop :=
  ∀ x a b, unit x → unit a → unit b → |chord2 x (project x a b) - trueDist2 x a b| ≤ tol

/-- partial: judged by the oracle, not proved (libm: sin, cos, atan2 are not modelled) —
    `Interpolate(DistanceFraction(x,a,b), a, b)` is `x` for x on the edge, up to `tol` -/
def InterpolateDistanceFraction (interpolate : F64 → V3 → V3 → V3) (distanceFraction : V3 → V3 → V3 → F64)
    (onEdge : V3 → V3 → V3 → Prop) (chord2 : V3 → V3 → ℝ) (tol : ℝ) : Prop :=
  ∀ x a b, onEdge x a b → chord2 (interpolate (distanceFraction x a b) a b) x ≤ tol

/-- partial: judged by the oracle, not proved — `DistanceFraction(Interpolate(t,a,b), a, b) = t` up to `tol`
    for t ∈ [0,1] -/
def UninterpolateInterpolate (interpolate : F64 → V3 → V3 → V3) (distanceFraction : V3 → V3 → V3 → F64)
    (tol : ℝ) : Prop :=
  ∀ t a b, F64.le fz t = true → F64.le t f1 = true →
    |fval (distanceFraction (interpolate t a b) a b) - fval t| ≤ tol

end S2Proofs.C17
