/-
  Property C03 — the unconditional theorems for ALL unit-ish finite points, NEGATIVE ZERO COORDINATES INCLUDED.

  `Properties/C03_FloatSound.lean` proves the C03 statements on `UnitPt` = `Unitish` ∧ "no coordinate is −0": its chain
  (`S2Proofs.CrossingLemmas`) is phrased with structural equality of float vectors and needs `Dom S` (Go `==` is `=` on S).
  That excludes points the library produces all the time — `faceUVToXYZ` negates coordinates, so every cell centre / vertex
  on the central cross of faces 1–5 has a `-0.0` coordinate (centre of face 1 = (−0, 1, 0)).

  Here the restriction is removed.  Everything is stated with Go's `==` (`V3.feq`: −0 == +0) in place of `=`; the point class is
  `Unitish` (finite, | ‖p‖² − 1 | ≤ 2^-16) and nothing else.  No hypothesis is left.

     `crossingSign_exact_allZeros`          CrossingSign = exact four-orientation criterion
     `fullExactness`                        `FullExactness` of `Properties/C03.lean` — the full-strength statement, PROVED
                                            (for the repaired code; before the repair it was false: finding D48)
     `crossingSign_symmetric_allZeros`      all eight ways of writing the two undirected edges
     `crossingSign_maybe_iff_allZeros`      MaybeCross ⇔ two vertices of different edges are `==`
     `crossingSign_degenerate_allZeros`     degenerate edges (`a == b` or `c == d`)
     `crossingSign_twins`                   replacing any argument by a `==` vector changes nothing (unit-ish points)
     `crossingSign_twins_allFinite`         … the same for ALL finite vectors of any length, by congruence of every float stage
     `crosser_refines_stateless_allZeros`   every history on one EdgeCrosser = the stateless answers
     `crosser_refines_from_state_allZeros`, `crosser_invariant_allZeros`, `crosser_sign_outputs_exact_allZeros`
     `vertexCrossing_twins`                 `VertexCrossing(a,b,c,d)` does not see the sign of a zero of `c`, `d` (all bit patterns)
     `vertexCrossing_rule1/2/3_allZeros`, `vertexCrossing_exactly_one_allZeros`, `angleContainsVertex_rules_allZeros`
                                            the shared-vertex rules where "shared" / "degenerate" mean Go `==`

  How (helpers `S2Proofs/C03Zero/Twin.lean`, `Chain.lean`):
   * the exact sign and Go `==` identify a vector and its ±0 twin (`ExactLaws.E_congr`, `E_zero_iff`, `E_unit` are already in `==`
     form), so the chain "body of ChainCrossingSign = specification" goes through with `==` throughout (`chainSign_specZ`);
   * `FloatSound Unitish` never needed the −0 exclusion;
   * the one place where a ±0 twin survives in the crosser is the cached chain vertex `e.c` when `CrossingSign(c, d)` is called
     with `c == e.c` (no restart).  The sign output is the exact specification (twin-blind); `VertexCrossing` is float all the
     way (RobustSign with reference directions) and is twin-blind because every float stage is: `+ − × √` and the comparisons
     respect "equal up to the sign of a zero" (`F64Sym2.Z`), the squared norm forgets it, and `Normalize` divides by `sqrt(norm2)`,
     the same bit pattern for twins (`C03Z.robustSign_T3`, `vertexCrossing_T3`, `s2Ortho_Z3`).
   No input was found on which the sign of a zero changes an answer; the congruence theorems show there is none.
-/
import S2Proofs.Properties.C03_FloatSound
import S2Proofs.C03Zero.Chain
import S2Proofs.C03Zero.Vertex

namespace S2Proofs.C03
open S2 S2.Exact S2.Pred S2.Crossing S2.Crosser S2Proofs.F64Order S2Proofs.F64Inj S2Proofs.C02Err S2Proofs.ExactLaws
  S2Proofs.C03Z

local notation "E" => S2.Pred.exactDecision

/-! ## 0. the point class -/

/-- unit-ish points are finite and not `==` the zero vector: the domain of the `==`-chain -/
theorem unitish_zdom : ZDom Unitish := ⟨fun _ h => h.1, fun _ h => unitish_ne_zero h⟩

/-- `nearUnit` (the guard of `FullExactness`) implies `Unitish` -/
theorem unitish_of_nearUnit {p : V3} (hp : nearUnit p = true) : Unitish p := by
  unfold nearUnit at hp
  simp only [Bool.and_eq_true, decide_eq_true_eq] at hp
  obtain ⟨hf, hn⟩ := hp
  have hfin : Fin3 p := by
    unfold finite3 at hf
    simp only [Bool.and_eq_true] at hf
    have fin_of : ∀ x : F64, x.isFinite = true → Fin x := by
      intro x hx
      unfold F64.isFinite at hx
      unfold F64Order.Fin
      simpa using hx
    exact ⟨fin_of _ hf.1.1, fin_of _ hf.1.2, fin_of _ hf.2⟩
  refine ⟨hfin, ?_⟩
  unfold S2Proofs.FloatErr.norm2I
  have h1 : (|(ofV3 p).norm2 - (scale : ℤ) ^ 2| : ℤ) = ((((ofV3 p).norm2 - (scale : ℤ) ^ 2).natAbs : ℕ) : ℤ) :=
    (Int.natCast_natAbs _).symm
  rw [h1]
  have h2 : ((((ofV3 p).norm2 - (scale : ℤ) ^ 2).natAbs * 2 ^ 50 : ℕ) : ℤ) ≤ ((scale ^ 2 : ℕ) : ℤ) := by
    exact_mod_cast hn
  push_cast at h2
  have h3 : ((((ofV3 p).norm2 - (scale : ℤ) ^ 2).natAbs : ℕ) : ℤ) * 2 ^ 16
      ≤ ((((ofV3 p).norm2 - (scale : ℤ) ^ 2).natAbs : ℕ) : ℤ) * 2 ^ 50 :=
    mul_le_mul_of_nonneg_left (by norm_num) (Int.natCast_nonneg _)
  linarith

/-- points WITH negative-zero coordinates used in the examples: (1, −0, −0); (−0, 1, 0) = the centre of face 1 as
    `faceUVToXYZ` produces it; (0.6, 0.8, −0), a ±0 twin of `pM` -/
def zX : V3 := ⟨⟨0x3FF0000000000000⟩, ⟨0x8000000000000000⟩, ⟨0x8000000000000000⟩⟩
def zY : V3 := ⟨⟨0x8000000000000000⟩, ⟨0x3FF0000000000000⟩, ⟨0⟩⟩
def zM : V3 := ⟨⟨0x3FE3333333333333⟩, ⟨0x3FE999999999999A⟩, ⟨0x8000000000000000⟩⟩

/-- the example points are unit-ish, are NOT in the old class `UnitPt`, and are Go-`==` to `pX`, `pY`, `pM` -/
theorem zPoints_facts : Unitish zX ∧ Unitish zY ∧ Unitish zM ∧ ¬ UnitPt zX ∧ ¬ UnitPt zY ∧ ¬ UnitPt zM ∧
    V3.feq zX pX = true ∧ V3.feq zY pY = true ∧ V3.feq zM pM = true ∧ zX ≠ pX ∧ zY ≠ pY ∧ zM ≠ pM ∧
    zY = STUV.faceUVToXYZ 1 (F64.zero false) (F64.zero false) := by
  unfold UnitPt
  decide +kernel

private theorem L0_unitish : ∀ p ∈ L0, Unitish p := by decide +kernel
private theorem pM_unitish : Unitish pM := by decide +kernel

/-! ## 1. the stateless test -/

section stateless
variable {a b c d : V3}

/-- **`CrossingSign` is decided exactly** (four-orientation criterion in exact arithmetic with the library's perturbation;
    MaybeCross iff two vertices of different edges are `==`) — for ALL unit-ish points, ±0 coordinates included. -/
theorem crossingSign_exact_allZeros (ha : Unitish a) (hb : Unitish b) (hc : Unitish c) (hd : Unitish d) :
    crossingSign a b c d = exactCrossing a b c d :=
  crossingSign_eq_exactZ unitish_zdom floatSound_unitish ha hb hc hd

/-- the edge from (1,−0,−0) to the centre of face 1 (−0,1,0) against the edge `pC pD` through its interior: Cross -/
example : crossingSign zX zY pC pD = 1 := by
  rw [crossingSign_exact_allZeros zPoints_facts.1 zPoints_facts.2.1 (L0_unitish pC (by mem)) (L0_unitish pD (by mem))]
  decide +kernel

/-- **`FullExactness`** — the full-strength statement of `Properties/C03.lean`: for all nearly unit-length float points
    (any sign of zero coordinates) `CrossingSign` equals the exact criterion.  The antipodality guards of the statement are
    not needed for the repaired code.  (Before the repair of finding D48 the statement was false:
    `fullExactness_false_before_repair`.) -/
theorem fullExactness : FullExactness := fun _ _ _ _ ha hb hc hd _ _ =>
  crossingSign_exact_allZeros (unitish_of_nearUnit ha) (unitish_of_nearUnit hb) (unitish_of_nearUnit hc)
    (unitish_of_nearUnit hd)

/-- an instance of ALL hypotheses of `FullExactness` with negative zeros -/
example : nearUnit zX = true ∧ nearUnit zY = true ∧ nearUnit pC = true ∧ nearUnit pD = true ∧
    antipodal zX zY = false ∧ antipodal pC pD = false := by decide +kernel

/-- symmetry of `CrossingSign`: all eight ways of writing the same pair of undirected edges give the same answer —
    for ALL unit-ish points. -/
theorem crossingSign_symmetric_allZeros (ha : Unitish a) (hb : Unitish b) (hc : Unitish c) (hd : Unitish d) :
    crossingSign b a c d = crossingSign a b c d ∧ crossingSign a b d c = crossingSign a b c d ∧
    crossingSign b a d c = crossingSign a b c d ∧ crossingSign c d a b = crossingSign a b c d ∧
    crossingSign d c a b = crossingSign a b c d ∧ crossingSign c d b a = crossingSign a b c d ∧
    crossingSign d c b a = crossingSign a b c d := by
  rw [crossingSign_exact_allZeros hb ha hc hd, crossingSign_exact_allZeros ha hb hd hc,
    crossingSign_exact_allZeros hb ha hd hc, crossingSign_exact_allZeros hc hd ha hb,
    crossingSign_exact_allZeros hd hc ha hb, crossingSign_exact_allZeros hc hd hb ha,
    crossingSign_exact_allZeros hd hc hb ha, crossingSign_exact_allZeros ha hb hc hd]
  exact exactCrossing_eight_exact ha.1 hb.1 hc.1 hd.1

example : crossingSign pD pC zY zX = crossingSign zX zY pC pD :=
  (crossingSign_symmetric_allZeros zPoints_facts.1 zPoints_facts.2.1 (L0_unitish pC (by mem))
    (L0_unitish pD (by mem))).2.2.2.2.2.2

/-- `MaybeCross` exactly when two vertices of different edges are Go-`==` (identical or ±0 twins) — for ALL edges,
    degenerate ones included; all unit-ish points. -/
theorem crossingSign_maybe_iff_allZeros (ha : Unitish a) (hb : Unitish b) (hc : Unitish c) (hd : Unitish d) :
    crossingSign a b c d = 0 ↔
      (V3.feq a c = true ∨ V3.feq a d = true ∨ V3.feq b c = true ∨ V3.feq b d = true) := by
  rw [crossingSign_exact_allZeros ha hb hc hd]
  unfold exactCrossing exactCrossingWith sharesEndpoint
  cases V3.feq a c <;> cases V3.feq a d <;> cases V3.feq b c <;> cases V3.feq b d <;>
    cases fourSameWith exactDecision a b c d <;> simp

/-- the edge `zX pD` shares the vertex (1,0,0) with `pX pY` although `zX ≠ pX` as bit patterns -/
example : crossingSign zX pD pX pY = 0 :=
  (crossingSign_maybe_iff_allZeros zPoints_facts.1 (L0_unitish pD (by mem)) (L0_unitish pX (by mem))
    (L0_unitish pY (by mem))).mpr (Or.inl zPoints_facts.2.2.2.2.2.2.1)

/-- degenerate edges (`a == b` or `c == d`, ±0 twins included), exactly as the code decides them: MaybeCross if a vertex
    is shared, otherwise DoNotCross (never Cross) — all unit-ish points. -/
theorem crossingSign_degenerate_allZeros (ha : Unitish a) (hb : Unitish b) (hc : Unitish c) (hd : Unitish d)
    (hdeg : V3.feq a b = true ∨ V3.feq c d = true) :
    crossingSign a b c d = if sharesEndpoint a b c d then 0 else -1 := by
  rw [crossingSign_exact_allZeros ha hb hc hd]
  exact exactCrossing_degenerate_exact ha.1 hb.1 hc.1 hd.1 hdeg

/-- the edge from (1,0,0) to its own ±0 twin is degenerate -/
example : crossingSign pX zX pC pD = -1 := by
  rw [crossingSign_degenerate_allZeros (L0_unitish pX (by mem)) zPoints_facts.1 (L0_unitish pC (by mem))
    (L0_unitish pD (by mem)) (Or.inl (by decide +kernel))]
  decide +kernel

/-- **±0 twins are indistinguishable**: replacing any of the four unit-ish points by a Go-`==` vector does not change
    `CrossingSign`. -/
theorem crossingSign_twins {a' b' c' d' : V3} (ha : Unitish a) (hb : Unitish b) (hc : Unitish c) (hd : Unitish d)
    (ha' : Unitish a') (hb' : Unitish b') (hc' : Unitish c') (hd' : Unitish d')
    (h1 : V3.feq a' a = true) (h2 : V3.feq b' b = true) (h3 : V3.feq c' c = true) (h4 : V3.feq d' d = true) :
    crossingSign a' b' c' d' = crossingSign a b c d := by
  rw [crossingSign_exact_allZeros ha hb hc hd, crossingSign_exact_allZeros ha' hb' hc' hd']
  exact exactCrossing_T3 (T3_of_feq ha'.1 ha.1 h1) (T3_of_feq hb'.1 hb.1 h2) (T3_of_feq hc'.1 hc.1 h3)
    (T3_of_feq hd'.1 hd.1 h4)

/-- … and this does not depend on exactness: for ALL finite float vectors (any length, float filters answering or not,
    overflow inside allowed) every stage of `CrossingSign` treats Go-`==` vectors identically. -/
theorem crossingSign_twins_allFinite {a' b' c' d' : V3} (ha : Fin3 a) (hb : Fin3 b) (hc : Fin3 c) (hd : Fin3 d)
    (ha' : Fin3 a') (hb' : Fin3 b') (hc' : Fin3 c') (hd' : Fin3 d')
    (h1 : V3.feq a' a = true) (h2 : V3.feq b' b = true) (h3 : V3.feq c' c = true) (h4 : V3.feq d' d = true) :
    crossingSign a' b' c' d' = crossingSign a b c d :=
  crossingSign_T3 (T3_of_feq ha' ha h1) (T3_of_feq hb' hb h2) (T3_of_feq hc' hc h3) (T3_of_feq hd' hd h4)

example : crossingSign zX zY pC pD = crossingSign pX pY pC pD :=
  crossingSign_twins_allFinite (by decide +kernel) (by decide +kernel) (by decide +kernel) (by decide +kernel)
    (by decide +kernel) (by decide +kernel) (by decide +kernel) (by decide +kernel)
    zPoints_facts.2.2.2.2.2.2.1 zPoints_facts.2.2.2.2.2.2.2.1 (by decide +kernel) (by decide +kernel)

/-- `VertexCrossing(a,b,c,d)` treats Go-`==` finite vectors `c`, `d` of the tested edge identically — all bit patterns of
    `a`, `b` (their reference directions need not be finite). -/
theorem vertexCrossing_twins (a b : V3) {c' d' : V3} (hc : Fin3 c) (hd : Fin3 d) (hc' : Fin3 c') (hd' : Fin3 d')
    (h3 : V3.feq c' c = true) (h4 : V3.feq d' d = true) :
    vertexCrossing a b c' d' = vertexCrossing a b c d :=
  vertexCrossing_T3 a b (T3_of_feq hc' hc h3) (T3_of_feq hd' hd h4)

example : vertexCrossing pX pY zX pD = vertexCrossing pX pY pX pD :=
  vertexCrossing_twins pX pY (by decide +kernel) (by decide +kernel) (by decide +kernel) (by decide +kernel)
    zPoints_facts.2.2.2.2.2.2.1 (by decide +kernel)

end stateless

/-! ## 2. the incremental crosser -/

section crosser
variable {a b : V3}

/-- **REFINEMENT, all unit-ish points**: for every history of calls on one EdgeCrosser for the edge `a b` (any mixture of
    RestartAt / ChainCrossingSign / CrossingSign / EdgeOrVertexCrossing / EdgeOrVertexChainCrossing, all vertices unit-ish —
    negative zeros allowed, also a call `CrossingSign(c, d)` whose `c` is a ±0 twin of the cached chain vertex —, not
    starting with a chain call) every returned value equals the stateless answer. -/
theorem crosser_refines_stateless_allZeros (ha : Unitish a) (hb : Unitish b) (ops : List Op)
    (hpts : ∀ op ∈ ops, ∀ p ∈ op.points, Unitish p) (hwf : wellFormed ops = true) :
    run (init a b) ops = spec a b zero3 ops :=
  run_eq_specZ unitish_zdom floatSound_unitish ha hb ops init_inv hpts (Or.inr hwf)

/-- a history on the edge (1,−0,−0) → (−0,1,0) that exercises the twin path: after `CrossingSign(pC, pM)` the cached vertex
    is `pM`; the next two calls pass its ±0 twin `zM` (no restart: the crosser continues with `pM`), once through
    `EdgeOrVertexCrossing` (shared vertex with the twin `zX` of … `pX`: the vertex rule runs) and once through `CrossingSign` -/
def opsZ : List Op :=
  [.crossingSign pC pM, .edgeOrVertexCrossing zM pX, .restartAt pM, .crossingSign zM pD, .chainCrossingSign zY,
   .edgeOrVertexChainCrossing pC]

example : run (init zX zY) opsZ = spec zX zY zero3 opsZ :=
  crosser_refines_stateless_allZeros zPoints_facts.1 zPoints_facts.2.1 opsZ
    (by
      have h : ∀ p ∈ [pX, pY, pC, pD, pM, zX, zY, zM], Unitish p := by decide +kernel
      intro op hop p hp
      apply h
      simp only [opsZ, List.mem_cons, List.mem_nil_iff, or_false] at hop
      rcases hop with rfl | rfl | rfl | rfl | rfl | rfl <;>
        simp only [Op.points, List.mem_cons, List.mem_nil_iff, or_false] at hp <;>
        rcases hp with rfl | rfl <;> simp)
    (by decide)

/-- the same from any state satisfying the invariant -/
theorem crosser_refines_from_state_allZeros (ha : Unitish a) (hb : Unitish b) {e : St} (hI : Inv Unitish a b e)
    (hc : Unitish e.c) (ops : List Op) (hpts : ∀ op ∈ ops, ∀ p ∈ op.points, Unitish p) :
    run e ops = spec a b e.c ops :=
  run_eq_specZ unitish_zdom floatSound_unitish ha hb ops hI hpts (Or.inl hc)

example : run (initChain zX zY pC) [.chainCrossingSign pD] = spec zX zY pC [.chainCrossingSign pD] :=
  crosser_refines_from_state_allZeros zPoints_facts.1 zPoints_facts.2.1
    (restartAt_inv floatSound_unitish zPoints_facts.1 zPoints_facts.2.1 init_inv (L0_unitish pC (by mem))).1
    (L0_unitish pC (by mem)) _
    (by
      intro op hop p hp
      simp only [List.mem_cons, List.mem_nil_iff, or_false] at hop
      subst hop
      simp only [Op.points, List.mem_cons, List.mem_nil_iff, or_false] at hp
      subst hp
      exact L0_unitish pD (by mem))

/-- the cache invariant after every history — all unit-ish points: `acb` is 0 ("not known") or the exact orientation of
    (a, c, b) for the CURRENT chain vertex -/
theorem crosser_invariant_allZeros (ha : Unitish a) (hb : Unitish b) (ops : List Op)
    (hpts : ∀ op ∈ ops, ∀ p ∈ op.points, Unitish p) (hwf : wellFormed ops = true) :
    (exec (init a b) ops).acb = 0 ∨ (exec (init a b) ops).acb = -(E a b (exec (init a b) ops).c) :=
  (exec_invZ unitish_zdom floatSound_unitish ha hb ops init_inv hpts (Or.inr hwf)).cache

/-- the full invariant (fields unchanged, cache, chain vertex in the class) after every history -/
theorem crosser_inv_allZeros (ha : Unitish a) (hb : Unitish b) (ops : List Op)
    (hpts : ∀ op ∈ ops, ∀ p ∈ op.points, Unitish p) (hwf : wellFormed ops = true) :
    Inv Unitish a b (exec (init a b) ops) :=
  exec_invZ unitish_zdom floatSound_unitish ha hb ops init_inv hpts (Or.inr hwf)

/-- every chained output is the exact specification — all unit-ish points -/
theorem crosser_sign_outputs_exact_allZeros (ha : Unitish a) (hb : Unitish b) {e : St} (hI : Inv Unitish a b e)
    (hc : Unitish e.c) {d : V3} (hd : Unitish d) :
    (step e (.chainCrossingSign d)).2 = .sign (exactCrossing a b e.c d) := by
  have := (chainCrossingSign_specZ unitish_zdom floatSound_unitish ha hb hI hc hd).1
  show Out.sign (chainCrossingSign e d).2 = _
  rw [this]

/-- every output of `CrossingSign(c, d)` on a crosser in any reachable state is the exact specification of the edge `c d`
    as PASSED (not of the cached ±0 twin the code actually runs on) -/
theorem crosser_crossingSign_outputs_exact_allZeros (ha : Unitish a) (hb : Unitish b) {e : St} (hI : Inv Unitish a b e)
    {c d : V3} (hc : Unitish c) (hd : Unitish d) :
    (step e (.crossingSign c d)).2 = .sign (exactCrossing a b c d) := by
  obtain ⟨h1, _⟩ := step_specZ unitish_zdom floatSound_unitish ha hb hI (.crossingSign c d)
    (by
      intro p hp
      simp only [Op.points, List.mem_cons, List.mem_nil_iff, or_false] at hp
      rcases hp with rfl | rfl
      · exact hc
      · exact hd)
    (Or.inr rfl)
  rw [h1]
  show Out.sign (Crossing.crossingSign a b c d) = _
  rw [crossingSign_exact_allZeros ha hb hc hd]

example : (step (initChain zX zY pM) (.crossingSign zM pD)).2 = .sign (exactCrossing zX zY zM pD) :=
  crosser_crossingSign_outputs_exact_allZeros zPoints_facts.1 zPoints_facts.2.1
    (restartAt_inv floatSound_unitish zPoints_facts.1 zPoints_facts.2.1 init_inv pM_unitish).1
    zPoints_facts.2.2.1 (L0_unitish pD (by mem))

end crosser

/-! ## 3. the shared-vertex rules, with Go `==` -/

section vertex
variable {a b c d : V3}

/-- rule (1) of the Go comment: a degenerate edge (`a == b`: identical or ±0 twins) never counts as a vertex crossing —
    all bit patterns, any `OrderedCCW` -/
theorem vertexCrossing_rule1_allZeros (occw : V3 → V3 → V3 → V3 → Bool) :
    (V3.feq a b = true → vertexCrossingWith occw a b c d = false) ∧
    (V3.feq c d = true → vertexCrossingWith occw a b c d = false) := by
  constructor <;> intro h <;> unfold vertexCrossingWith <;> simp [h]

example : vertexCrossing pX pX pC pD = false ∧ vertexCrossing pX zX pC pD = false :=
  ⟨(vertexCrossing_rule1_allZeros orderedCCW).1 (by decide +kernel),
   (vertexCrossing_rule1_allZeros orderedCCW).1 (by decide +kernel)⟩

/-- rule (2): identical or reversed NON-degenerate edges count as crossing, also when the second edge writes the vertices
    with other signs of their zero coordinates (`a' == a`, `b' == b`) — finite points, any `OrderedCCW` -/
theorem vertexCrossing_rule2_allZeros (occw : V3 → V3 → V3 → V3 → Bool) {a' b' : V3}
    (ha : Fin3 a) (hb : Fin3 b) (ha' : Fin3 a') (hb' : Fin3 b') (hab : V3.feq a b = false)
    (h1 : V3.feq a a' = true) (h2 : V3.feq b b' = true) :
    vertexCrossingWith occw a b a' b' = true ∧ vertexCrossingWith occw a b b' a' = true := by
  rw [vc_eqZ occw ha hb ha' hb', vc_eqZ occw ha hb hb' ha']
  have e1 := (v3feq_iff ha ha').1 h1
  have e2 := (v3feq_iff hb hb').1 h2
  have e3 := (feq_false_iff ha hb).1 hab
  rw [← e1, ← e2]
  simp [e3, Ne.symm e3]

/-- the edge (1,0,0) → (0,1,0) against the same edge written (1,−0,−0) → (−0,1,0) -/
example : vertexCrossing pX pY zX zY = true ∧ vertexCrossing pX pY zY zX = true :=
  vertexCrossing_rule2_allZeros orderedCCW (by decide +kernel) (by decide +kernel) (by decide +kernel)
    (by decide +kernel) (by decide +kernel) (by decide +kernel) (by decide +kernel)

/-- rule (3): reversing either edge does not change `VertexCrossing` — all finite points (±0 twins among them allowed),
    any `OrderedCCW` -/
theorem vertexCrossing_rule3_allZeros (occw : V3 → V3 → V3 → V3 → Bool)
    (ha : Fin3 a) (hb : Fin3 b) (hc : Fin3 c) (hd : Fin3 d) :
    vertexCrossingWith occw a b d c = vertexCrossingWith occw a b c d ∧
    vertexCrossingWith occw b a c d = vertexCrossingWith occw a b c d ∧
    vertexCrossingWith occw b a d c = vertexCrossingWith occw a b c d := by
  rw [vc_eqZ occw ha hb hd hc, vc_eqZ occw hb ha hc hd, vc_eqZ occw hb ha hd hc,
    vc_eqZ occw ha hb hc hd]
  generalize ofV3 a = A
  generalize ofV3 b = B
  generalize ofV3 c = C
  generalize ofV3 d = D
  by_cases h1 : A = B
  · subst h1; simp
  by_cases h2 : C = D
  · subst h2; simp
  have h1' : B ≠ A := Ne.symm h1
  have h2' : D ≠ C := Ne.symm h2
  by_cases h3 : A = C
  · subst h3
    by_cases h4 : B = D
    · subst h4; simp [h1, h1']
    · have : D ≠ B := Ne.symm h4
      simp [h1, h1', h2, h2', h4]
  by_cases h4 : B = D
  · subst h4
    have : C ≠ A := Ne.symm h3
    simp [h1, h1', h2, h2', h3]
  by_cases h5 : A = D
  · subst h5
    by_cases h6 : B = C
    · subst h6; simp [h1, h1']
    · have : C ≠ B := Ne.symm h6
      simp [h1, h1', h2, h2', h6]
  by_cases h6 : B = C
  · subst h6
    have : D ≠ A := Ne.symm h5
    simp [h1, h1', h2, h2', h5]
  have h3' : C ≠ A := Ne.symm h3
  have h4' : D ≠ B := Ne.symm h4
  have h5' : D ≠ A := Ne.symm h5
  have h6' : C ≠ B := Ne.symm h6
  simp [h1, h1', h2, h2', h3, h4, h5, h6]

example : vertexCrossing pY pX pD zX = vertexCrossing pX pY zX pD :=
  (vertexCrossing_rule3_allZeros orderedCCW (a := pX) (b := pY) (c := zX) (d := pD) (by decide +kernel)
    (by decide +kernel) (by decide +kernel) (by decide +kernel)).2.2

/-- rule (4), the property's last sentence: two non-degenerate edges that share EXACTLY ONE vertex — exactly one of
    VC(a,b,c,d), VC(c,d,a,b) holds.  "Share" is Go `==`: the common vertex may be written with different signs of its zero
    coordinates in the two edges (then the two calls use the reference directions of two different bit patterns, which are
    ±0 twins of each other: `referenceDir_twin`).  For the library's `VertexCrossing` (orientation = `RobustSign`), all
    unit-ish points; the reference directions of `a` and `b` unit-ish.  No hypothesis on the orientation function is left. -/
theorem vertexCrossing_exactly_one_allZeros (ha : Unitish a) (hb : Unitish b) (hc : Unitish c) (hd : Unitish d)
    (hra : Unitish (referenceDir a)) (hrb : Unitish (referenceDir b))
    (hab : V3.feq a b = false) (hcd : V3.feq c d = false)
    (hone : (V3.feq a c = true ∧ V3.feq b d = false) ∨ (V3.feq b d = true ∧ V3.feq a c = false) ∨
      (V3.feq a d = true ∧ V3.feq b c = false) ∨ (V3.feq b c = true ∧ V3.feq a d = false)) :
    vertexCrossing a b c d = !(vertexCrossing c d a b) := by
  have fa := ha.1
  have fb := hb.1
  have fc := hc.1
  have fd := hd.1
  have eab := (feq_false_iff fa fb).1 hab
  have ecd := (feq_false_iff fc fd).1 hcd
  have ff : ∀ {x y : V3}, Fin3 x → Fin3 y → ofV3 x ≠ ofV3 y → V3.feq x y = false :=
    fun hx hy h => (feq_false_iff hx hy).2 h
  unfold vertexCrossing
  rw [vc_eqZ _ fa fb fc fd, vc_eqZ _ fc fd fa fb]
  have n1 : ¬(ofV3 a = ofV3 b ∨ ofV3 c = ofV3 d) := by simp [eab, ecd]
  have n2 : ¬(ofV3 c = ofV3 d ∨ ofV3 a = ofV3 b) := by simp [eab, ecd]
  rw [if_neg n1, if_neg n2]
  rcases hone with ⟨h, h'⟩ | ⟨h, h'⟩ | ⟨h, h'⟩ | ⟨h, h'⟩
  · have e1 := (v3feq_iff fa fc).1 h
    have e2 := (feq_false_iff fb fd).1 h'
    rw [if_pos e1, if_pos e1.symm]
    simp only [e2, Ne.symm e2, decide_false, Bool.false_or]
    obtain ⟨hrc, trc⟩ := referenceDir_twin (feq_symm fa fc h) hra
    rw [orderedCCW_T3 trc (T3.refl b) (T3.refl d) (T3_of_feq fc fa (feq_symm fa fc h))]
    exact occw_compl_robust hra ha hb hd (ff fd fa (by rw [e1]; exact Ne.symm ecd)) hab h'
  · have e1 := (v3feq_iff fb fd).1 h
    have e2 := (feq_false_iff fa fc).1 h'
    rw [if_neg e2, if_pos e1, if_neg (Ne.symm e2), if_pos e1.symm]
    obtain ⟨hrd, trd⟩ := referenceDir_twin (feq_symm fb fd h) hrb
    rw [orderedCCW_T3 trd (T3.refl a) (T3.refl c) (T3_of_feq fd fb (feq_symm fb fd h))]
    exact occw_compl_robust hrb hb ha hc (ff fc fb (by rw [e1]; exact ecd)) (ff fb fa (Ne.symm eab)) h'
  · have e1 := (v3feq_iff fa fd).1 h
    have e2 := (feq_false_iff fb fc).1 h'
    have e3 : ofV3 a ≠ ofV3 c := by rw [e1]; exact Ne.symm ecd
    have e4 : ofV3 b ≠ ofV3 d := by rw [← e1]; exact Ne.symm eab
    rw [if_neg e3, if_neg e4, if_pos e1, if_neg (Ne.symm e3), if_neg (Ne.symm e4), if_neg (Ne.symm e2),
      if_pos e1.symm]
    simp only [e2, decide_false, Bool.false_or]
    obtain ⟨hrd, trd⟩ := referenceDir_twin (feq_symm fa fd h) hra
    rw [orderedCCW_T3 trd (T3.refl b) (T3.refl c) (T3_of_feq fd fa (feq_symm fa fd h))]
    exact occw_compl_robust hra ha hb hc (ff fc fa (Ne.symm e3)) hab h'
  · have e1 := (v3feq_iff fb fc).1 h
    have e2 := (feq_false_iff fa fd).1 h'
    have e3 : ofV3 a ≠ ofV3 c := by rw [← e1]; exact eab
    have e4 : ofV3 b ≠ ofV3 d := by rw [e1]; exact ecd
    rw [if_neg e3, if_neg e4, if_neg e2, if_pos e1, if_neg (Ne.symm e3), if_neg (Ne.symm e4), if_pos e1.symm]
    simp only [Ne.symm e2, decide_false, Bool.false_or]
    obtain ⟨hrc, trc⟩ := referenceDir_twin (feq_symm fb fc h) hrb
    rw [orderedCCW_T3 trc (T3.refl a) (T3.refl d) (T3_of_feq fc fb (feq_symm fb fc h))]
    exact occw_compl_robust hrb hb ha hd (ff fd fb (Ne.symm e4)) (ff fb fa (Ne.symm eab)) h'

private theorem refDirs_unitish : Unitish (referenceDir pX) ∧ Unitish (referenceDir pY) ∧ Unitish (referenceDir zX) := by
  decide +kernel

/-- the shared vertex (1,0,0) is written `pX` = (1,+0,+0) in one edge and `zX` = (1,−0,−0) in the other -/
example : vertexCrossing pX pY zX pD = !(vertexCrossing zX pD pX pY) :=
  vertexCrossing_exactly_one_allZeros (L0_unitish pX (by mem)) (L0_unitish pY (by mem)) zPoints_facts.1
    (L0_unitish pD (by mem)) refDirs_unitish.1 refDirs_unitish.2.1 (by decide +kernel) (by decide +kernel)
    (Or.inl ⟨by decide +kernel, by decide +kernel⟩)

/-- … and the shared vertex approached along the great circle of the other edge (exact determinant 0, decided by the
    symbolic perturbation): `zM` = (0.6, 0.8, −0) is exactly coplanar with `pX`, `pY` -/
example : vertexCrossing zX pY pX zM = !(vertexCrossing pX zM zX pY) :=
  vertexCrossing_exactly_one_allZeros zPoints_facts.1 (L0_unitish pY (by mem)) (L0_unitish pX (by mem))
    zPoints_facts.2.2.1 refDirs_unitish.2.2 refDirs_unitish.2.1 (by decide +kernel) (by decide +kernel)
    (Or.inl ⟨by decide +kernel, by decide +kernel⟩)

/-- `AngleContainsVertex` rules (1),(2) in `==` form: false for A B A' with `a == a'`; complementary for ABC / CBA when the
    three points are pairwise not `==` — all unit-ish points, reference direction of `b` unit-ish -/
theorem angleContainsVertex_rules_allZeros {a' : V3} (ha : Unitish a) (hb : Unitish b) (hc : Unitish c)
    (ha' : Unitish a') (hrb : Unitish (referenceDir b)) (hab : V3.feq a b = false) (hbc : V3.feq b c = false) :
    (V3.feq a' a = true → angleContainsVertex a b a' = false) ∧
    (V3.feq a c = false → angleContainsVertex a b c = !(angleContainsVertex c b a)) := by
  have ff : ∀ {x y : V3}, Fin3 x → Fin3 y → V3.feq x y = false → V3.feq y x = false :=
    fun hx hy h => by rw [feq_comm hy hx]; exact h
  unfold angleContainsVertex
  refine ⟨fun h => ?_, fun hac => ?_⟩
  · rw [occw_mid_robust hrb hb ha' ha h]; rfl
  · rw [occw_compl_robust hrb hb ha hc (ff hb.1 hc.1 hbc) (ff ha.1 hb.1 hab) hac]

example : angleContainsVertex zY pX pD = !(angleContainsVertex pD pX zY) ∧ angleContainsVertex zY pX pY = false :=
  ⟨(angleContainsVertex_rules_allZeros (a := zY) (b := pX) (c := pD) (a' := pY) zPoints_facts.2.1 (L0_unitish pX (by mem))
      (L0_unitish pD (by mem)) (L0_unitish pY (by mem)) refDirs_unitish.1 (by decide +kernel) (by decide +kernel)).2
      (by decide +kernel),
   (angleContainsVertex_rules_allZeros (a := zY) (b := pX) (c := pD) (a' := pY) zPoints_facts.2.1 (L0_unitish pX (by mem))
      (L0_unitish pD (by mem)) (L0_unitish pY (by mem)) refDirs_unitish.1 (by decide +kernel) (by decide +kernel)).1
      (by decide +kernel)⟩

end vertex

end S2Proofs.C03
