/-
  S2Proofs.CellIDAlgebraSteps — helper lemmas for next/prev/nextWrap/prevWrap
  (continues S2Proofs.CellIDAlgebraChildren; split only to keep build times short).
-/
import S2Proofs.CellIDAlgebraChildren
open S2 S2.CellID
namespace S2Proofs

/-! ### Group 4: steps along the curve -/

/-- index form: a level-`k` cell is `D·S + S/2` with `S = 2^(61-2k)`, `D < 6·4^k` -/
theorem IsCell.index_form {x : CellID} {k : Nat} (h : IsCell x k) :
    x.toNat = x.toNat / 2^(61 - 2*k) * 2^(61 - 2*k) + 2^(60 - 2*k) ∧
      x.toNat / 2^(61 - 2*k) < 6 * 4^k := by
  obtain ⟨hk, hf, hlow⟩ := h
  constructor
  · interval_cases k <;> cell_omega
  · interval_cases k <;> cell_omega

theorem isCell_of_index {y : CellID} {k r : Nat} (hk : k ≤ 30) (hr : r < 6 * 4^k)
    (hy : y.toNat = r * 2^(61 - 2*k) + 2^(60 - 2*k)) :
    IsCell y k ∧ y.toNat / 2^(61 - 2*k) = r := by
  refine ⟨⟨hk, ?_, ?_⟩, ?_⟩
  · interval_cases k <;> cell_omega
  · interval_cases k <;> cell_omega
  · interval_cases k <;> cell_omega

theorem IsCell.next_low {x : CellID} {k : Nat} (h : IsCell x k) :
    (next x).toNat = x.toNat + 2^(61 - 2*k) ∧ (next x).toNat % 2^(61 - 2*k) = 2^(60 - 2*k) := by
  have e := h.next_toNat
  obtain ⟨hk, hf, hlow⟩ := h
  constructor
  · rw [e]; interval_cases k <;> cell_omega
  · rw [e]; interval_cases k <;> cell_omega

theorem IsCell.prev_low {x : CellID} {k : Nat} (h : IsCell x k) :
    (prev x).toNat = (2^64 - 2^(61 - 2*k) + x.toNat) % 2^64 ∧
      (prev x).toNat % 2^(61 - 2*k) = 2^(60 - 2*k) := by
  have e := h.prev_toNat
  obtain ⟨hk, hf, hlow⟩ := h
  have := x.toNat_lt
  refine ⟨e, ?_⟩
  rw [e]; interval_cases k <;> cell_omega

theorem IsCell.prev_next {x : CellID} {k : Nat} (h : IsCell x k) : prev (next x) = x := by
  obtain ⟨e, hl⟩ := h.next_low
  apply UInt64.toNat_inj.mp
  rw [prev_toNat_of_low h.k_le hl, e]
  obtain ⟨hk, hf, hlow⟩ := h
  interval_cases k <;> cell_omega

theorem IsCell.next_prev {x : CellID} {k : Nat} (h : IsCell x k) : next (prev x) = x := by
  obtain ⟨e, hl⟩ := h.prev_low
  apply UInt64.toNat_inj.mp
  rw [next_toNat_of_low h.k_le hl, e]
  have := x.toNat_lt
  obtain ⟨hk, hf, hlow⟩ := h
  interval_cases k <;> cell_omega

theorem IsCell.next_isCell_iff {x : CellID} {k : Nat} (h : IsCell x k) :
    (∃ j, IsCell (next x) j) ↔ x.toNat + 2^(61 - 2*k) < 6 * 2^61 := by
  obtain ⟨e, hl⟩ := h.next_low
  constructor
  · rintro ⟨j, hj⟩
    have := hj.face_lt
    omega
  · intro hlt
    exact ⟨k, h.k_le, by omega, hl⟩

theorem IsCell.next_isCell {x : CellID} {k : Nat} (h : IsCell x k)
    (hlt : x.toNat + 2^(61 - 2*k) < 6 * 2^61) : IsCell (next x) k := by
  obtain ⟨e, hl⟩ := h.next_low
  exact ⟨h.k_le, by omega, hl⟩

theorem IsCell.prev_isCell_iff {x : CellID} {k : Nat} (h : IsCell x k) :
    (∃ j, IsCell (prev x) j) ↔ 2^(61 - 2*k) ≤ x.toNat := by
  obtain ⟨e, hl⟩ := h.prev_low
  have hx := x.toNat_lt
  have hf := h.face_lt
  have hk := h.k_le
  constructor
  · rintro ⟨j, hj⟩
    have := hj.face_lt
    rw [e] at this
    interval_cases k <;> cell_omega
  · intro hlt
    refine ⟨k, hk, ?_, hl⟩
    rw [e]
    interval_cases k <;> cell_omega

theorem IsCell.prev_isCell {x : CellID} {k : Nat} (h : IsCell x k)
    (hlt : 2^(61 - 2*k) ≤ x.toNat) : IsCell (prev x) k ∧ (prev x).toNat = x.toNat - 2^(61 - 2*k) := by
  obtain ⟨e, hl⟩ := h.prev_low
  have hx := x.toNat_lt
  have hf := h.face_lt
  have hk := h.k_le
  have e' : (prev x).toNat = x.toNat - 2^(61 - 2*k) := by
    rw [e]; interval_cases k <;> cell_omega
  refine ⟨⟨hk, ?_, hl⟩, e'⟩
  omega

theorem wrapOffset_toNat : wrapOffset.toNat = 6 * 2^61 := rfl

theorem IsCell.nextWrap_toNat {x : CellID} {k : Nat} (h : IsCell x k) :
    (nextWrap x).toNat = (x.toNat + 2^(61 - 2*k)) % (6 * 2^61) := by
  obtain ⟨e, _⟩ := h.next_low
  unfold nextWrap
  simp only [UInt64.lt_iff_toNat_lt]
  obtain ⟨hk, hf, hlow⟩ := h
  split
  · rename_i hlt
    rw [wrapOffset_toNat, e] at hlt
    rw [e]; omega
  · rename_i hlt
    rw [wrapOffset_toNat, e] at hlt
    rw [UInt64.toNat_sub, wrapOffset_toNat, e]
    interval_cases k <;> cell_omega

theorem IsCell.prevWrap_toNat {x : CellID} {k : Nat} (h : IsCell x k) :
    (prevWrap x).toNat = (x.toNat + 6 * 2^61 - 2^(61 - 2*k)) % (6 * 2^61) := by
  obtain ⟨e, _⟩ := h.prev_low
  have hx := x.toNat_lt
  unfold prevWrap
  simp only [UInt64.lt_iff_toNat_lt]
  obtain ⟨hk, hf, hlow⟩ := h
  split
  · rename_i hlt
    rw [wrapOffset_toNat, e] at hlt
    rw [e]; interval_cases k <;> cell_omega
  · rename_i hlt
    rw [wrapOffset_toNat, e] at hlt
    rw [UInt64.toNat_add, wrapOffset_toNat, e]
    interval_cases k <;> cell_omega

end S2Proofs
