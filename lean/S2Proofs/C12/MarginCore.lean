/-
  S2Proofs.C12.MarginCore — the rational-arithmetic core of the margin analysis of `Cell.ContainsPoint`.

  Notation: `e = 2^-53` (unit roundoff, `dblEpsilon = 2e`, margin `2·dblEpsilon = 4e`), `c = 2b` where `b ∈ [1/2,1]` is a
  grid point of the positive branch, `v = |u| ∈ [0,1]`,
    q = fl(3v), t = fl(1+q)           (absolute errors ≤ 2e each: values ≤ 4),
    r = fl(√t) compared with c        (gives `(c∓e)² ≤/≥ t`),
    p = fl(c·c) = fl(4b·b), m = p − 1 (exact), w = fl(third·m), third = (1 − e/2)/3  (error ≤ e/2: value ≤ 1).
  `p1core`:  c ≤ r  ⟹  w − (23/6)e ≤ v            (so the margin 4e suffices directly);
  `p2core`:  r ≤ c  ⟹  v ≤ w + (13/3)e + e²/3     (NOT below 4e: the standard-model analysis alone gives 2.17·dblEpsilon);
  `p2core_low`: the same with c ≤ 3/2 gives v ≤ w + 4e;
  `snap`:    if v − w is an integer multiple of e/2 (both ≥ 1/4 are floats) then (13/3)e + e²/3 improves to 4e.
-/
import Mathlib.Tactic.Ring
import Mathlib.Tactic.Linarith
import Mathlib.Tactic.Positivity
import Mathlib.Tactic.NormNum
import Mathlib.Algebra.Order.Field.Rat
import Mathlib.Data.Rat.Lemmas

namespace S2Proofs.C12M

theorem p1core (e c p w v q t : ℚ) (he : 0 ≤ e) (hc1 : 1 ≤ c) (hc2 : c ≤ 2)
    (hp1 : 1 ≤ p) (hp : p ≤ c * c + 2 * e)
    (hw : w ≤ (1 - e / 2) / 3 * (p - 1) + e / 2)
    (hq : q ≤ 3 * v + 2 * e) (ht : t ≤ 1 + q + 2 * e) (hs : (c - e) * (c - e) ≤ t) :
    w - 23 / 6 * e ≤ v := by
  have h1 : c * e ≤ 2 * e := mul_le_mul_of_nonneg_right hc2 he
  have h2 : 0 ≤ e * e := mul_nonneg he he
  have h3 : 0 ≤ e / 2 * (p - 1) := mul_nonneg (by linarith) (by linarith)
  have h4 : (1 - e / 2) / 3 * (p - 1) = (p - 1) / 3 - (e / 2 * (p - 1)) / 3 := by ring
  have h5 : (c - e) * (c - e) = c * c - 2 * (c * e) + e * e := by ring
  rw [h4] at hw
  rw [h5] at hs
  linarith

theorem p2core (e c p w v q t : ℚ) (he : 0 ≤ e) (hc1 : 1 ≤ c) (hc2 : c ≤ 2)
    (hp4 : p ≤ 4) (hp1 : 1 ≤ p) (hp : c * c - 2 * e ≤ p)
    (hw : (1 - e / 2) / 3 * (p - 1) - e / 2 ≤ w)
    (hq : 3 * v - 2 * e ≤ q) (ht : 1 + q - 2 * e ≤ t) (hs : t ≤ (c + e) * (c + e)) :
    v ≤ w + 13 / 3 * e + e * e / 3 := by
  have h1 : c * e ≤ 2 * e := mul_le_mul_of_nonneg_right hc2 he
  have h3 : e / 2 * (p - 1) ≤ e / 2 * 3 := mul_le_mul_of_nonneg_left (by linarith) (by linarith)
  have h4 : (1 - e / 2) / 3 * (p - 1) = (p - 1) / 3 - (e / 2 * (p - 1)) / 3 := by ring
  have h5 : (c + e) * (c + e) = c * c + 2 * (c * e) + e * e := by ring
  rw [h4] at hw
  rw [h5] at hs
  linarith

theorem p2core_low (e c p w v q t : ℚ) (he : 0 ≤ e) (he1 : e ≤ 1 / 16) (hc1 : 1 ≤ c) (hc2 : c ≤ 3 / 2)
    (hp1 : 1 ≤ p) (hp : c * c - 2 * e ≤ p) (hp' : p ≤ c * c + 2 * e)
    (hw : (1 - e / 2) / 3 * (p - 1) - e / 2 ≤ w)
    (hq : 3 * v - 2 * e ≤ q) (ht : 1 + q - 2 * e ≤ t) (hs : t ≤ (c + e) * (c + e)) :
    v ≤ w + 4 * e := by
  have h1 : c * e ≤ 3 / 2 * e := mul_le_mul_of_nonneg_right hc2 he
  have hcc : c * c ≤ 9 / 4 := by nlinarith
  have h3 : e / 2 * (p - 1) ≤ e / 2 * (3 / 2) := mul_le_mul_of_nonneg_left (by linarith) (by linarith)
  have h4 : (1 - e / 2) / 3 * (p - 1) = (p - 1) / 3 - (e / 2 * (p - 1)) / 3 := by ring
  have h5 : (c + e) * (c + e) = c * c + 2 * (c * e) + e * e := by ring
  have h6 : e * e ≤ 1 / 16 * e := mul_le_mul_of_nonneg_right he1 he
  rw [h4] at hw
  rw [h5] at hs
  linarith

/-- snapping to the grid of spacing `e/2` -/
theorem snap (e d : ℚ) (n : ℤ) (he : 0 < e) (he1 : e ≤ 1 / 16) (hd : d = n * (e / 2))
    (hb : d ≤ 13 / 3 * e + e * e / 3) : d ≤ 4 * e := by
  have h1 : (n : ℚ) * (e / 2) ≤ (13 / 3 + e / 3) * e := by rw [← hd]; linarith
  have h2 : (n : ℚ) < 9 := by
    by_contra hc
    have hc' : (9 : ℚ) ≤ n := not_lt.1 hc
    have : (9 : ℚ) * (e / 2) ≤ n * (e / 2) := mul_le_mul_of_nonneg_right hc' (by linarith)
    have h6 : e * e ≤ 1 / 16 * e := mul_le_mul_of_nonneg_right he1 (le_of_lt he)
    nlinarith
  have h3 : n < 9 := by exact_mod_cast h2
  have h4 : n ≤ 8 := by omega
  have h5 : (n : ℚ) ≤ 8 := by exact_mod_cast h4
  rw [hd]
  calc (n : ℚ) * (e / 2) ≤ 8 * (e / 2) := mul_le_mul_of_nonneg_right h5 (by linarith)
    _ = 4 * e := by ring

/-- `p2core` + `p2core_low` + `snap`: the margin `4e` suffices for the `r ≤ c` direction, provided `v − w` lies on the
    grid of spacing `e/2` whenever both are at least 1/4 (true for floats: spacing of binary64 in [1/4,1] divides 2^-54). -/
theorem p2full (e c p w v q t : ℚ) (he : 0 < e) (he1 : e ≤ 1 / 16) (hc1 : 1 ≤ c) (hc2 : c ≤ 2)
    (hp4 : p ≤ 4) (hp1 : 1 ≤ p) (hp : c * c - 2 * e ≤ p) (hp' : p ≤ c * c + 2 * e)
    (hw : (1 - e / 2) / 3 * (p - 1) - e / 2 ≤ w)
    (hq : 3 * v - 2 * e ≤ q) (ht : 1 + q - 2 * e ≤ t) (hs : t ≤ (c + e) * (c + e))
    (hgrid : 1 / 4 ≤ v → 1 / 4 ≤ w → ∃ n : ℤ, v - w = n * (e / 2)) :
    v ≤ w + 4 * e := by
  by_cases hc : c ≤ 3 / 2
  · exact p2core_low e c p w v q t (le_of_lt he) he1 hc1 hc hp1 hp hp' hw hq ht hs
  · have hc' : 3 / 2 < c := not_le.1 hc
    have hb := p2core e c p w v q t (le_of_lt he) hc1 hc2 hp4 hp1 hp hw hq ht hs
    have hcc : 9 / 4 ≤ c * c := by nlinarith
    have h1 : (31 / 32 : ℚ) / 3 ≤ (1 - e / 2) / 3 := by linarith
    have h2 : (9 / 8 : ℚ) ≤ p - 1 := by linarith
    have h3 : (31 / 32 : ℚ) / 3 * (9 / 8) ≤ (1 - e / 2) / 3 * (p - 1) :=
      mul_le_mul h1 h2 (by norm_num) (by linarith)
    have hw4 : 1 / 4 ≤ w := by
      have : (1 / 4 : ℚ) + 1 / 32 ≤ (31 / 32 : ℚ) / 3 * (9 / 8) := by norm_num
      linarith
    by_cases hv : v < 1 / 4
    · linarith
    · obtain ⟨n, hn⟩ := hgrid (not_lt.1 hv) hw4
      have := snap e (v - w) n he he1 hn (by linarith)
      linarith

end S2Proofs.C12M
