import S2Proofs.Codec.F64Exact
import S2Proofs.F64Order

/-!
  Exact soft-float facts about the `st` grid used by `cellIDFromPoint` / `stToIJ`
  (all statements are about the bit-exact binary64 model `S2.F64`, no reals involved):

  * Part 1  `siTiToST (2 i) = ijToSTMin i` bit for bit for `0 ≤ i ≤ 2^30`
            (both are the exact dyadic `i / 2^30`; `ijToSTMin_pack` gives the bits);
  * Part 2  `toInt (ijToSTMin i) = i · 2^1044` (i.e. value `i/2^30`) and the grid is strictly
            increasing for the exact float comparison (`ijToSTMin_lt`);
  * Part 3  `m ≤ stToIJ s ↔ ijToSTMin m ≤ s` for EVERY finite `s` (either sign, zero, subnormal,
            normal) with `s ≤ 2` and `1 ≤ m ≤ 2^30 − 1` (`stToIJ_ge_iff_of_le_two`, `stToIJ_ge_iff`),
            the strict/equality forms (`stToIJ_lt_iff`, `stToIJ_eq_iff`) and the round trip
            `stToIJ (ijToSTMin i) = i`, `stToIJ (siTiToST (2 i)) = i` for `i < 2^30`.
            The guard `s ≤ 2` cannot be dropped: for finite `s ≥ 2^994` the product `2^30·s`
            overflows to `+Inf` and the model's `toIntTrunc` returns 0
            (`stToIJ_ge_iff_false_huge`).  No lower bound on `s` is needed.
-/

namespace S2Proofs.C12ST
open S2 S2.STUV S2Proofs.Codec

/-! ### Part 1 : `siTiToST (2 i) = ijToSTMin i` -/

theorem fMaxSize_eq_pack : fMaxSize = pack (2 ^ 52) 22 :=
  ofNat_pack ⟨Nat.le_refl _, by decide, by decide, by decide⟩ (by decide)

theorem ofInt_natCast (n : Nat) : F64.ofInt (n : Int) = F64.ofNat n := rfl

/-- the grid value `i / 2^30` (0 < i < 2^30) as an explicit normal float -/
theorem ijToSTMin_pack (i : Nat) (h0 : 0 < i) (hi : i < 1073741824) :
    ijToSTMin (i : Int) = pack (i * 2 ^ (52 - i.log2)) (52 - i.log2 + 30) := by
  have hi0 : i ≠ 0 := by omega
  obtain ⟨hl52, hM1, hM2⟩ := scale_bounds i hi0 (by omega)
  have hl30 : i.log2 < 30 := (Nat.log2_lt hi0).2 (by omega)
  generalize hc : 52 - i.log2 = c at *
  have hN1 : Norm (i * 2 ^ c) c := ⟨hM1, hM2, by omega, by omega⟩
  have hN2 : Norm (2 ^ 52) 22 := ⟨Nat.le_refl _, by decide, by decide, by decide⟩
  unfold ijToSTMin
  rw [ofInt_natCast, ofNat_pack hN1 rfl, fMaxSize_eq_pack]
  have he : c - 22 + 52 = c + 30 := by omega
  rw [div_pack hN1 hN2 (by omega) ⟨hM1, hM2, by omega, by omega⟩, he]

/-- same value through `siTiToST` -/
theorem siTiToST_double_pack (i : Nat) (h0 : 0 < i) (hi : i < 1073741824) :
    siTiToST (2 * i) = pack (i * 2 ^ (52 - i.log2)) (52 - i.log2 + 30) := by
  have hi0 : i ≠ 0 := by omega
  obtain ⟨hl52, hM1, hM2⟩ := scale_bounds i hi0 (by omega)
  have hl30 : i.log2 < 30 := (Nat.log2_lt hi0).2 (by omega)
  generalize hc : 52 - i.log2 = c at *
  have hN1 : Norm (i * 2 ^ c) (c - 1) := ⟨hM1, hM2, by omega, by omega⟩
  have hN2 : Norm (2 ^ 52) 21 := ⟨Nat.le_refl _, by decide, by decide, by decide⟩
  unfold siTiToST
  rw [if_neg (by unfold maxSiTi; omega)]
  have hx : F64.ofNat (2 * i) = pack (i * 2 ^ c) (c - 1) :=
    ofNat_pack hN1 (by
      have : c = (c - 1) + 1 := by omega
      rw [this, Nat.pow_succ]; simp only [Nat.add_sub_cancel]
      rw [Nat.mul_comm 2 i, Nat.mul_assoc, Nat.mul_comm 2])
  rw [hx, fMaxSiTi_eq_pack]
  have he : c - 1 - 21 + 52 = c + 30 := by omega
  rw [div_pack hN1 hN2 (by omega) ⟨hM1, hM2, by omega, by omega⟩, he]

theorem siTiToST_zero : siTiToST 0 = F64.zero false := by decide +kernel
theorem ijToSTMin_zero : ijToSTMin 0 = F64.zero false := by decide +kernel
theorem siTiToST_max : siTiToST 2147483648 = F64.one := by decide +kernel
theorem ijToSTMin_max : ijToSTMin 1073741824 = F64.one := by decide +kernel

/-- `siTiToST(2i)` and `ijToSTMin(i)` are the same float, bit for bit (both are the exact
dyadic `i/2^30`), for every leaf coordinate `0 ≤ i ≤ 2^30`. -/
theorem siTiToST_double (i : Nat) (hi : i ≤ 1073741824) :
    siTiToST (2 * i) = ijToSTMin (i : Int) := by
  rcases Nat.eq_zero_or_pos i with rfl | h0
  · exact siTiToST_zero.trans ijToSTMin_zero.symm
  · rcases Nat.lt_or_eq_of_le hi with hlt | rfl
    · rw [siTiToST_double_pack i h0 hlt, ijToSTMin_pack i h0 hlt]
    · exact siTiToST_max.trans ijToSTMin_max.symm

example : siTiToST (2 * 715827883) = ijToSTMin (715827883 : Nat) :=
  siTiToST_double 715827883 (by decide)

/-! ### Part 2 : the grid is strictly increasing -/

section Part2
open S2Proofs.F64Order S2.Exact

theorem Fin_pack {m e' : Nat} (h : Norm m e') : F64Order.Fin (pack m e') := by
  have := h.e1
  unfold F64Order.Fin; rw [h.expField]; omega

theorem toInt_pack {m e' : Nat} (h : Norm m e') :
    toInt (pack m e') = ((m * 2 ^ (1074 - e') : Nat) : Int) := by
  have := h.e2
  unfold toInt F64.toIntAt
  simp only [h.mant, h.expo, h.signBit, Bool.false_eq_true, if_false]
  have : (-(e' : Int) - -1074).toNat = 1074 - e' := by omega
  rw [this]; push_cast; rfl

theorem Fin_zero : F64Order.Fin (F64.zero false) := by decide
theorem Fin_one : F64Order.Fin F64.one := by decide
theorem toInt_zero : toInt (F64.zero false) = 0 := by decide +kernel
theorem toInt_one : toInt F64.one = 2 ^ 1074 := by decide +kernel

theorem ijToSTMin_fin_toInt (i : Nat) (hi : i ≤ 1073741824) :
    F64Order.Fin (ijToSTMin (i : Int)) ∧ toInt (ijToSTMin (i : Int)) = (i : Int) * 2 ^ 1044 := by
  rcases Nat.eq_zero_or_pos i with rfl | h0
  · rw [show ((0 : Nat) : Int) = 0 from rfl, ijToSTMin_zero]
    exact ⟨Fin_zero, by rw [toInt_zero]; simp⟩
  · rcases Nat.lt_or_eq_of_le hi with hlt | rfl
    · have hi0 : i ≠ 0 := by omega
      obtain ⟨hl52, hM1, hM2⟩ := scale_bounds i hi0 (by omega)
      have hN : Norm (i * 2 ^ (52 - i.log2)) (52 - i.log2 + 30) := ⟨hM1, hM2, by omega, by omega⟩
      rw [ijToSTMin_pack i h0 hlt]
      refine ⟨Fin_pack hN, ?_⟩
      rw [toInt_pack hN, Nat.mul_assoc, ← Nat.pow_add]
      have : 52 - i.log2 + (1074 - (52 - i.log2 + 30)) = 1044 := by omega
      rw [this]; push_cast; rfl
    · rw [show ((1073741824 : Nat) : Int) = 1073741824 from rfl, ijToSTMin_max]
      exact ⟨Fin_one, by rw [toInt_one]; decide +kernel⟩

theorem ijToSTMin_lt (a b : Nat) (hab : a < b) (hb : b ≤ 1073741824) :
    F64.lt (ijToSTMin (a : Int)) (ijToSTMin (b : Int)) = true := by
  obtain ⟨fa, ta⟩ := ijToSTMin_fin_toInt a (by omega)
  obtain ⟨fb, tb⟩ := ijToSTMin_fin_toInt b hb
  rw [lt_iff fa fb, ta, tb]
  exact Int.mul_lt_mul_of_pos_right (by exact_mod_cast hab) (by positivity)

example : F64.lt (ijToSTMin (5 : Nat)) (ijToSTMin (6 : Nat)) = true := ijToSTMin_lt 5 6 (by decide) (by decide)

end Part2

section Part3
open S2Proofs.F64Order S2.Exact

/-! ### Part 3 -/

theorem fracField_lt (x : F64) : x.fracField < 2 ^ 52 := by
  unfold F64.fracField
  rw [UInt64.toNat_and]
  have h7 : (0xFFFFFFFFFFFFF : UInt64).toNat = 2 ^ 52 - 1 := by decide
  rw [h7, Nat.and_two_pow_sub_one_eq_mod]
  exact Nat.mod_lt _ (Nat.two_pow_pos _)

theorem expField_lt (x : F64) : x.expField < 2048 := by
  unfold F64.expField
  rw [UInt64.toNat_and]
  have h7 : (0x7FF : UInt64).toNat = 2 ^ 11 - 1 := by decide
  rw [h7, Nat.and_two_pow_sub_one_eq_mod]
  exact Nat.mod_lt _ (Nat.two_pow_pos _)

theorem mant_lt (x : F64) : x.mant < 2 ^ 53 := by
  have := fracField_lt x
  unfold F64.mant; split <;> omega

theorem fin_of_isFinite {x : F64} (h : x.isFinite = true) : F64Order.Fin x := by
  unfold F64.isFinite at h; unfold F64Order.Fin; simpa using h

theorem isFinite_of_fin {x : F64} (h : F64Order.Fin x) : x.isFinite = true := by
  unfold F64.isFinite; unfold F64Order.Fin at h; simpa using h

/-- value of a non-negative float as a natural multiple of 2^-1074 -/
theorem toInt_of_pos (x : F64) (hs : x.signBit = false) :
    toInt x = ((x.mant * 2 ^ (x.expo + 1074).toNat : Nat) : Int) := by
  unfold toInt F64.toIntAt
  simp only [hs, Bool.false_eq_true, if_false]
  have : (x.expo - -1074) = x.expo + 1074 := by omega
  rw [this]; push_cast; rfl

theorem toInt_of_neg (x : F64) (hs : x.signBit = true) : toInt x ≤ 0 := by
  unfold toInt F64.toIntAt
  simp only [hs, ↓reduceIte]
  have : (0 : Int) ≤ (x.mant : Int) * 2 ^ (x.expo - -1074).toNat := by positivity
  omega

theorem toIntTrunc_of_neg (x : F64) (hs : x.signBit = true) : F64.toIntTrunc x ≤ 0 := by
  unfold F64.toIntTrunc
  have h1 : (0 : Int) ≤ (x.mant : Int) * 2 ^ x.expo.toNat := by positivity
  have h2 : (0 : Int) ≤ (x.mant : Int) / 2 ^ (-x.expo).toNat := by positivity
  simp only [hs, if_true]
  repeat' split
  all_goals omega

/-! sign of results -/

theorem div_ne_zero_aux (a P : Nat) (hP : 0 < P) (h : P ≤ a) : a / P ≠ 0 := by
  have : 1 ≤ a / P := (Nat.le_div_iff_mul_le hP).2 (by omega)
  omega

theorem signBit_or (X : UInt64) : F64.signBit ⟨0x8000000000000000 ||| X⟩ = true := by
  unfold F64.signBit
  rw [bne_iff_ne, Ne, ← UInt64.toNat_inj, UInt64.toNat_shiftRight, UInt64.toNat_or]
  have h63 : (63 : UInt64).toNat % 64 = 63 := by decide
  have h0 : (0 : UInt64).toNat = 0 := by decide
  have h8 : (0x8000000000000000 : UInt64).toNat = 2 ^ 63 := by decide
  rw [h63, h0, h8, Nat.shiftRight_eq_div_pow]
  have hP := Nat.two_pow_pos 63
  generalize (2 : Nat) ^ 63 = P at hP ⊢
  exact div_ne_zero_aux _ P hP (@Nat.left_le_or P X.toNat)

theorem signBit_zero_true : (F64.zero true).signBit = true := by decide
theorem signBit_inf_true : (F64.inf true).signBit = true := by decide

theorem signBit_fin_aux (q : Nat) (be : Int) :
   (if q < 2 ^ 52 then (⟨(0x8000000000000000 : UInt64) ||| UInt64.ofNat q⟩ : F64)
      else if be ≥ 2047 then F64.inf true
        else ⟨(0x8000000000000000 : UInt64) ||| (UInt64.ofNat be.toNat <<< 52) |||
          UInt64.ofNat (q - 2 ^ 52)⟩).signBit = true := by
  split
  · exact signBit_or _
  · split
    · exact signBit_inf_true
    · rw [UInt64.or_assoc]; exact signBit_or _

theorem signBit_finR_true (e : Int) (t : Nat × Nat × Nat) : (finR true e t).signBit = true := by
  obtain ⟨q, r, den⟩ := t
  unfold finR
  simp only [if_true]
  exact signBit_fin_aux _ _

theorem signBit_roundNE_true (n d : Nat) : (F64.roundNE true n d).signBit = true := by
  rw [roundNE_eq]
  by_cases hn : (n == 0) = true
  · rw [if_pos hn]; exact signBit_zero_true
  · rw [if_neg hn]; exact signBit_finR_true _ _

theorem signBit_roundDyadic_true (m : Nat) (e : Int) : (F64.roundDyadic true m e).signBit = true := by
  unfold F64.roundDyadic; split <;> exact signBit_roundNE_true _ _

theorem signBit_floor_true (x : F64) (hs : x.signBit = true) : (F64.floor x).signBit = true := by
  unfold F64.floor
  simp only [hs, if_true]
  split
  · exact hs
  · split
    · exact hs
    · split
      · split
        · exact signBit_zero_true
        · exact signBit_roundNE_true _ _
      · split
        · exact signBit_zero_true
        · exact signBit_roundNE_true _ _

theorem fMaxSize_norm : Norm (2 ^ 52) 22 := ⟨Nat.le_refl _, by decide, by decide, by decide⟩

/-- the product `2^30 · s` of a negative finite `s` carries the sign bit -/
theorem signBit_mul_true (s : F64) (hf : F64Order.Fin s) (hs : s.signBit = true) :
    (fMaxSize * s).signBit = true := by
  show (F64.mul _ _).signBit = true
  unfold F64.mul
  rw [fMaxSize_eq_pack]
  simp only [fMaxSize_norm.isNaN, fMaxSize_norm.isInf, fMaxSize_norm.isZero, fMaxSize_norm.signBit,
    isNaN_false hf, isInf_false hf, hs, Bool.or_self, Bool.false_or, Bool.false_eq_true, if_false]
  split
  · exact signBit_zero_true
  · exact signBit_roundDyadic_true _ _

/-- negative (sign bit set) finite `s` : `stToIJ s = 0` side of the equivalence -/
theorem toIntTrunc_floor_mul_neg (s : F64) (hf : F64Order.Fin s) (hs : s.signBit = true) :
    F64.toIntTrunc (F64.floor (fMaxSize * s)) ≤ 0 :=
  toIntTrunc_of_neg _ (signBit_floor_true _ (signBit_mul_true s hf hs))


/-- positive subnormal (or +0) with fraction `q < 2^52` : value `q · 2^-1074` -/
def subn (q : Nat) : F64 := ⟨(0 : UInt64) ||| UInt64.ofNat q⟩

theorem subn_bits (q : Nat) (hq : q < 2 ^ 52) : (subn q).bits.toNat = q := by
  unfold subn
  rw [UInt64.toNat_or, UInt64.toNat_ofNat']
  have h0 : (0 : UInt64).toNat = 0 := by decide
  rw [h0, Nat.zero_or, Nat.mod_eq_of_lt (by omega)]

theorem subn_expField (q : Nat) (hq : q < 2 ^ 52) : (subn q).expField = 0 := by
  unfold F64.expField
  rw [UInt64.toNat_and, UInt64.toNat_shiftRight, subn_bits q hq]
  have h52 : (52 : UInt64).toNat % 64 = 52 := by decide
  have h7 : (0x7FF : UInt64).toNat = 2 ^ 11 - 1 := by decide
  rw [h52, h7, Nat.and_two_pow_sub_one_eq_mod, Nat.shiftRight_eq_div_pow,
    Nat.div_eq_of_lt hq]

theorem subn_fracField (q : Nat) (hq : q < 2 ^ 52) : (subn q).fracField = q := by
  unfold F64.fracField
  rw [UInt64.toNat_and, subn_bits q hq]
  have h7 : (0xFFFFFFFFFFFFF : UInt64).toNat = 2 ^ 52 - 1 := by decide
  rw [h7, Nat.and_two_pow_sub_one_eq_mod]
  exact Nat.mod_eq_of_lt hq

theorem subn_signBit (q : Nat) (hq : q < 2 ^ 52) : (subn q).signBit = false := by
  unfold F64.signBit
  have : ((subn q).bits >>> 63) = 0 := by
    rw [← UInt64.toNat_inj, UInt64.toNat_shiftRight, subn_bits q hq]
    have h63 : (63 : UInt64).toNat % 64 = 63 := by decide
    have h0 : (0 : UInt64).toNat = 0 := by decide
    rw [h63, h0, Nat.shiftRight_eq_div_pow]
    exact Nat.div_eq_of_lt (by omega)
  rw [this]; rfl

theorem subn_mant (q : Nat) (hq : q < 2 ^ 52) : (subn q).mant = q := by
  unfold F64.mant; rw [subn_expField q hq, subn_fracField q hq]; rfl
theorem subn_expo (q : Nat) (hq : q < 2 ^ 52) : (subn q).expo = -1074 := by
  unfold F64.expo; rw [subn_expField q hq]; rfl
theorem subn_fin (q : Nat) (hq : q < 2 ^ 52) : F64Order.Fin (subn q) := by
  unfold F64Order.Fin; rw [subn_expField q hq]; omega
theorem subn_toInt (q : Nat) (hq : q < 2 ^ 52) : toInt (subn q) = (q : Int) := by
  rw [toInt_of_pos _ (subn_signBit q hq), subn_mant q hq, subn_expo q hq]
  simp

theorem adjE_le (n d : Nat) (e0 : Int) : adjE n d e0 ≤ e0 + 2 := by
  unfold adjE
  generalize quotF n d e0 = t
  obtain ⟨q, r, dd⟩ := t
  simp only
  split
  · omega
  · split <;> omega

theorem finR_subn (q d : Nat) (hd : 0 < d) (hq : q < 2 ^ 52) :
    finR false (-1074) (q, 0, d) = subn q := by
  unfold finR subn
  have h1 : ¬ (2 * 0 > d) := by omega
  have h2 : ¬ (2 * 0 = d) := by omega
  have h3 : ¬ (9007199254740992 ≤ q) := by omega
  have h4 : ¬ (0 = d) := by omega
  have h6 : q < 4503599627370496 := by omega
  simp [h3, h4, h6]

/-- exact rounding to a subnormal: `n / 2^b = q · 2^-1074`, `q < 2^52` -/
theorem roundNE_subn (n b q : Nat) (hn : n ≠ 0) (hq : q < 2 ^ 52)
    (h : n * 2 ^ 1074 = q * 2 ^ b) : F64.roundNE false n (2 ^ b) = subn q := by
  have hlog : n.log2 + 1074 < 52 + b := by
    have h1 := Nat.log2_self_le hn
    have h3 : 2 ^ (n.log2 + 1074) ≤ n * 2 ^ 1074 := by
      rw [Nat.pow_add]; exact Nat.mul_le_mul_right _ h1
    have h6 : q * 2 ^ b < 2 ^ (52 + b) := by
      rw [Nat.pow_add]; exact Nat.mul_lt_mul_of_pos_right hq (Nat.two_pow_pos _)
    have h7 : 2 ^ (n.log2 + 1074) < 2 ^ (52 + b) := by omega
    rwa [Nat.pow_lt_pow_iff_right (by decide)] at h7
  have hadj := adjE_le n (2 ^ b) ((n.log2 : Int) - ((2 ^ b).log2 : Int) - 1 - 52)
  rw [Nat.log2_two_pow] at hadj
  rw [roundNE_eq]
  have hn' : (n == 0) = false := by simpa using hn
  simp only [hn', Nat.log2_two_pow]
  generalize adjE n (2 ^ b) ((n.log2 : Int) - (b : Int) - 1 - 52) = e1 at hadj ⊢
  have he : (if e1 < -1074 then (-1074 : Int) else e1) = -1074 := by split <;> omega
  simp only [Bool.false_eq_true, if_false, he]
  have hq2 : quotF n (2 ^ b) (-((1074 : Nat) : Int)) = (q, 0, 2 ^ b) :=
    quotF_exact n b 1074 q (by omega) h
  rw [show (-1074 : Int) = -((1074 : Nat) : Int) from rfl, hq2]
  exact finR_subn q (2 ^ b) (Nat.two_pow_pos _) hq


theorem pow_arith (M a b c d : Nat) (h : a + b = c + d) : 2 ^ a * M * 2 ^ b = M * 2 ^ c * 2 ^ d := by
  rw [Nat.mul_comm (2 ^ a) M, Nat.mul_assoc, Nat.mul_assoc, ← Nat.pow_add, ← Nat.pow_add, h]

/-- exact rounding of `M · 2^t · 2^30 · 2^-1074` (normal `M`, or subnormal `M` with `t = 0`) -/
theorem roundNE_scale (M t : Nat)
    (h : (2 ^ 52 ≤ M ∧ M < 2 ^ 53 ∧ t ≤ 1023) ∨ (0 < M ∧ M < 2 ^ 52 ∧ t = 0)) :
    F64Order.Fin (F64.roundNE false (2 ^ 52 * M) (2 ^ (1096 - t))) ∧
    (F64.roundNE false (2 ^ 52 * M) (2 ^ (1096 - t))).signBit = false ∧
    toInt (F64.roundNE false (2 ^ 52 * M) (2 ^ (1096 - t))) = ((M * 2 ^ (t + 30) : Nat) : Int) := by
  rcases h with ⟨h1, h2, h3⟩ | ⟨h1, h2, rfl⟩
  · have hN : Norm M (1044 - t) := ⟨h1, h2, by omega, by omega⟩
    have hR : F64.roundNE false (2 ^ 52 * M) (2 ^ (1096 - t)) = pack M (1044 - t) :=
      roundNE_pack hN (by
        rw [Nat.mul_comm (2 ^ 52) M, Nat.mul_assoc, ← Nat.pow_add]; congr 2; omega)
    rw [hR]
    refine ⟨Fin_pack hN, hN.signBit, ?_⟩
    rw [toInt_pack hN]; congr 3; omega
  · by_cases hsm : M * 2 ^ 30 < 2 ^ 52
    · have hR : F64.roundNE false (2 ^ 52 * M) (2 ^ (1096 - 0)) = subn (M * 2 ^ 30) :=
        roundNE_subn _ _ _ (Nat.mul_ne_zero (Nat.pos_iff_ne_zero.1 (Nat.two_pow_pos _)) (by omega)) hsm
          (pow_arith M 52 1074 30 (1096 - 0) (by omega))
      rw [hR]
      exact ⟨subn_fin _ hsm, subn_signBit _ hsm, by rw [subn_toInt _ hsm]⟩
    · have hM0 : M ≠ 0 := by omega
      obtain ⟨hl52, hM1, hM2⟩ := scale_bounds M hM0 (by omega)
      have hlog : 22 ≤ M.log2 := (Nat.le_log2 hM0).2 (by omega)
      generalize hc : 52 - M.log2 = c at *
      have hN : Norm (M * 2 ^ c) (1044 + c) := ⟨hM1, hM2, by omega, by omega⟩
      have hR : F64.roundNE false (2 ^ 52 * M) (2 ^ (1096 - 0)) = pack (M * 2 ^ c) (1044 + c) :=
        roundNE_pack hN (pow_arith M 52 (1044 + c) c (1096 - 0) (by omega))
      rw [hR]
      refine ⟨Fin_pack hN, hN.signBit, ?_⟩
      rw [toInt_pack hN, Nat.mul_assoc, ← Nat.pow_add]; congr 3; omega

theorem isZero_mant {x : F64} (h : x.isZero = true) : x.mant = 0 := by
  unfold F64.isZero at h
  simp only [Bool.and_eq_true, beq_iff_eq] at h
  unfold F64.mant; simp [h.1, h.2]

theorem mant_pos_of_not_isZero {x : F64} (h : x.isZero = false) : 0 < x.mant := by
  unfold F64.isZero at h
  unfold F64.mant
  by_cases he : x.expField = 0
  · simp only [he, beq_self_eq_true, Bool.true_and, beq_eq_false_iff_ne] at h
    simp only [he, beq_self_eq_true, if_true]; omega
  · have : (x.expField == 0) = false := by simpa using he
    simp only [this]; simp

theorem toInt_two : toInt F64.two = ((2 ^ 1075 : Nat) : Int) := by decide +kernel
theorem Fin_two : F64Order.Fin F64.two := by decide

/-- `2^30 · s` is computed exactly for every finite non-negative `s ≤ 2` -/
theorem mul_fMaxSize_pos (s : F64) (hf : F64Order.Fin s) (hs : s.signBit = false)
    (hle : s.mant * 2 ^ (s.expo + 1074).toNat ≤ 2 ^ 1075) :
    F64Order.Fin (fMaxSize * s) ∧ (fMaxSize * s).signBit = false ∧
      toInt (fMaxSize * s) = ((s.mant * 2 ^ ((s.expo + 1074).toNat + 30) : Nat) : Int) := by
  show F64Order.Fin (F64.mul _ _) ∧ (F64.mul _ _).signBit = false ∧ toInt (F64.mul _ _) = _
  unfold F64.mul
  rw [fMaxSize_eq_pack]
  simp only [fMaxSize_norm.isNaN, fMaxSize_norm.isInf, fMaxSize_norm.isZero, fMaxSize_norm.signBit,
    fMaxSize_norm.mant, fMaxSize_norm.expo,
    isNaN_false hf, isInf_false hf, hs, Bool.or_self, Bool.false_or, Bool.false_eq_true, if_false,
    bne_self_eq_false]
  by_cases hz : s.isZero = true
  · rw [if_pos hz, isZero_mant hz]
    exact ⟨Fin_zero, by decide, by rw [toInt_zero]; simp⟩
  · rw [if_neg hz]
    have hz' : s.isZero = false := by simpa using hz
    have hMpos := mant_pos_of_not_isZero hz'
    have hM53 := mant_lt s
    have hexp := expo_ge s
    generalize ht : (s.expo + 1074).toNat = t at *
    have hcase : (2 ^ 52 ≤ s.mant ∧ s.mant < 2 ^ 53 ∧ t ≤ 1023) ∨ (0 < s.mant ∧ s.mant < 2 ^ 52 ∧ t = 0) := by
      by_cases he : s.expField = 0
      · right
        have h1 : s.mant = s.fracField := by unfold F64.mant; simp [he]
        have h2 : s.expo = -1074 := by unfold F64.expo; simp [he]
        have := fracField_lt s
        refine ⟨hMpos, by omega, by omega⟩
      · left
        have h1 : s.mant = s.fracField + 2 ^ 52 := by
          unfold F64.mant
          have : (s.expField == 0) = false := by simpa using he
          simp only [this]; simp
        refine ⟨by omega, hM53, ?_⟩
        have h3 : 2 ^ (52 + t) ≤ 2 ^ 1075 := by
          rw [Nat.pow_add]
          exact Nat.le_trans (Nat.mul_le_mul_right _ (by omega)) hle
        rw [Nat.pow_le_pow_iff_right (by decide)] at h3
        omega
    have ht1023 : t ≤ 1023 := by rcases hcase with h | h <;> omega
    unfold F64.roundDyadic
    rw [if_neg (by omega)]
    have hb : (-(-((22 : Nat) : Int) + s.expo)).toNat = 1096 - t := by omega
    rw [hb]
    exact roundNE_scale s.mant t hcase


theorem isFinite_pack {m e' : Nat} (h : Norm m e') : (pack m e').isFinite = true :=
  isFinite_of_fin (Fin_pack h)

theorem toIntTrunc_pack {m e' : Nat} (h : Norm m e') :
    F64.toIntTrunc (pack m e') = ((m / 2 ^ e' : Nat) : Int) := by
  have := h.e1
  unfold F64.toIntTrunc
  simp only [isFinite_pack h, h.expo, h.mant, h.signBit, Bool.not_true, Bool.false_eq_true, if_false]
  rw [if_neg (by omega)]
  have : (-(-(e' : Int))).toNat = e' := by omega
  rw [this]; push_cast; rfl

theorem toIntTrunc_zero : F64.toIntTrunc (F64.zero false) = 0 := by decide +kernel

theorem div_scale_aux (a sh : Nat) (h : sh ≤ 1074) :
    a * 2 ^ (1074 - sh) / 2 ^ 1074 = a / 2 ^ sh := by
  have : 2 ^ 1074 = 2 ^ sh * 2 ^ (1074 - sh) := by rw [← Nat.pow_add]; congr 1; omega
  rw [this, Nat.mul_div_mul_right _ _ (Nat.two_pow_pos _)]

/-- `int(math.Floor(x))` of a finite non-negative float is the integer part of its exact value -/
theorem toIntTrunc_floor_pos (x : F64) (hf : F64Order.Fin x) (hs : x.signBit = false) :
    F64.toIntTrunc (F64.floor x) =
      ((x.mant * 2 ^ (x.expo + 1074).toNat / 2 ^ 1074 : Nat) : Int) := by
  have hexp := expo_ge x
  have hfin := isFinite_of_fin hf
  unfold F64.floor
  simp only [hfin, Bool.not_true, Bool.false_or, hs, Bool.false_eq_true, if_false]
  by_cases hz : x.isZero = true
  · rw [if_pos hz]
    unfold F64.toIntTrunc
    simp [hfin, isZero_mant hz]
  · rw [if_neg hz]
    by_cases he : x.expo ≥ 0
    · rw [if_pos he]
      unfold F64.toIntTrunc
      simp only [hfin, hs, Bool.not_true, Bool.false_eq_true, if_false, if_pos he]
      have : (x.expo + 1074).toNat = x.expo.toNat + 1074 := by omega
      rw [this, Nat.pow_add, ← Nat.mul_assoc, Nat.mul_div_cancel _ (Nat.two_pow_pos _)]
      push_cast; rfl
    · rw [if_neg he]
      generalize hsh : (-x.expo).toNat = sh
      have ht : (x.expo + 1074).toNat = 1074 - sh := by omega
      have hsh1 : 1 ≤ sh := by omega
      rw [ht, div_scale_aux _ _ (by omega)]
      by_cases hq : x.mant / 2 ^ sh = 0
      · simp only [hq, beq_self_eq_true, if_true]
        exact toIntTrunc_zero
      · have hq' : (x.mant / 2 ^ sh == 0) = false := by simpa using hq
        simp only [hq', Bool.false_eq_true, if_false]
        have hqlt : x.mant / 2 ^ sh < 2 ^ 52 := by
          have := mant_lt x
          rw [Nat.div_lt_iff_lt_mul (Nat.two_pow_pos _)]
          have : 2 ^ 52 * 2 ^ 1 ≤ 2 ^ 52 * 2 ^ sh :=
            Nat.mul_le_mul_left _ (Nat.pow_le_pow_right (by decide) hsh1)
          omega
        generalize x.mant / 2 ^ sh = q at *
        obtain ⟨hl52, hM1, hM2⟩ := scale_bounds q hq (by omega)
        have hl51 : q.log2 < 52 := (Nat.log2_lt hq).2 hqlt
        have hN : Norm (q * 2 ^ (52 - q.log2)) (52 - q.log2) := ⟨hM1, hM2, by omega, by omega⟩
        have hR : F64.roundNE false q 1 = pack (q * 2 ^ (52 - q.log2)) (52 - q.log2) :=
          roundNE_pack (b := 0) hN (by simp)
        rw [hR, toIntTrunc_pack hN, Nat.mul_div_cancel _ (Nat.two_pow_pos _)]


theorem clamp_ge_iff (m : Nat) (h1 : 1 ≤ m) (hm : m ≤ 1073741823) (x : Int) :
    (m : Int) ≤ clampInt x 0 (1073741824 - 1) ↔ (m : Int) ≤ x := by
  unfold clampInt; split_ifs <;> omega

theorem nat_floor_aux (m a t : Nat) :
    m ≤ a * 2 ^ (t + 30) / 2 ^ 1074 ↔ m * 2 ^ 1044 ≤ a * 2 ^ t := by
  have h1 : a * 2 ^ (t + 30) = a * 2 ^ t * 2 ^ 30 := by rw [Nat.pow_add, Nat.mul_assoc]
  have h2 : 2 ^ 1074 = 2 ^ 1044 * 2 ^ 30 := by rw [← Nat.pow_add]
  rw [h1, h2, Nat.mul_div_mul_right _ _ (Nat.two_pow_pos _), Nat.le_div_iff_mul_le (Nat.two_pow_pos _)]

/-- `stToIJ s ≥ m  ↔  m/2^30 ≤ s` (exact float comparison) for every finite `s ≤ 2`
and every grid index `1 ≤ m ≤ 2^30 − 1`.  The guard `s ≤ 2` is needed: see `stToIJ_ge_iff_false_huge`. -/
theorem stToIJ_ge_iff_of_le_two (s : F64) (hs : s.isFinite = true) (hle : F64.le s F64.two = true)
    (m : Nat) (h1 : 1 ≤ m) (hm : m ≤ 1073741823) :
    ((m : Int) ≤ stToIJ s) ↔ F64.le (ijToSTMin (m : Int)) s = true := by
  have hf := fin_of_isFinite hs
  obtain ⟨fm, tm⟩ := ijToSTMin_fin_toInt m (by omega)
  rw [le_iff fm hf, tm]
  unfold stToIJ
  rw [clamp_ge_iff m h1 hm]
  cases hsb : s.signBit
  · have hle' := (le_iff hf Fin_two).1 hle
    rw [toInt_two, toInt_of_pos s hsb, Int.ofNat_le] at hle'
    obtain ⟨fP, sP, tP⟩ := mul_fMaxSize_pos s hf hsb hle'
    rw [toInt_of_pos _ sP, Int.ofNat_inj] at tP
    rw [toIntTrunc_floor_pos _ fP sP, tP, toInt_of_pos s hsb, Int.ofNat_le, nat_floor_aux]
    rw [show ((m : Int) * 2 ^ 1044) = ((m * 2 ^ 1044 : Nat) : Int) by push_cast; rfl, Int.ofNat_le]
  · have h2 := toIntTrunc_floor_mul_neg s hf hsb
    have h3 := toInt_of_neg s hsb
    have h4 : (0 : Int) < (m : Int) * 2 ^ 1044 := by positivity
    constructor <;> intro h <;> omega


/-- the form requested by the callers (`|s| ≤ 2`; only the upper bound is actually used) -/
theorem stToIJ_ge_iff (s : F64) (hs : s.isFinite = true)
    (hg : F64.le s F64.two = true ∧ F64.le (F64.neg F64.two) s = true)
    (m : Nat) (h1 : 1 ≤ m) (hm : m ≤ 1073741823) :
    ((m : Int) ≤ stToIJ s) ↔ F64.le (ijToSTMin (m : Int)) s = true :=
  stToIJ_ge_iff_of_le_two s hs hg.1 m h1 hm

/-- Without the guard the statement is FALSE: for the finite `s = 2^994` the product `2^30 · s`
overflows to `+Inf`, `toIntTrunc` of a non-finite is `0` in the model, so `stToIJ s = 0`
although `5/2^30 ≤ s`. -/
theorem stToIJ_ge_iff_false_huge :
    let s : F64 := ⟨(2017 : UInt64) <<< 52⟩
    s.isFinite = true ∧ stToIJ s = 0 ∧ F64.le (ijToSTMin ((5 : Nat) : Int)) s = true := by
  decide +kernel

/-- largest finite `s` for which the unguarded statement still holds is below `2^994`;
just below it `stToIJ` clamps to `2^30 − 1` as expected -/
example : stToIJ ⟨((2016 : UInt64) <<< 52) ||| 0xFFFFFFFFFFFFF⟩ = 1073741823 := by decide +kernel

/-- non-vacuity: `s = 1/3` (`third`), `m = ⌊2^30/3⌋ = 357913941` and `m + 1` -/
example : ((357913941 : Nat) : Int) ≤ stToIJ third :=
  (stToIJ_ge_iff third (by decide) ⟨by decide +kernel, by decide +kernel⟩ 357913941 (by decide)
    (by decide)).2 (by decide +kernel)
example : ¬ (((357913942 : Nat) : Int) ≤ stToIJ third) := fun h =>
  absurd ((stToIJ_ge_iff third (by decide) ⟨by decide +kernel, by decide +kernel⟩ 357913942 (by decide)
    (by decide)).1 h) (by decide +kernel)
/-- non-vacuity on the negative side (`s = −2^-53`, as produced by `cellIDFromFaceIJWrap`) and for a
subnormal `s` -/
example : ¬ (((1 : Nat) : Int) ≤ stToIJ ⟨0xBCA0000000000000⟩) := fun h =>
  absurd ((stToIJ_ge_iff ⟨0xBCA0000000000000⟩ (by decide) ⟨by decide +kernel, by decide +kernel⟩ 1
    (by decide) (by decide)).1 h) (by decide +kernel)
example : ¬ (((1 : Nat) : Int) ≤ stToIJ ⟨0x0000000000000001⟩) := fun h =>
  absurd ((stToIJ_ge_iff ⟨0x0000000000000001⟩ (by decide) ⟨by decide +kernel, by decide +kernel⟩ 1
    (by decide) (by decide)).1 h) (by decide +kernel)

theorem stToIJ_range (s : F64) : 0 ≤ stToIJ s ∧ stToIJ s ≤ 1073741823 := by
  unfold stToIJ clampInt; split_ifs <;> omega

/-- strict form: `stToIJ s < m ↔ s < m/2^30` -/
theorem stToIJ_lt_iff (s : F64) (hs : s.isFinite = true) (hle : F64.le s F64.two = true)
    (m : Nat) (h1 : 1 ≤ m) (hm : m ≤ 1073741823) :
    (stToIJ s < (m : Int)) ↔ F64.lt s (ijToSTMin (m : Int)) = true := by
  have hf := fin_of_isFinite hs
  obtain ⟨fm, tm⟩ := ijToSTMin_fin_toInt m (by omega)
  have h := stToIJ_ge_iff_of_le_two s hs hle m h1 hm
  rw [le_iff fm hf] at h
  rw [lt_iff hf fm]
  constructor
  · intro h'; exact Int.not_le.1 (fun h'' => absurd (h.2 h'') (by omega))
  · intro h'; exact Int.not_le.1 (fun h'' => absurd (h.1 h'') (by omega))

/-- the cell of `s` : `stToIJ s = m ↔ m/2^30 ≤ s < (m+1)/2^30` for interior indices -/
theorem stToIJ_eq_iff (s : F64) (hs : s.isFinite = true) (hle : F64.le s F64.two = true)
    (m : Nat) (h1 : 1 ≤ m) (hm : m ≤ 1073741822) :
    (stToIJ s = (m : Int)) ↔
      (F64.le (ijToSTMin (m : Int)) s = true ∧ F64.lt s (ijToSTMin ((m + 1 : Nat) : Int)) = true) := by
  rw [← stToIJ_ge_iff_of_le_two s hs hle m h1 (by omega),
    ← stToIJ_lt_iff s hs hle (m + 1) (by omega) (by omega)]
  push_cast; omega

theorem ijToSTMin_le_two (i : Nat) (hi : i ≤ 1073741824) :
    (ijToSTMin (i : Int)).isFinite = true ∧ F64.le (ijToSTMin (i : Int)) F64.two = true := by
  obtain ⟨fi, ti⟩ := ijToSTMin_fin_toInt i hi
  refine ⟨isFinite_of_fin fi, ?_⟩
  rw [le_iff fi Fin_two, ti, toInt_two]
  have : (i : Int) * 2 ^ 1044 ≤ 1073741824 * 2 ^ 1044 :=
    Int.mul_le_mul_of_nonneg_right (by exact_mod_cast hi) (by positivity)
  have h2 : ((2 ^ 1075 : Nat) : Int) = 2147483648 * 2 ^ 1044 := by decide +kernel
  rw [h2]
  have h3 : (0 : Int) ≤ 2 ^ 1044 := by positivity
  generalize (2 : Int) ^ 1044 = P at *
  omega

theorem stToIJ_zero : stToIJ (F64.zero false) = 0 := by decide +kernel

/-- round trip on the grid: `stToIJ (i/2^30) = i` for every leaf index `i < 2^30` -/
theorem stToIJ_ijToSTMin (i : Nat) (hi : i ≤ 1073741823) :
    stToIJ (ijToSTMin (i : Int)) = (i : Int) := by
  rcases Nat.eq_zero_or_pos i with rfl | h0
  · rw [show ((0 : Nat) : Int) = 0 from rfl, ijToSTMin_zero]; exact stToIJ_zero
  · obtain ⟨hfin, hle⟩ := ijToSTMin_le_two i (by omega)
    obtain ⟨fi, ti⟩ := ijToSTMin_fin_toInt i (by omega)
    have hge : (i : Int) ≤ stToIJ (ijToSTMin (i : Int)) :=
      (stToIJ_ge_iff_of_le_two _ hfin hle i h0 hi).2 ((le_iff fi fi).2 (Int.le_refl _))
    have hr := (stToIJ_range (ijToSTMin (i : Int))).2
    rcases Nat.lt_or_eq_of_le hi with hlt | heq
    · have hlt' := (stToIJ_lt_iff _ hfin hle (i + 1) (by omega) (by omega)).2
        (ijToSTMin_lt i (i + 1) (by omega) (by omega))
      push_cast at hlt'; omega
    · omega

/-- hence also through `siTiToST` : `stToIJ (siTiToST (2 i)) = i` -/
theorem stToIJ_siTiToST_double (i : Nat) (hi : i ≤ 1073741823) :
    stToIJ (siTiToST (2 * i)) = (i : Int) := by
  rw [siTiToST_double i (by omega)]; exact stToIJ_ijToSTMin i hi


example : stToIJ (siTiToST (2 * 715827883)) = 715827883 := stToIJ_siTiToST_double 715827883 (by decide)

end Part3

end S2Proofs.C12ST

#print axioms S2Proofs.C12ST.ijToSTMin_pack
#print axioms S2Proofs.C12ST.siTiToST_double
#print axioms S2Proofs.C12ST.ijToSTMin_fin_toInt
#print axioms S2Proofs.C12ST.ijToSTMin_lt
#print axioms S2Proofs.C12ST.signBit_mul_true
#print axioms S2Proofs.C12ST.roundNE_subn
#print axioms S2Proofs.C12ST.mul_fMaxSize_pos
#print axioms S2Proofs.C12ST.toIntTrunc_floor_pos
#print axioms S2Proofs.C12ST.stToIJ_ge_iff_of_le_two
#print axioms S2Proofs.C12ST.stToIJ_ge_iff
#print axioms S2Proofs.C12ST.stToIJ_ge_iff_false_huge
#print axioms S2Proofs.C12ST.stToIJ_lt_iff
#print axioms S2Proofs.C12ST.stToIJ_eq_iff
#print axioms S2Proofs.C12ST.stToIJ_ijToSTMin
#print axioms S2Proofs.C12ST.stToIJ_siTiToST_double
