/-
  S2Proofs.C12.HilbertSpec — digit-by-digit specification of `S2.Hilbert.faceIJOrientation`.

  `stepSpec` is one level of the Hilbert recursion (state = (i, j, orientation), digit = child
  position), `prefixState x k` the state after the first `k` base-4 digits of the position bits
  of `x`.  Main theorem `faceIJOrientation_cell`: the value of the table-driven
  `faceIJOrientation` on every cell of every level, in terms of `prefixState`.

  The 1024-entry table `lookupIJ` is never evaluated as an `Array` by the kernel: we show that
  `initLookupCell` performs a list of writes (`allLeaves`), check that list in one pass against a
  packed `Nat` literal (`packedIJ`), and check the packed literal against `stepSpec`.
-/
import S2.Hilbert
import S2Proofs.CellIDLemmas
import Mathlib.Tactic.Ring
open S2 S2.CellID S2.Hilbert
namespace S2Proofs.C12H

def stepSpec (st : Nat × Nat × Nat) (d : Nat) : Nat × Nat × Nat :=
  (2 * st.1 + (posToIJ[st.2.2]![d]! >>> 1), 2 * st.2.1 + (posToIJ[st.2.2]![d]! &&& 1),
   st.2.2 ^^^ posToOrientation[d]!)
def digit (x : CellID) (t : Nat) : Nat := (x.toNat >>> (59 - 2 * t)) &&& 3
def prefixState (x : CellID) (k : Nat) : Nat × Nat × Nat :=
  ((List.range k).map (digit x)).foldl stepSpec (0, 0, face x &&& 1)

/-! ### the lookup table `lookupIJ` -/

/-- the (index, value) writes into `lookupIJ` performed by `initLookupCell`, in order -/
def leavesIJ : Nat → Nat → Nat → Nat → Nat → Nat → Nat → List (Nat × Nat)
  | 0, _, i, j, origOrientation, pos, orientation =>
      [((pos <<< 2) + origOrientation, ((((i <<< lookupBits) + j) <<< 2) + orientation))]
  | fuel+1, level, i, j, origOrientation, pos, orientation =>
      if level == lookupBits then
        leavesIJ 0 level i j origOrientation pos orientation
      else
        let level := level + 1
        let i := i <<< 1
        let j := j <<< 1
        let pos := pos <<< 2
        let r := posToIJ[orientation]!
        leavesIJ fuel level (i + (r[0]! >>> 1)) (j + (r[0]! &&& 1)) origOrientation pos (orientation ^^^ posToOrientation[0]!) ++
        (leavesIJ fuel level (i + (r[1]! >>> 1)) (j + (r[1]! &&& 1)) origOrientation (pos+1) (orientation ^^^ posToOrientation[1]!) ++
        (leavesIJ fuel level (i + (r[2]! >>> 1)) (j + (r[2]! &&& 1)) origOrientation (pos+2) (orientation ^^^ posToOrientation[2]!) ++
        leavesIJ fuel level (i + (r[3]! >>> 1)) (j + (r[3]! &&& 1)) origOrientation (pos+3) (orientation ^^^ posToOrientation[3]!)))

def writeAll (a : Array Nat) (l : List (Nat × Nat)) : Array Nat :=
  l.foldl (fun a kv => a.setIfInBounds kv.1 kv.2) a

theorem init_snd (fuel level i j oo pos o : Nat) (t : Tables) :
    (initLookupCell fuel level i j oo pos o t).2 = writeAll t.2 (leavesIJ fuel level i j oo pos o) := by
  induction fuel generalizing level i j pos o t with
  | zero => obtain ⟨lp, lij⟩ := t; simp [initLookupCell, leavesIJ, writeAll]
  | succ fuel ih =>
    obtain ⟨lp, lij⟩ := t
    unfold initLookupCell leavesIJ
    split
    · simp [initLookupCell, leavesIJ, writeAll]
    · simp only [ih, writeAll, List.foldl_append]

def allLeaves : List (Nat × Nat) :=
  leavesIJ 5 0 0 0 0 0 0 ++ (leavesIJ 5 0 0 0 swapMask 0 swapMask ++ (leavesIJ 5 0 0 0 invertMask 0 invertMask ++
    leavesIJ 5 0 0 0 (swapMask ||| invertMask) 0 (swapMask ||| invertMask)))

theorem lookupIJ_eq : lookupIJ = writeAll (Array.replicate 1024 0) allLeaves := by
  unfold lookupIJ tables
  simp only [init_snd, writeAll, allLeaves, List.foldl_append]

def lastWrite (q : Nat) (l : List (Nat × Nat)) (d : Nat) : Nat :=
  l.foldl (fun acc kv => if kv.1 = q then kv.2 else acc) d

theorem writeAll_get (l : List (Nat × Nat)) (a : Array Nat) (q : Nat) (hq : q < a.size) :
    (writeAll a l)[q]! = lastWrite q l a[q]! := by
  induction l generalizing a with
  | nil => rfl
  | cons kv l ih =>
    unfold writeAll lastWrite
    simp only [List.foldl_cons]
    have := ih (a.setIfInBounds kv.1 kv.2) (by simpa using hq)
    unfold writeAll lastWrite at this
    rw [this]
    congr 1
    simp only [getElem!_pos, hq, Array.size_setIfInBounds, Array.getElem_setIfInBounds]
    

theorem lookupIJ_get (q : Nat) (hq : q < 1024) : lookupIJ[q]! = lastWrite q allLeaves 0 := by
  rw [lookupIJ_eq, writeAll_get _ _ _ (by simpa using hq)]
  simp [hq]

def packedIJ : Nat := 33151963907037673450509151623455057811648632020770872100931869007587491849819550234583748573155440532171748334008177211292171191504841981388140072789914217465747324091043202292665130098616405028545477043046198139974150587066066698509102367610823478610691461358213632853167645004132935516226233157073970235602375432034490537784681221070064426985584586009151657249692375803955699769622157249782012801370698261073003860711482502836575044904487765544512169589110129316146962579872705616905800329705794012584016881511904292383686341067056223780146535717230513845447226670242995475782673571666862934963311543588750767578829449787415379680885130062156498976904294855734333876940241455034718227023143461507504826679901487438132195369310707955283741591685897970807166744207422003402390066921662971048785816123459493163772025477326643666737530652334340541245392180306170229172991406366518254780604949655906087042388221033442390520848341083500400972855521976634875304826257521350708299753015271224165791038458754332980101990645724915076972983415920237286315572994259817164934760258067180754766723586482927785991962454634411669813814618045117309187958806229143028673567036501193398699325064823524279872919245503122912256049531809908556657519668337701335740690040138001460249857486612306016183383258025760219060515002306601559243598751424670432842628152055065627520213393577181980968026402791864602283683588149847575507857129921836486981833595947758044711927822451829020636608012563278958613507268136359000173019111374230430463647136189169181553059382652000735663418725052184790229797648323681760050316455688108031056981376300835401181024015012995151450606208127977828997329098627501895788382402649355632950714821848147709442345794840877527307036359222125084507409136385305382610761451173355719943154079201522781473849040670457798825748898057620638641076618674788949830498857243059109712253447291443613804861692413550543577812119775398384511573788570930138137129524019360622443426024597216274173411206348660095807775336087138653251850829679000977916889954130086383894475849111020111692348604832398150591506855021222355386629041196825024044642196941621383605674440356271211307727346173348145763344278391631509347945416418174374607471556299851536417488876156144910888477307292257490046413371040679431069288630073544069256868236401083424381082987936054261617946544257917864068891128189386270187202713141188822939475742217824174014317670613187340636676509786376018112155789416471783820935344617525380665793945829838355001186931966358640861135833735525861433907703706561223261601155488507757683564326693549587856978735994452690410953490241014118901939178770837735247365569225402910118683897690593880340331517003769380779746149977878542884381354025057186371192765426903728765253032641644937523303427784645911143359553241149418181325438341417785538099275173814091284603128360425292562933295205633458702038794192659265250489466828717388755543461555304620170683709856403349075949859661714168512497583962211458015791102282707245300709222659704815373168595412293003663999353198598342035452273455261261235200

def chk : List (Nat × Nat) → Nat → Bool
  | [], n => n == 1024
  | kv :: l, n => (kv.1 == 4 * (n % 256) + n / 256) && (kv.2 == (packedIJ >>> (10 * kv.1)) &&& 1023) && chk l (n + 1)

theorem chk_all : chk allLeaves 0 = true := by decide +kernel

theorem table_packed : ∀ o < 4, ∀ c < 256,
  (fun r => (r >>> 6, (r >>> 2) &&& 15, r &&& 3)) ((packedIJ >>> (10 * (o + (c <<< 2)))) &&& 1023)
    = [c >>> 6 &&& 3, c >>> 4 &&& 3, c >>> 2 &&& 3, c &&& 3].foldl stepSpec (0,0,o) := by
  decide +kernel
/-! ### digits and prefix states -/

theorem digit_eq (x : CellID) (t : Nat) : digit x t = x.toNat / 2 ^ (59 - 2 * t) % 4 := by
  unfold digit
  rw [Nat.shiftRight_eq_div_pow]
  exact Nat.and_two_pow_sub_one_eq_mod _ 2

theorem digit_lt (x : CellID) (t : Nat) : digit x t < 4 := by
  rw [digit_eq]; omega

theorem stepSpec_two (i j o : Nat) (ho : o < 4) :
    stepSpec (i, j, o) 2 = (2 * i + (if o < 2 then 1 else 0), 2 * j + (if o < 2 then 1 else 0), o) := by
  interval_cases o <;> simp [stepSpec, posToIJ, posToOrientation]

theorem stepSpec_zero (i j o : Nat) (ho : o < 4) :
    stepSpec (i, j, o) 0 = (2 * i + (if o < 2 then 0 else 1), 2 * j + (if o < 2 then 0 else 1), o ^^^ 1) := by
  interval_cases o <;> simp [stepSpec, posToIJ, posToOrientation]

theorem stepSpec_bounds (st : Nat × Nat × Nat) (d n : Nat) (ho : st.2.2 < 4) (hd : d < 4)
    (hi : st.1 < 2 ^ n) (hj : st.2.1 < 2 ^ n) :
    (stepSpec st d).1 < 2 ^ (n + 1) ∧ (stepSpec st d).2.1 < 2 ^ (n + 1) ∧ (stepSpec st d).2.2 < 4 := by
  obtain ⟨i, j, o⟩ := st
  simp only at ho hi hj
  rw [Nat.pow_succ]
  interval_cases o <;> interval_cases d <;> simp [stepSpec, posToIJ, posToOrientation] <;> omega

theorem prefixState_succ (x : CellID) (k : Nat) :
    prefixState x (k + 1) = stepSpec (prefixState x k) (digit x k) := by
  unfold prefixState
  rw [List.range_succ, List.map_append, List.foldl_append]
  rfl

theorem prefixState_zero (x : CellID) : prefixState x 0 = (0, 0, face x &&& 1) := rfl

theorem prefixState_bounds (x : CellID) (k : Nat) :
    (prefixState x k).1 < 2 ^ k ∧ (prefixState x k).2.1 < 2 ^ k ∧ (prefixState x k).2.2 < 4 := by
  induction k with
  | zero =>
    rw [prefixState_zero]
    refine ⟨by simp, by simp, ?_⟩
    show face x &&& 1 < 4
    have := Nat.and_two_pow_sub_one_eq_mod (face x) 1
    simp only [Nat.pow_one, Nat.reduceSub] at this
    omega
  | succ k ih =>
    rw [prefixState_succ]
    exact stepSpec_bounds _ _ k ih.2.2 (digit_lt x k) ih.1 ih.2.1


/-- one step at most doubles-plus-one each coordinate -/
theorem stepSpec_fst (st : Nat × Nat × Nat) (d : Nat) (ho : st.2.2 < 4) (hd : d < 4) :
    (2 * st.1 ≤ (stepSpec st d).1 ∧ (stepSpec st d).1 ≤ 2 * st.1 + 1) ∧
    (2 * st.2.1 ≤ (stepSpec st d).2.1 ∧ (stepSpec st d).2.1 ≤ 2 * st.2.1 + 1) := by
  obtain ⟨i, j, o⟩ := st
  simp only at ho
  interval_cases o <;> interval_cases d <;> simp [stepSpec, posToIJ, posToOrientation]

theorem prefixState_mono_add (x : CellID) (k n : Nat) :
    (prefixState x k).1 * 2 ^ n ≤ (prefixState x (k + n)).1 ∧
    (prefixState x (k + n)).1 < ((prefixState x k).1 + 1) * 2 ^ n ∧
    (prefixState x k).2.1 * 2 ^ n ≤ (prefixState x (k + n)).2.1 ∧
    (prefixState x (k + n)).2.1 < ((prefixState x k).2.1 + 1) * 2 ^ n := by
  induction n with
  | zero => simp
  | succ n ih =>
    rw [← Nat.add_assoc, prefixState_succ]
    have hs := stepSpec_fst (prefixState x (k + n)) (digit x (k + n))
      (prefixState_bounds x (k + n)).2.2 (digit_lt x _)
    generalize (stepSpec (prefixState x (k + n)) (digit x (k + n))) = s at hs
    generalize prefixState x (k + n) = p at ih hs
    generalize prefixState x k = q at ih
    have e1 : q.1 * 2 ^ (n + 1) = 2 * (q.1 * 2 ^ n) := by rw [Nat.pow_succ]; ring
    have e2 : (q.1 + 1) * 2 ^ (n + 1) = 2 * ((q.1 + 1) * 2 ^ n) := by rw [Nat.pow_succ]; ring
    have e3 : q.2.1 * 2 ^ (n + 1) = 2 * (q.2.1 * 2 ^ n) := by rw [Nat.pow_succ]; ring
    have e4 : (q.2.1 + 1) * 2 ^ (n + 1) = 2 * ((q.2.1 + 1) * 2 ^ n) := by rw [Nat.pow_succ]; ring
    rw [e1, e2, e3, e4]
    omega

/-- a descendant's full (i,j) lies in the ancestor's ij-square -/
theorem prefixState_mono (x : CellID) (k m : Nat) (hkm : k ≤ m) :
    (prefixState x k).1 * 2 ^ (m - k) ≤ (prefixState x m).1 ∧ (prefixState x m).1 < ((prefixState x k).1 + 1) * 2 ^ (m - k) ∧
    (prefixState x k).2.1 * 2 ^ (m - k) ≤ (prefixState x m).2.1 ∧ (prefixState x m).2.1 < ((prefixState x k).2.1 + 1) * 2 ^ (m - k) := by
  have := prefixState_mono_add x k (m - k)
  rwa [show k + (m - k) = m by omega] at this

/-- the first `k` digits and the face only depend on the bits above position `61 - 2k` -/
theorem digit_congr {x y : CellID} {k t : Nat} (hk : k ≤ 30) (ht : t < k)
    (h : x.toNat / 2 ^ (61 - 2 * k) = y.toNat / 2 ^ (61 - 2 * k)) : digit x t = digit y t := by
  rw [digit_eq, digit_eq]
  have e : 59 - 2 * t = (61 - 2 * k) + (59 - 2 * t - (61 - 2 * k)) := by omega
  rw [e, Nat.pow_add, ← Nat.div_div_eq_div_mul, ← Nat.div_div_eq_div_mul, h]

theorem face_congr {x y : CellID} {k : Nat} (hk : k ≤ 30)
    (h : x.toNat / 2 ^ (61 - 2 * k) = y.toNat / 2 ^ (61 - 2 * k)) : face x = face y := by
  rw [face_toNat, face_toNat]
  have e : 61 = (61 - 2 * k) + 2 * k := by omega
  rw [e, Nat.pow_add, ← Nat.div_div_eq_div_mul, ← Nat.div_div_eq_div_mul]
  rw [h]

theorem prefixState_congr {x y : CellID} {k : Nat} (hk : k ≤ 30)
    (h : x.toNat / 2 ^ (61 - 2 * k) = y.toNat / 2 ^ (61 - 2 * k)) : prefixState x k = prefixState y k := by
  unfold prefixState
  rw [face_congr hk h]
  congr 1
  apply List.map_congr_left
  intro t ht
  exact digit_congr hk (List.mem_range.mp ht) h

/-- an ancestor has the same prefix -/
theorem prefixState_parent {y : CellID} {j k : Nat} (hy : IsCell y j) (hk : k ≤ j) :
    prefixState (parent y k) k = prefixState y k := by
  have hj := hy.k_le
  have hk30 : k ≤ 30 := by omega
  apply prefixState_congr hk30
  rw [parent_toNat y k hk30]
  interval_cases k <;> cell_omega

theorem prefixState_child {x : CellID} {k pos : Nat} (h : IsCell x k) (hk : k < 30) (hp : pos < 4) :
    prefixState (child x pos) (k + 1) = stepSpec (prefixState x k) pos := by
  have e := h.child_toNat hk hp
  obtain ⟨_, hf, hlow⟩ := h
  rw [prefixState_succ]
  have h1 : prefixState (child x pos) k = prefixState x k := by
    apply prefixState_congr (by omega)
    rw [e]
    interval_cases k <;> cell_omega
  have h2 : digit (child x pos) k = pos := by
    rw [digit_eq, e]
    interval_cases k <;> cell_omega
  rw [h1, h2]

/-! ### `lookupIJ` against the packed literal -/

def gIJ (q : Nat) : Nat := (packedIJ >>> (10 * q)) &&& 1023

theorem lastWrite_cons (q : Nat) (kv : Nat × Nat) (l : List (Nat × Nat)) (d : Nat) :
    lastWrite q (kv :: l) d = lastWrite q l (if kv.1 = q then kv.2 else d) := rfl

theorem lastWrite_of_consistent (g : Nat → Nat) (q : Nat) (l : List (Nat × Nat)) (d : Nat)
    (hg : ∀ kv ∈ l, kv.2 = g kv.1) :
    lastWrite q l d = g q ∨ (lastWrite q l d = d ∧ ∀ kv ∈ l, kv.1 ≠ q) := by
  induction l generalizing d with
  | nil => right; exact ⟨rfl, by simp⟩
  | cons kv l ih =>
    rw [lastWrite_cons]
    have hg' : ∀ kv ∈ l, kv.2 = g kv.1 := fun kv h => hg kv (List.mem_cons_of_mem _ h)
    rcases ih (if kv.1 = q then kv.2 else d) hg' with h | ⟨h, hn⟩
    · left; exact h
    · by_cases hq : kv.1 = q
      · left; rw [h, if_pos hq, hg kv (List.mem_cons_self), hq]
      · right
        refine ⟨by rw [h, if_neg hq], ?_⟩
        intro kv' hkv'
        rcases List.mem_cons.mp hkv' with rfl | h'
        · exact hq
        · exact hn _ h'

theorem chk_spec (l : List (Nat × Nat)) (n : Nat) (h : chk l n = true) :
    (∀ kv ∈ l, kv.2 = gIJ kv.1) ∧
      ∀ m, n ≤ m → m < 1024 → ∃ kv ∈ l, kv.1 = 4 * (m % 256) + m / 256 := by
  induction l generalizing n with
  | nil =>
    simp only [chk, beq_iff_eq] at h
    exact ⟨by simp, fun m h1 h2 => by omega⟩
  | cons kv l ih =>
    simp only [chk, Bool.and_eq_true, beq_iff_eq] at h
    obtain ⟨⟨h1, h2⟩, h3⟩ := h
    obtain ⟨ih1, ih2⟩ := ih (n + 1) h3
    refine ⟨?_, ?_⟩
    · intro kv' hkv'
      rcases List.mem_cons.mp hkv' with rfl | h'
      · exact h2
      · exact ih1 _ h'
    · intro m hm1 hm2
      by_cases hmn : m = n
      · subst hmn; exact ⟨kv, List.mem_cons_self, h1⟩
      · obtain ⟨kv', hkv', e⟩ := ih2 m (by omega) hm2
        exact ⟨kv', List.mem_cons_of_mem _ hkv', e⟩

theorem lookupIJ_val (q : Nat) (hq : q < 1024) : lookupIJ[q]! = gIJ q := by
  rw [lookupIJ_get q hq]
  obtain ⟨h1, h2⟩ := chk_spec allLeaves 0 chk_all
  rcases lastWrite_of_consistent gIJ q allLeaves 0 h1 with h | ⟨_, hn⟩
  · exact h
  · exfalso
    obtain ⟨kv, hkv, e⟩ := h2 (256 * (q % 4) + q / 4) (by omega) (by omega)
    apply hn kv hkv
    rw [e]; omega

/-- TABLE LEMMA: one 8-bit chunk of `lookupIJ` is four steps of the Hilbert recursion -/
theorem lookupIJ_spec (o c : Nat) (ho : o < 4) (hc : c < 256) :
    (lookupIJ[o + (c <<< 2)]! >>> 6, (lookupIJ[o + (c <<< 2)]! >>> 2) &&& 15, lookupIJ[o + (c <<< 2)]! &&& 3)
      = [c >>> 6 &&& 3, c >>> 4 &&& 3, c >>> 2 &&& 3, c &&& 3].foldl stepSpec (0, 0, o) := by
  rw [lookupIJ_val _ (by rw [Nat.shiftLeft_eq]; omega)]
  exact table_packed o ho c hc

/-! ### LEMMA L: the table-driven loop is the 30-digit fold -/

/-- the step function inside `faceIJOrientation`, verbatim -/
def chunkStep (ci : CellID) (st : Nat × Nat × Nat) (k : Nat) : Nat × Nat × Nat :=
    let (i, j, orientation) := st
    let nbits := if k == 7 then maxLevel - 7 * lookupBits else lookupBits
    let orientation := orientation +
      ((((ci >>> UInt64.ofNat (k * 2 * lookupBits + 1)).toNat) &&& ((1 <<< (2 * nbits)) - 1)) <<< 2)
    let orientation := lookupIJ[orientation]!
    let i := i + ((orientation >>> (lookupBits + 2)) <<< (k * lookupBits))
    let j := j + (((orientation >>> 2) &&& ((1 <<< lookupBits) - 1)) <<< (k * lookupBits))
    (i, j, orientation &&& (swapMask ||| invertMask))

theorem faceIJOrientation_eq_fold (x : CellID) :
    faceIJOrientation x =
      (face x, ([7,6,5,4,3,2,1,0].foldl (chunkStep x) (0, 0, face x &&& swapMask)).1,
       ([7,6,5,4,3,2,1,0].foldl (chunkStep x) (0, 0, face x &&& swapMask)).2.1,
       if lsb x &&& 0x1111111111111110 != 0 then
         ([7,6,5,4,3,2,1,0].foldl (chunkStep x) (0, 0, face x &&& swapMask)).2.2 ^^^ swapMask
       else ([7,6,5,4,3,2,1,0].foldl (chunkStep x) (0, 0, face x &&& swapMask)).2.2) := rfl

set_option linter.unusedSimpArgs false in
theorem chunkStep_lo (x : CellID) (I J o k : Nat) (hk : k ≤ 6) :
    chunkStep x (I, J, o) k =
      (I + (lookupIJ[o + ((x.toNat / 2 ^ (8 * k + 1) % 256) <<< 2)]! >>> 6) * 2 ^ (4 * k),
       J + ((lookupIJ[o + ((x.toNat / 2 ^ (8 * k + 1) % 256) <<< 2)]! >>> 2) &&& 15) * 2 ^ (4 * k),
       lookupIJ[o + ((x.toNat / 2 ^ (8 * k + 1) % 256) <<< 2)]! &&& 3) := by
  have h255 : ∀ n : Nat, n &&& 255 = n % 256 := fun n => Nat.and_two_pow_sub_one_eq_mod n 8
  interval_cases k <;>
    simp only [chunkStep, lookupBits, maxLevel, swapMask, invertMask, Nat.reduceMul, Nat.reduceAdd,
      Nat.reduceBEq, Bool.false_eq_true, ↓reduceIte, Nat.reduceSub, Nat.reduceShiftLeft, Nat.reduceOr,
      shiftRight_lit_toNat, Nat.reduceLT, h255, Nat.shiftLeft_eq _ 0, Nat.shiftLeft_eq _ 4, Nat.shiftLeft_eq _ 8,
      Nat.shiftLeft_eq _ 12, Nat.shiftLeft_eq _ 16, Nat.shiftLeft_eq _ 20, Nat.shiftLeft_eq _ 24]

set_option linter.unusedSimpArgs false in
theorem chunkStep_hi (x : CellID) (I J o : Nat) :
    chunkStep x (I, J, o) 7 =
      (I + (lookupIJ[o + ((x.toNat / 2 ^ 57 % 16) <<< 2)]! >>> 6) * 2 ^ 28,
       J + ((lookupIJ[o + ((x.toNat / 2 ^ 57 % 16) <<< 2)]! >>> 2) &&& 15) * 2 ^ 28,
       lookupIJ[o + ((x.toNat / 2 ^ 57 % 16) <<< 2)]! &&& 3) := by
  have h15 : ∀ n : Nat, n &&& 15 = n % 16 := fun n => Nat.and_two_pow_sub_one_eq_mod n 4
  simp only [chunkStep, lookupBits, maxLevel, swapMask, invertMask, Nat.reduceMul, Nat.reduceAdd,
      Nat.reduceBEq, ↓reduceIte, Nat.reduceSub, Nat.reduceShiftLeft, Nat.reduceOr,
      shiftRight_lit_toNat, Nat.reduceLT, Nat.shiftLeft_eq _ 28]
  rw [h15 (x.toNat / 2 ^ 57)]

/-- four steps starting from a shifted state -/
theorem fold4 (I J o a b c d : Nat) :
    [a, b, c, d].foldl stepSpec (I, J, o) =
      (16 * I + ([a, b, c, d].foldl stepSpec (0, 0, o)).1, 16 * J + ([a, b, c, d].foldl stepSpec (0, 0, o)).2.1,
       ([a, b, c, d].foldl stepSpec (0, 0, o)).2.2) := by
  simp only [List.foldl_cons, List.foldl_nil, stepSpec]
  refine Prod.ext ?_ (Prod.ext ?_ rfl) <;> simp only [] <;> omega

theorem prefixState_add4 (x : CellID) (k : Nat) :
    prefixState x (k + 4) =
      [digit x k, digit x (k + 1), digit x (k + 2), digit x (k + 3)].foldl stepSpec (prefixState x k) := by
  simp only [List.foldl_cons, List.foldl_nil]
  rw [← prefixState_succ, ← prefixState_succ, ← prefixState_succ, ← prefixState_succ]

/-- processing chunk `k ≤ 6` extends the prefix by four digits -/
theorem chunk_main (x : CellID) (k : Nat) (hk : k ≤ 6) :
    chunkStep x ((prefixState x (26 - 4 * k)).1 * 2 ^ (4 * k + 4), (prefixState x (26 - 4 * k)).2.1 * 2 ^ (4 * k + 4),
        (prefixState x (26 - 4 * k)).2.2) k =
      ((prefixState x (30 - 4 * k)).1 * 2 ^ (4 * k), (prefixState x (30 - 4 * k)).2.1 * 2 ^ (4 * k),
        (prefixState x (30 - 4 * k)).2.2) := by
  have ho := (prefixState_bounds x (26 - 4 * k)).2.2
  have hc : x.toNat / 2 ^ (8 * k + 1) % 256 < 256 := Nat.mod_lt _ (by omega)
  have ht := lookupIJ_spec _ _ ho hc
  rw [chunkStep_lo x _ _ _ k hk]
  have e30 : 30 - 4 * k = (26 - 4 * k) + 4 := by omega
  rw [e30, prefixState_add4, fold4]
  have hd : [(x.toNat / 2 ^ (8 * k + 1) % 256) >>> 6 &&& 3, (x.toNat / 2 ^ (8 * k + 1) % 256) >>> 4 &&& 3,
       (x.toNat / 2 ^ (8 * k + 1) % 256) >>> 2 &&& 3, (x.toNat / 2 ^ (8 * k + 1) % 256) &&& 3] =
      [digit x (26 - 4 * k), digit x (26 - 4 * k + 1), digit x (26 - 4 * k + 2), digit x (26 - 4 * k + 3)] := by
    have h3 : ∀ n : Nat, n &&& 3 = n % 4 := fun n => Nat.and_two_pow_sub_one_eq_mod n 2
    simp only [digit_eq, h3, Nat.shiftRight_eq_div_pow]
    interval_cases k <;> simp only [Nat.reducePow, Nat.reduceMul, Nat.reduceSub, Nat.reduceAdd] <;>
      (congr 1; omega; congr 1; omega; congr 1; omega; congr 1; omega)
  rw [hd] at ht
  rw [← ht]
  simp only
  have e4 : 2 ^ (4 * k + 4) = 16 * 2 ^ (4 * k) := by rw [Nat.pow_succ, Nat.pow_succ, Nat.pow_succ, Nat.pow_succ]; ring
  rw [e4]
  refine Prod.ext ?_ (Prod.ext ?_ rfl) <;> simp only [] <;> ring


/-- the first chunk (4 bits) gives the first two digits -/
theorem chunk_first (x : CellID) :
    chunkStep x (0, 0, face x &&& swapMask) 7 =
      ((prefixState x 2).1 * 2 ^ 28, (prefixState x 2).2.1 * 2 ^ 28, (prefixState x 2).2.2) := by
  have ho : face x &&& swapMask < 2 := by
    have := Nat.and_two_pow_sub_one_eq_mod (face x) 1
    simp only [Nat.pow_one, Nat.reduceSub] at this
    simp only [swapMask]; omega
  have hc : x.toNat / 2 ^ 57 % 16 < 256 := by omega
  have ht := lookupIJ_spec _ _ (by omega : face x &&& swapMask < 4) hc
  rw [chunkStep_hi]
  have hd : [(x.toNat / 2 ^ 57 % 16) >>> 6 &&& 3, (x.toNat / 2 ^ 57 % 16) >>> 4 &&& 3,
       (x.toNat / 2 ^ 57 % 16) >>> 2 &&& 3, (x.toNat / 2 ^ 57 % 16) &&& 3] = [0, 0, digit x 0, digit x 1] := by
    have h3 : ∀ n : Nat, n &&& 3 = n % 4 := fun n => Nat.and_two_pow_sub_one_eq_mod n 2
    simp only [digit_eq, h3, Nat.shiftRight_eq_div_pow]
    simp only [Nat.reducePow, Nat.reduceMul, Nat.reduceSub]
    congr 1; omega; congr 1; omega; congr 1; omega; congr 1; omega
  rw [hd] at ht
  have e2 : prefixState x 2 = [digit x 0, digit x 1].foldl stepSpec (0, 0, face x &&& swapMask) := by
    simp only [List.foldl_cons, List.foldl_nil]
    rw [prefixState_succ, prefixState_succ]; rfl
  have h00 : ∀ o, o < 2 → [0, 0, digit x 0, digit x 1].foldl stepSpec (0, 0, o) = [digit x 0, digit x 1].foldl stepSpec (0, 0, o) := by
    intro o ho
    interval_cases o <;> rfl
  rw [e2, ← h00 _ ho, ← ht]
  simp

/-- LEMMA L: the table-driven loop computes the 30-digit fold, on every word -/
theorem chunk_fold (x : CellID) :
    [7,6,5,4,3,2,1,0].foldl (chunkStep x) (0, 0, face x &&& swapMask) = prefixState x 30 := by
  simp only [List.foldl_cons, List.foldl_nil]
  rw [chunk_first]
  have h6 := chunk_main x 6 (by omega)
  have h5 := chunk_main x 5 (by omega)
  have h4 := chunk_main x 4 (by omega)
  have h3 := chunk_main x 3 (by omega)
  have h2 := chunk_main x 2 (by omega)
  have h1 := chunk_main x 1 (by omega)
  have h0 := chunk_main x 0 (by omega)
  simp only [Nat.reduceMul, Nat.reduceSub, Nat.reduceAdd] at h6 h5 h4 h3 h2 h1 h0
  rw [h6, h5, h4, h3, h2, h1, h0]
  simp

theorem faceIJOrientation_eq (x : CellID) :
    faceIJOrientation x =
      (face x, (prefixState x 30).1, (prefixState x 30).2.1,
       if lsb x &&& 0x1111111111111110 != 0 then (prefixState x 30).2.2 ^^^ 1 else (prefixState x 30).2.2) := by
  rw [faceIJOrientation_eq_fold, chunk_fold]; rfl

/-! ### cells: trailing digits `2, 0, …, 0` -/

theorem cell_digit_self {x : CellID} {k : Nat} (h : IsCell x k) (hk : k < 30) : digit x k = 2 := by
  obtain ⟨_, hf, hlow⟩ := h
  rw [digit_eq]
  interval_cases k <;> cell_omega

theorem cell_digit_after {x : CellID} {k t : Nat} (h : IsCell x k) (hkt : k < t) (ht : t < 30) :
    digit x t = 0 := by
  have hz := h.coarser_facts t hkt (by omega)
  rw [digit_eq]
  interval_cases t <;> cell_omega

theorem xor_one_lt (o : Nat) (ho : o < 4) : o ^^^ 1 < 4 ∧ (o ^^^ 1 < 2 ↔ o < 2) ∧ (o ^^^ 1) ^^^ 1 = o := by
  interval_cases o <;> decide

/-- state after the digits `2, 0, …, 0` (`m` zeros) of a level-`k` cell -/
theorem cell_prefixState_tail {x : CellID} {k : Nat} (h : IsCell x k) (m : Nat) (hm : k + m < 30) :
    prefixState x (k + m + 1) =
      ((prefixState x k).1 * 2 ^ (m + 1) + (if (prefixState x k).2.2 < 2 then 2 ^ m else 2 ^ m - 1),
       (prefixState x k).2.1 * 2 ^ (m + 1) + (if (prefixState x k).2.2 < 2 then 2 ^ m else 2 ^ m - 1),
       if m % 2 = 0 then (prefixState x k).2.2 else (prefixState x k).2.2 ^^^ 1) := by
  have hO := (prefixState_bounds x k).2.2
  induction m with
  | zero =>
    rw [Nat.add_zero, prefixState_succ, cell_digit_self h (by omega)]
    generalize prefixState x k = p at hO ⊢
    obtain ⟨I, J, O⟩ := p
    rw [stepSpec_two I J O hO]
    simp only at hO ⊢
    refine Prod.ext ?_ (Prod.ext ?_ ?_) <;>
      simp only [Nat.zero_add, Nat.pow_one, Nat.pow_zero, Nat.sub_self, if_true]
    all_goals (split <;> omega)
  | succ m ih =>
    rw [← Nat.add_assoc, prefixState_succ, ih (by omega), cell_digit_after h (by omega) (by omega)]
    generalize prefixState x k = p at hO ⊢
    obtain ⟨I, J, O⟩ := p
    simp only at hO ⊢
    obtain ⟨h1, h2, h3⟩ := xor_one_lt O hO
    have hp := Nat.two_pow_pos m
    have e1 : I * 2 ^ (m + 1) = 2 * (I * 2 ^ m) := by rw [Nat.pow_succ]; ring
    have e2 : I * 2 ^ (m + 1 + 1) = 4 * (I * 2 ^ m) := by rw [Nat.pow_succ, Nat.pow_succ]; ring
    have e3 : J * 2 ^ (m + 1) = 2 * (J * 2 ^ m) := by rw [Nat.pow_succ]; ring
    have e4 : J * 2 ^ (m + 1 + 1) = 4 * (J * 2 ^ m) := by rw [Nat.pow_succ, Nat.pow_succ]; ring
    have e5 : 2 ^ (m + 1) = 2 * 2 ^ m := by rw [Nat.pow_succ]; ring
    rcases Nat.mod_two_eq_zero_or_one m with hm0 | hm1
    · have hm1 : (m + 1) % 2 ≠ 0 := by omega
      rw [if_pos hm0, if_neg hm1, stepSpec_zero _ _ _ hO, e1, e2, e3, e4, e5]
      refine Prod.ext ?_ (Prod.ext ?_ rfl) <;> simp only [] <;> split <;> omega
    · have hm0 : m % 2 ≠ 0 := by omega
      have hm0' : (m + 1) % 2 = 0 := by omega
      rw [if_neg hm0, if_pos hm0', stepSpec_zero _ _ _ h1, h3, e1, e2, e3, e4, e5]
      simp only [h2]
      refine Prod.ext ?_ (Prod.ext ?_ rfl) <;> simp only [] <;> split <;> omega

theorem cell_lsb_cond {x : CellID} {k : Nat} (h : IsCell x k) :
    (lsb x &&& 0x1111111111111110 != 0) = decide (k < 30 ∧ k % 2 = 0) := by
  have hl := h.lsb_eq
  have hk := h.k_le
  have e : lsb x = UInt64.ofNat (2 ^ (60 - 2 * k)) := by
    apply UInt64.toNat_inj.mp
    rw [hl, UInt64.toNat_ofNat']
    have : 2 ^ (60 - 2 * k) ≤ 2 ^ 60 := Nat.pow_le_pow_right (by omega) (by omega)
    omega
  rw [e]
  interval_cases k <;> decide

/-- MAIN: value of faceIJOrientation on every cell of every level -/
theorem faceIJOrientation_cell {x : CellID} {k : Nat} (h : IsCell x k) :
    faceIJOrientation x =
      (face x,
       (prefixState x k).1 * 2 ^ (30 - k) + (if k = 30 then 0 else if (prefixState x k).2.2 < 2 then 2 ^ (29 - k) else 2 ^ (29 - k) - 1),
       (prefixState x k).2.1 * 2 ^ (30 - k) + (if k = 30 then 0 else if (prefixState x k).2.2 < 2 then 2 ^ (29 - k) else 2 ^ (29 - k) - 1),
       (prefixState x k).2.2) := by
  have hk := h.k_le
  rw [faceIJOrientation_eq, cell_lsb_cond h]
  by_cases hk30 : k = 30
  · subst hk30
    simp
  · have ht := cell_prefixState_tail h (29 - k) (by omega)
    have e1 : k + (29 - k) + 1 = 30 := by omega
    have e2 : 29 - k + 1 = 30 - k := by omega
    rw [e1, e2] at ht
    rw [ht, if_neg hk30]
    have hO := (prefixState_bounds x k).2.2
    obtain ⟨h1, h2, h3⟩ := xor_one_lt _ hO
    refine Prod.ext rfl (Prod.ext rfl (Prod.ext rfl ?_))
    simp only []
    rcases Nat.mod_two_eq_zero_or_one k with hk0 | hk1
    · have : (29 - k) % 2 ≠ 0 := by omega
      have hc : k < 30 ∧ k % 2 = 0 := ⟨by omega, hk0⟩
      simp only [hc, this, h3, and_self, decide_true, if_true, if_false]
    · have : (29 - k) % 2 = 0 := by omega
      have hc : ¬ (k < 30 ∧ k % 2 = 0) := by omega
      simp only [hc, this, decide_false, if_true, Bool.false_eq_true, if_false]

/-! ### non-vacuity and concrete checks -/

/-- a level-14 cell on face 5 (hypothesis of `faceIJOrientation_cell` is satisfiable) -/
example : IsCell 0xb1b2d3c500000000 14 := ⟨by decide, by decide, by decide⟩
/-- a leaf (level 30) -/
example : IsCell 0x3fedcba987654321 30 := ⟨by decide, by decide, by decide⟩
/-- hypotheses of `prefixState_child` / `prefixState_parent` -/
example : IsCell 0x1000000000000000 0 ∧ 0 < 30 ∧ 3 < 4 := ⟨⟨by decide, by decide, by decide⟩, by decide, by decide⟩

end S2Proofs.C12H

#print axioms S2Proofs.C12H.faceIJOrientation_cell
#print axioms S2Proofs.C12H.prefixState_child
#print axioms S2Proofs.C12H.prefixState_bounds
#print axioms S2Proofs.C12H.prefixState_parent
#print axioms S2Proofs.C12H.prefixState_mono
#print axioms S2Proofs.C12H.faceIJOrientation_eq
