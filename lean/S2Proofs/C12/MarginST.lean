/-
  S2Proofs.C12.MarginST — value-level specifications of `uvToST` on floats in [-1,1] and of `stToUV` on the
  grid points `k / 2^30` (`g k = ijToSTMin k`), for the margin analysis of `Cell.ContainsPoint`.
-/
import S2Proofs.C12.MarginOps

set_option linter.unusedSimpArgs false
set_option linter.unusedVariables false

namespace S2Proofs.C12M
open S2 S2.STUV S2.CellM S2.Exact S2Proofs.F64Order S2Proofs.F64Inj S2Proofs.F64Round S2Proofs.C12ST

/-! ### `uvToST` -/

/-- the argument of the square root in `uvToST` -/
def tOf (u : F64) : F64 :=
  if F64.ge u (F64.zero false) then F64.one + F64.three * u else F64.one - F64.three * u

theorem uvToST_eq (u : F64) : uvToST u =
    if F64.ge u (F64.zero false) then F64.half * F64.sqrt (tOf u)
    else F64.one - F64.half * F64.sqrt (tOf u) := by
  unfold uvToST tOf; split <;> rfl

theorem ge_zero_iff (u : F64) (hu : F64Order.Fin u) : F64.ge u (F64.zero false) = true ↔ 0 ≤ val u := by
  unfold F64.ge; rw [val_le_iff fin_zero hu, val_zero]

theorem fin_negThree : F64Order.Fin (F64.neg F64.three) := by decide

theorem t_spec (u : F64) (hu : F64Order.Fin u) (h1 : -1 ≤ val u) (h2 : val u ≤ 1) :
    F64Order.Fin (tOf u) ∧ 1 ≤ val (tOf u) ∧ val (tOf u) ≤ 4 ∧
    ∃ q : ℚ, |q - 3 * (|val u|)| ≤ 2 * E ∧ |val (tOf u) - (1 + q)| ≤ 2 * E := by
  have h3 := isRound_mul fin_three hu
  rw [val_three] at h3
  have habs : |3 * val u| ≤ 3 := by rw [abs_le]; constructor <;> linarith
  obtain ⟨f3, e3⟩ := err4 h3 (by linarith)
  have hq3 : val (F64.mul F64.three u) ≤ 3 := by
    have := IsRound.le_of_le h3 f3 fin_three (by rw [val_three]; linarith)
    rwa [val_three] at this
  have hqm3 : -3 ≤ val (F64.mul F64.three u) := by
    have := IsRound.ge_of_ge h3 f3 fin_negThree (by rw [val_neg, val_three]; linarith)
    rwa [val_neg, val_three] at this
  by_cases hpos : 0 ≤ val u
  · have hb : F64.ge u (F64.zero false) = true := (ge_zero_iff u hu).2 hpos
    have hq0 : 0 ≤ val (F64.mul F64.three u) := by
      have := IsRound.ge_of_ge h3 f3 fin_zero (by rw [val_zero]; linarith)
      rwa [val_zero] at this
    have ht := isRound_add fin_one f3
    rw [val_one] at ht
    obtain ⟨ft, et⟩ := err4 ht (by rw [abs_of_nonneg (by linarith)]; linarith)
    have e : tOf u = F64.add F64.one (F64.mul F64.three u) := by unfold tOf; rw [if_pos hb]; rfl
    rw [e]
    refine ⟨ft, ?_, ?_, val (F64.mul F64.three u), ?_, et⟩
    · have := IsRound.ge_of_ge ht ft fin_one (by rw [val_one]; linarith)
      rwa [val_one] at this
    · have := IsRound.le_of_le ht ft fin_four (by rw [val_four]; linarith)
      rwa [val_four] at this
    · rw [abs_of_nonneg hpos]; exact e3
  · have hneg : val u < 0 := not_le.1 hpos
    have hb : ¬ F64.ge u (F64.zero false) = true := fun h => hpos ((ge_zero_iff u hu).1 h)
    have hq0 : val (F64.mul F64.three u) ≤ 0 := by
      have := IsRound.le_of_le h3 f3 fin_zero (by rw [val_zero]; linarith)
      rwa [val_zero] at this
    have ht := isRound_sub fin_one f3
    rw [val_one] at ht
    obtain ⟨ft, et⟩ := err4 ht (by rw [abs_of_nonneg (by linarith)]; linarith)
    have e : tOf u = F64.sub F64.one (F64.mul F64.three u) := by unfold tOf; rw [if_neg hb]; rfl
    rw [e]
    refine ⟨ft, ?_, ?_, -val (F64.mul F64.three u), ?_, ?_⟩
    · have := IsRound.ge_of_ge ht ft fin_one (by rw [val_one]; linarith)
      rwa [val_one] at this
    · have := IsRound.le_of_le ht ft fin_four (by rw [val_four]; linarith)
      rwa [val_four] at this
    · rw [abs_of_neg hneg]
      have : -val (F64.mul F64.three u) - 3 * -val u = -(val (F64.mul F64.three u) - 3 * val u) := by ring
      rw [this, abs_neg]; exact e3
    · have : (1 : ℚ) + -val (F64.mul F64.three u) = 1 - val (F64.mul F64.three u) := by ring
      rw [this]; exact et

/-- `c − 2E` and `c + 2E` as floats, `c = j/2^29` -/
theorem float_below (j : Nat) (hj1 : 2 ^ 29 ≤ j) (hj2 : j ≤ 2 ^ 30) :
    ∃ y : F64, F64Order.Fin y ∧ val y = (j : ℚ) / 2 ^ 29 - 2 * E := by
  obtain ⟨y, fy, ty⟩ := exists_float ((j * 8388608 - 1) * 2 ^ 1022) ⟨j * 8388608 - 1, 1022, by omega, rfl⟩ (by
    have g1 : (j * 8388608 - 1) * 2 ^ 1022 < 2 ^ 53 * 2 ^ 1022 :=
      Nat.mul_lt_mul_of_pos_right (by omega) (Nat.two_pow_pos _)
    have g2 : (2 : Nat) ^ 53 * 2 ^ 1022 = 2 ^ 1075 := by rw [← Nat.pow_add]
    have g3 : (2 : Nat) ^ 1075 < 2 ^ 2098 := Nat.pow_lt_pow_right (by decide) (by decide)
    omega)
  refine ⟨y, fy, ?_⟩
  unfold val U E
  rw [ty]
  have hm : ((j * 8388608 - 1 : Nat) : ℚ) = (j : ℚ) * 8388608 - 1 := by
    rw [Nat.cast_sub (by omega)]; push_cast; ring
  have hU : (2 : ℚ) ^ 1074 = 2 ^ 52 * 2 ^ 1022 := by rw [← pow_add]
  rw [hU]
  push_cast
  rw [hm]
  have hp : (0 : ℚ) < 2 ^ 1022 := by positivity
  generalize (2 : ℚ) ^ 1022 = P at *
  field_simp
  ring

theorem float_above (j : Nat) (hj1 : 2 ^ 29 ≤ j) (hj2 : j < 2 ^ 30) :
    ∃ y : F64, F64Order.Fin y ∧ val y = (j : ℚ) / 2 ^ 29 + 2 * E := by
  obtain ⟨y, fy, ty⟩ := exists_float ((j * 8388608 + 1) * 2 ^ 1022) ⟨j * 8388608 + 1, 1022, by omega, rfl⟩ (by
    have g1 : (j * 8388608 + 1) * 2 ^ 1022 < 2 ^ 53 * 2 ^ 1022 :=
      Nat.mul_lt_mul_of_pos_right (by omega) (Nat.two_pow_pos _)
    have g2 : (2 : Nat) ^ 53 * 2 ^ 1022 = 2 ^ 1075 := by rw [← Nat.pow_add]
    have g3 : (2 : Nat) ^ 1075 < 2 ^ 2098 := Nat.pow_lt_pow_right (by decide) (by decide)
    omega)
  refine ⟨y, fy, ?_⟩
  unfold val U E
  rw [ty]
  have hU : (2 : ℚ) ^ 1074 = 2 ^ 52 * 2 ^ 1022 := by rw [← pow_add]
  rw [hU]
  push_cast
  have hp : (0 : ℚ) < 2 ^ 1022 := by positivity
  generalize (2 : ℚ) ^ 1022 = P at *
  field_simp
  ring

theorem pos_of_val_pos {t : F64} (h : 0 < val t) : t.signBit = false ∧ t.isZero = false := by
  have ht : 0 < toInt t := by
    unfold val at h
    have := mul_pos h U_pos
    rw [div_mul_cancel₀ _ (ne_of_gt U_pos)] at this
    exact_mod_cast this
  constructor
  · by_contra hc
    have hs : t.signBit = true := by simpa using hc
    rw [toInt_eq_mag, hs] at ht
    simp only [if_true] at ht
    omega
  · by_contra hc
    have hz : t.isZero = true := by simpa using hc
    rw [toInt_isZero hz] at ht
    omega

theorem r_spec (t : F64) (ht : F64Order.Fin t) (h1 : 1 ≤ val t) (h4 : val t ≤ 4) :
    F64Order.Fin (F64.sqrt t) ∧ 1 ≤ val (F64.sqrt t) ∧ val (F64.sqrt t) ≤ 2 ∧
    (∀ j : Nat, 2 ^ 29 ≤ j → j ≤ 2 ^ 30 → (j : ℚ) / 2 ^ 29 ≤ val (F64.sqrt t) →
      ((j : ℚ) / 2 ^ 29 - E) * ((j : ℚ) / 2 ^ 29 - E) ≤ val t) ∧
    (∀ j : Nat, 2 ^ 29 ≤ j → j ≤ 2 ^ 30 → val (F64.sqrt t) ≤ (j : ℚ) / 2 ^ 29 →
      val t ≤ ((j : ℚ) / 2 ^ 29 + E) * ((j : ℚ) / 2 ^ 29 + E)) := by
  obtain ⟨hs, h0⟩ := pos_of_val_pos (t := t) (by linarith)
  obtain ⟨fr, r0, hall⟩ := sqrt_spec ht hs h0
  have hE := E_pos
  have hE1 := E_le
  have hr1 : 1 ≤ val (F64.sqrt t) := by
    by_contra hc
    have hlt : val (F64.sqrt t) < val F64.one := by rw [val_one]; exact not_le.1 hc
    have := (hall F64.one (by rw [val_one]; norm_num)).2 hlt
    rw [val_one] at this hlt
    nlinarith
  have hr2 : val (F64.sqrt t) ≤ 2 := by
    by_contra hc
    have hlt : val F64.two < val (F64.sqrt t) := by rw [val_two]; exact not_le.1 hc
    have := (hall F64.two (by rw [val_two]; norm_num)).1 hlt
    rw [val_two] at this hlt
    nlinarith
  refine ⟨fr, hr1, hr2, ?_, ?_⟩
  · intro j hj1 hj2 hc
    obtain ⟨y, fy, vy⟩ := float_below j hj1 hj2
    have hjq1 : (2 : ℚ) ^ 29 ≤ j := by exact_mod_cast hj1
    have hc1 : (1 : ℚ) ≤ (j : ℚ) / 2 ^ 29 := by rw [le_div_iff₀ (by positivity)]; linarith
    have hy0 : 0 ≤ val y := by rw [vy]; linarith
    have hlt : val y < val (F64.sqrt t) := by rw [vy]; linarith
    have := (hall y hy0).1 hlt
    rw [vy] at this
    generalize (j : ℚ) / 2 ^ 29 = c at *
    generalize val (F64.sqrt t) = r at *
    nlinarith
  · intro j hj1 hj2 hc
    have hjq1 : (2 : ℚ) ^ 29 ≤ j := by exact_mod_cast hj1
    have hc1 : (1 : ℚ) ≤ (j : ℚ) / 2 ^ 29 := by rw [le_div_iff₀ (by positivity)]; linarith
    rcases Nat.lt_or_eq_of_le hj2 with hlt2 | heq
    · obtain ⟨y, fy, vy⟩ := float_above j hj1 hlt2
      have hy0 : 0 ≤ val y := by rw [vy]; linarith
      have hlt : val (F64.sqrt t) < val y := by rw [vy]; linarith
      have := (hall y hy0).2 hlt
      rw [vy] at this
      generalize (j : ℚ) / 2 ^ 29 = c at *
      generalize val (F64.sqrt t) = r at *
      nlinarith
    · have hc2 : (j : ℚ) / 2 ^ 29 = 2 := by rw [heq]; norm_num
      rw [hc2]
      nlinarith

theorem toInt_pos_ge {x : F64} {n : Nat} (hx : F64Order.Fin x) (y : F64) (hy : F64Order.Fin y)
    (hty : toInt y = 2 ^ n) (h : val y ≤ val x) : (2 : Int) ^ n ≤ toInt x := by
  have := (le_iff hy hx).1 ((val_le_iff hy hx).2 h)
  rwa [hty] at this

/-- `0.5 · r` is exact for `r ≥ 1` -/
theorem half_mul_exact (r : F64) (hr : F64Order.Fin r) (h1 : 1 ≤ val r) :
    F64Order.Fin (F64.half * r) ∧ val (F64.half * r) = val r / 2 := by
  have t1 : (2 : Int) ^ 1074 ≤ toInt r :=
    toInt_pos_ge hr F64.one fin_one S2Proofs.F64Round.toInt_one (by rw [val_one]; exact h1)
  obtain ⟨n, hn⟩ := toInt_dvd_of_le r 1074 (by decide) (by rw [abs_of_nonneg (by omega)]; exact t1)
  simp only [show 1074 - 52 = 1022 from rfl] at hn
  have hev : mag r % 2 = 0 := by
    rw [← natAbs_toInt, hn, natAbs_mul_two_pow]
    have : (2 : Nat) ^ 1022 = 2 ^ 1021 * 2 := by rw [← Nat.pow_succ]
    rw [this, ← Nat.mul_assoc]
    exact Nat.mul_mod_left _ _
  obtain ⟨fh, th⟩ := half_exact hr hev
  refine ⟨fh, ?_⟩
  have : (2 : ℚ) * (toInt (F64.mul F64.half r) : ℚ) = (toInt r : ℚ) := by exact_mod_cast th
  show val (F64.mul F64.half r) = val r / 2
  unfold val
  rw [← this]; ring

/-- `1 − h` is exact for `1/2 ≤ h ≤ 1` -/
theorem one_sub_half_exact (h : F64) (hh : F64Order.Fin h) (h1 : 1 / 2 ≤ val h) (h2 : val h ≤ 1) :
    F64Order.Fin (F64.one - h) ∧ val (F64.one - h) = 1 - val h := by
  have t1 : (2 : Int) ^ 1073 ≤ toInt h := by
    have hty : toInt F64.half = 2 ^ 1073 := by decide +kernel
    exact toInt_pos_ge hh F64.half fin_half hty (by rw [val_half]; exact h1)
  have t2 : toInt h ≤ 2 ^ 1074 := by
    have := (le_iff hh fin_one).1 ((val_le_iff hh fin_one).2 (by rw [val_one]; exact h2))
    rwa [S2Proofs.F64Round.toInt_one] at this
  obtain ⟨n, hn⟩ := toInt_dvd_of_le h 1073 (by decide) (by rw [abs_of_nonneg (by omega)]; exact t1)
  simp only [show 1073 - 52 = 1021 from rfl] at hn
  have p1 : (2 : Int) ^ 1073 = 2 ^ 52 * 2 ^ 1021 := by rw [← pow_add]
  have p2 : (2 : Int) ^ 1074 = 2 ^ 53 * 2 ^ 1021 := by rw [← pow_add]
  have hP : (0 : Int) < 2 ^ 1021 := by positivity
  rw [hn, p1] at t1
  rw [hn, p2] at t2
  have hn1 : 2 ^ 52 ≤ n := le_of_mul_le_mul_right t1 hP
  have hn2 : n ≤ 2 ^ 53 := le_of_mul_le_mul_right t2 hP
  have e : toInt F64.one - toInt h = (2 ^ 53 - n) * 2 ^ 1021 := by
    rw [S2Proofs.F64Round.toInt_one, hn, p2]; ring
  have := sub_exact fin_one hh (by rw [e]; exact rep_mul_two_pow _ _ (by omega)) (by
    rw [e, natAbs_mul_two_pow]
    have g1 : (2 ^ 53 - n).natAbs * 2 ^ 1021 < 2 ^ 53 * 2 ^ 1021 :=
      Nat.mul_lt_mul_of_pos_right (by omega) (Nat.two_pow_pos _)
    have g2 : (2 : Nat) ^ 53 * 2 ^ 1021 = 2 ^ 1074 := by rw [← Nat.pow_add]
    have g3 : (2 : Nat) ^ 1074 < 2 ^ 2098 := Nat.pow_lt_pow_right (by decide) (by decide)
    omega)
  rwa [val_one] at this

/-- **value of `uvToST`** on a finite float in [-1,1], in terms of `r = fl(√(tOf u))` -/
theorem uvToST_spec (u : F64) (hu : F64Order.Fin u) (h1 : -1 ≤ val u) (h2 : val u ≤ 1) :
    F64Order.Fin (uvToST u) ∧
    (0 ≤ val u → val (uvToST u) = val (F64.sqrt (tOf u)) / 2) ∧
    (val u < 0 → val (uvToST u) = 1 - val (F64.sqrt (tOf u)) / 2) := by
  obtain ⟨ft, t1, t4, _⟩ := t_spec u hu h1 h2
  obtain ⟨fr, r1, r2, _, _⟩ := r_spec (tOf u) ft t1 t4
  obtain ⟨fh, vh⟩ := half_mul_exact _ fr r1
  rw [uvToST_eq]
  by_cases hpos : 0 ≤ val u
  · rw [if_pos ((ge_zero_iff u hu).2 hpos)]
    exact ⟨fh, fun _ => vh, fun hn => absurd hpos (not_le.2 hn)⟩
  · rw [if_neg (fun h => hpos ((ge_zero_iff u hu).1 h))]
    obtain ⟨fs, vs⟩ := one_sub_half_exact _ fh (by rw [vh]; linarith) (by rw [vh]; linarith)
    exact ⟨fs, fun hp => absurd hp hpos, fun _ => by rw [vs, vh]⟩

/-! ### `stToUV` on the grid -/

/-- the grid point `k / 2^30` as a float -/
def g (k : Nat) : F64 := ijToSTMin (k : Int)

theorem g_spec (k : Nat) (hk : k ≤ 2 ^ 30) : F64Order.Fin (g k) ∧ toInt (g k) = (k : Int) * 2 ^ 1044 :=
  ijToSTMin_fin_toInt k hk

theorem toInt_half' : toInt F64.half = 2 ^ 29 * 2 ^ 1044 := by
  have : (2 : Int) ^ 29 * 2 ^ 1044 = 2 ^ 1073 := by rw [← pow_add]
  rw [this]; decide +kernel

theorem g_ge_half_iff (k : Nat) (hk : k ≤ 2 ^ 30) : F64.ge (g k) F64.half = true ↔ 2 ^ 29 ≤ k := by
  obtain ⟨fg, tg⟩ := g_spec k hk
  unfold F64.ge
  rw [le_iff fin_half fg, tg, toInt_half']
  have hP : (0 : Int) < 2 ^ 1044 := by positivity
  constructor
  · intro h
    have := le_of_mul_le_mul_right h hP
    exact_mod_cast this
  · intro h
    exact Int.mul_le_mul_of_nonneg_right (by exact_mod_cast h) (le_of_lt hP)

theorem stToUV_pos_eq (k : Nat) (hk1 : 2 ^ 29 ≤ k) (hk2 : k ≤ 2 ^ 30) :
    stToUV (g k) = third * (F64.four * g k * g k - F64.one) := by
  unfold stToUV; rw [if_pos ((g_ge_half_iff k hk2).2 hk1)]

theorem stToUV_neg_eq (k : Nat) (hk : k < 2 ^ 29) :
    stToUV (g k) = third * (F64.one - F64.four * (F64.one - g k) * (F64.one - g k)) := by
  unfold stToUV
  rw [if_neg (fun h => by have := (g_ge_half_iff k (by omega)).1 h; omega)]

/-- `stToUV` of a grid point of the upper half: `w = fl(third · (p − 1))`, `p = fl(c²) ± 2E`, `c = k/2^29` -/
theorem wpos_spec (k : Nat) (hk1 : 2 ^ 29 ≤ k) (hk2 : k ≤ 2 ^ 30) :
    F64Order.Fin (stToUV (g k)) ∧ ∃ p : ℚ, |p - ((k : ℚ) / 2 ^ 29) * ((k : ℚ) / 2 ^ 29)| ≤ 2 * E ∧ 1 ≤ p ∧ p ≤ 4 ∧
      |val (stToUV (g k)) - (1 - E / 2) / 3 * (p - 1)| ≤ E / 2 := by
  obtain ⟨fg, tg⟩ := g_spec k hk2
  obtain ⟨fp, ep, p1, p4⟩ := p_spec (g k) fg k hk1 hk2 tg
  obtain ⟨fm, vm⟩ := sub_one_exact _ fp p1 p4
  obtain ⟨fw, ew⟩ := w_spec _ fm (by rw [vm, abs_le]; constructor <;> linarith)
  rw [stToUV_pos_eq k hk1 hk2]
  rw [vm] at ew
  exact ⟨fw, _, ep, p1, p4, ew⟩

/-- `stToUV` of a grid point of the lower half is the mirror image: with `c = (2^30 − k)/2^29` -/
theorem wneg_spec (k : Nat) (hk : k < 2 ^ 29) :
    F64Order.Fin (stToUV (g k)) ∧
    ∃ p : ℚ, |p - (((2 ^ 30 - k : Nat) : ℚ) / 2 ^ 29) * (((2 ^ 30 - k : Nat) : ℚ) / 2 ^ 29)| ≤ 2 * E ∧ 1 ≤ p ∧ p ≤ 4 ∧
      |-val (stToUV (g k)) - (1 - E / 2) / 3 * (p - 1)| ≤ E / 2 := by
  obtain ⟨fg, tg⟩ := g_spec k (by omega)
  -- 1 − a is the grid point 2^30 − k, exactly
  have hx := isRound_sub fin_one fg
  obtain ⟨fx, tx⟩ := hx.exact_of_rep (((2 ^ 30 - k : Nat) : Int) * 2 ^ 1044)
    (by rw [natAbs_mul_two_pow, Int.natAbs_natCast]; exact ⟨2 ^ 30 - k, 1044, by omega, rfl⟩)
    (by
      rw [natAbs_mul_two_pow, Int.natAbs_natCast]
      have g1 : (2 ^ 30 - k) * 2 ^ 1044 ≤ 2 ^ 30 * 2 ^ 1044 := Nat.mul_le_mul_right _ (by omega)
      have g2 : (2 : Nat) ^ 30 * 2 ^ 1044 = 2 ^ 1074 := by rw [← Nat.pow_add]
      have g3 : (2 : Nat) ^ 1074 < 2 ^ 2098 := Nat.pow_lt_pow_right (by decide) (by decide)
      omega)
    (by
      rw [sub_mul, val_mul_U, val_mul_U, S2Proofs.F64Round.toInt_one, tg]
      have : (2 : ℚ) ^ 1074 = 2 ^ 30 * 2 ^ 1044 := by rw [← pow_add]
      push_cast
      rw [Nat.cast_sub (by omega), this]; push_cast; ring)
  obtain ⟨fp, ep, p1, p4⟩ := p_spec (F64.sub F64.one (g k)) fx (2 ^ 30 - k) (by omega) (by omega) tx
  obtain ⟨fm, vm⟩ := one_sub_exact _ fp p1 p4
  obtain ⟨fw, ew⟩ := w_spec _ fm (by rw [vm, abs_le]; constructor <;> linarith)
  rw [stToUV_neg_eq k hk]
  refine ⟨fw, _, ep, p1, p4, ?_⟩
  rw [vm] at ew
  have e : ∀ a b : ℚ, -a - (1 - E / 2) / 3 * (b - 1) = -(a - (1 - E / 2) / 3 * (1 - b)) := by intro a b; ring
  rw [e, abs_neg]
  exact ew

end S2Proofs.C12M
