/-
  S2Proofs.C12.Children — helper lemmas for "Cell.Children = CellFromCellID(child)".

  * `cellFromCellID_eq`  : the cell built from a level-n id has face/level/orientation given by the Hilbert
                           prefix state (I,J,O) and the uv bound of the ij-square [I·2^m,(I+1)·2^m]², m = 30−n
  * `centerUV_eq`        : `centerUV` evaluates `stToUV (ijToSTMin (I·2^m + 2^(m−1)))` — the SAME float expression
                           as a child bound (via `siTiToST (2i) = ijToSTMin i`)
  * `next_child`         : the id chain `ChildBegin, Next, Next, Next` is `child id 0..3`
-/
import S2.CellM
import S2Proofs.CellIDLemmas
import S2Proofs.C12.HilbertSpec
import S2Proofs.C12.STExact
import Mathlib.Tactic.Ring
namespace S2Proofs.C12C
open S2 S2.CellID S2.Hilbert S2.STUV S2.CellM S2Proofs S2Proofs.C12H S2Proofs.C12ST

/-- uv bound of the ij-square `[I·2^m, (I+1)·2^m] × [J·2^m, (J+1)·2^m]` -/
def boundOf (I J m : Nat) : Rect2 :=
  ((stToUV (ijToSTMin ((I * 2 ^ m : Nat) : Int)), stToUV (ijToSTMin (((I + 1) * 2 ^ m : Nat) : Int))),
   (stToUV (ijToSTMin ((J * 2 ^ m : Nat) : Int)), stToUV (ijToSTMin (((J + 1) * 2 ^ m : Nat) : Int))))

/-- the offset of the representative leaf inside its cell (see `faceIJOrientation_cell`) -/
def off (n O : Nat) : Nat := if n = 30 then 0 else if O < 2 then 2 ^ (29 - n) else 2 ^ (29 - n) - 1

theorem off_lt (n O : Nat) (hn : n ≤ 30) : off n O < 2 ^ (30 - n) := by
  unfold off
  split
  · exact Nat.two_pow_pos _
  · have h1 : 2 ^ (29 - n) < 2 ^ (30 - n) := Nat.pow_lt_pow_right (by decide) (by omega)
    have h2 := Nat.two_pow_pos (29 - n)
    split <;> omega

theorem clear_low (I m o : Nat) (ho : o < 2 ^ m) : (I * 2 ^ m + o) - (I * 2 ^ m + o) % 2 ^ m = I * 2 ^ m := by
  rw [Nat.add_comm, Nat.add_mul_mod_self_right, Nat.mod_eq_of_lt ho]
  omega

theorem sizeIJ_eq (n : Nat) : sizeIJ n = 2 ^ (30 - n) := by
  unfold sizeIJ maxLevel
  rw [Nat.shiftLeft_eq, Nat.one_mul]

theorem ijLevelToBoundUV_eq (I J n o1 o2 : Nat) (h1 : o1 < 2 ^ (30 - n)) (h2 : o2 < 2 ^ (30 - n)) :
    ijLevelToBoundUV (I * 2 ^ (30 - n) + o1) (J * 2 ^ (30 - n) + o2) n = boundOf I J (30 - n) := by
  unfold ijLevelToBoundUV boundOf
  simp only [sizeIJ_eq, clear_low _ _ _ h1, clear_low _ _ _ h2, Nat.add_mul, Nat.one_mul]

theorem cellFromCellID_eq {x : CellID} {n : Nat} (h : IsCell x n) :
    cellFromCellID x =
      { face := face x, level := n, orientation := (prefixState x n).2.2, id := x,
        uv := boundOf (prefixState x n).1 (prefixState x n).2.1 (30 - n) } := by
  unfold cellFromCellID
  rw [faceIJOrientation_cell h, h.level_eq]
  simp only
  have ho := off_lt n (prefixState x n).2.2 h.k_le
  unfold off at ho
  rw [ijLevelToBoundUV_eq _ _ _ _ _ ho ho]

/-! ### leaf flag and bit 2 -/

theorem isLeaf_eq {x : CellID} {n : Nat} (h : IsCell x n) : isLeaf x = decide (n = 30) := by
  unfold isLeaf
  rw [and1_ne_zero]
  obtain ⟨hn, _, hlow⟩ := h
  congr 1
  apply propext
  interval_cases n <;> constructor <;> intro h' <;> first | omega | cell_omega

theorem shr2_and1 {x : CellID} {n : Nat} (h : IsCell x n) (hn : n < 30) :
    (x >>> 2).toNat % 2 = if n = 29 then 1 else 0 := by
  have e := shiftRight_lit_toNat x 2 (by omega)
  rw [show (UInt64.ofNat 2 : UInt64) = 2 from rfl] at e
  rw [e]
  obtain ⟨_, _, hlow⟩ := h
  by_cases h29 : n = 29
  · subst h29
    rw [if_pos rfl]
    cell_omega
  · rw [if_neg h29]
    interval_cases n <;> first | (exfalso; exact h29 rfl) | cell_omega

/-! ### the centre -/

theorem xor_and_one (a b : Nat) : ((a ^^^ b) &&& 1 != 0) = decide (a % 2 ≠ b % 2) := by
  rw [Nat.and_one_is_mod]
  have h := @Nat.xor_mod_two_eq_one a b
  have h2 : (a ^^^ b) % 2 < 2 := Nat.mod_lt _ (by decide)
  have ha : a % 2 < 2 := Nat.mod_lt _ (by decide)
  have hb : b % 2 < 2 := Nat.mod_lt _ (by decide)
  by_cases hx : (a ^^^ b) % 2 = 1
  · have := h.1 hx
    have hne : a % 2 ≠ b % 2 := by
      intro heq; apply this; rw [heq]
    simp [hx, hne]
  · have h0 : (a ^^^ b) % 2 = 0 := by omega
    have : ¬¬ ((a % 2 = 1) ↔ (b % 2 = 1)) := fun hn => hx (h.2 hn)
    have hiff : (a % 2 = 1) ↔ (b % 2 = 1) := Classical.not_not.mp this
    have heq : a % 2 = b % 2 := by
      by_cases ha1 : a % 2 = 1
      · rw [ha1, hiff.1 ha1]
      · have hb1 : ¬ b % 2 = 1 := fun hb1 => ha1 (hiff.2 hb1)
        omega
    simp [h0, heq]

/-- `faceSiTi` of a non-leaf cell: si = 2·(centre i), ti = 2·(centre j) -/
theorem faceSiTi_eq {x : CellID} {n : Nat} (h : IsCell x n) (hn : n < 30) :
    faceSiTi x = (face x, 2 * ((prefixState x n).1 * 2 ^ (30 - n) + 2 ^ (29 - n)),
                  2 * ((prefixState x n).2.1 * 2 ^ (30 - n) + 2 ^ (29 - n))) := by
  unfold faceSiTi
  rw [faceIJOrientation_cell h, isLeaf_eq h]
  have hn30 : ¬ n = 30 := by omega
  simp only [hn30, decide_false, Bool.false_eq_true, if_false]
  rw [xor_and_one, shr2_and1 h hn]
  obtain ⟨_, _, hO⟩ := prefixState_bounds x n
  generalize (prefixState x n).1 = I
  generalize (prefixState x n).2.1 = J
  generalize (prefixState x n).2.2 = O at hO
  have hP : 2 ^ (30 - n) = 2 * 2 ^ (29 - n) := by
    rw [show 30 - n = (29 - n) + 1 by omega, Nat.pow_succ, Nat.mul_comm]
  have hPpos := Nat.two_pow_pos (29 - n)
  rw [hP, Nat.mul_left_comm I 2, Nat.mul_left_comm J 2]
  generalize I * 2 ^ (29 - n) = TI
  generalize J * 2 ^ (29 - n) = TJ
  by_cases h29 : n = 29
  · subst h29
    simp only [Nat.sub_self, Nat.pow_zero, if_true]
    by_cases hO2 : O < 2
    · simp only [hO2, if_true]
      split <;> rename_i hdec <;>
        first
          | (refine Prod.ext rfl (Prod.ext ?_ ?_) <;> simp only <;> omega)
          | (exfalso; simp only [decide_eq_true_eq, ne_eq, Decidable.not_not] at hdec; omega)
    · simp only [hO2, if_false]
      split <;> rename_i hdec <;>
        first
          | (refine Prod.ext rfl (Prod.ext ?_ ?_) <;> simp only <;> omega)
          | (exfalso; simp only [decide_eq_true_eq, ne_eq, Decidable.not_not] at hdec; omega)
  · simp only [h29, if_false]
    obtain ⟨q, hq⟩ : ∃ q, 2 ^ (29 - n) = 2 * q := by
      refine ⟨2 ^ (28 - n), ?_⟩
      rw [show 29 - n = (28 - n) + 1 by omega, Nat.pow_succ, Nat.mul_comm]
    rw [hq] at hPpos ⊢
    by_cases hO2 : O < 2
    · simp only [hO2, if_true]
      split <;> rename_i hdec <;>
        first
          | (refine Prod.ext rfl (Prod.ext ?_ ?_) <;> simp only <;> omega)
          | (exfalso; simp only [decide_eq_true_eq, ne_eq, Decidable.not_not] at hdec; omega)
    · simp only [hO2, if_false]
      split <;> rename_i hdec <;>
        first
          | (refine Prod.ext rfl (Prod.ext ?_ ?_) <;> simp only <;> omega)
          | (exfalso; simp only [decide_eq_true_eq, ne_eq, Decidable.not_not] at hdec; omega)

theorem centre_le (I n : Nat) (hI : I < 2 ^ n) (hn : n < 30) :
    I * 2 ^ (30 - n) + 2 ^ (29 - n) ≤ 1073741824 := by
  have h1 : (I + 1) * 2 ^ (30 - n) ≤ 2 ^ n * 2 ^ (30 - n) := Nat.mul_le_mul_right _ hI
  rw [← Nat.pow_add, show n + (30 - n) = 30 by omega] at h1
  have h2 : 2 ^ (29 - n) < 2 ^ (30 - n) := Nat.pow_lt_pow_right (by decide) (by omega)
  rw [Nat.add_mul, Nat.one_mul] at h1
  have : (2:Nat) ^ 30 = 1073741824 := by decide
  omega

/-- `centerUV` evaluates the grid expression at the centre coordinates -/
theorem centerUV_eq {x : CellID} {n : Nat} (h : IsCell x n) (hn : n < 30) :
    centerUV x =
      (stToUV (ijToSTMin (((prefixState x n).1 * 2 ^ (30 - n) + 2 ^ (29 - n) : Nat) : Int)),
       stToUV (ijToSTMin (((prefixState x n).2.1 * 2 ^ (30 - n) + 2 ^ (29 - n) : Nat) : Int))) := by
  unfold centerUV
  rw [faceSiTi_eq h hn]
  obtain ⟨hI, hJ, _⟩ := prefixState_bounds x n
  simp only
  rw [siTiToST_double _ (centre_le _ n hI hn), siTiToST_double _ (centre_le _ n hJ hn)]

/-! ### the id chain -/

theorem childBegin_eq (x : CellID) : childBegin x = child x 0 := rfl

theorem next_child {x : CellID} {n k : Nat} (h : IsCell x n) (hn : n < 30) (hk : k < 3) :
    next (child x k) = child x (k + 1) := by
  apply UInt64.toNat_inj.mp
  have hc := h.child_isCell hn (show k < 4 by omega)
  rw [hc.next_toNat, h.child_toNat hn (show k < 4 by omega), h.child_toNat hn (show k + 1 < 4 by omega)]
  obtain ⟨_, hf, hlow⟩ := h
  have hk' : k = 0 ∨ k = 1 ∨ k = 2 := by omega
  rcases hk' with rfl | rfl | rfl <;> interval_cases n <;> cell_omega

theorem face_child {x : CellID} {n k : Nat} (h : IsCell x n) (hn : n < 30) (hk : k < 4) :
    face (child x k) = face x := by
  rw [face_toNat, face_toNat, h.child_toNat hn hk]
  obtain ⟨_, hf, hlow⟩ := h
  have hk' : k = 0 ∨ k = 1 ∨ k = 2 ∨ k = 3 := by omega
  rcases hk' with rfl | rfl | rfl | rfl <;> interval_cases n <;> cell_omega

end S2Proofs.C12C
