/-
  C12 (margin): the face chosen by `STUV.face p` passes the sign test of `CellM.faceXYZToUV`, and the
  (u,v) coordinates of a finite non-zero vector on its own face are finite and lie in [-1,1].
-/
import S2.CellM
import S2Proofs.F64Round
import S2Proofs.F64Faithful
import S2Proofs.C12.STExact
import Mathlib.Tactic.Linarith
namespace S2Proofs.C12F
open S2 S2.STUV S2.CellM S2.Exact S2Proofs.F64Round

/-- non-zero as a vector: some component is not ±0 -/
def NonZero3 (p : V3) : Prop := ¬ (p.x.isZero = true ∧ p.y.isZero = true ∧ p.z.isZero = true)

/-! ### helpers -/

theorem isZero_iff_toInt (x : F64) : x.isZero = true ↔ toInt x = 0 := by
  constructor
  · exact toInt_isZero
  · intro h
    cases hz : x.isZero
    · have := S2Proofs.F64Faithful.amag_pos_of_not_isZero hz
      unfold S2Proofs.F64Faithful.amag at this
      rw [h] at this
      exact absurd this (by decide)
    · rfl

theorem isZero_false_of_toInt_ne {x : F64} (h : toInt x ≠ 0) : x.isZero = false := by
  cases hz : x.isZero
  · rfl
  · exact absurd ((isZero_iff_toInt x).1 hz) h

theorem fin_one : F64Order.Fin F64.one := by decide
theorem fin_negOne : F64Order.Fin (F64.neg F64.one) := by decide
theorem fin_fzero : F64Order.Fin fzero := by decide
theorem toInt_fzero : toInt fzero = 0 := toInt_zero

theorem one_lt_top : |(1 : ℚ)| < 2 ^ 1024 - 2 ^ 970 := by
  have e1 : (2 : ℚ) ^ 1024 = 2 ^ 54 * 2 ^ 970 := by rw [← pow_add]
  have h970 : (1 : ℚ) ≤ 2 ^ 970 := one_le_pow₀ (by norm_num)
  have key : ∀ X : ℚ, 1 ≤ X → 1 < 2 ^ 54 * X - X := by
    intro X hX
    have h54 : (3 : ℚ) ≤ 2 ^ 54 := by norm_num
    have h0 : (0 : ℚ) ≤ X := le_trans zero_le_one hX
    have : 3 * X ≤ 2 ^ 54 * X := mul_le_mul_of_nonneg_right h54 h0
    linarith
  rw [e1, abs_one]
  exact key _ h970

/-- the quotient of two finite floats with `|a| ≤ |m|`, `m ≠ 0`, is finite and in [-1,1] -/
theorem div_bounds {a m : F64} (ha : F64Order.Fin a) (hm : F64Order.Fin m) (hm0 : toInt m ≠ 0)
    (hle : |toInt a| ≤ |toInt m|) :
    F64Order.Fin (F64.div a m) ∧ -1 ≤ val (F64.div a m) ∧ val (F64.div a m) ≤ 1 := by
  have hU := U_pos
  have hz : m.isZero = false := isZero_false_of_toInt_ne hm0
  have hvm : 0 < |val m| := by
    apply abs_pos.2
    unfold val
    have : (toInt m : ℚ) ≠ 0 := by exact_mod_cast hm0
    exact div_ne_zero this (ne_of_gt hU)
  have hva : |val a| ≤ |val m| := by
    unfold val
    rw [abs_div, abs_div, abs_of_pos hU]
    apply div_le_div_of_nonneg_right _ hU.le
    exact_mod_cast hle
  have hQ : |val a / val m| ≤ 1 := by
    rw [abs_div]; exact (div_le_one hvm).2 hva
  have hQ' := abs_le.1 hQ
  have R := isRound_div ha hm hz
  have hfin : F64Order.Fin (F64.div a m) :=
    R.fin_of_lt (lt_of_le_of_lt hQ (by simpa using one_lt_top))
  refine ⟨hfin, ?_, ?_⟩
  · have h1 : F64.le (F64.neg F64.one) (F64.div a m) = true :=
      IsRound.mono (isRound_self fin_negOne) R (by rw [val_neg, val_one]; exact hQ'.1)
    have := (val_le_iff fin_negOne hfin).1 h1
    rwa [val_neg, val_one] at this
  · have h1 : F64.le (F64.div a m) F64.one = true :=
      IsRound.mono R (isRound_self fin_one) (by rw [val_one]; exact hQ'.2)
    have := (val_le_iff hfin fin_one).1 h1
    rwa [val_one] at this

theorem div_neg_bounds {a m : F64} (ha : F64Order.Fin a) (hm : F64Order.Fin m) (hm0 : toInt m ≠ 0)
    (hle : |toInt a| ≤ |toInt m|) :
    F64Order.Fin (F64.div (F64.neg a) m) ∧ -1 ≤ val (F64.div (F64.neg a) m) ∧
      val (F64.div (F64.neg a) m) ≤ 1 := by
  apply div_bounds (S2Proofs.F64Faithful.fin_neg.2 ha) hm hm0
  rw [S2Proofs.F64Round.toInt_neg, abs_neg]; exact hle

/-! ### the six cases of `face` -/

theorem face_cases (p : V3) (hf : Exact.finite3 p = true) (hz : NonZero3 p) :
    (STUV.face p = 0 ∧ 0 < toInt p.x ∧ |toInt p.y| ≤ |toInt p.x| ∧ |toInt p.z| ≤ |toInt p.x|) ∨
    (STUV.face p = 1 ∧ 0 < toInt p.y ∧ |toInt p.x| ≤ |toInt p.y| ∧ |toInt p.z| ≤ |toInt p.y|) ∨
    (STUV.face p = 2 ∧ 0 < toInt p.z ∧ |toInt p.x| ≤ |toInt p.z| ∧ |toInt p.y| ≤ |toInt p.z|) ∨
    (STUV.face p = 3 ∧ toInt p.x < 0 ∧ |toInt p.y| ≤ |toInt p.x| ∧ |toInt p.z| ≤ |toInt p.x|) ∨
    (STUV.face p = 4 ∧ toInt p.y < 0 ∧ |toInt p.x| ≤ |toInt p.y| ∧ |toInt p.z| ≤ |toInt p.y|) ∨
    (STUV.face p = 5 ∧ toInt p.z < 0 ∧ |toInt p.x| ≤ |toInt p.z| ∧ |toInt p.y| ≤ |toInt p.z|) := by
  unfold Exact.finite3 at hf
  simp only [Bool.and_eq_true] at hf
  obtain ⟨⟨hx, hy⟩, hzz⟩ := hf
  have fx := S2Proofs.C12ST.fin_of_isFinite hx
  have fy := S2Proofs.C12ST.fin_of_isFinite hy
  have fz := S2Proofs.C12ST.fin_of_isFinite hzz
  have fax := (fin_abs p.x).2 fx
  have fay := (fin_abs p.y).2 fy
  have faz := (fin_abs p.z).2 fz
  have f0 : F64Order.Fin (F64.zero false) := by decide
  have hnz : ¬ (toInt p.x = 0 ∧ toInt p.y = 0 ∧ toInt p.z = 0) := by
    intro h
    exact hz ⟨(isZero_iff_toInt _).2 h.1, (isZero_iff_toInt _).2 h.2.1, (isZero_iff_toInt _).2 h.2.2⟩
  have gxy := F64Order.gt_iff fax fay
  have gxz := F64Order.gt_iff fax faz
  have gyz := F64Order.gt_iff fay faz
  have lx := F64Order.lt_iff fx f0
  have ly := F64Order.lt_iff fy f0
  have lz := F64Order.lt_iff fz f0
  rw [toInt_abs, toInt_abs] at gxy gxz gyz
  rw [toInt_zero] at lx ly lz
  unfold STUV.face V3.largestComponent V3.abs
  simp only []
  generalize toInt p.x = tx at *
  generalize toInt p.y = ty at *
  generalize toInt p.z = tz at *
  have cx := abs_cases tx
  have cy := abs_cases ty
  have cz := abs_cases tz
  generalize |tx| = ax at *
  generalize |ty| = ay at *
  generalize |tz| = az at *
  by_cases h1 : F64.gt p.x.abs p.y.abs = true <;>
  by_cases h2 : F64.gt p.x.abs p.z.abs = true <;>
  by_cases h3 : F64.gt p.y.abs p.z.abs = true <;>
  by_cases s1 : F64.lt p.x (F64.zero false) = true <;>
  by_cases s2 : F64.lt p.y (F64.zero false) = true <;>
  by_cases s3 : F64.lt p.z (F64.zero false) = true <;>
  simp only [h1, h2, h3, s1, s2, s3, if_true, if_false, Bool.and_true, Bool.and_false, beq_self_eq_true,
    Bool.false_eq_true, Nat.reduceBEq, Nat.reduceEqDiff, false_and, true_and, false_or, or_false] <;>
  (rw [gxy] at h1; rw [gxz] at h2; rw [gyz] at h3; rw [lx] at s1; rw [ly] at s2; rw [lz] at s3; omega)

/-! ### the two theorems -/

/-- on the face chosen by `face p` the sign test of `faceXYZToUV` passes, and the (u,v) it returns is the same term
    that `xyzToFaceUV` computes -/
theorem faceXYZToUV_face (p : V3) (hf : Exact.finite3 p = true) (hz : NonZero3 p) :
    faceXYZToUV (STUV.face p) p = some (validFaceXYZToUV (STUV.face p) p) := by
  have hc := face_cases p hf hz
  unfold Exact.finite3 at hf
  simp only [Bool.and_eq_true] at hf
  obtain ⟨⟨hx, hy⟩, hzz⟩ := hf
  have fx := S2Proofs.C12ST.fin_of_isFinite hx
  have fy := S2Proofs.C12ST.fin_of_isFinite hy
  have fz := S2Proofs.C12ST.fin_of_isFinite hzz
  have lx := F64Order.le_iff fx fin_fzero
  have ly := F64Order.le_iff fy fin_fzero
  have lz := F64Order.le_iff fz fin_fzero
  have gx := F64Order.le_iff fin_fzero fx
  have gy := F64Order.le_iff fin_fzero fy
  have gz := F64Order.le_iff fin_fzero fz
  rw [toInt_fzero] at lx ly lz gx gy gz
  rcases hc with ⟨h, s, _, _⟩ | ⟨h, s, _, _⟩ | ⟨h, s, _, _⟩ | ⟨h, s, _, _⟩ | ⟨h, s, _, _⟩ | ⟨h, s, _, _⟩ <;>
    rw [h] <;> unfold faceXYZToUV <;> simp only [F64.ge]
  · have : ¬ (F64.le p.x fzero = true) := by rw [lx]; omega
    simp only [this, if_false, Bool.false_eq_true]
  · have : ¬ (F64.le p.y fzero = true) := by rw [ly]; omega
    simp only [this, if_false, Bool.false_eq_true]
  · have : ¬ (F64.le p.z fzero = true) := by rw [lz]; omega
    simp only [this, if_false, Bool.false_eq_true]
  · have : ¬ (F64.le fzero p.x = true) := by rw [gx]; omega
    simp only [this, if_false, Bool.false_eq_true]
  · have : ¬ (F64.le fzero p.y = true) := by rw [gy]; omega
    simp only [this, if_false, Bool.false_eq_true]
  · have : ¬ (F64.le fzero p.z = true) := by rw [gz]; omega
    simp only [this, if_false, Bool.false_eq_true]

/-- the (u,v) of a finite non-zero vector on its own face are finite and in [-1,1] -/
theorem validFaceXYZToUV_bounds (p : V3) (hf : Exact.finite3 p = true) (hz : NonZero3 p) :
    F64Order.Fin (validFaceXYZToUV (STUV.face p) p).1 ∧ -1 ≤ val (validFaceXYZToUV (STUV.face p) p).1 ∧
      val (validFaceXYZToUV (STUV.face p) p).1 ≤ 1 ∧
    F64Order.Fin (validFaceXYZToUV (STUV.face p) p).2 ∧ -1 ≤ val (validFaceXYZToUV (STUV.face p) p).2 ∧
      val (validFaceXYZToUV (STUV.face p) p).2 ≤ 1 := by
  have hc := face_cases p hf hz
  unfold Exact.finite3 at hf
  simp only [Bool.and_eq_true] at hf
  obtain ⟨⟨hx, hy⟩, hzz⟩ := hf
  have fx := S2Proofs.C12ST.fin_of_isFinite hx
  have fy := S2Proofs.C12ST.fin_of_isFinite hy
  have fz := S2Proofs.C12ST.fin_of_isFinite hzz
  rcases hc with ⟨h, s, a, b⟩ | ⟨h, s, a, b⟩ | ⟨h, s, a, b⟩ | ⟨h, s, a, b⟩ | ⟨h, s, a, b⟩ | ⟨h, s, a, b⟩ <;>
    rw [h]
  · have h1 := div_bounds fy fx (by omega) a
    have h2 := div_bounds fz fx (by omega) b
    exact ⟨h1.1, h1.2.1, h1.2.2, h2.1, h2.2.1, h2.2.2⟩
  · have h1 := div_neg_bounds fx fy (by omega) a
    have h2 := div_bounds fz fy (by omega) b
    exact ⟨h1.1, h1.2.1, h1.2.2, h2.1, h2.2.1, h2.2.2⟩
  · have h1 := div_neg_bounds fx fz (by omega) a
    have h2 := div_neg_bounds fy fz (by omega) b
    exact ⟨h1.1, h1.2.1, h1.2.2, h2.1, h2.2.1, h2.2.2⟩
  · have h1 := div_bounds fz fx (by omega) b
    have h2 := div_bounds fy fx (by omega) a
    exact ⟨h1.1, h1.2.1, h1.2.2, h2.1, h2.2.1, h2.2.2⟩
  · have h1 := div_bounds fz fy (by omega) b
    have h2 := div_neg_bounds fx fy (by omega) a
    exact ⟨h1.1, h1.2.1, h1.2.2, h2.1, h2.2.1, h2.2.2⟩
  · have h1 := div_neg_bounds fy fz (by omega) b
    have h2 := div_neg_bounds fx fz (by omega) a
    exact ⟨h1.1, h1.2.1, h1.2.2, h2.1, h2.2.1, h2.2.2⟩

end S2Proofs.C12F

#print axioms S2Proofs.C12F.faceXYZToUV_face
#print axioms S2Proofs.C12F.validFaceXYZToUV_bounds
