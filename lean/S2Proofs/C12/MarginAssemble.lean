/-
  S2Proofs.C12.MarginAssemble — from the value-level coordinate lemmas (`coord_lo`, `coord_hi`) to the float tests that
  `Cell.ContainsPoint` evaluates: the margin constant, one expanded interval of `Rect2.expandedByMargin`, the guards of
  `stToIJ`, and `ContainsPoint` with an arbitrary margin (for the refutation of the old constant).
-/
import S2Proofs.C12.MarginCoord

set_option linter.unusedSimpArgs false
set_option linter.unusedVariables false

namespace S2Proofs.C12M
open S2 S2.CellID S2.Hilbert S2.STUV S2.CellM S2Proofs
open S2Proofs.F64Round

/-! ## the margin and one expanded interval -/

/-- `containsMargin = 2 · dblEpsilon = 2^-51 = 4E`, as a bit pattern and as a value -/
theorem containsMargin_bits : containsMargin = ⟨0x3CC0000000000000⟩ := by decide +kernel

theorem fin_containsMargin : F64Order.Fin containsMargin := by rw [containsMargin_bits]; decide

theorem val_containsMargin : val containsMargin = 4 * E := by
  have h : Exact.toInt containsMargin = 2 ^ 1023 := by rw [containsMargin_bits]; decide +kernel
  unfold val U E
  rw [h]
  have hU : (2 : ℚ) ^ 1074 = 2 ^ 51 * 2 ^ 1023 := by rw [← pow_add]
  rw [hU]; push_cast
  have hp : (0 : ℚ) < 2 ^ 1023 := by positivity
  generalize (2 : ℚ) ^ 1023 = P at *
  field_simp
  norm_num

theorem small_lt_top {x : ℚ} (h : |x| ≤ 4) : |x| < 2 ^ 1024 - 2 ^ 970 := by
  have e1 : (2 : ℚ) ^ 1024 = 2 ^ 54 * 2 ^ 970 := by rw [← pow_add]
  have h970 : (1 : ℚ) ≤ 2 ^ 970 := one_le_pow₀ (by norm_num)
  rw [e1]
  clear e1
  generalize (2 : ℚ) ^ 970 = X at *
  have h54 : (6 : ℚ) ≤ 2 ^ 54 := by norm_num
  have : 6 * X ≤ 2 ^ 54 * X := mul_le_mul_of_nonneg_right h54 (by linarith)
  linarith

/-- one interval of the expanded rectangle: not empty, and contains `u` -/
theorem ivl_expanded_contains (lo hi u : F64) (flo : F64Order.Fin lo) (fhi : F64Order.Fin hi) (fu : F64Order.Fin u)
    (blo : -1 ≤ val lo) (bhi : val hi ≤ 1) (hlh : val lo ≤ val hi)
    (h1 : val lo - 4 * E ≤ val u) (h2 : val u ≤ val hi + 4 * E) :
    Ivl.isEmpty (Ivl.expanded (lo, hi) containsMargin) = false ∧
    Ivl.contains (Ivl.expanded (lo, hi) containsMargin) u = true := by
  have hE := E_pos
  have hE1 := E_le
  have fm := fin_containsMargin
  have e0 : Ivl.isEmpty (lo, hi) = false := by
    unfold Ivl.isEmpty F64.gt
    apply Bool.eq_false_iff.2
    intro h
    have := (val_lt_iff fhi flo).1 h
    linarith
  unfold Ivl.expanded
  rw [e0]
  simp only [Bool.false_eq_true, if_false]
  have ra := isRound_sub flo fm
  have rb := isRound_add fhi fm
  rw [val_containsMargin] at ra rb
  have fa : F64Order.Fin (F64.sub lo containsMargin) :=
    ra.fin_of_lt (small_lt_top (by rw [abs_le]; constructor <;> linarith))
  have fb : F64Order.Fin (F64.add hi containsMargin) :=
    rb.fin_of_lt (small_lt_top (by rw [abs_le]; constructor <;> linarith))
  have la : F64.le (F64.sub lo containsMargin) u = true := IsRound.mono ra (isRound_self fu) h1
  have lb : F64.le u (F64.add hi containsMargin) = true := IsRound.mono (isRound_self fu) rb h2
  constructor
  · unfold Ivl.isEmpty F64.gt
    apply Bool.eq_false_iff.2
    intro h
    have h3 := (val_lt_iff fb fa).1 h
    have h4 := (val_le_iff fa fu).1 la
    have h5 := (val_le_iff fu fb).1 lb
    linarith
  · unfold Ivl.contains
    show (F64.le (F64.sub lo containsMargin) u && F64.le u (F64.add hi containsMargin)) = true
    rw [la, lb]; rfl

/-! ## the point's own (u,v) and (s,t) -/

theorem xyzToFaceUV_eq (p : V3) :
    xyzToFaceUV p = (STUV.face p, (validFaceXYZToUV (STUV.face p) p).1, (validFaceXYZToUV (STUV.face p) p).2) := by
  unfold xyzToFaceUV
  dsimp only

/-- `uvToST` of a float in [-1,1] is a finite float in [0,1] -/
theorem uvToST_range (u : F64) (hu : F64Order.Fin u) (h1 : -1 ≤ val u) (h2 : val u ≤ 1) :
    F64Order.Fin (uvToST u) ∧ 0 ≤ val (uvToST u) ∧ val (uvToST u) ≤ 1 := by
  obtain ⟨fs, spos, sneg⟩ := uvToST_spec u hu h1 h2
  obtain ⟨ft, t1, t4, _⟩ := t_spec u hu h1 h2
  obtain ⟨fr, r1, r2, _, _⟩ := r_spec (tOf u) ft t1 t4
  refine ⟨fs, ?_, ?_⟩
  · by_cases hpos : 0 ≤ val u
    · rw [spos hpos]; linarith
    · rw [sneg (not_le.1 hpos)]; linarith
  · by_cases hpos : 0 ≤ val u
    · rw [spos hpos]; linarith
    · rw [sneg (not_le.1 hpos)]; linarith

theorem uvToST_guard (u : F64) (hu : F64Order.Fin u) (h1 : -1 ≤ val u) (h2 : val u ≤ 1) :
    (uvToST u).isFinite = true ∧ F64.le (uvToST u) F64.two = true := by
  obtain ⟨fs, _, s1⟩ := uvToST_range u hu h1 h2
  refine ⟨C12ST.isFinite_of_fin fs, ?_⟩
  rw [val_le_iff fs C12ST.Fin_two, val_two]; linarith

/-- one coordinate: the exact st-interval test (`stIn`, from `stToIJ`) implies the expanded uv-interval test -/
theorem coord_contains (u : F64) (hu : F64Order.Fin u) (h1 : -1 ≤ val u) (h2 : val u ≤ 1) (lo hi : Nat)
    (hlh : lo ≤ hi) (hhi : hi ≤ 2 ^ 30)
    (hL : lo = 0 ∨ F64.le (ijToSTMin ((lo : Nat) : Int)) (uvToST u) = true)
    (hH : hi = 1073741824 ∨ F64.lt (uvToST u) (ijToSTMin ((hi : Nat) : Int)) = true) :
    Ivl.isEmpty (Ivl.expanded (stToUV (ijToSTMin ((lo : Nat) : Int)), stToUV (ijToSTMin ((hi : Nat) : Int)))
      containsMargin) = false ∧
    Ivl.contains (Ivl.expanded (stToUV (ijToSTMin ((lo : Nat) : Int)), stToUV (ijToSTMin ((hi : Nat) : Int)))
      containsMargin) u = true := by
  obtain ⟨fs, _, _⟩ := uvToST_range u hu h1 h2
  have glo := g_spec lo (by omega)
  have ghi := g_spec hi hhi
  have cL := coord_lo u hu h1 h2 lo (by omega) (by
    rcases hL with h | h
    · exact Or.inl h
    · exact Or.inr ((val_le_iff glo.1 fs).1 h))
  have cH := coord_hi u hu h1 h2 hi hhi (by
    rcases hH with h | h
    · exact Or.inl (by rw [h]; norm_num)
    · exact Or.inr ((val_lt_iff fs ghi.1).1 h))
  have m0 := stToUV_g_mono 0 lo (by omega) (by omega)
  have m1 := stToUV_g_mono hi (2 ^ 30) hhi (le_refl _)
  rw [stToUV_g_zero, val_neg, val_one] at m0
  rw [stToUV_g_one, val_one] at m1
  exact ivl_expanded_contains _ _ u (fin_stToUV_g lo (by omega)) (fin_stToUV_g hi hhi) hu m0 m1
    (stToUV_g_mono lo hi hlh hhi) cL cH


/-! ## `ContainsPoint` with an arbitrary margin -/

/-- `Cell.ContainsPoint` with an arbitrary margin (the code before D46 used `dblEpsilon`) -/
def containsPointWith (m : F64) (c : Cell) (p : V3) : Bool :=
  match faceXYZToUV c.face p with
  | none => false
  | some (u, v) => Rect2.containsPoint (Rect2.expandedByMargin c.uv m) u v

theorem containsPointWith_margin (c : Cell) (p : V3) : containsPointWith containsMargin c p = containsPoint c p := rfl

/-- the margin test on an explicit face / uv rectangle -/
def containsUV (m : F64) (uv : Rect2) (f : Nat) (p : V3) : Bool :=
  match faceXYZToUV f p with
  | none => false
  | some (u, v) => Rect2.containsPoint (Rect2.expandedByMargin uv m) u v

end S2Proofs.C12M
