/-
  S2Proofs.C12.HilbertInverse — `cellIDFromFaceIJ` is inverted by `faceIJOrientation`
  (the Hilbert bijection on leaf cells), theorem `hilbertBijection`.

  `lookupPos` is handled like `lookupIJ` in HilbertSpec: list of writes of `initLookupCell`,
  one-pass check against a packed `Nat` literal, then a 1024-case inverse-table check on the
  two packed literals.
-/
import S2Proofs.C12.HilbertSpec
import Mathlib.Tactic.Ring
open S2 S2.CellID S2.Hilbert
namespace S2Proofs.C12H

/-! ### the lookup table `lookupPos` -/

/-- the (index, value) writes into `lookupPos` performed by `initLookupCell`, in order -/
def leavesPos : Nat → Nat → Nat → Nat → Nat → Nat → Nat → List (Nat × Nat)
  | 0, _, i, j, origOrientation, pos, orientation =>
      [(((((i <<< lookupBits) + j) <<< 2) + origOrientation), ((pos <<< 2) + orientation))]
  | fuel+1, level, i, j, origOrientation, pos, orientation =>
      if level == lookupBits then
        leavesPos 0 level i j origOrientation pos orientation
      else
        let level := level + 1
        let i := i <<< 1
        let j := j <<< 1
        let pos := pos <<< 2
        let r := posToIJ[orientation]!
        leavesPos fuel level (i + (r[0]! >>> 1)) (j + (r[0]! &&& 1)) origOrientation pos (orientation ^^^ posToOrientation[0]!) ++
        (leavesPos fuel level (i + (r[1]! >>> 1)) (j + (r[1]! &&& 1)) origOrientation (pos+1) (orientation ^^^ posToOrientation[1]!) ++
        (leavesPos fuel level (i + (r[2]! >>> 1)) (j + (r[2]! &&& 1)) origOrientation (pos+2) (orientation ^^^ posToOrientation[2]!) ++
        leavesPos fuel level (i + (r[3]! >>> 1)) (j + (r[3]! &&& 1)) origOrientation (pos+3) (orientation ^^^ posToOrientation[3]!)))

theorem init_fst (fuel level i j oo pos o : Nat) (t : Tables) :
    (initLookupCell fuel level i j oo pos o t).1 = writeAll t.1 (leavesPos fuel level i j oo pos o) := by
  induction fuel generalizing level i j pos o t with
  | zero => obtain ⟨lp, lij⟩ := t; simp [initLookupCell, leavesPos, writeAll]
  | succ fuel ih =>
    obtain ⟨lp, lij⟩ := t
    unfold initLookupCell leavesPos
    split
    · simp [initLookupCell, leavesPos, writeAll]
    · simp only [ih, writeAll, List.foldl_append]

def allLeavesPos : List (Nat × Nat) :=
  leavesPos 5 0 0 0 0 0 0 ++ (leavesPos 5 0 0 0 swapMask 0 swapMask ++ (leavesPos 5 0 0 0 invertMask 0 invertMask ++
    leavesPos 5 0 0 0 (swapMask ||| invertMask) 0 (swapMask ||| invertMask)))

theorem lookupPos_eq : lookupPos = writeAll (Array.replicate 1024 0) allLeavesPos := by
  unfold lookupPos tables
  simp only [init_fst, writeAll, allLeavesPos, List.foldl_append]

theorem lookupPos_get (q : Nat) (hq : q < 1024) : lookupPos[q]! = lastWrite q allLeavesPos 0 := by
  rw [lookupPos_eq, writeAll_get _ _ _ (by simpa using hq)]
  simp [hq]

def packedPos : Nat := 103360258583669197784439348270513161451688619183232928085972256397928191481142404503993156425267228473740624731700695346761068650676731446377792157099330186468396220572485325735993077159569288929865615210399368925890294901254681926261796541005320583796392033173666838374716475800554699174837065168558074483641396934822126242186637592726044537981752151482109200374598447811745224976026082694807610407313818950438141344959237668801228835268794102032345031554347709811399550792465772746497312912978529608575751773559038574234740505158049480336377750304218242596276536576671927278621796180756284002863265052305553203377480100161175840970917396375145190058970779185307795329450350869545925677383783848981983771998561309129056946479517971943278275089173322001023790246061025497482815914562680080661582293733443009966646910848323614332657770532053932647867577891281183122309581880302191789775203784823301415177451155983150105609736405225546949459849541810636019164725648481903586044177387665980312002984003509913269808107763181719088919368754041125556496796815667017367844358738004875002353885544764175646179793468856579723184515608379759381871245764797814540454373060963319247895377155491254191772487975760513817685890958082017795599494589715372652426761979368424864938257419905079691783131652998954351710258511410852447267736731323099407047726441637919781287011639399617844235588279582506928510760395368105188485225303843562785615462770247674280946862976311713799604989875330183399992221834934015001349520475770291580810949439302223208162109323279066982629154243160217615352918195867637822603884336039136821102874663685879585170666906862666558457926625004545257522848317985535952234453448815528603288992518096858085563501867766078546120978404220029982782639538863757199163206983638998930100144998674159496515070921411431517875425416412057370357213912477773103769871346944608280663299892083063047591460658598523089235766623791981941044600750855143411163670800914808750817437674199259418452047810754694457033673344447461376163202835543689575186010499816352002473074134608435782592135512269422696900617205826207842817559110561982207768141350457082229475107075891260523941060384662837054782622501288279209546638297842588630043860484649517623161599087764047258674986429149146100494050991887113324407534068913824664443228851072375721397480844539066484953197121630557053255768326532498223621365524133183846827317001851723884250606418701894600914159795859569240913552684693587679001352658220481644409189905677357273486046723228139415946389922756885492358599876453441591271325662153749541199153126459081138212599028231521553520953203070281516444602093704186420902350591196495808465815978278832042577407805702275900303385625789911681403650229163514422279596099901294389557686446505326852754540522189654841790538234678082918819355920628937003403340700380556480718595221099143007742755722530203785634103649524079869832187050932665554422398374626098628676126884482056070439862841246749906121522921244377802811752154109484975431805859392735507984375640821439105324234825500740128882874271302655411200

def gPos (q : Nat) : Nat := (packedPos >>> (10 * q)) &&& 1023

/-- key of the `n`-th write into `lookupPos` (Hilbert order), read off the packed `lookupIJ` -/
def keyPos (n : Nat) : Nat := ((gIJ (4 * (n % 256) + n / 256) >>> 2) <<< 2) + n / 256

def chkPos : List (Nat × Nat) → Nat → Bool
  | [], n => n == 1024
  | kv :: l, n => (kv.1 == keyPos n) && (kv.2 == gPos kv.1) && chkPos l (n + 1)

theorem chkPos_all : chkPos allLeavesPos 0 = true := by decide +kernel

theorem chkPos_spec (l : List (Nat × Nat)) (n : Nat) (h : chkPos l n = true) :
    (∀ kv ∈ l, kv.2 = gPos kv.1) ∧ ∀ m, n ≤ m → m < 1024 → ∃ kv ∈ l, kv.1 = keyPos m := by
  induction l generalizing n with
  | nil =>
    simp only [chkPos, beq_iff_eq] at h
    exact ⟨by simp, fun m h1 h2 => by omega⟩
  | cons kv l ih =>
    simp only [chkPos, Bool.and_eq_true, beq_iff_eq] at h
    obtain ⟨⟨h1, h2⟩, h3⟩ := h
    obtain ⟨ih1, ih2⟩ := ih (n + 1) h3
    refine ⟨?_, ?_⟩
    · intro kv' hkv'
      rcases List.mem_cons.mp hkv' with rfl | h'
      · exact h2
      · exact ih1 _ h'
    · intro m hm1 hm2
      by_cases hmn : m = n
      · subst hmn; exact ⟨kv, List.mem_cons_self, h1⟩
      · obtain ⟨kv', hkv', e⟩ := ih2 m (by omega) hm2
        exact ⟨kv', List.mem_cons_of_mem _ hkv', e⟩

/-- every index of `lookupPos` is written (inverse-table property of the packed literals) -/
theorem keyPos_cover : ∀ q < 1024, gPos q >>> 2 < 256 ∧ keyPos (256 * (q % 4) + (gPos q >>> 2)) = q := by
  decide +kernel

theorem lookupPos_val (q : Nat) (hq : q < 1024) : lookupPos[q]! = gPos q := by
  rw [lookupPos_get q hq]
  obtain ⟨h1, h2⟩ := chkPos_spec allLeavesPos 0 chkPos_all
  rcases lastWrite_of_consistent gPos q allLeavesPos 0 h1 with h | ⟨_, hn⟩
  · exact h
  · exfalso
    obtain ⟨hc, hk⟩ := keyPos_cover q hq
    obtain ⟨kv, hkv, e⟩ := h2 (256 * (q % 4) + (gPos q >>> 2)) (by omega) (by omega)
    apply hn kv hkv
    rw [e, hk]

/-- INVERSE TABLE LEMMA on the packed literals -/
theorem inv_packed : ∀ o < 4, ∀ a < 16, ∀ b < 16,
    gPos (o + (a <<< 6) + (b <<< 2)) >>> 2 < 256 ∧
    (2 ≤ o ∨ 4 ≤ a ∨ 4 ≤ b ∨ gPos (o + (a <<< 6) + (b <<< 2)) >>> 2 < 16) ∧
    gIJ (o + ((gPos (o + (a <<< 6) + (b <<< 2)) >>> 2) <<< 2)) =
      (((a <<< 4) + b) <<< 2) + (gPos (o + (a <<< 6) + (b <<< 2)) &&& 3) := by
  decide +kernel

/-- INVERSE TABLE LEMMA: `lookupIJ` undoes `lookupPos` -/
theorem lookup_inverse (o a b : Nat) (ho : o < 4) (ha : a < 16) (hb : b < 16) :
    lookupPos[o + (a <<< 6) + (b <<< 2)]! >>> 2 < 256 ∧
    (o < 2 → a < 4 → b < 4 → lookupPos[o + (a <<< 6) + (b <<< 2)]! >>> 2 < 16) ∧
    lookupIJ[o + ((lookupPos[o + (a <<< 6) + (b <<< 2)]! >>> 2) <<< 2)]! =
      (((a <<< 4) + b) <<< 2) + (lookupPos[o + (a <<< 6) + (b <<< 2)]! &&& 3) := by
  have hq : o + (a <<< 6) + (b <<< 2) < 1024 := by simp only [Nat.shiftLeft_eq]; omega
  obtain ⟨h1, h2, h3⟩ := inv_packed o ho a ha b hb
  rw [lookupPos_val _ hq]
  have hlt : ∀ c, c < 256 → o + (c <<< 2) < 1024 := by
    intro c hc; simp only [Nat.shiftLeft_eq]; omega
  refine ⟨h1, ?_, ?_⟩
  · intro ho2 ha4 hb4
    rcases h2 with h | h | h | h
    · omega
    · omega
    · omega
    · exact h
  · rw [lookupIJ_val _ (hlt _ h1)]
    exact h3

/-! ### the loop of `cellIDFromFaceIJ` -/

/-- the table entry used by step `k` of `cellIDFromFaceIJ` (verbatim index expression) -/
def rPos (i j o k : Nat) : Nat :=
  lookupPos[o + (((i >>> (k * lookupBits)) &&& ((1 <<< lookupBits) - 1)) <<< (lookupBits + 2))
      + (((j >>> (k * lookupBits)) &&& ((1 <<< lookupBits) - 1)) <<< 2)]!

/-- the step function inside `cellIDFromFaceIJ` -/
def posStep (i j : Nat) (st : UInt64 × Nat) (k : Nat) : UInt64 × Nat :=
  (st.1 ||| (UInt64.ofNat (rPos i j st.2 k >>> 2) <<< UInt64.ofNat (k * 2 * lookupBits)),
   rPos i j st.2 k &&& (swapMask ||| invertMask))

theorem cellIDFromFaceIJ_eq_fold (f i j : Nat) :
    cellIDFromFaceIJ f i j =
      ([7,6,5,4,3,2,1,0].foldl (posStep i j) (UInt64.ofNat f <<< 60, f &&& swapMask)).1 * 2 + 1 := rfl

theorem rPos_spec (i j o k : Nat) (ho : o < 4) :
    rPos i j o k >>> 2 < 256 ∧
    (o < 2 → i / 2 ^ (4 * k) < 4 → j / 2 ^ (4 * k) < 4 → rPos i j o k >>> 2 < 16) ∧
    lookupIJ[o + ((rPos i j o k >>> 2) <<< 2)]! =
      ((((i / 2 ^ (4 * k) % 16) <<< 4) + j / 2 ^ (4 * k) % 16) <<< 2) + (rPos i j o k &&& 3) := by
  have h15 : ∀ n : Nat, n &&& 15 = n % 16 := fun n => Nat.and_two_pow_sub_one_eq_mod n 4
  have e : rPos i j o k = lookupPos[o + ((i / 2 ^ (4 * k) % 16) <<< 6) + ((j / 2 ^ (4 * k) % 16) <<< 2)]! := by
    simp only [rPos, lookupBits, Nat.reduceShiftLeft, Nat.reduceSub, Nat.reduceAdd, h15,
      Nat.shiftRight_eq_div_pow, Nat.mul_comm k 4]
  rw [e]
  obtain ⟨h1, h2, h3⟩ := lookup_inverse o (i / 2 ^ (4 * k) % 16) (j / 2 ^ (4 * k) % 16) ho
    (Nat.mod_lt _ (by omega)) (Nat.mod_lt _ (by omega))
  refine ⟨h1, ?_, h3⟩
  intro ho2 hi hj
  exact h2 ho2 (Nat.lt_of_le_of_lt (Nat.mod_le _ _) hi) (Nat.lt_of_le_of_lt (Nat.mod_le _ _) hj)

/-- OR of a chunk below the already-placed high part is addition -/
theorem or_chunk (H c s w : Nat) (hc : c < 2 ^ w) :
    H * 2 ^ (s + w) ||| c * 2 ^ s = (H * 2 ^ w + c) * 2 ^ s := by
  have hlt : c * 2 ^ s < 2 ^ (s + w) := by
    rw [Nat.pow_add, Nat.mul_comm (2 ^ s)]
    exact Nat.mul_lt_mul_of_pos_right hc (Nat.two_pow_pos s)
  have := Nat.shiftLeft_add_eq_or_of_lt hlt H
  rw [Nat.shiftLeft_eq] at this
  rw [← this, Nat.pow_add]
  ring

theorem unpack_val (a b t : Nat) (hb : b < 16) (ht : t < 4) :
    ((((a <<< 4) + b) <<< 2) + t) >>> 6 = a ∧ (((((a <<< 4) + b) <<< 2) + t) >>> 2) &&& 15 = b ∧
      ((((a <<< 4) + b) <<< 2) + t) &&& 3 = t := by
  have h15 : ∀ n : Nat, n &&& 15 = n % 16 := fun n => Nat.and_two_pow_sub_one_eq_mod n 4
  have h3 : ∀ n : Nat, n &&& 3 = n % 4 := fun n => Nat.and_two_pow_sub_one_eq_mod n 2
  simp only [h15, h3, Nat.shiftLeft_eq, Nat.shiftRight_eq_div_pow]
  omega

theorem and3_lt (n : Nat) : n &&& 3 < 4 := by
  rw [Nat.and_two_pow_sub_one_eq_mod n 2]; omega

/-- a chunk step of `faceIJOrientation` on a chunk whose table entry is known -/
theorem chunkStep_lo_val (x : CellID) (I J o k a b c t : Nat) (hk : k ≤ 6)
    (hb : b < 16) (ht : t < 4) (hx : x.toNat / 2 ^ (8 * k + 1) % 256 = c)
    (hv : lookupIJ[o + (c <<< 2)]! = (((a <<< 4) + b) <<< 2) + t) :
    chunkStep x (I, J, o) k = (I + a * 2 ^ (4 * k), J + b * 2 ^ (4 * k), t) := by
  obtain ⟨h1, h2, h3⟩ := unpack_val a b t hb ht
  rw [chunkStep_lo x I J o k hk, hx, hv, h1, h2, h3]

theorem chunkStep_hi_val (x : CellID) (I J o a b c t : Nat)
    (hb : b < 16) (ht : t < 4) (hx : x.toNat / 2 ^ 57 % 16 = c)
    (hv : lookupIJ[o + (c <<< 2)]! = (((a <<< 4) + b) <<< 2) + t) :
    chunkStep x (I, J, o) 7 = (I + a * 2 ^ 28, J + b * 2 ^ 28, t) := by
  obtain ⟨h1, h2, h3⟩ := unpack_val a b t hb ht
  rw [chunkStep_hi x I J o, hx, hv, h1, h2, h3]


theorem ofNat_shift_toNat (c s : Nat) (hs : s < 64) (hc : c * 2 ^ s < 2 ^ 64) :
    (UInt64.ofNat c <<< UInt64.ofNat s).toNat = c * 2 ^ s := by
  have hpos := Nat.two_pow_pos s
  have hc' : c < 2 ^ 64 := by
    calc c ≤ c * 2 ^ s := Nat.le_mul_of_pos_right _ hpos
      _ < 2 ^ 64 := hc
  rw [UInt64.toNat_shiftLeft, UInt64.toNat_ofNat', UInt64.toNat_ofNat', Nat.mod_eq_of_lt hc',
    Nat.mod_eq_of_lt (by omega : s < 2 ^ 64), Nat.mod_eq_of_lt hs, Nat.shiftLeft_eq, Nat.mod_eq_of_lt hc]

theorem sum_chunks (i : Nat) (hi : i < 1073741824) :
    0 + i / 2 ^ (4 * 7) % 16 * 2 ^ 28 + i / 2 ^ (4 * 6) % 16 * 2 ^ (4 * 6) + i / 2 ^ (4 * 5) % 16 * 2 ^ (4 * 5) +
      i / 2 ^ (4 * 4) % 16 * 2 ^ (4 * 4) + i / 2 ^ (4 * 3) % 16 * 2 ^ (4 * 3) + i / 2 ^ (4 * 2) % 16 * 2 ^ (4 * 2) +
      i / 2 ^ (4 * 1) % 16 * 2 ^ (4 * 1) + i / 2 ^ (4 * 0) % 16 * 2 ^ (4 * 0) = i := by
  simp only [Nat.reduceMul, Nat.reducePow]
  omega

/-- THE HILBERT BIJECTION on leaf cells: `faceIJOrientation` inverts `cellIDFromFaceIJ` -/
theorem hilbertBijection : ∀ f i j : Nat, f < 6 → i < 1073741824 → j < 1073741824 →
    IsCell (cellIDFromFaceIJ f i j) 30 ∧
    (faceIJOrientation (cellIDFromFaceIJ f i j)).1 = f ∧
    (faceIJOrientation (cellIDFromFaceIJ f i j)).2.1 = i ∧
    (faceIJOrientation (cellIDFromFaceIJ f i j)).2.2.1 = j := by
  intro f i j hf hi hj
  have ho8 : f &&& swapMask < 2 := by
    have := Nat.and_two_pow_sub_one_eq_mod f 1
    simp only [Nat.pow_one, Nat.reduceSub] at this
    simp only [swapMask]; omega
  -- the eight table entries, with the orientation threaded through
  obtain ⟨c7, hc7, v7⟩ := rPos_spec i j (f &&& swapMask) 7 (by omega)
  have c7' := hc7 ho8 (by simp only [Nat.reduceMul, Nat.reducePow]; omega) (by simp only [Nat.reduceMul, Nat.reducePow]; omega)
  clear hc7
  generalize hr7 : rPos i j (f &&& swapMask) 7 = r7 at c7 c7' v7
  obtain ⟨c6, -, v6⟩ := rPos_spec i j (r7 &&& 3) 6 (and3_lt _)
  generalize hr6 : rPos i j (r7 &&& 3) 6 = r6 at c6 v6
  obtain ⟨c5, -, v5⟩ := rPos_spec i j (r6 &&& 3) 5 (and3_lt _)
  generalize hr5 : rPos i j (r6 &&& 3) 5 = r5 at c5 v5
  obtain ⟨c4, -, v4⟩ := rPos_spec i j (r5 &&& 3) 4 (and3_lt _)
  generalize hr4 : rPos i j (r5 &&& 3) 4 = r4 at c4 v4
  obtain ⟨c3, -, v3⟩ := rPos_spec i j (r4 &&& 3) 3 (and3_lt _)
  generalize hr3 : rPos i j (r4 &&& 3) 3 = r3 at c3 v3
  obtain ⟨c2, -, v2⟩ := rPos_spec i j (r3 &&& 3) 2 (and3_lt _)
  generalize hr2 : rPos i j (r3 &&& 3) 2 = r2 at c2 v2
  obtain ⟨c1, -, v1⟩ := rPos_spec i j (r2 &&& 3) 1 (and3_lt _)
  generalize hr1 : rPos i j (r2 &&& 3) 1 = r1 at c1 v1
  obtain ⟨c0, -, v0⟩ := rPos_spec i j (r1 &&& 3) 0 (and3_lt _)
  generalize hr0 : rPos i j (r1 &&& 3) 0 = r0 at c0 v0
  -- the word
  have hx : (cellIDFromFaceIJ f i j).toNat =
      2 * (f * 2 ^ 60 + (r7 >>> 2) * 2 ^ 56 + (r6 >>> 2) * 2 ^ 48 + (r5 >>> 2) * 2 ^ 40 + (r4 >>> 2) * 2 ^ 32
        + (r3 >>> 2) * 2 ^ 24 + (r2 >>> 2) * 2 ^ 16 + (r1 >>> 2) * 2 ^ 8 + (r0 >>> 2)) + 1 := by
    rw [cellIDFromFaceIJ_eq_fold]
    simp only [List.foldl_cons, List.foldl_nil, posStep, swapMask, invertMask, lookupBits, Nat.reduceOr,
      Nat.reduceMul]
    simp only [swapMask] at hr7
    simp only [hr7, hr6, hr5, hr4, hr3, hr2, hr1, hr0]
    rw [UInt64.toNat_add, UInt64.toNat_mul]
    simp only [UInt64.toNat_or]
    have e60 : (UInt64.ofNat f <<< 60).toNat = f * 2 ^ 60 :=
      ofNat_shift_toNat f 60 (by omega) (by omega)
    rw [e60, ofNat_shift_toNat _ 56 (by omega) (by omega), ofNat_shift_toNat _ 48 (by omega) (by omega),
      ofNat_shift_toNat _ 40 (by omega) (by omega), ofNat_shift_toNat _ 32 (by omega) (by omega),
      ofNat_shift_toNat _ 24 (by omega) (by omega), ofNat_shift_toNat _ 16 (by omega) (by omega),
      ofNat_shift_toNat _ 8 (by omega) (by omega), ofNat_shift_toNat _ 0 (by omega) (by omega)]
    rw [or_chunk f _ 56 4 c7', or_chunk _ _ 48 8 c6, or_chunk _ _ 40 8 c5, or_chunk _ _ 32 8 c4,
      or_chunk _ _ 24 8 c3, or_chunk _ _ 16 8 c2, or_chunk _ _ 8 8 c1, or_chunk _ _ 0 8 c0]
    have : (2 : UInt64).toNat = 2 := rfl
    rw [this, one_toNat]
    omega
  generalize cellIDFromFaceIJ f i j = x at hx ⊢
  simp only [Nat.reducePow] at hx c7' c6 c5 c4 c3 c2 c1 c0
  have hcell : IsCell x 30 := by
    refine ⟨by omega, ?_, ?_⟩
    · simp only [Nat.reducePow, Nat.reduceMul]; omega
    · simp only [Nat.reducePow, Nat.reduceMul, Nat.reduceSub]; omega
  have hface : face x = f := by
    rw [face_toNat]; simp only [Nat.reducePow]; omega
  have x7 : x.toNat / 2 ^ 57 % 16 = r7 >>> 2 := by simp only [Nat.reducePow]; omega
  have x6 : x.toNat / 2 ^ (8 * 6 + 1) % 256 = r6 >>> 2 := by simp only [Nat.reducePow, Nat.reduceMul, Nat.reduceAdd]; omega
  have x5 : x.toNat / 2 ^ (8 * 5 + 1) % 256 = r5 >>> 2 := by simp only [Nat.reducePow, Nat.reduceMul, Nat.reduceAdd]; omega
  have x4 : x.toNat / 2 ^ (8 * 4 + 1) % 256 = r4 >>> 2 := by simp only [Nat.reducePow, Nat.reduceMul, Nat.reduceAdd]; omega
  have x3 : x.toNat / 2 ^ (8 * 3 + 1) % 256 = r3 >>> 2 := by simp only [Nat.reducePow, Nat.reduceMul, Nat.reduceAdd]; omega
  have x2 : x.toNat / 2 ^ (8 * 2 + 1) % 256 = r2 >>> 2 := by simp only [Nat.reducePow, Nat.reduceMul, Nat.reduceAdd]; omega
  have x1 : x.toNat / 2 ^ (8 * 1 + 1) % 256 = r1 >>> 2 := by simp only [Nat.reducePow, Nat.reduceMul, Nat.reduceAdd]; omega
  have x0 : x.toNat / 2 ^ (8 * 0 + 1) % 256 = r0 >>> 2 := by simp only [Nat.reducePow, Nat.reduceMul, Nat.reduceAdd]; omega
  have hm : ∀ n : Nat, n % 16 < 16 := fun n => Nat.mod_lt _ (by omega)
  have hfold : [7,6,5,4,3,2,1,0].foldl (chunkStep x) (0, 0, face x &&& swapMask) = (i, j, r0 &&& 3) := by
    simp only [List.foldl_cons, List.foldl_nil]
    rw [hface,
      chunkStep_hi_val x _ _ _ _ _ _ _ (hm _) (and3_lt _) x7 v7,
      chunkStep_lo_val x _ _ _ 6 _ _ _ _ (by omega) (hm _) (and3_lt _) x6 v6,
      chunkStep_lo_val x _ _ _ 5 _ _ _ _ (by omega) (hm _) (and3_lt _) x5 v5,
      chunkStep_lo_val x _ _ _ 4 _ _ _ _ (by omega) (hm _) (and3_lt _) x4 v4,
      chunkStep_lo_val x _ _ _ 3 _ _ _ _ (by omega) (hm _) (and3_lt _) x3 v3,
      chunkStep_lo_val x _ _ _ 2 _ _ _ _ (by omega) (hm _) (and3_lt _) x2 v2,
      chunkStep_lo_val x _ _ _ 1 _ _ _ _ (by omega) (hm _) (and3_lt _) x1 v1,
      chunkStep_lo_val x _ _ _ 0 _ _ _ _ (by omega) (hm _) (and3_lt _) x0 v0]
    rw [sum_chunks i hi, sum_chunks j hj]
  refine ⟨hcell, ?_, ?_, ?_⟩
  · rw [faceIJOrientation_eq_fold]; exact hface
  · rw [faceIJOrientation_eq_fold, hfold]
  · rw [faceIJOrientation_eq_fold, hfold]

/-- the hypotheses are satisfiable (face 5, a generic (i, j)) -/
example : (5 : Nat) < 6 ∧ (123456789 : Nat) < 1073741824 ∧ (987654321 : Nat) < 1073741824 := by decide

end S2Proofs.C12H

#print axioms S2Proofs.C12H.hilbertBijection
#print axioms S2Proofs.C12H.lookup_inverse
