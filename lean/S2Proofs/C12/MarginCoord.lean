/-
  S2Proofs.C12.MarginCoord — one coordinate of `CellFromPoint(p).ContainsPoint(p)`:
  for a finite float `u ∈ [-1,1]` and a grid point `a = k/2^30`,
     a ≤ uvToST(u)  ⟹  stToUV(a) − 4E ≤ u          (`coord_lo`)
     uvToST(u) < a  ⟹  u ≤ stToUV(a) + 4E          (`coord_hi`)
  in exact arithmetic on the float values (`4E = 2^-51 = 2·dblEpsilon`), plus finiteness and monotonicity of
  `stToUV` on the grid.
-/
import S2Proofs.C12.MarginST

set_option linter.unusedSimpArgs false
set_option linter.unusedVariables false

namespace S2Proofs.C12M
open S2 S2.STUV S2.CellM S2.Exact S2Proofs.F64Order S2Proofs.F64Inj S2Proofs.F64Round S2Proofs.C12ST

theorem val_g (k : Nat) (hk : k ≤ 2 ^ 30) : val (g k) = (k : ℚ) / 2 ^ 30 := val_grid (g_spec k hk).2

/-- floats of magnitude at least 1/4 lie on the grid of spacing `2^-54 = E/2` -/
theorem val_grid54 (x : F64) (h : 1 / 4 ≤ |val x|) : ∃ n : Int, val x = n * (E / 2) := by
  have h2 : (2 : Int) ^ 1072 ≤ |toInt x| := by
    have hU : U = 4 * 2 ^ 1072 := by unfold U; rw [show (4 : ℚ) = 2 ^ 2 by norm_num, ← pow_add]
    have : (2 : ℚ) ^ 1072 ≤ |(toInt x : ℚ)| := by
      unfold val at h
      rw [abs_div, abs_of_pos U_pos, le_div_iff₀ U_pos, hU] at h
      linarith
    rw [← Int.cast_abs] at this
    exact_mod_cast this
  obtain ⟨n, hn⟩ := toInt_dvd_of_le x 1072 (by decide) h2
  simp only [show 1072 - 52 = 1020 from rfl] at hn
  refine ⟨n, ?_⟩
  unfold val U E
  rw [hn]
  have hU : (2 : ℚ) ^ 1074 = 2 ^ 54 * 2 ^ 1020 := by rw [← pow_add]
  rw [hU]; push_cast
  have hp : (0 : ℚ) < 2 ^ 1020 := by positivity
  generalize (2 : ℚ) ^ 1020 = P at *
  field_simp


theorem grid_diff (x y : F64) (σ : ℚ) (hσ : σ = 1 ∨ σ = -1) :
    1 / 4 ≤ σ * val x → 1 / 4 ≤ σ * val y → ∃ n : Int, σ * val x - σ * val y = n * (E / 2) := by
  intro hx hy
  have ax : 1 / 4 ≤ |val x| := by
    rcases hσ with rfl | rfl
    · exact le_trans hx (by rw [one_mul]; exact le_abs_self _)
    · exact le_trans hx (by rw [neg_one_mul]; exact neg_le_abs _)
  have ay : 1 / 4 ≤ |val y| := by
    rcases hσ with rfl | rfl
    · exact le_trans hy (by rw [one_mul]; exact le_abs_self _)
    · exact le_trans hy (by rw [neg_one_mul]; exact neg_le_abs _)
  obtain ⟨n1, h1⟩ := val_grid54 x ax
  obtain ⟨n2, h2⟩ := val_grid54 y ay
  rcases hσ with rfl | rfl
  · exact ⟨n1 - n2, by rw [h1, h2]; push_cast; ring⟩
  · exact ⟨n2 - n1, by rw [h1, h2]; push_cast; ring⟩

theorem stToUV_g_zero : stToUV (g 0) = F64.neg F64.one := by decide +kernel
theorem stToUV_g_half : stToUV (g (2 ^ 29)) = F64.zero false := by decide +kernel
theorem stToUV_g_one : stToUV (g (2 ^ 30)) = F64.one := by decide +kernel

theorem tau_nonneg {p : ℚ} (hp : 1 ≤ p) : 0 ≤ (1 - E / 2) / 3 * (p - 1) := by
  have := E_le
  exact mul_nonneg (by linarith) (by linarith)

/-- **lower side**: if the grid point `k/2^30` is at most `uvToST u` (or `k = 0`), then `u` is at least `stToUV (k/2^30) − 4E`. -/
theorem coord_lo (u : F64) (hu : F64Order.Fin u) (h1 : -1 ≤ val u) (h2 : val u ≤ 1) (k : Nat) (hk : k ≤ 2 ^ 30)
    (h : k = 0 ∨ val (g k) ≤ val (uvToST u)) : val (stToUV (g k)) - 4 * E ≤ val u := by
  have hE := E_pos
  have hE1 := E_le
  rcases Nat.eq_zero_or_pos k with rfl | hk0
  · rw [stToUV_g_zero, val_neg, val_one]; linarith
  have ha : (k : ℚ) / 2 ^ 30 ≤ val (uvToST u) := by
    rcases h with h | h
    · omega
    · rwa [val_g k hk] at h
  obtain ⟨fs, spos, sneg⟩ := uvToST_spec u hu h1 h2
  obtain ⟨ft, t1, t4, q, eq, et⟩ := t_spec u hu h1 h2
  obtain ⟨fr, r1, r2, rlo, rhi⟩ := r_spec (tOf u) ft t1 t4
  rw [abs_le] at eq et
  have hkq : (k : ℚ) ≤ 2 ^ 30 := by exact_mod_cast hk
  by_cases hpos : 0 ≤ val u
  · rw [spos hpos] at ha
    rw [abs_of_nonneg hpos] at eq
    by_cases hk1 : 2 ^ 29 ≤ k
    · obtain ⟨fw, p, ep, p1, p4, ew⟩ := wpos_spec k hk1 hk
      rw [abs_le] at ep ew
      have hkq1 : (2 : ℚ) ^ 29 ≤ k := by exact_mod_cast hk1
      have hc : (k : ℚ) / 2 ^ 29 ≤ val (F64.sqrt (tOf u)) := by
        have : (k : ℚ) / 2 ^ 29 = 2 * ((k : ℚ) / 2 ^ 30) := by field_simp
        rw [this]; linarith
      have hs := rlo k hk1 hk hc
      have hc1 : (1 : ℚ) ≤ (k : ℚ) / 2 ^ 29 := by rw [le_div_iff₀ (by positivity)]; linarith
      have hc2 : (k : ℚ) / 2 ^ 29 ≤ 2 := by rw [div_le_iff₀ (by positivity)]; linarith
      have := p1core E ((k : ℚ) / 2 ^ 29) p (val (stToUV (g k))) (val u) q (val (tOf u)) (le_of_lt hE) hc1 hc2 p1
        (by linarith) (by linarith) (by linarith) (by linarith) hs
      linarith
    · have hk1' : k < 2 ^ 29 := not_le.1 hk1
      obtain ⟨fw, p, ep, p1, p4, ew⟩ := wneg_spec k hk1'
      rw [abs_le] at ew
      have := tau_nonneg p1
      linarith
  · have hneg : val u < 0 := not_le.1 hpos
    rw [sneg hneg] at ha
    rw [abs_of_neg hneg] at eq
    have hk1 : k ≤ 2 ^ 29 := by
      have : (k : ℚ) ≤ 2 ^ 29 := by
        have : (k : ℚ) / 2 ^ 30 ≤ 1 / 2 := by linarith
        rw [div_le_iff₀ (by positivity)] at this
        linarith
      exact_mod_cast this
    rcases Nat.lt_or_eq_of_le hk1 with hlt | heq
    · obtain ⟨fw, p, ep, p1, p4, ew⟩ := wneg_spec k hlt
      rw [abs_le] at ep ew
      have hj : ((2 ^ 30 - k : Nat) : ℚ) = 2 ^ 30 - (k : ℚ) := by
        rw [Nat.cast_sub hk]; push_cast; ring
      have hkq1 : (k : ℚ) < 2 ^ 29 := by exact_mod_cast hlt
      have hcd : ((2 ^ 30 - k : Nat) : ℚ) / 2 ^ 29 = 2 - 2 * ((k : ℚ) / 2 ^ 30) := by
        rw [hj]; field_simp
      have hc : val (F64.sqrt (tOf u)) ≤ ((2 ^ 30 - k : Nat) : ℚ) / 2 ^ 29 := by rw [hcd]; linarith
      have hs := rhi (2 ^ 30 - k) (by omega) (by omega) hc
      have hk0q : (0 : ℚ) < k := by exact_mod_cast hk0
      have hkd : (0 : ℚ) < (k : ℚ) / 2 ^ 30 := by positivity
      have hkd2 : (k : ℚ) / 2 ^ 30 < 1 / 2 := by rw [div_lt_iff₀ (by positivity)]; linarith
      have hc1 : (1 : ℚ) ≤ ((2 ^ 30 - k : Nat) : ℚ) / 2 ^ 29 := by rw [hcd]; linarith
      have hc2 : ((2 ^ 30 - k : Nat) : ℚ) / 2 ^ 29 ≤ 2 := by rw [hcd]; linarith
      have hg := grid_diff u (stToUV (g k)) (-1) (Or.inr rfl)
      have := p2full E (((2 ^ 30 - k : Nat) : ℚ) / 2 ^ 29) p (-val (stToUV (g k))) (-val u) q (val (tOf u)) hE hE1
        hc1 hc2 p4 p1 (by linarith) (by linarith) (by linarith) (by linarith) (by linarith) hs
        (by
          intro hv hw
          have := hg (by linarith) (by linarith)
          simpa using this)
      linarith
    · subst heq
      rw [stToUV_g_half, val_zero]
      have hc : val (F64.sqrt (tOf u)) ≤ ((2 ^ 29 : Nat) : ℚ) / 2 ^ 29 := by
        have : ((2 ^ 29 : Nat) : ℚ) / 2 ^ 30 = 1 / 2 := by norm_num
        rw [this] at ha
        have : ((2 ^ 29 : Nat) : ℚ) / 2 ^ 29 = 1 := by norm_num
        rw [this]; linarith
      have hs := rhi (2 ^ 29) (le_refl _) (by decide) hc
      have hc1 : ((2 ^ 29 : Nat) : ℚ) / 2 ^ 29 = 1 := by norm_num
      rw [hc1] at hs
      have := p2core_low E 1 1 0 (-val u) q (val (tOf u)) (le_of_lt hE) hE1 (le_refl _) (by norm_num) (le_refl _)
        (by linarith) (by linarith) (by linarith) (by linarith) (by linarith) hs
      linarith

/-- **upper side**: if `uvToST u` is below the grid point `k/2^30` (or `k = 2^30`), then `u ≤ stToUV (k/2^30) + 4E`. -/
theorem coord_hi (u : F64) (hu : F64Order.Fin u) (h1 : -1 ≤ val u) (h2 : val u ≤ 1) (k : Nat) (hk : k ≤ 2 ^ 30)
    (h : k = 2 ^ 30 ∨ val (uvToST u) < val (g k)) : val u ≤ val (stToUV (g k)) + 4 * E := by
  have hE := E_pos
  have hE1 := E_le
  rcases Nat.lt_or_eq_of_le hk with hklt | rfl
  swap
  · rw [stToUV_g_one, val_one]; linarith
  have ha : val (uvToST u) < (k : ℚ) / 2 ^ 30 := by
    rcases h with h | h
    · omega
    · rwa [val_g k hk] at h
  obtain ⟨fs, spos, sneg⟩ := uvToST_spec u hu h1 h2
  obtain ⟨ft, t1, t4, q, eq, et⟩ := t_spec u hu h1 h2
  obtain ⟨fr, r1, r2, rlo, rhi⟩ := r_spec (tOf u) ft t1 t4
  rw [abs_le] at eq et
  have hkq : (k : ℚ) < 2 ^ 30 := by exact_mod_cast hklt
  by_cases hpos : 0 ≤ val u
  · rw [spos hpos] at ha
    rw [abs_of_nonneg hpos] at eq
    have hk1 : 2 ^ 29 ≤ k := by
      have : (2 : ℚ) ^ 29 ≤ k := by
        have : (1 : ℚ) / 2 < (k : ℚ) / 2 ^ 30 := by linarith
        rw [lt_div_iff₀ (by positivity)] at this
        linarith
      exact_mod_cast this
    obtain ⟨fw, p, ep, p1, p4, ew⟩ := wpos_spec k hk1 hk
    rw [abs_le] at ep ew
    have hkq1 : (2 : ℚ) ^ 29 ≤ k := by exact_mod_cast hk1
    have hc : val (F64.sqrt (tOf u)) ≤ (k : ℚ) / 2 ^ 29 := by
      have : (k : ℚ) / 2 ^ 29 = 2 * ((k : ℚ) / 2 ^ 30) := by field_simp
      rw [this]; linarith
    have hs := rhi k hk1 hk hc
    have hc1 : (1 : ℚ) ≤ (k : ℚ) / 2 ^ 29 := by rw [le_div_iff₀ (by positivity)]; linarith
    have hc2 : (k : ℚ) / 2 ^ 29 ≤ 2 := by rw [div_le_iff₀ (by positivity)]; linarith
    have hg := grid_diff u (stToUV (g k)) 1 (Or.inl rfl)
    have := p2full E ((k : ℚ) / 2 ^ 29) p (val (stToUV (g k))) (val u) q (val (tOf u)) hE hE1
      hc1 hc2 p4 p1 (by linarith) (by linarith) (by linarith) (by linarith) (by linarith) hs
      (by
        intro hv hw
        have := hg (by linarith) (by linarith)
        simpa using this)
    linarith
  · have hneg : val u < 0 := not_le.1 hpos
    rw [sneg hneg] at ha
    rw [abs_of_neg hneg] at eq
    by_cases hk1 : 2 ^ 29 ≤ k
    · obtain ⟨fw, p, ep, p1, p4, ew⟩ := wpos_spec k hk1 hk
      rw [abs_le] at ew
      have := tau_nonneg p1
      linarith
    · have hk1' : k < 2 ^ 29 := not_le.1 hk1
      obtain ⟨fw, p, ep, p1, p4, ew⟩ := wneg_spec k hk1'
      rw [abs_le] at ep ew
      have hj : ((2 ^ 30 - k : Nat) : ℚ) = 2 ^ 30 - (k : ℚ) := by
        rw [Nat.cast_sub hk]; push_cast; ring
      have hkq1 : (k : ℚ) < 2 ^ 29 := by exact_mod_cast hk1'
      have hcd : ((2 ^ 30 - k : Nat) : ℚ) / 2 ^ 29 = 2 - 2 * ((k : ℚ) / 2 ^ 30) := by
        rw [hj]; field_simp
      have hc : ((2 ^ 30 - k : Nat) : ℚ) / 2 ^ 29 ≤ val (F64.sqrt (tOf u)) := by rw [hcd]; linarith
      have hs := rlo (2 ^ 30 - k) (by omega) (by omega) hc
      have hk0q : (0 : ℚ) ≤ k := by positivity
      have hkd : (0 : ℚ) ≤ (k : ℚ) / 2 ^ 30 := by positivity
      have hkd2 : (k : ℚ) / 2 ^ 30 < 1 / 2 := by rw [div_lt_iff₀ (by positivity)]; linarith
      have hc1 : (1 : ℚ) ≤ ((2 ^ 30 - k : Nat) : ℚ) / 2 ^ 29 := by rw [hcd]; linarith
      have hc2 : ((2 ^ 30 - k : Nat) : ℚ) / 2 ^ 29 ≤ 2 := by rw [hcd]; linarith
      have := p1core E (((2 ^ 30 - k : Nat) : ℚ) / 2 ^ 29) p (-val (stToUV (g k))) (-val u) q (val (tOf u))
        (le_of_lt hE) hc1 hc2 p1 (by linarith) (by linarith) (by linarith) (by linarith) hs
      linarith

/-! ### `stToUV` on the grid: finite, close to the real map, monotone -/

theorem fin_stToUV_g (k : Nat) (hk : k ≤ 2 ^ 30) : F64Order.Fin (stToUV (g k)) := by
  by_cases hk1 : 2 ^ 29 ≤ k
  · exact (wpos_spec k hk1 hk).1
  · exact (wneg_spec k (not_le.1 hk1)).1

/-- the real map `s ↦ u` at the grid point `k/2^30` -/
def uReal (k : Nat) : ℚ :=
  if 2 ^ 29 ≤ k then (((k : ℚ) / 2 ^ 29) * ((k : ℚ) / 2 ^ 29) - 1) / 3
  else -((((2 ^ 30 - k : Nat) : ℚ) / 2 ^ 29) * (((2 ^ 30 - k : Nat) : ℚ) / 2 ^ 29) - 1) / 3

theorem w_closed (e c p w : ℚ) (he : 0 ≤ e) (he1 : e ≤ 1 / 16) (hp1 : 1 ≤ p) (hp4 : p ≤ 4)
    (hp : |p - c * c| ≤ 2 * e) (hw : |w - (1 - e / 2) / 3 * (p - 1)| ≤ e / 2) :
    |w - (c * c - 1) / 3| ≤ 2 * e := by
  rw [abs_le] at hp hw ⊢
  have h3 : e / 2 * (p - 1) ≤ e / 2 * 3 := mul_le_mul_of_nonneg_left (by linarith) (by linarith)
  have h3' : 0 ≤ e / 2 * (p - 1) := mul_nonneg (by linarith) (by linarith)
  have h4 : (1 - e / 2) / 3 * (p - 1) = (p - 1) / 3 - (e / 2 * (p - 1)) / 3 := by ring
  rw [h4] at hw
  constructor <;> linarith

/-- the float `stToUV (k/2^30)` is within `2E` of the real value -/
theorem stToUV_g_close (k : Nat) (hk : k ≤ 2 ^ 30) : |val (stToUV (g k)) - uReal k| ≤ 2 * E := by
  have hE := E_pos
  have hE1 := E_le
  unfold uReal
  by_cases hk1 : 2 ^ 29 ≤ k
  · rw [if_pos hk1]
    obtain ⟨fw, p, ep, p1, p4, ew⟩ := wpos_spec k hk1 hk
    exact w_closed E _ p _ (le_of_lt hE) hE1 p1 p4 ep ew
  · rw [if_neg hk1]
    obtain ⟨fw, p, ep, p1, p4, ew⟩ := wneg_spec k (not_le.1 hk1)
    have := w_closed E _ p _ (le_of_lt hE) hE1 p1 p4 ep ew
    rw [abs_le] at this ⊢
    constructor <;> linarith

theorem uReal_gap (k1 k2 : Nat) (h12 : k1 < k2) (hk : k2 ≤ 2 ^ 30) : uReal k1 + 4 * E ≤ uReal k2 := by
  have hq12 : (k1 : ℚ) + 1 ≤ k2 := by exact_mod_cast h12
  have hq2 : (k2 : ℚ) ≤ 2 ^ 30 := by exact_mod_cast hk
  have hE : 4 * E ≤ 1 / 2 ^ 29 / 3 := by unfold E; norm_num
  have key : ∀ a b : ℚ, 1 ≤ a → a + 1 / 2 ^ 29 ≤ b → (a * a - 1) / 3 + 1 / 2 ^ 29 / 3 ≤ (b * b - 1) / 3 := by
    intro a b ha hab
    have h0 : (0 : ℚ) < 1 / 2 ^ 29 := by positivity
    nlinarith
  unfold uReal
  by_cases h2 : 2 ^ 29 ≤ k2
  · rw [if_pos h2]
    have hc2 : (k2 : ℚ) / 2 ^ 29 = (k2 : ℚ) * (1 / 2 ^ 29) := by ring
    by_cases h1 : 2 ^ 29 ≤ k1
    · rw [if_pos h1]
      have hq1 : (2 : ℚ) ^ 29 ≤ k1 := by exact_mod_cast h1
      have ha : (1 : ℚ) ≤ (k1 : ℚ) / 2 ^ 29 := by rw [le_div_iff₀ (by positivity)]; linarith
      have hab : (k1 : ℚ) / 2 ^ 29 + 1 / 2 ^ 29 ≤ (k2 : ℚ) / 2 ^ 29 := by
        rw [← add_div]; exact div_le_div_of_nonneg_right hq12 (by positivity)
      have := key _ _ ha hab
      linarith
    · rw [if_neg h1]
      have h1' : k1 < 2 ^ 29 := not_le.1 h1
      have hj : ((2 ^ 30 - k1 : Nat) : ℚ) = 2 ^ 30 - (k1 : ℚ) := by
        rw [Nat.cast_sub (by omega)]; push_cast; ring
      have hq1 : (k1 : ℚ) + 1 ≤ 2 ^ 29 := by exact_mod_cast h1'
      have hq2' : (2 : ℚ) ^ 29 ≤ k2 := by exact_mod_cast h2
      have hb : (1 : ℚ) + 1 / 2 ^ 29 ≤ ((2 ^ 30 - k1 : Nat) : ℚ) / 2 ^ 29 := by
        rw [hj, le_div_iff₀ (by positivity)]
        have : ((1 : ℚ) + 1 / 2 ^ 29) * 2 ^ 29 = 2 ^ 29 + 1 := by norm_num
        rw [this]; linarith
      have := key 1 _ (le_refl _) hb
      have hb2 : (1 : ℚ) ≤ (k2 : ℚ) / 2 ^ 29 := by rw [le_div_iff₀ (by positivity)]; linarith
      have : (0 : ℚ) ≤ ((k2 : ℚ) / 2 ^ 29 * ((k2 : ℚ) / 2 ^ 29) - 1) / 3 := by nlinarith
      linarith
  · rw [if_neg h2]
    have h2' : k2 < 2 ^ 29 := not_le.1 h2
    have h1 : ¬ 2 ^ 29 ≤ k1 := by omega
    rw [if_neg h1]
    have hj1 : ((2 ^ 30 - k1 : Nat) : ℚ) = 2 ^ 30 - (k1 : ℚ) := by
      rw [Nat.cast_sub (by omega)]; push_cast; ring
    have hj2 : ((2 ^ 30 - k2 : Nat) : ℚ) = 2 ^ 30 - (k2 : ℚ) := by
      rw [Nat.cast_sub (by omega)]; push_cast; ring
    have hq2' : (k2 : ℚ) ≤ 2 ^ 29 := by exact_mod_cast (le_of_lt h2')
    have ha : (1 : ℚ) ≤ ((2 ^ 30 - k2 : Nat) : ℚ) / 2 ^ 29 := by
      rw [hj2, le_div_iff₀ (by positivity)]; linarith
    have hab : ((2 ^ 30 - k2 : Nat) : ℚ) / 2 ^ 29 + 1 / 2 ^ 29 ≤ ((2 ^ 30 - k1 : Nat) : ℚ) / 2 ^ 29 := by
      rw [← add_div, hj1, hj2]; exact div_le_div_of_nonneg_right (by linarith) (by positivity)
    have := key _ _ ha hab
    linarith

/-- `stToUV` is monotone on the grid -/
theorem stToUV_g_mono (k1 k2 : Nat) (h12 : k1 ≤ k2) (hk : k2 ≤ 2 ^ 30) :
    val (stToUV (g k1)) ≤ val (stToUV (g k2)) := by
  rcases Nat.lt_or_eq_of_le h12 with hlt | rfl
  · have c1 := stToUV_g_close k1 (by omega)
    have c2 := stToUV_g_close k2 hk
    have gap := uReal_gap k1 k2 hlt hk
    rw [abs_le] at c1 c2
    linarith
  · exact le_refl _

end S2Proofs.C12M
