/-
  S2Proofs.C12.MarginOps — value-level specifications (over ℚ) of the float operations inside `stToUV` (on grid
  points) and `uvToST` (on floats in [-1,1]), as needed by the margin analysis of `Cell.ContainsPoint`.
  `E = 2^-53` is the unit roundoff; `dblEpsilon = 2E`, the margin `2·dblEpsilon = 4E`.
-/
import S2.CellM
import S2Proofs.F64Round
import S2Proofs.C12.STExact
import S2Proofs.C12.MarginRound
import S2Proofs.C12.MarginCore

set_option linter.unusedSimpArgs false
set_option linter.unusedVariables false

namespace S2Proofs.C12M
open S2 S2.STUV S2.CellM S2.Exact S2Proofs.F64Order S2Proofs.F64Inj S2Proofs.F64Round

/-- unit roundoff `2^-53` -/
def E : ℚ := 1 / 2 ^ 53

theorem E_pos : 0 < E := by unfold E; positivity
theorem E_le : E ≤ 1 / 16 := by unfold E; norm_num

/-! ### error bounds in the binades used -/

theorem err4 {r : F64} {Q : ℚ} (h : IsRound r Q) (hQ : |Q| ≤ 4) : F64Order.Fin r ∧ |val r - Q| ≤ 2 * E := by
  have hU : (4 : ℚ) * U = 2 ^ (1023 + 53) := by
    unfold U; rw [show (4 : ℚ) = 2 ^ 2 by norm_num, ← pow_add]
  obtain ⟨hf, he⟩ := h.ulp_err 1023 (by decide)
    (by rw [← hU]; exact mul_le_mul_of_nonneg_right hQ (le_of_lt U_pos))
  refine ⟨hf, ?_⟩
  have h2 : (2 : ℚ) * U = 2 ^ 1023 * 2 ^ 52 := by unfold U; rw [← pow_succ', ← pow_add]
  rw [h2] at he
  have hp : (0 : ℚ) < 2 ^ 1023 := by positivity
  generalize (2 : ℚ) ^ 1023 = P at *
  have h3 : |val r - Q| * 2 ^ 52 ≤ 1 := by
    have : (|val r - Q| * 2 ^ 52) * P ≤ 1 * P := by
      calc (|val r - Q| * 2 ^ 52) * P = |val r - Q| * (P * 2 ^ 52) := by ring
        _ ≤ P := he
        _ = 1 * P := by ring
    exact le_of_mul_le_mul_right this hp
  unfold E
  rw [show (2 : ℚ) * (1 / 2 ^ 53) = 1 / 2 ^ 52 by norm_num, le_div_iff₀ (by positivity)]
  exact h3

theorem err1 {r : F64} {Q : ℚ} (h : IsRound r Q) (hQ : |Q| ≤ 1) : F64Order.Fin r ∧ |val r - Q| ≤ E / 2 := by
  have hU : (1 : ℚ) * U = 2 ^ (1021 + 53) := by unfold U; norm_num
  obtain ⟨hf, he⟩ := h.ulp_err 1021 (by decide)
    (by rw [← hU]; exact mul_le_mul_of_nonneg_right hQ (le_of_lt U_pos))
  refine ⟨hf, ?_⟩
  have h2 : (2 : ℚ) * U = 2 ^ 1021 * 2 ^ 54 := by unfold U; rw [← pow_succ', ← pow_add]
  rw [h2] at he
  have hp : (0 : ℚ) < 2 ^ 1021 := by positivity
  generalize (2 : ℚ) ^ 1021 = P at *
  have h3 : |val r - Q| * 2 ^ 54 ≤ 1 := by
    have : (|val r - Q| * 2 ^ 54) * P ≤ 1 * P := by
      calc (|val r - Q| * 2 ^ 54) * P = |val r - Q| * (P * 2 ^ 54) := by ring
        _ ≤ P := he
        _ = 1 * P := by ring
    exact le_of_mul_le_mul_right this hp
  unfold E
  rw [show (1 : ℚ) / 2 ^ 53 / 2 = 1 / 2 ^ 54 by norm_num, le_div_iff₀ (by positivity)]
  exact h3

/-! ### constants -/

theorem val_of_toInt {x : F64} {z : Int} (h : toInt x = z) : val x = (z : ℚ) / U := by unfold val; rw [h]

theorem fin_one : F64Order.Fin F64.one := by decide
theorem fin_three : F64Order.Fin F64.three := by decide
theorem fin_four : F64Order.Fin F64.four := by decide
theorem fin_third : F64Order.Fin third := by decide
theorem fin_zero : F64Order.Fin (F64.zero false) := by decide

theorem val_zero : val (F64.zero false) = 0 := by
  rw [val_of_toInt (z := 0) (by decide +kernel)]; simp

theorem val_four : val F64.four = 4 := by
  have h : toInt F64.four = 4 * 2 ^ 1074 := by decide +kernel
  unfold val U; rw [h]; push_cast; field_simp

theorem val_two : val F64.two = 2 := by
  unfold val U; rw [toInt_two]; push_cast; field_simp

theorem val_half : val F64.half = 1 / 2 := by
  have h := toInt_half
  have h' : (2 : ℚ) * (toInt F64.half : ℚ) = 2 ^ 1074 := by exact_mod_cast h
  unfold val U
  rw [eq_div_iff (by norm_num), div_mul_eq_mul_div, div_eq_iff (by positivity)]
  linarith

/-- `float64(1/3.) = (1 − 2^-54)/3` -/
theorem val_third : val third = (1 - E / 2) / 3 := by
  have h : 3 * toInt third = (2 ^ 54 - 1) * 2 ^ 1020 := by decide +kernel
  have h' : (3 : ℚ) * (toInt third : ℚ) = (2 ^ 54 - 1) * 2 ^ 1020 := by exact_mod_cast h
  have hU : U = 2 ^ 54 * 2 ^ 1020 := by unfold U; rw [← pow_add]
  unfold val E
  rw [hU]
  have hp : (0 : ℚ) < 2 ^ 1020 := by positivity
  generalize (2 : ℚ) ^ 1020 = P at *
  rw [div_eq_iff (by positivity)]
  have : (toInt third : ℚ) = (2 ^ 54 - 1) * P / 3 := by linarith
  rw [this]; ring

/-! ### exact subtraction -/

theorem sub_exact {x y : F64} (hx : F64Order.Fin x) (hy : F64Order.Fin y)
    (hrep : Rep (toInt x - toInt y).natAbs) (hlt : (toInt x - toInt y).natAbs < 2 ^ 2098) :
    F64Order.Fin (F64.sub x y) ∧ val (F64.sub x y) = val x - val y := by
  have h := isRound_sub hx hy
  refine h.val_exact_of_rep (toInt x - toInt y) hrep hlt ?_
  rw [sub_mul, val_mul_U, val_mul_U]; push_cast; ring

/-- order transfer for roundings of comparable rationals, in value form -/
theorem IsRound.val_mono {r1 r2 : F64} {Q1 Q2 : ℚ} (h1 : IsRound r1 Q1) (h2 : IsRound r2 Q2)
    (f1 : F64Order.Fin r1) (f2 : F64Order.Fin r2) (hle : Q1 ≤ Q2) : val r1 ≤ val r2 :=
  (val_le_iff f1 f2).1 (IsRound.mono h1 h2 hle)

theorem IsRound.le_of_le {r x : F64} {Q : ℚ} (h : IsRound r Q) (hr : F64Order.Fin r) (hx : F64Order.Fin x)
    (hle : Q ≤ val x) : val r ≤ val x := IsRound.val_mono h (isRound_self hx) hr hx hle

theorem IsRound.ge_of_ge {r x : F64} {Q : ℚ} (h : IsRound r Q) (hr : F64Order.Fin r) (hx : F64Order.Fin x)
    (hle : val x ≤ Q) : val x ≤ val r := IsRound.val_mono (isRound_self hx) h hx hr hle

/-! ### `four * x * x` on a grid point -/

theorem pow_split (a b : Nat) : (2 : ℚ) ^ (a + b) = 2 ^ a * 2 ^ b := pow_add 2 a b

/-- value of a float given in grid units `j · 2^1044` (i.e. `j / 2^30`) -/
theorem val_grid {x : F64} {j : Nat} (h : toInt x = (j : Int) * 2 ^ 1044) : val x = (j : ℚ) / 2 ^ 30 := by
  unfold val U; rw [h]
  have : (2 : ℚ) ^ 1074 = 2 ^ 1044 * 2 ^ 30 := by rw [← pow_add]
  rw [this]; push_cast
  have hp : (0 : ℚ) < 2 ^ 1044 := by positivity
  generalize (2 : ℚ) ^ 1044 = P at *
  field_simp

/-- `p = fl(fl(4x)·x)` for `x = j/2^30`, `2^29 ≤ j ≤ 2^30`; `c = 2x = j/2^29` -/
theorem p_spec (x : F64) (hx : F64Order.Fin x) (j : Nat) (hj1 : 2 ^ 29 ≤ j) (hj2 : j ≤ 2 ^ 30)
    (hv : toInt x = (j : Int) * 2 ^ 1044) :
    F64Order.Fin (F64.four * x * x) ∧
      |val (F64.four * x * x) - ((j : ℚ) / 2 ^ 29) * ((j : ℚ) / 2 ^ 29)| ≤ 2 * E ∧
      1 ≤ val (F64.four * x * x) ∧ val (F64.four * x * x) ≤ 4 := by
  have hvx := val_grid hv
  have hjq1 : (2 : ℚ) ^ 29 ≤ j := by exact_mod_cast hj1
  have hjq2 : (j : ℚ) ≤ 2 ^ 30 := by exact_mod_cast hj2
  -- 4·x is exact
  have h4 := isRound_mul fin_four hx
  obtain ⟨f4, v4⟩ := h4.val_exact_of_rep ((j : Int) * 2 ^ 1046)
    (by rw [Int.natAbs_mul, Int.natAbs_natCast, Int.natAbs_pow]; exact ⟨j, 1046, by omega, rfl⟩)
    (by
      rw [Int.natAbs_mul, Int.natAbs_natCast, Int.natAbs_pow]
      calc j * 2 ^ 1046 ≤ 2 ^ 30 * 2 ^ 1046 := Nat.mul_le_mul_right _ hj2
        _ = 2 ^ 1076 := by rw [← Nat.pow_add]
        _ < 2 ^ 2098 := Nat.pow_lt_pow_right (by decide) (by decide))
    (by
      rw [val_four, mul_assoc, val_mul_U, hv]; push_cast
      rw [show (1046 : Nat) = 2 + 1044 from rfl, pow_split]; ring)
  rw [val_four, hvx] at v4
  have hp := isRound_mul f4 hx
  rw [v4, hvx] at hp
  have hQ : (4 : ℚ) * ((j : ℚ) / 2 ^ 30) * ((j : ℚ) / 2 ^ 30) = ((j : ℚ) / 2 ^ 29) * ((j : ℚ) / 2 ^ 29) := by
    field_simp; ring
  rw [hQ] at hp
  have hc1 : (1 : ℚ) ≤ (j : ℚ) / 2 ^ 29 := by rw [le_div_iff₀ (by positivity)]; linarith
  have hc2 : (j : ℚ) / 2 ^ 29 ≤ 2 := by rw [div_le_iff₀ (by positivity)]; linarith
  have hQ1 : (1 : ℚ) ≤ ((j : ℚ) / 2 ^ 29) * ((j : ℚ) / 2 ^ 29) := by nlinarith
  have hQ4 : ((j : ℚ) / 2 ^ 29) * ((j : ℚ) / 2 ^ 29) ≤ 4 := by nlinarith
  obtain ⟨fp, ep⟩ := err4 hp (by rw [abs_of_nonneg (by linarith)]; exact hQ4)
  refine ⟨fp, ep, ?_, ?_⟩
  · have := IsRound.ge_of_ge hp fp fin_one (by rw [val_one]; exact hQ1)
    rwa [val_one] at this
  · have := IsRound.le_of_le hp fp fin_four (by rw [val_four]; exact hQ4)
    rwa [val_four] at this

/-! ### `p − 1` and `1 − p` are exact for a float `p ∈ [1,4]` -/

theorem natAbs_mul_two_pow (a : Int) (k : Nat) : (a * 2 ^ k).natAbs = a.natAbs * 2 ^ k := by
  rw [Int.natAbs_mul, Int.natAbs_pow]; rfl

theorem rep_mul_two_pow (a : Int) (k : Nat) (h : a.natAbs < 2 ^ 53) : Rep (a * 2 ^ k).natAbs :=
  ⟨a.natAbs, k, h, natAbs_mul_two_pow a k⟩

theorem rep_sub_one (p : F64) (hp : F64Order.Fin p) (h1 : 1 ≤ val p) (h4 : val p ≤ 4) :
    Rep (toInt p - toInt F64.one).natAbs ∧ (toInt p - toInt F64.one).natAbs < 2 ^ 2098 := by
  have t1 : (2 : Int) ^ 1074 ≤ toInt p := by
    have := (val_le_iff fin_one hp).2 (by rw [val_one]; exact h1)
    have := (le_iff fin_one hp).1 this
    rwa [S2Proofs.F64Round.toInt_one] at this
  have t4 : toInt p ≤ 4 * 2 ^ 1074 := by
    have := (val_le_iff hp fin_four).2 (by rw [val_four]; exact h4)
    have := (le_iff hp fin_four).1 this
    rwa [show toInt F64.four = 4 * 2 ^ 1074 by decide +kernel] at this
  rw [S2Proofs.F64Round.toInt_one]
  have p1 : (2 : Int) ^ 1074 = 2 ^ 52 * 2 ^ 1022 := by rw [← pow_add]
  have p2 : (2 : Int) ^ 1074 = 2 ^ 51 * 2 ^ 1023 := by rw [← pow_add]
  have p3 : (2 : Int) ^ 1075 = 2 ^ 53 * 2 ^ 1022 := by rw [← pow_add]
  have p4 : (2 : Int) ^ 1075 = 2 ^ 52 * 2 ^ 1023 := by rw [← pow_add]
  by_cases h2 : toInt p < 2 ^ 1075
  · obtain ⟨n, hn⟩ := toInt_dvd_of_le p 1074 (by decide) (by rw [abs_of_nonneg (by omega)]; exact t1)
    simp only [show 1074 - 52 = 1022 from rfl] at hn
    have e : toInt p - 2 ^ 1074 = (n - 2 ^ 52) * 2 ^ 1022 := by rw [hn, p1]; ring
    have hP : (0 : Int) < 2 ^ 1022 := by positivity
    rw [hn, p1] at t1
    rw [hn, p3] at h2
    have hn1 : 2 ^ 52 ≤ n := le_of_mul_le_mul_right t1 hP
    have hn2 : n < 2 ^ 53 := lt_of_mul_lt_mul_right h2 (le_of_lt hP)
    rw [e]
    refine ⟨rep_mul_two_pow _ _ (by omega), ?_⟩
    rw [natAbs_mul_two_pow]
    have g1 : (n - 2 ^ 52).natAbs * 2 ^ 1022 < 2 ^ 53 * 2 ^ 1022 :=
      Nat.mul_lt_mul_of_pos_right (by omega) (Nat.two_pow_pos _)
    have g2 : (2 : Nat) ^ 53 * 2 ^ 1022 = 2 ^ 1075 := by rw [← Nat.pow_add]
    have g3 : (2 : Nat) ^ 1075 < 2 ^ 2098 := Nat.pow_lt_pow_right (by decide) (by decide)
    omega
  · have h2' : (2 : Int) ^ 1075 ≤ toInt p := not_lt.1 h2
    obtain ⟨n, hn⟩ := toInt_dvd_of_le p 1075 (by decide) (by rw [abs_of_nonneg (by omega)]; exact h2')
    simp only [show 1075 - 52 = 1023 from rfl] at hn
    have e' : toInt p - 2 ^ 1074 = (n - 2 ^ 51) * 2 ^ 1023 := by rw [hn, p2]; ring
    have hP : (0 : Int) < 2 ^ 1023 := by positivity
    have t4' : toInt p ≤ 2 ^ 53 * 2 ^ 1023 := by
      have : (4 : Int) * 2 ^ 1074 = 2 ^ 53 * 2 ^ 1023 := by
        rw [show (4 : Int) = 2 ^ 2 by norm_num, ← pow_add, ← pow_add]
      rw [← this]; exact t4
    rw [hn, p4] at h2'
    rw [hn] at t4'
    have hn1 : 2 ^ 52 ≤ n := le_of_mul_le_mul_right h2' hP
    have hn2 : n ≤ 2 ^ 53 := le_of_mul_le_mul_right t4' hP
    rw [e']
    refine ⟨rep_mul_two_pow _ _ (by omega), ?_⟩
    rw [natAbs_mul_two_pow]
    have g1 : (n - 2 ^ 51).natAbs * 2 ^ 1023 < 2 ^ 53 * 2 ^ 1023 :=
      Nat.mul_lt_mul_of_pos_right (by omega) (Nat.two_pow_pos _)
    have g2 : (2 : Nat) ^ 53 * 2 ^ 1023 = 2 ^ 1076 := by rw [← Nat.pow_add]
    have g3 : (2 : Nat) ^ 1076 < 2 ^ 2098 := Nat.pow_lt_pow_right (by decide) (by decide)
    omega

theorem sub_one_exact (p : F64) (hp : F64Order.Fin p) (h1 : 1 ≤ val p) (h4 : val p ≤ 4) :
    F64Order.Fin (p - F64.one) ∧ val (p - F64.one) = val p - 1 := by
  obtain ⟨hr, hl⟩ := rep_sub_one p hp h1 h4
  have := sub_exact hp fin_one hr hl
  rwa [val_one] at this

theorem one_sub_exact (p : F64) (hp : F64Order.Fin p) (h1 : 1 ≤ val p) (h4 : val p ≤ 4) :
    F64Order.Fin (F64.one - p) ∧ val (F64.one - p) = 1 - val p := by
  obtain ⟨hr, hl⟩ := rep_sub_one p hp h1 h4
  have e : (toInt F64.one - toInt p).natAbs = (toInt p - toInt F64.one).natAbs := by omega
  have := sub_exact fin_one hp (by rw [e]; exact hr) (by rw [e]; exact hl)
  rwa [val_one] at this

/-! ### the final multiplication by `third` -/

theorem w_spec (m : F64) (hm : F64Order.Fin m) (h3 : |val m| ≤ 3) :
    F64Order.Fin (third * m) ∧ |val (third * m) - (1 - E / 2) / 3 * val m| ≤ E / 2 := by
  have h := isRound_mul fin_third hm
  rw [val_third] at h
  have hE := E_pos
  have hE1 := E_le
  refine err1 h ?_
  rw [abs_mul, abs_of_nonneg (by linarith : (0 : ℚ) ≤ (1 - E / 2) / 3)]
  have : (1 - E / 2) / 3 * |val m| ≤ (1 - E / 2) / 3 * 3 := mul_le_mul_of_nonneg_left h3 (by linarith)
  linarith

end S2Proofs.C12M
