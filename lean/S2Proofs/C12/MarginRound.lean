/-
  S2Proofs.C12.MarginRound — general facts about the correctly rounded soft-float used by the
  margin analysis of `Cell.ContainsPoint` (work package c12margin):

  * `IsRound.ulp_err`     half-ulp error bound in a binade given by an upper bound of |Q| (the relative bound
                          `IsRound.rel_err` loses a factor 2 at the top of a binade, which the analysis cannot afford);
  * `IsRound.exact_of_rep` a result whose exact value is representable is not rounded;
  * `exists_float`        every representable magnitude is the value of a float;
  * `toInt_dvd_of_le`     a float of magnitude ≥ 2^j units is a multiple of 2^(j-52) units.
-/
import S2Proofs.F64Round

set_option linter.unusedSimpArgs false
set_option linter.unusedVariables false

namespace S2Proofs.C12M
open S2 S2.Exact S2Proofs.F64Order S2Proofs.F64Inj S2Proofs.F64Round

/-! ### half-ulp error in a binade -/

theorem kexp_le_of_lt (N D k : Nat) (hD : 0 < D) (h : N < 2 ^ (k + 53) * D) : kexp N D ≤ k := by
  unfold kexp
  have h1 : N / D < 2 ^ (k + 53) := (Nat.div_lt_iff_lt_mul hD).2 h
  rcases Nat.eq_zero_or_pos (N / D) with h0 | h0
  · rw [h0]; simp
  · have := (Nat.log2_lt (n := N / D) (k := k + 53) (by omega)).2 h1
    omega

theorem rmag_ulp_err (N D k : Nat) (hD : 0 < D) (h : N ≤ 2 ^ (k + 53) * D) :
    2 * (rmag N D * D) ≤ 2 * N + D * 2 ^ k ∧ 2 * N ≤ 2 * (rmag N D * D) + D * 2 ^ k := by
  rcases Nat.lt_or_eq_of_le h with hlt | heq
  · have hk := kexp_le_of_lt N D k hD hlt
    have he := rmag_err N D hD
    have : D * 2 ^ kexp N D ≤ D * 2 ^ k := Nat.mul_le_mul_left _ (Nat.pow_le_pow_right (by decide) hk)
    omega
  · have hr : rmag N D = 2 ^ (k + 53) := by
      rw [heq]; exact rmag_fix' _ D hD ⟨1, k + 53, by decide, by simp⟩
    rw [hr, heq]; omega

theorem rint_ulp_err (s : Int) (D k : Nat) (hD : 0 < D) (hk : k ≤ 1100) (hhi : s.natAbs ≤ 2 ^ (k + 53) * D) :
    rmag s.natAbs D < 2 ^ 2098 ∧ 2 * |rint s D * D - s| ≤ D * 2 ^ k := by
  have hk' := rmag_ulp_err s.natAbs D k hD hhi
  have h : rmag s.natAbs D < 2 ^ 2098 := by
    apply rmag_lt_top _ _ hD
    have h1 : 2 ^ (k + 53) ≤ 2 ^ 1153 := Nat.pow_le_pow_right (by decide) (by omega)
    have h2 : 2 ^ 1153 < (2 ^ 54 - 1) * 2 ^ 2044 := by decide +kernel
    have h3 : 2 ^ (k + 53) * D < (2 ^ 54 - 1) * 2 ^ 2044 * D :=
      Nat.mul_lt_mul_of_pos_right (by omega) hD
    omega
  refine ⟨h, ?_⟩
  rw [rint_eq_of_lt s D h]
  obtain ⟨e1, e2⟩ := hk'
  generalize rmag s.natAbs D = R at *
  have e1' : ((2 * (R * D) : Nat) : Int) ≤ ((2 * s.natAbs + D * 2 ^ k : Nat) : Int) := by exact_mod_cast e1
  have e2' : ((2 * s.natAbs : Nat) : Int) ≤ ((2 * (R * D) + D * 2 ^ k : Nat) : Int) := by exact_mod_cast e2
  have e : (if s < 0 then -(R : Int) else (R : Int)) * D = (if s < 0 then -((R : Int) * D) else (R : Int) * D) := by
    split <;> ring
  rw [e]
  simp only [Int.natCast_mul, Int.natCast_add, Nat.cast_ofNat, Int.natCast_pow] at e1' e2'
  generalize (R : Int) * D = a at *
  generalize ((D : Int) * 2 ^ k) = b at *
  rw [← Int.natCast_natAbs]
  split <;> omega

/-- **half-ulp error bound**: if `|Q| ≤ 2^(k+53)` units (`k ≤ 1100`) then the rounded value is finite and within
    `2^k / 2` units of `Q`. -/
theorem _root_.S2Proofs.F64Round.IsRound.ulp_err {r : F64} {Q : ℚ} (h : IsRound r Q) (k : Nat) (hk : k ≤ 1100)
    (hhi : |Q| * U ≤ 2 ^ (k + 53)) : F64Order.Fin r ∧ |val r - Q| * (2 * U) ≤ 2 ^ k := by
  obtain ⟨n, s, D, hD, hQ, he⟩ := h
  have hDq : (0 : ℚ) < D := by exact_mod_cast hD
  have hhi' : s.natAbs ≤ 2 ^ (k + 53) * D := by
    have h1 : ((|s| : Int) : ℚ) = |Q| * ((D : ℚ) * U) := by
      rw [Int.cast_abs, ← hQ, abs_mul, abs_of_pos (mul_pos hDq U_pos)]
    have h2 : ((|s| : Int) : ℚ) ≤ 2 ^ (k + 53) * D := by
      rw [h1]
      calc |Q| * ((D : ℚ) * U) = (|Q| * U) * D := by ring
        _ ≤ 2 ^ (k + 53) * D := mul_le_mul_of_nonneg_right hhi (le_of_lt hDq)
    have h3 : ((s.natAbs : Nat) : ℚ) ≤ ((2 ^ (k + 53) * D : Nat) : ℚ) := by
      push_cast; rw [Nat.cast_natAbs]; exact h2
    exact_mod_cast h3
  obtain ⟨hlt, hi⟩ := rint_ulp_err s D k hD hk hhi'
  have hf : F64Order.Fin r := by
    have := (rint_lt_iff s D).2 hlt
    rw [← he] at this
    exact fin_of_ext_lt n this.1 this.2
  refine ⟨hf, ?_⟩
  have ht : toInt r = rint s D := by rw [← ext_finite hf, he]
  have hDU : (0 : ℚ) < (D : ℚ) * U := mul_pos hDq U_pos
  rw [abs_val_sub_eq r hD hQ, ht]
  have hi' : ((2 * |rint s D * D - s| : Int) : ℚ) ≤ ((D * 2 ^ k : Nat) : ℚ) := by exact_mod_cast hi
  push_cast at hi' ⊢
  rw [div_mul_eq_mul_div, div_le_iff₀ hDU]
  calc |(rint s D : ℚ) * D - s| * (2 * U) = (2 * |(rint s D : ℚ) * D - s|) * U := by ring
    _ ≤ ((D : ℚ) * 2 ^ k) * U := mul_le_mul_of_nonneg_right hi' (le_of_lt U_pos)
    _ = 2 ^ k * ((D : ℚ) * U) := by ring

/-! ### exactness on representable results -/

theorem rint_rep_mul (z : Int) (D : Nat) (hD : 0 < D) (hrep : Rep z.natAbs) (hlt : z.natAbs < 2 ^ 2098) :
    rint (z * D) D = z := by
  unfold rint rclamp
  have hab : (z * (D : Int)).natAbs = z.natAbs * D := by rw [Int.natAbs_mul, Int.natAbs_natCast]
  rw [hab, rmag_fix' _ D hD hrep, Nat.min_eq_left (by omega)]
  have hDi : (0 : Int) < D := by exact_mod_cast hD
  by_cases hz : z < 0
  · rw [if_pos (Int.mul_neg_of_neg_of_pos hz hDi)]; omega
  · rw [if_neg (by have := Int.mul_nonneg (Int.not_lt.1 hz) (le_of_lt hDi); omega)]; omega

/-- **a representable exact result is not rounded**: if `Q` is `z` units with `|z|` representable, then the
    rounded result is finite and is exactly `z` units. -/
theorem _root_.S2Proofs.F64Round.IsRound.exact_of_rep {r : F64} {Q : ℚ} (h : IsRound r Q) (z : Int) (hrep : Rep z.natAbs)
    (hlt : z.natAbs < 2 ^ 2098) (hQ : Q * U = z) : F64Order.Fin r ∧ toInt r = z := by
  obtain ⟨n, s, D, hD, hQs, he⟩ := h
  have hs : s = z * D := by
    have : (s : ℚ) = (z : ℚ) * D := by rw [← hQs, ← hQ]; ring
    exact_mod_cast this
  rw [hs, rint_rep_mul z D hD hrep hlt] at he
  have hf : F64Order.Fin r := fin_of_ext_lt n (by rw [he]; omega) (by rw [he]; omega)
  exact ⟨hf, by rw [← ext_finite hf, he]⟩

theorem _root_.S2Proofs.F64Round.IsRound.val_exact_of_rep {r : F64} {Q : ℚ} (h : IsRound r Q) (z : Int) (hrep : Rep z.natAbs)
    (hlt : z.natAbs < 2 ^ 2098) (hQ : Q * U = z) : F64Order.Fin r ∧ val r = Q := by
  obtain ⟨hf, ht⟩ := h.exact_of_rep z hrep hlt hQ
  refine ⟨hf, ?_⟩
  unfold val; rw [ht, ← hQ]; exact mul_div_cancel_right₀ _ (ne_of_gt U_pos)

/-- every representable magnitude (below the overflow bound) is the value of a non-negative finite float -/
theorem exists_float (R : Nat) (hrep : Rep R) (hlt : R < 2 ^ 2098) :
    ∃ y : F64, F64Order.Fin y ∧ toInt y = (R : Int) := by
  refine ⟨F64.roundNE false R (2 ^ 1074), ?_⟩
  have h := isRound_roundNE false R (2 ^ 1074) (Nat.two_pow_pos _)
  apply h.exact_of_rep (R : Int) (by simpa using hrep) (by simpa using hlt)
  unfold sgnQ U
  simp only [Bool.false_eq_true, if_false, one_mul]
  push_cast
  exact div_mul_cancel₀ _ (by positivity)

/-! ### granularity of floats -/

/-- a float whose magnitude is at least `2^j` units (`j ≥ 52`) is a multiple of `2^(j-52)` units -/
theorem toInt_dvd_of_le (x : F64) (j : Nat) (hj : 52 ≤ j) (h : (2 : Int) ^ j ≤ |toInt x|) :
    ∃ n : Int, toInt x = n * 2 ^ (j - 52) := by
  obtain ⟨m, k, hm, hk⟩ := rep_mag x
  have hmag : (2 : Nat) ^ j ≤ mag x := by
    have : |toInt x| = (mag x : Int) := by rw [← natAbs_toInt, Int.natCast_natAbs]
    rw [this] at h
    exact_mod_cast h
  have hjk : j - 52 ≤ k := by
    by_contra hc
    have hk1 : k + 53 ≤ j := by omega
    have : mag x < 2 ^ j := by
      rw [hk]
      calc m * 2 ^ k < 2 ^ 53 * 2 ^ k := Nat.mul_lt_mul_of_pos_right hm (Nat.two_pow_pos _)
        _ = 2 ^ (k + 53) := by rw [← Nat.pow_add]; congr 1; omega
        _ ≤ 2 ^ j := Nat.pow_le_pow_right (by decide) hk1
    omega
  have hd : mag x = (m * 2 ^ (k - (j - 52))) * 2 ^ (j - 52) := by
    rw [hk, Nat.mul_assoc, ← Nat.pow_add]; congr 2; omega
  rw [toInt_eq_mag]
  split
  · exact ⟨-((m * 2 ^ (k - (j - 52)) : Nat) : Int), by rw [hd]; push_cast; ring⟩
  · exact ⟨((m * 2 ^ (k - (j - 52)) : Nat) : Int), by rw [hd]; push_cast; ring⟩

end S2Proofs.C12M
