/-
  S2Proofs.C15.Reencode — when the model encoders (`S2.Codec.Types`) succeed: exact
  characterisations of `= none` (Go: `e.err` set), and the alignment of the per-loop vertex slices in
  `Polygon.encodeCompressed` (Go panics in `Loop.encodeCompressed` when
  `len(l.vertices) != len(vertices)`; the slices `vertices[:n]`, `vertices[n:]` always have the
  right length).  Helper lemmas for S2Proofs/Properties/C15_Usable.lean.
-/
import S2Proofs.CodecLemmas
import S2Proofs.C15.Decoded
namespace S2Proofs.C15
open S2 S2.Codec S2Proofs.Codec

theorem encodePolygonLossless_eq_none_iff (p : PolygonM) :
    encodePolygonLossless p = none ↔ p.loops.length > maxEncodedLoops := by
  unfold encodePolygonLossless
  by_cases h : p.loops.length > maxEncodedLoops <;> simp [h]

theorem encodeLoopCompressed_eq_none_iff (l : LoopM) (L : Nat) (vs : List XFST) :
    encodeLoopCompressed l L vs = none ↔ vs.length > maxEncodedVertices := by
  unfold encodeLoopCompressed
  by_cases h : vs.length > maxEncodedVertices <;> simp [h]

/-- the per-loop calls of `Polygon.encodeCompressed`, each with the loop's own vertex records -/
def encodeLoopsEach (L : Nat) : List LoopM → Option Bytes
  | [] => some []
  | l :: ls =>
    match encodeLoopCompressed l L (xyzFaceSiTiVertices l.vertices), encodeLoopsEach L ls with
    | some a, some b => some (a ++ b)
    | _, _ => none

/-- slicing the concatenated vertex records by the loops' vertex counts gives every loop exactly its
    own records (so `len(l.vertices) == len(vertices)` in every call of `Loop.encodeCompressed`) -/
theorem encodeLoopsCompressed_aligned (L : Nat) : ∀ (ls : List LoopM),
    encodeLoopsCompressed L ls (ls.map fun l => xyzFaceSiTiVertices l.vertices).flatten = encodeLoopsEach L ls
  | [] => rfl
  | l :: ls => by
    have hlen : (xyzFaceSiTiVertices l.vertices).length = l.vertices.length := by simp [xyzFaceSiTiVertices]
    simp only [encodeLoopsCompressed, encodeLoopsEach, List.map_cons, List.flatten_cons]
    rw [← hlen, List.take_left, List.drop_left, encodeLoopsCompressed_aligned L ls]
    cases encodeLoopCompressed l L (xyzFaceSiTiVertices l.vertices) <;> cases encodeLoopsEach L ls <;> rfl

theorem encodeLoopsEach_eq_none_iff (L : Nat) : ∀ (ls : List LoopM),
    encodeLoopsEach L ls = none ↔ ∃ l ∈ ls, l.vertices.length > maxEncodedVertices
  | [] => by simp [encodeLoopsEach]
  | l :: ls => by
    have ih := encodeLoopsEach_eq_none_iff L ls
    have h1 := encodeLoopCompressed_eq_none_iff l L (xyzFaceSiTiVertices l.vertices)
    have hlen : (xyzFaceSiTiVertices l.vertices).length = l.vertices.length := by simp [xyzFaceSiTiVertices]
    rw [hlen] at h1
    simp only [encodeLoopsEach, List.mem_cons, exists_eq_or_imp]
    cases ha : encodeLoopCompressed l L (xyzFaceSiTiVertices l.vertices) with
    | none =>
      have := h1.mp ha
      simp [this]
    | some a =>
      have hna : ¬ l.vertices.length > maxEncodedVertices := by
        intro hc; rw [h1.mpr hc] at ha; simp at ha
      cases hb : encodeLoopsEach L ls with
      | none =>
        have := ih.mp hb
        simp [this]
      | some b =>
        have hnb : ¬ ∃ l ∈ ls, l.vertices.length > maxEncodedVertices := by
          intro hc; rw [ih.mpr hc] at hb; simp at hb
        simp [hna, hnb]

/-- `Polygon.encodeCompressed` on the polygon's own vertex records fails exactly when there are too
    many loops or some loop has too many vertices -/
theorem encodePolygonCompressed_eq_none_iff (p : PolygonM) (L : Nat) :
    encodePolygonCompressed p L (polygonXFST p) = none ↔
      p.loops.length > maxEncodedLoops ∨ ∃ l ∈ p.loops, l.vertices.length > maxEncodedVertices := by
  unfold encodePolygonCompressed polygonXFST
  rw [encodeLoopsCompressed_aligned]
  by_cases h : p.loops.length > maxEncodedLoops
  · simp [h]
  · simp only [h, if_false, Option.map_eq_none_iff, false_or]
    exact encodeLoopsEach_eq_none_iff L p.loops

theorem polygonXFST_nil_of_numVertices_zero (p : PolygonM) (h : p.numVertices = 0) : polygonXFST p = [] := by
  unfold PolygonM.numVertices at h
  unfold polygonXFST
  generalize p.loops = ls at h
  induction ls with
  | nil => rfl
  | cons l ls ih =>
    simp only [List.map_cons, List.sum_cons] at h
    have h1 : l.vertices.length = 0 := by omega
    have h2 : (ls.map (·.vertices.length)).sum = 0 := by omega
    have : l.vertices = [] := List.eq_nil_of_length_eq_zero h1
    simp only [List.map_cons, List.flatten_cons, this, xyzFaceSiTiVertices, List.map_nil, List.nil_append]
    exact ih h2

/-- **`Polygon.encode`** (format choice included) fails exactly when there are too many loops, or the
    compressed format is selected and some loop has too many vertices -/
theorem encodePolygon_eq_none_iff (p : PolygonM) :
    encodePolygon p = none ↔
      p.loops.length > maxEncodedLoops ∨
      (polygonChoosesCompressed p = true ∧ ∃ l ∈ p.loops, l.vertices.length > maxEncodedVertices) := by
  unfold encodePolygon polygonChoosesCompressed
  by_cases h0 : p.numVertices == 0
  · have hx := polygonXFST_nil_of_numVertices_zero p (by simpa using h0)
    simp only [h0, if_true]
    rw [← hx, encodePolygonCompressed_eq_none_iff]
    simp
  · simp only [h0, Bool.false_eq_true, if_false]
    by_cases hc : useCompressed p.numVertices (snapLevelOf (polygonXFST p)).2 = true
    · simp only [hc, if_true, true_and]
      exact encodePolygonCompressed_eq_none_iff p _
    · simp only [hc, Bool.false_eq_true, if_false, false_and, or_false]
      exact encodePolygonLossless_eq_none_iff p

/-- a polygon value within the decoder limits is accepted by every encoder -/
theorem encoders_succeed (p : PolygonM) (hn : p.loops.length ≤ maxEncodedLoops)
    (hv : ∀ l ∈ p.loops, l.vertices.length ≤ maxEncodedVertices) :
    (encodePolygon p).isSome = true ∧ (encodePolygonLossless p).isSome = true ∧
      ∀ L, (encodePolygonCompressed p L (polygonXFST p)).isSome = true := by
  have hno : ¬ ∃ l ∈ p.loops, l.vertices.length > maxEncodedVertices := by
    intro ⟨l, hl, h⟩; have := hv l hl; omega
  refine ⟨?_, ?_, ?_⟩
  · rw [Option.isSome_iff_ne_none]; intro h
    rcases (encodePolygon_eq_none_iff p).mp h with h | ⟨_, h⟩
    · omega
    · exact hno h
  · rw [Option.isSome_iff_ne_none]; intro h
    have := (encodePolygonLossless_eq_none_iff p).mp h; omega
  · intro L
    rw [Option.isSome_iff_ne_none]; intro h
    rcases (encodePolygonCompressed_eq_none_iff p L).mp h with h | h
    · omega
    · exact hno h

end S2Proofs.C15
