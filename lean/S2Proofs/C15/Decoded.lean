/-
  S2Proofs.C15.Decoded — what the model decoders (`S2.Codec.*`, each proved EQUAL to the regenerated
  `Dec`-monad reading of the Go decoder in S2Proofs/Ties/C09_Decode.lean) can return: for every byte
  string on which a decoder succeeds, the bounds the decoder has enforced on the returned value
  (helper lemmas for S2Proofs/Properties/C15_Usable.lean).

  Everything is by inversion of the decoder (`decoder bs = some (v, rest) → …`), for ALL byte strings.
-/
import S2.Codec.Types
import S2Proofs.Codec.Prim
namespace S2Proofs.C15
open S2 S2.Codec S2Proofs.Codec

/-! ### generic inversion of the monad -/

theorem bind_some {α β} {m : Dec α} {f : α → Dec β} {bs : Bytes} {b : β} {rest : Bytes}
    (h : (m >>= f) bs = some (b, rest)) : ∃ a r, m bs = some (a, r) ∧ f a r = some (b, rest) := by
  rw [bind_apply] at h
  cases hm : m bs with
  | none => rw [hm] at h; simp at h
  | some p => obtain ⟨a, r⟩ := p; rw [hm] at h; exact ⟨a, r, rfl, h⟩

theorem pure_some {α} {a b : α} {bs rest : Bytes} (h : (pure a : Dec α) bs = some (b, rest)) :
    b = a ∧ rest = bs := by
  rw [pure_apply] at h
  simp only [Option.some.injEq, Prod.mk.injEq] at h
  exact ⟨h.1.symm, h.2.symm⟩

/-- `readN rd n` returns exactly `n` values, each of them a value returned by `rd` -/
theorem readN_spec {α} (rd : Dec α) (P : α → Prop) (hP : ∀ bs a r, rd bs = some (a, r) → P a) :
    ∀ (n : Nat) (bs : Bytes) (l : List α) (rest : Bytes), readN rd n bs = some (l, rest) →
      l.length = n ∧ ∀ a ∈ l, P a := by
  intro n
  induction n with
  | zero =>
    intro bs l rest h
    obtain ⟨rfl, _⟩ := pure_some (show (pure [] : Dec (List α)) bs = some (l, rest) from h)
    simp
  | succ n ih =>
    intro bs l rest h
    have h' : (rd >>= fun a => readN rd n >>= fun r => pure (a :: r)) bs = some (l, rest) := h
    obtain ⟨a, r1, ha, h2⟩ := bind_some h'
    obtain ⟨tl, r2, htl, h3⟩ := bind_some h2
    obtain ⟨rfl, _⟩ := pure_some h3
    obtain ⟨hl, hall⟩ := ih r1 tl r2 htl
    refine ⟨by simp [hl], ?_⟩
    intro x hx
    rcases List.mem_cons.mp hx with rfl | hx
    · exact hP bs _ r1 ha
    · exact hall x hx

/-- a reader that consumes at least `k` bytes per value: `n` values cost at least `n·k` bytes -/
theorem readN_consumes {α} (rd : Dec α) (k : Nat)
    (hk : ∀ bs a r, rd bs = some (a, r) → r.length + k ≤ bs.length) :
    ∀ (n : Nat) (bs : Bytes) (l : List α) (rest : Bytes), readN rd n bs = some (l, rest) →
      rest.length + n * k ≤ bs.length := by
  intro n
  induction n with
  | zero =>
    intro bs l rest h
    obtain ⟨_, rfl⟩ := pure_some (show (pure [] : Dec (List α)) bs = some (l, rest) from h)
    simp
  | succ n ih =>
    intro bs l rest h
    have h' : (rd >>= fun a => readN rd n >>= fun r => pure (a :: r)) bs = some (l, rest) := h
    obtain ⟨a, r1, ha, h2⟩ := bind_some h'
    obtain ⟨tl, r2, htl, h3⟩ := bind_some h2
    obtain ⟨_, rfl⟩ := pure_some h3
    have h1 := hk bs a r1 ha
    have h4 := ih r1 tl rest htl
    rw [Nat.succ_mul]; omega

/-! ### primitives: bytes consumed, value ranges -/

theorem readLE_some {k : Nat} {bs : Bytes} {v : Nat} {r : Bytes} (h : readLE k bs = some (v, r)) :
    r.length + k = bs.length ∧ r = bs.drop k := by
  unfold readLE at h
  split at h
  · simp at h
  · simp only [Option.some.injEq, Prod.mk.injEq] at h
    obtain ⟨_, rfl⟩ := h
    refine ⟨?_, rfl⟩
    simp only [List.length_drop]; omega

theorem readUint64_len {bs : Bytes} {v : UInt64} {r : Bytes} (h : readUint64 bs = some (v, r)) :
    r.length + 8 = bs.length := by
  obtain ⟨a, r1, ha, h2⟩ := bind_some (show (readLE 8 >>= fun v => pure (UInt64.ofNat v)) bs = some (v, r) from h)
  obtain ⟨_, rfl⟩ := pure_some h2
  exact (readLE_some ha).1

theorem readUint32_len {bs : Bytes} {v : UInt32} {r : Bytes} (h : readUint32 bs = some (v, r)) :
    r.length + 4 = bs.length := by
  obtain ⟨a, r1, ha, h2⟩ := bind_some (show (readLE 4 >>= fun v => pure (UInt32.ofNat v)) bs = some (v, r) from h)
  obtain ⟨_, rfl⟩ := pure_some h2
  exact (readLE_some ha).1

theorem readPoint_len {bs : Bytes} {p : V3} {r : Bytes} (h : readPoint bs = some (p, r)) :
    r.length + 24 = bs.length := by
  have h' : (readFloat64Bits >>= fun x => readFloat64Bits >>= fun y => readFloat64Bits >>= fun z =>
      (pure ⟨⟨x⟩, ⟨y⟩, ⟨z⟩⟩ : Dec V3)) bs = some (p, r) := h
  obtain ⟨x, r1, hx, h2⟩ := bind_some h'
  obtain ⟨y, r2, hy, h3⟩ := bind_some h2
  obtain ⟨z, r3, hz, h4⟩ := bind_some h3
  obtain ⟨_, rfl⟩ := pure_some h4
  have := readUint64_len hx; have := readUint64_len hy; have := readUint64_len hz
  omega

/-- the value of a uvarint fits in 64 bits (`ReadUvarint` never returns a truncated value) -/
theorem uvarintAux_lt : ∀ (fuel x s : Nat) (bs : Bytes) (v : Nat) (r : Bytes),
    x < 2 ^ s → s + 7 * fuel = 70 → readUvarintAux fuel x s bs = some (v, r) → v < 2 ^ 64 := by
  intro fuel
  induction fuel with
  | zero => intro x s bs v r _ _ h; simp [readUvarintAux] at h
  | succ k ih =>
    intro x s bs v r hx hs h
    cases bs with
    | nil => simp [readUvarintAux] at h
    | cons b bs =>
      unfold readUvarintAux at h
      have hb := b.toNat_lt
      split at h
      · rename_i hlt
        have hb7 : b.toNat < 128 := by simpa [UInt8.lt_iff_toNat_lt] using hlt
        split at h
        · simp at h
        · rename_i hk
          simp only [Option.some.injEq, Prod.mk.injEq] at h
          obtain ⟨rfl, _⟩ := h
          by_cases hk0 : k = 0
          · subst hk0
            have hs' : s = 63 := by omega
            subst hs'
            have : b.toNat ≤ 1 := by
              simp [UInt8.lt_iff_toNat_lt] at hk
              omega
            have : b.toNat * 2 ^ 63 ≤ 1 * 2 ^ 63 := Nat.mul_le_mul_right _ this
            omega
          · have hs' : s + 7 ≤ 63 := by omega
            have h1 : b.toNat * 2 ^ s < 128 * 2 ^ s := Nat.mul_lt_mul_of_pos_right hb7 (Nat.pow_pos (by decide))
            have h2 : (2:Nat) ^ (s + 7) ≤ 2 ^ 63 := Nat.pow_le_pow_right (by decide) hs'
            have h3 : (2:Nat) ^ (s + 7) = 128 * 2 ^ s := by rw [Nat.pow_add, Nat.mul_comm]
            omega
      · apply ih _ (s + 7) bs v r _ (by omega) h
        have h1 : (b.toNat - 128) * 2 ^ s ≤ 127 * 2 ^ s := Nat.mul_le_mul_right _ (by omega)
        have h3 : (2:Nat) ^ (s + 7) = 128 * 2 ^ s := by rw [Nat.pow_add, Nat.mul_comm]
        omega

theorem uvarint_lt {bs : Bytes} {v : Nat} {r : Bytes} (h : readUvarint bs = some (v, r)) : v < 2 ^ 64 :=
  uvarintAux_lt 10 0 0 bs v r (by decide) (by decide) h

theorem toInt64_of_lt63 (v : Nat) (h : v < 2 ^ 63) : toInt64 v = (v : Int) := by
  unfold toInt64
  have : v % 18446744073709551616 = v := Nat.mod_eq_of_lt (by omega)
  rw [this]; simp; omega

/-- a uvarint that passes the Go test `0 ≤ int(v) ≤ m` is the natural number `v ≤ m` -/
theorem toInt64_range {v m : Nat} (hv : v < 2 ^ 64) (h1 : ¬ toInt64 v > (m : Int)) (h2 : ¬ toInt64 v < 0) :
    (toInt64 v).toNat = v ∧ v ≤ m := by
  by_cases h63 : v < 2 ^ 63
  · rw [toInt64_of_lt63 v h63] at h1 ⊢
    omega
  · exfalso; apply h2
    unfold toInt64
    have : v % 18446744073709551616 = v := Nat.mod_eq_of_lt (by omega)
    rw [this]
    have : v ≥ 9223372036854775808 := by omega
    simp only [this, if_true]; omega

/-! ### the decoders -/

/-- `Polyline.decode`: at most `maxEncodedVertices` vertices, and 24 input bytes per vertex -/
theorem decodePolyline_inv {bs : Bytes} {p : List V3} {rest : Bytes} (h : decodePolyline bs = some (p, rest)) :
    p.length ≤ maxEncodedVertices ∧ rest.length + 24 * p.length + 5 ≤ bs.length := by
  have h' : (readInt8 >>= fun version => if version != encodingVersion then Dec.fail else
      readUint32 >>= fun n => if n.toNat > maxEncodedVertices then Dec.fail else readN readPoint n.toNat) bs
      = some (p, rest) := h
  obtain ⟨ver, r1, hver, h2⟩ := bind_some h'
  split at h2
  · simp at h2
  · obtain ⟨n, r2, hn, h3⟩ := bind_some h2
    split at h3
    · simp at h3
    · rename_i hmax
      obtain ⟨hl, _⟩ := readN_spec readPoint (fun _ => True) (fun _ _ _ _ => trivial) _ _ _ _ h3
      have hc := readN_consumes readPoint 24 (fun bs a r h => by have := readPoint_len h; omega) _ _ _ _ h3
      have := (readLE_some hver).1
      have := readUint32_len hn
      rw [hl]
      refine ⟨by omega, by omega⟩

/-- `CellUnion.decode`: at most `maxEncodedCells` ids, 8 input bytes per id -/
theorem decodeCellUnion_inv {bs : Bytes} {cu : List UInt64} {rest : Bytes} (h : decodeCellUnion bs = some (cu, rest)) :
    cu.length ≤ maxCells ∧ rest.length + 8 * cu.length + 9 ≤ bs.length := by
  have h' : (readInt8 >>= fun version => if version != encodingVersion then Dec.fail else
      readInt64 >>= fun n => if n > (maxCells : Int) then Dec.fail else if n < 0 then Dec.fail
        else readN decodeCellID n.toNat) bs = some (cu, rest) := h
  obtain ⟨ver, r1, hver, h2⟩ := bind_some h'
  split at h2
  · simp at h2
  · obtain ⟨n, r2, hn, h3⟩ := bind_some h2
    split at h3
    · simp at h3
    · split at h3
      · simp at h3
      · obtain ⟨hl, _⟩ := readN_spec decodeCellID (fun _ => True) (fun _ _ _ _ => trivial) _ _ _ _ h3
        have hc := readN_consumes decodeCellID 8 (fun bs a r h => by have := readUint64_len h; omega) _ _ _ _ h3
        have := (readLE_some hver).1
        obtain ⟨v, r3, hv, h4⟩ := bind_some (show (readLE 8 >>= fun v =>
          pure (if v ≥ 9223372036854775808 then (v : Int) - 18446744073709551616 else v)) r1 = some (n, r2) from hn)
        obtain ⟨_, rfl⟩ := pure_some h4
        have := (readLE_some hv).1
        rw [hl]
        refine ⟨by omega, by omega⟩

/-- `Cell.decode`: only valid cell ids are returned -/
theorem decodeCell_inv {bs : Bytes} {id : UInt64} {rest : Bytes} (h : decodeCell bs = some (id, rest)) :
    S2.CellID.isValid id = true := by
  unfold decodeCell at h
  split at h
  · split at h
    · rename_i hv
      simp only [Option.some.injEq, Prod.mk.injEq] at h
      rw [← h.1]; exact hv
    · simp at h
  · simp at h

theorem decodeRect_len {bs : Bytes} {b : RectM} {rest : Bytes} (h : decodeRect bs = some (b, rest)) :
    rest.length + 33 = bs.length := by
  have h' : (readUint8 >>= fun version => if version.toNat != encodingVersion then Dec.fail else
      readFloat64Bits >>= fun a => readFloat64Bits >>= fun b => readFloat64Bits >>= fun c =>
      readFloat64Bits >>= fun d => (pure ⟨⟨a⟩, ⟨b⟩, ⟨c⟩, ⟨d⟩⟩ : Dec RectM)) bs = some (b, rest) := h
  obtain ⟨ver, r1, hver, h2⟩ := bind_some h'
  split at h2
  · simp at h2
  · obtain ⟨x, r2, hx, h3⟩ := bind_some h2
    obtain ⟨y, r3, hy, h4⟩ := bind_some h3
    obtain ⟨z, r4, hz, h5⟩ := bind_some h4
    obtain ⟨w, r5, hw, h6⟩ := bind_some h5
    obtain ⟨_, rfl⟩ := pure_some h6
    have := readUint64_len hx; have := readUint64_len hy; have := readUint64_len hz; have := readUint64_len hw
    have : r1.length + 1 = bs.length := by
      cases bs with
      | nil => simp [readUint8] at hver
      | cons b bs => simp only [readUint8, Option.some.injEq, Prod.mk.injEq] at hver; rw [← hver.2]; simp
    omega

/-- `Loop.decode`: at most `maxEncodedVertices` vertices (0, 1, 2 included), depth below 2^32,
    24 input bytes per vertex -/
theorem decodeLoop_inv {bs : Bytes} {l : LoopM} {rest : Bytes} (h : decodeLoop bs = some (l, rest)) :
    l.vertices.length ≤ maxEncodedVertices ∧ l.depth < 2 ^ 32 ∧
      rest.length + 24 * l.vertices.length + 43 ≤ bs.length := by
  have h' : (readUint8 >>= fun version => if version.toNat != encodingVersion then Dec.fail else
      readUint32 >>= fun n => if n.toNat > maxEncodedVertices then Dec.fail else
        readN readPoint n.toNat >>= fun vs => readBool >>= fun oi => readUint32 >>= fun depth =>
        decodeRect >>= fun bound => (pure ⟨vs, oi, depth.toNat, bound⟩ : Dec LoopM)) bs = some (l, rest) := h
  obtain ⟨ver, r1, hver, h2⟩ := bind_some h'
  split at h2
  · simp at h2
  · obtain ⟨n, r2, hn, h3⟩ := bind_some h2
    split at h3
    · simp at h3
    · rename_i hmax
      obtain ⟨vs, r3, hvs, h4⟩ := bind_some h3
      obtain ⟨oi, r4, hoi, h5⟩ := bind_some h4
      obtain ⟨d, r5, hd, h6⟩ := bind_some h5
      obtain ⟨b, r6, hb, h7⟩ := bind_some h6
      obtain ⟨rfl, rfl⟩ := pure_some h7
      obtain ⟨hl, _⟩ := readN_spec readPoint (fun _ => True) (fun _ _ _ _ => trivial) _ _ _ _ hvs
      have hc := readN_consumes readPoint 24 (fun bs a r h => by have := readPoint_len h; omega) _ _ _ _ hvs
      have h1 : r1.length + 1 = bs.length := by
        cases bs with
        | nil => simp [readUint8] at hver
        | cons b bs => simp only [readUint8, Option.some.injEq, Prod.mk.injEq] at hver; rw [← hver.2]; simp
      have := readUint32_len hn
      have := readUint32_len hd
      have := decodeRect_len hb
      obtain ⟨v, r7, hv, h8⟩ := bind_some (show (readLE 1 >>= fun v => pure (v == 1)) r3 = some (oi, r4) from hoi)
      obtain ⟨_, rfl⟩ := pure_some h8
      have := (readLE_some hv).1
      have hdl := d.toNat_lt
      simp only [hl]
      refine ⟨by omega, by omega, by omega⟩

/-- variable cost per value: the values returned by `readN` cost at least the sum of their costs -/
theorem readN_consumes_sum {α} (rd : Dec α) (cost : α → Nat)
    (hk : ∀ bs a r, rd bs = some (a, r) → r.length + cost a ≤ bs.length) :
    ∀ (n : Nat) (bs : Bytes) (l : List α) (rest : Bytes), readN rd n bs = some (l, rest) →
      rest.length + (l.map cost).sum ≤ bs.length := by
  intro n
  induction n with
  | zero =>
    intro bs l rest h
    obtain ⟨rfl, rfl⟩ := pure_some (show (pure [] : Dec (List α)) bs = some (l, rest) from h)
    simp
  | succ n ih =>
    intro bs l rest h
    have h' : (rd >>= fun a => readN rd n >>= fun r => pure (a :: r)) bs = some (l, rest) := h
    obtain ⟨a, r1, ha, h2⟩ := bind_some h'
    obtain ⟨tl, r2, htl, h3⟩ := bind_some h2
    obtain ⟨rfl, rfl⟩ := pure_some h3
    have h1 := hk bs a r1 ha
    have h4 := ih r1 tl _ htl
    simp only [List.map_cons, List.sum_cons]; omega

/-! ### compressed point list: exactly `n` points -/

theorem decodePointsLoop_len (level : Nat) : ∀ (n : Nat) (first : Bool) (cp cq : List UInt32)
    (it : List (Nat × Nat) × Nat) (bs : Bytes) (l : List V3) (rest : Bytes),
    decodePointsLoop level n first cp cq it bs = some (l, rest) → l.length = n := by
  intro n
  induction n with
  | zero =>
    intro first cp cq it bs l rest h
    obtain ⟨rfl, _⟩ := pure_some (show (pure [] : Dec (List V3)) bs = some (l, rest) from h)
    rfl
  | succ n ih =>
    intro first cp cq it bs l rest h
    simp only [decodePointsLoop] at h
    have key : ∀ (rd : Dec (Nat × Nat × List UInt32 × List UInt32)),
        (rd >>= fun r =>
          match facesNext it with
          | none => Dec.fail
          | some (face, it') => decodePointsLoop level n false r.2.2.1 r.2.2.2 it' >>= fun rest =>
              pure (facePiQiToXYZ face r.1 r.2.1 level :: rest)) bs = some (l, rest) → l.length = n + 1 := by
      intro rd h'
      obtain ⟨r, r1, _, h2⟩ := bind_some h'
      cases hf : facesNext it with
      | none => simp only [hf] at h2; simp at h2
      | some q =>
        obtain ⟨face, it'⟩ := q
        simp only [hf] at h2
        obtain ⟨tl, r2, htl, h3⟩ := bind_some h2
        obtain ⟨rfl, _⟩ := pure_some h3
        simp [ih _ _ _ _ _ _ _ htl]
    split at h
    · exact key _ h
    · exact key _ h

theorem decodeOffCenter_len : ∀ (k : Nat) (target : List V3) (bs : Bytes) (l : List V3) (rest : Bytes),
    decodeOffCenter k target bs = some (l, rest) → l.length = target.length := by
  intro k
  induction k with
  | zero =>
    intro target bs l rest h
    obtain ⟨rfl, _⟩ := pure_some (show (pure target : Dec (List V3)) bs = some (l, rest) from h)
    rfl
  | succ k ih =>
    intro target bs l rest h
    simp only [decodeOffCenter, bind_apply] at h
    split at h
    · simp at h
    · split at h
      · simp at h
      · split at h
        · simp at h
        · simp only [bind_apply] at h
          split at h
          · simp at h
          · have := ih _ _ _ _ h
            simpa using this

/-- `decodePointsCompressed(d, level, target)` fills exactly `len(target) = n` points -/
theorem decodePointsCompressed_len {level n : Nat} {bs : Bytes} {l : List V3} {rest : Bytes}
    (h : decodePointsCompressed level n bs = some (l, rest)) : l.length = n := by
  have h' : (decodeFaces n >>= fun faces => decodePointsLoop level n true [] [] (faces, 0) >>= fun target =>
      readUvarint >>= fun numOff => if toInt64 numOff > (n : Int) then Dec.fail
        else decodeOffCenter (toInt64 numOff).toNat target) bs = some (l, rest) := h
  obtain ⟨faces, r1, _, h2⟩ := bind_some h'
  obtain ⟨target, r2, ht, h3⟩ := bind_some h2
  obtain ⟨numOff, r3, _, h4⟩ := bind_some h3
  split at h4
  · simp at h4
  · rw [decodeOffCenter_len _ _ _ _ _ h4]
    exact decodePointsLoop_len level _ _ _ _ _ _ _ _ ht

/-! ### what a decoder can return: the predicates -/

/-- a loop returned by `Loop.decode` (lossless): the vertex count is whatever the 32-bit count field
    said, up to the limit — 0, 1 and 2 vertices included; the depth is a 32-bit value -/
structure DecodedLoop (l : LoopM) : Prop where
  nverts : l.vertices.length ≤ maxEncodedVertices
  depth : l.depth < 2 ^ 32

/-- a loop as stored in a decoded polygon (either format).  A loop WITHOUT an encoded bound has at
    least one vertex (`initBound` replaces the 0-vertex loop by the one-vertex empty loop); a loop
    with an encoded bound may have 0 vertices.  The depth is a 64-bit pattern (Go: `int(uvarint)`,
    possibly negative as a Go `int`; only its parity is ever used by the accessors). -/
structure DecodedLoopC (l : LoopC) : Prop where
  nverts : l.vertices.length ≤ maxEncodedVertices
  depth : l.depth < 2 ^ 64
  nonempty_of_nobound : l.bound = none → 0 < l.vertices.length

/-- a polygon returned by `Polygon.Decode` (either format); `hasHoles` is NOT constrained (the
    lossless format stores it as a byte of its own) -/
structure DecodedPolygon (p : PolygonD) : Prop where
  nloops : p.loops.length ≤ maxEncodedLoops
  loops : ∀ l ∈ p.loops, DecodedLoopC l

theorem DecodedLoop.toC {l : LoopM} (h : DecodedLoop l) : DecodedLoopC l.toC :=
  ⟨h.nverts, by have := h.depth; show l.depth < 2 ^ 64; omega, by intro hb; simp [LoopM.toC] at hb⟩

theorem emptyLoopC_decoded : DecodedLoopC emptyLoopC :=
  ⟨by simp [emptyLoopC, maxEncodedVertices], by simp [emptyLoopC], by intro _; simp [emptyLoopC]⟩

/-- `Loop.decodeCompressed` -/
theorem decodeLoopCompressed_inv {L : Nat} {bs : Bytes} {l : LoopC} {rest : Bytes}
    (h : decodeLoopCompressed L bs = some (l, rest)) : DecodedLoopC l := by
  have h' : (readUvarint >>= fun n => if n > maxEncodedVertices then Dec.fail else
      decodePointsCompressed L n >>= fun vs => readUvarint >>= fun props => readUvarint >>= fun depth =>
        if props &&& 2 != 0 then decodeRect >>= fun b => (pure ⟨vs, props &&& 1 != 0, depth, some b⟩ : Dec LoopC)
        else if n == 0 then pure emptyLoopC else pure ⟨vs, props &&& 1 != 0, depth, none⟩) bs = some (l, rest) := h
  obtain ⟨n, r1, _, h2⟩ := bind_some h'
  split at h2
  · simp at h2
  · rename_i hmax
    obtain ⟨vs, r2, hvs, h3⟩ := bind_some h2
    obtain ⟨props, r3, _, h4⟩ := bind_some h3
    obtain ⟨depth, r4, hd, h5⟩ := bind_some h4
    have hlen := decodePointsCompressed_len hvs
    have hdl := uvarint_lt hd
    split at h5
    · obtain ⟨b, r5, _, h6⟩ := bind_some h5
      obtain ⟨rfl, _⟩ := pure_some h6
      exact ⟨by simp only [hlen]; omega, hdl, by intro hb; simp at hb⟩
    · split at h5
      · obtain ⟨rfl, _⟩ := pure_some h5
        exact emptyLoopC_decoded
      · rename_i hn0
        obtain ⟨rfl, _⟩ := pure_some h5
        refine ⟨by simp only [hlen]; omega, hdl, ?_⟩
        intro _
        simp only [hlen]
        have : n ≠ 0 := by simpa using hn0
        omega

/-- `Polygon.decode` (lossless, after the version byte): the loops are `Loop.decode` results, their
    number is within the limit, and the input holds 24 bytes per decoded vertex -/
theorem decodePolygonLossless_inv {bs : Bytes} {p : PolygonD} {rest : Bytes}
    (h : decodePolygonLossless bs = some (p, rest)) :
    ∃ (ms : List LoopM) (b : RectM), p = ⟨ms.map LoopM.toC, p.hasHoles, some b⟩ ∧
      ms.length ≤ maxEncodedLoops ∧ (∀ m ∈ ms, DecodedLoop m) ∧
      rest.length + 24 * (ms.map (·.vertices.length)).sum + 43 * ms.length + 39 ≤ bs.length := by
  have h' : (readUint8 >>= fun _ => readBool >>= fun hasHoles => readUint32 >>= fun nloops =>
      if nloops.toNat > maxEncodedLoops then Dec.fail else
        readN decodeLoop nloops.toNat >>= fun loops => decodeRect >>= fun bound =>
          (pure ⟨loops.map LoopM.toC, hasHoles, some bound⟩ : Dec PolygonD)) bs = some (p, rest) := h
  obtain ⟨o, r1, ho, h2⟩ := bind_some h'
  obtain ⟨hh, r2, hhh, h3⟩ := bind_some h2
  obtain ⟨nl, r3, hnl, h4⟩ := bind_some h3
  split at h4
  · simp at h4
  · rename_i hmax
    obtain ⟨ms, r4, hms, h5⟩ := bind_some h4
    obtain ⟨b, r5, hb, h6⟩ := bind_some h5
    obtain ⟨rfl, rfl⟩ := pure_some h6
    obtain ⟨hl, hall⟩ := readN_spec decodeLoop DecodedLoop
      (fun bs a r h => ⟨(decodeLoop_inv h).1, (decodeLoop_inv h).2.1⟩) _ _ _ _ hms
    have hc := readN_consumes_sum decodeLoop (fun m => 24 * m.vertices.length + 43)
      (fun bs a r h => by have := (decodeLoop_inv h).2.2; omega) _ _ _ _ hms
    have hsum : ∀ (xs : List LoopM), (xs.map (fun m => 24 * m.vertices.length + 43)).sum
        = 24 * (xs.map (·.vertices.length)).sum + 43 * xs.length := by
      intro xs
      induction xs with
      | nil => rfl
      | cons x xs ih => simp only [List.map_cons, List.sum_cons, List.length_cons, ih]; omega
    rw [hsum] at hc
    have h1 : r1.length + 1 = bs.length := by
      cases bs with
      | nil => simp [readUint8] at ho
      | cons b bs => simp only [readUint8, Option.some.injEq, Prod.mk.injEq] at ho; rw [← ho.2]; simp
    obtain ⟨v, r7, hv, h8⟩ := bind_some (show (readLE 1 >>= fun v => pure (v == 1)) r1 = some (hh, r2) from hhh)
    obtain ⟨_, rfl⟩ := pure_some h8
    have := (readLE_some hv).1
    have := readUint32_len hnl
    have := decodeRect_len hb
    refine ⟨ms, b, rfl, by omega, hall, by omega⟩

/-- `Polygon.decodeCompressed` (after the version byte): `hasHoles` is recomputed from the depths -/
theorem decodePolygonCompressed_inv {bs : Bytes} {p : PolygonD} {rest : Bytes}
    (h : decodePolygonCompressed bs = some (p, rest)) :
    DecodedPolygon p ∧ p.hasHoles = p.loops.any (fun l => l.depth % 2 == 1) ∧ p.bound = none := by
  have h' : (readUint8 >>= fun snapLevel => if snapLevel.toNat > 30 then Dec.fail else
      readUvarint >>= fun nloops => if toInt64 nloops > (maxEncodedLoops : Int) then Dec.fail
        else if toInt64 nloops < 0 then Dec.fail else
          readN (decodeLoopCompressed snapLevel.toNat) (toInt64 nloops).toNat >>= fun loops =>
            (pure ⟨loops, loops.any (fun l => l.depth % 2 == 1), none⟩ : Dec PolygonD)) bs = some (p, rest) := h
  obtain ⟨sl, r1, _, h2⟩ := bind_some h'
  split at h2
  · simp at h2
  · obtain ⟨nl, r2, hnl, h3⟩ := bind_some h2
    split at h3
    · simp at h3
    · rename_i hc1
      split at h3
      · simp at h3
      · rename_i hc2
        obtain ⟨ls, r3, hls, h4⟩ := bind_some h3
        obtain ⟨rfl, _⟩ := pure_some h4
        obtain ⟨hl, hall⟩ := readN_spec (decodeLoopCompressed sl.toNat) DecodedLoopC
          (fun bs a r h => decodeLoopCompressed_inv h) _ _ _ _ hls
        obtain ⟨e1, e2⟩ := toInt64_range (uvarint_lt hnl) hc1 hc2
        refine ⟨⟨?_, hall⟩, rfl, rfl⟩
        show ls.length ≤ maxEncodedLoops
        rw [hl, e1]; exact e2

theorem decodedPolygon_of_lossless {bs : Bytes} {p : PolygonD} {rest : Bytes}
    (h : decodePolygonLossless bs = some (p, rest)) : DecodedPolygon p := by
  obtain ⟨ms, b, hp, hn, hall, _⟩ := decodePolygonLossless_inv h
  rw [hp]
  refine ⟨by simpa using hn, ?_⟩
  intro l hl
  simp only [List.mem_map] at hl
  obtain ⟨m, hm, rfl⟩ := hl
  exact (hall m hm).toC

/-- `Polygon.Decode`: dispatch on the version byte -/
theorem decodePolygon_inv {bs : Bytes} {p : PolygonD} {rest : Bytes} (h : decodePolygon bs = some (p, rest)) :
    ∃ v tl, bs = v :: tl ∧
      ((v.toNat = encodingVersion ∧ decodePolygonLossless tl = some (p, rest)) ∨
       (v.toNat = encodingCompressedVersion ∧ decodePolygonCompressed tl = some (p, rest))) := by
  cases bs with
  | nil => simp [decodePolygon, readUint8] at h
  | cons v tl =>
    refine ⟨v, tl, rfl, ?_⟩
    have h' : (if v.toNat == encodingVersion then decodePolygonLossless
      else if v.toNat == encodingCompressedVersion then decodePolygonCompressed else Dec.fail) tl = some (p, rest) := h
    split at h'
    · rename_i hv; exact Or.inl ⟨by simpa using hv, h'⟩
    · split at h'
      · rename_i hv; exact Or.inr ⟨by simpa using hv, h'⟩
      · simp at h'

end S2Proofs.C15
