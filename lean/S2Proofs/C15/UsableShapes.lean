/-
  S2Proofs.C15.UsableShapes — the accessor models of `Polygon` (S2/Shapes.lean) on the state that
  `initEdgesAndIndex` builds (`PolygonS.init`), for EVERY loop list: no validity hypothesis, loops
  with 0, 1, 2 vertices anywhere, both search paths (linear scan for ≤ 12 loops, `cumulativeEdges`
  for > 12).  What survives without `PolyValid` is `Usable` (nothing panics, every returned position
  / chain / vertex label exists, the two enumerations agree); what does not survive is the tiling
  clause of the Shape contract (see `S2Proofs.C06.polygon_contract_needs_valid`).

  Helper lemmas for S2Proofs/Properties/C15_Usable.lean; the search-loop lemmas are those of
  S2Proofs/C06/Polygon.lean (`linSearch_spec`, `cumSearch_spec`, `sumLens_spec`), none of which
  needs a validity hypothesis.
-/
import S2Proofs.C06.Polygon
namespace S2Proofs.C15
open S2 S2.Shapes S2Proofs.C06

/-- "safe to query at the accessor level": the part of the Shape contract that holds for every
    decoded value.  `none` is a Go panic (index out of range / divide by zero), so every `= some …`
    below says that the accessor returns; `vtx` / `loopAt` only return labels of existing vertices /
    loops, so a returned edge names existing vertices (`edge_labels`, `chainEdge_labels`).
    * `edge_ok`: for every edge id `e < NumEdges`: `Edge(e)` and `ChainPosition(e)` return, the
      position is an existing chain and a non-negative offset, and `ChainEdge` at that position
      returns the same edge;
    * `chain_ok`: for every chain id `i < NumChains`: `Chain(i)` returns a range inside
      `[0, NumEdges]`, and for every offset in it `ChainEdge(i, j)`, `Edge(start + j)`,
      `ChainPosition(start + j)` return, consistently. -/
structure Usable {V : Type} (A : ShapeAcc V) (ne nc : Int) : Prop where
  numEdges_eq : A.numEdges = some ne
  numChains_eq : A.numChains = some nc
  ne_nonneg : 0 ≤ ne
  nc_nonneg : 0 ≤ nc
  edge_ok : ∀ e, 0 ≤ e → e < ne → ∃ c o ed, A.chainPosition e = some (c, o) ∧ 0 ≤ c ∧ c < nc ∧ 0 ≤ o ∧
      A.edge e = some ed ∧ A.chainEdge c o = some ed
  chain_ok : ∀ i, 0 ≤ i → i < nc → ∃ st len, A.chain i = some (st, len) ∧ 0 ≤ st ∧ 0 ≤ len ∧ st + len ≤ ne ∧
      ∀ j, 0 ≤ j → j < len → ∃ ed, A.chainPosition (st + j) = some (i, j) ∧
        A.edge (st + j) = some ed ∧ A.chainEdge i j = some ed

/-- the full Shape contract implies `Usable` as soon as the chains end inside `[0, ne]` -/
theorem Contract.usable {V : Type} {A : ShapeAcc V} {ne nc : Int} (h : Contract A ne nc)
    (hend : ∀ i st len, 0 ≤ i → i < nc → A.chain i = some (st, len) → 0 ≤ st ∧ st + len ≤ ne) :
    Usable A ne nc where
  numEdges_eq := h.numEdges_eq
  numChains_eq := h.numChains_eq
  ne_nonneg := h.ne_nonneg
  nc_nonneg := h.nc_nonneg
  edge_ok := by
    intro e h0 h1
    obtain ⟨c, o, st, len, ed, hp, hc0, hc1, _, _, ho, _, he, hce⟩ := h.pos_edge e h0 h1
    exact ⟨c, o, ed, hp, hc0, hc1, ho, he, hce⟩
  chain_ok := by
    intro i h0 h1
    obtain ⟨st, len, hc, hl, hall⟩ := h.chain_inv i h0 h1
    obtain ⟨hs, he⟩ := hend i st len h0 h1 hc
    exact ⟨st, len, hc, hs, hl, he, hall⟩

/-! ### `initEdgesAndIndex` -/

/-- unless the polygon is the full polygon, `initEdgesAndIndex` builds `polyState` -/
theorem init_eq_polyState (loops : List LoopS) (h : ∀ l, loops = [l] → l.isFullB = false) :
    PolygonS.init loops = polyState loops := by
  match loops, h with
  | [], _ => rfl
  | [l], h =>
    have := h l rfl
    simp [PolygonS.init, polyState, lens, this]
  | _ :: _ :: _, _ => rfl

/-- `initEdgesAndIndex` does not touch the loops -/
theorem init_loops (loops : List LoopS) : (PolygonS.init loops).loops = loops := by
  unfold PolygonS.init
  simp only []
  repeat' split
  all_goals rfl

theorem start_le_sum (ns : List Nat) (i : Nat) (hi : i < ns.length) : start ns i + ns[i] ≤ ns.sum := by
  have h1 := start_succ ns i hi
  have h2 := start_mono ns (i + 1) ns.length (by omega) (Nat.le_refl _)
  rw [start_length] at h2
  omega

/-- `Chain(i)` on ANY loop list: it returns, the start is the prefix sum, the length is the
    loop's vertex count or (linear path, one-vertex loop) 0 -/
theorem polyState_chain_any (loops : List LoopS) (i : Nat) (hi : i < loops.length) :
    ∃ len : Int, Polygon.Chain (polyState loops) (i : Nat) = some (((start (lens loops) i : Nat) : Int), len) ∧
      0 ≤ len ∧ len ≤ ((loops[i].n : Nat) : Int) ∧
      (((∀ l ∈ loops, l.n ≠ 1) ∨ loops.length > maxLinearSearchLoops) → len = ((loops[i].n : Nat) : Int)) ∧
      (¬ loops.length > maxLinearSearchLoops → loops[i].n = 1 → len = 0) := by
  have hl := polyState_loopAt loops i hi
  by_cases hbig : loops.length > maxLinearSearchLoops
  · have hlen : (lens loops).length = loops.length := lens_length loops
    have hc : (polyState loops).cumulativeEdges = some ((prefixSums 0 (lens loops)).take (lens loops).length) := by
      simp [polyState, hbig, hlen]
    have hg := getI_take_prefixSums (lens loops) i (by omega)
    refine ⟨((loops[i].n : Nat) : Int), ?_, by omega, by omega, fun _ => rfl, fun h => absurd hbig h⟩
    simp only [Polygon.Chain, hc, hg, hl]
    rfl
  · have hc : (polyState loops).cumulativeEdges = none := by simp [polyState, hbig]
    have hs := sumLens_spec loops 0 i (by omega) 0
    simp only [Int.zero_add] at hs
    have hloops : (polyState loops).loops = loops := rfl
    by_cases hn : ((loops[i].n : Nat) : Int) = 1
    · refine ⟨0, ?_, by omega, by omega, ?_, fun _ _ => rfl⟩
      · simp only [Polygon.Chain, hc, hloops, hs, hl]
        simp [hn]
      · intro hv
        rcases hv with hv | hv
        · have := hv loops[i] (List.getElem_mem hi); omega
        · exact absurd hv hbig
    · refine ⟨((loops[i].n : Nat) : Int), ?_, by omega, by omega, fun _ => rfl, fun _ h1 => by omega⟩
      simp only [Polygon.Chain, hc, hloops, hs, hl]
      simp [hn]

/-- every loop list, both search paths, loops with 0 / 1 / 2 vertices anywhere -/
theorem polyState_usable (loops : List LoopS) :
    Usable (Polygon.acc (polyState loops)) (((lens loops).sum : Nat) : Int) ((loops.length : Nat) : Int) where
  numEdges_eq := by
    show some (Polygon.NumEdges (polyState loops)) = _
    simp [Polygon.NumEdges, polyState, sumNat_eq_sum]
  numChains_eq := by
    show some (Polygon.NumChains (polyState loops)) = _
    simp [Polygon.NumChains, Polygon.NumLoops, polyState]
  ne_nonneg := by omega
  nc_nonneg := by omega
  edge_ok := by
    intro e he0 he
    obtain ⟨k, rfl⟩ := Int.eq_ofNat_of_zero_le he0
    obtain ⟨i, j, hi, hj, hk⟩ := decompose (lens loops) k (by omega)
    have hi' : i < loops.length := by simpa [lens_length] using hi
    rw [lens_get loops i hi'] at hj
    obtain ⟨ed, e1, e2⟩ := polyState_edge loops i hi' j hj
    have hk' : (k : Int) = ((start (lens loops) i : Nat) : Int) + (j : Nat) := by omega
    refine ⟨(i : Nat), (j : Nat), ed, ?_, by omega, by omega, by omega, ?_, e2⟩
    · rw [hk']; exact polyState_chainPosition loops i hi' j hj
    · rw [hk']; exact e1
  chain_ok := by
    intro i hi0 hi
    obtain ⟨k, rfl⟩ := Int.eq_ofNat_of_zero_le hi0
    have hk : k < loops.length := by omega
    obtain ⟨len, hc, hl0, hl1, _, _⟩ := polyState_chain_any loops k hk
    have hk' : k < (lens loops).length := by simpa [lens_length] using hk
    have hsum := start_le_sum (lens loops) k hk'
    rw [lens_get loops k hk] at hsum
    refine ⟨_, len, hc, by omega, hl0, by omega, ?_⟩
    intro j hj0 hj
    obtain ⟨m, rfl⟩ := Int.eq_ofNat_of_zero_le hj0
    have hm : m < loops[k].n := by omega
    obtain ⟨ed, e1, e2⟩ := polyState_edge loops k hk m hm
    exact ⟨ed, polyState_chainPosition loops k hk m hm, e1, e2⟩

/-- the state `initEdgesAndIndex` builds for the full polygon: no edges, one chain of length 0 -/
theorem initFull_usable (l : LoopS) (h : l.isFullB = true) :
    Usable (Polygon.acc (PolygonS.init [l])) 0 1 := by
  obtain ⟨n, o, d⟩ := l
  simp only [LoopS.isFullB, LoopS.isEmptyOrFullB, Bool.and_eq_true, beq_iff_eq] at h
  obtain ⟨rfl, rfl⟩ := h
  refine ⟨rfl, rfl, by omega, by omega, ?_, ?_⟩
  · intro e h0 h1; omega
  · intro i h0 h1
    have : i = 0 := by omega
    subst this
    refine ⟨0, 0, rfl, by omega, by omega, by omega, ?_⟩
    intro j h0 h1; omega

/-- **every loop list**: the state built by `initEdgesAndIndex` is safe to query -/
theorem init_usable (loops : List LoopS) :
    Usable (Polygon.acc (PolygonS.init loops)) (Polygon.NumEdges (PolygonS.init loops))
      (Polygon.NumChains (PolygonS.init loops)) := by
  by_cases hf : ∃ l, loops = [l] ∧ l.isFullB = true
  · obtain ⟨l, rfl, hl⟩ := hf
    have e1 : Polygon.NumEdges (PolygonS.init [l]) = 0 := by
      simp [Polygon.NumEdges, PolygonS.init, hl]
    have e2 : Polygon.NumChains (PolygonS.init [l]) = 1 := by
      simp [Polygon.NumChains, Polygon.NumLoops, PolygonS.init, hl]
    rw [e1, e2]
    exact initFull_usable l hl
  · have hnf : ∀ l, loops = [l] → l.isFullB = false := by
      intro l hl
      cases hb : l.isFullB with
      | false => rfl
      | true => exact absurd ⟨l, hl, hb⟩ hf
    rw [init_eq_polyState loops hnf]
    have e1 : Polygon.NumEdges (polyState loops) = (((lens loops).sum : Nat) : Int) := by
      simp [Polygon.NumEdges, polyState, sumNat_eq_sum]
    have e2 : Polygon.NumChains (polyState loops) = ((loops.length : Nat) : Int) := by
      simp [Polygon.NumChains, Polygon.NumLoops, polyState]
    rw [e1, e2]
    exact polyState_usable loops

/-- `NumEdges` of the state built by `initEdgesAndIndex` is at most the total vertex count -/
theorem init_numEdges_le (loops : List LoopS) :
    Polygon.NumEdges (PolygonS.init loops) ≤ (((lens loops).sum : Nat) : Int) := by
  by_cases hf : ∃ l, loops = [l] ∧ l.isFullB = true
  · obtain ⟨l, rfl, hl⟩ := hf
    have e1 : Polygon.NumEdges (PolygonS.init [l]) = 0 := by
      simp [Polygon.NumEdges, PolygonS.init, hl]
    rw [e1]; omega
  · have hnf : ∀ l, loops = [l] → l.isFullB = false := by
      intro l hl
      cases hb : l.isFullB with
      | false => rfl
      | true => exact absurd ⟨l, hl, hb⟩ hf
    rw [init_eq_polyState loops hnf]
    have e1 : Polygon.NumEdges (polyState loops) = (((lens loops).sum : Nat) : Int) := by
      simp [Polygon.NumEdges, polyState, sumNat_eq_sum]
    rw [e1]; omega

/-! ### the labels an accessor returns exist (what `some` means, for any state) -/

theorem vertex_label {l : LoopS} {j v : Int} (h : Loop.Vertex l j = some v) :
    0 ≤ v ∧ v < (l.n : Int) := by
  have h' : ((modI j (l.n : Int)).bind fun t1 => vtx l.n t1) = some v := h
  obtain ⟨t1, _, ht2⟩ := Option.bind_eq_some_iff.mp h'
  unfold vtx at ht2
  split at ht2
  · rename_i hr
    simp only [Option.some.injEq] at ht2
    subst ht2; exact hr
  · simp at ht2

theorem orientedVertex_label {l : LoopS} {j v : Int} (h : Loop.OrientedVertex l j = some v) :
    0 ≤ v ∧ v < (l.n : Int) := by
  have h' : ((Loop.Vertex l (if Loop.IsHole l = true then (((l.n : Int) - 1) - (if j - (l.n : Int) < 0 then j else j - (l.n : Int)))
      else (if j - (l.n : Int) < 0 then j else j - (l.n : Int))))) = some v := h
  exact vertex_label h'

/-- an edge returned by `ChainEdge(i, j)` names two existing vertices of the existing loop `i` -/
theorem chainEdge_labels {s : PolygonS} {i j : Int} {a b : Int × Int}
    (h : Polygon.ChainEdge s i j = some (a, b)) :
    ∃ k : Nat, ∃ hk : k < s.loops.length, a.1 = (k : Int) ∧ b.1 = (k : Int) ∧
      0 ≤ a.2 ∧ a.2 < (s.loops[k].n : Int) ∧ 0 ≤ b.2 ∧ b.2 < (s.loops[k].n : Int) := by
  have h' : ((s.loopAt i).bind fun t1 => (Loop.OrientedVertex t1 j).bind fun t2 => (s.loopAt i).bind fun t3 =>
      (Loop.OrientedVertex t3 (j + 1)).bind fun t4 => some ((i, t2), (i, t4))) = some (a, b) := h
  obtain ⟨l, hl, h2⟩ := Option.bind_eq_some_iff.mp h'
  obtain ⟨v, hv, h3⟩ := Option.bind_eq_some_iff.mp h2
  obtain ⟨l', hl', h4⟩ := Option.bind_eq_some_iff.mp h3
  obtain ⟨w, hw, h5⟩ := Option.bind_eq_some_iff.mp h4
  simp only [Option.some.injEq, Prod.mk.injEq] at h5
  obtain ⟨rfl, rfl⟩ := h5
  rw [hl] at hl'
  simp only [Option.some.injEq] at hl'
  subst hl'
  unfold PolygonS.loopAt at hl
  split at hl
  · rename_i h0
    have hlt : i.toNat < s.loops.length := by
      rcases Nat.lt_or_ge i.toNat s.loops.length with h | h
      · exact h
      · rw [List.getElem?_eq_none h] at hl; simp at hl
    rw [List.getElem?_eq_getElem hlt] at hl
    simp only [Option.some.injEq] at hl
    subst hl
    have e : (i.toNat : Int) = i := by omega
    exact ⟨i.toNat, hlt, e.symm, e.symm, (orientedVertex_label hv).1, (orientedVertex_label hv).2,
      (orientedVertex_label hw).1, (orientedVertex_label hw).2⟩
  · simp at hl

/-- `Edge(e)` is `ChainEdge` at the position the search finds: the same for every state -/
theorem edge_eq_chainEdge (s : PolygonS) (e : Int) :
    Polygon.Edge s e = (Polygon.search s e).bind fun p => Polygon.ChainEdge s p.1 p.2 := by
  unfold Polygon.Edge Polygon.ChainEdge
  cases Polygon.search s e with
  | none => rfl
  | some p => obtain ⟨i, j⟩ := p; rfl

/-- an edge returned by `Edge(e)` names two existing vertices of one existing loop -/
theorem edge_labels {s : PolygonS} {e : Int} {a b : Int × Int} (h : Polygon.Edge s e = some (a, b)) :
    ∃ k : Nat, ∃ hk : k < s.loops.length, a.1 = (k : Int) ∧ b.1 = (k : Int) ∧
      0 ≤ a.2 ∧ a.2 < (s.loops[k].n : Int) ∧ 0 ≤ b.2 ∧ b.2 < (s.loops[k].n : Int) := by
  rw [edge_eq_chainEdge] at h
  cases hs : Polygon.search s e with
  | none => rw [hs] at h; simp at h
  | some p => rw [hs] at h; exact chainEdge_labels h

theorem sum_le_of_forall_le (xs : List Nat) (M : Nat) (h : ∀ x ∈ xs, x ≤ M) : xs.sum ≤ xs.length * M := by
  induction xs with
  | nil => simp
  | cons x xs ih =>
    have h1 := h x (by simp)
    have h2 := ih (fun y hy => h y (by simp [hy]))
    simp only [List.sum_cons, List.length_cons, Nat.succ_mul]; omega

/-! ### the full Shape contract on `initEdgesAndIndex` states -/

/-- the loop lists on which the state built by `initEdgesAndIndex` satisfies the whole Shape contract:
    the full polygon, no one-vertex loop, or more than 12 loops (the `cumulativeEdges` path reports
    the true vertex count as the chain length) -/
def InitValid (loops : List LoopS) : Prop :=
  (∃ l, loops = [l] ∧ l.isFullB = true) ∨ (∀ l ∈ loops, l.n ≠ 1) ∨ loops.length > maxLinearSearchLoops

theorem polyState_contract' (loops : List LoopS)
    (hv : (∀ l ∈ loops, l.n ≠ 1) ∨ loops.length > maxLinearSearchLoops) :
    Contract (Polygon.acc (polyState loops)) (((lens loops).sum : Nat) : Int) (((lens loops).length : Nat) : Int) := by
  have hlen : (lens loops).length = loops.length := lens_length loops
  apply contract_prefix
  · show some (Polygon.NumEdges (polyState loops)) = _
    simp [Polygon.NumEdges, polyState, sumNat_eq_sum]
  · show some (Polygon.NumChains (polyState loops)) = _
    simp [Polygon.NumChains, Polygon.NumLoops, polyState, hlen]
  · intro i hi
    have hi' : i < loops.length := by omega
    rw [lens_get loops i hi']
    obtain ⟨len, hc, _, _, hfull, _⟩ := polyState_chain_any loops i hi'
    show Polygon.Chain (polyState loops) (i : Nat) = _
    rw [hc, hfull hv]
  · intro i hi j hj
    have hi' : i < loops.length := by omega
    rw [lens_get loops i hi'] at hj
    exact polyState_chainPosition loops i hi' j hj
  · intro i hi j hj
    have hi' : i < loops.length := by omega
    rw [lens_get loops i hi'] at hj
    exact polyState_edge loops i hi' j hj

theorem init_contract (loops : List LoopS) (hv : InitValid loops) :
    Contract (Polygon.acc (PolygonS.init loops)) (Polygon.NumEdges (PolygonS.init loops))
      (Polygon.NumChains (PolygonS.init loops)) := by
  rcases hv with ⟨l, rfl, hl⟩ | hv
  · have hn : l.n = 1 := by
      simp only [LoopS.isFullB, LoopS.isEmptyOrFullB, Bool.and_eq_true, beq_iff_eq] at hl; exact hl.1
    have hi : PolygonS.init [l] = PolygonS.fromLoops [l] := by
      have : l.isEmptyB = false := by
        simp only [LoopS.isFullB, LoopS.isEmptyOrFullB, Bool.and_eq_true, beq_iff_eq] at hl
        simp [LoopS.isEmptyB, hl.2]
      simp [PolygonS.fromLoops, this]
    rw [hi]
    exact polygon_contract_emptyFull l hn
  · have hnf : ∀ l, loops = [l] → l.isFullB = false := by
      intro l hl
      subst hl
      rcases hv with hv | hv
      · have := hv l (by simp)
        simp [LoopS.isFullB, LoopS.isEmptyOrFullB, this]
      · simp [maxLinearSearchLoops] at hv
    rw [init_eq_polyState loops hnf]
    have e1 : Polygon.NumEdges (polyState loops) = (((lens loops).sum : Nat) : Int) := by
      simp [Polygon.NumEdges, polyState, sumNat_eq_sum]
    have e2 : Polygon.NumChains (polyState loops) = (((lens loops).length : Nat) : Int) := by
      simp [Polygon.NumChains, Polygon.NumLoops, polyState, lens_length]
    rw [e1, e2]
    exact polyState_contract' loops hv

/-- … and on no other loop list: a one-vertex loop among ≤ 12 loops (other than the full polygon)
    contributes an edge id that lies in no chain (`Chain` reports length 0 for it). -/
theorem init_contract_iff (loops : List LoopS) :
    Contract (Polygon.acc (PolygonS.init loops)) (Polygon.NumEdges (PolygonS.init loops))
      (Polygon.NumChains (PolygonS.init loops)) ↔ InitValid loops := by
  refine ⟨?_, init_contract loops⟩
  intro hc
  by_cases hv : InitValid loops
  · exact hv
  · exfalso
    have h1 : ¬ ∃ l, loops = [l] ∧ l.isFullB = true := fun h => hv (Or.inl h)
    have h2 : ¬ ∀ l ∈ loops, l.n ≠ 1 := fun h => hv (Or.inr (Or.inl h))
    have h3 : ¬ loops.length > maxLinearSearchLoops := fun h => hv (Or.inr (Or.inr h))
    have hnf : ∀ l, loops = [l] → l.isFullB = false := by
      intro l hl
      cases hb : l.isFullB with
      | false => rfl
      | true => exact absurd ⟨l, hl, hb⟩ h1
    have hex : ∃ l ∈ loops, l.n = 1 := by
      apply Classical.byContradiction
      intro hne
      apply h2
      intro l hl hn
      exact hne ⟨l, hl, hn⟩
    obtain ⟨l, hl, hn⟩ := hex
    obtain ⟨i, hi, rfl⟩ := List.getElem_of_mem hl
    rw [init_eq_polyState loops hnf] at hc
    have e1 : Polygon.NumEdges (polyState loops) = (((lens loops).sum : Nat) : Int) := by
      simp [Polygon.NumEdges, polyState, sumNat_eq_sum]
    rw [e1] at hc
    have hi' : i < (lens loops).length := by simpa [lens_length] using hi
    have hsum := start_le_sum (lens loops) i hi'
    rw [lens_get loops i hi, hn] at hsum
    obtain ⟨c, o, st, len, ed, hp, _, _, hch, _, _, holt, _⟩ :=
      hc.pos_edge (((start (lens loops) i : Nat) : Int) + ((0 : Nat) : Int)) (by omega) (by omega)
    have hp' := polyState_chainPosition loops i hi 0 (by omega)
    have hp2 : Polygon.ChainPosition (polyState loops) (((start (lens loops) i : Nat) : Int) + ((0 : Nat) : Int))
        = some (c, o) := hp
    rw [hp'] at hp2
    obtain ⟨rfl, rfl⟩ := Prod.mk.inj (Option.some.inj hp2)
    obtain ⟨len', hc', _, _, _, hzero⟩ := polyState_chain_any loops i hi
    have hch2 : Polygon.Chain (polyState loops) ((i : Nat) : Int) = some (st, len) := hch
    rw [hc'] at hch2
    obtain ⟨_, rfl⟩ := Prod.mk.inj (Option.some.inj hch2)
    have := hzero h3 hn
    omega

end S2Proofs.C15
