/-
  Helper lemmas for C13 (targets): the edge-count cache of a query decides brute force / optimized exactly
  like a fresh count; the inner search of an index target; one call with an index target in the repaired
  model gives the answer of fresh objects (`fet_fixed`).
-/
import S2Proofs.History.Sim
namespace S2Proofs.HistoryLemmas
open S2.History

theorem ansOf_eq (shapes : List Shape) (o : Opts) (rep : Report) : ansOf shapes o rep = searchAns shapes o rep := rfl

def totalEdges : List Shape → Nat
  | [] => 0
  | s :: t => s.edges + totalEdges t

/-- `NumEdgesUpTo(limit)` is below the limit exactly when the total is, and then it IS the total -/
theorem neut_lt (s : List Shape) (L acc : Nat) :
    (numEdgesUpTo s L acc < L ↔ acc + totalEdges s < L) ∧
    (numEdgesUpTo s L acc < L → numEdgesUpTo s L acc = acc + totalEdges s) := by
  induction s generalizing acc with
  | nil => simp [numEdgesUpTo, totalEdges]
  | cons x t ih =>
    simp only [numEdgesUpTo, totalEdges]
    split
    · constructor
      · constructor <;> intro h <;> omega
      · intro h; omega
    · obtain ⟨i1, i2⟩ := ih (acc + x.edges)
      constructor
      · rw [i1]; omega
      · intro h; rw [i2 h]; omega

/-- the brute-force test of `findEdgesInternal` on the (possibly cached) edge count = the test on a fresh count -/
theorem brute_iff {idx : Index} {q : EQ} (hn : NumOK idx q) (m : Nat) (hm : 0 < m) :
    ((if (decide (m > q.numEdgesLimit) && decide (q.numEdges ≥ q.numEdgesLimit)) = true then
        ({ q with numEdges := numEdgesUpTo idx.shapes m 0, numEdgesLimit := m } : EQ) else q).numEdges < m) ↔
      numEdgesUpTo idx.shapes m 0 < m := by
  split
  · exact Iff.rfl
  · rename_i hc
    simp only [Bool.and_eq_true, decide_eq_true_eq, not_and, Nat.not_le] at hc
    have a1 := neut_lt idx.shapes m 0
    have a2 := neut_lt idx.shapes q.numEdgesLimit 0
    rcases hn with ⟨h1, h2⟩ | h
    · have := hc (by omega); omega
    · by_cases hl : m > q.numEdgesLimit
      · have := hc hl
        rw [h] at this
        have e := a2.2 this
        have := a2.1.1 this
        rw [h, a1.1]; constructor <;> intro _ <;> omega
      · rw [h, a1.1]
        constructor
        · intro h3
          have h4 : numEdgesUpTo idx.shapes q.numEdgesLimit 0 < q.numEdgesLimit := by omega
          have := a2.2 h4; omega
        · intro h3
          have h4 : numEdgesUpTo idx.shapes q.numEdgesLimit 0 < q.numEdgesLimit := a2.1.2 (by omega)
          have := a2.2 h4; omega

/-- invariant of a target object (any kind; for `kind ≠ index` the components are never touched) -/
structure TgtOK (t : Target) : Prop where
  idx : IdxOK t.idx
  ii : t.q.opts.includeInteriors = t.q.user.includeInteriors
  bf : t.q.opts.useBruteForce = t.q.user.useBruteForce

theorem idxOK_addAll {i : Index} (h : IdxOK i) (l : List Shape) : IdxOK (addAll i l) := by
  induction l generalizing i with
  | nil => exact h
  | cons x t ih => exact ih (idxOK_add h x)

theorem addAll_shapes (i : Index) (l : List Shape) : (addAll i l).shapes = i.shapes ++ l := by
  induction l generalizing i with
  | nil => simp [addAll]
  | cons x t ih => simp [addAll, ih, Index.add]

theorem tgtOK_new (k : TKind) (l : List Shape) : TgtOK (Target.new k l) :=
  ⟨idxOK_addAll idxOK_new _, rfl, rfl⟩

/-- the inner search of an index target whose query holds no covering (repaired model) -/
theorem innerFind_fixed (t : Target) (ht : IdxOK t.idx) (hcov : t.q.covering = none) (lim : Lim) :
    ∃ t', t.innerFind Fixes.all lim =
        some (t', { t.q.opts with distanceLimit := lim, maxResults := 1 },
              searchAns t.idx.shapes { t.q.opts with distanceLimit := lim, maxResults := 1 } .single) ∧
      IdxOK t'.idx ∧ t'.idx.shapes = t.idx.shapes ∧ t'.kind = t.kind ∧ t'.q.user = t.q.user ∧
      t'.q.opts.includeInteriors = t.q.opts.includeInteriors ∧ t'.q.opts.useBruteForce = t.q.opts.useBruteForce := by
  obtain ⟨⟨i, q', a⟩, hr⟩ := fec_isSome (f := Fixes.all) t.idx
    { t.q with opts := { t.q.opts with distanceLimit := lim } } 30
    { t.q.opts with distanceLimit := lim, maxResults := 1 } .single (Or.inl rfl)
  have hc : CovOK t.idx { t.q with opts := { t.q.opts with distanceLimit := lim } } := by
    intro c hcq; simp [hcov] at hcq
  have hp := fec_some ht hc hr
  refine ⟨{ t with idx := i, q := q' }, ?_, hp.ok, hp.shapes, rfl, hp.user, ?_, ?_⟩
  · have hd8 : Fixes.all.d8 = true := rfl
    simp only [Target.innerFind, hd8, if_true, hr, hp.ans, ansOf_eq]
  · simp [hp.opts]
  · simp [hp.opts]

theorem prepare_fixed (t : Target) (e : Lim) :
    (t.prepare Fixes.all e).idx = t.idx ∧ (t.prepare Fixes.all e).kind = t.kind ∧
    (t.prepare Fixes.all e).q.covering = none ∧ (t.prepare Fixes.all e).q.opts = { t.q.opts with maxError := e } ∧
    (t.prepare Fixes.all e).q.user = t.q.user := by
  simp [Target.prepare, Target.setMaxError, Fixes.all, EQ.reset]

theorem interiorsT_fixed {idx : Index} (hi : IdxOK idx) (t : Target) (o : Opts) :
    ∃ i, interiorsT Fixes.all idx t o =
        some (i, if o.includeInteriors then some (if (liveIds t.idx.shapes).isEmpty then [] else liveIds idx.shapes) else none) ∧
      IdxOK i ∧ i.shapes = idx.shapes ∧ (idx.status = .fresh → i = idx) ∧ i.gone = idx.gone := by
  unfold interiorsT
  by_cases hin : o.includeInteriors = true
  · by_cases he : (liveIds t.idx.shapes).isEmpty = true
    · exact ⟨idx, by simp [hin, he], hi, rfl, fun _ => rfl, rfl⟩
    · obtain ⟨i, hm⟩ := mau_fixed_isSome (f := Fixes.all) rfl idx
      obtain ⟨h1, h2, _, _, h5⟩ := mau_some hi hm
      exact ⟨i, by simp [hin, he, hm, h5], h1, h2, fun hf => mau_fresh_id hm hf, mau_gone hm⟩
  · exact ⟨idx, by simp [hin], hi, rfl, fun _ => rfl, rfl⟩

/-- facts about the target object after a call -/
structure TPost (t t' : Target) : Prop where
  ok : IdxOK t'.idx
  shapes : t'.idx.shapes = t.idx.shapes
  kind : t'.kind = t.kind
  user : t'.q.user = t.q.user
  ii : t'.q.opts.includeInteriors = t.q.opts.includeInteriors
  bf : t'.q.opts.useBruteForce = t.q.opts.useBruteForce

theorem bruteT_fixed (idx : Index) (q : EQ) (t : Target) (o : Opts) (rep : Report) (ints ts : Option (List Nat))
    (ht : IdxOK t.idx) (hcov : t.q.covering = none) :
    ∃ t', bruteT Fixes.all idx q t o rep ints ts =
        some (idx, q, t', ⟨outerAns rep ints (liveIds idx.shapes) o,
          some ⟨ts, none, { t.q.opts with distanceLimit := o.distanceLimit, maxResults := 1 },
            if hasEdges idx.shapes then
              some (searchAns t.idx.shapes { t.q.opts with distanceLimit := o.distanceLimit, maxResults := 1 } .single)
            else none⟩⟩) ∧ TPost t t' := by
  unfold bruteT
  by_cases he : hasEdges idx.shapes = true
  · obtain ⟨t', h1, h2, h3, h4, h5, h6, h7⟩ := innerFind_fixed t ht hcov o.distanceLimit
    exact ⟨t', by simp [he, h1], h2, h3, h4, h5, h6, h7⟩
  · exact ⟨t, by simp [he], ht, rfl, rfl, rfl, rfl, rfl⟩

theorem optT_fixed {idx : Index} {q : EQ} (t : Target) (o : Opts) (rep : Report) (ints ts : Option (List Nat))
    (hi : IdxOK idx) (hc : CovOK idx q) (ht : IdxOK t.idx) (hcov : t.q.covering = none) :
    ∃ idx' q' t', optT Fixes.all idx q t o rep ints ts =
        some (idx', q', t', ⟨outerAns rep ints (if (liveIds t.idx.shapes).isEmpty then [] else liveIds idx.shapes) o,
          some ⟨ts, some (liveIds t.idx.shapes), { t.q.opts with distanceLimit := o.distanceLimit, maxResults := 1 },
            if (liveIds t.idx.shapes).isEmpty then none else
              some (searchAns t.idx.shapes { t.q.opts with distanceLimit := o.distanceLimit, maxResults := 1 } .single)⟩⟩) ∧
      TPost t t' ∧ IdxOK idx' ∧ idx'.shapes = idx.shapes ∧ CovOK idx' q' ∧ q'.opts = q.opts ∧ q'.user = q.user ∧
      q'.numEdges = q.numEdges ∧ q'.numEdgesLimit = q.numEdgesLimit ∧ idx'.gone = idx.gone := by
  unfold optT
  -- outer index: built unless a covering is cached (then it is fresh already)
  have stage : ∃ i, (if q.covering.isNone = true then maybeApplyUpdates Fixes.all idx else some idx) = some i ∧
      IdxOK i ∧ i.shapes = idx.shapes ∧ i.status = .fresh ∧ i.cells = liveIds idx.shapes ∧ CovOK i q ∧ i.gone = idx.gone := by
    cases hq : q.covering with
    | none =>
      obtain ⟨i, hm⟩ := mau_fixed_isSome (f := Fixes.all) rfl idx
      obtain ⟨h1, h2, _, h4, h5⟩ := mau_some hi hm
      exact ⟨i, by simp [hm], h1, h2, h4, h5, (by intro c hcq; rw [hq] at hcq; cases hcq), mau_gone hm⟩
    | some c =>
      obtain ⟨hf, hcc⟩ := hc c hq
      exact ⟨idx, by simp, hi, rfl, hf, fresh_cells hi hf, hc, rfl⟩
  obtain ⟨i, hst, hiok, hish, hifr, hicells, hic, hig⟩ := stage
  obtain ⟨ti, hm⟩ := mau_fixed_isSome (f := Fixes.all) rfl t.idx
  obtain ⟨g1, g2, _, _, g5⟩ := mau_some ht hm
  simp only [hst, hm]
  by_cases he : (liveIds t.idx.shapes).isEmpty = true
  · have he' : ti.cells.isEmpty = true := by rw [g5]; exact he
    refine ⟨i, q, { t with idx := ti }, by simp [he, g5, List.isEmpty_iff.mp he], ⟨g1, g2, rfl, rfl, rfl, rfl⟩, hiok, hish, hic, rfl, rfl, rfl, rfl, hig⟩
  · have he' : ¬ ti.cells.isEmpty = true := by rw [g5]; exact he
    obtain ⟨t', h1, h2, h3, h4, h5, h6, h7⟩ :=
      innerFind_fixed { t with idx := ti } g1 hcov o.distanceLimit
    simp only [he, h1, g5, g2]
    cases hq : q.covering with
    | some c =>
      obtain ⟨_, hcc⟩ := hic c hq
      refine ⟨i, q, t', by simp [hcc, hicells], ⟨h2, by rw [h3]; exact g2, h4, h5, h6, h7⟩, hiok, hish, hic, rfl, rfl, rfl, rfl, hig⟩
    | none =>
      refine ⟨i, { q with covering := some i.cells }, t', by simp [hicells], ⟨h2, by rw [h3]; exact g2, h4, h5, h6, h7⟩,
        hiok, hish, ?_, rfl, rfl, rfl, rfl, hig⟩
      intro c hcq; simp at hcq; exact ⟨hifr, hcq.symm⟩

structure FetPost (idx : Index) (q : EQ) (t : Target) (idx' : Index) (q' : EQ) (t' : Target) : Prop where
  ok : IdxOK idx'
  shapes : idx'.shapes = idx.shapes
  cov : CovOK idx' q'
  num : NumOK idx' q'
  opts : q'.opts = q.opts
  user : q'.user = q.user
  tok : TgtOK t'
  tgeo : t'.geo = t.geo
  gone : idx'.gone = idx.gone

theorem count_facts {idx : Index} {q : EQ} (hn : NumOK idx q) (hc : CovOK idx q) (m : Nat) (hm : 0 < m) :
    ((q.count idx.shapes m).numEdges < m ↔ numEdgesUpTo idx.shapes m 0 < m) ∧
    NumOK idx (q.count idx.shapes m) ∧ CovOK idx (q.count idx.shapes m) ∧
    (q.count idx.shapes m).opts = q.opts ∧ (q.count idx.shapes m).user = q.user := by
  refine ⟨?_, ?_, ?_, ?_, ?_⟩
  · have := brute_iff hn m hm
    unfold EQ.count; exact this
  · unfold EQ.count NumOK; split
    · right; rfl
    · exact hn
  · unfold EQ.count; split
    · intro c hcq; exact hc c hcq
    · exact hc
  · unfold EQ.count; split <;> rfl
  · unfold EQ.count; split <;> rfl

theorem io_eq {t t1 : Target} {o : Opts} (ht : TgtOK t) (h : t1.q.opts = { t.q.opts with maxError := o.maxError }) :
    ({ t1.q.opts with distanceLimit := o.distanceLimit, maxResults := 1 } : Opts) = specInnerOpts t.geo o := by
  rw [h]
  simp [specInnerOpts, Target.geo, Opts.default, ht.ii, ht.bf]

theorem fet_fixed {idx : Index} {q : EQ} {t : Target} {o : Opts} {rep : Report}
    (hi : IdxOK idx) (hc : CovOK idx q) (hn : NumOK idx q) (ht : TgtOK t) :
    ∃ idx' q' t', findEdgesT Fixes.all idx q t o rep = some (idx', q', t', searchAnsT idx.shapes o rep t.geo) ∧
      FetPost idx q t idx' q' t' := by
  unfold findEdgesT searchAnsT
  by_cases hz : (o.distanceLimit == Lim.zero) = true
  · simp only [hz, if_true]
    exact ⟨idx, q, t, rfl, hi, rfl, hc, hn, rfl, rfl, ht, rfl, rfl⟩
  · obtain ⟨i, hint, hiok, hish, hikeep, hig⟩ := interiorsT_fixed hi t o
    obtain ⟨p1, p2, p3, p4, p5⟩ := prepare_fixed t o.maxError
    have hni : NumOK i q := by unfold NumOK; rw [hish]; exact hn
    have hci : CovOK i q := by
      intro c hcq
      obtain ⟨hf, hcc⟩ := hc c hcq
      rw [hikeep hf]; exact ⟨hf, hcc⟩
    obtain ⟨c1, c2, c3, c4, c5⟩ := count_facts hni hci (TKind.index.thr + 1) (by simp)
    have hio := io_eq (o := o) ht p4
    have ht1 : IdxOK (t.prepare Fixes.all o.maxError).idx := by rw [p1]; exact ht.idx
    have tgeo : ∀ t', TPost (t.prepare Fixes.all o.maxError) t' → TgtOK t' ∧ t'.geo = t.geo := by
      intro t' hp
      refine ⟨⟨hp.ok, ?_, ?_⟩, ?_⟩
      · rw [hp.ii, hp.user, p4, p5]; exact ht.ii
      · rw [hp.bf, hp.user, p4, p5]; exact ht.bf
      · simp only [Target.geo, hp.kind, hp.shapes, hp.user, p1, p2, p5]
    simp only [hz, hint, Bool.false_eq_true, if_false]
    by_cases hb : (o.useBruteForce || decide ((q.count i.shapes (TKind.index.thr + 1)).numEdges < TKind.index.thr + 1)) = true
    · have hb' : (o.useBruteForce || decide (numEdgesUpTo idx.shapes (TKind.index.thr + 1) 0 < TKind.index.thr + 1)) = true := by
        rw [← hish]
        simp only [Bool.or_eq_true, decide_eq_true_eq] at hb ⊢
        rcases hb with h | h
        · exact Or.inl h
        · exact Or.inr (c1.1 h)
      obtain ⟨t', hbr, hpost⟩ := bruteT_fixed i (q.count i.shapes (TKind.index.thr + 1)) (t.prepare Fixes.all o.maxError) o rep
        (if o.includeInteriors then some (if (liveIds t.idx.shapes).isEmpty then [] else liveIds idx.shapes) else none)
        (if o.includeInteriors then some (liveIds t.idx.shapes) else none) ht1 p3
      obtain ⟨k1, k2⟩ := tgeo t' hpost
      refine ⟨i, _, t', ?_, hiok, hish, c3, c2, c4, c5, k1, k2, hig⟩
      rw [if_pos hb, hbr, if_pos hb']
      simp only [hio, p1, hish, Target.geo]
      rfl
    · have hb' : ¬ (o.useBruteForce || decide (numEdgesUpTo idx.shapes (TKind.index.thr + 1) 0 < TKind.index.thr + 1)) = true := by
        rw [← hish]
        simp only [Bool.or_eq_true, decide_eq_true_eq, not_or] at hb ⊢
        exact ⟨hb.1, fun h => hb.2 (c1.2 h)⟩
      obtain ⟨i', q', t', hop, hpost, o1, o2, o3, o4, o5, o6, o7, o8⟩ := optT_fixed (t.prepare Fixes.all o.maxError) o rep
        (if o.includeInteriors then some (if (liveIds t.idx.shapes).isEmpty then [] else liveIds idx.shapes) else none)
        (if o.includeInteriors then some (liveIds t.idx.shapes) else none) hiok c3 ht1 p3
      obtain ⟨k1, k2⟩ := tgeo t' hpost
      refine ⟨i', q', t', ?_, o1, by rw [o2, hish], o3, ?_, by rw [o4, c4], by rw [o5, c5], k1, k2, by rw [o8, hig]⟩
      · rw [if_neg hb, hop, if_neg hb']
        simp only [hio, p1, hish, Target.geo]
        by_cases he : (liveIds t.idx.shapes).isEmpty = true
        · simp [he, List.isEmpty_iff.mp he]
        · simp [he]
      · unfold NumOK at c2 ⊢
        rw [o6, o7, o2]; exact c2

end S2Proofs.HistoryLemmas
