/-
  Helper lemmas for C13: every successful step of the bookkeeping machine (any combination of
  repairs) on a well-formed state produces the history-free specification's answer.
-/
import S2Proofs.History.Basic
namespace S2Proofs.HistoryLemmas
open S2.History

theorem mau_fresh_id {f : Fixes} {x y : Index} (hy : maybeApplyUpdates f x = some y)
    (hf : x.status = .fresh) : y = x := by
  simp [maybeApplyUpdates, hf] at hy; exact hy.symm

/-- the cached covering, if any, was taken from the current (fresh) cell list -/
def CovOK (idx : Index) (q : EQ) : Prop :=
  ∀ c, q.covering = some c → idx.status = .fresh ∧ c = idx.cells

/-- the cached edge count, if any, is `NumEdgesUpTo(limit)` of the current shapes -/
def NumOK (idx : Index) (q : EQ) : Prop :=
  (q.numEdgesLimit = 0 ∧ q.numEdges = 0) ∨ q.numEdges = numEdgesUpTo idx.shapes q.numEdgesLimit 0

def ansOf (shapes : List Shape) (o : Opts) (rep : Report) : EQAns :=
  if o.distanceLimit == Lim.zero then ⟨rep, none, [], o.maxResults, o.distanceLimit, o.maxError⟩
  else ⟨rep, if o.includeInteriors then some (liveIds shapes) else none, liveIds shapes,
        o.maxResults, o.distanceLimit, o.maxError⟩

theorem specAns_eq (shapes : List Shape) (u : Opts) (k : QKind) :
    specAns shapes u k = ansOf shapes (k.override u) k.report := rfl

theorem fresh_cells {x : Index} (h : IdxOK x) (hf : x.status = .fresh) : x.cells = liveIds x.shapes := by
  rw [h.cells (h.freshRem hf), h.fresh hf, List.take_length]

theorem vis_mau {f : Fixes} {x y : Index} (h : IdxOK x) (hy : maybeApplyUpdates f x = some y) (hv : Vis f x) :
    Vis f y := by
  rcases hv with hv | ⟨hg, hr⟩
  · exact Or.inl hv
  · have hm := mau_some h hy (Or.inr ⟨hg, hr⟩)
    exact Or.inr ⟨by rw [mau_gone hy]; exact hg, hm.1.freshRem hm.2.2.2.1⟩

structure FecPost (idx : Index) (q : EQ) (o : Opts) (rep : Report) (idx' : Index) (q' : EQ) (a : EQAns) : Prop where
  ans : a = ansOf idx.shapes o rep
  ok : IdxOK idx'
  shapes : idx'.shapes = idx.shapes
  cov : CovOK idx' q'
  opts : q'.opts = q.opts
  user : q'.user = q.user
  keep : idx.status = .fresh → idx' = idx
  num : NumOK idx q → NumOK idx' q'
  gone : idx'.gone = idx.gone

theorem fec_some {f : Fixes} {idx idx' : Index} {q q' : EQ} {thr : Nat} {o : Opts} {rep : Report} {a : EQAns}
    (hi : IdxOK idx) (hc : CovOK idx q)
    (h : findEdgesCore f idx q thr o rep = some (idx', q', a))
    (hv : Vis f idx := by first | exact Or.inl ⟨rfl, rfl⟩ | assumption) : FecPost idx q o rep idx' q' a := by
  unfold findEdgesCore at h
  by_cases hz : (o.distanceLimit == Lim.zero) = true
  · simp only [hz, if_true] at h
    injection h with h; injection h with h1 h2; injection h2 with h2 h3
    subst h1 h2 h3
    exact ⟨by simp [ansOf, hz], hi, rfl, hc, rfl, rfl, fun _ => rfl, fun h => h, rfl⟩
  · simp only [hz] at h
    -- first stage: interiors
    have stage : ∃ i ints, IdxOK i ∧ Vis f i ∧ i.gone = idx.gone ∧ i.shapes = idx.shapes ∧ (idx.status = .fresh → i = idx) ∧
        (ints = if o.includeInteriors then some (liveIds idx.shapes) else none) ∧
        ((if o.includeInteriors = true then (maybeApplyUpdates f idx).map fun i => (i, some i.cells)
          else some (idx, none)) = some (i, ints)) := by
      by_cases hin : o.includeInteriors = true
      · simp only [hin, if_true] at h ⊢
        cases hm : maybeApplyUpdates f idx with
        | none => simp [hm] at h
        | some i =>
          obtain ⟨h1, h2, _, _, h5⟩ := mau_some hi hm hv
          exact ⟨i, some i.cells, h1, vis_mau hi hm hv, mau_gone hm, h2, fun hf => mau_fresh_id hm hf, by simp [h5], by simp⟩
      · simp only [hin] at h ⊢
        exact ⟨idx, none, hi, hv, rfl, rfl, fun _ => rfl, by simp, by simp⟩
    obtain ⟨i, ints, hiok, hiv, hig, hish, hikeep, hints, hst⟩ := stage
    rw [hst] at h
    simp only at h
    have hci : CovOK i q := by
      intro c hcq
      obtain ⟨hf, hcc⟩ := hc c hcq
      rw [hikeep hf]; exact ⟨hf, hcc⟩
    -- the edge-count cache update touches neither options nor covering
    generalize hq2 : (if (decide (thr + 1 > q.numEdgesLimit) && decide (q.numEdges ≥ q.numEdgesLimit)) = true then
        ({ q with numEdges := numEdgesUpTo i.shapes (thr + 1) 0, numEdgesLimit := thr + 1 } : EQ) else q) = q2 at h
    have hq2c : q2.covering = q.covering := by subst hq2; split <;> rfl
    have hq2o : q2.opts = q.opts := by subst hq2; split <;> rfl
    have hq2u : q2.user = q.user := by subst hq2; split <;> rfl
    have hc2 : CovOK i q2 := by intro c hcq; rw [hq2c] at hcq; exact hci c hcq
    have hq2n : NumOK idx q → NumOK i q2 := by
      intro hn
      subst hq2
      unfold NumOK at hn ⊢
      rw [hish]
      split
      · right; rfl
      · exact hn
    simp only [Bool.false_eq_true, if_false] at h
    split at h
    · -- brute force
      injection h with h; injection h with h1 h2; injection h2 with h2 h3
      subst h1 h2 h3
      exact ⟨by simp [ansOf, hz, hints, hish], hiok, hish, hc2, hq2o, hq2u, hikeep, hq2n, hig⟩
    · -- optimized
      split at h
      · rename_i c hcov
        injection h with h; injection h with h1 h2; injection h2 with h2 h3
        subst h1 h2 h3
        obtain ⟨hf, hcc⟩ := hc2 c hcov
        have : c = liveIds idx.shapes := by rw [hcc, fresh_cells hiok hf, hish]
        exact ⟨by simp [ansOf, hz, hints, this], hiok, hish, hc2, hq2o, hq2u, hikeep, hq2n, hig⟩
      · rename_i hcov
        cases hm : maybeApplyUpdates f i with
        | none => simp [hm] at h
        | some i2 =>
          simp only [hm] at h
          injection h with h; injection h with h1 h2; injection h2 with h2 h3
          subst h1 h2 h3
          obtain ⟨g1, g2, _, g4, g5⟩ := mau_some hiok hm hiv
          refine ⟨by simp [ansOf, hz, hints, g5, hish], g1, by rw [g2, hish], ?_, hq2o, hq2u, ?_, ?_, by rw [mau_gone hm, hig]⟩
          · intro c hc'; simp at hc'; exact ⟨g4, hc'.symm⟩
          · intro hf; rw [mau_fresh_id hm (by rw [hikeep hf]; exact hf), hikeep hf]
          · intro hn
            have := hq2n hn
            unfold NumOK at this ⊢
            rw [g2]; exact this

/-- with the D4 repair, or on an index that is fresh / before its first update, the search never blocks -/
theorem fec_isSome {f : Fixes} (idx : Index) (q : EQ) (thr : Nat) (o : Opts) (rep : Report)
    (hf : f.d4 = true ∨ idx.status = .fresh ∨ idx.pendingAdditionsPos = 0) :
    ∃ r, findEdgesCore f idx q thr o rep = some r := by
  have key : ∀ x : Index, (f.d4 = true ∨ x.status = .fresh ∨ x.pendingAdditionsPos = 0) →
      ∃ y, maybeApplyUpdates f x = some y := by
    intro x hx
    rcases hx with h | h
    · exact mau_fixed_isSome h x
    · exact mau_first_isSome f x h
  unfold findEdgesCore
  split
  · exact ⟨_, rfl⟩
  · by_cases hin : o.includeInteriors = true
    · obtain ⟨i, hi⟩ := key idx hf
      have hifr : i.status = .fresh := by
        unfold maybeApplyUpdates at hi
        split at hi
        · cases ha : applyUpdatesInternal f idx with
          | none => simp [ha] at hi
          | some z => simp [ha] at hi; subst hi; rfl
        · rename_i hh; simp at hi; subst hi; simpa using hh
      obtain ⟨i2, hi2⟩ := key i (Or.inr (Or.inl hifr))
      simp only [hin, if_true, hi, Option.map_some, hi2]
      repeat' split
      all_goals first | exact ⟨_, rfl⟩ | (exfalso; simp_all)
    · obtain ⟨i2, hi2⟩ := key idx hf
      simp only [hin, hi2]
      repeat' split
      all_goals first | exact ⟨_, rfl⟩ | (exfalso; simp_all)

end S2Proofs.HistoryLemmas
