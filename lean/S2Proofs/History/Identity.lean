/-
  Helper lemmas for C13 (Remove): answers in shape IDENTITIES (the ids of the long-lived index, with holes) are the
  answers of a fresh index over the present shapes (ids 0 … m-1) relabelled by "identity of the j-th present shape".
-/
import S2Proofs.History.State
namespace S2Proofs.HistoryLemmas
open S2.History

/-- every id recorded as removed holds the tombstone (`i` = id of the head of the list) -/
def TombOK (shapes : List Shape) (gone : List Nat) (i : Nat) : Prop :=
  ∀ j s, shapes[j]? = some s → gone.contains (i + j) = true → s = Shape.gone

theorem tombOK_tail {a : Shape} {t : List Shape} {gone : List Nat} {i : Nat} (h : TombOK (a :: t) gone i) :
    TombOK t gone (i + 1) := by
  intro j s hj hg
  apply h (j + 1) s (by simpa using hj)
  rw [← hg]; congr 1; omega

theorem liveFrom_dense (gone : List Nat) (shapes : List Shape) (i k : Nat) (pre : List Nat) (hk : pre.length = k)
    (ht : TombOK shapes gone i) :
    liveFrom shapes i =
      (liveFrom (denseFrom gone shapes i) k).map (fun j => (pre ++ presentFrom gone shapes.length i).getD j 0) := by
  induction shapes generalizing i k pre with
  | nil => simp [liveFrom, denseFrom]
  | cons a t ih =>
    have htl := tombOK_tail ht
    by_cases hg : gone.contains i = true
    · have ha : a = Shape.gone := ht 0 a (by simp) (by simpa using hg)
      subst ha
      simp only [denseFrom, hg, if_true, List.length_cons, presentFrom]
      rw [← ih (i + 1) k pre hk htl]
      simp [liveFrom, Shape.gone, Shape.live]
    · simp only [denseFrom, hg, Bool.false_eq_true, if_false, List.length_cons, presentFrom]
      have key := ih (i + 1) (k + 1) (pre ++ [i]) (by simp [hk]) htl
      have happ : pre ++ [i] ++ presentFrom gone t.length (i + 1) = pre ++ i :: presentFrom gone t.length (i + 1) := by simp
      rw [happ] at key
      simp only [liveFrom]
      by_cases hl : a.live = true
      · simp only [hl, if_true, List.map_cons]
        rw [← key]
        congr 1
        rw [List.getD_eq_getElem?_getD, List.getElem?_append_right (by omega)]
        simp [hk]
      · simp only [hl, Bool.false_eq_true, if_false]
        exact key

theorem numEdgesUpTo_dense (gone : List Nat) (shapes : List Shape) (i L acc : Nat) (hacc : acc < L)
    (ht : TombOK shapes gone i) :
    numEdgesUpTo shapes L acc = numEdgesUpTo (denseFrom gone shapes i) L acc := by
  induction shapes generalizing i acc with
  | nil => simp [denseFrom]
  | cons a t ih =>
    have htl := tombOK_tail ht
    by_cases hg : gone.contains i = true
    · have ha : a = Shape.gone := ht 0 a (by simp) (by simpa using hg)
      subst ha
      have hstep : numEdgesUpTo (Shape.gone :: t) L acc = numEdgesUpTo t L acc := by
        have h0 : Shape.gone.edges = 0 := rfl
        simp only [numEdgesUpTo, h0, Nat.add_zero]
        split
        · omega
        · rfl
      rw [hstep]
      simp only [denseFrom, hg, if_true]
      exact ih (i + 1) acc hacc htl
    · simp only [denseFrom, hg, Bool.false_eq_true, if_false, numEdgesUpTo]
      split
      · rfl
      · exact ih (i + 1) _ (by omega) htl

/-- identity (id in the long-lived index) of the shape that has id `j` in a fresh index over the present shapes -/
def label (n : Nat) (gone : List Nat) (j : Nat) : Nat := (presentIds n gone).getD j 0

theorem liveIds_dense (shapes : List Shape) (gone : List Nat) (ht : TombOK shapes gone 0) :
    liveIds shapes = (liveIds (dense shapes gone)).map (label shapes.length gone) := by
  have := liveFrom_dense gone shapes 0 0 [] rfl ht
  simp only [List.nil_append] at this
  exact this

theorem hasEdges_dense (shapes : List Shape) (gone : List Nat) (ht : TombOK shapes gone 0) :
    hasEdges shapes = hasEdges (dense shapes gone) := by
  simp only [hasEdges, dense]
  rw [numEdgesUpTo_dense gone shapes 0 1 0 (by omega) ht]

/-! ### relabelling answers -/

def relabelEQ (ρ : Nat → Nat) (a : EQAns) : EQAns :=
  { a with interiors := a.interiors.map (·.map ρ), edges := a.edges.map ρ }

/-- shapes of the QUERIED index are renamed; what the call saw of the target's own index is not -/
def relabelOut (ρ : Nat → Nat) : Out → Out
  | .seen l => .seen (l.map ρ)
  | .eq a u => .eq { a with outer := relabelEQ ρ a.outer } u
  | o => o

theorem specAns_dense (shapes : List Shape) (gone : List Nat) (ht : TombOK shapes gone 0) (u : Opts) (k : QKind) :
    specAns shapes u k = relabelEQ (label shapes.length gone) (specAns (dense shapes gone) u k) := by
  unfold specAns
  simp only
  split
  · simp [relabelEQ]
  · rw [liveIds_dense shapes gone ht]
    cases (k.override u).includeInteriors <;> simp [relabelEQ]

theorem searchAnsT_dense (shapes : List Shape) (gone : List Nat) (ht : TombOK shapes gone 0) (o : Opts) (rep : Report)
    (tg : TGeo) :
    searchAnsT shapes o rep tg =
      (let a := searchAnsT (dense shapes gone) o rep tg
       { a with outer := relabelEQ (label shapes.length gone) a.outer }) := by
  unfold searchAnsT
  simp only
  split
  · simp [relabelEQ, outerAns]
  · rw [← hasEdges_dense shapes gone ht]
    have hn : numEdgesUpTo (dense shapes gone) (TKind.index.thr + 1) 0 = numEdgesUpTo shapes (TKind.index.thr + 1) 0 := by
      simp only [dense]; rw [← numEdgesUpTo_dense gone shapes 0 _ 0 (by simp [TKind.thr]) ht]
    rw [hn, liveIds_dense shapes gone ht]
    cases o.includeInteriors <;> (repeat' split) <;> simp_all [relabelEQ, outerAns]

/-! ### the labelled geometry of the specification stays consistent -/

structure GeoOK (g : Geo) : Prop where
  tomb : TombOK g.shapes g.gone 0
  bound : ∀ i ∈ g.gone, i < g.shapes.length

theorem presentFrom_mem {gone : List Nat} {n i x : Nat} (h : x ∈ presentFrom gone n i) :
    i ≤ x ∧ x < i + n ∧ gone.contains x = false := by
  induction n generalizing i with
  | zero => simp [presentFrom] at h
  | succ n ih =>
    simp only [presentFrom] at h
    split at h
    · obtain ⟨a, b, c⟩ := ih h; exact ⟨by omega, by omega, c⟩
    · rename_i hg
      rcases List.mem_cons.mp h with h | h
      · subst h; exact ⟨Nat.le_refl _, by omega, by simpa using hg⟩
      · obtain ⟨a, b, c⟩ := ih h; exact ⟨by omega, by omega, c⟩

/-- the geometry a FRESH index holds: the present shapes, ids 0 … m-1, nothing removed -/
def freshGeo (g : Geo) : Geo := { g with shapes := dense g.shapes g.gone, gone := [] }

theorem geoOK_spec (g : Geo) (hg : GeoOK g) (op : Op) : GeoOK (spec g op).1 := by
  have same : ∀ g' : Geo, g'.shapes = g.shapes → g'.gone = g.gone → GeoOK g' := by
    intro g' h1 h2; exact ⟨by rw [h1, h2]; exact hg.tomb, by rw [h1, h2]; exact hg.bound⟩
  cases op with
  | add sh =>
    simp only [spec]
    refine ⟨?_, ?_⟩
    · intro j s hj hc
      simp only [Nat.zero_add] at hc
      have hjm : j ∈ g.gone := by simpa using hc
      have hjl := hg.bound j hjm
      rw [List.getElem?_append_left hjl] at hj
      exact hg.tomb j s hj (by simpa using hc)
    · intro i hi; simp only [List.length_append, List.length_cons, List.length_nil]; have := hg.bound i hi; omega
  | reset =>
    simp only [spec]
    exact ⟨by intro j s hj; simp at hj, by intro i hi; simp at hi⟩
  | remove k =>
    simp only [spec]
    cases hk : (presentIds g.shapes.length g.gone)[k]? with
    | none => exact hg
    | some id =>
      have hmem : id ∈ presentFrom g.gone g.shapes.length 0 := List.mem_of_getElem? hk
      obtain ⟨_, hlt, _⟩ := presentFrom_mem hmem
      refine ⟨?_, ?_⟩
      · intro j s hj hc
        simp only [Nat.zero_add] at hc
        simp only [List.getElem?_set] at hj
        split at hj
        · split at hj
          · simpa using hj.symm
          · cases hj
        · rename_i hne
          have hjm : j ∈ g.gone := by
            have : j ∈ g.gone ++ [id] := by simpa using hc
            rcases List.mem_append.mp this with h | h
            · exact h
            · simp at h; exact absurd h.symm hne
          exact hg.tomb j s hj (by simpa using hjm)
      · intro i hi
        simp only [List.length_set]
        rcases List.mem_append.mp hi with h | h
        · exact hg.bound i h
        · simp at h; subst h; omega
  | build => exact same _ rfl rfl
  | query => exact same _ rfl rfl
  | newEQ o => exact same _ rfl rfl
  | eqReset => exact same _ rfl rfl
  | invert => exact same _ rfl rfl
  | loopContains => exact same _ rfl rfl
  | loopCell => exact same _ rfl rfl
  | polyContains => exact same _ rfl rfl
  | newTarget k shapes => exact same _ rfl rfl
  | call k thr => simp only [spec]; split <;> exact same _ rfl rfl
  | polyInvert => simp only [spec]; split <;> exact same _ rfl rfl
  | tadd sh => simp only [spec]; (repeat' split) <;> exact same _ rfl rfl
  | tset ii bf => simp only [spec]; (repeat' split) <;> exact same _ rfl rfl
  | tcall k => simp only [spec]; (repeat' split) <;> exact same _ rfl rfl

theorem geoOK_run (g : Geo) (hg : GeoOK g) (h : List Op) : GeoOK (runSpec g h).1 := by
  induction h generalizing g with
  | nil => exact hg
  | cons op t ih => simp only [runSpec]; exact ih _ (geoOK_spec g hg op)

/-- the ops that ask the index a question -/
def isIndexQuery : Op → Bool
  | .query | .call _ _ | .tcall _ => true
  | _ => false

/-- the answer in identities = the answer of fresh objects over the present shapes, fresh id `j` replaced by the
    identity of the `j`-th present shape -/
theorem spec_by_identity (g : Geo) (hg : GeoOK g) (op : Op) (hq : isIndexQuery op = true) :
    (spec g op).2 = relabelOut (label g.shapes.length g.gone) (spec (freshGeo g) op).2 := by
  cases op <;> simp only [isIndexQuery, Bool.false_eq_true] at hq
  · -- query
    simp only [spec, freshGeo, relabelOut]
    rw [liveIds_dense g.shapes g.gone hg.tomb]
  · -- call
    simp only [spec, freshGeo]
    cases g.user with
    | none => rfl
    | some u => simp only [relabelOut]; rw [specAns_dense g.shapes g.gone hg.tomb]
  · -- tcall
    simp only [spec, freshGeo]
    cases g.user with
    | none => rfl
    | some u =>
      cases g.tgt with
      | none => rfl
      | some tg =>
        simp only
        cases tg.kind <;> simp only [relabelOut, specAnsT] <;>
          first
          | rw [specAns_dense g.shapes g.gone hg.tomb]
          | rw [searchAnsT_dense g.shapes g.gone hg.tomb]

end S2Proofs.HistoryLemmas
