/-
  Helper lemmas for C13: invariants of the (repaired) bookkeeping machine and agreement of the
  faithful and the repaired model away from the defect triggers.
-/
import S2.History
namespace S2Proofs.HistoryLemmas
open S2.History

theorem liveFrom_append (a b : List Shape) (i : Nat) :
    liveFrom (a ++ b) i = liveFrom a i ++ liveFrom b (i + a.length) := by
  induction a generalizing i with
  | nil => simp [liveFrom]
  | cons x t ih =>
    simp only [List.cons_append, liveFrom, List.length_cons]
    split <;> simp [ih, Nat.add_assoc, Nat.add_comm 1]

/-- well-formedness of the index bookkeeping -/
structure IdxOK (x : Index) : Prop where
  next : x.nextID = x.shapes.length
  posLe : x.pendingAdditionsPos ≤ x.shapes.length
  cells : x.cells = liveIds (x.shapes.take x.pendingAdditionsPos)
  fresh : x.status = .fresh → x.pendingAdditionsPos = x.shapes.length

theorem idxOK_new : IdxOK Index.new := by constructor <;> simp [Index.new, liveIds, liveFrom]

theorem idxOK_add {x : Index} (h : IdxOK x) (sh : Shape) : IdxOK (x.add sh).1 := by
  constructor
  · simp [Index.add, h.next]
  · simp [Index.add]; have := h.posLe; omega
  · simp only [Index.add]; rw [List.take_append_of_le_length h.posLe]; exact h.cells
  · simp [Index.add]

theorem idxOK_reset_fixed {x : Index} (f : Fixes) (hf : f.d5 = true) : IdxOK (x.reset f) := by
  constructor <;> simp [Index.reset, hf, liveIds, liveFrom]

theorem take_pending (shapes : List Shape) (pos : Nat) (h : pos ≤ shapes.length) :
    liveIds (shapes.take pos) ++ pendingLive shapes pos = liveIds shapes := by
  have := liveFrom_append (shapes.take pos) (shapes.drop pos) 0
  rw [List.take_append_drop] at this
  simp only [liveIds, pendingLive]
  rw [this]; simp [List.length_take, Nat.min_eq_left h]

/-- on a well-formed index every successful `maybeApplyUpdates` yields the complete, fresh index -/
theorem mau_some {f : Fixes} {x y : Index} (h : IdxOK x) (hy : maybeApplyUpdates f x = some y) :
    IdxOK y ∧ y.shapes = x.shapes ∧ y.nextID = x.nextID ∧ y.status = .fresh ∧ y.cells = liveIds x.shapes := by
  unfold maybeApplyUpdates at hy
  split at hy
  · -- not fresh
    unfold applyUpdatesInternal at hy
    have hc := h.cells
    have htp := take_pending x.shapes x.pendingAdditionsPos h.posLe
    split at hy
    · simp at hy; subst hy
      refine ⟨⟨by simp [h.next], by simp, ?_, by simp⟩, rfl, rfl, rfl, ?_⟩
      · simp [hc, htp]
      · simp [hc, htp]
    · split at hy
      · simp at hy; subst hy
        refine ⟨⟨by simp [h.next], by simp, ?_, by simp⟩, rfl, rfl, rfl, ?_⟩ <;>
          simp [pendingLive, liveIds]
      · by_cases hemp : (pendingLive x.shapes x.pendingAdditionsPos).isEmpty = true
        · simp [hemp] at hy; subst hy
          have hnil : pendingLive x.shapes x.pendingAdditionsPos = [] := by simpa using hemp
          rw [hnil, List.append_nil] at htp
          refine ⟨⟨by simp [h.next], by simp, ?_, by simp⟩, rfl, rfl, rfl, ?_⟩ <;> simp [hc, htp]
        · simp [hemp] at hy
  · rename_i hfr
    simp at hy; subst hy
    have hf : x.status = .fresh := by simpa using hfr
    have hp := h.fresh hf
    refine ⟨h, rfl, rfl, hf, ?_⟩
    rw [h.cells, hp, List.take_length]

/-- with the D4 repair `maybeApplyUpdates` never blocks -/
theorem mau_fixed_isSome {f : Fixes} (hf : f.d4 = true) (x : Index) : ∃ y, maybeApplyUpdates f x = some y := by
  unfold maybeApplyUpdates applyUpdatesInternal
  split
  · split
    · exact ⟨_, rfl⟩
    · simp [hf]
  · exact ⟨_, rfl⟩

/-- a first update (or an already fresh index) never blocks, whatever the repairs -/
theorem mau_first_isSome (f : Fixes) (x : Index) (h : x.status = .fresh ∨ x.pendingAdditionsPos = 0) :
    ∃ y, maybeApplyUpdates f x = some y := by
  unfold maybeApplyUpdates applyUpdatesInternal
  split
  · rename_i hs
    rcases h with h | h
    · simp [h] at hs
    · simp [h]
  · exact ⟨_, rfl⟩

/-- away from the D4 trigger the faithful and the repaired `maybeApplyUpdates` coincide -/
theorem mau_agree (f g : Fixes) (x : Index) (h : x.status = .fresh ∨ x.pendingAdditionsPos = 0) :
    maybeApplyUpdates f x = maybeApplyUpdates g x := by
  unfold maybeApplyUpdates applyUpdatesInternal
  split
  · rename_i hs
    rcases h with h | h
    · simp [h] at hs
    · simp [h]
  · rfl

theorem reset_agree (f g : Fixes) (x : Index) (h : x.pendingAdditionsPos = 0) : x.reset f = x.reset g := by
  simp [Index.reset, h]

end S2Proofs.HistoryLemmas
