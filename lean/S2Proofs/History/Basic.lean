/-
  Helper lemmas for C13: invariants of the (repaired) bookkeeping machine and agreement of the
  faithful and the repaired model away from the defect triggers.
-/
import S2.History
namespace S2Proofs.HistoryLemmas
open S2.History

theorem liveFrom_append (a b : List Shape) (i : Nat) :
    liveFrom (a ++ b) i = liveFrom a i ++ liveFrom b (i + a.length) := by
  induction a generalizing i with
  | nil => simp [liveFrom]
  | cons x t ih =>
    simp only [List.cons_append, liveFrom, List.length_cons]
    split <;> simp [ih, Nat.add_assoc, Nat.add_comm 1]

/-- well-formedness of the index bookkeeping.  While a removal is queued the cell list is stale (it still
    holds the removed shape); what is kept then is that the next update is a non-first one, i.e. a rebuild. -/
structure IdxOK (x : Index) : Prop where
  next : x.nextID = x.shapes.length
  posLe : x.pendingAdditionsPos ≤ x.shapes.length
  cells : x.pendingRemovals = [] → x.cells = liveIds (x.shapes.take x.pendingAdditionsPos)
  fresh : x.status = .fresh → x.pendingAdditionsPos = x.shapes.length
  freshRem : x.status = .fresh → x.pendingRemovals = []
  remPos : x.pendingRemovals ≠ [] → x.pendingAdditionsPos ≠ 0

/-- the sentinel matters only once a shape has been removed -/
def Vis (f : Fixes) (x : Index) : Prop :=
  (f.d4 = true ∧ f.d52 = true) ∨ (x.gone = [] ∧ x.pendingRemovals = [])

theorem idxOK_new : IdxOK Index.new := by constructor <;> simp [Index.new, liveIds, liveFrom]

theorem idxOK_add {x : Index} (h : IdxOK x) (sh : Shape) : IdxOK (x.add sh).1 := by
  constructor
  · simp [Index.add, h.next]
  · simp [Index.add]; have := h.posLe; omega
  · simp only [Index.add]; rw [List.take_append_of_le_length h.posLe]; exact h.cells
  · simp [Index.add]
  · simp [Index.add]
  · exact h.remPos

theorem idxOK_reset_fixed {x : Index} (f : Fixes) (hf : f.d5 = true) : IdxOK (x.reset f) := by
  constructor <;> simp [Index.reset, hf, liveIds, liveFrom]

/-- replacing a shape beyond the prefix does not change the prefix -/
theorem take_set_of_le (l : List Shape) (id pos : Nat) (a : Shape) (h : pos ≤ id) :
    (l.set id a).take pos = l.take pos := by
  induction l generalizing id pos with
  | nil => simp
  | cons x t ih =>
    cases pos with
    | zero => simp
    | succ p =>
      cases id with
      | zero => omega
      | succ j => simp [List.set, ih j p (by omega)]

/-- `Remove` keeps the bookkeeping well-formed -/
theorem idxOK_remove {x : Index} (h : IdxOK x) (id : Nat) : IdxOK (x.remove id) := by
  unfold Index.remove
  by_cases hid : id ≥ x.pendingAdditionsPos
  · simp only [hid, if_true]
    constructor
    · simp [h.next]
    · simp; exact h.posLe
    · intro hr; simp only at hr ⊢; rw [take_set_of_le _ _ _ _ hid]; exact h.cells hr
    · intro hf; simp only at hf ⊢; simp; exact h.fresh hf
    · exact h.freshRem
    · exact h.remPos
  · simp only [hid, if_false]
    constructor
    · simp [h.next]
    · simp; exact h.posLe
    · intro hr; simp at hr
    · intro hf; simp at hf
    · intro hf; simp at hf
    · intro _; simp only; omega

theorem take_pending (shapes : List Shape) (pos : Nat) (h : pos ≤ shapes.length) :
    liveIds (shapes.take pos) ++ pendingLive shapes pos = liveIds shapes := by
  have := liveFrom_append (shapes.take pos) (shapes.drop pos) 0
  rw [List.take_append_drop] at this
  simp only [liveIds, pendingLive]
  rw [this]; simp [List.length_take, Nat.min_eq_left h]

/-- on a well-formed index every successful `maybeApplyUpdates` yields the complete, fresh index -/
theorem visible_id {f : Fixes} {x : Index} (hv : Vis f x) (pos : Nat) (hpos : pos ≤ x.shapes.length) :
    visible f x (pendingLive x.shapes pos) = pendingLive x.shapes pos := by
  unfold visible
  rcases hv with hv | ⟨hv, _⟩
  · simp [hv.2]
  · split
    · rfl
    · have hb : ∀ (l : List Shape) (i : Nat) (id : Nat), id ∈ liveFrom l i → id < i + l.length := by
        intro l
        induction l with
        | nil => intro i id h; simp [liveFrom] at h
        | cons a t ih =>
          intro i id h
          simp only [liveFrom] at h
          split at h
          · rcases List.mem_cons.mp h with h | h
            · subst h; simp
            · have := ih _ _ h; simp; omega
          · have := ih _ _ h; simp; omega
      apply List.filter_eq_self.mpr
      intro id hid
      have := hb _ _ _ hid
      simp only [Index.numPresent, hv, List.length_nil, Nat.sub_zero, decide_eq_true_eq]
      simp only [List.length_drop] at this
      omega

/-- on a well-formed index every successful `maybeApplyUpdates` yields the complete, fresh index (with the
    old sentinel `Len()`: as long as no shape has been removed) -/
theorem mau_some {f : Fixes} {x y : Index} (h : IdxOK x) (hy : maybeApplyUpdates f x = some y)
    (hv : Vis f x := by first | exact Or.inl ⟨rfl, rfl⟩ | assumption) :
    IdxOK y ∧ y.shapes = x.shapes ∧ y.nextID = x.nextID ∧ y.status = .fresh ∧ y.cells = liveIds x.shapes := by
  unfold maybeApplyUpdates at hy
  split at hy
  · -- not fresh
    unfold applyUpdatesInternal at hy
    have hc := h.cells
    have htp := take_pending x.shapes x.pendingAdditionsPos h.posLe
    simp only [visible_id hv _ h.posLe, visible_id hv 0 (Nat.zero_le _)] at hy
    split at hy
    · rename_i hp0
      have hp0 : x.pendingAdditionsPos = 0 := by simpa using hp0
      have hr : x.pendingRemovals = [] := by
        by_cases hr : x.pendingRemovals = []
        · exact hr
        · exact absurd hp0 (h.remPos hr)
      simp at hy; subst hy
      refine ⟨⟨by simp [h.next], by simp, ?_, by simp, by simp, by simp⟩, rfl, rfl, rfl, ?_⟩
      · intro _; simp [hc hr, htp]
      · simp [hc hr, htp]
    · split at hy
      · split at hy
        · simp at hy; subst hy
          refine ⟨⟨by simp [h.next], by simp, ?_, by simp, by simp, by simp⟩, rfl, rfl, rfl, ?_⟩ <;>
            simp [pendingLive, liveIds]
        · rename_i hnp
          simp only [Bool.or_eq_true, decide_eq_true_eq, Bool.not_eq_true', List.isEmpty_eq_false_iff,
            not_or, Nat.not_lt, ne_eq, Decidable.not_not] at hnp
          obtain ⟨hge, hr⟩ := hnp
          simp at hy; subst hy
          have hpl : x.pendingAdditionsPos = x.shapes.length := by
            have := h.posLe; have := h.next; omega
          refine ⟨⟨by simp [h.next], by simp, ?_, by simp, ?_, ?_⟩, rfl, rfl, rfl, ?_⟩
          · intro _; simp only; rw [hc hr, hpl]
          · intro _; exact hr
          · intro hne; exact absurd hr hne
          · simp only; rw [hc hr, hpl, List.take_length]
      · by_cases hemp : (pendingLive x.shapes x.pendingAdditionsPos).isEmpty = true
        · simp [hemp] at hy; subst hy
          have hnil : pendingLive x.shapes x.pendingAdditionsPos = [] := by simpa using hemp
          rw [hnil, List.append_nil] at htp
          have hr : x.pendingRemovals = [] := by
            rcases hv with ⟨hd4, _⟩ | ⟨_, hr⟩
            · rename_i hnd4 _; exact absurd hd4 hnd4
            · exact hr
          refine ⟨⟨by simp [h.next], by simp, ?_, by simp, by simp, by simp⟩, rfl, rfl, rfl, ?_⟩ <;> simp [hc hr, htp]
        · simp [hemp] at hy
  · rename_i hfr
    simp at hy; subst hy
    have hf : x.status = .fresh := by simpa using hfr
    have hp := h.fresh hf
    refine ⟨h, rfl, rfl, hf, ?_⟩
    rw [h.cells (h.freshRem hf), hp, List.take_length]

/-- with the D4 repair `maybeApplyUpdates` never blocks -/
theorem mau_fixed_isSome {f : Fixes} (hf : f.d4 = true) (x : Index) : ∃ y, maybeApplyUpdates f x = some y := by
  unfold maybeApplyUpdates applyUpdatesInternal
  split
  · split
    · exact ⟨_, rfl⟩
    · simp only [hf, if_true]
      split <;> exact ⟨_, rfl⟩
  · exact ⟨_, rfl⟩

/-- a first update (or an already fresh index) never blocks, whatever the repairs -/
theorem mau_first_isSome (f : Fixes) (x : Index) (h : x.status = .fresh ∨ x.pendingAdditionsPos = 0) :
    ∃ y, maybeApplyUpdates f x = some y := by
  unfold maybeApplyUpdates applyUpdatesInternal
  split
  · rename_i hs
    rcases h with h | h
    · simp [h] at hs
    · simp [h]
  · exact ⟨_, rfl⟩

/-- away from the D4 trigger the faithful and the repaired `maybeApplyUpdates` coincide -/
theorem mau_agree (f g : Fixes) (x : Index) (h : x.status = .fresh ∨ x.pendingAdditionsPos = 0)
    (hf : Vis f x) (hg : Vis g x) :
    maybeApplyUpdates f x = maybeApplyUpdates g x := by
  unfold maybeApplyUpdates applyUpdatesInternal
  split
  · rename_i hs
    rcases h with h | h
    · simp [h] at hs
    · simp [h, visible_id hf 0 (Nat.zero_le _), visible_id hg 0 (Nat.zero_le _)]
  · rfl

theorem reset_agree (f g : Fixes) (x : Index) (h : x.pendingAdditionsPos = 0) (hr : x.pendingRemovals = []) :
    x.reset f = x.reset g := by
  simp [Index.reset, h, hr]

/-- none of the update / search functions touches the set of removed ids -/
theorem mau_gone {f : Fixes} {x y : Index} (hy : maybeApplyUpdates f x = some y) : y.gone = x.gone := by
  unfold maybeApplyUpdates applyUpdatesInternal at hy
  repeat' split at hy
  all_goals first
    | (simp at hy; subst hy; rfl)
    | (simp at hy; obtain ⟨_, hy⟩ := hy; subst hy; rfl)
    | (simp at hy)

end S2Proofs.HistoryLemmas
