/-
  Helper lemmas for C13: the state invariant and the one-step simulation
  "bookkeeping machine ⊑ history-free specification".
-/
import S2Proofs.History.Targets
namespace S2Proofs.HistoryLemmas
open S2.History

def polyShape (k : PolyKind) (n : Nat) : Shape :=
  match k with | .full => ⟨0, true⟩ | .empty => ⟨0, false⟩ | .normal => ⟨n, false⟩

structure LoopOK (l : LoopS) : Prop where
  idx : IdxOK l.idx
  shapes : l.idx.shapes = [l.shape]
  bound : l.boundFor = l.reversed

structure PolyOK (p : PolyS) : Prop where
  idx : ∀ ix, p.idx = some ix → IdxOK ix ∧ ix.shapes = [polyShape p.kind p.nverts]

/-- state invariant; `strict` additionally demands what only the repaired model maintains:
    the query's options are the caller's, and the polygon has an index -/
structure SOK (strict : Bool) (s : State) : Prop where
  alive : s.dead = none
  idx : IdxOK s.idx
  cov : ∀ q, s.eq = some q → CovOK s.idx q
  opts : strict = true → ∀ q, s.eq = some q → q.opts = q.user
  loop : LoopOK s.loop
  poly : PolyOK s.poly
  polyIdx : strict = true → s.poly.idx ≠ none
  num : ∀ q, s.eq = some q → NumOK s.idx q
  tgt : ∀ t, s.tgt = some t → TgtOK t

theorem numOK_shapes {x y : Index} {q : EQ} (h : y.shapes = x.shapes) (hn : NumOK x q) : NumOK y q := by
  unfold NumOK at hn ⊢; rw [h]; exact hn

theorem loopOK_new (n : Nat) (o : Bool) : LoopOK (LoopS.new n o) := by
  refine ⟨?_, rfl, rfl⟩
  exact idxOK_add idxOK_new _

theorem polyOK_new (f : Fixes) (k : PolyKind) (n : Nat) : PolyOK (PolyS.new f k n) := by
  constructor
  intro ix h
  cases k <;> simp [PolyS.new, polyIndex] at h
  · subst h; exact ⟨idxOK_add idxOK_new _, rfl⟩
  · obtain ⟨_, h⟩ := h; subst h; exact ⟨idxOK_add idxOK_new _, rfl⟩
  · subst h; exact ⟨idxOK_add idxOK_new _, rfl⟩

theorem polyOK_invert (f : Fixes) (p : PolyS) : PolyOK (p.invert f) := by
  constructor
  intro ix h
  cases hk : p.kind <;> simp [PolyS.invert, hk, polyIndex] at h
  · obtain ⟨_, h⟩ := h; subst h; exact ⟨idxOK_add idxOK_new _, by simp [PolyS.invert, hk]; rfl⟩
  · subst h; exact ⟨idxOK_add idxOK_new _, by simp [PolyS.invert, hk]; rfl⟩
  · subst h; exact ⟨idxOK_add idxOK_new _, by simp [PolyS.invert, hk]; rfl⟩

theorem loopOK_invert (f : Fixes) (l : LoopS) (h : LoopOK l) (hf : f.d5 = true ∨ l.idx.pendingAdditionsPos = 0) :
    LoopOK (l.invert f) := by
  have hreset : IdxOK (l.idx.reset f) := by
    rcases hf with hf | hf
    · exact idxOK_reset_fixed f hf
    · have hr : l.idx.pendingRemovals = [] := by
        by_cases hr : l.idx.pendingRemovals = []
        · exact hr
        · exact absurd hf (h.idx.remPos hr)
      constructor <;> simp [Index.reset, hf, hr, liveIds, liveFrom]
  refine ⟨?_, ?_, ?_⟩
  · exact idxOK_add hreset _
  · simp [LoopS.invert, Index.add, Index.reset, LoopS.shape]
  · simp [LoopS.invert]

theorem sok_init (f : Fixes) (n : Nat) (o : Bool) (k : PolyKind) (m : Nat) (strict : Bool)
    (hp : strict = true → f.d19 = true ∨ k ≠ .full) : SOK strict (State.init f n o k m) := by
  refine ⟨rfl, idxOK_new, by simp [State.init], by simp [State.init], loopOK_new n o, polyOK_new f k m, ?_, by simp [State.init], by simp [State.init]⟩
  intro hs
  rcases hp hs with h | h
  · cases k <;> simp [State.init, PolyS.new, polyIndex, h]
  · cases k <;> simp_all [State.init, PolyS.new, polyIndex]

theorem cov_after_mau {f : Fixes} {x y : Index} {q : EQ} (hy : maybeApplyUpdates f x = some y)
    (hc : CovOK x q) : CovOK y q := by
  intro c hq
  obtain ⟨hf, hcc⟩ := hc c hq
  rw [mau_fresh_id hy hf]; exact ⟨hf, hcc⟩

/-- one step of the repaired machine = one step of the history-free specification -/
theorem step_fixed (s : State) (op : Op) (h : SOK true s) :
    SOK true (stepV Fixes.all s op).1 ∧ abs (stepV Fixes.all s op).1 = (spec (abs s) op).1 ∧
      (stepV Fixes.all s op).2 = (spec (abs s) op).2 := by
  have hal := h.alive
  cases op with
  | add sh =>
    simp only [stepV, hal]
    refine ⟨⟨(by first | rfl | simp [hal]), idxOK_add h.idx sh, by simp, by simp, h.loop, h.poly, h.polyIdx, by simp, h.tgt⟩, ?_, ?_⟩
    · simp [abs, spec, Index.add]
    · simp [abs, spec, Index.add, h.idx.next]
  | reset =>
    simp only [stepV, hal]
    refine ⟨⟨(by first | rfl | simp [hal]), idxOK_reset_fixed _ rfl, by simp, by simp, h.loop, h.poly, h.polyIdx, by simp, h.tgt⟩, ?_, ?_⟩
    · simp [abs, spec, Index.reset]
    · simp [spec]
  | build =>
    obtain ⟨i, hi⟩ := mau_fixed_isSome (f := Fixes.all) rfl s.idx
    obtain ⟨h1, h2, _, _, _⟩ := mau_some h.idx hi
    simp only [stepV, hal, hi]
    refine ⟨⟨(by first | rfl | simp [hal]), h1, fun q hq => cov_after_mau hi (h.cov q hq), h.opts, h.loop, h.poly, h.polyIdx, fun q hq => numOK_shapes h2 (h.num q hq), h.tgt⟩, ?_, ?_⟩
    · simp [abs, spec, h2, mau_gone hi]
    · simp [spec]
  | remove k =>
    simp only [stepV, hal]
    cases hk : (presentIds s.idx.shapes.length s.idx.gone)[k]? with
    | none => exact ⟨h, by simp [abs, spec, hk], by simp [abs, spec, hk]⟩
    | some id =>
      refine ⟨⟨(by first | rfl | simp [hal]), idxOK_remove h.idx id, by simp, by simp, h.loop, h.poly, h.polyIdx, by simp, h.tgt⟩, ?_, ?_⟩
      · simp only [abs, spec, hk, Index.remove]
        split <;> simp
      · simp [abs, spec, hk]
  | query =>
    obtain ⟨i, hi⟩ := mau_fixed_isSome (f := Fixes.all) rfl s.idx
    obtain ⟨h1, h2, _, _, h5⟩ := mau_some h.idx hi
    have hd53 : (!Fixes.all.d53 && i.numPresent == 1 && i.gone.contains 0) = false := by simp [Fixes.all]
    simp only [stepV, hal, hi, hd53, Bool.false_eq_true, if_false]
    refine ⟨⟨(by first | rfl | simp [hal]), h1, fun q hq => cov_after_mau hi (h.cov q hq), h.opts, h.loop, h.poly, h.polyIdx, fun q hq => numOK_shapes h2 (h.num q hq), h.tgt⟩, ?_, ?_⟩
    · simp [abs, spec, h2, mau_gone hi]
    · simp [spec, abs, h5]
  | newEQ o =>
    simp only [stepV, hal]
    refine ⟨⟨(by first | rfl | simp [hal]), h.idx, ?_, ?_, h.loop, h.poly, h.polyIdx, ?_, h.tgt⟩, ?_, ?_⟩
    · intro q hq; simp at hq; subst hq; intro c hc; simp [EQ.new] at hc
    · intro _ q hq; simp at hq; subst hq; rfl
    · intro q hq; simp at hq; subst hq; exact Or.inl ⟨rfl, rfl⟩
    · simp [abs, spec, EQ.new]
    · simp [spec]
  | eqReset =>
    simp only [stepV, hal]
    cases hq : s.eq with
    | none =>
      refine ⟨⟨(by first | rfl | simp [hal]), h.idx, by simp [hq], by simp [hq], h.loop, h.poly, h.polyIdx, by simp [hq], h.tgt⟩, ?_, ?_⟩
      · simp [abs, spec, hq]
      · simp [abs, spec, hq]
    | some q =>
      refine ⟨⟨(by first | rfl | simp [hal]), h.idx, ?_, ?_, h.loop, h.poly, h.polyIdx, ?_, h.tgt⟩, ?_, ?_⟩
      · intro q' hq'; simp at hq'; subst hq'; intro c hc; simp [EQ.reset] at hc
      · intro _ q' hq'; simp at hq'; subst hq'; simp [EQ.reset]; exact h.opts rfl q hq
      · intro q' hq'; simp at hq'; subst hq'; exact Or.inl ⟨rfl, rfl⟩
      · simp [abs, spec, hq, EQ.reset]
      · simp [abs, spec, hq]
  | call k thr =>
    simp only [stepV, hal]
    cases hq : s.eq with
    | none =>
      refine ⟨⟨(by first | rfl | simp [hal]), h.idx, by simp [hq], by simp [hq], h.loop, h.poly, h.polyIdx, by simp [hq], h.tgt⟩, ?_, ?_⟩
      · simp [abs, spec, hq]
      · simp [abs, spec, hq]
    | some q =>
      have hou := h.opts rfl q hq
      obtain ⟨⟨i, q', a⟩, hr⟩ := fec_isSome (f := Fixes.all) s.idx q thr (k.override q.opts) k.report (Or.inl rfl)
      have hp := fec_some h.idx (h.cov q hq) hr
      have hcall : eqCall Fixes.all s.idx q k thr = some (i, q', a) := by
        unfold eqCall
        have hd8 : Fixes.all.d8 = true := rfl
        simp only [hd8, if_true, hr]
      simp only [hcall]
      refine ⟨⟨(by first | rfl | simp [hal]), hp.ok, ?_, ?_, h.loop, h.poly, h.polyIdx, ?_, h.tgt⟩, ?_, ?_⟩
      · intro q2 hq2; simp at hq2; subst hq2; exact hp.cov
      · intro _ q2 hq2; simp at hq2; subst hq2; rw [hp.opts, hp.user]; exact hou
      · intro q2 hq2; simp at hq2; subst hq2; exact hp.num (h.num q hq)
      · simp [abs, spec, hq, hp.shapes, hp.user, hp.gone]
      · simp [abs, spec, hq, hp.ans, hp.opts, hou, specAns_eq]
  | invert =>
    simp only [stepV, hal]
    refine ⟨⟨(by first | rfl | simp [hal]), h.idx, h.cov, h.opts, loopOK_invert _ _ h.loop (Or.inl rfl), h.poly, h.polyIdx, h.num, h.tgt⟩, ?_, ?_⟩
    · simp [abs, spec, LoopS.invert]
    · simp [spec]
  | loopContains =>
    have hl := h.loop
    simp only [stepV, hal]
    have hlen : (s.loop.idx.shapes.length == 0) = false := by simp [hl.shapes]
    by_cases hb : s.loop.nverts ≤ maxBruteForceVertices
    · simp only [hlen, hb, Bool.false_or, decide_true, if_true]
      exact ⟨h, by simp [abs, spec], by simp [abs, spec, hb, hl.bound]⟩
    · obtain ⟨i, hi⟩ := mau_fixed_isSome (f := Fixes.all) rfl s.loop.idx
      obtain ⟨h1, h2, _, _, h5⟩ := mau_some hl.idx hi
      simp only [hlen, hb, Bool.false_or, decide_false, hi]
      refine ⟨⟨(by first | rfl | simp [hal]), h.idx, h.cov, h.opts, ⟨h1, by simp [h2, hl.shapes, LoopS.shape], hl.bound⟩, h.poly, h.polyIdx, h.num, h.tgt⟩, ?_, ?_⟩
      · simp [abs, spec]
      · simp [abs, spec, hb, hl.bound, h5, hl.shapes, LoopS.shape]
  | loopCell =>
    have hl := h.loop
    obtain ⟨i, hi⟩ := mau_fixed_isSome (f := Fixes.all) rfl s.loop.idx
    obtain ⟨h1, h2, _, _, h5⟩ := mau_some hl.idx hi
    simp only [stepV, hal, hi]
    refine ⟨⟨(by first | rfl | simp [hal]), h.idx, h.cov, h.opts, ⟨h1, by simp [h2, hl.shapes, LoopS.shape], hl.bound⟩, h.poly, h.polyIdx, h.num, h.tgt⟩, ?_, ?_⟩
    · simp [abs, spec]
    · simp [abs, spec, hl.bound, h5, hl.shapes, LoopS.shape]
  | polyInvert =>
    simp only [stepV, hal]
    refine ⟨⟨(by first | rfl | simp [hal]), h.idx, h.cov, h.opts, h.loop, polyOK_invert _ _, ?_, h.num, h.tgt⟩, ?_, ?_⟩
    · intro _; cases hk : s.poly.kind <;> simp [PolyS.invert, hk, polyIndex, Fixes.all]
    · cases hk : s.poly.kind <;> simp [abs, spec, PolyS.invert, hk]
    · cases hk : s.poly.kind <;> simp [abs, spec, hk]
  | polyContains =>
    simp only [stepV, hal]
    cases hix : s.poly.idx with
    | none => exact absurd hix (h.polyIdx rfl)
    | some ix =>
      obtain ⟨hixok, hixsh⟩ := h.poly.idx ix hix
      by_cases hb : s.poly.numVertices < maxBruteForceVertices
      · simp only [hb, if_true]
        refine ⟨h, by simp [abs, spec], ?_⟩
        cases hk : s.poly.kind <;> simp [abs, spec, PolyS.numVertices, hk, maxBruteForceVertices] at hb ⊢
        exact hb
      · obtain ⟨i, hi⟩ := mau_fixed_isSome (f := Fixes.all) rfl ix
        obtain ⟨h1, h2, _, _, h5⟩ := mau_some hixok hi
        simp only [hb, if_false, hi]
        refine ⟨⟨(by first | rfl | simp [hal]), h.idx, h.cov, h.opts, h.loop, ⟨?_⟩, by simp, h.num, h.tgt⟩, by simp [abs, spec], ?_⟩
        · intro ix' hix'; simp at hix'; subst hix'; exact ⟨h1, by rw [h2, hixsh]⟩
        · rw [h5, hixsh]
          cases hk : s.poly.kind <;> simp [abs, spec, PolyS.numVertices, hk, maxBruteForceVertices, polyShape] at hb ⊢
          exact hb
  | newTarget k shapes =>
    simp only [stepV, hal]
    refine ⟨⟨(by first | rfl | simp [hal]), h.idx, h.cov, h.opts, h.loop, h.poly, h.polyIdx, h.num, ?_⟩, ?_, ?_⟩
    · intro t ht; simp at ht; subst ht; exact tgtOK_new k shapes
    · simp [abs, spec, Target.geo, Target.new, addAll_shapes, Index.new, EQ.new, Opts.default]
    · simp [spec]
  | tadd sh =>
    simp only [stepV, hal]
    cases htg : s.tgt with
    | none => exact ⟨h, by simp [abs, spec, htg], by simp [abs, spec, htg]⟩
    | some t =>
      have hto := h.tgt t htg
      by_cases hk : t.kind = .index
      · simp only [hk, if_true]
        refine ⟨⟨(by first | rfl | simp [hal]), h.idx, h.cov, h.opts, h.loop, h.poly, h.polyIdx, h.num, ?_⟩, ?_, ?_⟩
        · intro t' ht'; simp at ht'; subst ht'
          exact ⟨idxOK_add hto.idx sh, hto.ii, hto.bf⟩
        · simp [abs, spec, htg, Target.geo, hk, Index.add]
        · simp [abs, spec, htg, Target.geo, hk, Index.add, hto.idx.next]
      · simp only [hk, if_false]
        exact ⟨h, by simp [abs, spec, htg, Target.geo, hk], by simp [abs, spec, htg, Target.geo, hk]⟩
  | tset ii bf =>
    simp only [stepV, hal]
    cases htg : s.tgt with
    | none => exact ⟨h, by simp [abs, spec, htg], by simp [abs, spec, htg]⟩
    | some t =>
      have hto := h.tgt t htg
      by_cases hk : t.kind = .index
      · simp only [hk, if_true]
        refine ⟨⟨(by first | rfl | simp [hal]), h.idx, h.cov, h.opts, h.loop, h.poly, h.polyIdx, h.num, ?_⟩, ?_, ?_⟩
        · intro t' ht'; simp at ht'; subst ht'
          exact ⟨hto.idx, rfl, rfl⟩
        · simp [abs, spec, htg, Target.geo, hk, Target.configure]
        · simp [abs, spec, htg, Target.geo, hk]
      · simp only [hk, if_false]
        exact ⟨h, by simp [abs, spec, htg, Target.geo, hk], by simp [abs, spec, htg, Target.geo, hk]⟩
  | tcall k =>
    simp only [stepV, hal]
    cases hq : s.eq with
    | none => exact ⟨h, by cases htg : s.tgt <;> simp [abs, spec, hq, htg], by cases htg : s.tgt <;> simp [abs, spec, hq, htg]⟩
    | some q =>
      cases htg : s.tgt with
      | none => exact ⟨h, by simp [abs, spec, hq, htg], by simp [abs, spec, hq, htg]⟩
      | some t =>
        have hto := h.tgt t htg
        have hou := h.opts rfl q hq
        have hd8 : Fixes.all.d8 = true := rfl
        by_cases hk : t.kind = .index
        · obtain ⟨i, q', t', hr, hp⟩ := fet_fixed (o := k.override q.opts) (rep := k.report) h.idx (h.cov q hq) (h.num q hq) hto
          have hcall : eqCallT Fixes.all s.idx q t k = some (i, q', t', searchAnsT s.idx.shapes (k.override q.opts) k.report t.geo) := by
            unfold eqCallT
            simp only [hd8, if_true, hk, hr]
          simp only [hcall]
          refine ⟨⟨(by first | rfl | simp [hal]), hp.ok, ?_, ?_, h.loop, h.poly, h.polyIdx, ?_, ?_⟩, ?_, ?_⟩
          · intro q2 hq2; simp at hq2; subst hq2; exact hp.cov
          · intro _ q2 hq2; simp at hq2; subst hq2; rw [hp.opts, hp.user]; exact hou
          · intro q2 hq2; simp at hq2; subst hq2; exact hp.num
          · intro t2 ht2; simp at ht2; subst ht2; exact hp.tok
          · have hkg : t.geo.kind = .index := hk
            simp [abs, spec, hq, htg, hp.shapes, hp.user, hp.tgeo, hkg, hp.gone]
          · have hkg : t.geo.kind = .index := hk
            simp [abs, spec, hq, htg, hp.opts, hou, specAnsT, hkg]
        · obtain ⟨⟨i, q', a⟩, hr⟩ := fec_isSome (f := Fixes.all) s.idx q t.kind.thr (k.override q.opts) k.report (Or.inl rfl)
          have hp := fec_some h.idx (h.cov q hq) hr
          have hcall : eqCallT Fixes.all s.idx q t k = some (i, q', t, ⟨a, none⟩) := by
            unfold eqCallT
            simp only [hd8, if_true]
            cases hk2 : t.kind <;> simp_all
          simp only [hcall]
          refine ⟨⟨(by first | rfl | simp [hal]), hp.ok, ?_, ?_, h.loop, h.poly, h.polyIdx, ?_, ?_⟩, ?_, ?_⟩
          · intro q2 hq2; simp at hq2; subst hq2; exact hp.cov
          · intro _ q2 hq2; simp at hq2; subst hq2; rw [hp.opts, hp.user]; exact hou
          · intro q2 hq2; simp at hq2; subst hq2; exact hp.num (h.num q hq)
          · intro t2 ht2; simp at ht2; subst ht2; exact hto
          · have hkg : t.geo.kind = t.kind := rfl
            cases hk2 : t.kind <;>
              first
              | exact absurd hk2 hk
              | simp [abs, spec, hq, htg, hp.shapes, hp.user, hkg, hk2, hp.gone]
          · have hkg : t.geo.kind = t.kind := rfl
            have ha := hp.ans
            have ho := hp.opts.trans hou
            cases hk2 : t.kind <;>
              first
              | exact absurd hk2 hk
              | simp [abs, spec, hq, htg, hkg, hk2, ha, ho, hou, specAns_eq]


end S2Proofs.HistoryLemmas
