/-
  C16Acc.StableKernel — the stable path of `Intersection` with the projections certified:

    `proj_certified` : `ProjGlue.normal_facts` + `ProjGlue.projection_facts` + `ProjCore.proj_core`: for nearly-unit finite inputs,
                       outside the deep-underflow regime, `|proj − x·N| ≤ (1 − 2^-40)·bound`  — the error estimate of
                       `projection` IS an upper bound (with the first-order slack of its constants 3.5+2√3 and 32√3·dblError);
    `stable_kernel`  : an accepted stable result is finite, within sin ≤ 8·2^-53 of the exact intersection direction of the two
                       great circles and of unit length within 20·2^-53 (squared), under `StableSide`;
    `stable_unit`    : finiteness and unit length without any side condition.
-/
import S2Proofs.C16Acc.StableAssemble
import S2Proofs.C16Acc.StableSide
import S2Proofs.C16Acc.ProjGlue

namespace S2Proofs.C16Acc
open S2 S2.Exact S2.EdgeNum S2Proofs.F64Order S2Proofs.FloatErr S2Proofs.C16

/-- the projection is certified: finite, bounded, and its error estimate is an upper bound with slack `2^-40` -/
theorem proj_certified (a0 a1 x : V3) (ua0 : UnitR a0) (ua1 : UnitR a1) (ux : UnitR x)
    (gL : F64.le tinyF (aNormF a0 a1).norm = true)
    (gd : F64.le tinyF (F64.sqrt (C16K.pick x a0 a1).norm2) = true) :
    Fin (projF a0 a1 x).1 ∧ |val (projF a0 a1 x).1| ≤ 2 ^ 10 ∧
    Fin (projF a0 a1 x).2 ∧ 0 ≤ val (projF a0 a1 x).2 ∧ val (projF a0 a1 x).2 ≤ 2 ^ 10 ∧
    |val (projF a0 a1 x).1 - R3.dot (ofV x) (Nvec (ofV a0) (ofV a1))| ≤ (1 - 1 / 2 ^ 40) * val (projF a0 a1 x).2 := by
  obtain ⟨fn, _, fL, L0, _, hD, hS, hN, hL⟩ := normal_facts a0 a1 ua0.1 ua1.1 ua0.le49 ua1.le49
  obtain ⟨hp, hk, fd, md, fdist, dist0, fe, e0, em, hd, hdist, hc1, hc2, hε⟩ :=
    projection_facts a0 a1 x ua0.1 ua1.1 ux.1 ua0.le49 ua1.le49 ux.le49
  have hpe : projF a0 a1 x = ((C16K.pick x a0 a1).dot ((a0.sub a1).cross (a0.add a1)),
      ((projC1 * ((a0.sub a1).cross (a0.add a1)).norm + projC2) * F64.sqrt (C16K.pick x a0 a1).norm2
        + f1p5 * ((C16K.pick x a0 a1).dot ((a0.sub a1).cross (a0.add a1))).abs) * tErr) := hp
  rw [hpe]
  simp only
  refine ⟨fd, md, fe, e0, em, ?_⟩
  have gLr := tiny_le fL gL
  have gdr := tiny_le fdist gd
  have ht0 : (0 : ℝ) ≤ 1 / 2 ^ 1000 := by positivity
  unfold Nvec
  rcases hk with ⟨_, hx⟩ | ⟨_, hx⟩
  · exact proj_core (Ak := ofV a0) (Or.inl rfl) ua0.2 ua1.2 hD hS hN hx hd L0 hL dist0 hdist hc1 hc2 hε gLr gdr ht0
      (le_refl _)
  · exact proj_core (Ak := ofV a1) (Or.inr rfl) ua0.2 ua1.2 hD hS hN hx hd L0 hL dist0 hdist hc1 hc2 hε gLr gdr ht0
      (le_refl _)

/-- finiteness and boundedness of a projection need no guard -/
theorem proj_fin (a0 a1 x : V3) (ua0 : UnitR a0) (ua1 : UnitR a1) (ux : UnitR x) :
    Fin (projF a0 a1 x).1 ∧ |val (projF a0 a1 x).1| ≤ 2 ^ 10 := by
  obtain ⟨hp, _, fd, md, _⟩ := projection_facts a0 a1 x ua0.1 ua1.1 ux.1 ua0.le49 ua1.le49 ux.le49
  have hpe : projF a0 a1 x = ((C16K.pick x a0 a1).dot ((a0.sub a1).cross (a0.add a1)),
      ((projC1 * ((a0.sub a1).cross (a0.add a1)).norm + projC2) * F64.sqrt (C16K.pick x a0 a1).norm2
        + f1p5 * ((C16K.pick x a0 a1).dot ((a0.sub a1).cross (a0.add a1))).abs) * tErr) := hp
  rw [hpe]
  exact ⟨fd, md⟩

/-- **the stable path is accurate**: under `StableSide`, an accepted result of `intersectionStableSorted` is finite, the sine of the
    angle between it and the exact intersection direction `(A0×A1)×(B0×B1)` is at most `8·2^-53`, and `| |r|² − 1 | ≤ 20·2^-53` -/
theorem stable_kernel (a0 a1 b0 b1 r : V3) (ua0 : UnitR a0) (ua1 : UnitR a1) (ub0 : UnitR b0) (ub1 : UnitR b1)
    (side : StableSide a0 a1 b0 b1) (h : intersectionStableSorted a0 a1 b0 b1 = some r) :
    Fin3 r ∧ R3.SinLe (ofV r) (Xr (ofV a0) (ofV a1) (ofV b0) (ofV b1)) (8 * uR) ∧ |(ofV r).norm2 - 1| ≤ 20 * uR := by
  obtain ⟨hopp, hguard, gL, gd0, gd1⟩ := side
  obtain ⟨fd0, md0, fe0, e0n, e0m, hP0⟩ := proj_certified a0 a1 b0 ua0 ua1 ub0 gL gd0
  obtain ⟨fd1, md1, fe1, e1n, e1m, hP1⟩ := proj_certified a0 a1 b1 ua0 ua1 ub1 gL gd1
  have fs : Fin (((projF a0 a1 b0).1 - (projF a0 a1 b1).1).abs - ((projF a0 a1 b0).2 + (projF a0 a1 b1).2)) := by
    obtain ⟨fdS, dS0, dSm, _⟩ := dist_facts fd0 fd1 md0 md1
    obtain ⟨feS, eS0, eSm, _⟩ := esum_facts fe0 fe1 e0n e0m e1n e1m
    have m : |val ((projF a0 a1 b0).1 - (projF a0 a1 b1).1).abs - val ((projF a0 a1 b0).2 + (projF a0 a1 b1).2)| ≤ 2 ^ 12 := by
      rw [abs_le]; constructor <;> norm_num at dSm eSm ⊢ <;> linarith
    exact (sub_step stdModel fdS feS m (by norm_num)).1
  exact stable_of_proj scaleSpec a0 a1 b0 b1 r ub0 ub1 (projF a0 a1 b0).1 (projF a0 a1 b0).2 (projF a0 a1 b1).1
    (projF a0 a1 b1).2 rfl rfl fd0 fd1 md0 md1 fe0 fe1 e0n e0m e1n e1m hP0 hP1 (opp_real hopp)
    (tiny_le fs hguard) h

/-- finiteness and unit length of an accepted stable result, no side condition -/
theorem stable_unit (a0 a1 b0 b1 r : V3) (ua0 : UnitR a0) (ua1 : UnitR a1) (ub0 : UnitR b0) (ub1 : UnitR b1)
    (h : intersectionStableSorted a0 a1 b0 b1 = some r) :
    Fin3 r ∧ |(ofV r).norm2 - 1| ≤ 20 * uR := by
  obtain ⟨fd0, md0⟩ := proj_fin a0 a1 b0 ua0 ua1 ub0
  obtain ⟨fd1, md1⟩ := proj_fin a0 a1 b1 ua0 ua1 ub1
  exact stable_unit_of_fin scaleSpec a0 a1 b0 b1 r ub0 ub1 (projF a0 a1 b0).1 (projF a0 a1 b0).2 (projF a0 a1 b1).1
    (projF a0 a1 b1).2 rfl rfl fd0 fd1 md0 md1 h

end S2Proofs.C16Acc
