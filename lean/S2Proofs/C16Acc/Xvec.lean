/-
  C16Acc.Xvec — the exact intersection direction in its three guises:
    * `Xcode`  = P0·B1 − P1·B0,  P_i = B_i·N,  N = (A0−A1)×(A0+A1)      (what the stable path interpolates)
    * `Xr`     = (A0×A1)×(B0×B1)                                          (real vectors)
    * `Xraw`   = ((ofV3 a0)×(ofV3 a1))×((ofV3 b0)×(ofV3 b1))              (the judge's integer vector)
  `Xcode = −2·Xr`, `ofI Xraw = 2^(4·1074)·Xr`; `SinLe` does not see the factors.
-/
import S2Proofs.C16Acc.Bridge

namespace S2Proofs.C16Acc
open S2 S2.Exact S2.EdgeNum S2Proofs.F64Order S2Proofs.FloatErr

/-- the normal of edge a as the code forms it: `(A0−A1)×(A0+A1) = 2·A0×A1` -/
def Nvec (A0 A1 : R3) : R3 := R3.cross (R3.sub A0 A1) (R3.add A0 A1)

/-- the direction the stable path interpolates -/
def Xcode (A0 A1 B0 B1 : R3) : R3 :=
  R3.sub (R3.smul (R3.dot B0 (Nvec A0 A1)) B1) (R3.smul (R3.dot B1 (Nvec A0 A1)) B0)

/-- the exact intersection direction of the two great circles -/
def Xr (A0 A1 B0 B1 : R3) : R3 := R3.cross (R3.cross A0 A1) (R3.cross B0 B1)

theorem Xcode_eq (A0 A1 B0 B1 : R3) : Xcode A0 A1 B0 B1 = R3.smul (-2) (Xr A0 A1 B0 B1) := by
  unfold Xcode Xr Nvec R3.sub R3.add R3.smul R3.dot R3.cross
  ext <;> simp <;> ring

theorem R3.smul_smul (a b : ℝ) (v : R3) : R3.smul a (R3.smul b v) = R3.smul (a * b) v := by
  unfold R3.smul; ext <;> simp <;> ring

theorem R3.one_smul (v : R3) : R3.smul 1 v = v := by unfold R3.smul; ext <;> simp

theorem sinLe_Xcode_iff {r : R3} {A0 A1 B0 B1 : R3} {ε : ℝ} (h : R3.SinLe r (Xcode A0 A1 B0 B1) ε) :
    R3.SinLe r (Xr A0 A1 B0 B1) ε := by
  rw [Xcode_eq] at h
  have := h.smul_right (-1 / 2)
  rw [R3.smul_smul] at this
  have e : (-1 / 2 : ℝ) * (-2) = 1 := by norm_num
  rwa [e, R3.one_smul] at this

/-- the judge's integer crossing direction (before orientation) -/
def Xraw (a0 a1 b0 b1 : V3) : IV3 := ((ofV3 a0).cross (ofV3 a1)).cross ((ofV3 b0).cross (ofV3 b1))

theorem ofI_Xraw (a0 a1 b0 b1 : V3) :
    ofI (Xraw a0 a1 b0 b1) = R3.smul ((2 ^ 1074) ^ 4) (Xr (ofV a0) (ofV a1) (ofV b0) (ofV b1)) := by
  unfold Xraw Xr
  rw [ofI_cross, ofI_cross, ofI_cross, ofI_ofV3, ofI_ofV3, ofI_ofV3, ofI_ofV3]
  generalize (2 : ℝ) ^ 1074 = K
  unfold R3.cross R3.smul
  ext <;> simp <;> ring

theorem sinLe_Xraw {r : R3} {a0 a1 b0 b1 : V3} {ε : ℝ}
    (h : R3.SinLe r (Xr (ofV a0) (ofV a1) (ofV b0) (ofV b1)) ε) : R3.SinLe r (ofI (Xraw a0 a1 b0 b1)) ε := by
  rw [ofI_Xraw]; exact h.smul_right _

theorem sinLe_neg_right {r X : R3} {ε : ℝ} (h : R3.SinLe r X ε) : R3.SinLe r (R3.neg X) ε := by
  rw [R3.neg_eq_smul]; exact h.smul_right _

end S2Proofs.C16Acc
