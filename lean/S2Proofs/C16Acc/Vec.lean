/-
  C16Acc.Vec — real 3-vectors for the accuracy analysis of `Intersection` (C16): norm, dot, cross product,
  Cauchy–Schwarz, Lagrange, triangle inequality, component-wise bounds, and the notion
  `SinLe r X ε`  :=  |r × X|² ≤ ε²·|r|²·|X|²   ("the sine of the angle between the LINES through r and X is ≤ ε").

  `ofV` maps a float vector to the real vector of its exact values (`FloatErr.val`).
-/
import Mathlib.Analysis.Real.Sqrt
import Mathlib.Tactic.Ring
import Mathlib.Tactic.Linarith
import Mathlib.Tactic.Positivity
import Mathlib.Tactic.NormNum
import S2Proofs.FloatErr.StdModel
import S2.STUV

namespace S2Proofs.C16Acc
open S2

/-- a real 3-vector -/
structure R3 where
  x : ℝ
  y : ℝ
  z : ℝ

namespace R3

@[ext] theorem ext' {a b : R3} (hx : a.x = b.x) (hy : a.y = b.y) (hz : a.z = b.z) : a = b := by
  cases a; cases b; simp_all

def zero : R3 := ⟨0, 0, 0⟩
def add (a b : R3) : R3 := ⟨a.x + b.x, a.y + b.y, a.z + b.z⟩
def sub (a b : R3) : R3 := ⟨a.x - b.x, a.y - b.y, a.z - b.z⟩
def smul (c : ℝ) (a : R3) : R3 := ⟨c * a.x, c * a.y, c * a.z⟩
def neg (a : R3) : R3 := ⟨-a.x, -a.y, -a.z⟩
def dot (a b : R3) : ℝ := a.x * b.x + a.y * b.y + a.z * b.z
def cross (a b : R3) : R3 := ⟨a.y * b.z - a.z * b.y, a.z * b.x - a.x * b.z, a.x * b.y - a.y * b.x⟩
def norm2 (a : R3) : ℝ := a.x ^ 2 + a.y ^ 2 + a.z ^ 2
noncomputable def norm (a : R3) : ℝ := Real.sqrt a.norm2
/-- component-wise absolute value -/
def abs (a : R3) : R3 := ⟨|a.x|, |a.y|, |a.z|⟩

theorem norm2_nonneg (a : R3) : 0 ≤ a.norm2 := by unfold norm2; positivity
theorem norm_nonneg (a : R3) : 0 ≤ a.norm := Real.sqrt_nonneg _
theorem norm_sq (a : R3) : a.norm ^ 2 = a.norm2 := Real.sq_sqrt a.norm2_nonneg
theorem norm_mul_self (a : R3) : a.norm * a.norm = a.norm2 := Real.mul_self_sqrt a.norm2_nonneg
theorem norm2_eq_dot (a : R3) : a.norm2 = a.dot a := by unfold norm2 dot; ring

theorem norm_le_of_sq {a : R3} {c : ℝ} (hc : 0 ≤ c) (h : a.norm2 ≤ c ^ 2) : a.norm ≤ c := by
  unfold norm
  calc Real.sqrt a.norm2 ≤ Real.sqrt (c ^ 2) := Real.sqrt_le_sqrt h
    _ = c := by rw [Real.sqrt_sq hc]

theorem sq_le_of_norm_le {a : R3} {c : ℝ} (h : a.norm ≤ c) : a.norm2 ≤ c ^ 2 := by
  rw [← norm_sq]
  exact pow_le_pow_left₀ a.norm_nonneg h 2

theorem le_norm_of_sq {a : R3} {c : ℝ} (h : c ^ 2 ≤ a.norm2) : c ≤ a.norm := by
  by_cases hc : 0 ≤ c
  · unfold norm
    calc c = Real.sqrt (c ^ 2) := (Real.sqrt_sq hc).symm
      _ ≤ Real.sqrt a.norm2 := Real.sqrt_le_sqrt h
  · exact le_trans (le_of_lt (not_le.mp hc)) a.norm_nonneg

theorem norm_abs (a : R3) : a.abs.norm = a.norm := by
  unfold norm; congr 1; unfold norm2 abs; simp only [sq_abs]

theorem norm_zero : zero.norm = 0 := by unfold norm norm2 zero; simp

theorem norm_smul (c : ℝ) (a : R3) : (smul c a).norm = |c| * a.norm := by
  have h : (smul c a).norm2 = (|c| * a.norm) ^ 2 := by
    rw [mul_pow, norm_sq, sq_abs]; unfold norm2 smul; ring
  unfold norm at *
  rw [h, Real.sqrt_sq (mul_nonneg (abs_nonneg _) (Real.sqrt_nonneg _))]

theorem norm_neg (a : R3) : (neg a).norm = a.norm := by
  unfold norm; congr 1; unfold norm2 neg; ring

/-- Lagrange: `|a×b|² = |a|²|b|² − (a·b)²` -/
theorem lagrange (a b : R3) : (cross a b).norm2 = a.norm2 * b.norm2 - (dot a b) ^ 2 := by
  unfold norm2 cross dot; ring

/-- Cauchy–Schwarz, squared -/
theorem dot_sq_le (a b : R3) : (dot a b) ^ 2 ≤ a.norm2 * b.norm2 := by
  have := norm2_nonneg (cross a b)
  rw [lagrange] at this
  linarith

theorem abs_dot_le (a b : R3) : |dot a b| ≤ a.norm * b.norm := by
  apply abs_le_of_sq_le_sq' _ (mul_nonneg a.norm_nonneg b.norm_nonneg) |> fun h => abs_le.mpr h
  rw [mul_pow, norm_sq, norm_sq]
  exact dot_sq_le a b

theorem dot_le (a b : R3) : dot a b ≤ a.norm * b.norm := le_trans (le_abs_self _) (abs_dot_le a b)

theorem cross_norm2_le (a b : R3) : (cross a b).norm2 ≤ a.norm2 * b.norm2 := by
  rw [lagrange]; nlinarith [sq_nonneg (dot a b)]

theorem norm_cross_le (a b : R3) : (cross a b).norm ≤ a.norm * b.norm := by
  apply norm_le_of_sq (mul_nonneg a.norm_nonneg b.norm_nonneg)
  rw [mul_pow, norm_sq, norm_sq]
  exact cross_norm2_le a b

theorem norm2_add (a b : R3) : (add a b).norm2 = a.norm2 + 2 * dot a b + b.norm2 := by
  unfold norm2 add dot; ring

theorem norm_add_le (a b : R3) : (add a b).norm ≤ a.norm + b.norm := by
  apply norm_le_of_sq (add_nonneg a.norm_nonneg b.norm_nonneg)
  rw [norm2_add]
  have := dot_le a b
  have h1 := norm_sq a
  have h2 := norm_sq b
  nlinarith

theorem sub_eq_add_neg (a b : R3) : sub a b = add a (neg b) := by
  unfold sub add neg; ext <;> simp <;> ring

theorem norm_sub_le (a b : R3) : (sub a b).norm ≤ a.norm + b.norm := by
  rw [sub_eq_add_neg]
  have := norm_add_le a (neg b)
  rwa [norm_neg] at this

theorem norm_sub_comm (a b : R3) : (sub a b).norm = (sub b a).norm := by
  unfold norm; congr 1; unfold norm2 sub; ring

/-- reverse triangle inequality -/
theorem norm_ge_sub (a b : R3) : a.norm - b.norm ≤ (add a b).norm := by
  have e : a = add (add a b) (neg b) := by unfold add neg; ext <;> simp
  have := norm_add_le (add a b) (neg b)
  rw [norm_neg, ← e] at this
  linarith

theorem norm_le_add_sub (a b : R3) : a.norm ≤ b.norm + (sub a b).norm := by
  have e : a = add b (sub a b) := by unfold add sub; ext <;> simp
  have := norm_add_le b (sub a b)
  rwa [← e] at this

/-- monotonicity of the norm in the absolute values of the components -/
theorem norm_le_of_abs_le {v w : R3} (hx : |v.x| ≤ w.x) (hy : |v.y| ≤ w.y) (hz : |v.z| ≤ w.z) :
    v.norm ≤ w.norm := by
  unfold norm
  apply Real.sqrt_le_sqrt
  unfold norm2
  have h1 := sq_le_sq' (by linarith [abs_nonneg v.x, neg_abs_le v.x] : -w.x ≤ v.x) (le_trans (le_abs_self _) hx)
  have h2 := sq_le_sq' (by linarith [abs_nonneg v.y, neg_abs_le v.y] : -w.y ≤ v.y) (le_trans (le_abs_self _) hy)
  have h3 := sq_le_sq' (by linarith [abs_nonneg v.z, neg_abs_le v.z] : -w.z ≤ v.z) (le_trans (le_abs_self _) hz)
  linarith

/-- a vector all of whose components are at most `c` in absolute value has norm ≤ 2c -/
theorem norm_le_of_comp_le {v : R3} {c : ℝ} (hc : 0 ≤ c) (hx : |v.x| ≤ c) (hy : |v.y| ≤ c) (hz : |v.z| ≤ c) :
    v.norm ≤ 2 * c := by
  apply norm_le_of_sq (by linarith)
  unfold norm2
  have h1 : v.x ^ 2 ≤ c ^ 2 := by rw [← sq_abs]; exact pow_le_pow_left₀ (abs_nonneg _) hx 2
  have h2 : v.y ^ 2 ≤ c ^ 2 := by rw [← sq_abs]; exact pow_le_pow_left₀ (abs_nonneg _) hy 2
  have h3 : v.z ^ 2 ≤ c ^ 2 := by rw [← sq_abs]; exact pow_le_pow_left₀ (abs_nonneg _) hz 2
  nlinarith

theorem abs_comp_le_norm (v : R3) : |v.x| ≤ v.norm ∧ |v.y| ≤ v.norm ∧ |v.z| ≤ v.norm := by
  have h := norm_sq v
  have hn := v.norm_nonneg
  unfold norm2 at h
  refine ⟨?_, ?_, ?_⟩ <;> apply abs_le_of_sq_le_sq' _ hn |> fun h => abs_le.mpr h <;> nlinarith [sq_nonneg v.x, sq_nonneg v.y, sq_nonneg v.z]

/-- the basic component-wise error lemma:
    `|v_j| ≤ α·|p_j| + β·|q_j| + γ` for all j  ⟹  `|v| ≤ α·|p| + β·|q| + 2γ` -/
theorem norm_le_of_comp {v p q : R3} {α β γ : ℝ} (hα : 0 ≤ α) (hβ : 0 ≤ β) (hγ : 0 ≤ γ)
    (hx : |v.x| ≤ α * |p.x| + β * |q.x| + γ) (hy : |v.y| ≤ α * |p.y| + β * |q.y| + γ)
    (hz : |v.z| ≤ α * |p.z| + β * |q.z| + γ) :
    v.norm ≤ α * p.norm + β * q.norm + 2 * γ := by
  have h := norm_le_of_abs_le (v := v) (w := add (add (smul α p.abs) (smul β q.abs)) ⟨γ, γ, γ⟩)
    (by simpa [add, smul, abs] using hx) (by simpa [add, smul, abs] using hy) (by simpa [add, smul, abs] using hz)
  have h1 := norm_add_le (add (smul α p.abs) (smul β q.abs)) ⟨γ, γ, γ⟩
  have h2 := norm_add_le (smul α p.abs) (smul β q.abs)
  rw [norm_smul, norm_smul, norm_abs, norm_abs, abs_of_nonneg hα, abs_of_nonneg hβ] at h2
  have h3 : (⟨γ, γ, γ⟩ : R3).norm ≤ 2 * γ :=
    norm_le_of_comp_le hγ (by simp [abs_of_nonneg hγ]) (by simp [abs_of_nonneg hγ]) (by simp [abs_of_nonneg hγ])
  linarith

/-! ### the sine of the angle between two lines -/

/-- `|r × X|² ≤ ε²·|r|²·|X|²`: the sine of the angle between the lines through `r` and `X` is at most `ε`
    (trivially true when one of the vectors is zero: state non-degeneracy separately) -/
def SinLe (r X : R3) (ε : ℝ) : Prop := (cross r X).norm2 ≤ ε ^ 2 * r.norm2 * X.norm2

theorem cross_smul_left (c : ℝ) (a b : R3) : cross (smul c a) b = smul c (cross a b) := by
  unfold cross smul; ext <;> simp <;> ring

theorem cross_smul_right (c : ℝ) (a b : R3) : cross a (smul c b) = smul c (cross a b) := by
  unfold cross smul; ext <;> simp <;> ring

theorem cross_self (a : R3) : cross a a = zero := by unfold cross zero; ext <;> simp <;> ring

theorem cross_add_left (a b c : R3) : cross (add a b) c = add (cross a c) (cross b c) := by
  unfold cross add; ext <;> simp <;> ring

theorem norm2_smul (c : ℝ) (a : R3) : (smul c a).norm2 = c ^ 2 * a.norm2 := by unfold norm2 smul; ring

theorem SinLe.smul_left {r X : R3} {ε : ℝ} (h : SinLe r X ε) (s : ℝ) : SinLe (smul s r) X ε := by
  unfold SinLe at *
  rw [cross_smul_left, norm2_smul, norm2_smul]
  have := mul_le_mul_of_nonneg_left h (sq_nonneg s)
  linarith

theorem SinLe.smul_right {r X : R3} {ε : ℝ} (h : SinLe r X ε) (s : ℝ) : SinLe r (smul s X) ε := by
  unfold SinLe at *
  rw [cross_smul_right, norm2_smul, norm2_smul]
  have := mul_le_mul_of_nonneg_left h (sq_nonneg s)
  linarith

theorem SinLe.mono {r X : R3} {ε ε' : ℝ} (h : SinLe r X ε) (h0 : 0 ≤ ε) (hle : ε ≤ ε') : SinLe r X ε' := by
  unfold SinLe at *
  have h1 : ε ^ 2 ≤ ε' ^ 2 := pow_le_pow_left₀ h0 hle 2
  have h2 : ε ^ 2 * (r.norm2 * X.norm2) ≤ ε' ^ 2 * (r.norm2 * X.norm2) :=
    mul_le_mul_of_nonneg_right h1 (mul_nonneg r.norm2_nonneg X.norm2_nonneg)
  linarith

/-- **the decomposition lemma**: if `W = k·X + Δ` and `|Δ| ≤ ε·|W|` then the sine of the angle between `W` and `X`
    is at most `ε` -/
theorem sinLe_of_decomp {W X Δ : R3} {k ε : ℝ} (hW : W = add (smul k X) Δ) (hε : 0 ≤ ε)
    (hΔ : Δ.norm ≤ ε * W.norm) : SinLe W X ε := by
  unfold SinLe
  -- W × X = Δ × X, and |Δ × X|² = |Δ|²|X|² − (Δ·X)²; likewise with W: use W × X = −(X × W) …
  have e : cross W X = cross Δ X := by
    rw [hW, cross_add_left, cross_smul_left, cross_self]
    unfold add smul zero; ext <;> simp
  rw [e]
  have h1 := cross_norm2_le Δ X
  have h2 : Δ.norm2 ≤ (ε * W.norm) ^ 2 := sq_le_of_norm_le hΔ
  rw [mul_pow, norm_sq] at h2
  have := mul_le_mul_of_nonneg_right h2 X.norm2_nonneg
  linarith

/-- the conclusion of `SinLe` with norms -/
theorem SinLe.norm_le {r X : R3} {ε : ℝ} (h : SinLe r X ε) (hε : 0 ≤ ε) :
    (cross r X).norm ≤ ε * r.norm * X.norm := by
  apply norm_le_of_sq (mul_nonneg (mul_nonneg hε r.norm_nonneg) X.norm_nonneg)
  rw [mul_pow, mul_pow, norm_sq, norm_sq]
  exact h

end R3

/-! ### float vectors as real vectors -/

open S2Proofs.FloatErr in
/-- the exact real value of a (finite) float vector -/
noncomputable def ofV (v : V3) : R3 := ⟨val v.x, val v.y, val v.z⟩

end S2Proofs.C16Acc
