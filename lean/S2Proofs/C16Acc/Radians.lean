/-
  C16Acc.Radians — from the sine of the angle (`R3.SinLe`) to the angle in radians.

  The accuracy theorems of the package conclude `R3.SinLe r X ε` (`|r×X|² ≤ ε²|r|²|X|²`); the property speaks of
  radians.  Here: `arcsin ε ≤ ε(1+ε²)` for small `ε`, the line angle `lineAngle r X = arcsin (|r×X| / (|r||X|))`,
  and for `ε = 8·2^-53` the bound `8·2^-53·(1 + 2^-100)` radians.  For `0 ≤ r·X` the line angle is the usual angle
  `arccos (r·X / (|r||X|))` between the vectors.
-/
import Mathlib.Analysis.SpecialFunctions.Trigonometric.Bounds
import Mathlib.Analysis.SpecialFunctions.Trigonometric.Inverse
import S2Proofs.C16Acc.Vec

namespace S2Proofs.C16Acc

/-- arcsin is within a relative `ε²` of the identity on `[0, 1/2]` -/
theorem arcsin_le_of_small' {ε : ℝ} (h0 : 0 ≤ ε) (h1 : ε ≤ 1 / 2) : Real.arcsin ε ≤ ε * (1 + ε ^ 2) := by
  rcases eq_or_lt_of_le h0 with h | hpos
  · subst h; simp
  have hsq : ε ^ 2 ≤ 1 / 4 := by nlinarith
  have hs0 : 0 ≤ ε ^ 2 := sq_nonneg ε
  have ht0 : 0 < ε * (1 + ε ^ 2) := by positivity
  have ht1 : ε * (1 + ε ^ 2) ≤ 1 := by nlinarith
  have hpi : (1 : ℝ) ≤ Real.pi / 2 := by linarith [Real.two_le_pi]
  have hsin := Real.sin_gt_sub_cube ht0
  have ht3 : 0 ≤ (ε * (1 + ε ^ 2)) ^ 3 := by positivity
  -- `(1+ε²)³ ≤ 4`
  have hc : (1 + ε ^ 2) ^ 3 ≤ 4 := by
    have : (1 + ε ^ 2) ^ 3 ≤ (1 + 1 / 4 : ℝ) ^ 3 := pow_le_pow_left₀ (by linarith) (by linarith) 3
    norm_num at this ⊢
    linarith
  have he3 : 0 ≤ ε ^ 3 := by positivity
  have hkey : ε ≤ ε * (1 + ε ^ 2) - (ε * (1 + ε ^ 2)) ^ 3 / 4 := by
    have e : ε * (1 + ε ^ 2) - (ε * (1 + ε ^ 2)) ^ 3 / 4 = ε + ε ^ 3 * (4 - (1 + ε ^ 2) ^ 3) / 4 := by ring
    rw [e]
    have : 0 ≤ ε ^ 3 * (4 - (1 + ε ^ 2) ^ 3) := mul_nonneg he3 (by linarith)
    linarith
  rw [Real.arcsin_le_iff_le_sin ⟨by linarith, by linarith⟩ ⟨by linarith, by linarith⟩]
  linarith

/-- arcsin is within a relative 2^-90 of the identity on [0, 2^-45] -/
theorem arcsin_le_of_small {ε : ℝ} (h0 : 0 ≤ ε) (h1 : ε ≤ 1 / 2 ^ 45) : Real.arcsin ε ≤ ε * (1 + ε ^ 2) := by
  apply arcsin_le_of_small' h0
  have : (1 : ℝ) / 2 ^ 45 ≤ 1 / 2 := by norm_num
  linarith

/-- the angle (in radians, in [0, π/2]) between the LINES through two non-zero vectors -/
noncomputable def lineAngle (r X : R3) : ℝ := Real.arcsin ((R3.cross r X).norm / (r.norm * X.norm))

theorem lineAngle_nonneg (r X : R3) : 0 ≤ lineAngle r X := by
  unfold lineAngle
  rw [Real.arcsin_nonneg]
  exact div_nonneg (R3.norm_nonneg _) (mul_nonneg r.norm_nonneg X.norm_nonneg)

theorem lineAngle_le_pi_div_two (r X : R3) : lineAngle r X ≤ Real.pi / 2 := Real.arcsin_le_pi_div_two _

/-- the sine of the line angle is `|r×X| / (|r||X|)` -/
theorem sin_lineAngle {r X : R3} (hr : 0 < r.norm) (hX : 0 < X.norm) :
    Real.sin (lineAngle r X) = (R3.cross r X).norm / (r.norm * X.norm) := by
  unfold lineAngle
  have hp : 0 < r.norm * X.norm := mul_pos hr hX
  apply Real.sin_arcsin
  · linarith [div_nonneg (R3.norm_nonneg (R3.cross r X)) hp.le]
  · rw [div_le_one hp]; exact R3.norm_cross_le r X

theorem lineAngle_le' {r X : R3} {ε : ℝ} (hr : 0 < r.norm) (hX : 0 < X.norm) (h0 : 0 ≤ ε) (h1 : ε ≤ 1 / 2)
    (h : R3.SinLe r X ε) : lineAngle r X ≤ ε * (1 + ε ^ 2) := by
  have hp : 0 < r.norm * X.norm := mul_pos hr hX
  have hq : (R3.cross r X).norm / (r.norm * X.norm) ≤ ε := by
    rw [div_le_iff₀ hp]
    have := h.norm_le h0
    linarith
  exact le_trans (Real.arcsin_le_arcsin hq) (arcsin_le_of_small' h0 h1)

theorem lineAngle_le {r X : R3} {ε : ℝ} (hr : 0 < r.norm) (hX : 0 < X.norm) (h0 : 0 ≤ ε) (h1 : ε ≤ 1 / 2 ^ 45)
    (h : R3.SinLe r X ε) : lineAngle r X ≤ ε * (1 + ε ^ 2) := by
  apply lineAngle_le' hr hX h0 _ h
  have : (1 : ℝ) / 2 ^ 45 ≤ 1 / 2 := by norm_num
  linarith

/-- with ε = 8·2^-53: at most 8·2^-53·(1 + 2^-100) radians -/
theorem lineAngle_le_8u {r X : R3} (hr : 0 < r.norm) (hX : 0 < X.norm) (h : R3.SinLe r X (8 * S2Proofs.FloatErr.uR)) :
    lineAngle r X ≤ 8 / 2 ^ 53 * (1 + 1 / 2 ^ 100) := by
  have e : 8 * S2Proofs.FloatErr.uR = 8 / 2 ^ 53 := by unfold S2Proofs.FloatErr.uR; norm_num
  rw [e] at h
  have := lineAngle_le hr hX (ε := 8 / 2 ^ 53) (by norm_num) (by norm_num) h
  have e2 : (8 / 2 ^ 53 : ℝ) * (1 + (8 / 2 ^ 53) ^ 2) = 8 / 2 ^ 53 * (1 + 1 / 2 ^ 100) := by norm_num
  rw [e2] at this
  exact this

/-! ### relation to the usual angle between the vectors -/

/-- the usual angle (in radians, in [0, π]) between two non-zero VECTORS -/
noncomputable def vecAngle (r X : R3) : ℝ := Real.arccos (R3.dot r X / (r.norm * X.norm))

/-- for vectors in the same half space (`0 ≤ r·X`) the angle between the vectors is the angle between the lines -/
theorem vecAngle_eq_lineAngle {r X : R3} (hr : 0 < r.norm) (hX : 0 < X.norm) (hd : 0 ≤ R3.dot r X) :
    vecAngle r X = lineAngle r X := by
  unfold vecAngle lineAngle
  have hp : 0 < r.norm * X.norm := mul_pos hr hX
  rw [Real.arccos_eq_arcsin (div_nonneg hd hp.le)]
  congr 1
  have hc0 : 0 ≤ (R3.cross r X).norm / (r.norm * X.norm) := div_nonneg (R3.norm_nonneg _) hp.le
  rw [← Real.sqrt_sq hc0]
  congr 1
  rw [div_pow, div_pow, R3.norm_sq, R3.lagrange, mul_pow, R3.norm_sq, R3.norm_sq]
  have hne : r.norm2 * X.norm2 ≠ 0 := by
    rw [← R3.norm_sq, ← R3.norm_sq, ← mul_pow]; positivity
  rw [eq_div_iff hne, sub_mul, div_mul_cancel₀ _ hne, one_mul]

/-- for vectors in opposite half spaces the angle between the vectors is `π −` the line angle -/
theorem vecAngle_eq_pi_sub_lineAngle {r X : R3} (hr : 0 < r.norm) (hX : 0 < X.norm) (hd : R3.dot r X ≤ 0) :
    vecAngle r X = Real.pi - lineAngle r X := by
  have hn : (R3.neg X).norm = X.norm := R3.norm_neg X
  have hd' : 0 ≤ R3.dot r (R3.neg X) := by unfold R3.dot R3.neg at *; simp only; linarith
  have h := vecAngle_eq_lineAngle hr (hn ▸ hX) hd'
  have e1 : vecAngle r (R3.neg X) = Real.pi - vecAngle r X := by
    unfold vecAngle
    rw [hn, ← Real.arccos_neg]
    congr 1
    unfold R3.dot R3.neg; simp only; ring
  have e2 : lineAngle r (R3.neg X) = lineAngle r X := by
    unfold lineAngle
    rw [hn]
    congr 2
    have : R3.cross r (R3.neg X) = R3.neg (R3.cross r X) := by
      unfold R3.cross R3.neg; ext <;> simp <;> ring
    rw [this, R3.norm_neg]
  rw [e1, e2] at h
  linarith

end S2Proofs.C16Acc
