/-
  C16Acc.StableCore — the pure real-analysis core of the accuracy proof of the STABLE path of `Intersection`.
  No floats: only ℝ and `R3`.
-/
import Mathlib.Tactic.Ring
import Mathlib.Tactic.Linarith
import Mathlib.Tactic.Positivity
import Mathlib.Tactic.NormNum
import Mathlib.Tactic.FieldSimp
import S2Proofs.C16Acc.Vec

namespace S2Proofs.C16Acc
open S2Proofs.FloatErr

/-- numbers of opposite sign: `|a − b| = |a| + |b|` -/
theorem abs_sub_of_mul_nonpos {a b : ℝ} (h : a * b ≤ 0) : |a - b| = |a| + |b| := by
  have h1 : |a - b| ^ 2 = (|a| + |b|) ^ 2 := by
    rw [sq_abs, add_sq, sq_abs, sq_abs, mul_assoc, ← abs_mul, abs_of_nonpos h]; ring
  have h2 : 0 ≤ |a| + |b| := by positivity
  nlinarith [abs_nonneg (a - b), sq_nonneg (|a - b| - (|a| + |b|)), sq_nonneg (|a - b| + (|a| + |b|))]

theorem one_div_two_pow_add (a b : ℕ) : (1 : ℝ) / 2 ^ (a + b) = 1 / 2 ^ a * (1 / 2 ^ b) := by
  rw [pow_add]; field_simp

theorem one_div_two_pow_le {a b : ℕ} (h : a ≤ b) : (1 : ℝ) / 2 ^ b ≤ 1 / 2 ^ a :=
  one_div_le_one_div_of_le (by positivity) (pow_le_pow_right₀ (by norm_num) h)

/-- the final (purely linear) count of the stable path -/
theorem stable_final_linear {u T D n m nv xt S dS QB errf xL : ℝ} (hu : u = 1 / 2 ^ 53)
    (hT : 0 ≤ T) (hD : 0 ≤ D)
    (f1 : QB ≤ (1 + 8 * u) * ((1 - 1 / 2 ^ 40) * ((1 + 5 * u) * T)) + 2 ^ 41 * D * (1 / 2 ^ 530))
    (herr : (1 - 8 * u) * (T + 2 * u * dS) - 1 / 2 ^ 650 ≤ errf)
    (hacc : errf ≤ 7 * u * (1 + u) * xL)
    (hxL : xL ≤ (1 + 6 * u) * n)
    (f3 : (1 - u) * D ≤ dS)
    (f4 : m ≤ (u + u ^ 2) * S + u * xt + 1 / 2 ^ 1000) (f4a : S ≤ (1 + 1 / 2 ^ 50) * D)
    (f4b : xt ≤ S) (f4c : xt ≤ n + m) (f4d : n ≤ xt + m)
    (f5 : nv ≤ (u + 1 / 2 ^ 500) * n) (f6 : 1 / 2 ^ 512 ≤ n) :
    QB + m + nv ≤ 8 * u * (n - nv) := by
  subst hu
  have t1 : (1 : ℝ) / 2 ^ 650 ≤ 1 / 2 ^ 138 * n := by
    have : (1 : ℝ) / 2 ^ 650 = 1 / 2 ^ 138 * (1 / 2 ^ 512) := one_div_two_pow_add 138 512
    rw [this]; exact mul_le_mul_of_nonneg_left f6 (by positivity)
  have t2 : (1 : ℝ) / 2 ^ 1000 ≤ 1 / 2 ^ 488 * n := by
    have : (1 : ℝ) / 2 ^ 1000 = 1 / 2 ^ 488 * (1 / 2 ^ 512) := one_div_two_pow_add 488 512
    rw [this]; exact mul_le_mul_of_nonneg_left f6 (by positivity)
  have hn : 0 ≤ n := le_trans (by positivity) f6
  generalize (1 : ℝ) / 2 ^ 650 = c1 at *
  generalize (1 : ℝ) / 2 ^ 1000 = c2 at *
  have e3 : (2 : ℝ) ^ 41 * D * (1 / 2 ^ 530) = 1 / 2 ^ 489 * D := by
    rw [show (2 : ℝ) ^ 530 = 2 ^ 41 * 2 ^ 489 from pow_add 2 41 489]; field_simp
  rw [e3] at f1
  have t3 : (1 : ℝ) / 2 ^ 489 * D ≤ 1 / 2 ^ 138 * D := by
    apply mul_le_mul_of_nonneg_right _ hD
    exact one_div_two_pow_le (by norm_num)
  have t5 : (1 : ℝ) / 2 ^ 500 * n ≤ 1 / 2 ^ 138 * n := by
    apply mul_le_mul_of_nonneg_right _ hn
    exact one_div_two_pow_le (by norm_num)
  have t2' : (1 : ℝ) / 2 ^ 488 * n ≤ 1 / 2 ^ 138 * n := by
    apply mul_le_mul_of_nonneg_right _ hn
    exact one_div_two_pow_le (by norm_num)
  have f5' : nv ≤ (1 / 2 ^ 53 + 1 / 2 ^ 138) * n := by linarith
  have f1' : QB ≤ (1 + 8 * (1 / 2 ^ 53)) * ((1 - 1 / 2 ^ 40) * ((1 + 5 * (1 / 2 ^ 53)) * T)) + 1 / 2 ^ 138 * D := by
    linarith
  have c2' : c2 ≤ 1 / 2 ^ 138 * n := by linarith
  clear f1 f5 t2 t2' t3 t5 e3
  linarith

/-- the scalar core: everything about norms is abstracted into real variables -/
theorem stable_scalar {u a0 a1 ε0 ε1 dS eS bL errf xL n m nv bn β0 β1 xt q : ℝ} (hu : u = 1 / 2 ^ 53)
    (ha0 : 0 ≤ a0) (ha1 : 0 ≤ a1) (hε0 : 0 ≤ ε0) (hε1 : 0 ≤ ε1)
    (hβ0 : β0 ≤ 1 + 1 / 2 ^ 50) (hβ1 : β1 ≤ 1 + 1 / 2 ^ 50)
    (hdS : |dS - (a0 + a1)| ≤ u * (a0 + a1)) (heS : |eS - (ε0 + ε1)| ≤ u * (ε0 + ε1)) (hlt : eS < dS)
    (hq0 : 0 ≤ q)
    (hq : q ≤ (1 - 1 / 2 ^ 40) * (a0 * ε1 + a1 * ε0) / ((a0 + a1) - (1 - 1 / 2 ^ 40) * (ε0 + ε1)))
    (hbL0 : 0 ≤ bL) (hbn : bn ≤ (1 + 8 * u) * bL + 1 / 2 ^ 530)
    (herr : (1 - 8 * u) * (bL * (a0 * ε1 + a1 * ε0) / (dS - eS) + 2 * u * dS) - 1 / 2 ^ 650 ≤ errf)
    (hacc : errf ≤ 7 * u * (1 + u) * xL)
    (hxL : xL ≤ (1 + 6 * u) * n)
    (hxn : 1 / 2 ^ 512 ≤ n)
    (hm : m ≤ (u + u ^ 2) * (a0 * β1 + a1 * β0) + u * xt + 1 / 2 ^ 1000)
    (hxt1 : xt ≤ a0 * β1 + a1 * β0) (hxt2 : xt ≤ n + m) (hxt3 : n ≤ xt + m)
    (hnv : nv ≤ (u + 1 / 2 ^ 500) * n) :
    q * bn + m + nv ≤ 8 * u * (n - nv) := by
  have hu' := hu
  subst hu
  obtain ⟨D, hD⟩ : ∃ D, D = a0 + a1 := ⟨_, rfl⟩
  obtain ⟨E, hE⟩ : ∃ E, E = ε0 + ε1 := ⟨_, rfl⟩
  obtain ⟨Nn, hNn⟩ : ∃ Nn, Nn = a0 * ε1 + a1 * ε0 := ⟨_, rfl⟩
  rw [← hD, ← hE, ← hNn] at hq
  rw [← hD] at hdS
  rw [← hE] at heS
  rw [← hNn] at herr
  have hD0 : 0 ≤ D := by rw [hD]; positivity
  have hE0 : 0 ≤ E := by rw [hE]; positivity
  have hNn0 : 0 ≤ Nn := by rw [hNn]; positivity
  have hNnDE : Nn ≤ D * E := by
    rw [hNn, hD, hE]; nlinarith [mul_nonneg ha0 hε0, mul_nonneg ha1 hε1]
  obtain ⟨hdS1, hdS2⟩ := abs_le.mp hdS
  obtain ⟨heS1, heS2⟩ := abs_le.mp heS
  obtain ⟨Den, hDen⟩ : ∃ Den, Den = D - (1 - 1 / 2 ^ 40) * E := ⟨_, rfl⟩
  rw [← hDen] at hq
  have hDenE : 1 / 2 ^ 41 * E ≤ Den := by rw [hDen]; linarith
  have hDenpos : 0 < Den := by rw [hDen]; linarith
  have hSpos : 0 < dS - eS := by linarith
  have hS : dS - eS ≤ (1 + 5 * (1 / 2 ^ 53)) * Den := by rw [hDen]; linarith
  -- the quotients
  obtain ⟨q1, hq1⟩ : ∃ q1, q1 = Nn / Den := ⟨_, rfl⟩
  obtain ⟨qc, hqc⟩ : ∃ qc, qc = Nn / (dS - eS) := ⟨_, rfl⟩
  have hqc0 : 0 ≤ qc := by rw [hqc]; exact div_nonneg hNn0 hSpos.le
  have hq1c : q1 ≤ (1 + 5 * (1 / 2 ^ 53)) * qc := by
    rw [hq1, div_le_iff₀ hDenpos]
    have e : Nn = qc * (dS - eS) := by rw [hqc]; field_simp
    have := mul_le_mul_of_nonneg_left hS hqc0
    linarith
  have hq1D : q1 ≤ 2 ^ 41 * D := by
    rw [hq1, div_le_iff₀ hDenpos]
    have := mul_le_mul_of_nonneg_left hDenE hD0
    linarith
  have hq1' : q ≤ (1 - 1 / 2 ^ 40) * q1 := by rw [hq1, ← mul_div_assoc]; exact hq
  have hq1_0 : 0 ≤ q1 := by rw [hq1]; exact div_nonneg hNn0 hDenpos.le
  have hqD : q ≤ 2 ^ 41 * D := by linarith
  obtain ⟨T, hT⟩ : ∃ T, T = bL * qc := ⟨_, rfl⟩
  have hT0 : 0 ≤ T := by rw [hT]; positivity
  rw [mul_div_assoc, ← hqc, ← hT] at herr
  have hqbL : q * bL ≤ (1 - 1 / 2 ^ 40) * ((1 + 5 * (1 / 2 ^ 53)) * T) := by
    have h1 := mul_le_mul_of_nonneg_right hq1' hbL0
    have h2 := mul_le_mul_of_nonneg_right hq1c hbL0
    rw [hT]
    linarith
  have hQB : q * bn ≤ (1 + 8 * (1 / 2 ^ 53)) * ((1 - 1 / 2 ^ 40) * ((1 + 5 * (1 / 2 ^ 53)) * T))
      + 2 ^ 41 * D * (1 / 2 ^ 530) := by
    have h1 := mul_le_mul_of_nonneg_left hbn hq0
    have h2 : q * (1 / 2 ^ 530) ≤ 2 ^ 41 * D * (1 / 2 ^ 530) :=
      mul_le_mul_of_nonneg_right hqD (by positivity)
    have h3 : q * ((1 + 8 * (1 / 2 ^ 53)) * bL + 1 / 2 ^ 530)
        = (1 + 8 * (1 / 2 ^ 53)) * (q * bL) + q * (1 / 2 ^ 530) := by ring
    have h4 := mul_le_mul_of_nonneg_left hqbL (by positivity : (0 : ℝ) ≤ 1 + 8 * (1 / 2 ^ 53))
    linarith
  obtain ⟨S, hS'⟩ : ∃ S, S = a0 * β1 + a1 * β0 := ⟨_, rfl⟩
  rw [← hS'] at hm hxt1
  have hSD : S ≤ (1 + 1 / 2 ^ 50) * D := by
    rw [hS', hD]
    have h1 := mul_le_mul_of_nonneg_left hβ1 ha0
    have h2 := mul_le_mul_of_nonneg_left hβ0 ha1
    linarith
  exact stable_final_linear rfl hT0 hD0 hQB herr hacc hxL (by linarith) hm hSD hxt1 hxt2 hxt3 hnv hxn

/-- the algebraic identity behind the stable path:
    `x + ν = k·(P0·B1 − P1·B0) + ( −h·(B1 − B0) + (x − (d0·B1 − d1·B0)) + ν )`
    with `k = (d0 − d1)/(P0 − P1)` and `h = (d0·(P1 − d1) − d1·(P0 − d0))/(P0 − P1)` -/
theorem stable_decomp {B0 B1 x ν : R3} {P0 P1 d0 d1 : ℝ} (hne : P0 - P1 ≠ 0) :
    R3.add x ν = R3.add (R3.smul ((d0 - d1) / (P0 - P1)) (R3.sub (R3.smul P0 B1) (R3.smul P1 B0)))
      (R3.add (R3.add (R3.smul (-((d0 * (P1 - d1) - d1 * (P0 - d0)) / (P0 - P1))) (R3.sub B1 B0))
        (R3.sub x (R3.sub (R3.smul d0 B1) (R3.smul d1 B0)))) ν) := by
  apply R3.ext' <;> simp only [R3.add, R3.sub, R3.smul] <;> field_simp <;> ring

theorem stable_core {B0 B1 x ν : R3} {P0 P1 d0 d1 ε0 ε1 dS eS bL errf xL : ℝ}
    (hB0 : B0.norm ≤ 1 + 1 / 2 ^ 50) (hB1 : B1.norm ≤ 1 + 1 / 2 ^ 50)
    (hε0 : 0 ≤ ε0) (hε1 : 0 ≤ ε1)
    (hP0 : |d0 - P0| ≤ (1 - 1 / 2 ^ 40) * ε0) (hP1 : |d1 - P1| ≤ (1 - 1 / 2 ^ 40) * ε1)
    (hopp : d0 * d1 ≤ 0)
    (hdS : |dS - (|d0 - d1|)| ≤ uR * |d0 - d1|)
    (heS : |eS - (ε0 + ε1)| ≤ uR * (ε0 + ε1))
    (hlt : eS < dS)
    (hx : (R3.sub x (R3.sub (R3.smul d0 B1) (R3.smul d1 B0))).norm
            ≤ (uR + uR ^ 2) * (|d0| * B1.norm + |d1| * B0.norm)
              + uR * (R3.sub (R3.smul d0 B1) (R3.smul d1 B0)).norm + 1 / 2 ^ 1000)
    (hbL0 : 0 ≤ bL) (hbL : (R3.sub B1 B0).norm ≤ (1 + 8 * uR) * bL + 1 / 2 ^ 530)
    (herr : (1 - 8 * uR) * (bL * (|d0| * ε1 + |d1| * ε0) / (dS - eS) + 2 * uR * dS) - 1 / 2 ^ 650 ≤ errf)
    (hacc : errf ≤ 7 * uR * (1 + uR) * xL)
    (hxL : xL ≤ (1 + 6 * uR) * x.norm)
    (hxn : 1 / 2 ^ 512 ≤ x.norm)
    (hν : ν.norm ≤ (uR + 1 / 2 ^ 500) * x.norm) :
    R3.SinLe (R3.add x ν) (R3.sub (R3.smul P0 B1) (R3.smul P1 B0)) (8 * uR) := by
  have hu : uR = 1 / 2 ^ 53 := rfl
  have hD : |d0 - d1| = |d0| + |d1| := abs_sub_of_mul_nonpos hopp
  rw [hD] at hdS
  -- the denominator `P0 − P1`
  have hσ : (0 : ℝ) ≤ 1 - 1 / 2 ^ 40 := by norm_num
  have hlow : (|d0| + |d1|) - (1 - 1 / 2 ^ 40) * (ε0 + ε1) ≤ |P0 - P1| := by
    have h1 := abs_sub_abs_le_abs_sub (d0 - d1) ((d0 - P0) - (d1 - P1))
    have h2 : (d0 - d1) - ((d0 - P0) - (d1 - P1)) = P0 - P1 := by ring
    have h3 := abs_sub (d0 - P0) (d1 - P1)
    rw [h2, hD] at h1
    linarith
  have hDenpos : 0 < (|d0| + |d1|) - (1 - 1 / 2 ^ 40) * (ε0 + ε1) := by
    obtain ⟨hdS1, hdS2⟩ := abs_le.mp hdS
    obtain ⟨heS1, heS2⟩ := abs_le.mp heS
    have a0 := abs_nonneg d0
    have a1 := abs_nonneg d1
    rw [hu] at hdS1 hdS2 heS1 heS2
    linarith
  have hPpos : 0 < |P0 - P1| := lt_of_lt_of_le hDenpos hlow
  have hne : P0 - P1 ≠ 0 := abs_pos.mp hPpos
  -- the coefficient `h`
  have hq : |(d0 * (P1 - d1) - d1 * (P0 - d0)) / (P0 - P1)|
      ≤ (1 - 1 / 2 ^ 40) * (|d0| * ε1 + |d1| * ε0)
        / ((|d0| + |d1|) - (1 - 1 / 2 ^ 40) * (ε0 + ε1)) := by
    rw [abs_div]
    have hnum : |d0 * (P1 - d1) - d1 * (P0 - d0)| ≤ (1 - 1 / 2 ^ 40) * (|d0| * ε1 + |d1| * ε0) := by
      have h1 := abs_sub (d0 * (P1 - d1)) (d1 * (P0 - d0))
      rw [abs_mul, abs_mul, abs_sub_comm P1 d1, abs_sub_comm P0 d0] at h1
      have h2 := mul_le_mul_of_nonneg_left hP1 (abs_nonneg d0)
      have h3 := mul_le_mul_of_nonneg_left hP0 (abs_nonneg d1)
      linarith
    exact div_le_div₀ (by positivity) hnum hDenpos hlow
  -- norms
  have hxt1 : (R3.sub (R3.smul d0 B1) (R3.smul d1 B0)).norm ≤ |d0| * B1.norm + |d1| * B0.norm := by
    have := R3.norm_sub_le (R3.smul d0 B1) (R3.smul d1 B0)
    rwa [R3.norm_smul, R3.norm_smul] at this
  have hxt2 : (R3.sub (R3.smul d0 B1) (R3.smul d1 B0)).norm
      ≤ x.norm + (R3.sub x (R3.sub (R3.smul d0 B1) (R3.smul d1 B0))).norm := by
    have := R3.norm_le_add_sub (R3.sub (R3.smul d0 B1) (R3.smul d1 B0)) x
    rwa [R3.norm_sub_comm _ x] at this
  have hxt3 := R3.norm_le_add_sub x (R3.sub (R3.smul d0 B1) (R3.smul d1 B0))
  have key := stable_scalar hu (abs_nonneg d0) (abs_nonneg d1) hε0 hε1 hB0 hB1 hdS heS hlt
    (abs_nonneg _) hq hbL0 hbL herr hacc hxL hxn hx hxt1 hxt2 hxt3 hν
  -- assemble
  refine R3.sinLe_of_decomp (stable_decomp (d0 := d0) (d1 := d1) hne) (by rw [hu]; positivity) ?_
  have hW := R3.norm_ge_sub x ν
  have hΔ1 := R3.norm_add_le (R3.add (R3.smul (-((d0 * (P1 - d1) - d1 * (P0 - d0)) / (P0 - P1))) (R3.sub B1 B0))
        (R3.sub x (R3.sub (R3.smul d0 B1) (R3.smul d1 B0)))) ν
  have hΔ2 := R3.norm_add_le (R3.smul (-((d0 * (P1 - d1) - d1 * (P0 - d0)) / (P0 - P1))) (R3.sub B1 B0))
        (R3.sub x (R3.sub (R3.smul d0 B1) (R3.smul d1 B0)))
  rw [R3.norm_smul, abs_neg] at hΔ2
  have h8 : (0 : ℝ) ≤ 8 * uR := by rw [hu]; positivity
  have := mul_le_mul_of_nonneg_left hW h8
  linarith

/-- non-degeneracy of the un-normalised result -/
theorem stable_core_nondeg {x ν : R3}
    (hxn : 1 / 2 ^ 512 ≤ x.norm)
    (hν : ν.norm ≤ (uR + 1 / 2 ^ 500) * x.norm) :
    0 < (R3.add x ν).norm := by
  have hu : uR = 1 / 2 ^ 53 := rfl
  have hW := R3.norm_ge_sub x ν
  have hpos : (0 : ℝ) < 1 / 2 ^ 512 := by positivity
  have h1 : (uR + 1 / 2 ^ 500) * x.norm ≤ 1 / 2 * x.norm := by
    apply mul_le_mul_of_nonneg_right _ x.norm_nonneg
    rw [hu]
    have := one_div_two_pow_le (a := 53) (b := 500) (by norm_num)
    have h53 : (1 : ℝ) / 2 ^ 53 ≤ 1 / 4 := by norm_num
    linarith
  linarith

end S2Proofs.C16Acc
