/-
  C16Acc.ProjGlue — float glue for `projection` and the edge normal of `intersectionStableSorted`
  (`/repo/s2/edge_crossings.go`, model `S2.EdgeNum.projection`, `S2.EdgeNum.stableParts`):

    * `normal_facts`      n = fl((a0−a1) × (a0+a1)), L = fl(|n|): finiteness, magnitudes, norm-wise rounding errors;
    * `projection_facts`  d = fl(xk·n), dist = fl(|xk|), ε = the computed error bound: finiteness, magnitudes, the
                          dot-product error, and the LOWER bound of the computed ε in terms of the exact expression.

  The statements are the hypotheses of the real-analysis core `proj_core` (C16Acc.ProjCore).
-/
import S2Proofs.C16Acc.ProjCore
import S2Proofs.C16Kernel
import S2Proofs.FloatErr.Stable
import S2Proofs.FloatErr.Sqrt
import S2Proofs.FloatErr.DotProd
import S2Proofs.FloatErr2.Normal
import S2Proofs.F64Round

set_option linter.unusedVariables false

namespace S2Proofs.C16Acc
open S2 S2.Exact S2.EdgeNum S2Proofs.F64Order S2Proofs.FloatErr

/- the helper lemmas live in the namespace `ProjGlue` (no clashes with the other glue files of the package) -/
namespace ProjGlue

/-! ### rounding keeps the sign (monotonicity of rounding) -/

theorem valQ_nonneg_iff (x : F64) : 0 ≤ F64Round.val x ↔ 0 ≤ val x := by
  rw [FE2.val_cast]
  exact (Rat.cast_nonneg (K := ℝ)).symm

theorem round_nonneg {r : F64} {Q : ℚ} (h : F64Round.IsRound r Q) (hf : Fin r) (hQ : 0 ≤ Q) : 0 ≤ val r := by
  have hz : Fin (F64.zero false) ∧ toInt (F64.zero false) = 0 := by decide
  have h0 : F64Round.IsRound (F64.zero false) (F64Round.val (F64.zero false)) := F64Round.isRound_self hz.1
  have v0 : F64Round.val (F64.zero false) = 0 := by unfold F64Round.val; rw [hz.2]; simp
  rw [v0] at h0
  have hle := F64Round.IsRound.mono h0 h hQ
  have := (F64Round.val_le_iff hz.1 hf).mp hle
  rw [v0] at this
  exact (valQ_nonneg_iff r).mp this

theorem mul_nonneg_f {x y : F64} (hx : Fin x) (hy : Fin y) (hf : Fin (x * y)) (h : 0 ≤ val x * val y) :
    0 ≤ val (x * y) := by
  apply round_nonneg (F64Round.isRound_mul hx hy) hf
  have : ((F64Round.val x * F64Round.val y : ℚ) : ℝ) = val x * val y := by
    push_cast; rw [← FE2.val_cast, ← FE2.val_cast]
  have h2 : (0 : ℝ) ≤ ((F64Round.val x * F64Round.val y : ℚ) : ℝ) := by rw [this]; exact h
  exact_mod_cast h2

theorem add_nonneg_f {x y : F64} (hx : Fin x) (hy : Fin y) (hf : Fin (x + y)) (h : 0 ≤ val x + val y) :
    0 ≤ val (x + y) := by
  apply round_nonneg (F64Round.isRound_add hx hy) hf
  have : ((F64Round.val x + F64Round.val y : ℚ) : ℝ) = val x + val y := by
    push_cast; rw [← FE2.val_cast, ← FE2.val_cast]
  have h2 : (0 : ℝ) ≤ ((F64Round.val x + F64Round.val y : ℚ) : ℝ) := by rw [this]; exact h
  exact_mod_cast h2

/-! ### the square root: finite, non-negative, bounded above, and the lower bound of `FloatErr.sqrt_lower` -/

theorem isZero_of_val_eq_zero {x : F64} (h : val x = 0) : x.isZero = true := by
  cases hz : x.isZero
  · exfalso
    have hm := mant_pos hz
    rw [val_mant] at h
    have h1 : (0 : ℝ) < (x.mant : ℝ) := by exact_mod_cast hm
    have h2 := tw_pos x.expo
    have h3 : sg x.signBit ≠ 0 := by unfold sg; split <;> norm_num
    have := mul_ne_zero (mul_ne_zero h3 h1.ne') h2.ne'
    exact this h
  · rfl

theorem sixteen_facts : Fin f16 ∧ val f16 = 16 := by
  have h : Fin f16 ∧ toInt f16 = 16 * 2 ^ 1074 := by decide +kernel
  refine ⟨h.1, ?_⟩
  unfold val; rw [h.2]; push_cast; field_simp

theorem sqrt_facts (x : F64) (hx : Fin x) (h0 : 0 ≤ val x) (hB : val x ≤ 256) :
    Fin (F64.sqrt x) ∧ 0 ≤ val (F64.sqrt x) ∧ val (F64.sqrt x) ≤ 16 ∧
      val x * ((1 - 1 / 2 ^ 58) * (1 - uR) ^ 2) ≤ val (F64.sqrt x) ^ 2 := by
  rcases h0.lt_or_eq with hpos | hzero
  · obtain ⟨f, n, _, lo⟩ := sqrt_lower x hx hpos
    refine ⟨f, n, ?_, lo⟩
    -- the upper bound, from the nearest-float property against the float 16
    have hz : x.isZero = false := by
      cases h : x.isZero
      · rfl
      · rw [val_of_isZero h] at hpos; exact absurd hpos (lt_irrefl _)
    have hsb : x.signBit = false := by
      cases h : x.signBit
      · rfl
      · rw [val_mant, h] at hpos
        have : (0 : ℝ) ≤ (x.mant : ℝ) * tw x.expo := mul_nonneg (by positivity) (tw_pos _).le
        unfold sg at hpos
        simp only [if_true] at hpos
        linarith
    obtain ⟨_, _, hall⟩ := F64Round.sqrt_spec hx hsb hz
    obtain ⟨f16f, v16⟩ := sixteen_facts
    have v16Q : F64Round.val f16 = 16 := by
      have : ((F64Round.val f16 : ℚ) : ℝ) = ((16 : ℚ) : ℝ) := by rw [← FE2.val_cast, v16]; norm_num
      exact_mod_cast this
    by_contra hc
    have hc := not_le.mp hc
    have hcQ : F64Round.val f16 < F64Round.val (F64.sqrt x) := by
      rw [v16Q]
      have : ((16 : ℚ) : ℝ) < ((F64Round.val (F64.sqrt x) : ℚ) : ℝ) := by rw [← FE2.val_cast]; norm_num; exact hc
      exact_mod_cast this
    have h1 := (hall f16 (by rw [v16Q]; norm_num)).1 hcQ
    rw [v16Q] at h1 hcQ
    have hBQ : F64Round.val x ≤ 256 := by
      have : ((F64Round.val x : ℚ) : ℝ) ≤ ((256 : ℚ) : ℝ) := by rw [← FE2.val_cast]; norm_num; exact hB
      exact_mod_cast this
    nlinarith
  · have hz := isZero_of_val_eq_zero hzero.symm
    have hs : F64.sqrt x = x := by
      unfold F64.sqrt
      simp [isNaN_false hx, hz]
    rw [hs, ← hzero]
    refine ⟨hx, le_rfl, by norm_num, by norm_num⟩

/-! ### the constants of `projection` -/

theorem projC1_facts : Fin projC1 ∧ 69641 / 10000 ≤ val projC1 ∧ val projC1 ≤ 7 := by
  have h : Fin projC1 ∧ (69641 : ℤ) * 2 ^ 1074 ≤ toInt projC1 * 10000 ∧ toInt projC1 ≤ 7 * 2 ^ 1074 := by
    decide +kernel
  obtain ⟨h1, h2, h3⟩ := h
  have h2' : (69641 : ℝ) * 2 ^ 1074 ≤ (toInt projC1 : ℝ) * 10000 := by exact_mod_cast h2
  have h3' : (toInt projC1 : ℝ) ≤ 7 * 2 ^ 1074 := by exact_mod_cast h3
  refine ⟨h1, ?_, ?_⟩
  · unfold val
    rw [div_le_div_iff₀ (by positivity) (by positivity)]
    linarith
  · unfold val
    rw [div_le_iff₀ (by positivity)]
    exact h3'

theorem projC2_facts : Fin projC2 ∧ 5542 / 100 * uR ≤ val projC2 ∧ val projC2 ≤ 1 / 2 ^ 40 := by
  have h : Fin projC2 ∧ (5542 : ℤ) * 2 ^ 1074 ≤ toInt projC2 * (100 * 2 ^ 53) ∧ toInt projC2 * 2 ^ 40 ≤ 2 ^ 1074 := by
    decide +kernel
  obtain ⟨h1, h2, h3⟩ := h
  have h2' : (5542 : ℝ) * 2 ^ 1074 ≤ (toInt projC2 : ℝ) * (100 * 2 ^ 53) := by exact_mod_cast h2
  have h3' : (toInt projC2 : ℝ) * 2 ^ 40 ≤ 2 ^ 1074 := by exact_mod_cast h3
  refine ⟨h1, ?_, ?_⟩
  · unfold val uR
    rw [div_mul_div_comm, div_le_div_iff₀ (by positivity) (by positivity)]
    linarith
  · unfold val
    rw [div_le_div_iff₀ (by positivity) (by positivity)]
    linarith

theorem f1p5_facts : Fin f1p5 ∧ val f1p5 = 3 / 2 := by
  have h : Fin f1p5 ∧ toInt f1p5 * 2 = 3 * 2 ^ 1074 := by decide +kernel
  refine ⟨h.1, ?_⟩
  have h' : (toInt f1p5 : ℝ) * 2 = 3 * 2 ^ 1074 := by exact_mod_cast h.2
  unfold val
  rw [div_eq_div_iff (by positivity) (by norm_num)]
  linarith

theorem tErr_facts : Fin tErr ∧ val tErr = uR := by
  have h : Fin tErr ∧ toInt tErr * 2 ^ 53 = 2 ^ 1074 := by decide +kernel
  refine ⟨h.1, ?_⟩
  have h' : (toInt tErr : ℝ) * 2 ^ 53 = 2 ^ 1074 := by exact_mod_cast h.2
  unfold val uR
  rw [div_eq_div_iff (by positivity) (by positivity)]
  linarith

/-! ### small numeric facts -/

theorem K_eR_le {K : ℝ} (hK : K ≤ 2 ^ 75) : K * eR ≤ 1 / 2 ^ 1000 := by
  unfold eR
  have e : (2 : ℝ) ^ 1075 = 2 ^ 1000 * 2 ^ 75 := by rw [← pow_add]
  rw [e]
  have pA : (0 : ℝ) < 2 ^ 1000 := by positivity
  generalize (2 : ℝ) ^ 1000 = A at pA ⊢
  have pB : (0 : ℝ) < 2 ^ 75 := by positivity
  generalize (2 : ℝ) ^ 75 = B at pB hK ⊢
  rw [mul_one_div, div_le_div_iff₀ (by positivity) pA]
  nlinarith

theorem eight_eR_le : 8 * eR ≤ (1 / 2 ^ 530) ^ 2 := by
  unfold eR
  have e : (2 : ℝ) ^ 1075 = (2 ^ 530) ^ 2 * 2 ^ 15 := by rw [← pow_mul, ← pow_add]
  rw [e]
  have pA : (0 : ℝ) < 2 ^ 530 := by positivity
  generalize (2 : ℝ) ^ 530 = A at pA ⊢
  rw [div_pow, one_pow, mul_one_div, div_le_div_iff₀ (by positivity) (by positivity)]
  nlinarith [sq_nonneg A]

/-! ### coordinates and norms of nearly unit vectors -/

theorem ofV_norm2 (v : V3) : (ofV v).norm2 = val v.x ^ 2 + val v.y ^ 2 + val v.z ^ 2 := rfl

theorem coord_le_two {a : V3} (na : (ofV a).norm2 ≤ 1 + 1 / 2 ^ 49) :
    |val a.x| ≤ 2 ∧ |val a.y| ≤ 2 ∧ |val a.z| ≤ 2 := by
  rw [ofV_norm2] at na
  have ht : (1 : ℝ) + 1 / 2 ^ 49 ≤ 4 := by norm_num
  refine ⟨abs_le_of_sq_sum_le na ht, ?_, ?_⟩
  · have : val a.y ^ 2 + val a.x ^ 2 + val a.z ^ 2 ≤ 1 + 1 / 2 ^ 49 := by linarith
    exact abs_le_of_sq_sum_le this ht
  · have : val a.z ^ 2 + val a.x ^ 2 + val a.y ^ 2 ≤ 1 + 1 / 2 ^ 49 := by linarith
    exact abs_le_of_sq_sum_le this ht

theorem norm_le_near {a : V3} (na : (ofV a).norm2 ≤ 1 + 1 / 2 ^ 49) : (ofV a).norm ≤ 1 + 1 / 2 ^ 49 :=
  R3.norm_le_of_sq (by norm_num) (le_trans na (by norm_num))

/-! ### vector steps -/

theorem vsub_facts (x a : V3) (hx : Fin3 x) (ha : Fin3 a)
    (mx : |val x.x| ≤ 2 ∧ |val x.y| ≤ 2 ∧ |val x.z| ≤ 2) (ma : |val a.x| ≤ 2 ∧ |val a.y| ≤ 2 ∧ |val a.z| ≤ 2) :
    Fin3 (x.sub a) ∧ (|val (x.sub a).x| ≤ 5 ∧ |val (x.sub a).y| ≤ 5 ∧ |val (x.sub a).z| ≤ 5) ∧
    (R3.sub (ofV (x.sub a)) (R3.sub (ofV x) (ofV a))).norm ≤ uR * (R3.sub (ofV x) (ofV a)).norm := by
  obtain ⟨f1, r1, b1⟩ := sub_step5 stdModel hx.1 ha.1 mx.1 ma.1
  obtain ⟨f2, r2, b2⟩ := sub_step5 stdModel hx.2.1 ha.2.1 mx.2.1 ma.2.1
  obtain ⟨f3, r3, b3⟩ := sub_step5 stdModel hx.2.2 ha.2.2 mx.2.2 ma.2.2
  refine ⟨⟨f1, f2, f3⟩, ⟨b1, b2, b3⟩, ?_⟩
  unfold Rnd at r1 r2 r3
  rw [add_zero] at r1 r2 r3
  exact norm_comp_rel uR_nonneg r1 r2 r3

theorem vadd_facts (x a : V3) (hx : Fin3 x) (ha : Fin3 a)
    (mx : |val x.x| ≤ 2 ∧ |val x.y| ≤ 2 ∧ |val x.z| ≤ 2) (ma : |val a.x| ≤ 2 ∧ |val a.y| ≤ 2 ∧ |val a.z| ≤ 2) :
    Fin3 (x.add a) ∧ (|val (x.add a).x| ≤ 5 ∧ |val (x.add a).y| ≤ 5 ∧ |val (x.add a).z| ≤ 5) ∧
    (R3.sub (ofV (x.add a)) (R3.add (ofV x) (ofV a))).norm ≤ uR * (R3.add (ofV x) (ofV a)).norm := by
  obtain ⟨f1, r1, b1⟩ := FE2.add_step5 hx.1 ha.1 mx.1 ma.1
  obtain ⟨f2, r2, b2⟩ := FE2.add_step5 hx.2.1 ha.2.1 mx.2.1 ma.2.1
  obtain ⟨f3, r3, b3⟩ := FE2.add_step5 hx.2.2 ha.2.2 mx.2.2 ma.2.2
  refine ⟨⟨f1, f2, f3⟩, ⟨b1, b2, b3⟩, ?_⟩
  unfold Rnd at r1 r2 r3
  rw [add_zero] at r1 r2 r3
  exact norm_comp_rel uR_nonneg r1 r2 r3

theorem vcross_facts (p q : V3) (hp : Fin3 p) (hq : Fin3 q)
    (mp : |val p.x| ≤ 5 ∧ |val p.y| ≤ 5 ∧ |val p.z| ≤ 5) (mq : |val q.x| ≤ 5 ∧ |val q.y| ≤ 5 ∧ |val q.z| ≤ 5) :
    Fin3 (p.cross q) ∧
    (R3.sub (ofV (p.cross q)) (R3.cross (ofV p) (ofV q))).norm
        ≤ (uR + uR ^ 2) * (14143 / 10000) * ((ofV p).norm * (ofV q).norm)
          + uR * (R3.cross (ofV p) (ofV q)).norm + 1 / 2 ^ 1000 := by
  obtain ⟨hp1, hp2, hp3⟩ := hp
  obtain ⟨hq1, hq2, hq3⟩ := hq
  obtain ⟨mp1, mp2, mp3⟩ := mp
  obtain ⟨mq1, mq2, mq3⟩ := mq
  obtain ⟨fx1, _, r23, r32, rx1⟩ := cross_step5 stdModel hp2 hq3 hp3 hq2 mp2 mq3 mp3 mq2
  obtain ⟨fx2, _, r31, r13, rx2⟩ := cross_step5 stdModel hp3 hq1 hp1 hq3 mp3 mq1 mp1 mq3
  obtain ⟨fx3, _, r12, r21, rx3⟩ := cross_step5 stdModel hp1 hq2 hp2 hq1 mp1 mq2 mp2 mq1
  refine ⟨⟨fx1, fx2, fx3⟩, ?_⟩
  have c1 := cross_comp uR_nonneg r23 r32 rx1
  have c2 := cross_comp uR_nonneg r31 r13 rx2
  have c3 := cross_comp uR_nonneg r12 r21 rx3
  have eu : uR * (1 + uR) = uR + uR ^ 2 := by ring
  rw [eu] at c1 c2 c3
  have hc0 : 0 ≤ 2 * (1 + uR) * eR :=
    mul_nonneg (mul_nonneg (by norm_num) (by linarith [uR_nonneg])) eR_nonneg
  have h := cross_round_norm (Dv := ofV p) (Sv := ofV q) (Nv := ofV (p.cross q)) (c := 2 * (1 + uR) * eR) uR_nonneg hc0
    (by simp only [ofV, V3.cross]; linarith) (by simp only [ofV, V3.cross]; linarith)
    (by simp only [ofV, V3.cross]; linarith)
  have hk : 2 * (2 * (1 + uR) * eR) ≤ 1 / 2 ^ 1000 := by
    have := K_eR_le (K := 2 * (2 * (1 + uR))) (by unfold uR; norm_num)
    linarith
  linarith

/-! ### squared norm, square root -/

/-- from the computed `L = fl(√ fl(S))` back to `√S` -/
theorem sqrt_back {S y L : ℝ} (hS : 0 ≤ S) (hL : 0 ≤ L) (h1 : |y - S| ≤ rhoU uR * S + 4 * eR)
    (h2 : y * ((1 - 1 / 2 ^ 58) * (1 - uR) ^ 2) ≤ L ^ 2) :
    Real.sqrt S ≤ (1 + 4 * uR) * L + 1 / 2 ^ 530 := by
  have he := eR_nonneg
  set c : ℝ := (1 - 1 / 2 ^ 58) * (1 - uR) ^ 2 with hc
  have c0 : 0 ≤ c := by rw [hc]; unfold uR; norm_num
  have c1 : c ≤ 1 := by rw [hc]; unfold uR; norm_num
  have hk : 1 ≤ (1 - rhoU uR) * c * (1 + 4 * uR) ^ 2 := by
    rw [hc]; unfold rhoU fU gU uR; norm_num
  have hq : (1 + 4 * uR) ^ 2 ≤ 2 := by unfold uR; norm_num
  have hq0 : 0 ≤ (1 + 4 * uR) ^ 2 := sq_nonneg _
  have hlo : S * (1 - rhoU uR) - 4 * eR ≤ y := by have := (abs_le.mp h1).1; linarith
  have a1 : (S * (1 - rhoU uR) - 4 * eR) * c ≤ y * c := mul_le_mul_of_nonneg_right hlo c0
  have a2 : 4 * eR * c ≤ 4 * eR := by nlinarith
  have a3 : S * (1 - rhoU uR) * c ≤ L ^ 2 + 4 * eR := by nlinarith
  have a4 : S * (1 - rhoU uR) * c * (1 + 4 * uR) ^ 2 ≤ (L ^ 2 + 4 * eR) * (1 + 4 * uR) ^ 2 :=
    mul_le_mul_of_nonneg_right a3 hq0
  have a5 : S * 1 ≤ S * ((1 - rhoU uR) * c * (1 + 4 * uR) ^ 2) := mul_le_mul_of_nonneg_left hk hS
  have a6 : 4 * eR * (1 + 4 * uR) ^ 2 ≤ 4 * eR * 2 := mul_le_mul_of_nonneg_left hq (by linarith)
  have a7 := eight_eR_le
  have hδ : (0 : ℝ) ≤ 1 / 2 ^ 530 := by positivity
  have hL' : 0 ≤ (1 + 4 * uR) * L := mul_nonneg (by linarith [uR_nonneg]) hL
  generalize (1 : ℝ) / 2 ^ 530 = δ at a7 hδ ⊢
  rw [Real.sqrt_le_iff]
  refine ⟨by linarith, ?_⟩
  have a8 : 0 ≤ 2 * ((1 + 4 * uR) * L) * δ := mul_nonneg (mul_nonneg (by norm_num) hL') hδ
  nlinarith

theorem vnorm_facts (v : V3) (hv : Fin3 v) (mv : |val v.x| ≤ 5 ∧ |val v.y| ≤ 5 ∧ |val v.z| ≤ 5) :
    Fin v.norm2 ∧ 0 ≤ val v.norm2 ∧ Fin (F64.sqrt v.norm2) ∧ 0 ≤ val (F64.sqrt v.norm2) ∧
    val (F64.sqrt v.norm2) ≤ 16 ∧
    (ofV v).norm ≤ (1 + 4 * uR) * val (F64.sqrt v.norm2) + 1 / 2 ^ 530 := by
  obtain ⟨fn, herr, S0, S80⟩ := norm2_step stdModel v hv mv
  obtain ⟨h1, h2, h3⟩ := hv
  obtain ⟨m1, m2, m3⟩ := mv
  have p1 : |val v.x * val v.x| ≤ 25 := by have := abs_mul_le_of m1 m1; linarith
  have p2 : |val v.y * val v.y| ≤ 25 := by have := abs_mul_le_of m2 m2; linarith
  have p3 : |val v.z * val v.z| ≤ 25 := by have := abs_mul_le_of m3 m3; linarith
  obtain ⟨fq1, _, gq1⟩ := mul_step stdModel h1 h1 p1 (by norm_num)
  obtain ⟨fq2, _, gq2⟩ := mul_step stdModel h2 h2 p2 (by norm_num)
  obtain ⟨fq3, _, gq3⟩ := mul_step stdModel h3 h3 p3 (by norm_num)
  have n1 := mul_nonneg_f h1 h1 fq1 (mul_self_nonneg _)
  have n2 := mul_nonneg_f h2 h2 fq2 (mul_self_nonneg _)
  have n3 := mul_nonneg_f h3 h3 fq3 (mul_self_nonneg _)
  have ms : |val (v.x * v.x) + val (v.y * v.y)| ≤ 102 := by
    have := abs_add_le (val (v.x * v.x)) (val (v.y * v.y)); linarith
  obtain ⟨fs, _, gs⟩ := add_step stdModel fq1 fq2 ms (by norm_num)
  have ns := add_nonneg_f fq1 fq2 fs (by linarith)
  have nd : 0 ≤ val v.norm2 := add_nonneg_f fs fq3 fn (by linarith)
  have hρ : rhoU uR ≤ 1 / 2 ^ 50 := FE2.rho_le
  have hρ0 := rhoU_nn
  have he : 4 * eR ≤ 1 / 2 ^ 1000 := K_eR_le (by norm_num)
  have hsm : (1 : ℝ) / 2 ^ 1000 ≤ 1 := by
    rw [div_le_one (by positivity)]; exact one_le_pow₀ (by norm_num)
  set S := val v.x * val v.x + val v.y * val v.y + val v.z * val v.z with hS
  have hup : val v.norm2 ≤ 256 := by
    have := (abs_le.mp herr).2
    have h5 : rhoU uR * S ≤ 1 / 2 ^ 50 * 80 := mul_le_mul hρ S80 S0 (by positivity)
    have h6 : (1 : ℝ) / 2 ^ 50 * 80 ≤ 1 := by norm_num
    linarith
  obtain ⟨fr, r0, r16, rlo⟩ := sqrt_facts v.norm2 fn nd hup
  refine ⟨fn, nd, fr, r0, r16, ?_⟩
  have e : (ofV v).norm = Real.sqrt S := by
    unfold R3.norm
    congr 1
    rw [ofV_norm2, hS]; ring
  rw [e]
  exact sqrt_back S0 r0 herr rlo

/-! ### the dot product of vectors with coordinates bounded by 5 -/

theorem dotChain5 (a b : V3) (ha : Fin3 a) (hb : Fin3 b)
    (ma : |val a.x| ≤ 5 ∧ |val a.y| ≤ 5 ∧ |val a.z| ≤ 5)
    (mb : |val b.x| ≤ 5 ∧ |val b.y| ≤ 5 ∧ |val b.z| ≤ 5) :
    Fin (a.dot b) ∧ |val (a.dot b)| ≤ 2 ^ 10 ∧
    |val (a.dot b) - R3.dot (ofV a) (ofV b)|
      ≤ fU uR * |R3.dot (ofV a) (ofV b)| + gU uR * ((ofV a).norm * (ofV b).norm) + 1 / 2 ^ 1000 := by
  obtain ⟨ha1, ha2, ha3⟩ := ha
  obtain ⟨hb1, hb2, hb3⟩ := hb
  obtain ⟨ma1, ma2, ma3⟩ := ma
  obtain ⟨mb1, mb2, mb3⟩ := mb
  have m1 : |val a.x * val b.x| ≤ 25 := by have := abs_mul_le_of ma1 mb1; linarith
  have m2 : |val a.y * val b.y| ≤ 25 := by have := abs_mul_le_of ma2 mb2; linarith
  have m3 : |val a.z * val b.z| ≤ 25 := by have := abs_mul_le_of ma3 mb3; linarith
  obtain ⟨fq1, rq1, gq1⟩ := mul_step stdModel ha1 hb1 m1 (by norm_num)
  obtain ⟨fq2, rq2, gq2⟩ := mul_step stdModel ha2 hb2 m2 (by norm_num)
  obtain ⟨fq3, rq3, gq3⟩ := mul_step stdModel ha3 hb3 m3 (by norm_num)
  have ms : |val (a.x * b.x) + val (a.y * b.y)| ≤ 102 := by
    have := abs_add_le (val (a.x * b.x)) (val (a.y * b.y)); linarith
  obtain ⟨fs, rs, gs⟩ := add_step stdModel fq1 fq2 ms (by norm_num)
  have md : |val (a.x * b.x + a.y * b.y) + val (a.z * b.z)| ≤ 256 := by
    have := abs_add_le (val (a.x * b.x + a.y * b.y)) (val (a.z * b.z)); linarith
  obtain ⟨fd, rd, gd⟩ := add_step stdModel fs fq3 md (by norm_num)
  refine ⟨fd, ?_, ?_⟩
  · show |val (a.x * b.x + a.y * b.y + a.z * b.z)| ≤ 2 ^ 10
    norm_num at gd ⊢
    linarith
  · have h := dot3 uR_nonneg eR_nonneg rq1 rq2 rq3 rs rd
    have hT := abs_dot_abs_le (ofV a) (ofV b)
    have hg := mul_le_mul_of_nonneg_left hT gU_nn
    have hk : hU uR * eR ≤ 1 / 2 ^ 1000 := K_eR_le (by unfold hU uR; norm_num)
    unfold fU gU hU at *
    simp only [R3.dot, ofV] at hT hg ⊢
    show |val (a.x * b.x + a.y * b.y + a.z * b.z) - _| ≤ _
    linarith

/-! ### the edge normal `n = fl((a0−a1) × (a0+a1))` and its length -/

theorem abs_comp_via {v w : R3} {e c : ℝ} (h1 : (R3.sub v w).norm ≤ e) (h2 : w.norm ≤ c) :
    |v.x| ≤ e + c ∧ |v.y| ≤ e + c ∧ |v.z| ≤ e + c := by
  obtain ⟨s1, s2, s3⟩ := R3.abs_comp_le_norm (R3.sub v w)
  obtain ⟨w1, w2, w3⟩ := R3.abs_comp_le_norm w
  have e1 : v.x = (R3.sub v w).x + w.x := by simp [R3.sub]
  have e2 : v.y = (R3.sub v w).y + w.y := by simp [R3.sub]
  have e3 : v.z = (R3.sub v w).z + w.z := by simp [R3.sub]
  refine ⟨?_, ?_, ?_⟩
  · rw [e1]; have := abs_add_le (R3.sub v w).x w.x; linarith
  · rw [e2]; have := abs_add_le (R3.sub v w).y w.y; linarith
  · rw [e3]; have := abs_add_le (R3.sub v w).z w.z; linarith

end ProjGlue
open ProjGlue

theorem normal_facts (a0 a1 : V3) (ha0 : Fin3 a0) (ha1 : Fin3 a1)
    (na0 : (ofV a0).norm2 ≤ 1 + 1 / 2 ^ 49) (na1 : (ofV a1).norm2 ≤ 1 + 1 / 2 ^ 49) :
    let n := (a0.sub a1).cross (a0.add a1)
    Fin3 n ∧ (|val n.x| ≤ 5 ∧ |val n.y| ≤ 5 ∧ |val n.z| ≤ 5) ∧ Fin n.norm ∧ 0 ≤ val n.norm ∧ val n.norm ≤ 2 ^ 515 ∧
    (R3.sub (ofV (a0.sub a1)) (R3.sub (ofV a0) (ofV a1))).norm ≤ uR * (R3.sub (ofV a0) (ofV a1)).norm ∧
    (R3.sub (ofV (a0.add a1)) (R3.add (ofV a0) (ofV a1))).norm ≤ uR * (R3.add (ofV a0) (ofV a1)).norm ∧
    (R3.sub (ofV n) (R3.cross (ofV (a0.sub a1)) (ofV (a0.add a1)))).norm
        ≤ (uR + uR ^ 2) * (14143 / 10000) * ((ofV (a0.sub a1)).norm * (ofV (a0.add a1)).norm)
          + uR * (R3.cross (ofV (a0.sub a1)) (ofV (a0.add a1))).norm + 1 / 2 ^ 1000 ∧
    (ofV n).norm ≤ (1 + 4 * uR) * val n.norm + 1 / 2 ^ 530 := by
  intro n
  have c0 := coord_le_two na0
  have c1 := coord_le_two na1
  obtain ⟨fD, mD, eD⟩ := vsub_facts a0 a1 ha0 ha1 c0 c1
  obtain ⟨fS, mS, eS⟩ := vadd_facts a0 a1 ha0 ha1 c0 c1
  obtain ⟨fN, eN⟩ := vcross_facts (a0.sub a1) (a0.add a1) fD fS mD mS
  -- magnitudes
  have hA0 := norm_le_near na0
  have hA1 := norm_le_near na1
  have hu53 : uR ≤ 1 / 2 ^ 53 := le_of_eq rfl
  have hu0 := uR_nonneg
  have hDv : (ofV (a0.sub a1)).norm ≤ 2001 / 1000 := by
    have h1 := R3.norm_le_add_sub (ofV (a0.sub a1)) (R3.sub (ofV a0) (ofV a1))
    have h2 := R3.norm_sub_le (ofV a0) (ofV a1)
    have h3 : uR * (R3.sub (ofV a0) (ofV a1)).norm ≤ 1 / 2 ^ 53 * (2 + 1 / 2 ^ 48) :=
      mul_le_mul hu53 (by linarith) (R3.norm_nonneg _) (by positivity)
    have h4 : (1 : ℝ) / 2 ^ 53 * (2 + 1 / 2 ^ 48) ≤ 1 / 10000 := by norm_num
    have h5 : (1 : ℝ) / 2 ^ 49 ≤ 1 / 10000 := by norm_num
    linarith
  have hSv : (ofV (a0.add a1)).norm ≤ 2001 / 1000 := by
    have h1 := R3.norm_le_add_sub (ofV (a0.add a1)) (R3.add (ofV a0) (ofV a1))
    have h2 := R3.norm_add_le (ofV a0) (ofV a1)
    have h3 : uR * (R3.add (ofV a0) (ofV a1)).norm ≤ 1 / 2 ^ 53 * (2 + 1 / 2 ^ 48) :=
      mul_le_mul hu53 (by linarith) (R3.norm_nonneg _) (by positivity)
    have h4 : (1 : ℝ) / 2 ^ 53 * (2 + 1 / 2 ^ 48) ≤ 1 / 10000 := by norm_num
    have h5 : (1 : ℝ) / 2 ^ 49 ≤ 1 / 10000 := by norm_num
    linarith
  have hP0 : 0 ≤ (ofV (a0.sub a1)).norm * (ofV (a0.add a1)).norm :=
    mul_nonneg (R3.norm_nonneg _) (R3.norm_nonneg _)
  have hP : (ofV (a0.sub a1)).norm * (ofV (a0.add a1)).norm ≤ 401 / 100 := by
    have := mul_le_mul hDv hSv (R3.norm_nonneg _) (by norm_num)
    norm_num at this ⊢
    linarith
  have hC := R3.norm_cross_le (ofV (a0.sub a1)) (ofV (a0.add a1))
  have hC0 := R3.norm_nonneg (R3.cross (ofV (a0.sub a1)) (ofV (a0.add a1)))
  have hα : (uR + uR ^ 2) * (14143 / 10000) ≤ 1 / 2 ^ 51 := by unfold uR; norm_num
  have hα0 : 0 ≤ (uR + uR ^ 2) * (14143 / 10000) := by
    have : 0 ≤ uR ^ 2 := sq_nonneg _
    exact mul_nonneg (by linarith) (by norm_num)
  have t1 : (uR + uR ^ 2) * (14143 / 10000) * ((ofV (a0.sub a1)).norm * (ofV (a0.add a1)).norm)
      ≤ 1 / 2 ^ 51 * (401 / 100) := mul_le_mul hα hP hP0 (by positivity)
  have t2 : uR * (R3.cross (ofV (a0.sub a1)) (ofV (a0.add a1))).norm ≤ 1 / 2 ^ 53 * (401 / 100) :=
    mul_le_mul hu53 (by linarith) hC0 (by positivity)
  have t3 : (1 : ℝ) / 2 ^ 51 * (401 / 100) + 1 / 2 ^ 53 * (401 / 100) ≤ 1 / 100 := by norm_num
  have hsm : (1 : ℝ) / 2 ^ 1000 ≤ 1 / 2 := by
    apply one_div_le_one_div_of_le (by norm_num)
    calc (2 : ℝ) = 2 ^ 1 := by norm_num
      _ ≤ 2 ^ 1000 := pow_le_pow_right₀ (by norm_num) (by norm_num)
  have hErr : (R3.sub (ofV n) (R3.cross (ofV (a0.sub a1)) (ofV (a0.add a1)))).norm ≤ 51 / 100 := by
    generalize (1 : ℝ) / 2 ^ 1000 = τ at eN hsm
    linarith
  obtain ⟨b1, b2, b3⟩ := abs_comp_via hErr (le_trans hC hP)
  have mN : |val n.x| ≤ 5 ∧ |val n.y| ≤ 5 ∧ |val n.z| ≤ 5 :=
    ⟨by have : |val n.x| ≤ 51 / 100 + 401 / 100 := b1
        linarith,
     by have : |val n.y| ≤ 51 / 100 + 401 / 100 := b2
        linarith,
     by have : |val n.z| ≤ 51 / 100 + 401 / 100 := b3
        linarith⟩
  obtain ⟨fn2, _, fr, r0, r16, rN⟩ := vnorm_facts n fN mN
  have h515 : (16 : ℝ) ≤ 2 ^ 515 := by
    calc (16 : ℝ) = 2 ^ 4 := by norm_num
      _ ≤ 2 ^ 515 := pow_le_pow_right₀ (by norm_num) (by norm_num)
  exact ⟨fN, mN, fr, r0, le_trans r16 h515, eD, eS, eN, rN⟩

namespace ProjGlue

/-! ### the computed error bound `ε = fl(fl(fl(fl(fl(c1·L) + c2)·dist) + fl(1.5·|d|))·2^-53)` : lower bound -/

theorem rnd_lower {u e x y : ℝ} (h : Rnd u e x y) (hx : 0 ≤ x) : (1 - u) * x - e ≤ y := by
  unfold Rnd at h
  rw [abs_of_nonneg hx] at h
  have := (abs_le.mp h).1
  linarith

theorem bound_lower {u e c1 c2 Lv Dv A m1 s1 m2 m3 s2 ε : ℝ} (hu0 : 0 ≤ u) (hu : u ≤ 1 / 8) (he : 0 ≤ e)
    (hc1 : 0 ≤ c1) (hc2 : 0 ≤ c2) (hL : 0 ≤ Lv) (hD : 0 ≤ Dv) (hD16 : Dv ≤ 16) (hA : 0 ≤ A)
    (r1 : Rnd u e (c1 * Lv) m1) (r2 : Rnd u 0 (m1 + c2) s1) (r3 : Rnd u e (s1 * Dv) m2)
    (r4 : Rnd u e (3 / 2 * A) m3) (r5 : Rnd u 0 (m2 + m3) s2) (r6 : Rnd u e (s2 * u) ε)
    (n1 : 0 ≤ m1) (n2 : 0 ≤ s1) (n3 : 0 ≤ m2) (n4 : 0 ≤ m3) (n5 : 0 ≤ s2) :
    (1 - 8 * u) * (((c1 * Lv + c2) * Dv + 3 / 2 * A) * u) - 19 * e ≤ ε := by
  set w := 1 - u with hw
  have w0 : 0 ≤ w := by rw [hw]; linarith
  have w1 : w ≤ 1 := by rw [hw]; linarith
  have P0 : 0 ≤ c1 * Lv := mul_nonneg hc1 hL
  have we : w * e ≤ e := by nlinarith
  -- step 1
  have l1 : w * (c1 * Lv) - e ≤ m1 := rnd_lower r1 P0
  -- step 2
  have l2a : w * (m1 + c2) ≤ s1 := by have := rnd_lower r2 (by linarith); linarith
  have l2 : w ^ 2 * (c1 * Lv + c2) - e ≤ s1 := by
    have h1 : w * (w * (c1 * Lv) - e + c2) ≤ w * (m1 + c2) := mul_le_mul_of_nonneg_left (by linarith) w0
    have h2 : w * (w * c2) ≤ w * c2 := mul_le_mul_of_nonneg_left (by nlinarith) w0
    nlinarith
  -- step 3
  have Q0 : 0 ≤ (c1 * Lv + c2) * Dv := mul_nonneg (by linarith) hD
  have l3a : w * (s1 * Dv) - e ≤ m2 := rnd_lower r3 (mul_nonneg n2 hD)
  have l3 : w ^ 3 * ((c1 * Lv + c2) * Dv) - 17 * e ≤ m2 := by
    have h1 : (w ^ 2 * (c1 * Lv + c2) - e) * Dv ≤ s1 * Dv := mul_le_mul_of_nonneg_right l2 hD
    have h2 : w * ((w ^ 2 * (c1 * Lv + c2) - e) * Dv) ≤ w * (s1 * Dv) := mul_le_mul_of_nonneg_left h1 w0
    have h3 : w * (e * Dv) ≤ 1 * (e * 16) :=
      mul_le_mul w1 (mul_le_mul_of_nonneg_left hD16 he) (mul_nonneg he hD) (by norm_num)
    nlinarith
  -- step 4
  have T0 : 0 ≤ 3 / 2 * A := by linarith
  have l4 : w * (3 / 2 * A) - e ≤ m3 := rnd_lower r4 T0
  -- step 5
  have l5a : w * (m2 + m3) ≤ s2 := by have := rnd_lower r5 (by linarith); linarith
  have l5 : w ^ 4 * ((c1 * Lv + c2) * Dv + 3 / 2 * A) - 18 * e ≤ s2 := by
    have h1 : w * (w ^ 3 * ((c1 * Lv + c2) * Dv) - 17 * e + (w * (3 / 2 * A) - e)) ≤ w * (m2 + m3) :=
      mul_le_mul_of_nonneg_left (by linarith) w0
    have h2 : w ^ 4 ≤ w ^ 2 := pow_le_pow_of_le_one w0 w1 (by norm_num)
    have h3 : w ^ 4 * (3 / 2 * A) ≤ w ^ 2 * (3 / 2 * A) := mul_le_mul_of_nonneg_right h2 T0
    nlinarith
  -- step 6
  have X0 : 0 ≤ (c1 * Lv + c2) * Dv + 3 / 2 * A := by linarith
  have l6a : w * (s2 * u) - e ≤ ε := rnd_lower r6 (mul_nonneg n5 hu0)
  have l6 : w ^ 5 * (((c1 * Lv + c2) * Dv + 3 / 2 * A) * u) - 19 * e ≤ ε := by
    have h1 : (w ^ 4 * ((c1 * Lv + c2) * Dv + 3 / 2 * A) - 18 * e) * u ≤ s2 * u :=
      mul_le_mul_of_nonneg_right l5 hu0
    have h2 := mul_le_mul_of_nonneg_left h1 w0
    have h3 : w * (e * u) ≤ 1 * (e * 1) :=
      mul_le_mul w1 (mul_le_mul_of_nonneg_left (by linarith) he) (mul_nonneg he hu0) (by norm_num)
    nlinarith
  have hb : 1 - 8 * u ≤ w ^ 5 := by
    have := one_add_mul_le_pow (show (-2 : ℝ) ≤ -u by linarith) 5
    have e : (1 : ℝ) + -u = w := by rw [hw]; ring
    rw [e] at this
    push_cast at this
    linarith
  have hXu : 0 ≤ ((c1 * Lv + c2) * Dv + 3 / 2 * A) * u := mul_nonneg X0 hu0
  have := mul_le_mul_of_nonneg_right hb hXu
  linarith

theorem val_abs' (d : F64) (hd : Fin d) : Fin d.abs ∧ val d.abs = |val d| := by
  obtain ⟨f, h⟩ := abs_spec d hd
  refine ⟨f, ?_⟩
  unfold val
  rw [h, abs_div, abs_of_pos (by positivity : (0 : ℝ) < 2 ^ 1074)]
  push_cast
  rfl

theorem bound_facts (L dist d : F64) (hL : Fin L) (L0 : 0 ≤ val L) (L16 : val L ≤ 16)
    (hD : Fin dist) (D0 : 0 ≤ val dist) (D16 : val dist ≤ 16) (hd : Fin d) (dB : |val d| ≤ 2 ^ 10) :
    Fin (((projC1 * L + projC2) * dist + f1p5 * d.abs) * tErr) ∧
    0 ≤ val (((projC1 * L + projC2) * dist + f1p5 * d.abs) * tErr) ∧
    val (((projC1 * L + projC2) * dist + f1p5 * d.abs) * tErr) ≤ 2 ^ 10 ∧
    (1 - 8 * uR) * (((val projC1 * val L + val projC2) * val dist + 3 / 2 * |val d|) * uR) - 1 / 2 ^ 1000
      ≤ val (((projC1 * L + projC2) * dist + f1p5 * d.abs) * tErr) := by
  obtain ⟨fc1, c1lo, c1hi⟩ := projC1_facts
  obtain ⟨fc2, c2lo, c2hi⟩ := projC2_facts
  obtain ⟨f15, v15⟩ := f1p5_facts
  obtain ⟨fte, vte⟩ := tErr_facts
  obtain ⟨fa, va⟩ := val_abs' d hd
  have hu0 := uR_nonneg
  have c10 : 0 ≤ val projC1 := by linarith
  have c20 : 0 ≤ val projC2 := by have := mul_nonneg (by norm_num : (0 : ℝ) ≤ 5542 / 100) hu0; linarith
  have c21 : val projC2 ≤ 1 := le_trans c2hi (by norm_num)
  -- m1
  have P0 : 0 ≤ val projC1 * val L := mul_nonneg c10 L0
  have M1 : |val projC1 * val L| ≤ 112 := by
    rw [abs_of_nonneg P0]
    have := mul_le_mul c1hi L16 L0 (by norm_num); linarith
  obtain ⟨fm1, r1, g1⟩ := mul_step stdModel fc1 hL M1 (by norm_num)
  have n1 := mul_nonneg_f fc1 hL fm1 P0
  -- s1
  have M2 : |val (projC1 * L) + val projC2| ≤ 226 := by
    rw [abs_of_nonneg (by linarith)]
    have := le_abs_self (val (projC1 * L)); have := abs_nonneg (val (projC1 * L))
    rw [abs_of_nonneg n1] at g1
    linarith
  obtain ⟨fs1, r2, g2⟩ := add_step stdModel fm1 fc2 M2 (by norm_num)
  have n2 := add_nonneg_f fm1 fc2 fs1 (by linarith)
  rw [abs_of_nonneg n2] at g2
  -- m2
  have Q0 : 0 ≤ val (projC1 * L + projC2) * val dist := mul_nonneg n2 D0
  have M3 : |val (projC1 * L + projC2) * val dist| ≤ 7248 := by
    rw [abs_of_nonneg Q0]
    have := mul_le_mul g2 D16 D0 (by norm_num); linarith
  obtain ⟨fm2, r3, g3⟩ := mul_step stdModel fs1 hD M3 (by norm_num)
  have n3 := mul_nonneg_f fs1 hD fm2 Q0
  rw [abs_of_nonneg n3] at g3
  -- m3
  have A0 : 0 ≤ val d.abs := by rw [va]; exact abs_nonneg _
  have T0 : 0 ≤ val f1p5 * val d.abs := by rw [v15]; linarith
  have M4 : |val f1p5 * val d.abs| ≤ 1536 := by
    rw [abs_of_nonneg T0, v15, va]
    norm_num at dB ⊢
    linarith
  obtain ⟨fm3, r4, g4⟩ := mul_step stdModel f15 fa M4 (by norm_num)
  have n4 := mul_nonneg_f f15 fa fm3 T0
  rw [abs_of_nonneg n4] at g4
  -- s2
  have M5 : |val ((projC1 * L + projC2) * dist) + val (f1p5 * d.abs)| ≤ 17570 := by
    rw [abs_of_nonneg (by linarith)]; linarith
  obtain ⟨fs2, r5, g5⟩ := add_step stdModel fm2 fm3 M5 (by norm_num)
  have n5 := add_nonneg_f fm2 fm3 fs2 (by linarith)
  rw [abs_of_nonneg n5] at g5
  -- ε
  have E0 : 0 ≤ val ((projC1 * L + projC2) * dist + f1p5 * d.abs) * val tErr := by
    rw [vte]; exact mul_nonneg n5 hu0
  have M6 : |val ((projC1 * L + projC2) * dist + f1p5 * d.abs) * val tErr| ≤ 1 := by
    rw [abs_of_nonneg E0, vte]
    have h1 : val ((projC1 * L + projC2) * dist + f1p5 * d.abs) * uR ≤ (2 * 17570 + 1) * (1 / 2 ^ 53) :=
      mul_le_mul g5 (le_of_eq rfl) hu0 (by norm_num)
    have h2 : ((2 : ℝ) * 17570 + 1) * (1 / 2 ^ 53) ≤ 1 := by norm_num
    linarith
  obtain ⟨fe, r6, g6⟩ := mul_step stdModel fs2 fte M6 (by norm_num)
  have n6 := mul_nonneg_f fs2 fte fe E0
  rw [abs_of_nonneg n6] at g6
  refine ⟨fe, n6, by norm_num at g6 ⊢; linarith, ?_⟩
  rw [v15, va] at r4
  rw [vte] at r6
  have hlow := bound_lower hu0 (by unfold uR; norm_num) eR_nonneg c10 c20 L0 D0 D16 (abs_nonneg (val d))
    r1 r2 r3 r4 r5 r6 n1 n2 n3 n4 n5
  have hk : 19 * eR ≤ 1 / 2 ^ 1000 := K_eR_le (by norm_num)
  linarith

/-! ### `projection` -/

/-- everything about `projOf n |n| xk` for a difference vector `xk` with coordinates bounded by 5 -/
theorem proj_tail (n xk : V3) (fN : Fin3 n) (mN : |val n.x| ≤ 5 ∧ |val n.y| ≤ 5 ∧ |val n.z| ≤ 5)
    (fX : Fin3 xk) (mX : |val xk.x| ≤ 5 ∧ |val xk.y| ≤ 5 ∧ |val xk.z| ≤ 5) :
    let L := n.norm
    let d := xk.dot n
    let dist := F64.sqrt xk.norm2
    let ε := ((projC1 * L + projC2) * dist + f1p5 * d.abs) * tErr
    Fin d ∧ |val d| ≤ 2 ^ 10 ∧ Fin dist ∧ 0 ≤ val dist ∧ Fin ε ∧ 0 ≤ val ε ∧ val ε ≤ 2 ^ 10 ∧
    |val d - R3.dot (ofV xk) (ofV n)| ≤ fU uR * |R3.dot (ofV xk) (ofV n)| + gU uR * ((ofV xk).norm * (ofV n).norm) + 1 / 2 ^ 1000 ∧
    (ofV xk).norm ≤ (1 + 4 * uR) * val dist + 1 / 2 ^ 530 ∧
    69641 / 10000 ≤ val projC1 ∧ 5542 / 100 * uR ≤ val projC2 ∧
    (1 - 8 * uR) * (((val projC1 * val L + val projC2) * val dist + 3 / 2 * |val d|) * uR) - 1 / 2 ^ 1000 ≤ val ε := by
  intro L d dist ε
  obtain ⟨_, _, fL, L0, L16, _⟩ := vnorm_facts n fN mN
  obtain ⟨_, _, fD, D0, D16, eD⟩ := vnorm_facts xk fX mX
  obtain ⟨fd, bd, ed⟩ := dotChain5 xk n fX fN mX mN
  obtain ⟨fe, e0, e10, elo⟩ := bound_facts L dist d fL L0 L16 fD D0 D16 fd bd
  exact ⟨fd, bd, fD, D0, fe, e0, e10, ed, eD, projC1_facts.2.1, projC2_facts.2.1, elo⟩

end ProjGlue

theorem projection_facts (a0 a1 x : V3) (ha0 : Fin3 a0) (ha1 : Fin3 a1) (hx : Fin3 x)
    (na0 : (ofV a0).norm2 ≤ 1 + 1 / 2 ^ 49) (na1 : (ofV a1).norm2 ≤ 1 + 1 / 2 ^ 49) (nx : (ofV x).norm2 ≤ 1 + 1 / 2 ^ 49) :
    let n := (a0.sub a1).cross (a0.add a1)
    let L := n.norm
    let xk := C16K.pick x a0 a1
    let d := xk.dot n
    let dist := F64.sqrt xk.norm2
    let ε := ((projC1 * L + projC2) * dist + f1p5 * d.abs) * tErr
    projection x n L a0 a1 = (d, ε) ∧
    ((xk = x.sub a0 ∧ (R3.sub (ofV xk) (R3.sub (ofV x) (ofV a0))).norm ≤ uR * (R3.sub (ofV x) (ofV a0)).norm) ∨
     (xk = x.sub a1 ∧ (R3.sub (ofV xk) (R3.sub (ofV x) (ofV a1))).norm ≤ uR * (R3.sub (ofV x) (ofV a1)).norm)) ∧
    Fin d ∧ |val d| ≤ 2 ^ 10 ∧ Fin dist ∧ 0 ≤ val dist ∧ Fin ε ∧ 0 ≤ val ε ∧ val ε ≤ 2 ^ 10 ∧
    |val d - R3.dot (ofV xk) (ofV n)| ≤ fU uR * |R3.dot (ofV xk) (ofV n)| + gU uR * ((ofV xk).norm * (ofV n).norm) + 1 / 2 ^ 1000 ∧
    (ofV xk).norm ≤ (1 + 4 * uR) * val dist + 1 / 2 ^ 530 ∧
    69641 / 10000 ≤ val projC1 ∧ 5542 / 100 * uR ≤ val projC2 ∧
    (1 - 8 * uR) * (((val projC1 * val L + val projC2) * val dist + 3 / 2 * |val d|) * uR) - 1 / 2 ^ 1000 ≤ val ε := by
  intro n L xk d dist ε
  obtain ⟨fN, mN, _⟩ := normal_facts a0 a1 ha0 ha1 na0 na1
  have c0 := coord_le_two na0
  have c1 := coord_le_two na1
  have cx := coord_le_two nx
  have hproj : projection x n L a0 a1 = (d, ε) := by rw [C16K.projection_eq]; rfl
  obtain ⟨f0, m0, e0⟩ := vsub_facts x a0 hx ha0 cx c0
  obtain ⟨f1, m1, e1⟩ := vsub_facts x a1 hx ha1 cx c1
  have hpick : xk = x.sub a0 ∨ xk = x.sub a1 := by
    show C16K.pick x a0 a1 = x.sub a0 ∨ C16K.pick x a0 a1 = x.sub a1
    unfold C16K.pick
    split
    · exact Or.inl rfl
    · exact Or.inr rfl
  have hdisj : (xk = x.sub a0 ∧ (R3.sub (ofV xk) (R3.sub (ofV x) (ofV a0))).norm ≤ uR * (R3.sub (ofV x) (ofV a0)).norm) ∨
      (xk = x.sub a1 ∧ (R3.sub (ofV xk) (R3.sub (ofV x) (ofV a1))).norm ≤ uR * (R3.sub (ofV x) (ofV a1)).norm) := by
    rcases hpick with h | h
    · exact Or.inl ⟨h, by rw [h]; exact e0⟩
    · exact Or.inr ⟨h, by rw [h]; exact e1⟩
  have fX : Fin3 xk ∧ (|val xk.x| ≤ 5 ∧ |val xk.y| ≤ 5 ∧ |val xk.z| ≤ 5) := by
    rcases hpick with h | h
    · rw [h]; exact ⟨f0, m0⟩
    · rw [h]; exact ⟨f1, m1⟩
  exact ⟨hproj, hdisj, proj_tail n xk fN mN fX.1 fX.2⟩

end S2Proofs.C16Acc
