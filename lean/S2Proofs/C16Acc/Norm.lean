/-
  C16Acc.Norm — the float computation `x.mul (1 / sqrt x.norm2)` (last step of `intersectionStableSorted` and of
  `V3.normalize`) satisfies `ScaleSpec`.

    * `sqrt_upper`    val (sqrt x)² ≤ val x · (1 + 2^-58)(1 + u)²          (companion of `FloatErr.sqrt_lower`)
    * `div_one_wide`  `1 / r` for 2^-520 ≤ r ≤ 2^515: finite, relative error u
    * `norm2_wide`    the float squared norm of a vector with components ≤ 2^14
    * `scaleSpec : ScaleSpec`
    * `scale_unit`    the result has squared norm within 20u of 1
-/
import Mathlib.Analysis.Real.Sqrt
import Mathlib.Tactic.Zify
import Mathlib.Data.Nat.Sqrt
import S2Proofs.C16Acc.Spec
import S2Proofs.FloatErr.Ops
import S2Proofs.FloatErr.Sqrt
import S2Proofs.FloatErr.Stable
import S2Proofs.FloatErr2.Normal
import S2Proofs.F64Round
import S2Proofs.F64Round.Sqrt

namespace S2Proofs.C16Acc
open S2 S2.Exact S2Proofs.F64Order S2Proofs.Codec S2Proofs.F64Sym S2Proofs.F64Inj S2Proofs.FloatErr

/-! ### upper bound for the float square root -/

theorem sqrt_upper (x : F64) (hx : Fin x) (hpos : 0 < val x) :
    val (F64.sqrt x) ^ 2 ≤ val x * ((1 + 1 / 2 ^ 58) * (1 + uR) ^ 2) := by
  have hz : x.isZero = false := by
    cases h : x.isZero
    · rfl
    · rw [val_of_isZero h] at hpos; exact absurd hpos (lt_irrefl _)
  have hsb : x.signBit = false := by
    cases h : x.signBit
    · rfl
    · rw [val_mant, h] at hpos
      have : (0 : ℝ) ≤ (x.mant : ℝ) * tw x.expo := mul_nonneg (by positivity) (tw_pos _).le
      unfold sg at hpos
      simp only [if_true] at hpos
      linarith
  have hm1 : 0 < x.mant := mant_pos hz
  have hm2 := mant_lt x
  have he1 := expo_ge x
  have he2 := expo_le hx
  unfold F64.sqrt
  simp only [isNaN_false hx, isInf_false hx, hz, hsb, Bool.false_eq_true, if_false]
  set t : ℤ := (x.expo - 120) / 2 - 1 with ht
  obtain ⟨k, hk⟩ : ∃ k : ℕ, (x.expo - 2 * t).toNat = k := ⟨_, rfl⟩
  rw [hk]
  have hk1 : 122 ≤ k := by omega
  have hk2 : k ≤ 123 := by omega
  have hke : x.expo = (k : ℤ) + 2 * t := by omega
  set M := x.mant * 2 ^ k with hM
  have hMlo : 2 ^ 122 ≤ M := by
    calc 2 ^ 122 ≤ 2 ^ k := Nat.pow_le_pow_right (by norm_num) hk1
      _ ≤ x.mant * 2 ^ k := Nat.le_mul_of_pos_left _ hm1
  have hMhi : M < 2 ^ 176 := by
    calc M < 2 ^ 53 * 2 ^ k := Nat.mul_lt_mul_of_pos_right hm2 (Nat.two_pow_pos _)
      _ ≤ 2 ^ 53 * 2 ^ 123 := Nat.mul_le_mul_left _ (Nat.pow_le_pow_right (by norm_num) hk2)
      _ = 2 ^ 176 := by norm_num
  obtain ⟨hr1, hr2⟩ := isqrt_bounds M (by omega)
  have hspec : F64.isqrt M = Nat.sqrt M :=
    S2Proofs.F64Round.isqrt_spec M (lt_trans hMhi (Nat.pow_lt_pow_right (by norm_num) (by norm_num)))
  have hrle : F64.isqrt M * F64.isqrt M ≤ M := by
    rw [hspec]; exact Nat.sqrt_le M
  set r := F64.isqrt M with hr
  have hlog : M.log2 < 176 := (Nat.log2_lt (by omega)).2 hMhi
  have hr88 : r ≤ 2 ^ 88 := le_trans hr2 (Nat.pow_le_pow_right (by norm_num) (by omega))
  have hr61 : 2 ^ 61 ≤ r := by
    by_contra hc
    have : r + 1 ≤ 2 ^ 61 := by omega
    have : (r + 1) ^ 2 ≤ (2 ^ 61) ^ 2 := Nat.pow_le_pow_left this 2
    omega
  set V := 2 * r + (if (r * r == M) = true then 0 else 1) with hV
  have hV1 : 2 * r ≤ V := by rw [hV]; omega
  have hV2 : V ≤ 2 * r + 1 := by rw [hV]; split <;> omega
  have hVpos : 0 < V := by omega
  have hVt : (V : ℝ) * tw (t - 1) ≤ 2 ^ 514 := by
    have h1 : (V : ℝ) ≤ 2 ^ 90 := by
      have : V ≤ 2 ^ 90 := by omega
      exact_mod_cast this
    have h2 : tw (t - 1) ≤ tw 424 := tw_mono (by omega)
    have h3 : tw 424 = 2 ^ 424 := by rw [show (424 : ℤ) = ((424 : ℕ) : ℤ) from rfl, tw_nat]
    have h4 : (V : ℝ) * tw (t - 1) ≤ 2 ^ 90 * 2 ^ 424 := by
      rw [← h3]; exact mul_le_mul h1 h2 (tw_pos _).le (by positivity)
    rw [← pow_add] at h4
    exact h4
  have hmag : (V : ℝ) * tw (t - 1) < 2 ^ 1000 :=
    lt_of_le_of_lt hVt (pow_lt_pow_right₀ (by norm_num) (by norm_num))
  obtain ⟨hf, δ, η, hδ, _, hval, hη⟩ := roundDyadic_spec false V (t - 1) hVpos hmag
  have hη0 := hη (by omega)
  have hu1 : uR ≤ 1 := uR_le_one
  have hδ' := abs_le.mp hδ
  have hvalR : val (F64.roundDyadic false V (t - 1)) = (V : ℝ) * tw (t - 1) * (1 + δ) := by
    rw [hval, hη0]; unfold sg; simp
  rw [hvalR]
  -- val x = M · 2^(2t)
  have hvx : val x = (M : ℝ) * tw (2 * t) := by
    rw [val_mant, hsb, hke, tw_add, tw_nat, hM]
    unfold sg; push_cast; simp; ring
  have htt : tw t = 2 * tw (t - 1) := by
    have : t = (t - 1) + 1 := by ring
    conv_lhs => rw [this]
    rw [tw_succ]
  -- V² ≤ 4 M (1 + 2^-58)
  have hVM : V * V * 2 ^ 58 ≤ 4 * M * (2 ^ 58 + 1) := by
    have h1 : V * V ≤ (2 * r + 1) * (2 * r + 1) := Nat.mul_le_mul hV2 hV2
    have h2 : (2 * r + 1) * (2 * r + 1) * 2 ^ 58 ≤ 4 * (r * r) * (2 ^ 58 + 1) := by
      zify
      have : ((2 : ℤ) ^ 61) ≤ (r : ℤ) := by exact_mod_cast hr61
      nlinarith
    calc V * V * 2 ^ 58 ≤ (2 * r + 1) * (2 * r + 1) * 2 ^ 58 := Nat.mul_le_mul_right _ h1
      _ ≤ 4 * (r * r) * (2 ^ 58 + 1) := h2
      _ ≤ 4 * M * (2 ^ 58 + 1) := Nat.mul_le_mul_right _ (Nat.mul_le_mul_left _ hrle)
  have hVR : (V : ℝ) * V * 2 ^ 58 ≤ 4 * (M : ℝ) * (2 ^ 58 + 1) := by
    have h' : ((V * V * 2 ^ 58 : ℕ) : ℝ) ≤ ((4 * M * (2 ^ 58 + 1) : ℕ) : ℝ) := by exact_mod_cast hVM
    push_cast at h'
    norm_num
    linarith
  have h58 : (V : ℝ) * V ≤ 4 * ((M : ℝ) * (1 + 1 / 2 ^ 58)) := by
    have e : 4 * ((M : ℝ) * (1 + 1 / 2 ^ 58)) = 4 * (M : ℝ) * (2 ^ 58 + 1) / 2 ^ 58 := by field_simp
    rw [e, le_div_iff₀ (by positivity)]
    exact hVR
  have ht1 := tw_pos (t - 1)
  have t2 := tw_pos (2 * t)
  have hsq1 : ((V : ℝ) * tw (t - 1)) ^ 2 ≤ (M : ℝ) * (1 + 1 / 2 ^ 58) * tw (2 * t) := by
    rw [tw_two_mul, htt]
    have h := mul_le_mul_of_nonneg_right h58 (mul_nonneg ht1.le ht1.le)
    calc ((V : ℝ) * tw (t - 1)) ^ 2 = (V : ℝ) * V * (tw (t - 1) * tw (t - 1)) := by ring
      _ ≤ 4 * ((M : ℝ) * (1 + 1 / 2 ^ 58)) * (tw (t - 1) * tw (t - 1)) := h
      _ = _ := by ring
  have hsq2 : (1 + δ) ^ 2 ≤ (1 + uR) ^ 2 :=
    pow_le_pow_left₀ (by linarith) (by linarith) 2
  have hM0 : (0 : ℝ) ≤ (M : ℝ) := by positivity
  calc ((V : ℝ) * tw (t - 1) * (1 + δ)) ^ 2 = ((V : ℝ) * tw (t - 1)) ^ 2 * (1 + δ) ^ 2 := by ring
    _ ≤ ((M : ℝ) * (1 + 1 / 2 ^ 58) * tw (2 * t)) * (1 + δ) ^ 2 :=
        mul_le_mul_of_nonneg_right hsq1 (by positivity)
    _ ≤ ((M : ℝ) * (1 + 1 / 2 ^ 58) * tw (2 * t)) * (1 + uR) ^ 2 :=
        mul_le_mul_of_nonneg_left hsq2 (mul_nonneg (mul_nonneg hM0 (by positivity)) t2.le)
    _ = val x * ((1 + 1 / 2 ^ 58) * (1 + uR) ^ 2) := by rw [hvx]; ring

/-! ### `1 / r` in a wide range -/

open S2Proofs.FE2 in
/-- `1 / r` for a float `r` with `2^-520 ≤ r ≤ 2^515`: finite, relative error `u` -/
theorem div_one_wide {r : F64} (hr : Fin r) (hlo : 1 / 2 ^ 520 ≤ val r) (hhi : val r ≤ 2 ^ 515) :
    Fin (F64.one / r) ∧ |val (F64.one / r) - 1 / val r| ≤ uR * (1 / val r) := by
  have hpos : 0 < val r := lt_of_lt_of_le (by positivity) hlo
  have h1 : Fin F64.one := by decide
  have hz : r.isZero = false := isZero_false_of_val_ne hpos.ne'
  -- rational versions of the bounds
  have hloQ : (1 : ℚ) / 2 ^ 520 ≤ F64Round.val r := by
    have : ((1 / 2 ^ 520 : ℚ) : ℝ) ≤ ((F64Round.val r : ℚ) : ℝ) := by
      rw [← val_cast]; push_cast; exact hlo
    exact_mod_cast this
  have hhiQ : F64Round.val r ≤ (2 : ℚ) ^ 515 := by
    have : ((F64Round.val r : ℚ) : ℝ) ≤ (((2 : ℚ) ^ 515 : ℚ) : ℝ) := by
      rw [← val_cast]; push_cast; exact hhi
    exact_mod_cast this
  have hposQ : 0 < F64Round.val r := lt_of_lt_of_le (by positivity) hloQ
  have hq : F64Round.val F64.one / F64Round.val r = 1 / F64Round.val r := by rw [F64Round.val_one]
  have habs : |F64Round.val F64.one / F64Round.val r| = 1 / F64Round.val r := by
    rw [hq, abs_of_pos (by positivity)]
  have hup : 1 / F64Round.val r ≤ (2 : ℚ) ^ 520 := by
    have := one_div_le_one_div_of_le (by positivity : (0 : ℚ) < 1 / 2 ^ 520) hloQ
    rwa [one_div_one_div] at this
  have hdn : (1 : ℚ) / 2 ^ 515 ≤ 1 / F64Round.val r :=
    one_div_le_one_div_of_le hposQ hhiQ
  have hbig : (2 : ℚ) ^ 520 < 2 ^ 1024 - 2 ^ 970 := by
    have e1 : (2 : ℚ) ^ 1024 = 2 ^ 970 * 2 ^ 54 := by rw [← pow_add]
    have e2 : (2 : ℚ) ^ 970 = 2 ^ 520 * 2 ^ 450 := by rw [← pow_add]
    have p1 : (1 : ℚ) ≤ 2 ^ 450 := one_le_pow₀ (by norm_num)
    have p2 : (0 : ℚ) < 2 ^ 520 := by positivity
    have p3 : (2 : ℚ) ≤ 2 ^ 54 - 1 := by norm_num
    have e3 : (2 : ℚ) ^ 1024 - 2 ^ 970 = 2 ^ 520 * 2 ^ 450 * (2 ^ 54 - 1) := by rw [e1, e2]; ring
    rw [e3]
    generalize (2 : ℚ) ^ 520 = P at p2 ⊢
    generalize (2 : ℚ) ^ 450 = Q at p1 ⊢
    generalize (2 : ℚ) ^ 54 - 1 = R at p3 ⊢
    have h1 : P * 1 * 2 ≤ P * Q * R :=
      mul_le_mul (mul_le_mul_of_nonneg_left p1 p2.le) p3 (by norm_num) (by positivity)
    linarith
  have hsmall : (1 : ℚ) / 2 ^ 1022 ≤ 1 / 2 ^ 515 :=
    one_div_le_one_div_of_le (by positivity) (pow_le_pow_right₀ (by norm_num) (by norm_num))
  have hfin : Fin (F64.div F64.one r) :=
    F64Round.div_fin_of_lt h1 hr hz (by rw [habs]; exact lt_of_le_of_lt hup hbig)
  have herr := F64Round.div_rel_err h1 hr hz hfin (by rw [habs]; exact le_trans hsmall hdn)
  rw [habs, hq] at herr
  refine ⟨hfin, ?_⟩
  have hR : ((|F64Round.val (F64.div F64.one r) - 1 / F64Round.val r| : ℚ) : ℝ)
      ≤ ((1 / F64Round.val r / 2 ^ 53 : ℚ) : ℝ) := Rat.cast_le.mpr herr
  rw [Rat.cast_abs] at hR
  push_cast at hR
  rw [← val_cast, ← val_cast] at hR
  show |val (F64.div F64.one r) - 1 / val r| ≤ uR * (1 / val r)
  unfold uR
  have e : 1 / val r / 2 ^ 53 = 1 / 2 ^ 53 * (1 / val r) := by ring
  linarith

/-! ### the float squared norm, components up to `2^14` -/

theorem rnd_tight {e x y M : ℝ} (h : Rnd uR e x y) (hM : |x| ≤ M) (hM' : M ≤ 2 ^ 30) (he : e ≤ 1) :
    |y| ≤ M + 2 := by
  have h1 := h.abs_le
  have h2 : uR * |x| ≤ 1 / 2 ^ 53 * 2 ^ 30 := by
    unfold uR
    exact mul_le_mul_of_nonneg_left (le_trans hM hM') (by positivity)
  have h3 : (1 : ℝ) / 2 ^ 53 * 2 ^ 30 ≤ 1 := by norm_num
  have e1 : (1 + uR) * |x| = |x| + uR * |x| := by ring
  linarith

theorem norm2_wide (x : V3) (hx : Fin3 x)
    (mx : |val x.x| ≤ 2 ^ 14 ∧ |val x.y| ≤ 2 ^ 14 ∧ |val x.z| ≤ 2 ^ 14) :
    Fin x.norm2 ∧ |val x.norm2 - (ofV x).norm2| ≤ rhoU uR * (ofV x).norm2 + 4 * eR := by
  have H := stdModel
  obtain ⟨h1, h2, h3⟩ := hx
  obtain ⟨m1, m2, m3⟩ := mx
  have e28 : (2 : ℝ) ^ 14 * 2 ^ 14 = 2 ^ 28 := by rw [← pow_add]
  have p1 : |val x.x * val x.x| ≤ 2 ^ 28 := by have := abs_mul_le_of m1 m1; linarith
  have p2 : |val x.y * val x.y| ≤ 2 ^ 28 := by have := abs_mul_le_of m2 m2; linarith
  have p3 : |val x.z * val x.z| ≤ 2 ^ 28 := by have := abs_mul_le_of m3 m3; linarith
  obtain ⟨fq1, rq1, _⟩ := mul_step H h1 h1 p1 (by norm_num)
  obtain ⟨fq2, rq2, _⟩ := mul_step H h2 h2 p2 (by norm_num)
  obtain ⟨fq3, rq3, _⟩ := mul_step H h3 h3 p3 (by norm_num)
  have gq1 := rnd_tight rq1 p1 (by norm_num) eR_le_one
  have gq2 := rnd_tight rq2 p2 (by norm_num) eR_le_one
  have gq3 := rnd_tight rq3 p3 (by norm_num) eR_le_one
  have ms : |val (x.x * x.x) + val (x.y * x.y)| ≤ 2 ^ 29 + 4 := by
    have := abs_add_le (val (x.x * x.x)) (val (x.y * x.y))
    have e : (2 : ℝ) ^ 29 = 2 ^ 28 + 2 ^ 28 := by norm_num
    linarith
  obtain ⟨fs, rs, _⟩ := add_step H fq1 fq2 ms (by norm_num)
  have gs := rnd_tight rs ms (by norm_num) (by norm_num)
  have md : |val (x.x * x.x + x.y * x.y) + val (x.z * x.z)| ≤ 2 ^ 30 := by
    have := abs_add_le (val (x.x * x.x + x.y * x.y)) (val (x.z * x.z))
    have e : (2 : ℝ) ^ 29 + 4 + 2 + (2 ^ 28 + 2) ≤ 2 ^ 30 := by norm_num
    linarith
  obtain ⟨fd, rd, _⟩ := add_step H fs fq3 md (le_refl _)
  have hd := dot3 uR_nonneg eR_nonneg rq1 rq2 rq3 rs rd
  have n1 := mul_self_nonneg (val x.x)
  have n2 := mul_self_nonneg (val x.y)
  have n3 := mul_self_nonneg (val x.z)
  rw [abs_of_nonneg n1, abs_of_nonneg n2, abs_of_nonneg n3,
    abs_of_nonneg (by linarith : 0 ≤ val x.x * val x.x + val x.y * val x.y + val x.z * val x.z)] at hd
  have hh : (1 + uR) * (3 + 2 * uR) ≤ 4 := by unfold uR; norm_num
  have hhe := mul_le_mul_of_nonneg_right hh eR_nonneg
  have eS : (ofV x).norm2 = val x.x * val x.x + val x.y * val x.y + val x.z * val x.z := by
    unfold R3.norm2 ofV; ring
  refine ⟨fd, ?_⟩
  rw [eS]
  unfold rhoU fU gU
  show |val (x.x * x.x + x.y * x.y + x.z * x.z) - _| ≤ _
  linarith

/-! ### real-number lemmas for `scaleSpec` -/

theorem eR_eq : eR = uR * (1 / 2 ^ 1022) := by
  unfold eR uR
  have e : (2 : ℝ) ^ 1075 = 2 ^ 53 * 2 ^ 1022 := by rw [← pow_add]
  rw [e]; field_simp

theorem four_eR_le : 4 * eR ≤ 1 / 2 ^ 500 := by
  unfold eR
  have e : (2 : ℝ) ^ 1075 = 2 ^ 2 * 2 ^ 1073 := by rw [← pow_add]
  have e2 : (4 : ℝ) * (1 / 2 ^ 1075) = 1 / 2 ^ 1073 := by rw [e]; field_simp; norm_num
  rw [e2]
  exact one_div_le_one_div_of_le (by positivity) (pow_le_pow_right₀ (by norm_num) (by norm_num))

theorem rhoU_le3 : rhoU uR ≤ (3 + 1 / 1000) * uR := by
  unfold rhoU fU gU uR; norm_num

/-- the float squared norm against the exact one, when the former is a normal number -/
theorem n2_bounds {S n2 : ℝ} (hS : 0 ≤ S) (h : |n2 - S| ≤ rhoU uR * S + 4 * eR)
    (hlo : 1 / 2 ^ 1022 ≤ n2) :
    S * (1 - 8 * uR) ≤ n2 ∧ n2 ≤ S * (1 + 8 * uR) ∧ 1 / 2 ^ 1023 ≤ S := by
  have h23 : (1 : ℝ) / 2 ^ 1023 = 1 / 2 ^ 1022 / 2 := by
    rw [pow_succ 2 1022]; field_simp
  rw [h23]
  rw [eR_eq] at h
  have hm : (0 : ℝ) < 1 / 2 ^ 1022 := by positivity
  generalize (1 : ℝ) / 2 ^ 1022 = m at hm hlo h ⊢
  have hρ := rhoU_le3
  have hρ0 := rhoU_nn
  generalize rhoU uR = ρ at hρ hρ0 h
  have hu := uR_nonneg
  have hb := abs_le.mp h
  have hum : uR * m ≤ uR * n2 := mul_le_mul_of_nonneg_left hlo hu
  have hρS : ρ * S ≤ (3 + 1 / 1000) * uR * S := mul_le_mul_of_nonneg_right hρ hS
  have c1 : 1 + (3 + 1 / 1000) * uR ≤ (1 + 8 * uR) * (1 - 4 * uR) := by unfold uR; norm_num
  have c2 : (1 - 8 * uR) * (1 + 4 * uR) ≤ 1 - (3 + 1 / 1000) * uR := by unfold uR; norm_num
  have c3 : (0 : ℝ) < 1 - 4 * uR := by unfold uR; norm_num
  have c4 : (0 : ℝ) < 1 + 4 * uR := by unfold uR; norm_num
  have c5 : 1 + 8 * uR ≤ 2 := by unfold uR; norm_num
  have hup : n2 ≤ S * (1 + 8 * uR) := by
    have k1 : n2 * (1 - 4 * uR) ≤ S * (1 + (3 + 1 / 1000) * uR) := by
      have e1 : n2 * (1 - 4 * uR) = n2 - 4 * (uR * n2) := by ring
      have e2 : S * (1 + (3 + 1 / 1000) * uR) = S + (3 + 1 / 1000) * uR * S := by ring
      linarith
    have k2 : S * (1 + (3 + 1 / 1000) * uR) ≤ S * ((1 + 8 * uR) * (1 - 4 * uR)) :=
      mul_le_mul_of_nonneg_left c1 hS
    have k3 : n2 * (1 - 4 * uR) ≤ S * (1 + 8 * uR) * (1 - 4 * uR) := by
      have e : S * ((1 + 8 * uR) * (1 - 4 * uR)) = S * (1 + 8 * uR) * (1 - 4 * uR) := by ring
      linarith
    exact le_of_mul_le_mul_right k3 c3
  have hdn : S * (1 - 8 * uR) ≤ n2 := by
    have k1 : S * (1 - (3 + 1 / 1000) * uR) ≤ n2 * (1 + 4 * uR) := by
      have e1 : n2 * (1 + 4 * uR) = n2 + 4 * (uR * n2) := by ring
      have e2 : S * (1 - (3 + 1 / 1000) * uR) = S - (3 + 1 / 1000) * uR * S := by ring
      linarith
    have k2 : S * ((1 - 8 * uR) * (1 + 4 * uR)) ≤ S * (1 - (3 + 1 / 1000) * uR) :=
      mul_le_mul_of_nonneg_left c2 hS
    have k3 : S * (1 - 8 * uR) * (1 + 4 * uR) ≤ n2 * (1 + 4 * uR) := by
      have e : S * ((1 - 8 * uR) * (1 + 4 * uR)) = S * (1 - 8 * uR) * (1 + 4 * uR) := by ring
      linarith
    exact le_of_mul_le_mul_right k3 c4
  refine ⟨hdn, hup, ?_⟩
  have k : S * (1 + 8 * uR) ≤ S * 2 := mul_le_mul_of_nonneg_left c5 hS
  linarith

/-- the computed length against the exact one -/
theorem len_bounds {S n2 len n : ℝ} (hn0 : 0 ≤ n) (hnS : n ^ 2 = S) (hlen0 : 0 ≤ len)
    (h1 : S * (1 - 8 * uR) ≤ n2) (h2 : n2 ≤ S * (1 + 8 * uR))
    (hlo : n2 * ((1 - 1 / 2 ^ 58) * (1 - uR) ^ 2) ≤ len ^ 2)
    (hup : len ^ 2 ≤ n2 * ((1 + 1 / 2 ^ 58) * (1 + uR) ^ 2)) :
    n * (1 - 6 * uR) ≤ len ∧ len ≤ n * (1 + 6 * uR) := by
  have hS : 0 ≤ S := by rw [← hnS]; positivity
  have c1 : (1 - 6 * uR) ^ 2 ≤ (1 - 8 * uR) * ((1 - 1 / 2 ^ 58) * (1 - uR) ^ 2) := by unfold uR; norm_num
  have c2 : (1 + 8 * uR) * ((1 + 1 / 2 ^ 58) * (1 + uR) ^ 2) ≤ (1 + 6 * uR) ^ 2 := by unfold uR; norm_num
  have c3 : (0 : ℝ) ≤ (1 - 1 / 2 ^ 58) * (1 - uR) ^ 2 := by unfold uR; norm_num
  have c4 : (0 : ℝ) ≤ (1 + 1 / 2 ^ 58) * (1 + uR) ^ 2 := by unfold uR; norm_num
  have c5 : (0 : ℝ) ≤ 1 - 6 * uR := by unfold uR; norm_num
  have c6 : (0 : ℝ) ≤ 1 + 6 * uR := by unfold uR; norm_num
  constructor
  · apply le_of_sq_le (mul_nonneg hn0 c5) hlen0
    calc (n * (1 - 6 * uR)) ^ 2 = S * (1 - 6 * uR) ^ 2 := by rw [mul_pow, hnS]
      _ ≤ S * ((1 - 8 * uR) * ((1 - 1 / 2 ^ 58) * (1 - uR) ^ 2)) := mul_le_mul_of_nonneg_left c1 hS
      _ = S * (1 - 8 * uR) * ((1 - 1 / 2 ^ 58) * (1 - uR) ^ 2) := by ring
      _ ≤ n2 * ((1 - 1 / 2 ^ 58) * (1 - uR) ^ 2) := mul_le_mul_of_nonneg_right h1 c3
      _ ≤ len ^ 2 := hlo
  · apply le_of_sq_le hlen0 (mul_nonneg hn0 c6)
    calc len ^ 2 ≤ n2 * ((1 + 1 / 2 ^ 58) * (1 + uR) ^ 2) := hup
      _ ≤ S * (1 + 8 * uR) * ((1 + 1 / 2 ^ 58) * (1 + uR) ^ 2) := mul_le_mul_of_nonneg_right h2 c4
      _ = S * ((1 + 8 * uR) * ((1 + 1 / 2 ^ 58) * (1 + uR) ^ 2)) := by ring
      _ ≤ S * (1 + 6 * uR) ^ 2 := mul_le_mul_of_nonneg_left c2 hS
      _ = (n * (1 + 6 * uR)) ^ 2 := by rw [mul_pow, hnS]

/-- the computed scale factor against `1 / |x|` -/
theorem sv_bounds {n len sv : ℝ} (hlen : 0 < len) (h1 : n * (1 - 6 * uR) ≤ len) (h2 : len ≤ n * (1 + 6 * uR))
    (hs : |sv - 1 / len| ≤ uR * (1 / len)) :
    0 < sv ∧ |sv * n - 1| ≤ 8 * uR ∧ sv ≤ 2 * (1 / len) := by
  have hb := abs_le.mp hs
  have hinv : 0 < 1 / len := by positivity
  have hu1 : uR ≤ 1 / 2 := by unfold uR; norm_num
  have hu0 := uR_nonneg
  have huinv : uR * (1 / len) ≤ 1 / 2 * (1 / len) := mul_le_mul_of_nonneg_right hu1 hinv.le
  have hsv : 0 < sv := by linarith
  have einv : 1 / len * len = 1 := by field_simp
  have k1 : sv * len ≤ 1 + uR := by
    have : sv ≤ (1 + uR) * (1 / len) := by linarith
    have := mul_le_mul_of_nonneg_right this hlen.le
    have e : (1 + uR) * (1 / len) * len = (1 + uR) * (1 / len * len) := by ring
    rw [e, einv] at this
    linarith
  have k2 : 1 - uR ≤ sv * len := by
    have : (1 - uR) * (1 / len) ≤ sv := by linarith
    have := mul_le_mul_of_nonneg_right this hlen.le
    have e : (1 - uR) * (1 / len) * len = (1 - uR) * (1 / len * len) := by ring
    rw [e, einv] at this
    linarith
  have c1 : 1 + uR ≤ (1 + 8 * uR) * (1 - 6 * uR) := by unfold uR; norm_num
  have c2 : (1 - 8 * uR) * (1 + 6 * uR) ≤ 1 - uR := by unfold uR; norm_num
  have c3 : (0 : ℝ) < 1 - 6 * uR := by unfold uR; norm_num
  have c4 : (0 : ℝ) < 1 + 6 * uR := by unfold uR; norm_num
  have m1 : sv * (n * (1 - 6 * uR)) ≤ sv * len := mul_le_mul_of_nonneg_left h1 hsv.le
  have m2 : sv * len ≤ sv * (n * (1 + 6 * uR)) := mul_le_mul_of_nonneg_left h2 hsv.le
  have up : sv * n ≤ 1 + 8 * uR := by
    have : sv * n * (1 - 6 * uR) ≤ (1 + 8 * uR) * (1 - 6 * uR) := by
      have e : sv * (n * (1 - 6 * uR)) = sv * n * (1 - 6 * uR) := by ring
      linarith
    exact le_of_mul_le_mul_right this c3
  have dn : 1 - 8 * uR ≤ sv * n := by
    have : (1 - 8 * uR) * (1 + 6 * uR) ≤ sv * n * (1 + 6 * uR) := by
      have e : sv * (n * (1 + 6 * uR)) = sv * n * (1 + 6 * uR) := by ring
      linarith
    exact le_of_mul_le_mul_right this c4
  refine ⟨hsv, abs_le.mpr ⟨by linarith, by linarith⟩, ?_⟩
  linarith

theorem prod_lt_big {sv len t : ℝ} (hlen : 1 / 2 ^ 513 ≤ len) (hsv0 : 0 ≤ sv) (hsv : sv ≤ 2 * (1 / len))
    (ht : |t| ≤ 2 ^ 14) : |sv * t| < 2 ^ 1000 := by
  have hinv : 1 / len ≤ 2 ^ 513 := by
    have := one_div_le_one_div_of_le (by positivity : (0 : ℝ) < 1 / 2 ^ 513) hlen
    rwa [one_div_one_div] at this
  have h514 : sv ≤ 2 ^ 514 := by
    have : 2 * (1 / len) ≤ 2 * 2 ^ 513 := mul_le_mul_of_nonneg_left hinv (by norm_num)
    have e : (2 : ℝ) * 2 ^ 513 = 2 ^ 514 := by rw [← pow_succ']
    rw [e] at this
    exact le_trans hsv this
  rw [abs_mul, abs_of_nonneg hsv0]
  have h1 : sv * |t| ≤ 2 ^ 514 * 2 ^ 14 := mul_le_mul h514 ht (abs_nonneg _) (by positivity)
  rw [← pow_add] at h1
  exact lt_of_le_of_lt h1 (pow_lt_pow_right₀ (by norm_num) (by norm_num))

theorem nu_bound {sv t ρ : ℝ} (hsv : 0 < sv) (h : |ρ| ≤ uR * (sv * |t|) + eR) :
    |ρ / sv| ≤ uR * |t| + 0 * |(0 : ℝ)| + eR / sv := by
  rw [abs_div, abs_of_pos hsv, div_le_iff₀ hsv]
  have e : (uR * |t| + 0 * |(0 : ℝ)| + eR / sv) * sv = uR * (sv * |t|) + eR := by field_simp; ring
  rw [e]
  exact h

/-! ### the main theorem -/

theorem scaleSpec : ScaleSpec := by
  intro x hx m1 m2 m3 hlo
  obtain ⟨fx1, fx2, fx3⟩ := hx
  obtain ⟨fn, herr⟩ := norm2_wide x ⟨fx1, fx2, fx3⟩ ⟨m1, m2, m3⟩
  have hS0 : 0 ≤ (ofV x).norm2 := R3.norm2_nonneg _
  have hn0 : 0 ≤ (ofV x).norm := R3.norm_nonneg _
  have hnS : (ofV x).norm ^ 2 = (ofV x).norm2 := R3.norm_sq _
  obtain ⟨hb1, hb2, hS23⟩ := n2_bounds hS0 herr hlo
  have hpos : 0 < val x.norm2 := lt_of_lt_of_le (by positivity) hlo
  -- |x| ≥ 2^-512
  have hn512 : 1 / 2 ^ 512 ≤ (ofV x).norm := by
    apply R3.le_norm_of_sq
    have e : ((1 : ℝ) / 2 ^ 512) ^ 2 = 1 / 2 ^ 1024 := by
      rw [div_pow, one_pow, ← pow_mul]
    rw [e]
    exact le_trans (one_div_le_one_div_of_le (by positivity)
      (pow_le_pow_right₀ (by norm_num) (by norm_num))) hS23
  -- the square root
  obtain ⟨fr, hr0, hr515, hrlo⟩ := sqrt_lower x.norm2 fn hpos
  have hrup := sqrt_upper x.norm2 fn hpos
  obtain ⟨hl1, hl2⟩ := len_bounds hn0 hnS hr0 hb1 hb2 hrlo hrup
  have hlenabs : |val (F64.sqrt x.norm2) - (ofV x).norm| ≤ 6 * uR * (ofV x).norm := by
    rw [abs_le]
    constructor <;> linarith
  have hlen513 : 1 / 2 ^ 513 ≤ val (F64.sqrt x.norm2) := by
    have c : (1 : ℝ) / 2 ≤ 1 - 6 * uR := by unfold uR; norm_num
    have h1 : 1 / 2 ^ 512 * (1 / 2) ≤ (ofV x).norm * (1 - 6 * uR) :=
      mul_le_mul hn512 c (by norm_num) hn0
    have e : (1 : ℝ) / 2 ^ 513 = 1 / 2 ^ 512 * (1 / 2) := by
      rw [pow_succ 2 512]; field_simp
    rw [e]
    exact le_trans h1 hl1
  have hlenpos : 0 < val (F64.sqrt x.norm2) := lt_of_lt_of_le (by positivity) hlen513
  have hlen520 : 1 / 2 ^ 520 ≤ val (F64.sqrt x.norm2) :=
    le_trans (one_div_le_one_div_of_le (by positivity)
      (pow_le_pow_right₀ (by norm_num) (by norm_num))) hlen513
  -- the scale factor
  obtain ⟨fs, hs⟩ := div_one_wide fr hlen520 hr515
  obtain ⟨hsv0, hsn, hsv2⟩ := sv_bounds hlenpos hl1 hl2 hs
  -- the three products
  obtain ⟨fn1, rn1⟩ := mul_step_raw stdModel fs fx1 (prod_lt_big hlen513 hsv0.le hsv2 m1)
  obtain ⟨fn2, rn2⟩ := mul_step_raw stdModel fs fx2 (prod_lt_big hlen513 hsv0.le hsv2 m2)
  obtain ⟨fn3, rn3⟩ := mul_step_raw stdModel fs fx3 (prod_lt_big hlen513 hsv0.le hsv2 m3)
  refine ⟨fn, fr, ⟨fn1, fn2, fn3⟩, hn512, hlenabs, ?_⟩
  clear hlen520 hlen513 hn512 hS23 hlo hr515
  set sv := val (F64.one / F64.sqrt x.norm2) with hsv
  have conv : ∀ {t n : ℝ}, Rnd uR eR (sv * t) n → |n - sv * t| ≤ uR * (sv * |t|) + eR := by
    intro t n h
    unfold Rnd at h
    rw [abs_mul, abs_of_pos hsv0] at h
    exact h
  have r1 := nu_bound hsv0 (conv rn1)
  have r2 := nu_bound hsv0 (conv rn2)
  have r3 := nu_bound hsv0 (conv rn3)
  refine ⟨sv, ⟨(val ((F64.one / F64.sqrt x.norm2) * x.x) - sv * val x.x) / sv,
    (val ((F64.one / F64.sqrt x.norm2) * x.y) - sv * val x.y) / sv,
    (val ((F64.one / F64.sqrt x.norm2) * x.z) - sv * val x.z) / sv⟩, hsv0, hsn, ?_, ?_⟩
  · have hne : sv ≠ 0 := hsv0.ne'
    unfold ofV R3.smul R3.add V3.mul
    ext
    · show val ((F64.one / F64.sqrt x.norm2) * x.x) = sv * (val x.x + _ / sv)
      field_simp; ring
    · show val ((F64.one / F64.sqrt x.norm2) * x.y) = sv * (val x.y + _ / sv)
      field_simp; ring
    · show val ((F64.one / F64.sqrt x.norm2) * x.z) = sv * (val x.z + _ / sv)
      field_simp; ring
  · have hγ : 0 ≤ eR / sv := div_nonneg eR_nonneg hsv0.le
    have hN := R3.norm_le_of_comp (v := ⟨(val ((F64.one / F64.sqrt x.norm2) * x.x) - sv * val x.x) / sv,
        (val ((F64.one / F64.sqrt x.norm2) * x.y) - sv * val x.y) / sv,
        (val ((F64.one / F64.sqrt x.norm2) * x.z) - sv * val x.z) / sv⟩) (p := ofV x) (q := R3.zero)
      uR_nonneg (le_refl 0) hγ r1 r2 r3
    -- 1/sv ≤ 2|x|
    have hb := abs_le.mp hsn
    have c : (1 : ℝ) / 2 ≤ 1 - 8 * uR := by unfold uR; norm_num
    have hinv : 1 / sv ≤ 2 * (ofV x).norm := by
      rw [div_le_iff₀ hsv0]
      linarith
    have h4 := four_eR_le
    have he0 := eR_nonneg
    have k1 : eR / sv ≤ eR * (2 * (ofV x).norm) := by
      have e : eR / sv = eR * (1 / sv) := by ring
      rw [e]
      exact mul_le_mul_of_nonneg_left hinv he0
    have k2 : 4 * eR * (ofV x).norm ≤ 1 / 2 ^ 500 * (ofV x).norm :=
      mul_le_mul_of_nonneg_right h4 hn0
    generalize (1 : ℝ) / 2 ^ 500 = w at k2 h4 ⊢
    have e2 : (uR + w) * (ofV x).norm = uR * (ofV x).norm + w * (ofV x).norm := by ring
    rw [e2]
    have e3 : eR * (2 * (ofV x).norm) = 2 * eR * (ofV x).norm := by ring
    have e4 : 4 * eR * (ofV x).norm = 2 * (2 * eR * (ofV x).norm) := by ring
    linarith

/-! ### the result is a unit vector up to `20u` -/

theorem unit_real {s n a νn w : ℝ} (hs : 0 < s) (hsn : |s * n - 1| ≤ 8 * uR)
    (ha1 : a ≤ n + νn) (ha2 : n - νn ≤ a) (hν : νn ≤ (uR + w) * n) (hw0 : 0 ≤ w) (hw : w ≤ 1 / 2 ^ 100) :
    |(s * a) ^ 2 - 1| ≤ 20 * uR := by
  have hb := abs_le.mp hsn
  have hu0 := uR_nonneg
  have hsν : s * νn ≤ (uR + w) * (s * n) := by
    have := mul_le_mul_of_nonneg_left hν hs.le
    have e : s * ((uR + w) * n) = (uR + w) * (s * n) := by ring
    linarith
  have c0 : (0 : ℝ) ≤ 1 - 8 * uR := by unfold uR; norm_num
  have hp0 : 0 ≤ s * n := by linarith
  have c1 : (0 : ℝ) ≤ 1 - uR - 1 / 2 ^ 100 := by unfold uR; norm_num
  have hup : s * a ≤ (1 + 8 * uR) * (1 + uR + 1 / 2 ^ 100) := by
    have h1 : s * a ≤ s * n + s * νn := by
      have := mul_le_mul_of_nonneg_left ha1 hs.le
      have e : s * (n + νn) = s * n + s * νn := by ring
      linarith
    have h2 : s * n * (1 + uR + w) ≤ (1 + 8 * uR) * (1 + uR + 1 / 2 ^ 100) :=
      mul_le_mul (by linarith) (by linarith) (by linarith) (by linarith)
    have e : s * n * (1 + uR + w) = s * n + (uR + w) * (s * n) := by ring
    linarith
  have hdn : (1 - 8 * uR) * (1 - uR - 1 / 2 ^ 100) ≤ s * a := by
    have h1 : s * n - s * νn ≤ s * a := by
      have := mul_le_mul_of_nonneg_left ha2 hs.le
      have e : s * (n - νn) = s * n - s * νn := by ring
      linarith
    have h2 : (1 - 8 * uR) * (1 - uR - 1 / 2 ^ 100) ≤ s * n * (1 - uR - w) :=
      mul_le_mul (by linarith) (by linarith) c1 hp0
    have e : s * n * (1 - uR - w) = s * n - (uR + w) * (s * n) := by ring
    linarith
  have hL0 : (0 : ℝ) ≤ (1 - 8 * uR) * (1 - uR - 1 / 2 ^ 100) := mul_nonneg c0 c1
  have hsa0 : 0 ≤ s * a := le_trans hL0 hdn
  have q1 : (s * a) ^ 2 ≤ ((1 + 8 * uR) * (1 + uR + 1 / 2 ^ 100)) ^ 2 := pow_le_pow_left₀ hsa0 hup 2
  have q2 : ((1 - 8 * uR) * (1 - uR - 1 / 2 ^ 100)) ^ 2 ≤ (s * a) ^ 2 := pow_le_pow_left₀ hL0 hdn 2
  have n1 : ((1 + 8 * uR) * (1 + uR + 1 / 2 ^ 100)) ^ 2 ≤ 1 + 20 * uR := by unfold uR; norm_num
  have n2 : 1 - 20 * uR ≤ ((1 - 8 * uR) * (1 - uR - 1 / 2 ^ 100)) ^ 2 := by unfold uR; norm_num
  rw [abs_le]
  constructor <;> linarith

theorem scale_unit (x : V3) (hx : Fin3 x) (m1 : |val x.x| ≤ 2 ^ 14) (m2 : |val x.y| ≤ 2 ^ 14)
    (m3 : |val x.z| ≤ 2 ^ 14) (hlo : 1 / 2 ^ 1022 ≤ val x.norm2) :
    |(ofV (x.mul (F64.one / F64.sqrt x.norm2))).norm2 - 1| ≤ 20 * uR := by
  obtain ⟨_, _, _, _, _, s, ν, hs0, hsn, heq, hν⟩ := scaleSpec x hx m1 m2 m3 hlo
  rw [heq, R3.norm2_smul, ← R3.norm_sq (R3.add (ofV x) ν), ← mul_pow]
  have hw : (1 : ℝ) / 2 ^ 500 ≤ 1 / 2 ^ 100 :=
    one_div_le_one_div_of_le (by positivity) (pow_le_pow_right₀ (by norm_num) (by norm_num))
  have hw0 : (0 : ℝ) ≤ 1 / 2 ^ 500 := by positivity
  generalize (1 : ℝ) / 2 ^ 500 = w at hw hw0 hν
  exact unit_real hs0 hsn (R3.norm_add_le _ _) (R3.norm_ge_sub _ _) hν hw0 hw

/-- `V3.normalize` is the scaling analysed above whenever the float squared norm is not zero -/
theorem normalize_eq (x : V3) (h : F64.feq x.norm2 (F64.zero false) = false) :
    x.normalize = x.mul (F64.one / F64.sqrt x.norm2) := by
  unfold V3.normalize
  simp only [h, Bool.false_eq_true, if_false]

end S2Proofs.C16Acc
