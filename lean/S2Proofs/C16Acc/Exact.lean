/-
  C16Acc.Exact — accuracy and unit length of the EXACT path of `Intersection`:
      `intersectionExact` → `PV.toVector` = three roundings of the exact integer vector (scaled by the power of two that brings
      the largest component into [1/2, 1)) followed by the float `Normalize`.

  `toVector_spec` : for a non-zero exact vector `v` the result `r` is finite, not the zero vector, the sine of the angle between
                    `r` and `v` is ≤ 3u, `r·v > 0`, and `| |r|² − 1 | ≤ 20u`.
  `toVector_zero` : the zero exact vector gives the float zero vector (`feq … zero3`).
  `exact_spec`    : the non-collinear branch of `intersectionExact`.

  The specification of the scaling step `x.mul (1 / sqrt x.norm2)` is taken as the explicit hypothesis `HS : ScaleSpec`
  (proved in `C16Acc/Norm.lean`).
-/
import S2Proofs.C16Normalize
import S2Proofs.C16Acc.Spec

set_option linter.unusedSimpArgs false
set_option linter.unusedVariables false

namespace S2Proofs.C16Acc
open S2 S2.Exact S2.EdgeNum S2Proofs.F64Order S2Proofs.FloatErr

/-- an exact integer vector as a real vector -/
def ofI (v : S2.Exact.IV3) : R3 := ⟨(v.x : ℝ), (v.y : ℝ), (v.z : ℝ)⟩

/-! ### pure real arithmetic -/

/-- the scalar heart of the analysis.  `a = |Y|`, `b = |w|`, `m = |μ|`, `n = |ν|`, `d = |μ+ν|`, `nW = |w+ν|`. -/
theorem scal_core {a b m n d nW : ℝ} (ha : 48 / 100 ≤ a) (hb : 0 ≤ b)
    (hm : m ≤ uR * a + 2 * eR) (hn : n ≤ (uR + 1 / 2 ^ 500) * b) (hba : b ≤ a + m)
    (hd : d ≤ m + n) (hW : a - d ≤ nW) :
    d ≤ 3 * uR * nW ∧ d ≤ a / 2 := by
  have hu : uR = 1 / 2 ^ 53 := rfl
  have he := C16N.eR_small
  have h500 : (1 : ℝ) / 2 ^ 500 ≤ 1 / 2 ^ 90 := by
    apply one_div_le_one_div_of_le (by positivity)
    exact pow_le_pow_right₀ (by norm_num) (by norm_num)
  have hn' : n ≤ (1 / 2 ^ 53 + 1 / 2 ^ 90) * b := by
    refine le_trans hn ?_
    apply mul_le_mul_of_nonneg_right _ hb
    rw [hu]; linarith
  have hm' : m ≤ (1 / 2 ^ 53 + 1 / 2 ^ 90) * a := by
    rw [hu] at hm
    have e1 : (2 : ℝ) * (1 / 2 ^ 100) ≤ 1 / 2 ^ 90 * (48 / 100) := by norm_num
    have e2 : (1 : ℝ) / 2 ^ 90 * (48 / 100) ≤ 1 / 2 ^ 90 * a :=
      mul_le_mul_of_nonneg_left ha (by positivity)
    linarith
  rw [hu]
  constructor <;> linarith

/-- unit length, scalar version: `t = s·|w|`, `p = s·|w+ν|` -/
theorem scal_unit {t p : ℝ} (ht : |t - 1| ≤ 8 * uR) (h1 : t * (1 - (uR + 1 / 2 ^ 500)) ≤ p)
    (h2 : p ≤ t * (1 + (uR + 1 / 2 ^ 500))) : |p ^ 2 - 1| ≤ 20 * uR := by
  have hu : uR = 1 / 2 ^ 53 := rfl
  have h500 : (1 : ℝ) / 2 ^ 500 ≤ 1 / 2 ^ 90 := by
    apply one_div_le_one_div_of_le (by positivity)
    exact pow_le_pow_right₀ (by norm_num) (by norm_num)
  have h500' : (0 : ℝ) ≤ 1 / 2 ^ 500 := by positivity
  rw [hu] at ht h1 h2 ⊢
  generalize (1 : ℝ) / 2 ^ 500 = c at *
  obtain ⟨t1, t2⟩ := abs_le.mp ht
  have t0 : 0 ≤ t := by
    have : (8 : ℝ) * (1 / 2 ^ 53) ≤ 1 / 2 := by norm_num
    linarith
  have tle : t ≤ 2 := by
    have : (8 : ℝ) * (1 / 2 ^ 53) ≤ 1 / 2 := by norm_num
    linarith
  have hc : t * c ≤ 2 * (1 / 2 ^ 90) := by
    have := mul_le_mul tle h500 h500' (by norm_num)
    linarith
  have hc0 : 0 ≤ t * c := mul_nonneg t0 h500'
  have p1 : 1 - 19 / 2 * (1 / 2 ^ 53) ≤ p := by
    have e : t * (1 - (1 / 2 ^ 53 + c)) = t * (1 - 1 / 2 ^ 53) - t * c := by ring
    rw [e] at h1
    have : (1 - 8 * (1 / 2 ^ 53)) * (1 - 1 / 2 ^ 53) ≤ t * (1 - 1 / 2 ^ 53) :=
      mul_le_mul_of_nonneg_right (by linarith) (by norm_num)
    have e2 : (1 : ℝ) - 19 / 2 * (1 / 2 ^ 53) ≤ (1 - 8 * (1 / 2 ^ 53)) * (1 - 1 / 2 ^ 53) - 2 * (1 / 2 ^ 90) := by
      norm_num
    linarith
  have p2 : p ≤ 1 + 19 / 2 * (1 / 2 ^ 53) := by
    have e : t * (1 + (1 / 2 ^ 53 + c)) = t * (1 + 1 / 2 ^ 53) + t * c := by ring
    rw [e] at h2
    have : t * (1 + 1 / 2 ^ 53) ≤ (1 + 8 * (1 / 2 ^ 53)) * (1 + 1 / 2 ^ 53) :=
      mul_le_mul_of_nonneg_right (by linarith) (by norm_num)
    have e2 : (1 + 8 * (1 / 2 ^ 53)) * (1 + 1 / 2 ^ 53) + 2 * (1 / 2 ^ 90) ≤ (1 : ℝ) + 19 / 2 * (1 / 2 ^ 53) := by
      norm_num
    linarith
  have p0 : 0 ≤ p := le_trans (by norm_num) p1
  have l2 := pow_le_pow_left₀ (by norm_num : (0 : ℝ) ≤ 1 - 19 / 2 * (1 / 2 ^ 53)) p1 2
  have u2 := pow_le_pow_left₀ p0 p2 2
  have el : (1 : ℝ) - 20 * (1 / 2 ^ 53) ≤ (1 - 19 / 2 * (1 / 2 ^ 53)) ^ 2 := by norm_num
  have eu : ((1 : ℝ) + 19 / 2 * (1 / 2 ^ 53)) ^ 2 ≤ 1 + 20 * (1 / 2 ^ 53) := by norm_num
  rw [abs_le]
  constructor <;> linarith

/-- the vector heart of the analysis: `w = Y + μ` (the three roundings), `r = s·(w + ν)` (the scaling step), `Y = k·V` -/
theorem core_real {V Y μ w ν r : R3} {k s : ℝ} (hk : 0 < k) (hY : Y = R3.smul k V) (hw : w = R3.add Y μ)
    (hμ : μ.norm ≤ uR * Y.norm + 2 * eR) (hYlo : 48 / 100 ≤ Y.norm)
    (hν : ν.norm ≤ (uR + 1 / 2 ^ 500) * w.norm) (hs : 0 < s) (hsw : |s * w.norm - 1| ≤ 8 * uR)
    (hr : r = R3.smul s (R3.add w ν)) :
    R3.SinLe r V (3 * uR) ∧ 0 < R3.dot r V ∧ |r.norm2 - 1| ≤ 20 * uR := by
  have hu0 := uR_nonneg
  have eW : R3.add w ν = R3.add (R3.smul k V) (R3.add μ ν) := by
    rw [hw, hY]; unfold R3.add; ext <;> simp [add_assoc]
  have eW' : R3.add w ν = R3.add Y (R3.add μ ν) := by rw [eW, hY]
  have hba : w.norm ≤ Y.norm + μ.norm := by rw [hw]; exact R3.norm_add_le _ _
  have hd : (R3.add μ ν).norm ≤ μ.norm + ν.norm := R3.norm_add_le _ _
  have hWlo : Y.norm - (R3.add μ ν).norm ≤ (R3.add w ν).norm := by rw [eW']; exact R3.norm_ge_sub _ _
  obtain ⟨c1, c2⟩ := scal_core hYlo w.norm_nonneg hμ hν hba hd hWlo
  refine ⟨?_, ?_, ?_⟩
  · rw [hr]
    exact (R3.sinLe_of_decomp eW (by linarith) c1).smul_left s
  · -- k · (r·V) = s · (|Y|² + Δ·Y)
    have e : k * R3.dot r V = s * (Y.norm2 + R3.dot (R3.add μ ν) Y) := by
      rw [hr, eW', hY]; unfold R3.dot R3.smul R3.add R3.norm2; simp only; ring
    have hdot : -((R3.add μ ν).norm * Y.norm) ≤ R3.dot (R3.add μ ν) Y := by
      have := R3.abs_dot_le (R3.add μ ν) Y
      exact (abs_le.mp this).1
    have hY2 : Y.norm2 = Y.norm * Y.norm := (R3.norm_mul_self Y).symm
    have hpos : 0 < Y.norm2 + R3.dot (R3.add μ ν) Y := by
      have h1 : (R3.add μ ν).norm * Y.norm ≤ Y.norm / 2 * Y.norm :=
        mul_le_mul_of_nonneg_right c2 Y.norm_nonneg
      have h2 : 0 < Y.norm * Y.norm := by
        have : 0 < Y.norm := by linarith
        positivity
      rw [hY2]
      nlinarith
    have hkr : 0 < k * R3.dot r V := by rw [e]; exact mul_pos hs hpos
    exact (pos_iff_pos_of_mul_pos hkr).mp hk
  · have hn : r.norm2 = (s * (R3.add w ν).norm) ^ 2 := by
      rw [hr, R3.norm2_smul, mul_pow, R3.norm_sq]
    rw [hn]
    have hup : (R3.add w ν).norm ≤ w.norm + ν.norm := R3.norm_add_le _ _
    have hlo : w.norm - ν.norm ≤ (R3.add w ν).norm := R3.norm_ge_sub _ _
    apply scal_unit hsw
    · have := mul_le_mul_of_nonneg_left (le_trans (by linarith : w.norm - (uR + 1 / 2 ^ 500) * w.norm ≤ w.norm - ν.norm) hlo)
        (le_of_lt hs)
      linarith
    · have := mul_le_mul_of_nonneg_left (le_trans hup (by linarith : w.norm + ν.norm ≤ w.norm + (uR + 1 / 2 ^ 500) * w.norm))
        (le_of_lt hs)
      linarith

/-! ### one scaled, rounded component -/

theorem sg_natAbs (s : SZ) (h : s.v ≠ 0) : sg s.isNeg * (s.v.natAbs : ℝ) = (s.v : ℝ) := by
  unfold SZ.isNeg sg
  simp only [beq_iff_eq, h, if_false]
  rw [Nat.cast_natAbs]
  by_cases hn : s.v < 0
  · simp only [hn, decide_true, if_true]
    rw [abs_of_neg hn]; push_cast; ring
  · simp only [hn, decide_false, Bool.false_eq_true, if_false]
    rw [abs_of_nonneg (not_lt.mp hn)]; ring

/-- one scaled, rounded component is within `u·|exact| + e` of the exact scaled value -/
theorem comp_spec (s : SZ) (m : Nat) (hm : s.bitLen ≤ m) :
    |val (s.toF64 (-(m : ℤ))) - (s.v : ℝ) * tw (-(m : ℤ))| ≤ uR * |(s.v : ℝ) * tw (-(m : ℤ))| + eR := by
  unfold SZ.toF64
  by_cases h0 : s.v = 0
  · rw [h0]
    simp only [Int.natAbs_zero, S2Proofs.C16K.roundDyadic_zero]
    rw [(zero_val s.isNeg).2]
    simp only [Int.cast_zero, zero_mul, sub_self, abs_zero, mul_zero, zero_add]
    exact eR_nonneg
  · have ha : 0 < s.v.natAbs := by omega
    have hb : s.bitLen = s.v.natAbs.log2 + 1 := by unfold SZ.bitLen; simp [h0]
    have hlt : s.v.natAbs < 2 ^ m :=
      lt_of_lt_of_le Nat.lt_log2_self (Nat.pow_le_pow_right (by norm_num) (by omega))
    have htw : tw (-(m : ℤ)) = ((2 : ℝ) ^ m)⁻¹ := by rw [tw_neg, tw_nat]
    have h2m : (0 : ℝ) < 2 ^ m := by positivity
    have ht1 : (s.v.natAbs : ℝ) * tw (-(m : ℤ)) < 1 := by
      rw [htw, ← div_eq_mul_inv, div_lt_one h2m]
      exact_mod_cast hlt
    obtain ⟨hf, δ, η, hδ, hη, hv, _⟩ := roundDyadic_spec s.isNeg s.v.natAbs (-(m : ℤ)) ha
      (lt_trans ht1 (one_lt_pow₀ (by norm_num) (by norm_num)))
    rw [hv]
    have e : sg s.isNeg * ((s.v.natAbs : ℝ) * tw (-(m : ℤ)) * (1 + δ) + η) - (s.v : ℝ) * tw (-(m : ℤ)) =
        (s.v : ℝ) * tw (-(m : ℤ)) * δ + sg s.isNeg * η := by
      rw [← sg_natAbs s h0]; ring
    rw [e]
    refine le_trans (abs_add_le _ _) ?_
    rw [abs_mul, abs_mul (sg s.isNeg), sg_abs, one_mul]
    have := mul_le_mul_of_nonneg_left hδ (abs_nonneg ((s.v : ℝ) * tw (-(m : ℤ))))
    linarith

theorem lo_of {a y : ℝ} (h1 : 49 / 100 ≤ |a|) (h2 : |a - y| ≤ uR * |y| + eR) : 48 / 100 ≤ |y| := by
  have hu : uR = 1 / 2 ^ 53 := rfl
  have he := C16N.eR_small
  have h3 : |a| ≤ |y| + |a - y| := by
    have := abs_add_le y (a - y)
    rwa [add_sub_cancel] at this
  rw [hu] at h2
  have e1 : (1 : ℝ) / 2 ^ 100 ≤ 1 / 1000 := by norm_num
  have e2 : (1 : ℝ) / 2 ^ 53 ≤ 1 / 1000 := by norm_num
  have y0 := abs_nonneg y
  by_contra hc
  have hc' := not_le.mp hc
  nlinarith

theorem feq_zero3_false {r : V3} (h : (ofV r).norm2 ≠ 0) : V3.feq r zero3 = false := by
  cases hc : V3.feq r zero3
  · rfl
  · exfalso
    unfold V3.feq zero3 at hc
    simp only [Bool.and_eq_true, S2Proofs.C16K.feq_fz] at hc
    obtain ⟨⟨a, b⟩, c⟩ := hc
    apply h
    unfold ofV R3.norm2
    simp only [val_of_isZero a, val_of_isZero b, val_of_isZero c]
    norm_num

/-! ### `PreciseVector.Vector()` -/

/-- the core statement on the three rounded components `w` before `Normalize` -/
theorem normalize_spec (HS : ScaleSpec) {w : V3} {V : R3} {k : ℝ} (hk : 0 < k) (hf : Fin3 w)
    (bx : |val w.x| ≤ 101 / 100) (by' : |val w.y| ≤ 101 / 100) (bz : |val w.z| ≤ 101 / 100)
    (cx : |val w.x - k * V.x| ≤ uR * |k * V.x| + eR) (cy : |val w.y - k * V.y| ≤ uR * |k * V.y| + eR)
    (cz : |val w.z - k * V.z| ≤ uR * |k * V.z| + eR)
    (hmax : 49 / 100 ≤ |val w.x| ∨ 49 / 100 ≤ |val w.y| ∨ 49 / 100 ≤ |val w.z|) :
    Fin3 w.normalize ∧ V3.feq w.normalize zero3 = false ∧
    R3.SinLe (ofV w.normalize) V (3 * uR) ∧ 0 < R3.dot (ofV w.normalize) V ∧
    |(ofV w.normalize).norm2 - 1| ≤ 20 * uR := by
  have hX : 1 / 5 ≤ val w.x ^ 2 + val w.y ^ 2 + val w.z ^ 2 := by
    have qx := sq_nonneg (val w.x)
    have qy := sq_nonneg (val w.y)
    have qz := sq_nonneg (val w.z)
    rcases hmax with h | h | h
    · have := C16N.sq_ge_of_abs_ge h; linarith
    · have := C16N.sq_ge_of_abs_ge h; linarith
    · have := C16N.sq_ge_of_abs_ge h; linarith
  obtain ⟨fn, nlo, _⟩ := C16N.norm2_step hf bx by' bz hX
  obtain ⟨hfeq, _⟩ := C16N.scale_step fn nlo
  have hnorm : w.normalize = w.mul (F64.one / F64.sqrt w.norm2) := by
    unfold V3.normalize
    simp only [hfeq, Bool.false_eq_true, if_false]
  have b14 : ∀ a : ℝ, |a| ≤ 101 / 100 → |a| ≤ 2 ^ 14 := fun a h => le_trans h (by norm_num)
  have hlo : (1 : ℝ) / 2 ^ 1022 ≤ val w.norm2 := by
    refine le_trans ?_ nlo
    have : (1 : ℝ) / 2 ^ 1022 ≤ 1 / 2 ^ 3 := by
      apply one_div_le_one_div_of_le (by positivity)
      exact pow_le_pow_right₀ (by norm_num) (by norm_num)
    refine le_trans this (by norm_num)
  obtain ⟨_, _, f3, _, _, s, ν, hs, hsw, hr, hν⟩ := HS w hf (b14 _ bx) (b14 _ by') (b14 _ bz) hlo
  rw [hnorm]
  -- the decomposition w = Y + μ
  set Y : R3 := R3.smul k V with hY
  set μ : R3 := R3.sub (ofV w) Y with hμd
  have hw : ofV w = R3.add Y μ := by
    rw [hμd]; unfold R3.add R3.sub; ext <;> simp
  have hμ : μ.norm ≤ uR * Y.norm + 2 * eR := by
    have := R3.norm_le_of_comp (v := μ) (p := Y) (q := Y) (α := uR) (β := 0) (γ := eR) uR_nonneg (le_refl _) eR_nonneg
      (by simpa [hμd, hY, R3.sub, R3.smul, ofV] using cx) (by simpa [hμd, hY, R3.sub, R3.smul, ofV] using cy)
      (by simpa [hμd, hY, R3.sub, R3.smul, ofV] using cz)
    linarith
  have hYlo : 48 / 100 ≤ Y.norm := by
    obtain ⟨ax, ay, az⟩ := R3.abs_comp_le_norm Y
    rcases hmax with h | h | h
    · exact le_trans (lo_of h cx) ax
    · exact le_trans (lo_of h cy) ay
    · exact le_trans (lo_of h cz) az
  obtain ⟨r1, r2, r3⟩ := core_real hk hY hw hμ hYlo hν hs hsw hr
  refine ⟨f3, feq_zero3_false ?_, r1, r2, r3⟩
  intro h0
  rw [h0] at r3
  have hu : uR = 1 / 2 ^ 53 := rfl
  rw [hu] at r3
  norm_num at r3

theorem bitLen_pos (s : SZ) (h : s.v ≠ 0) : 1 ≤ s.bitLen := by
  unfold SZ.bitLen; simp [h]

/-- **`PreciseVector.Vector()` of a non-zero exact vector**: finite, not the zero vector, within `3u` (sine of the angle) of the
    exact direction, on the same side, and of unit length up to `20u` (squared). -/
theorem toVector_spec (HS : ScaleSpec) (v : PV) (e : Int) (hnz : v.x.v ≠ 0 ∨ v.y.v ≠ 0 ∨ v.z.v ≠ 0) :
    Fin3 (v.toVector e) ∧ V3.feq (v.toVector e) zero3 = false ∧
    R3.SinLe (ofV (v.toVector e)) (ofI v.toIV3) (3 * uR) ∧
    0 < R3.dot (ofV (v.toVector e)) (ofI v.toIV3) ∧
    |(ofV (v.toVector e)).norm2 - 1| ≤ 20 * uR := by
  rw [C16N.toVector_eq]
  generalize hM : max v.x.bitLen (max v.y.bitLen v.z.bitLen) = M
  have hx : v.x.bitLen ≤ M := by rw [← hM]; exact le_max_left _ _
  have hy : v.y.bitLen ≤ M := by rw [← hM]; exact le_trans (le_max_left _ _) (le_max_right _ _)
  have hz : v.z.bitLen ≤ M := by rw [← hM]; exact le_trans (le_max_right _ _) (le_max_right _ _)
  have hM1 : 1 ≤ M := by
    rcases hnz with h | h | h
    · exact le_trans (bitLen_pos _ h) hx
    · exact le_trans (bitLen_pos _ h) hy
    · exact le_trans (bitLen_pos _ h) hz
  obtain ⟨fx, bx, lx⟩ := C16N.comp_bound v.x M hx
  obtain ⟨fy, by', ly⟩ := C16N.comp_bound v.y M hy
  obtain ⟨fz, bz, lz⟩ := C16N.comp_bound v.z M hz
  have cx := comp_spec v.x M hx
  have cy := comp_spec v.y M hy
  have cz := comp_spec v.z M hz
  have hmax : v.x.bitLen = M ∨ v.y.bitLen = M ∨ v.z.bitLen = M := by
    rw [← hM]
    rcases max_choice v.x.bitLen (max v.y.bitLen v.z.bitLen) with h | h
    · left; exact h.symm
    · rw [h]
      rcases max_choice v.y.bitLen v.z.bitLen with h' | h'
      · right; left; exact h'.symm
      · right; right; exact h'.symm
  have hmax' : 49 / 100 ≤ |val (v.x.toF64 (-(M : ℤ)))| ∨ 49 / 100 ≤ |val (v.y.toF64 (-(M : ℤ)))| ∨
      49 / 100 ≤ |val (v.z.toF64 (-(M : ℤ)))| := by
    rcases hmax with h | h | h
    · exact Or.inl (lx h hM1)
    · exact Or.inr (Or.inl (ly h hM1))
    · exact Or.inr (Or.inr (lz h hM1))
  rw [mul_comm] at cx cy cz
  exact normalize_spec HS (w := V3.mk (v.x.toF64 (-(M : ℤ))) (v.y.toF64 (-(M : ℤ))) (v.z.toF64 (-(M : ℤ))))
    (V := ofI v.toIV3) (k := tw (-(M : ℤ))) (tw_pos _) ⟨fx, fy, fz⟩ bx by' bz cx cy cz hmax'

/-- the zero exact vector gives a float zero vector -/
theorem toVector_zero (v : PV) (e : Int) (hz : v.x.v = 0 ∧ v.y.v = 0 ∧ v.z.v = 0) : V3.feq (v.toVector e) zero3 = true := by
  rw [C16N.toVector_eq]
  have b0 : ∀ s : SZ, s.v = 0 → s.bitLen = 0 := by
    intro s h; unfold SZ.bitLen; simp [h]
  rw [b0 _ hz.1, b0 _ hz.2.1, b0 _ hz.2.2]
  have z : ∀ s : SZ, s.v = 0 → s.toF64 (-((max 0 (max 0 0) : Nat) : ℤ)) = F64.zero s.isNeg := by
    intro s hv
    unfold SZ.toF64
    rw [hv]
    simp only [Int.natAbs_zero, S2Proofs.C16K.roundDyadic_zero]
  rw [z _ hz.1, z _ hz.2.1, z _ hz.2.2]
  have all : ∀ a b c : Bool, V3.feq (V3.mk (F64.zero a) (F64.zero b) (F64.zero c)).normalize zero3 = true := by
    intro a b c
    cases a <;> cases b <;> cases c <;> decide +kernel
  exact all _ _ _

/-! ### `intersectionExact` -/

/-- the non-collinear branch of `intersectionExact`: the exact cross product `X = (a0×a1)×(b0×b1)` of the scaled-integer vectors
    is not zero -/
theorem exact_spec (HS : ScaleSpec) (a0 a1 b0 b1 : V3)
    (hX : ((ofV3 a0).cross (ofV3 a1)).cross ((ofV3 b0).cross (ofV3 b1)) ≠ ⟨0, 0, 0⟩) :
    let X := ((ofV3 a0).cross (ofV3 a1)).cross ((ofV3 b0).cross (ofV3 b1))
    Fin3 (intersectionExact a0 a1 b0 b1) ∧
    R3.SinLe (ofV (intersectionExact a0 a1 b0 b1)) (ofI X) (3 * uR) ∧
    0 < R3.dot (ofV (intersectionExact a0 a1 b0 b1)) (ofI X) ∧
    |(ofV (intersectionExact a0 a1 b0 b1)).norm2 - 1| ≤ 20 * uR := by
  intro X
  have hI : ((S2Proofs.C16K.nrm a0 a1).cross (S2Proofs.C16K.nrm b0 b1)).toIV3 = X := by
    unfold S2Proofs.C16K.nrm
    rw [S2Proofs.C16K.toIV3_cross, S2Proofs.C16K.toIV3_cross, S2Proofs.C16K.toIV3_cross,
      S2Proofs.C16K.toIV3_ofV3, S2Proofs.C16K.toIV3_ofV3, S2Proofs.C16K.toIV3_ofV3, S2Proofs.C16K.toIV3_ofV3]
  have hnz : ((S2Proofs.C16K.nrm a0 a1).cross (S2Proofs.C16K.nrm b0 b1)).x.v ≠ 0 ∨
      ((S2Proofs.C16K.nrm a0 a1).cross (S2Proofs.C16K.nrm b0 b1)).y.v ≠ 0 ∨
      ((S2Proofs.C16K.nrm a0 a1).cross (S2Proofs.C16K.nrm b0 b1)).z.v ≠ 0 := by
    by_contra hc
    have c1 : ((S2Proofs.C16K.nrm a0 a1).cross (S2Proofs.C16K.nrm b0 b1)).x.v = 0 := by
      by_contra h; exact hc (Or.inl h)
    have c2 : ((S2Proofs.C16K.nrm a0 a1).cross (S2Proofs.C16K.nrm b0 b1)).y.v = 0 := by
      by_contra h; exact hc (Or.inr (Or.inl h))
    have c3 : ((S2Proofs.C16K.nrm a0 a1).cross (S2Proofs.C16K.nrm b0 b1)).z.v = 0 := by
      by_contra h; exact hc (Or.inr (Or.inr h))
    apply hX
    show X = ⟨0, 0, 0⟩
    rw [← hI]
    unfold PV.toIV3
    rw [c1, c2, c3]
  obtain ⟨h1, h2, h3, h4, h5⟩ := toVector_spec HS _ (-4296) hnz
  rw [hI] at h3 h4
  have hE : intersectionExact a0 a1 b0 b1 = S2Proofs.C16K.xOf a0 a1 b0 b1 := by
    rw [S2Proofs.C16K.exact_eq]
    unfold S2Proofs.C16K.xOf
    rw [h2]
    simp only [Bool.false_eq_true, if_false]
  rw [hE]
  exact ⟨h1, h3, h4, h5⟩

/-- the same with the hypothesis in the Boolean form `X.isZero = false` -/
theorem exact_spec' (HS : ScaleSpec) (a0 a1 b0 b1 : V3)
    (hX : (((ofV3 a0).cross (ofV3 a1)).cross ((ofV3 b0).cross (ofV3 b1))).isZero = false) :
    let X := ((ofV3 a0).cross (ofV3 a1)).cross ((ofV3 b0).cross (ofV3 b1))
    Fin3 (intersectionExact a0 a1 b0 b1) ∧
    R3.SinLe (ofV (intersectionExact a0 a1 b0 b1)) (ofI X) (3 * uR) ∧
    0 < R3.dot (ofV (intersectionExact a0 a1 b0 b1)) (ofI X) ∧
    |(ofV (intersectionExact a0 a1 b0 b1)).norm2 - 1| ≤ 20 * uR := by
  apply exact_spec HS
  intro h
  rw [h] at hX
  exact absurd hX (by decide)


/-- a float vector of (almost) unit length is not the zero vector -/
theorem feq_zero3_false_of_unit {r : V3} (h : |(ofV r).norm2 - 1| ≤ 20 * uR) : V3.feq r zero3 = false := by
  apply feq_zero3_false
  intro h0
  rw [h0] at h
  have hu : uR = 1 / 2 ^ 53 := rfl
  rw [hu] at h
  norm_num at h

end S2Proofs.C16Acc
