/-
  C16Acc.Final — from a kernel result on the canonical tuple to the exit of `Intersection`:

    `final_of_kernel` : if the kernel (stable or exact) returned a finite point `pt` with
        sin∠(pt, ±Xraw) ≤ ε ≤ 8u   and   | |pt|² − 1 | ≤ 20u       (Xraw = the exact crossing direction of the canonical tuple)
    and both edges are not nearly antipodal (`NotAntipodal`), then the returned point
        q = canonZero (signCorrect pt (sum4 canonical tuple))
    is finite, has the same norm, lies on the side of the sphere where the edges cross (`q·X > 0` for the ORIENTED exact
    crossing `X` of the judge, `IA.exactCrossingClosed` in the caller's argument order) and the judge's verdict is not `no`.

  Ingredients: `Hemi.hemi_margin` (the exact crossing has dot product ≥ 2^-40·|X| with the vertex sum), `Perm.ecc_canon`
  (the judge's crossing does not depend on the argument order), `Sign.signCorrect_pos` (the float hemisphere test is then right),
  `Bridge.canonZero_val`, `Bridge.angleLe_ne_no`.
-/
import S2Proofs.C16Acc.Hemi
import S2Proofs.C16Acc.Sign
import S2Proofs.C16Acc.Perm
import S2Proofs.C16Acc.Hyp
import S2Proofs.C16Acc.Norm

namespace S2Proofs.C16Acc
open S2 S2.Exact S2.EdgeNum S2Proofs.F64Order S2Proofs.FloatErr S2Proofs.C16

/-! ### small casts -/

theorem ofI_add (a b : IV3) : ofI (a.add b) = R3.add (ofI a) (ofI b) := by
  unfold ofI IV3.add R3.add; ext <;> simp

theorem smul_add (c : ℝ) (a b : R3) : R3.smul c (R3.add a b) = R3.add (R3.smul c a) (R3.smul c b) := by
  unfold R3.smul R3.add; ext <;> simp <;> ring

theorem ofI_vsum (a0 a1 b0 b1 : V3) :
    ofI (((ofV3 a0).add (ofV3 a1)).add ((ofV3 b0).add (ofV3 b1)))
      = R3.smul (2 ^ 1074) (R3.add (R3.add (ofV a0) (ofV a1)) (R3.add (ofV b0) (ofV b1))) := by
  rw [ofI_add, ofI_add, ofI_add, ofI_ofV3, ofI_ofV3, ofI_ofV3, ofI_ofV3, smul_add, smul_add, smul_add]

theorem dot_smul_right (c : ℝ) (a b : R3) : R3.dot a (R3.smul c b) = c * R3.dot a b := by
  unfold R3.dot R3.smul; ring

theorem idot_pos_of_real {X : IV3} {a0 a1 b0 b1 : V3}
    (h : 0 < R3.dot (ofI X) (R3.add (R3.add (ofV a0) (ofV a1)) (R3.add (ofV b0) (ofV b1)))) :
    0 < IA.idot X (((ofV3 a0).add (ofV3 a1)).add ((ofV3 b0).add (ofV3 b1))) := by
  have : (0 : ℝ) < ((IA.idot X (((ofV3 a0).add (ofV3 a1)).add ((ofV3 b0).add (ofV3 b1))) : Int) : ℝ) := by
    rw [← ofI_dot, ofI_vsum, dot_smul_right]
    have : (0 : ℝ) < 2 ^ 1074 := by positivity
    positivity
  exact_mod_cast this

theorem ofI_norm_pos {v : IV3} (h : v ≠ ⟨0, 0, 0⟩) : 0 < (ofI v).norm := by
  have h2 : 0 < (ofI v).norm2 := by
    rcases lt_or_eq_of_le (ofI v).norm2_nonneg with hlt | heq
    · exact hlt
    · exfalso
      apply h
      unfold R3.norm2 ofI at heq
      simp only at heq
      have hx : (v.x : ℝ) = 0 := by nlinarith [sq_nonneg (v.x : ℝ), sq_nonneg (v.y : ℝ), sq_nonneg (v.z : ℝ)]
      have hy : (v.y : ℝ) = 0 := by nlinarith [sq_nonneg (v.x : ℝ), sq_nonneg (v.y : ℝ), sq_nonneg (v.z : ℝ)]
      have hz : (v.z : ℝ) = 0 := by nlinarith [sq_nonneg (v.x : ℝ), sq_nonneg (v.y : ℝ), sq_nonneg (v.z : ℝ)]
      cases v
      simp only [IV3.mk.injEq]
      exact ⟨by exact_mod_cast hx, by exact_mod_cast hy, by exact_mod_cast hz⟩
  unfold R3.norm
  exact Real.sqrt_pos.mpr h2

theorem iv3_neg_ne_zero {v : IV3} (h : v ≠ ⟨0, 0, 0⟩) : v.neg ≠ ⟨0, 0, 0⟩ := by
  intro hn
  apply h
  have := congrArg IV3.neg hn
  rw [iv3_neg_neg] at this
  rw [this]; rfl

/-- "not nearly antipodal" in real terms, symmetric -/
def NA (p q : V3) : Prop := 1 / 2 ^ 40 ≤ 1 + R3.dot (ofV p) (ofV q)

theorem NA.symm {p q : V3} (h : NA p q) : NA q p := by
  unfold NA at *
  have : R3.dot (ofV q) (ofV p) = R3.dot (ofV p) (ofV q) := by unfold R3.dot; ring
  rw [this]; exact h

/-- the canonical edges are not nearly antipodal either -/
theorem canon_NA (a0 a1 b0 b1 : V3) (ha : NA a0 a1) (hb : NA b0 b1) :
    NA (canonArgs a0 a1 b0 b1).1 (canonArgs a0 a1 b0 b1).2.1 ∧
    NA (canonArgs a0 a1 b0 b1).2.2.1 (canonArgs a0 a1 b0 b1).2.2.2 := by
  rcases canon_edges a0 a1 b0 b1 with ⟨h1, h2⟩ | ⟨h1, h2⟩
  · constructor
    · rcases h1 with ⟨e1, e2⟩ | ⟨e1, e2⟩ <;> rw [e1, e2]
      · exact ha
      · exact ha.symm
    · rcases h2 with ⟨e1, e2⟩ | ⟨e1, e2⟩ <;> rw [e1, e2]
      · exact hb
      · exact hb.symm
  · constructor
    · rcases h1 with ⟨e1, e2⟩ | ⟨e1, e2⟩ <;> rw [e1, e2]
      · exact hb
      · exact hb.symm
    · rcases h2 with ⟨e1, e2⟩ | ⟨e1, e2⟩ <;> rw [e1, e2]
      · exact ha
      · exact ha.symm

/-- the unit contract in real terms -/
def UnitR (p : V3) : Prop := Fin3 p ∧ |(ofV p).norm2 - 1| ≤ 1 / 2 ^ 50 + 1 / 2 ^ 100

theorem UnitR.le49 {p : V3} (h : UnitR p) : (ofV p).norm2 ≤ 1 + 1 / 2 ^ 49 := by
  have := (abs_le.mp h.2).2
  have e : (1 : ℝ) / 2 ^ 50 + 1 / 2 ^ 100 ≤ 1 / 2 ^ 49 := by norm_num
  linarith

theorem unitR_of_unitPt {p : V3} (h : UnitPt p) : UnitR p := unitPt_real h

/-! ### the exit of `Intersection` -/

theorem final_of_kernel (a0 a1 b0 b1 : V3)
    (u0 : UnitPt a0) (u1 : UnitPt a1) (u2 : UnitPt b0) (u3 : UnitPt b1)
    (hna : NotAntipodal a0 a1) (hnb : NotAntipodal b0 b1)
    (X : IV3) (hX : IA.exactCrossingClosed (ofV3 a0) (ofV3 a1) (ofV3 b0) (ofV3 b1) = some X)
    (pt : V3) (hpt : Fin3 pt) {ε : ℝ} (hε0 : 0 ≤ ε) (hε : ε ≤ 8 * uR)
    (hs : R3.SinLe (ofV pt) (ofI (Xraw (canonArgs a0 a1 b0 b1).1 (canonArgs a0 a1 b0 b1).2.1
            (canonArgs a0 a1 b0 b1).2.2.1 (canonArgs a0 a1 b0 b1).2.2.2)) ε)
    (hu : |(ofV pt).norm2 - 1| ≤ 20 * uR) :
    Fin3 (canonZero (signCorrect pt (sum4 (canonArgs a0 a1 b0 b1).1 (canonArgs a0 a1 b0 b1).2.1
            (canonArgs a0 a1 b0 b1).2.2.1 (canonArgs a0 a1 b0 b1).2.2.2))) ∧
    IA.angleLe (ofV3 (canonZero (signCorrect pt (sum4 (canonArgs a0 a1 b0 b1).1 (canonArgs a0 a1 b0 b1).2.1
            (canonArgs a0 a1 b0 b1).2.2.1 (canonArgs a0 a1 b0 b1).2.2.2)))) X ⟨8, 2 ^ 53⟩ ≠ IA.Tri.no ∧
    R3.SinLe (ofV (canonZero (signCorrect pt (sum4 (canonArgs a0 a1 b0 b1).1 (canonArgs a0 a1 b0 b1).2.1
            (canonArgs a0 a1 b0 b1).2.2.1 (canonArgs a0 a1 b0 b1).2.2.2)))) (ofI X) ε ∧
    0 < R3.dot (ofV (canonZero (signCorrect pt (sum4 (canonArgs a0 a1 b0 b1).1 (canonArgs a0 a1 b0 b1).2.1
            (canonArgs a0 a1 b0 b1).2.2.1 (canonArgs a0 a1 b0 b1).2.2.2)))) (ofI X) ∧
    (ofV (canonZero (signCorrect pt (sum4 (canonArgs a0 a1 b0 b1).1 (canonArgs a0 a1 b0 b1).2.1
            (canonArgs a0 a1 b0 b1).2.2.1 (canonArgs a0 a1 b0 b1).2.2.2)))).norm2 = (ofV pt).norm2 := by
  have r0 := unitR_of_unitPt u0
  have r1 := unitR_of_unitPt u1
  have r2 := unitR_of_unitPt u2
  have r3 := unitR_of_unitPt u3
  have hNa : NA a0 a1 := notAntipodal_real hna
  have hNb : NA b0 b1 := notAntipodal_real hnb
  -- the margin in the caller's order, hence `SumNZ`
  obtain ⟨hXr, hor, hmar⟩ := hemi_margin a0 a1 b0 b1 X hX r0.2 r1.2 r2.2 r3.2 hNa hNb
  have hXne : X ≠ ⟨0, 0, 0⟩ := by
    rcases hor with e | e
    · rw [e]; exact hXr
    · rw [e]; exact iv3_neg_ne_zero hXr
  have hXpos : 0 < (ofI X).norm := ofI_norm_pos hXne
  have hdpos : 0 < R3.dot (ofI X) (R3.add (R3.add (ofV a0) (ofV a1)) (R3.add (ofV b0) (ofV b1))) := by
    have : (0 : ℝ) < 1 / 2 ^ 40 * (ofI X).norm := by positivity
    linarith
  have hipos := idot_pos_of_real hdpos
  have hS : SumNZ (ofV3 a0) (ofV3 a1) (ofV3 b0) (ofV3 b1) := by
    unfold SumNZ
    rcases hor with e | e
    · rw [e] at hipos; exact ne_of_gt hipos
    · rw [e, idot_neg_left] at hipos
      intro h0; rw [h0] at hipos; simp at hipos
  -- the judge's crossing on the canonical tuple
  have hXc := ecc_canon a0 a1 b0 b1 hS
  rw [hX] at hXc
  obtain ⟨c0, c1, c2, c3⟩ := canon_forall UnitR a0 a1 b0 b1 r0 r1 r2 r3
  obtain ⟨hNca, hNcb⟩ := canon_NA a0 a1 b0 b1 hNa hNb
  generalize (canonArgs a0 a1 b0 b1).1 = t0 at *
  generalize (canonArgs a0 a1 b0 b1).2.1 = t1 at *
  generalize (canonArgs a0 a1 b0 b1).2.2.1 = t2 at *
  generalize (canonArgs a0 a1 b0 b1).2.2.2 = t3 at *
  obtain ⟨hXrc, horc, hmarc⟩ := hemi_margin t0 t1 t2 t3 X hXc c0.2 c1.2 c2.2 c3.2 hNca hNcb
  -- the kernel result against the ORIENTED crossing
  have hsX : R3.SinLe (ofV pt) (ofI X) ε := by
    rcases horc with e | e
    · rw [e]; exact hs
    · rw [e, ofI_neg]; exact sinLe_neg_right hs
  have h20 : 20 * uR ≤ 1 / 2 ^ 40 := by unfold uR; norm_num
  have h8 : 8 * uR ≤ 1 / 2 ^ 45 := by unfold uR; norm_num
  obtain ⟨fq, hpos, hsq, hnq⟩ := signCorrect_pos pt t0 t1 t2 t3 (ofI X) (m := 1 / 2 ^ 40) hpt c0.1 c1.1 c2.1 c3.1
    (le_trans hu h20) c0.le49 c1.le49 c2.le49 c3.le49 hsX hε0 (le_trans hε h8) hXpos hmarc (le_refl _)
  obtain ⟨fz, vz⟩ := canonZero_val fq
  refine ⟨fz, ?_, ?_, ?_, ?_⟩
  · apply angleLe_ne_no
    · rw [vz]; exact hpos
    · rw [vz]; exact hsq.mono hε0 hε
  · rw [vz]; exact hsq
  · rw [vz]; exact hpos
  · rw [vz]; exact hnq

/-- the judge's crossing exists for the canonical tuple as well, and its raw direction is not zero -/
theorem canon_crossing (a0 a1 b0 b1 : V3)
    (u0 : UnitPt a0) (u1 : UnitPt a1) (u2 : UnitPt b0) (u3 : UnitPt b1)
    (hna : NotAntipodal a0 a1) (hnb : NotAntipodal b0 b1)
    (X : IV3) (hX : IA.exactCrossingClosed (ofV3 a0) (ofV3 a1) (ofV3 b0) (ofV3 b1) = some X) :
    Xraw (canonArgs a0 a1 b0 b1).1 (canonArgs a0 a1 b0 b1).2.1 (canonArgs a0 a1 b0 b1).2.2.1
      (canonArgs a0 a1 b0 b1).2.2.2 ≠ ⟨0, 0, 0⟩ ∧
    UnitR (canonArgs a0 a1 b0 b1).1 ∧ UnitR (canonArgs a0 a1 b0 b1).2.1 ∧
    UnitR (canonArgs a0 a1 b0 b1).2.2.1 ∧ UnitR (canonArgs a0 a1 b0 b1).2.2.2 := by
  have r0 := unitR_of_unitPt u0
  have r1 := unitR_of_unitPt u1
  have r2 := unitR_of_unitPt u2
  have r3 := unitR_of_unitPt u3
  have hNa : NA a0 a1 := notAntipodal_real hna
  have hNb : NA b0 b1 := notAntipodal_real hnb
  obtain ⟨hXr, hor, hmar⟩ := hemi_margin a0 a1 b0 b1 X hX r0.2 r1.2 r2.2 r3.2 hNa hNb
  have hXne : X ≠ ⟨0, 0, 0⟩ := by
    rcases hor with e | e
    · rw [e]; exact hXr
    · rw [e]; exact iv3_neg_ne_zero hXr
  have hXpos : 0 < (ofI X).norm := ofI_norm_pos hXne
  have hdpos : 0 < R3.dot (ofI X) (R3.add (R3.add (ofV a0) (ofV a1)) (R3.add (ofV b0) (ofV b1))) := by
    have : (0 : ℝ) < 1 / 2 ^ 40 * (ofI X).norm := by positivity
    linarith
  have hipos := idot_pos_of_real hdpos
  have hS : SumNZ (ofV3 a0) (ofV3 a1) (ofV3 b0) (ofV3 b1) := by
    unfold SumNZ
    rcases hor with e | e
    · rw [e] at hipos; exact ne_of_gt hipos
    · rw [e, idot_neg_left] at hipos
      intro h0; rw [h0] at hipos; simp at hipos
  have hXc := ecc_canon a0 a1 b0 b1 hS
  rw [hX] at hXc
  obtain ⟨c0, c1, c2, c3⟩ := canon_forall UnitR a0 a1 b0 b1 r0 r1 r2 r3
  obtain ⟨hNca, hNcb⟩ := canon_NA a0 a1 b0 b1 hNa hNb
  obtain ⟨hXrc, _, _⟩ := hemi_margin _ _ _ _ X hXc c0.2 c1.2 c2.2 c3.2 hNca hNcb
  exact ⟨hXrc, c0, c1, c2, c3⟩

end S2Proofs.C16Acc
