/-
  C16Acc.StableGlue — float glue for the LAST stage of `intersectionStableSorted` (everything after the two projections):
  `C16K.tail` followed by `C16K.finish`.

    * `tail_facts`  : what an accepted result (`finish (tail …) = some r`) tells about the computed quantities, in the
                      form needed by the real-analysis core of the accuracy proof;
    * `bLen_facts`  : the computed length of edge `b`.
-/
import Mathlib.Analysis.Real.Sqrt
import Mathlib.Tactic.Ring
import Mathlib.Tactic.Linarith
import Mathlib.Tactic.Positivity
import Mathlib.Tactic.NormNum
import Mathlib.Tactic.FieldSimp
import S2Proofs.C16Acc.Vec
import S2Proofs.C16Kernel
import S2Proofs.EdgeNumLemmas
import S2Proofs.F64Round
import S2Proofs.FloatErr.Stable
import S2Proofs.FloatErr.Sqrt
import S2Proofs.FloatErr.DotProd
import S2Proofs.FloatErr2.Normal

namespace S2Proofs.C16Acc
open S2 S2.Exact S2.EdgeNum S2Proofs.F64Order S2Proofs.FloatErr S2Proofs.FE2

/-! ### real-number lemmas -/

theorem rnd_lower {u e x y : ℝ} (h : Rnd u e x y) (hx : 0 ≤ x) : (1 - u) * x - e ≤ y := by
  unfold Rnd at h
  rw [abs_of_nonneg hx] at h
  have := (abs_le.mp h).1
  linarith

theorem rnd_upper {u e x y : ℝ} (h : Rnd u e x y) (hx : 0 ≤ x) : y ≤ (1 + u) * x + e := by
  unfold Rnd at h
  rw [abs_of_nonneg hx] at h
  have := (abs_le.mp h).2
  linarith

/-- the monotone step used all along the lower-bound chain -/
theorem lb_step {c X M a : ℝ} (hc0 : 0 ≤ c) (hc1 : c ≤ 1) (ha : 0 ≤ a) (h : M - a ≤ X) : c * M - a ≤ c * X := by
  have h1 : c * (M - a) ≤ c * X := mul_le_mul_of_nonneg_left h hc0
  have h2 : c * a ≤ 1 * a := mul_le_mul_of_nonneg_right hc1 ha
  linarith

theorem abs_sub_of_mul_nonpos_F {x y : ℝ} (h : x * y ≤ 0) : |x - y| = |x| + |y| := by
  rcases le_total 0 x with hx | hx <;> rcases le_total 0 y with hy | hy
  · have h0 : x * y = 0 := le_antisymm h (mul_nonneg hx hy)
    rcases mul_eq_zero.mp h0 with rfl | rfl <;> simp
  · rw [abs_of_nonneg hx, abs_of_nonpos hy, abs_of_nonneg (by linarith)]; ring
  · rw [abs_of_nonpos hx, abs_of_nonneg hy, abs_of_nonpos (by linarith)]; ring
  · have h0 : x * y = 0 := le_antisymm h (by nlinarith)
    rcases mul_eq_zero.mp h0 with rfl | rfl <;> simp

/-- one component of `fl(fl(d0·b1) − fl(d1·b0))` -/
theorem comp_x {u e p q P Q X : ℝ} (hu : 0 ≤ u) (hP : Rnd u e p P) (hQ : Rnd u e q Q) (hX : Rnd u 0 (P - Q) X) :
    |X - (p - q)| ≤ (u + u ^ 2) * |p| + (u + u ^ 2) * |q| + u * |p - q| + 2 * (1 + u) * e := by
  unfold Rnd at hP hQ hX
  have t1 : |X - (p - q)| ≤ |X - (P - Q)| + |P - p| + |Q - q| := by
    have e1 : X - (p - q) = (X - (P - Q)) + (P - p) + -(Q - q) := by ring
    rw [e1]
    have := abs_add_three (X - (P - Q)) (P - p) (-(Q - q))
    rwa [abs_neg] at this
  have t2 : |P - Q| ≤ |p - q| + |P - p| + |Q - q| := by
    have e1 : P - Q = (p - q) + (P - p) + -(Q - q) := by ring
    rw [e1]
    have := abs_add_three (p - q) (P - p) (-(Q - q))
    rwa [abs_neg] at this
  have t3 : u * |P - Q| ≤ u * (|p - q| + |P - p| + |Q - q|) := mul_le_mul_of_nonneg_left t2 hu
  have t4 : u * |P - p| ≤ u * (u * |p| + e) := mul_le_mul_of_nonneg_left hP hu
  have t5 : u * |Q - q| ≤ u * (u * |q| + e) := mul_le_mul_of_nonneg_left hQ hu
  linarith

/-- the numerator `|fl(fl(d0·e1) − fl(d1·e0))|` when `d0`, `d1` have opposite signs -/
theorem num_lower {u e d0 d1 e0 e1 m1 m2 m3 : ℝ} (hu0 : 0 ≤ u) (hu1 : u ≤ 1) (he : 0 ≤ e)
    (hopp : d0 * d1 ≤ 0) (h0 : 0 ≤ e0) (h1 : 0 ≤ e1)
    (r1 : Rnd u e (d0 * e1) m1) (r2 : Rnd u e (d1 * e0) m2) (r3 : Rnd u 0 (m1 - m2) m3) :
    (1 - u) ^ 2 * (|d0| * e1 + |d1| * e0) - 2 * e ≤ |m3| := by
  unfold Rnd at r1 r2 r3
  have hs : (d0 * e1) * (d1 * e0) ≤ 0 := by
    have := mul_nonneg (neg_nonneg.mpr hopp) (mul_nonneg h0 h1)
    nlinarith
  have hA := abs_sub_of_mul_nonpos_F hs
  rw [abs_mul, abs_mul, abs_of_nonneg h0, abs_of_nonneg h1] at hA
  rw [abs_mul, abs_of_nonneg h1] at r1
  rw [abs_mul, abs_of_nonneg h0] at r2
  set A := |d0| * e1 + |d1| * e0 with hAdef
  have tri : |d0 * e1 - d1 * e0| ≤ |m1 - m2| + |m1 - d0 * e1| + |m2 - d1 * e0| := by
    have e1' : d0 * e1 - d1 * e0 = (m1 - m2) + -(m1 - d0 * e1) + (m2 - d1 * e0) := by ring
    rw [e1']
    have := abs_add_three (m1 - m2) (-(m1 - d0 * e1)) (m2 - d1 * e0)
    rwa [abs_neg] at this
  have h12 : (1 - u) * A - 2 * e ≤ |m1 - m2| := by
    have : u * A = u * (|d0| * e1) + u * (|d1| * e0) := by rw [hAdef]; ring
    linarith
  have h3 : |m1 - m2| - |m3| ≤ |m3 - (m1 - m2)| := by
    rw [abs_sub_comm m3]; exact abs_sub_abs_le_abs_sub _ _
  have hc : 0 ≤ 1 - u := by linarith
  have h4 : (1 - u) * ((1 - u) * A - 2 * e) ≤ (1 - u) * |m1 - m2| := mul_le_mul_of_nonneg_left h12 hc
  have h5 : 0 ≤ u * e := mul_nonneg hu0 he
  have e6 : (1 - u) * ((1 - u) * A - 2 * e) = (1 - u) ^ 2 * A - 2 * e + 2 * (u * e) := by ring
  linarith

theorem one_sub_pow6 {u : ℝ} (hu0 : 0 ≤ u) (hu1 : u ≤ 1) : 1 - 8 * u ≤ (1 - u) ^ 6 := by
  have h := one_add_mul_le_pow (show (-2 : ℝ) ≤ -u by linarith) 6
  have e : (1 : ℝ) + (6 : ℕ) * -u = 1 - 6 * u := by push_cast; ring
  have e2 : (1 : ℝ) + -u = 1 - u := by ring
  rw [e, e2] at h
  linarith

/-- the lower bound of the computed error estimate
    `fl( fl(fl(L·|m3|) / den) + fl(fl(2·dS)·u) )`, given the lower bound of the numerator -/
theorem err_lower {u e L A D G den m3a m4 q dS t1 t2 err : ℝ}
    (hu0 : 0 ≤ u) (hu1 : u ≤ 1 / 8) (he : 0 ≤ e)
    (hL0 : 0 ≤ L) (hL : L ≤ 8) (hA : 0 ≤ A) (hD : 0 < D) (hG : 0 < G) (hGden : G ≤ den)
    (hm3 : (1 - u) ^ 2 * A - 2 * e ≤ m3a) (hm3a : 0 ≤ m3a)
    (r4 : Rnd u e (L * m3a) m4) (hm4 : 0 ≤ m4)
    (rden : Rnd u 0 D den)
    (rq : Rnd u e (m4 / den) q)
    (hdS : 0 ≤ dS) (rt1 : Rnd u e (2 * dS) t1) (ht1 : 0 ≤ t1) (rt2 : Rnd u e (t1 * u) t2)
    (hq0 : 0 ≤ q) (ht2 : 0 ≤ t2)
    (rerr : Rnd u 0 (q + t2) err) :
    (1 - 8 * u) * (L * A / D + 2 * u * dS) - (17 * e / G + 3 * e) ≤ err := by
  have hc0 : 0 ≤ 1 - u := by linarith
  have hc1 : 1 - u ≤ 1 := by linarith
  set c := 1 - u with hc
  have hden : 0 < den := lt_of_lt_of_le hG hGden
  -- numerator
  have s3 : L * (c ^ 2 * A) - 16 * e ≤ L * m3a := by
    have h1 : L * (c ^ 2 * A - 2 * e) ≤ L * m3a := mul_le_mul_of_nonneg_left hm3 hL0
    have h2 : L * e ≤ 8 * e := mul_le_mul_of_nonneg_right hL he
    linarith
  have s4 : c * (L * (c ^ 2 * A)) - 17 * e ≤ m4 := by
    have h1 := rnd_lower r4 (mul_nonneg hL0 hm3a)
    have h2 := lb_step hc0 hc1 (by linarith : (0 : ℝ) ≤ 16 * e) s3
    linarith
  -- the quotient
  set K := L * A / D with hK
  have hK0 : 0 ≤ K := div_nonneg (mul_nonneg hL0 hA) hD.le
  have hKD : K * D = L * A := by rw [hK]; field_simp
  have hdu := rnd_upper rden hD.le
  have hcden : c * den ≤ D := by
    have h1 : c * den ≤ c * ((1 + u) * D + 0) := mul_le_mul_of_nonneg_left hdu hc0
    have h2 : 0 ≤ u ^ 2 * D := by positivity
    have e1 : c * ((1 + u) * D + 0) = D - u ^ 2 * D := by rw [hc]; ring
    linarith
  have s5 : c ^ 4 * K * den - 17 * e ≤ m4 := by
    have h1 : c ^ 3 * K * (c * den) ≤ c ^ 3 * K * D := mul_le_mul_of_nonneg_left hcden (by positivity)
    have e1 : c ^ 3 * K * D = c * (L * (c ^ 2 * A)) := by
      have : c ^ 3 * K * D = c ^ 3 * (K * D) := by ring
      rw [this, hKD]; ring
    have e2 : c ^ 3 * K * (c * den) = c ^ 4 * K * den := by ring
    linarith
  have hX0 : 0 ≤ 17 * e / G := by positivity
  have s6 : c ^ 4 * K - 17 * e / G ≤ m4 / den := by
    have h1 : 17 * e / den ≤ 17 * e / G := div_le_div_of_nonneg_left (by linarith) hG hGden
    have h2 : c ^ 4 * K - 17 * e / den ≤ m4 / den := by
      rw [le_div_iff₀ hden]
      have e1 : (c ^ 4 * K - 17 * e / den) * den = c ^ 4 * K * den - 17 * e := by field_simp
      linarith
    linarith
  have hq : 0 ≤ m4 / den := div_nonneg hm4 hden.le
  have s7 : c ^ 5 * K - 17 * e / G - e ≤ q := by
    have h1 := rnd_lower rq hq
    have h2 := lb_step hc0 hc1 hX0 s6
    have e1 : c * (c ^ 4 * K) = c ^ 5 * K := by ring
    linarith
  -- the second term
  have s8 : c * (2 * dS) - e ≤ t1 := rnd_lower rt1 (by linarith)
  have s9 : c ^ 2 * (2 * u * dS) - 2 * e ≤ t2 := by
    have h1 := rnd_lower rt2 (mul_nonneg ht1 hu0)
    have hcu0 : 0 ≤ c * u := mul_nonneg hc0 hu0
    have hcu1 : c * u ≤ 1 := by nlinarith
    have h2 := lb_step hcu0 hcu1 he s8
    have e1 : c * (t1 * u) = c * u * t1 := by ring
    have e2 : c * u * (c * (2 * dS)) = c ^ 2 * (2 * u * dS) := by ring
    linarith
  -- the sum
  have s10 : c ^ 5 * K + c ^ 2 * (2 * u * dS) - (17 * e / G + 3 * e) ≤ q + t2 := by linarith
  have s11 : c * (c ^ 5 * K + c ^ 2 * (2 * u * dS)) - (17 * e / G + 3 * e) ≤ err := by
    have h1 := rnd_lower rerr (by linarith : 0 ≤ q + t2)
    have h2 := lb_step hc0 hc1 (by linarith : (0 : ℝ) ≤ 17 * e / G + 3 * e) s10
    linarith
  have hT0 : 0 ≤ 2 * u * dS := by positivity
  have hc3 : c ^ 6 ≤ c ^ 3 := pow_le_pow_of_le_one hc0 hc1 (by norm_num)
  have s12 : c ^ 6 * (2 * u * dS) ≤ c ^ 3 * (2 * u * dS) := mul_le_mul_of_nonneg_right hc3 hT0
  have s13 : (1 - 8 * u) * (K + 2 * u * dS) ≤ c ^ 6 * (K + 2 * u * dS) :=
    mul_le_mul_of_nonneg_right (one_sub_pow6 hu0 (by linarith)) (by linarith)
  have e3 : c * (c ^ 5 * K + c ^ 2 * (2 * u * dS)) = c ^ 6 * K + c ^ 3 * (2 * u * dS) := by ring
  have e4 : c ^ 6 * (K + 2 * u * dS) = c ^ 6 * K + c ^ 6 * (2 * u * dS) := by ring
  linarith

/-! ### constants -/

theorem minNormal_facts : Fin minNormalF ∧ val minNormalF = 1 / 2 ^ 1022 := by
  have h : Fin minNormalF ∧ toInt minNormalF = 2 ^ 52 := by decide +kernel
  refine ⟨h.1, ?_⟩
  unfold val
  rw [h.2]
  push_cast
  have e : (2 : ℝ) ^ 1074 = 2 ^ 52 * 2 ^ 1022 := by rw [← pow_add]
  rw [e]
  field_simp
  norm_num

theorem tErr_facts : Fin tErr ∧ val tErr = uR := by
  have h : Fin tErr ∧ toInt tErr = 2 ^ 1021 := by decide +kernel
  refine ⟨h.1, ?_⟩
  unfold val uR
  rw [h.2]
  push_cast
  have e : (2 : ℝ) ^ 1074 = 2 ^ 1021 * 2 ^ 53 := by rw [← pow_add]
  rw [e]
  field_simp

theorem f2_facts : Fin f2 ∧ val f2 = 2 := by
  have h : Fin f2 ∧ toInt f2 = 2 * 2 ^ 1074 := by decide +kernel
  refine ⟨h.1, ?_⟩
  unfold val
  rw [h.2]
  push_cast
  field_simp

/-- `θ0 = intersectionError − tErr` is slightly below `7u` -/
theorem theta0_facts : Fin (intersectionErrorF - tErr) ∧ 0 < val (intersectionErrorF - tErr) ∧
    val (intersectionErrorF - tErr) ≤ 7 * uR - 1 / 2 ^ 101 := by
  have h : Fin (intersectionErrorF - tErr) ∧ 0 < toInt (intersectionErrorF - tErr) ∧
      toInt (intersectionErrorF - tErr) ≤ 7 * 2 ^ 1021 - 2 ^ 973 := by decide +kernel
  obtain ⟨h1, h2, h3⟩ := h
  refine ⟨h1, ?_, ?_⟩
  · unfold val
    apply div_pos _ (by positivity)
    exact_mod_cast h2
  · unfold val uR
    rw [div_le_iff₀ (by positivity)]
    have h3' : (toInt (intersectionErrorF - tErr) : ℝ) ≤ 7 * 2 ^ 1021 - 2 ^ 973 := by exact_mod_cast h3
    have e1 : (2 : ℝ) ^ 1074 = 2 ^ 1021 * 2 ^ 53 := by rw [← pow_add]
    have e2 : (2 : ℝ) ^ 1074 = 2 ^ 973 * 2 ^ 101 := by rw [← pow_add]
    have e3 : (7 * (1 / 2 ^ 53) - 1 / 2 ^ 101) * (2 : ℝ) ^ 1074 = 7 * 2 ^ 1021 - 2 ^ 973 := by
      rw [sub_mul]
      congr 1
      · rw [e1]; field_simp
      · rw [e2]; field_simp
    rw [e3]
    exact h3'

/-! ### transfer of the ℚ-valued rounding lemmas -/

theorem val_abs' (x : F64) (hx : Fin x) : Fin (F64.abs x) ∧ val (F64.abs x) = |val x| := by
  obtain ⟨h1, h2⟩ := abs_spec x hx
  refine ⟨h1, ?_⟩
  unfold val
  rw [h2, abs_div, abs_of_pos (by positivity : (0 : ℝ) < 2 ^ 1074)]
  push_cast
  rfl

theorem isRound_nonneg {r : F64} {Q : ℚ} (h : F64Round.IsRound r Q) (hf : Fin r) (hQ : 0 ≤ Q) : 0 ≤ val r := by
  have fz : Fin (F64.zero false) ∧ toInt (F64.zero false) = 0 := by decide
  have hz := F64Round.isRound_self fz.1
  have vz : F64Round.val (F64.zero false) = 0 := by
    unfold F64Round.val; rw [fz.2]; simp
  rw [vz] at hz
  have hle := F64Round.IsRound.mono hz h hQ
  have h0 := (le_iff fz.1 hf).mp hle
  rw [fz.2] at h0
  unfold val
  apply div_nonneg _ (by positivity)
  exact_mod_cast h0

theorem mul_nn {x y : F64} (hx : Fin x) (hy : Fin y) (hf : Fin (x * y)) (h : 0 ≤ val x * val y) : 0 ≤ val (x * y) := by
  apply isRound_nonneg (F64Round.isRound_mul hx hy) hf
  have : (0 : ℝ) ≤ ((F64Round.val x * F64Round.val y : ℚ) : ℝ) := by
    push_cast; rw [← val_cast, ← val_cast]; exact h
  exact_mod_cast this

theorem add_nn {x y : F64} (hx : Fin x) (hy : Fin y) (hf : Fin (x + y)) (h : 0 ≤ val x + val y) : 0 ≤ val (x + y) := by
  apply isRound_nonneg (F64Round.isRound_add hx hy) hf
  have : (0 : ℝ) ≤ ((F64Round.val x + F64Round.val y : ℚ) : ℝ) := by
    push_cast; rw [← val_cast, ← val_cast]; exact h
  exact_mod_cast this

theorem two_pow_lt_max : (2 : ℚ) ^ 1000 < 2 ^ 1024 - 2 ^ 970 := by
  have e1 : (2 : ℚ) ^ 1024 = 2 ^ 970 * 2 ^ 54 := by rw [← pow_add]
  have e2 : (2 : ℚ) ^ 1000 = 2 ^ 970 * 2 ^ 30 := by rw [← pow_add]
  have p : (0 : ℚ) < 2 ^ 970 := by positivity
  have h : (2 : ℚ) ^ 30 < 2 ^ 54 - 1 := by norm_num
  rw [e1, e2]
  generalize (2 : ℚ) ^ 970 = A at p ⊢
  have := mul_lt_mul_of_pos_left h p
  linarith

/-- division in a harmless range: finite, standard model with the subnormal term -/
theorem div_step {x y : F64} (hx : Fin x) (hy : Fin y) (hy0 : val y ≠ 0) (hb : |val x / val y| ≤ 2 ^ 1000) :
    Fin (x / y) ∧ Rnd uR eR (val x / val y) (val (x / y)) ∧ (0 ≤ val x / val y → 0 ≤ val (x / y)) := by
  have hz : y.isZero = false := isZero_false_of_val_ne hy0
  have hcast : ((F64Round.val x / F64Round.val y : ℚ) : ℝ) = val x / val y := by
    push_cast; rw [← val_cast, ← val_cast]
  have hbQ : |F64Round.val x / F64Round.val y| ≤ (2 : ℚ) ^ 1000 := by
    have : ((|F64Round.val x / F64Round.val y| : ℚ) : ℝ) ≤ (((2 : ℚ) ^ 1000 : ℚ) : ℝ) := by
      rw [Rat.cast_abs, hcast]; push_cast; exact hb
    exact_mod_cast this
  have hfin : Fin (F64.div x y) := F64Round.div_fin_of_lt hx hy hz (lt_of_le_of_lt hbQ two_pow_lt_max)
  have hr := F64Round.isRound_div hx hy hz
  refine ⟨hfin, ?_, ?_⟩
  · show |val (F64.div x y) - val x / val y| ≤ uR * |val x / val y| + eR
    have hn0 : 0 ≤ uR * |val x / val y| := mul_nonneg uR_nonneg (abs_nonneg _)
    have he0 := eR_nonneg
    by_cases hlow : 1 / 2 ^ 1022 ≤ |F64Round.val x / F64Round.val y|
    · have herr := hr.rel_err hfin hlow
      have hR : ((|F64Round.val (F64.div x y) - F64Round.val x / F64Round.val y| : ℚ) : ℝ)
          ≤ ((|F64Round.val x / F64Round.val y| / 2 ^ 53 : ℚ) : ℝ) := Rat.cast_le.mpr herr
      rw [Rat.cast_abs, Rat.cast_div, Rat.cast_abs, Rat.cast_sub, hcast, ← val_cast] at hR
      push_cast at hR
      unfold uR
      have e : |val x / val y| / 2 ^ 53 = 1 / 2 ^ 53 * |val x / val y| := by ring
      linarith
    · have hhi : |F64Round.val x / F64Round.val y| < 1 / 2 ^ 1021 := by
        have h1 : (1 : ℚ) / 2 ^ 1022 ≤ 1 / 2 ^ 1021 :=
          one_div_le_one_div_of_le (by positivity) (pow_le_pow_right₀ (by norm_num) (by norm_num))
        exact lt_of_lt_of_le (not_le.mp hlow) h1
      have herr := hr.abs_err hhi
      have hR : ((|F64Round.val (F64.div x y) - F64Round.val x / F64Round.val y| : ℚ) : ℝ)
          ≤ ((1 / 2 ^ 1075 : ℚ) : ℝ) := Rat.cast_le.mpr herr
      rw [Rat.cast_abs, Rat.cast_sub, hcast, ← val_cast] at hR
      push_cast at hR
      unfold eR
      linarith
  · intro h0
    apply isRound_nonneg hr hfin
    have : (0 : ℝ) ≤ ((F64Round.val x / F64Round.val y : ℚ) : ℝ) := by rw [hcast]; exact h0
    exact_mod_cast this

/-- `add` with the raw no-overflow hypothesis -/
theorem add_step_raw {x y : F64} (hx : Fin x) (hy : Fin y) (hv : |val x + val y| < 2 ^ 1000) :
    Fin (x + y) ∧ Rnd uR 0 (val x + val y) (val (x + y)) := by
  obtain ⟨δ, hδ, hv', hf⟩ := stdModel.add x y hx hy hv
  refine ⟨hf, ?_⟩
  show |val (F64.add x y) - (val x + val y)| ≤ uR * |val x + val y| + 0
  rw [hv']
  have e1 : (val x + val y) * (1 + δ) - (val x + val y) = δ * (val x + val y) := by ring
  rw [e1, abs_mul, add_zero]
  exact mul_le_mul_of_nonneg_right hδ (abs_nonneg _)

/-! ### comparisons -/

theorem val_le_of_lt_false {a b : F64} (ha : Fin a) (hb : Fin b) (h : F64.lt a b = false) : val b ≤ val a := by
  by_contra hc
  have h1 := (val_lt_iff a b).mp (not_le.mp hc)
  have h2 := (lt_iff ha hb).mpr h1
  rw [h] at h2
  cases h2

theorem val_lt_of_le_false {a b : F64} (ha : Fin a) (hb : Fin b) (h : F64.le a b = false) : val b < val a := by
  by_contra hc
  have h1 : ¬ toInt b < toInt a := fun hh => hc ((val_lt_iff b a).mpr hh)
  have h2 := (le_iff ha hb).mpr (not_lt.mp h1)
  rw [h] at h2
  cases h2

/-! ### the vector `x = fl(d0·b1) − fl(d1·b0)` -/

theorem small_err {t M : ℝ} (ht : |t| ≤ M) (hM : M ≤ 2 ^ 40) : uR * |t| + eR ≤ 1 := by
  have h1 : uR * |t| ≤ 1 / 2 ^ 53 * 2 ^ 40 :=
    mul_le_mul (by unfold uR; exact le_refl _) (le_trans ht hM) (abs_nonneg _) (by positivity)
  have h2 := eR_le
  have h3 : (1 : ℝ) / 2 ^ 53 * 2 ^ 40 + 1 / 2 ^ 250 ≤ 1 := by norm_num
  linarith

/-- growth of a rounded value: at most `+1` in the range of interest -/
theorem rnd_grow {e x y M : ℝ} (he : e ≤ eR) (h : Rnd uR e x y) (hM : |x| ≤ M) (hM' : M ≤ 2 ^ 40) : |y| ≤ M + 1 := by
  have h1 := h.abs_le
  have h2 := small_err hM hM'
  have e1 : (1 + uR) * |x| + e = |x| + uR * |x| + e := by ring
  linarith

theorem x_comp {d0 d1 p0 p1 : F64} (fd0 : Fin d0) (fd1 : Fin d1) (fp0 : Fin p0) (fp1 : Fin p1)
    (md0 : |val d0| ≤ 2 ^ 10) (md1 : |val d1| ≤ 2 ^ 10) (m0 : |val p0| ≤ 2) (m1 : |val p1| ≤ 2) :
    Fin (d0 * p1 - d1 * p0) ∧ |val (d0 * p1 - d1 * p0)| ≤ 2 ^ 13 ∧
    |val (d0 * p1 - d1 * p0) - (val d0 * val p1 - val d1 * val p0)|
      ≤ (uR + uR ^ 2) * |val d0 * val p1| + (uR + uR ^ 2) * |val d1 * val p0|
        + uR * |val d0 * val p1 - val d1 * val p0| + 2 * (1 + uR) * eR := by
  have hp : |val d0 * val p1| ≤ 2 ^ 11 := by
    have := abs_mul_le_of md0 m1; norm_num at this ⊢; linarith
  have hq : |val d1 * val p0| ≤ 2 ^ 11 := by
    have := abs_mul_le_of md1 m0; norm_num at this ⊢; linarith
  obtain ⟨f1, r1, _⟩ := mul_step stdModel fd0 fp1 hp (by norm_num)
  obtain ⟨f2, r2, _⟩ := mul_step stdModel fd1 fp0 hq (by norm_num)
  have g1 := rnd_grow (le_refl _) r1 hp (by norm_num)
  have g2 := rnd_grow (le_refl _) r2 hq (by norm_num)
  have m3 : |val (d0 * p1) - val (d1 * p0)| ≤ 2 ^ 12 + 2 := by
    have := abs_sub (val (d0 * p1)) (val (d1 * p0))
    norm_num at this g1 g2 ⊢; linarith
  obtain ⟨f3, r3, _⟩ := sub_step stdModel f1 f2 m3 (by norm_num)
  have g3 := rnd_grow eR_nonneg r3 m3 (by norm_num)
  refine ⟨f3, ?_, comp_x uR_nonneg r1 r2 r3⟩
  norm_num at g3 ⊢; linarith

namespace R3

/-- three-term variant of `norm_le_of_comp` -/
theorem norm_le_of_comp3 {v p q w : R3} {α β ζ γ : ℝ} (hα : 0 ≤ α) (hβ : 0 ≤ β) (hζ : 0 ≤ ζ) (hγ : 0 ≤ γ)
    (hx : |v.x| ≤ α * |p.x| + β * |q.x| + ζ * |w.x| + γ) (hy : |v.y| ≤ α * |p.y| + β * |q.y| + ζ * |w.y| + γ)
    (hz : |v.z| ≤ α * |p.z| + β * |q.z| + ζ * |w.z| + γ) :
    v.norm ≤ α * p.norm + β * q.norm + ζ * w.norm + 2 * γ := by
  have h := norm_le_of_abs_le (v := v)
    (w := add (add (add (smul α p.abs) (smul β q.abs)) (smul ζ w.abs)) ⟨γ, γ, γ⟩)
    (by simpa [add, smul, abs] using hx) (by simpa [add, smul, abs] using hy) (by simpa [add, smul, abs] using hz)
  have h1 := norm_add_le (add (add (smul α p.abs) (smul β q.abs)) (smul ζ w.abs)) ⟨γ, γ, γ⟩
  have h2 := norm_add_le (add (smul α p.abs) (smul β q.abs)) (smul ζ w.abs)
  have h3 := norm_add_le (smul α p.abs) (smul β q.abs)
  rw [norm_smul, norm_smul, norm_abs, norm_abs, abs_of_nonneg hα, abs_of_nonneg hβ] at h3
  rw [norm_smul, norm_abs, abs_of_nonneg hζ] at h2
  have h4 : (⟨γ, γ, γ⟩ : R3).norm ≤ 2 * γ :=
    norm_le_of_comp_le hγ (by simp [abs_of_nonneg hγ]) (by simp [abs_of_nonneg hγ]) (by simp [abs_of_nonneg hγ])
  linarith

end R3

theorem eight_eR_le : 8 * eR ≤ 1 / 2 ^ 1000 := by
  unfold eR
  have e : (2 : ℝ) ^ 1075 = 2 ^ 1000 * 2 ^ 75 := by rw [← pow_add]
  rw [e]
  have p : (0 : ℝ) < 2 ^ 1000 := by positivity
  generalize (2 : ℝ) ^ 1000 = A at p ⊢
  rw [show (8 : ℝ) * (1 / (A * 2 ^ 75)) = (8 / 2 ^ 75) / A by field_simp]
  rw [div_le_div_iff_of_pos_right p]
  norm_num

theorem tail_x_facts (d0 d1 : F64) (b0 b1 : V3) (hb0 : Fin3 b0) (hb1 : Fin3 b1)
    (mb0 : |val b0.x| ≤ 2 ∧ |val b0.y| ≤ 2 ∧ |val b0.z| ≤ 2) (mb1 : |val b1.x| ≤ 2 ∧ |val b1.y| ≤ 2 ∧ |val b1.z| ≤ 2)
    (fd0 : Fin d0) (fd1 : Fin d1) (md0 : |val d0| ≤ 2 ^ 10) (md1 : |val d1| ≤ 2 ^ 10) :
    Fin3 ((b1.mul d0).sub (b0.mul d1)) ∧
    (|val ((b1.mul d0).sub (b0.mul d1)).x| ≤ 2 ^ 13 ∧ |val ((b1.mul d0).sub (b0.mul d1)).y| ≤ 2 ^ 13 ∧
      |val ((b1.mul d0).sub (b0.mul d1)).z| ≤ 2 ^ 13) ∧
    (R3.sub (ofV ((b1.mul d0).sub (b0.mul d1)))
        (R3.sub (R3.smul (val d0) (ofV b1)) (R3.smul (val d1) (ofV b0)))).norm
      ≤ (uR + uR ^ 2) * (|val d0| * (ofV b1).norm + |val d1| * (ofV b0).norm)
        + uR * (R3.sub (R3.smul (val d0) (ofV b1)) (R3.smul (val d1) (ofV b0))).norm + 1 / 2 ^ 1000 := by
  obtain ⟨f01, f02, f03⟩ := hb0
  obtain ⟨f11, f12, f13⟩ := hb1
  obtain ⟨m01, m02, m03⟩ := mb0
  obtain ⟨m11, m12, m13⟩ := mb1
  obtain ⟨fx, gx, cx⟩ := x_comp fd0 fd1 f01 f11 md0 md1 m01 m11
  obtain ⟨fy, gy, cy⟩ := x_comp fd0 fd1 f02 f12 md0 md1 m02 m12
  obtain ⟨fz, gz, cz⟩ := x_comp fd0 fd1 f03 f13 md0 md1 m03 m13
  refine ⟨⟨fx, fy, fz⟩, ⟨gx, gy, gz⟩, ?_⟩
  have hu := uR_nonneg
  have he := eR_nonneg
  have hα : 0 ≤ uR + uR ^ 2 := add_nonneg hu (pow_nonneg hu 2)
  have hγ : 0 ≤ 2 * (1 + uR) * eR := mul_nonneg (mul_nonneg (by norm_num) (by linarith)) he
  have h := R3.norm_le_of_comp3
    (v := R3.sub (ofV ((b1.mul d0).sub (b0.mul d1))) (R3.sub (R3.smul (val d0) (ofV b1)) (R3.smul (val d1) (ofV b0))))
    (p := R3.smul (val d0) (ofV b1)) (q := R3.smul (val d1) (ofV b0))
    (w := R3.sub (R3.smul (val d0) (ofV b1)) (R3.smul (val d1) (ofV b0)))
    hα hα hu hγ cx cy cz
  rw [R3.norm_smul, R3.norm_smul] at h
  have h8 := eight_eR_le
  have hu1 := uR_le_one
  have h9 : 2 * (2 * (1 + uR) * eR) ≤ 8 * eR := by
    have : uR * eR ≤ 1 * eR := mul_le_mul_of_nonneg_right hu1 he
    linarith
  have e1 : (uR + uR ^ 2) * (|val d0| * (ofV b1).norm + |val d1| * (ofV b0).norm)
      = (uR + uR ^ 2) * (|val d0| * (ofV b1).norm) + (uR + uR ^ 2) * (|val d1| * (ofV b0).norm) := by ring
  linarith

/-! ### the squared length, the length, the acceptance test -/

theorem norm2_fin (x : V3) (hx : Fin3 x)
    (mx : |val x.x| ≤ 2 ^ 13 ∧ |val x.y| ≤ 2 ^ 13 ∧ |val x.z| ≤ 2 ^ 13) : Fin x.norm2 := by
  obtain ⟨h1, h2, h3⟩ := hx
  obtain ⟨m1, m2, m3⟩ := mx
  have p1 : |val x.x * val x.x| ≤ 2 ^ 26 := by have := abs_mul_le_of m1 m1; norm_num at this ⊢; linarith
  have p2 : |val x.y * val x.y| ≤ 2 ^ 26 := by have := abs_mul_le_of m2 m2; norm_num at this ⊢; linarith
  have p3 : |val x.z * val x.z| ≤ 2 ^ 26 := by have := abs_mul_le_of m3 m3; norm_num at this ⊢; linarith
  obtain ⟨fq1, rq1, _⟩ := mul_step stdModel h1 h1 p1 (by norm_num)
  obtain ⟨fq2, rq2, _⟩ := mul_step stdModel h2 h2 p2 (by norm_num)
  obtain ⟨fq3, rq3, _⟩ := mul_step stdModel h3 h3 p3 (by norm_num)
  have g1 := rnd_grow (le_refl _) rq1 p1 (by norm_num)
  have g2 := rnd_grow (le_refl _) rq2 p2 (by norm_num)
  have g3 := rnd_grow (le_refl _) rq3 p3 (by norm_num)
  have ms : |val (x.x * x.x) + val (x.y * x.y)| ≤ 2 ^ 27 + 2 := by
    have := abs_add_le (val (x.x * x.x)) (val (x.y * x.y)); norm_num at this g1 g2 ⊢; linarith
  obtain ⟨fs, rs, _⟩ := add_step stdModel fq1 fq2 ms (by norm_num)
  have gs := rnd_grow eR_nonneg rs ms (by norm_num)
  have md : |val (x.x * x.x + x.y * x.y) + val (x.z * x.z)| ≤ 2 ^ 28 := by
    have := abs_add_le (val (x.x * x.x + x.y * x.y)) (val (x.z * x.z)); norm_num at this gs g3 ⊢; linarith
  obtain ⟨fd, _, _⟩ := add_step stdModel fs fq3 md (by norm_num)
  exact fd

theorem eR_le_613 : eR ≤ 1 / 2 ^ 101 * (1 / 2 ^ 512) := by
  unfold eR
  rw [div_mul_div_comm, one_mul, ← pow_add]
  exact one_div_le_one_div_of_le (by positivity) (pow_le_pow_right₀ (by norm_num) (by norm_num))

theorem sq_512 : ((1 : ℝ) / 2 ^ 512) ^ 2 = 1 / 2 ^ 1022 * (1 / 4) := by
  have e : (2 : ℝ) ^ 1022 * 4 = (2 ^ 512) ^ 2 := by
    rw [show (4 : ℝ) = 2 ^ 2 by norm_num, ← pow_add, ← pow_mul]
  rw [div_pow, one_pow, ← e, div_mul_div_comm, one_mul]

/-- the computed length of an accepted `x` -/
theorem xLen_facts {n2 : F64} (fn : Fin n2) (hn : 1 / 2 ^ 1022 ≤ val n2) :
    Fin (F64.sqrt n2) ∧ 1 / 2 ^ 512 ≤ val (F64.sqrt n2) ∧ val (F64.sqrt n2) ≤ 2 ^ 515 := by
  have hpos : 0 < val n2 := lt_of_lt_of_le (by positivity) hn
  obtain ⟨fr, hr0, hr515, hrsq⟩ := sqrt_lower n2 fn hpos
  refine ⟨fr, ?_, hr515⟩
  apply le_of_sq_le (by positivity) hr0
  have hc : (1 : ℝ) / 4 ≤ (1 - 1 / 2 ^ 58) * (1 - uR) ^ 2 := by unfold uR; norm_num
  have h1 : (1 : ℝ) / 2 ^ 1022 * (1 / 4) ≤ val n2 * ((1 - 1 / 2 ^ 58) * (1 - uR) ^ 2) :=
    mul_le_mul hn hc (by norm_num) hpos.le
  rw [sq_512]
  linarith

theorem accept_facts {n2 err : F64} (fn : Fin n2) (hn : 1 / 2 ^ 1022 ≤ val n2) (ferr : Fin err)
    (hg : F64.gt err ((intersectionErrorF - tErr) * F64.sqrt n2) = false) :
    val err ≤ 7 * uR * (1 + uR) * val (F64.sqrt n2) := by
  obtain ⟨fr, hR, hr515⟩ := xLen_facts fn hn
  obtain ⟨fθ, θpos, θle⟩ := theta0_facts
  set R := val (F64.sqrt n2) with hRdef
  set θ := val (intersectionErrorF - tErr) with hθdef
  have hr0 : 0 ≤ R := le_trans (by positivity) hR
  have hu := uR_nonneg
  have hu53 : uR ≤ 1 / 2 ^ 53 := by unfold uR; exact le_refl _
  have hθ1 : θ ≤ 1 := by
    have : (7 : ℝ) * (1 / 2 ^ 53) ≤ 1 := by norm_num
    have : (0 : ℝ) ≤ 1 / 2 ^ 101 := by positivity
    linarith
  have hprod : |θ * R| < 2 ^ 1000 := by
    rw [abs_of_nonneg (mul_nonneg θpos.le hr0)]
    have h1 : θ * R ≤ 1 * 2 ^ 515 := mul_le_mul hθ1 hr515 hr0 (by norm_num)
    have h2 : (2 : ℝ) ^ 515 < 2 ^ 1000 := pow_lt_pow_right₀ (by norm_num) (by norm_num)
    rw [one_mul] at h1
    exact lt_of_le_of_lt h1 h2
  obtain ⟨fp, rp⟩ := mul_step_raw stdModel fθ fr hprod
  have hle : val err ≤ val ((intersectionErrorF - tErr) * F64.sqrt n2) := val_le_of_lt_false fp ferr hg
  have hup := rnd_upper rp (mul_nonneg θpos.le hr0)
  have h1 : (1 + uR) * (θ * R) ≤ (1 + uR) * ((7 * uR - 1 / 2 ^ 101) * R) :=
    mul_le_mul_of_nonneg_left (mul_le_mul_of_nonneg_right θle hr0) (by linarith)
  have h2 : (1 : ℝ) / 2 ^ 101 * (1 / 2 ^ 512) ≤ 1 / 2 ^ 101 * R := mul_le_mul_of_nonneg_left hR (by positivity)
  have h3 := eR_le_613
  have h4 : 0 ≤ uR * (1 / 2 ^ 101 * R) := mul_nonneg hu (mul_nonneg (by positivity) hr0)
  have e1 : (1 + uR) * ((7 * uR - 1 / 2 ^ 101) * R)
      = 7 * uR * (1 + uR) * R - 1 / 2 ^ 101 * R - uR * (1 / 2 ^ 101 * R) := by ring
  linarith

/-! ### `distSum` and `errorSum` -/

theorem dist_facts {d0 d1 : F64} (fd0 : Fin d0) (fd1 : Fin d1) (md0 : |val d0| ≤ 2 ^ 10) (md1 : |val d1| ≤ 2 ^ 10) :
    Fin ((d0 - d1).abs) ∧ 0 ≤ val ((d0 - d1).abs) ∧ val ((d0 - d1).abs) ≤ 2 ^ 11 + 1 ∧
    |val ((d0 - d1).abs) - (|val d0 - val d1|)| ≤ uR * |val d0 - val d1| := by
  have m : |val d0 - val d1| ≤ 2 ^ 11 := by
    have := abs_sub (val d0) (val d1); norm_num at this md0 md1 ⊢; linarith
  obtain ⟨f, r, _⟩ := sub_step stdModel fd0 fd1 m (by norm_num)
  have g := rnd_grow eR_nonneg r m (by norm_num)
  obtain ⟨fa, va⟩ := val_abs' (d0 - d1) f
  rw [va]
  refine ⟨fa, abs_nonneg _, g, ?_⟩
  unfold Rnd at r
  have := abs_abs_sub_abs_le_abs_sub (val (d0 - d1)) (val d0 - val d1)
  linarith

theorem esum_facts {e0 e1 : F64} (fe0 : Fin e0) (fe1 : Fin e1) (e0n : 0 ≤ val e0) (e0m : val e0 ≤ 2 ^ 10)
    (e1n : 0 ≤ val e1) (e1m : val e1 ≤ 2 ^ 10) :
    Fin (e0 + e1) ∧ 0 ≤ val (e0 + e1) ∧ val (e0 + e1) ≤ 2 ^ 11 + 1 ∧
    |val (e0 + e1) - (val e0 + val e1)| ≤ uR * (val e0 + val e1) := by
  have hs : 0 ≤ val e0 + val e1 := by linarith
  have m : |val e0 + val e1| ≤ 2 ^ 11 := by
    rw [abs_of_nonneg hs]; norm_num at e0m e1m ⊢; linarith
  obtain ⟨f, r, _⟩ := add_step stdModel fe0 fe1 m (by norm_num)
  have g := rnd_grow eR_nonneg r m (by norm_num)
  refine ⟨f, add_nn fe0 fe1 f hs, le_trans (le_abs_self _) g, ?_⟩
  unfold Rnd at r
  rw [abs_of_nonneg hs] at r
  linarith

/-! ### the computed error estimate -/

theorem eR_650 : 17 * eR / (1 / 2 ^ 400) + 3 * eR ≤ 1 / 2 ^ 650 := by
  unfold eR
  have e1 : (2 : ℝ) ^ 1075 = 2 ^ 650 * (2 ^ 400 * 2 ^ 25) := by rw [← pow_add, ← pow_add]
  rw [e1]
  have pA : (0 : ℝ) < 2 ^ 650 := by positivity
  have pB : (1 : ℝ) ≤ 2 ^ 400 := one_le_pow₀ (by norm_num)
  generalize (2 : ℝ) ^ 650 = A at pA ⊢
  generalize (2 : ℝ) ^ 400 = B at pB ⊢
  have pB0 : 0 < B := by linarith
  have h1 : 17 * (1 / (A * (B * 2 ^ 25))) / (1 / B) = (17 / 2 ^ 25) / A := by field_simp
  have h2 : 3 * (1 / (A * (B * 2 ^ 25))) = (3 / (B * 2 ^ 25)) / A := by field_simp
  rw [h1, h2, ← add_div, div_le_div_iff_of_pos_right pA]
  have h3 : 3 / (B * 2 ^ 25) ≤ 3 / (1 * 2 ^ 25) :=
    div_le_div_of_nonneg_left (by norm_num) (by norm_num) (mul_le_mul_of_nonneg_right pB (by norm_num))
  have h4 : (17 : ℝ) / 2 ^ 25 + 3 / (1 * 2 ^ 25) ≤ 1 := by norm_num
  linarith

theorem sum_bound {T q t : ℝ} (hT : 2 ^ 17 ≤ T) (hq : |q| ≤ (1 + uR) * T + eR) (ht : |t| ≤ 2 ^ 14 + 1) :
    |q + t| ≤ 4 * T := by
  have h1 := abs_add_le q t
  have h2 : uR * T ≤ 1 * T := mul_le_mul_of_nonneg_right uR_le_one (by linarith [show (0 : ℝ) ≤ 2 ^ 17 by positivity])
  have h3 := eR_le_one
  norm_num at hT ht
  linarith

theorem tail_err_facts (bLen d0 e0 d1 e1 : F64)
    (fbL : Fin bLen) (bL0 : 0 ≤ val bLen) (bL8 : val bLen ≤ 8)
    (fd0 : Fin d0) (fd1 : Fin d1) (md0 : |val d0| ≤ 2 ^ 10) (md1 : |val d1| ≤ 2 ^ 10)
    (fe0 : Fin e0) (fe1 : Fin e1) (e0n : 0 ≤ val e0) (e0m : val e0 ≤ 2 ^ 10) (e1n : 0 ≤ val e1) (e1m : val e1 ≤ 2 ^ 10)
    (hopp : val d0 * val d1 ≤ 0)
    (hguard : 1 / 2 ^ 400 ≤ val ((d0 - d1).abs - (e0 + e1))) :
    Fin (bLen * (d0 * e1 - d1 * e0).abs / ((d0 - d1).abs - (e0 + e1)) + f2 * (d0 - d1).abs * tErr) ∧
    val (e0 + e1) < val ((d0 - d1).abs) ∧
    (1 - 8 * uR) * (val bLen * (|val d0| * val e1 + |val d1| * val e0) / (val ((d0 - d1).abs) - val (e0 + e1))
        + 2 * uR * val ((d0 - d1).abs)) - 1 / 2 ^ 650
      ≤ val (bLen * (d0 * e1 - d1 * e0).abs / ((d0 - d1).abs - (e0 + e1)) + f2 * (d0 - d1).abs * tErr) := by
  obtain ⟨fdS, dS0, dSm, _⟩ := dist_facts fd0 fd1 md0 md1
  obtain ⟨feS, eS0, eSm, _⟩ := esum_facts fe0 fe1 e0n e0m e1n e1m
  have hu := uR_nonneg
  have he := eR_nonneg
  -- the numerator
  have ae0 : |val e0| ≤ 2 ^ 10 := by rw [abs_of_nonneg e0n]; exact e0m
  have ae1 : |val e1| ≤ 2 ^ 10 := by rw [abs_of_nonneg e1n]; exact e1m
  have p1 : |val d0 * val e1| ≤ 2 ^ 20 := by
    have := abs_mul_le_of md0 ae1; norm_num at this ⊢; linarith
  have p2 : |val d1 * val e0| ≤ 2 ^ 20 := by
    have := abs_mul_le_of md1 ae0; norm_num at this ⊢; linarith
  obtain ⟨f1, r1, _⟩ := mul_step stdModel fd0 fe1 p1 (by norm_num)
  obtain ⟨f2', r2, _⟩ := mul_step stdModel fd1 fe0 p2 (by norm_num)
  have g1 := rnd_grow (le_refl _) r1 p1 (by norm_num)
  have g2 := rnd_grow (le_refl _) r2 p2 (by norm_num)
  have p3 : |val (d0 * e1) - val (d1 * e0)| ≤ 2 ^ 21 + 2 := by
    have := abs_sub (val (d0 * e1)) (val (d1 * e0)); norm_num at this g1 g2 ⊢; linarith
  obtain ⟨f3, r3, _⟩ := sub_step stdModel f1 f2' p3 (by norm_num)
  have g3 := rnd_grow he r3 p3 (by norm_num)
  obtain ⟨fa3, va3⟩ := val_abs' _ f3
  have hnum := num_lower hu uR_le_one he hopp e0n e1n r1 r2 r3
  -- times bLen
  have p4 : |val bLen * val ((d0 * e1 - d1 * e0).abs)| ≤ 2 ^ 25 := by
    rw [va3, abs_mul, abs_abs, abs_of_nonneg bL0]
    have : val bLen * |val (d0 * e1 - d1 * e0)| ≤ 8 * (2 ^ 21 + 2 + 1) :=
      mul_le_mul bL8 g3 (abs_nonneg _) (by norm_num)
    norm_num at this ⊢; linarith
  obtain ⟨f4, r4, _⟩ := mul_step stdModel fbL fa3 p4 (by norm_num)
  have g4 := rnd_grow (le_refl _) r4 p4 (by norm_num)
  have n4 : 0 ≤ val (bLen * (d0 * e1 - d1 * e0).abs) :=
    mul_nn fbL fa3 f4 (mul_nonneg bL0 (by rw [va3]; exact abs_nonneg _))
  -- the denominator
  have pden : |val ((d0 - d1).abs) - val (e0 + e1)| ≤ 2 ^ 12 + 2 := by
    have := abs_sub (val ((d0 - d1).abs)) (val (e0 + e1))
    rw [abs_of_nonneg dS0, abs_of_nonneg eS0] at this
    norm_num at this dSm eSm ⊢; linarith
  obtain ⟨fden, rden, _⟩ := sub_step stdModel fdS feS pden (by norm_num)
  have hG : (0 : ℝ) < 1 / 2 ^ 400 := by positivity
  have hdenpos : 0 < val ((d0 - d1).abs - (e0 + e1)) := lt_of_lt_of_le hG hguard
  have hD : 0 < val ((d0 - d1).abs) - val (e0 + e1) := by
    by_contra hc
    have hc := not_lt.mp hc
    have h1 := (abs_le.mp rden).2
    rw [abs_of_nonpos hc] at h1
    have h2 := mul_nonneg (sub_nonneg.mpr uR_le_one) (neg_nonneg.mpr hc)
    nlinarith
  -- the quotient
  have hT : |val (bLen * (d0 * e1 - d1 * e0).abs) / val ((d0 - d1).abs - (e0 + e1))| ≤ 2 ^ 426 := by
    rw [abs_div, abs_of_pos hdenpos, div_le_iff₀ hdenpos]
    have h1 : (2 : ℝ) ^ 426 * (1 / 2 ^ 400) ≤ 2 ^ 426 * val ((d0 - d1).abs - (e0 + e1)) :=
      mul_le_mul_of_nonneg_left hguard (by positivity)
    have h2 : (2 : ℝ) ^ 426 * (1 / 2 ^ 400) = 2 ^ 26 := by
      rw [show (426 : ℕ) = 26 + 400 by norm_num, pow_add]; field_simp
    rw [h2] at h1
    exact le_trans (le_trans g4 (by norm_num)) h1
  have hT1000 : (2 : ℝ) ^ 426 ≤ 2 ^ 1000 := pow_le_pow_right₀ (by norm_num) (by norm_num)
  obtain ⟨fq, rq, nq⟩ := div_step f4 fden hdenpos.ne' (le_trans hT hT1000)
  have q0 := nq (div_nonneg n4 hdenpos.le)
  have gq : |val (bLen * (d0 * e1 - d1 * e0).abs / ((d0 - d1).abs - (e0 + e1)))| ≤ (1 + uR) * 2 ^ 426 + eR := by
    have h1 := rq.abs_le
    have h2 : (1 + uR) * |val (bLen * (d0 * e1 - d1 * e0).abs) / val ((d0 - d1).abs - (e0 + e1))|
        ≤ (1 + uR) * 2 ^ 426 := mul_le_mul_of_nonneg_left hT (by linarith)
    linarith
  -- the second term
  obtain ⟨ff2, vf2⟩ := f2_facts
  obtain ⟨ftE, vtE⟩ := tErr_facts
  have pt1 : |val f2 * val ((d0 - d1).abs)| ≤ 2 ^ 13 := by
    rw [vf2, abs_mul, abs_of_nonneg dS0]; norm_num at dSm ⊢; linarith
  obtain ⟨ft1, rt1, _⟩ := mul_step stdModel ff2 fdS pt1 (by norm_num)
  have gt1 := rnd_grow (le_refl _) rt1 pt1 (by norm_num)
  have nt1 : 0 ≤ val (f2 * (d0 - d1).abs) := mul_nn ff2 fdS ft1 (by rw [vf2]; linarith)
  have pt2 : |val (f2 * (d0 - d1).abs) * val tErr| ≤ 2 ^ 13 + 1 := by
    rw [vtE, abs_mul, abs_of_nonneg hu]
    have : |val (f2 * (d0 - d1).abs)| * uR ≤ |val (f2 * (d0 - d1).abs)| * 1 :=
      mul_le_mul_of_nonneg_left uR_le_one (abs_nonneg _)
    linarith
  obtain ⟨ft2, rt2, _⟩ := mul_step stdModel ft1 ftE pt2 (by norm_num)
  have gt2 := rnd_grow (le_refl _) rt2 pt2 (by norm_num)
  have nt2 : 0 ≤ val (f2 * (d0 - d1).abs * tErr) :=
    mul_nn ft1 ftE ft2 (mul_nonneg nt1 (by rw [vtE]; exact hu))
  -- the sum
  have hsum : |val (bLen * (d0 * e1 - d1 * e0).abs / ((d0 - d1).abs - (e0 + e1))) + val (f2 * (d0 - d1).abs * tErr)|
      < 2 ^ 1000 := by
    have h1 := sum_bound (pow_le_pow_right₀ (by norm_num) (by norm_num) : (2 : ℝ) ^ 17 ≤ 2 ^ 426) gq
      (by norm_num at gt2 ⊢; linarith)
    have h2 : (4 : ℝ) * 2 ^ 426 = 2 ^ 428 := by rw [show (4 : ℝ) = 2 ^ 2 by norm_num, ← pow_add]
    rw [h2] at h1
    exact lt_of_le_of_lt h1 (pow_lt_pow_right₀ (by norm_num) (by norm_num))
  obtain ⟨ferr, rerr⟩ := add_step_raw fq ft2 hsum
  -- assembly
  rw [vf2] at rt1
  rw [vtE] at rt2
  rw [va3] at r4
  have hA : 0 ≤ |val d0| * val e1 + |val d1| * val e0 :=
    add_nonneg (mul_nonneg (abs_nonneg _) e1n) (mul_nonneg (abs_nonneg _) e0n)
  have hmain := err_lower hu (by unfold uR; norm_num) he bL0 bL8 hA hD hG hguard hnum (abs_nonneg _) r4 n4 rden rq
    dS0 rt1 nt1 rt2 q0 nt2 rerr
  have h650 := eR_650
  refine ⟨ferr, by linarith, ?_⟩
  linarith

/-! ### the main theorem -/

theorem finish_some {p : StableParts} {r : V3} (h : C16K.finish p = some r) :
    F64.le p.distSum p.errorSum = false ∧ F64.lt p.xLen2 minNormalF = false ∧
    F64.gt p.err ((intersectionErrorF - tErr) * p.xLen) = false ∧ r = p.x.mul (f1 / p.xLen) := by
  unfold C16K.finish at h
  split at h
  · cases h
  split at h
  · cases h
  split at h
  · cases h
  rename_i h1 h2 h3
  refine ⟨by simpa using h1, by simpa using h2, by simpa using h3, ?_⟩
  exact (Option.some.inj h).symm

/-- `tail_facts` with the weaker hypothesis `val bLen ≤ 8`, statement without `let` -/
theorem tail_facts' (bLen d0 e0 d1 e1 : F64) (b0 b1 r : V3)
    (hb0 : Fin3 b0) (hb1 : Fin3 b1)
    (mb0 : |val b0.x| ≤ 2 ∧ |val b0.y| ≤ 2 ∧ |val b0.z| ≤ 2) (mb1 : |val b1.x| ≤ 2 ∧ |val b1.y| ≤ 2 ∧ |val b1.z| ≤ 2)
    (fbL : Fin bLen) (bL0 : 0 ≤ val bLen) (bL8 : val bLen ≤ 8)
    (fd0 : Fin d0) (fd1 : Fin d1) (md0 : |val d0| ≤ 2 ^ 10) (md1 : |val d1| ≤ 2 ^ 10)
    (fe0 : Fin e0) (fe1 : Fin e1) (e0n : 0 ≤ val e0) (e0m : val e0 ≤ 2 ^ 10) (e1n : 0 ≤ val e1) (e1m : val e1 ≤ 2 ^ 10)
    (hopp : val d0 * val d1 ≤ 0)
    (hguard : 1 / 2 ^ 400 ≤ val ((d0 - d1).abs - (e0 + e1)))
    (h : C16K.finish (C16K.tail bLen b0 b1 d0 e0 d1 e1) = some r) :
    r = ((b1.mul d0).sub (b0.mul d1)).mul (F64.one / F64.sqrt ((b1.mul d0).sub (b0.mul d1)).norm2) ∧
    Fin3 ((b1.mul d0).sub (b0.mul d1)) ∧
    (|val ((b1.mul d0).sub (b0.mul d1)).x| ≤ 2 ^ 14 ∧ |val ((b1.mul d0).sub (b0.mul d1)).y| ≤ 2 ^ 14 ∧
      |val ((b1.mul d0).sub (b0.mul d1)).z| ≤ 2 ^ 14) ∧
    1 / 2 ^ 1022 ≤ val ((b1.mul d0).sub (b0.mul d1)).norm2 ∧
    |val ((d0 - d1).abs) - (|val d0 - val d1|)| ≤ uR * |val d0 - val d1| ∧
    |val (e0 + e1) - (val e0 + val e1)| ≤ uR * (val e0 + val e1) ∧
    val (e0 + e1) < val ((d0 - d1).abs) ∧
    (R3.sub (ofV ((b1.mul d0).sub (b0.mul d1)))
        (R3.sub (R3.smul (val d0) (ofV b1)) (R3.smul (val d1) (ofV b0)))).norm
      ≤ (uR + uR ^ 2) * (|val d0| * (ofV b1).norm + |val d1| * (ofV b0).norm)
        + uR * (R3.sub (R3.smul (val d0) (ofV b1)) (R3.smul (val d1) (ofV b0))).norm + 1 / 2 ^ 1000 ∧
    (1 - 8 * uR) * (val bLen * (|val d0| * val e1 + |val d1| * val e0) / (val ((d0 - d1).abs) - val (e0 + e1))
        + 2 * uR * val ((d0 - d1).abs)) - 1 / 2 ^ 650
      ≤ val (C16K.tail bLen b0 b1 d0 e0 d1 e1).err ∧
    val (C16K.tail bLen b0 b1 d0 e0 d1 e1).err
      ≤ 7 * uR * (1 + uR) * val (F64.sqrt ((b1.mul d0).sub (b0.mul d1)).norm2) := by
  obtain ⟨_, h2, h3, hr⟩ := finish_some h
  change F64.lt ((b1.mul d0).sub (b0.mul d1)).norm2 minNormalF = false at h2
  change F64.gt (bLen * (d0 * e1 - d1 * e0).abs / ((d0 - d1).abs - (e0 + e1)) + f2 * (d0 - d1).abs * tErr)
    ((intersectionErrorF - tErr) * F64.sqrt ((b1.mul d0).sub (b0.mul d1)).norm2) = false at h3
  change r = ((b1.mul d0).sub (b0.mul d1)).mul (F64.one / F64.sqrt ((b1.mul d0).sub (b0.mul d1)).norm2) at hr
  show _ ∧ _ ∧ _ ∧ _ ∧ _ ∧ _ ∧ _ ∧ _ ∧
    _ ≤ val (bLen * (d0 * e1 - d1 * e0).abs / ((d0 - d1).abs - (e0 + e1)) + f2 * (d0 - d1).abs * tErr) ∧
    val (bLen * (d0 * e1 - d1 * e0).abs / ((d0 - d1).abs - (e0 + e1)) + f2 * (d0 - d1).abs * tErr) ≤ _
  obtain ⟨fx3, ⟨gx, gy, gz⟩, hnorm⟩ := tail_x_facts d0 d1 b0 b1 hb0 hb1 mb0 mb1 fd0 fd1 md0 md1
  have fn := norm2_fin _ fx3 ⟨gx, gy, gz⟩
  obtain ⟨fm, vm⟩ := minNormal_facts
  have hn : 1 / 2 ^ 1022 ≤ val ((b1.mul d0).sub (b0.mul d1)).norm2 := by
    rw [← vm]; exact val_le_of_lt_false fn fm h2
  obtain ⟨ferr, hlt, hlow⟩ := tail_err_facts bLen d0 e0 d1 e1 fbL bL0 bL8 fd0 fd1 md0 md1 fe0 fe1 e0n e0m e1n e1m
    hopp hguard
  have hacc := accept_facts fn hn ferr h3
  obtain ⟨_, _, _, hd⟩ := dist_facts fd0 fd1 md0 md1
  obtain ⟨_, _, _, hes⟩ := esum_facts fe0 fe1 e0n e0m e1n e1m
  have h1314 : (2 : ℝ) ^ 13 ≤ 2 ^ 14 := by norm_num
  exact ⟨hr, fx3, ⟨le_trans gx h1314, le_trans gy h1314, le_trans gz h1314⟩, hn, hd, hes, hlt, hnorm, hlow, hacc⟩

/-- **the float glue of the last stage of `intersectionStableSorted`** -/
theorem tail_facts (bLen d0 e0 d1 e1 : F64) (b0 b1 r : V3)
    (hb0 : Fin3 b0) (hb1 : Fin3 b1)
    (mb0 : |val b0.x| ≤ 2 ∧ |val b0.y| ≤ 2 ∧ |val b0.z| ≤ 2) (mb1 : |val b1.x| ≤ 2 ∧ |val b1.y| ≤ 2 ∧ |val b1.z| ≤ 2)
    (fbL : Fin bLen) (bL0 : 0 ≤ val bLen) (bL4 : val bLen ≤ 4)
    (fd0 : Fin d0) (fd1 : Fin d1) (md0 : |val d0| ≤ 2 ^ 10) (md1 : |val d1| ≤ 2 ^ 10)
    (fe0 : Fin e0) (fe1 : Fin e1) (e0n : 0 ≤ val e0) (e0m : val e0 ≤ 2 ^ 10) (e1n : 0 ≤ val e1) (e1m : val e1 ≤ 2 ^ 10)
    (hopp : val d0 * val d1 ≤ 0)
    (hguard : 1 / 2 ^ 400 ≤ val ((d0 - d1).abs - (e0 + e1)))
    (h : C16K.finish (C16K.tail bLen b0 b1 d0 e0 d1 e1) = some r) :
    let x := (b1.mul d0).sub (b0.mul d1)
    let dS := val ((d0 - d1).abs)
    let eS := val (e0 + e1)
    let errf := val (C16K.tail bLen b0 b1 d0 e0 d1 e1).err
    let xL := val (F64.sqrt x.norm2)
    r = x.mul (F64.one / F64.sqrt x.norm2) ∧ Fin3 x ∧
    (|val x.x| ≤ 2 ^ 14 ∧ |val x.y| ≤ 2 ^ 14 ∧ |val x.z| ≤ 2 ^ 14) ∧
    1 / 2 ^ 1022 ≤ val x.norm2 ∧
    |dS - (|val d0 - val d1|)| ≤ uR * |val d0 - val d1| ∧
    |eS - (val e0 + val e1)| ≤ uR * (val e0 + val e1) ∧
    eS < dS ∧
    (R3.sub (ofV x) (R3.sub (R3.smul (val d0) (ofV b1)) (R3.smul (val d1) (ofV b0)))).norm
        ≤ (uR + uR ^ 2) * (|val d0| * (ofV b1).norm + |val d1| * (ofV b0).norm)
          + uR * (R3.sub (R3.smul (val d0) (ofV b1)) (R3.smul (val d1) (ofV b0))).norm + 1 / 2 ^ 1000 ∧
    (1 - 8 * uR) * (val bLen * (|val d0| * val e1 + |val d1| * val e0) / (dS - eS) + 2 * uR * dS) - 1 / 2 ^ 650 ≤ errf ∧
    errf ≤ 7 * uR * (1 + uR) * xL := by
  intro x dS eS errf xL
  exact tail_facts' bLen d0 e0 d1 e1 b0 b1 r hb0 hb1 mb0 mb1 fbL bL0 (by linarith) fd0 fd1 md0 md1 fe0 fe1
    e0n e0m e1n e1m hopp hguard h

/-! ### the computed length of edge `b` -/

/-- an upper bound of the float square root by comparison with a float `c` -/
theorem sqrt_le_of_lt_sq {x c : F64} (hx : Fin x) (hpos : 0 < val x) (hc0 : 0 ≤ val c)
    (h : val x < val c ^ 2) : val (F64.sqrt x) ≤ val c := by
  have hz : x.isZero = false := by
    cases h : x.isZero
    · rfl
    · rw [val_of_isZero h] at hpos; exact absurd hpos (lt_irrefl _)
  have hsb : x.signBit = false := by
    cases h : x.signBit
    · rfl
    · rw [val_mant, h] at hpos
      have : (0 : ℝ) ≤ (x.mant : ℝ) * tw x.expo := mul_nonneg (by positivity) (tw_pos _).le
      unfold sg at hpos
      simp only [if_true] at hpos
      linarith
  obtain ⟨_, hr0, hspec⟩ := F64Round.sqrt_spec hx hsb hz
  by_contra hcon
  have hcon := not_le.mp hcon
  have hc0Q : (0 : ℚ) ≤ F64Round.val c := by
    have : (0 : ℝ) ≤ ((F64Round.val c : ℚ) : ℝ) := by rw [← val_cast]; exact hc0
    exact_mod_cast this
  have hltQ : F64Round.val c < F64Round.val (F64.sqrt x) := by
    have : ((F64Round.val c : ℚ) : ℝ) < ((F64Round.val (F64.sqrt x) : ℚ) : ℝ) := by
      rw [← val_cast, ← val_cast]; exact hcon
    exact_mod_cast this
  have h1 := (hspec c hc0Q).1 hltQ
  have h2 : ((((F64Round.val c + F64Round.val (F64.sqrt x)) / 2) ^ 2 : ℚ) : ℝ) ≤ ((F64Round.val x : ℚ) : ℝ) :=
    Rat.cast_le.mpr h1
  push_cast at h2
  rw [← val_cast, ← val_cast, ← val_cast] at h2
  have h3 : val c < (val c + val (F64.sqrt x)) / 2 := by linarith
  have h4 : val c ^ 2 < ((val c + val (F64.sqrt x)) / 2) ^ 2 := pow_lt_pow_left₀ h3 hc0 (by norm_num)
  linarith

/-- the float square root of a non-negative finite float -/
theorem sqrt_nn_facts {x : F64} (hx : Fin x) (h0 : 0 ≤ val x) :
    Fin (F64.sqrt x) ∧ 0 ≤ val (F64.sqrt x) ∧
    val x * ((1 - 1 / 2 ^ 58) * (1 - uR) ^ 2) ≤ val (F64.sqrt x) ^ 2 ∧
    (val x = 0 → val (F64.sqrt x) = 0) := by
  rcases h0.lt_or_eq with hpos | hzero
  · obtain ⟨f, r0, _, hsq⟩ := sqrt_lower x hx hpos
    exact ⟨f, r0, hsq, fun h => absurd h hpos.ne'⟩
  · have ht : toInt x = 0 := by
      unfold val at hzero
      have h1 : (toInt x : ℝ) = 0 := by
        rcases div_eq_zero_iff.mp hzero.symm with h | h
        · exact h
        · exact absurd h (by positivity)
      exact_mod_cast h1
    have hz : x.isZero = true := EdgeNumLemmas.isZero_of_toInt ht
    have hs : F64.sqrt x = x := by
      unfold F64.sqrt
      simp only [isNaN_false hx, hz, Bool.false_eq_true, if_false, if_true]
    rw [hs, ← hzero]
    refine ⟨hx, le_refl _, ?_, fun _ => rfl⟩
    norm_num

theorem norm2_nn (x : V3) (hx : Fin3 x)
    (mx : |val x.x| ≤ 2 ^ 13 ∧ |val x.y| ≤ 2 ^ 13 ∧ |val x.z| ≤ 2 ^ 13) : 0 ≤ val x.norm2 := by
  obtain ⟨h1, h2, h3⟩ := hx
  obtain ⟨m1, m2, m3⟩ := mx
  have p1 : |val x.x * val x.x| ≤ 2 ^ 26 := by have := abs_mul_le_of m1 m1; norm_num at this ⊢; linarith
  have p2 : |val x.y * val x.y| ≤ 2 ^ 26 := by have := abs_mul_le_of m2 m2; norm_num at this ⊢; linarith
  have p3 : |val x.z * val x.z| ≤ 2 ^ 26 := by have := abs_mul_le_of m3 m3; norm_num at this ⊢; linarith
  obtain ⟨fq1, rq1, _⟩ := mul_step stdModel h1 h1 p1 (by norm_num)
  obtain ⟨fq2, rq2, _⟩ := mul_step stdModel h2 h2 p2 (by norm_num)
  obtain ⟨fq3, rq3, _⟩ := mul_step stdModel h3 h3 p3 (by norm_num)
  have g1 := rnd_grow (le_refl _) rq1 p1 (by norm_num)
  have g2 := rnd_grow (le_refl _) rq2 p2 (by norm_num)
  have g3 := rnd_grow (le_refl _) rq3 p3 (by norm_num)
  have n1 := mul_nn h1 h1 fq1 (mul_self_nonneg _)
  have n2 := mul_nn h2 h2 fq2 (mul_self_nonneg _)
  have n3 := mul_nn h3 h3 fq3 (mul_self_nonneg _)
  have ms : |val (x.x * x.x) + val (x.y * x.y)| ≤ 2 ^ 27 + 2 := by
    have := abs_add_le (val (x.x * x.x)) (val (x.y * x.y)); norm_num at this g1 g2 ⊢; linarith
  obtain ⟨fs, rs, _⟩ := add_step stdModel fq1 fq2 ms (by norm_num)
  have gs := rnd_grow eR_nonneg rs ms (by norm_num)
  have ns := add_nn fq1 fq2 fs (by linarith)
  have md : |val (x.x * x.x + x.y * x.y) + val (x.z * x.z)| ≤ 2 ^ 28 := by
    have := abs_add_le (val (x.x * x.x + x.y * x.y)) (val (x.z * x.z)); norm_num at this gs g3 ⊢; linarith
  obtain ⟨fd, _, _⟩ := add_step stdModel fs fq3 md (by norm_num)
  exact add_nn fs fq3 fd (by linarith)

/-- the float `8.0` -/
def f8 : F64 := ⟨0x4020000000000000⟩

theorem f8_facts : Fin f8 ∧ val f8 = 8 := by
  have h : Fin f8 ∧ toInt f8 = 8 * 2 ^ 1074 := by decide +kernel
  refine ⟨h.1, ?_⟩
  unfold val
  rw [h.2]
  push_cast
  field_simp

theorem sub_step4 {x y : F64} (hx : Fin x) (hy : Fin y) (mx : |val x| ≤ 2) (my : |val y| ≤ 2) :
    Fin (x - y) ∧ Rnd uR 0 (val x - val y) (val (x - y)) ∧ |val (x - y)| ≤ 4 + 1 / 2 ^ 50 := by
  have m : |val x - val y| ≤ 4 := by have := abs_sub (val x) (val y); linarith
  obtain ⟨f, r, _⟩ := sub_step stdModel hx hy m (by norm_num)
  refine ⟨f, r, ?_⟩
  have h1 := r.abs_le
  have h2 : uR * |val x - val y| ≤ 1 / 2 ^ 53 * 4 :=
    mul_le_mul (by unfold uR; exact le_refl _) m (abs_nonneg _) (by norm_num)
  have h3 : (1 : ℝ) / 2 ^ 53 * 4 ≤ 1 / 2 ^ 50 := by norm_num
  linarith

theorem bLen_consts :
    1 ≤ (1 - 1 / 2 ^ 58) * (1 - uR) ^ 2 * ((1 - rhoU uR) * (1 + 6 * uR) ^ 2) ∧ rhoU uR ≤ 1 / 2 ^ 50 ∧ 0 ≤ rhoU uR := by
  refine ⟨?_, rho_le, rhoU_nn⟩
  unfold rhoU fU gU uR; norm_num

theorem beta_facts : 4 * eR ≤ 1 / 2 * (1 / 2 ^ 535) ^ 2 ∧ 2 * ((1 : ℝ) / 2 ^ 535) ≤ 1 / 2 ^ 530 := by
  constructor
  · unfold eR
    have e1 : ((1 : ℝ) / 2 ^ 535) ^ 2 = 1 / 2 ^ 1070 := by rw [div_pow, one_pow, ← pow_mul]
    have e2 : (2 : ℝ) ^ 1075 = 2 ^ 1070 * 2 ^ 5 := by rw [← pow_add]
    rw [e1, e2]
    have p : (0 : ℝ) < 2 ^ 1070 := by positivity
    generalize (2 : ℝ) ^ 1070 = A at p ⊢
    rw [show (4 : ℝ) * (1 / (A * 2 ^ 5)) = (4 / 2 ^ 5) / A by field_simp,
      show (1 : ℝ) / 2 * (1 / A) = (1 / 2) / A by field_simp, div_le_div_iff_of_pos_right p]
    norm_num
  · have e2 : (2 : ℝ) ^ 535 = 2 ^ 530 * 2 ^ 5 := by rw [← pow_add]
    rw [e2]
    have p : (0 : ℝ) < 2 ^ 530 := by positivity
    generalize (2 : ℝ) ^ 530 = A at p ⊢
    rw [show (2 : ℝ) * (1 / (A * 2 ^ 5)) = (2 / 2 ^ 5) / A by field_simp, div_le_div_iff_of_pos_right p]
    norm_num

/-- real core of `bLen_facts` -/
theorem bLen_core {u ρ e c β S n2 r W V : ℝ} (hu0 : 0 ≤ u) (hu1 : u ≤ 1 / 8) (hρ : ρ ≤ 1 / 2)
    (hβ0 : 0 ≤ β) (hβ : 4 * e ≤ 1 / 2 * β ^ 2)
    (hc : 1 ≤ c * ((1 - ρ) * (1 + 6 * u) ^ 2))
    (hn0 : 0 ≤ n2) (hr0 : 0 ≤ r) (hsq : n2 * c ≤ r ^ 2)
    (hS : |n2 - S| ≤ ρ * S + 4 * e) (hV0 : 0 ≤ V) (hV : V ^ 2 = S) (hWV : (1 - u) * W ≤ V) :
    W ≤ (1 + 8 * u) * r + 2 * β := by
  have hk0 : 0 ≤ (1 - ρ) * (1 + 6 * u) ^ 2 := mul_nonneg (by linarith) (sq_nonneg _)
  -- n2 ≤ (1−ρ)α² r²
  have h1 : n2 ≤ (1 - ρ) * (1 + 6 * u) ^ 2 * r ^ 2 := by
    have a1 : n2 * 1 ≤ n2 * (c * ((1 - ρ) * (1 + 6 * u) ^ 2)) := mul_le_mul_of_nonneg_left hc hn0
    have a2 : n2 * c * ((1 - ρ) * (1 + 6 * u) ^ 2) ≤ r ^ 2 * ((1 - ρ) * (1 + 6 * u) ^ 2) :=
      mul_le_mul_of_nonneg_right hsq hk0
    have e1 : n2 * (c * ((1 - ρ) * (1 + 6 * u) ^ 2)) = n2 * c * ((1 - ρ) * (1 + 6 * u) ^ 2) := by ring
    linarith
  have h2 : (1 - ρ) * S ≤ n2 + 4 * e := by
    have := (abs_le.mp hS).1
    linarith
  have h3 : (1 - ρ) * β ^ 2 ≥ 1 / 2 * β ^ 2 := mul_le_mul_of_nonneg_right (by linarith) (sq_nonneg _)
  have hα0 : 0 ≤ (1 + 6 * u) * r := mul_nonneg (by linarith) hr0
  have h4 : (1 - ρ) * S ≤ (1 - ρ) * ((1 + 6 * u) * r + β) ^ 2 := by
    have a1 : (1 - ρ) * (2 * ((1 + 6 * u) * r) * β) ≥ 0 :=
      mul_nonneg (by linarith) (mul_nonneg (mul_nonneg (by norm_num) hα0) hβ0)
    have e1 : (1 - ρ) * ((1 + 6 * u) * r + β) ^ 2
        = (1 - ρ) * (1 + 6 * u) ^ 2 * r ^ 2 + (1 - ρ) * β ^ 2 + (1 - ρ) * (2 * ((1 + 6 * u) * r) * β) := by ring
    linarith
  have h5 : S ≤ ((1 + 6 * u) * r + β) ^ 2 := le_of_mul_le_mul_left h4 (by linarith)
  have h6 : V ≤ (1 + 6 * u) * r + β := by
    rw [← hV] at h5
    exact le_of_sq_le hV0 (by linarith) h5
  have h7 : (1 - u) * W ≤ (1 - u) * ((1 + 8 * u) * r + 2 * β) := by
    have a1 : 0 ≤ (u - 8 * u ^ 2) * r := mul_nonneg (by nlinarith) hr0
    have a2 : 0 ≤ (1 - 2 * u) * β := mul_nonneg (by linarith) hβ0
    have e1 : (1 - u) * ((1 + 8 * u) * r + 2 * β)
        = (1 + 6 * u) * r + β + (u - 8 * u ^ 2) * r + (1 - 2 * u) * β := by ring
    linarith
  exact le_of_mul_le_mul_left h7 (by linarith)

theorem bLen_facts (b0 b1 : V3) (hb0 : Fin3 b0) (hb1 : Fin3 b1)
    (mb0 : |val b0.x| ≤ 2 ∧ |val b0.y| ≤ 2 ∧ |val b0.z| ≤ 2) (mb1 : |val b1.x| ≤ 2 ∧ |val b1.y| ≤ 2 ∧ |val b1.z| ≤ 2) :
    Fin (b1.sub b0).norm ∧ 0 ≤ val (b1.sub b0).norm ∧ val (b1.sub b0).norm ≤ 8 ∧
    (R3.sub (ofV b1) (ofV b0)).norm ≤ (1 + 8 * uR) * val (b1.sub b0).norm + 1 / 2 ^ 530 := by
  obtain ⟨f01, f02, f03⟩ := hb0
  obtain ⟨f11, f12, f13⟩ := hb1
  obtain ⟨m01, m02, m03⟩ := mb0
  obtain ⟨m11, m12, m13⟩ := mb1
  obtain ⟨fx, rx, gx⟩ := sub_step4 f11 f01 m11 m01
  obtain ⟨fy, ry, gy⟩ := sub_step4 f12 f02 m12 m02
  obtain ⟨fz, rz, gz⟩ := sub_step4 f13 f03 m13 m03
  have hv3 : Fin3 (b1.sub b0) := ⟨fx, fy, fz⟩
  have h5 : (4 : ℝ) + 1 / 2 ^ 50 ≤ 5 := by norm_num
  have h13 : (4 : ℝ) + 1 / 2 ^ 50 ≤ 2 ^ 13 := by norm_num
  have gx' : |val (b1.sub b0).x| ≤ 4 + 1 / 2 ^ 50 := gx
  have gy' : |val (b1.sub b0).y| ≤ 4 + 1 / 2 ^ 50 := gy
  have gz' : |val (b1.sub b0).z| ≤ 4 + 1 / 2 ^ 50 := gz
  obtain ⟨fn, hS, hS0, _⟩ := norm2_step stdModel (b1.sub b0) hv3
    ⟨le_trans gx' h5, le_trans gy' h5, le_trans gz' h5⟩
  have hn0 := norm2_nn (b1.sub b0) hv3 ⟨le_trans gx' h13, le_trans gy' h13, le_trans gz' h13⟩
  obtain ⟨fr, hr0, hsq, hrz⟩ := sqrt_nn_facts fn hn0
  obtain ⟨hc, hρ, hρ0⟩ := bLen_consts
  obtain ⟨hβ, hβ530⟩ := beta_facts
  set S := val (b1.sub b0).x * val (b1.sub b0).x + val (b1.sub b0).y * val (b1.sub b0).y
    + val (b1.sub b0).z * val (b1.sub b0).z with hSdef
  have hu := uR_nonneg
  have hu8 : uR ≤ 1 / 8 := by unfold uR; norm_num
  -- S ≤ 49
  have sqb : ∀ {t : ℝ}, |t| ≤ 4 + 1 / 2 ^ 50 → t * t ≤ 16 + 1 / 4 := by
    intro t ht
    have h1 : |t| * |t| ≤ (4 + 1 / 2 ^ 50) * (4 + 1 / 2 ^ 50) := mul_le_mul ht ht (abs_nonneg _) (by norm_num)
    rw [abs_mul_abs_self] at h1
    have h2 : ((4 : ℝ) + 1 / 2 ^ 50) * (4 + 1 / 2 ^ 50) ≤ 16 + 1 / 4 := by norm_num
    linarith
  have hS49 : S ≤ 49 := by
    have := sqb gx'; have := sqb gy'; have := sqb gz'
    rw [hSdef]; linarith
  have hn50 : val (b1.sub b0).norm2 < 64 := by
    have h1 := (abs_le.mp hS).2
    have h2 : rhoU uR * S ≤ 1 / 2 ^ 50 * 49 := mul_le_mul hρ hS49 hS0 (by norm_num)
    have h3 := eR_le_one
    have h4 := eR_le
    have h6 : (1 : ℝ) / 2 ^ 250 ≤ 1 := by
      rw [div_le_one (by positivity)]; exact one_le_pow₀ (by norm_num)
    norm_num at h2
    linarith
  -- the length is at most 8
  have hr8 : val (F64.sqrt (b1.sub b0).norm2) ≤ 8 := by
    rcases hn0.lt_or_eq with hpos | hzero
    · obtain ⟨f8f, v8⟩ := f8_facts
      have := sqrt_le_of_lt_sq fn hpos (by rw [v8]; norm_num : 0 ≤ val f8) (by rw [v8]; norm_num; linarith)
      rw [v8] at this
      exact this
    · rw [hrz hzero.symm]; norm_num
  -- the vectors
  have hV : (ofV (b1.sub b0)).norm ^ 2 = S := by
    rw [R3.norm_sq, hSdef]; unfold R3.norm2 ofV; ring
  have hWV : (1 - uR) * (R3.sub (ofV b1) (ofV b0)).norm ≤ (ofV (b1.sub b0)).norm := by
    have hc1 : 0 ≤ 1 - uR := by linarith
    have comp : ∀ {w v : ℝ}, Rnd uR 0 w v → |(1 - uR) * w| ≤ |v| := by
      intro w v h
      unfold Rnd at h
      rw [abs_mul, abs_of_nonneg hc1]
      have := abs_sub_abs_le_abs_sub w v
      rw [abs_sub_comm w v] at this
      linarith
    have h := R3.norm_le_of_abs_le (v := R3.smul (1 - uR) (R3.sub (ofV b1) (ofV b0))) (w := (ofV (b1.sub b0)).abs)
      (comp rx) (comp ry) (comp rz)
    rw [R3.norm_smul, R3.norm_abs, abs_of_nonneg hc1] at h
    exact h
  have hmain := bLen_core hu hu8 (le_trans hρ (by norm_num)) (by positivity) hβ hc hn0 hr0 hsq hS
    (R3.norm_nonneg _) hV hWV
  refine ⟨fr, hr0, hr8, ?_⟩
  show _ ≤ (1 + 8 * uR) * val (F64.sqrt (b1.sub b0).norm2) + 1 / 2 ^ 530
  linarith

theorem f4_facts : Fin F64.four ∧ val F64.four = 4 := by
  have h : Fin F64.four ∧ toInt F64.four = 4 * 2 ^ 1074 := by decide +kernel
  refine ⟨h.1, ?_⟩
  unfold val
  rw [h.2]
  push_cast
  field_simp

/-- the sharper upper bound of the computed length when the exact length is at most 3
    (the endpoints of an edge are (nearly) unit vectors, so the exact length is at most about 2) -/
theorem bLen_le4 (b0 b1 : V3) (hb0 : Fin3 b0) (hb1 : Fin3 b1)
    (mb0 : |val b0.x| ≤ 2 ∧ |val b0.y| ≤ 2 ∧ |val b0.z| ≤ 2) (mb1 : |val b1.x| ≤ 2 ∧ |val b1.y| ≤ 2 ∧ |val b1.z| ≤ 2)
    (hlen : (R3.sub (ofV b1) (ofV b0)).norm ≤ 3) :
    val (b1.sub b0).norm ≤ 4 := by
  obtain ⟨f01, f02, f03⟩ := hb0
  obtain ⟨f11, f12, f13⟩ := hb1
  obtain ⟨m01, m02, m03⟩ := mb0
  obtain ⟨m11, m12, m13⟩ := mb1
  obtain ⟨fx, rx, gx⟩ := sub_step4 f11 f01 m11 m01
  obtain ⟨fy, ry, gy⟩ := sub_step4 f12 f02 m12 m02
  obtain ⟨fz, rz, gz⟩ := sub_step4 f13 f03 m13 m03
  have hv3 : Fin3 (b1.sub b0) := ⟨fx, fy, fz⟩
  have h5 : (4 : ℝ) + 1 / 2 ^ 50 ≤ 5 := by norm_num
  have h13 : (4 : ℝ) + 1 / 2 ^ 50 ≤ 2 ^ 13 := by norm_num
  have gx' : |val (b1.sub b0).x| ≤ 4 + 1 / 2 ^ 50 := gx
  have gy' : |val (b1.sub b0).y| ≤ 4 + 1 / 2 ^ 50 := gy
  have gz' : |val (b1.sub b0).z| ≤ 4 + 1 / 2 ^ 50 := gz
  obtain ⟨fn, hS, hS0, _⟩ := norm2_step stdModel (b1.sub b0) hv3
    ⟨le_trans gx' h5, le_trans gy' h5, le_trans gz' h5⟩
  have hn0 := norm2_nn (b1.sub b0) hv3 ⟨le_trans gx' h13, le_trans gy' h13, le_trans gz' h13⟩
  obtain ⟨fr, hr0, hsq, hrz⟩ := sqrt_nn_facts fn hn0
  obtain ⟨_, hρ, hρ0⟩ := bLen_consts
  set S := val (b1.sub b0).x * val (b1.sub b0).x + val (b1.sub b0).y * val (b1.sub b0).y
    + val (b1.sub b0).z * val (b1.sub b0).z with hSdef
  have hu := uR_nonneg
  have hV : (ofV (b1.sub b0)).norm ^ 2 = S := by
    rw [R3.norm_sq, hSdef]; unfold R3.norm2 ofV; ring
  have hVW : (ofV (b1.sub b0)).norm ≤ (1 + uR) * (R3.sub (ofV b1) (ofV b0)).norm := by
    have hc1 : 0 ≤ 1 + uR := by linarith
    have comp : ∀ {w v : ℝ}, Rnd uR 0 w v → |v| ≤ (1 + uR) * |w| := by
      intro w v h
      have := h.abs_le
      linarith
    have h := R3.norm_le_of_abs_le (v := ofV (b1.sub b0)) (w := R3.smul (1 + uR) (R3.sub (ofV b1) (ofV b0)).abs)
      (comp rx) (comp ry) (comp rz)
    rw [R3.norm_smul, R3.norm_abs, abs_of_nonneg hc1] at h
    exact h
  have hu53 : uR ≤ 1 / 2 ^ 53 := by unfold uR; exact le_refl _
  have hV4 : (ofV (b1.sub b0)).norm ≤ 3 + 1 / 2 ^ 50 := by
    have h1 : (1 + uR) * (R3.sub (ofV b1) (ofV b0)).norm ≤ (1 + 1 / 2 ^ 53) * 3 :=
      mul_le_mul (by linarith) hlen (R3.norm_nonneg _) (by norm_num)
    have h2 : ((1 : ℝ) + 1 / 2 ^ 53) * 3 ≤ 3 + 1 / 2 ^ 50 := by norm_num
    linarith
  have hS10 : S ≤ 10 := by
    rw [← hV]
    have h1 := pow_le_pow_left₀ (R3.norm_nonneg _) hV4 2
    have h2 : ((3 : ℝ) + 1 / 2 ^ 50) ^ 2 ≤ 10 := by norm_num
    linarith
  have hn16 : val (b1.sub b0).norm2 < 16 := by
    have h1 := (abs_le.mp hS).2
    have h2 : rhoU uR * S ≤ 1 / 2 ^ 50 * 10 := mul_le_mul hρ hS10 hS0 (by norm_num)
    have h3 := eR_le_one
    norm_num at h2
    linarith
  show val (F64.sqrt (b1.sub b0).norm2) ≤ 4
  rcases hn0.lt_or_eq with hpos | hzero
  · obtain ⟨f4f, v4⟩ := f4_facts
    have := sqrt_le_of_lt_sq fn hpos (by rw [v4]; norm_num : 0 ≤ val F64.four) (by rw [v4]; norm_num; linarith)
    rw [v4] at this
    exact this
  · rw [hrz hzero.symm]; norm_num

end S2Proofs.C16Acc

#print axioms S2Proofs.C16Acc.tail_facts
#print axioms S2Proofs.C16Acc.tail_facts'
#print axioms S2Proofs.C16Acc.bLen_facts
#print axioms S2Proofs.C16Acc.bLen_le4
