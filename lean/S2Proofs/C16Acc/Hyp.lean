/-
  C16Acc.Hyp — the decidable side conditions of the C16 accuracy theorems, over the bit-exact model, and their real readings.

    NotAntipodal p q     1 + p·q ≥ 2^-40  (the edge (p,q) is shorter than π − 2^-19.5; exact integer arithmetic).  Excludes the
                         class of finding D38 (both edges within 2^-20 rad of antipodal: the hemisphere test of `Intersection` fails).
    NonCollinear         the exact crossing direction ((a0×a1)×(b0×b1), integers) is not the zero vector
    OppSigns             the two computed signed distances of the stable path have weakly opposite signs
    NotTiny              none of the quantities of the stable path is in the deep-underflow range (< 2^-400)
-/
import S2Proofs.C16Acc.Xvec

namespace S2Proofs.C16Acc
open S2 S2.Exact S2.EdgeNum S2Proofs.F64Order S2Proofs.FloatErr

/-- `1 + p·q ≥ 2^-40` in exact integer arithmetic (`scale = 2^1074`) -/
def NotAntipodal (p q : V3) : Prop :=
  ((scale : Int)) ^ 2 ≤ 2 ^ 40 * (((scale : Int)) ^ 2 + (ofV3 p).dot (ofV3 q))

instance (p q : V3) : Decidable (NotAntipodal p q) := by unfold NotAntipodal; infer_instance

theorem notAntipodal_real {p q : V3} (h : NotAntipodal p q) : 1 / 2 ^ 40 ≤ 1 + R3.dot (ofV p) (ofV q) := by
  unfold NotAntipodal at h
  have hR : (((scale : Int) ^ 2 : Int) : ℝ) ≤ ((2 ^ 40 * ((scale : Int) ^ 2 + (ofV3 p).dot (ofV3 q)) : Int) : ℝ) :=
    (Int.cast_le (R := ℝ)).mpr h
  push_cast at hR
  rw [scale_cast] at hR
  have hd : R3.dot (ofV p) (ofV q) = (((ofV3 p).dot (ofV3 q) : Int) : ℝ) / (2 ^ 1074) ^ 2 := by
    unfold R3.dot ofV IV3.dot ofV3 val
    push_cast
    field_simp
    ring
  rw [hd]
  have hS : (0 : ℝ) < (2 ^ 1074) ^ 2 := by positivity
  generalize ((2 : ℝ) ^ 1074) ^ 2 = S at hS hR ⊢
  generalize (((ofV3 p).dot (ofV3 q) : Int) : ℝ) = D at hR ⊢
  have e : 1 + D / S = (S + D) / S := by field_simp
  rw [e, le_div_iff₀ hS]
  have e2 : (1 : ℝ) / 2 ^ 40 * S = S / 1099511627776 := by norm_num; ring
  rw [e2, div_le_iff₀ (by norm_num)]
  linarith

/-- the two great circles are different: the exact crossing direction is not zero -/
def NonCollinear (a0 a1 b0 b1 : V3) : Prop := Xraw a0 a1 b0 b1 ≠ ⟨0, 0, 0⟩

instance (a0 a1 b0 b1 : V3) : Decidable (NonCollinear a0 a1 b0 b1) := by unfold NonCollinear; infer_instance

end S2Proofs.C16Acc
