/-
  C16Acc.Bridge — small bridges for the assembly of the C16 accuracy theorems:
    * the exit of `Intersection`: `pt.mul (-1)` and `pt.add 0` are exact (`mul_negOne`, `add_fz`, `signCorrect_val`, `canonZero_val`);
    * `UnitPt p` (the contract of the property, exact integer arithmetic) ⇒ real bounds on `ofV p`;
    * integer vectors (`IV3`, the judge's arithmetic) ↔ real vectors: `ofI`, `ofI_ofV3`, `SinLe` ↔ integer inequality;
    * `IA.angleLe … ≠ .no` from `P·X > 0` and the sine bound.
-/
import S2Proofs.C16Acc.Vec
import S2Proofs.C16Acc.Exact
import S2Proofs.F64Round
import S2Proofs.FloatErr2.Normal
import S2Proofs.IALemmas
import S2Proofs.F64Faithful
import S2Proofs.Properties.C16

namespace S2Proofs.C16Acc
open S2 S2.Exact S2.EdgeNum S2Proofs.F64Order S2Proofs.FloatErr S2Proofs.IALemmas

/-! ### exact float operations at the exit of `Intersection` -/

theorem val_of_toInt_eq {r x : F64} (h : toInt r = toInt x) : val r = val x := by
  unfold val; rw [h]

theorem fNegOne_facts : Fin fNegOne ∧ toInt fNegOne = -(2 ^ 1074 : Int) := by decide +kernel

theorem fz_facts : Fin fz ∧ toInt fz = 0 := by decide +kernel

/-- `(-1) * x` is exactly `-x` -/
theorem mul_negOne {x : F64} (hx : Fin x) : Fin (fNegOne * x) ∧ val (fNegOne * x) = - val x := by
  obtain ⟨hn, tn⟩ := fNegOne_facts
  have h := F64Round.isRound_mul hn hx
  have e : F64Round.val fNegOne * F64Round.val x = F64Round.val (F64.neg x) := by
    rw [F64Round.val_neg]
    unfold F64Round.val F64Round.U
    rw [tn]; push_cast; field_simp
  rw [e] at h
  obtain ⟨hf, ht⟩ := F64Round.IsRound.fix (S2Proofs.F64Faithful.fin_neg.mpr hx) h
  refine ⟨hf, ?_⟩
  have : val (F64.mul fNegOne x) = val (F64.neg x) := val_of_toInt_eq ht
  show val (F64.mul fNegOne x) = _
  rw [this]
  unfold val
  rw [S2Proofs.F64Faithful.toInt_neg]; push_cast; ring

/-- `x + 0` is exactly `x` (as a value) -/
theorem add_fz {x : F64} (hx : Fin x) : Fin (x + fz) ∧ val (x + fz) = val x := by
  obtain ⟨hz, tz⟩ := fz_facts
  have h := F64Round.isRound_add hx hz
  have e : F64Round.val x + F64Round.val fz = F64Round.val x := by
    unfold F64Round.val; rw [tz]; simp
  rw [e] at h
  obtain ⟨hf, ht⟩ := F64Round.IsRound.fix hx h
  exact ⟨hf, val_of_toInt_eq ht⟩

theorem canonZero_val {p : V3} (hp : Fin3 p) : Fin3 (canonZero p) ∧ ofV (canonZero p) = ofV p := by
  obtain ⟨h1, h2, h3⟩ := hp
  obtain ⟨f1, v1⟩ := add_fz h1
  obtain ⟨f2, v2⟩ := add_fz h2
  obtain ⟨f3, v3⟩ := add_fz h3
  refine ⟨⟨f1, f2, f3⟩, ?_⟩
  unfold ofV canonZero V3.add zero3
  simp only
  rw [show val (p.x + fz) = val p.x from v1, show val (p.y + fz) = val p.y from v2,
    show val (p.z + fz) = val p.z from v3]

theorem mulNegOne_val {p : V3} (hp : Fin3 p) : Fin3 (p.mul fNegOne) ∧ ofV (p.mul fNegOne) = R3.neg (ofV p) := by
  obtain ⟨h1, h2, h3⟩ := hp
  obtain ⟨f1, v1⟩ := mul_negOne h1
  obtain ⟨f2, v2⟩ := mul_negOne h2
  obtain ⟨f3, v3⟩ := mul_negOne h3
  refine ⟨⟨f1, f2, f3⟩, ?_⟩
  unfold ofV V3.mul R3.neg
  simp only
  rw [v1, v2, v3]

/-- `signCorrect` returns `pt` or exactly `−pt` -/
theorem signCorrect_val {pt s : V3} (hp : Fin3 pt) :
    Fin3 (signCorrect pt s) ∧
    ((F64.lt (pt.dot s) fz = false ∧ ofV (signCorrect pt s) = ofV pt) ∨
     (F64.lt (pt.dot s) fz = true ∧ ofV (signCorrect pt s) = R3.neg (ofV pt))) := by
  unfold signCorrect
  split
  · rename_i h
    obtain ⟨f, v⟩ := mulNegOne_val hp
    exact ⟨f, Or.inr ⟨h, v⟩⟩
  · rename_i h
    exact ⟨hp, Or.inl ⟨by simpa using h, rfl⟩⟩

/-! ### `SinLe` and the norm under negation -/

theorem R3.neg_eq_smul (a : R3) : R3.neg a = R3.smul (-1) a := by
  unfold R3.neg R3.smul; ext <;> simp

theorem R3.norm2_neg (a : R3) : (R3.neg a).norm2 = a.norm2 := by unfold R3.norm2 R3.neg; ring

theorem R3.SinLe.neg_left {r X : R3} {ε : ℝ} (h : R3.SinLe r X ε) : R3.SinLe (R3.neg r) X ε := by
  rw [R3.neg_eq_smul]; exact h.smul_left _

/-! ### the contract `UnitPt` in real terms -/

theorem unitPt_real {p : V3} (h : S2Proofs.C16.UnitPt p) :
    Fin3 p ∧ |(ofV p).norm2 - 1| ≤ 1 / 2 ^ 50 + 1 / 2 ^ 100 := by
  obtain ⟨hf, hlo, hhi⟩ := h
  refine ⟨hf, ?_⟩
  have hn : (ofV p).norm2 = (norm2I p : ℝ) * (1 / 2 ^ 1074) ^ 2 := by
    have := norm2_val p
    unfold ofV R3.norm2; simpa using this
  have hloR : (((10 ^ 31 - 4440892098500626 : Int) ^ 2 * (scale : Int) ^ 2 : Int) : ℝ)
      ≤ (((ofV3 p).norm2 * 10 ^ 62 : Int) : ℝ) := (Int.cast_le (R := ℝ)).mpr hlo
  have hhiR : ((((ofV3 p).norm2 * 10 ^ 62 : Int)) : ℝ)
      ≤ (((10 ^ 31 + 4440892098500626 : Int) ^ 2 * (scale : Int) ^ 2 : Int) : ℝ) := (Int.cast_le (R := ℝ)).mpr hhi
  push_cast at hloR hhiR
  rw [scale_cast] at hloR hhiR
  have hS : (0 : ℝ) < (2 ^ 1074) ^ 2 := by positivity
  have e1 : (norm2I p : ℝ) * (1 / 2 ^ 1074) ^ 2 = (norm2I p : ℝ) / (2 ^ 1074) ^ 2 := by
    rw [one_div, inv_pow]; rfl
  have hI : (norm2I p : ℝ) = ((ofV3 p).norm2 : ℝ) := rfl
  rw [hn, e1, hI]
  generalize ((2 : ℝ) ^ 1074) ^ 2 = S at hS hloR hhiR ⊢
  generalize (((ofV3 p).norm2 : Int) : ℝ) = n at hloR hhiR ⊢
  have hq1 : (-(1 / 2 ^ 50 + 1 / 2 ^ 100) + 1 : ℝ) * 100000000000000000000000000000000000000000000000000000000000000 ≤ 99999999999999911182158029987499721522630525293699157322391876 := by norm_num
  have hq2 : (100000000000000088817841970012539721522630525293699157322391876 : ℝ) ≤ (1 / 2 ^ 50 + 1 / 2 ^ 100 + 1) * 100000000000000000000000000000000000000000000000000000000000000 := by norm_num
  have ha : (0 : ℝ) < 100000000000000000000000000000000000000000000000000000000000000 := by norm_num
  generalize (99999999999999911182158029987499721522630525293699157322391876 : ℝ) = q1 at hq1 hloR
  generalize (100000000000000088817841970012539721522630525293699157322391876 : ℝ) = q2 at hq2 hhiR
  generalize (100000000000000000000000000000000000000000000000000000000000000 : ℝ) = a at ha hq1 hq2 hloR hhiR
  generalize (1 : ℝ) / 2 ^ 50 + 1 / 2 ^ 100 = c at hq1 hq2 ⊢
  rw [abs_le]
  constructor
  · rw [le_sub_iff_add_le, le_div_iff₀ hS]
    have h1 := mul_le_mul_of_nonneg_right hq1 hS.le
    have h2 : (-c + 1) * S * a ≤ n * a := by
      calc (-c + 1) * S * a = (-c + 1) * a * S := by ring
        _ ≤ q1 * S := h1
        _ ≤ n * a := hloR
    exact le_of_mul_le_mul_right h2 ha
  · rw [sub_le_iff_le_add, div_le_iff₀ hS]
    have h1 := mul_le_mul_of_nonneg_right hq2 hS.le
    have h2 : n * a ≤ (c + 1) * S * a := by
      calc n * a ≤ q2 * S := hhiR
        _ ≤ (c + 1) * a * S := h1
        _ = (c + 1) * S * a := by ring
    exact le_of_mul_le_mul_right h2 ha

/-- coordinates of a nearly-unit vector -/
theorem coord_le_of_norm2 {v : R3} {c : ℝ} (hc : 0 ≤ c) (h : v.norm2 ≤ c ^ 2) : |v.x| ≤ c ∧ |v.y| ≤ c ∧ |v.z| ≤ c := by
  unfold R3.norm2 at h
  refine ⟨?_, ?_, ?_⟩ <;> apply abs_le_of_sq_le_sq' _ hc |> fun h => abs_le.mpr h <;>
    nlinarith [sq_nonneg v.x, sq_nonneg v.y, sq_nonneg v.z]

/-! ### integer vectors as real vectors -/

theorem ofI_ofV3 (p : V3) : ofI (ofV3 p) = R3.smul (2 ^ 1074) (ofV p) := by
  unfold ofI ofV3 ofV R3.smul val
  ext <;> simp <;> field_simp

theorem ofI_cross (a b : IV3) : ofI (a.cross b) = R3.cross (ofI a) (ofI b) := by
  unfold ofI IV3.cross R3.cross; ext <;> simp

theorem ofI_norm2 (a : IV3) : (ofI a).norm2 = ((IA.inorm2 a : Int) : ℝ) := by
  unfold ofI R3.norm2 IA.inorm2 IV3.dot; push_cast; ring

theorem ofI_dot (a b : IV3) : R3.dot (ofI a) (ofI b) = ((IA.idot a b : Int) : ℝ) := by
  unfold ofI R3.dot IA.idot IV3.dot; push_cast; ring

theorem ofI_neg (a : IV3) : ofI a.neg = R3.neg (ofI a) := by
  unfold ofI IV3.neg R3.neg; ext <;> simp

/-- the judge's verdict from the real statements -/
theorem angleLe_ne_no {p : V3} {X : IV3} (hd : 0 < R3.dot (ofV p) (ofI X))
    (hs : R3.SinLe (ofV p) (ofI X) (8 * uR)) :
    IA.angleLe (ofV3 p) X ⟨8, 2 ^ 53⟩ ≠ IA.Tri.no := by
  have h2 : (0 : ℝ) < 2 ^ 1074 := by positivity
  have hdI : 0 < IA.idot (ofV3 p) X := by
    have : (0 : ℝ) < ((IA.idot (ofV3 p) X : Int) : ℝ) := by
      rw [← ofI_dot, ofI_ofV3]
      have e : R3.dot (R3.smul (2 ^ 1074) (ofV p)) (ofI X) = 2 ^ 1074 * R3.dot (ofV p) (ofI X) := by
        unfold R3.dot R3.smul; ring
      rw [e]; positivity
    exact_mod_cast this
  have hsI : ((IA.inorm2 ((ofV3 p).cross X) : Int) : ℝ)
      ≤ (8 / 2 ^ 53) ^ 2 * (((IA.inorm2 (ofV3 p) : Int) : ℝ) * ((IA.inorm2 X : Int) : ℝ)) := by
    have h := (hs.smul_left (2 ^ 1074))
    rw [← ofI_ofV3] at h
    unfold R3.SinLe at h
    rw [← ofI_cross, ofI_norm2, ofI_norm2, ofI_norm2] at h
    have e : (8 * uR : ℝ) = 8 / 2 ^ 53 := by unfold uR; ring
    rw [e] at h
    linarith
  have hsQ : ((IA.inorm2 ((ofV3 p).cross X) : Int) : ℚ)
      ≤ (8 / 2 ^ 53) ^ 2 * (((IA.inorm2 (ofV3 p) : Int) : ℚ) * ((IA.inorm2 X : Int) : ℚ)) := by
    have : (((IA.inorm2 ((ofV3 p).cross X) : Int) : ℚ) : ℝ)
        ≤ (((8 / 2 ^ 53) ^ 2 * (((IA.inorm2 (ofV3 p) : Int) : ℚ) * ((IA.inorm2 X : Int) : ℚ)) : ℚ) : ℝ) := by
      push_cast; exact hsI
    exact_mod_cast this
  unfold IA.angleLe
  rw [if_neg (not_le.mpr hdI)]
  simp only
  split
  · simp
  · split
    · rename_i _ hlt
      exfalso
      have hd1 : 0 < (IA.Q.ofInt (IA.inorm2 ((ofV3 p).cross X))).den := Nat.one_pos
      have hd2 : 0 < (IA.Q.ofInt (IA.inorm2 (ofV3 p) * IA.inorm2 X)).den := Nat.one_pos
      have hd3 : 0 < ((⟨8, 2 ^ 53⟩ : IA.Q) * ⟨8, 2 ^ 53⟩).den := by decide
      have hd4 : 0 < ((⟨8, 2 ^ 53⟩ : IA.Q) * ⟨8, 2 ^ 53⟩ * IA.Q.ofInt (IA.inorm2 (ofV3 p) * IA.inorm2 X)).den :=
        den_mul _ _ hd3 hd2
      rw [lt_iff _ _ hd4 hd1, val_mul _ _ hd3 hd2, val_mul _ _ (by decide) (by decide)] at hlt
      have v8 : Q.val (⟨8, 2 ^ 53⟩ : IA.Q) = 8 / 2 ^ 53 := by unfold Q.val; norm_num
      have vc : Q.val (IA.Q.ofInt (IA.inorm2 ((ofV3 p).cross X))) = ((IA.inorm2 ((ofV3 p).cross X) : Int) : ℚ) := by
        unfold Q.val IA.Q.ofInt; simp
      have vm : Q.val (IA.Q.ofInt (IA.inorm2 (ofV3 p) * IA.inorm2 X))
          = ((IA.inorm2 (ofV3 p) : Int) : ℚ) * ((IA.inorm2 X : Int) : ℚ) := by
        unfold Q.val IA.Q.ofInt; simp
      rw [v8, vc, vm] at hlt
      have : (8 / 2 ^ 53 : ℚ) * (8 / 2 ^ 53) = (8 / 2 ^ 53) ^ 2 := by ring
      rw [this] at hlt
      exact absurd hsQ (not_le.mpr hlt)
    · simp

end S2Proofs.C16Acc
