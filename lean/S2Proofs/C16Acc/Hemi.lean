/-
  C16Acc.Hemi — the hemisphere margin of the exact crossing point.

  `Intersection` fixes the sign of its result with the sum of the four vertices.  That is sound only when the true crossing
  point has a clearly positive dot product with that sum (fails for nearly antipodal edges, finding D38).  Here the margin is
  proved under the exclusion "both edges are not nearly antipodal" (`1 + a0·a1 ≥ 2^-40`, `1 + b0·b1 ≥ 2^-40`):

    * `hemi_edge`   : pure real geometry — a point `X` of the closed arc `A0A1` (given by sign conditions) satisfies
                      `X·(A0+A1) ≥ (m/2)|X|` when `1 + A0·A1 ≥ m`;
    * `exactCrossingClosed_some` : what `IA.exactCrossingClosed … = some X` says (integer statements);
    * `hemi_margin` : the glue, `X·((a0+a1)+(b0+b1)) ≥ 2^-40 |X|`.
-/
import S2Proofs.C16Acc.Bridge

namespace S2Proofs.C16Acc
open S2 S2.Exact S2.EdgeNum

/-! ### pure real geometry -/

/-- `|N|²·X = ((X×A1)·N)·A0 + ((A0×X)·N)·A1 + (X·N)·N` with `N = A0×A1` -/
theorem R3.plane_decomp (A0 A1 X : R3) :
    R3.smul (R3.cross A0 A1).norm2 X
      = R3.add (R3.add (R3.smul (R3.dot (R3.cross X A1) (R3.cross A0 A1)) A0)
          (R3.smul (R3.dot (R3.cross A0 X) (R3.cross A0 A1)) A1))
          (R3.smul (R3.dot X (R3.cross A0 A1)) (R3.cross A0 A1)) := by
  unfold R3.smul R3.add R3.dot R3.cross R3.norm2
  ext <;> simp only <;> ring

theorem R3.norm_le_one_add {A : R3} {τ : ℝ} (hτ0 : 0 ≤ τ) (h : A.norm2 ≤ 1 + τ) : A.norm ≤ 1 + τ := by
  apply R3.norm_le_of_sq (by linarith)
  nlinarith

theorem hemi_edge {A0 A1 X : R3} {τ m : ℝ}
    (n0 : |A0.norm2 - 1| ≤ τ) (n1 : |A1.norm2 - 1| ≤ τ) (hτ0 : 0 ≤ τ) (hτ : τ ≤ 1 / 2 ^ 45)
    (hperp : R3.dot X (R3.cross A0 A1) = 0)
    (h1 : 0 ≤ R3.dot (R3.cross A0 X) (R3.cross A0 A1)) (h2 : 0 ≤ R3.dot (R3.cross X A1) (R3.cross A0 A1))
    (hN : 0 < (R3.cross A0 A1).norm2)
    (hm : m ≤ 1 + R3.dot A0 A1) (hm0 : 1 / 2 ^ 42 ≤ m) :
    m / 2 * X.norm ≤ R3.dot X (R3.add A0 A1) := by
  obtain ⟨n0l, n0u⟩ := abs_le.mp n0
  obtain ⟨n1l, n1u⟩ := abs_le.mp n1
  have hdec := R3.plane_decomp A0 A1 X
  rw [hperp] at hdec
  generalize hα : R3.dot (R3.cross X A1) (R3.cross A0 A1) = α at hdec h2
  generalize hβ : R3.dot (R3.cross A0 X) (R3.cross A0 A1) = β at hdec h1
  generalize hD : (R3.cross A0 A1).norm2 = D at hdec hN
  generalize R3.cross A0 A1 = N at hdec
  -- D·X = α·A0 + β·A1
  have hdec' : R3.smul D X = R3.add (R3.smul α A0) (R3.smul β A1) := by
    rw [hdec]; unfold R3.add R3.smul; ext <;> simp
  -- the dot product
  have hdot : D * R3.dot X (R3.add A0 A1)
      = α * (A0.norm2 + R3.dot A0 A1) + β * (A1.norm2 + R3.dot A0 A1) := by
    have e : D * R3.dot X (R3.add A0 A1) = R3.dot (R3.smul D X) (R3.add A0 A1) := by
      unfold R3.dot R3.smul; ring
    rw [e, hdec']
    unfold R3.dot R3.smul R3.add R3.norm2; ring
  have hdot_lo : (α + β) * (m - τ) ≤ D * R3.dot X (R3.add A0 A1) := by
    rw [hdot]
    have e1 : α * (m - τ) ≤ α * (A0.norm2 + R3.dot A0 A1) := mul_le_mul_of_nonneg_left (by linarith) h2
    have e2 : β * (m - τ) ≤ β * (A1.norm2 + R3.dot A0 A1) := mul_le_mul_of_nonneg_left (by linarith) h1
    linarith
  -- the norm
  have hnorm : D * X.norm ≤ (α + β) * (1 + τ) := by
    have e : D * X.norm = (R3.smul D X).norm := by rw [R3.norm_smul, abs_of_pos hN]
    rw [e, hdec']
    have t := R3.norm_add_le (R3.smul α A0) (R3.smul β A1)
    rw [R3.norm_smul, R3.norm_smul, abs_of_nonneg h2, abs_of_nonneg h1] at t
    have a0 : A0.norm ≤ 1 + τ := R3.norm_le_one_add hτ0 (by linarith)
    have a1 : A1.norm ≤ 1 + τ := R3.norm_le_one_add hτ0 (by linarith)
    have e1 := mul_le_mul_of_nonneg_left a0 h2
    have e2 := mul_le_mul_of_nonneg_left a1 h1
    linarith
  -- m/2·(1+τ) ≤ m − τ
  have hm8 : 8 * τ ≤ m := by
    have : (8 : ℝ) * (1 / 2 ^ 45) = 1 / 2 ^ 42 := by norm_num
    linarith
  have hτh : τ ≤ 1 / 2 := le_trans hτ (by norm_num)
  have hmpos : 0 ≤ m := by linarith
  have hk : m / 2 * (1 + τ) ≤ m - τ := by nlinarith [mul_nonneg hmpos (sub_nonneg.mpr hτh)]
  have hαβ : 0 ≤ α + β := by linarith
  have hfin : D * (m / 2 * X.norm) ≤ D * R3.dot X (R3.add A0 A1) := by
    calc D * (m / 2 * X.norm) = m / 2 * (D * X.norm) := by ring
      _ ≤ m / 2 * ((α + β) * (1 + τ)) := mul_le_mul_of_nonneg_left hnorm (by linarith)
      _ = (α + β) * (m / 2 * (1 + τ)) := by ring
      _ ≤ (α + β) * (m - τ) := mul_le_mul_of_nonneg_left hk hαβ
      _ ≤ _ := hdot_lo
  exact le_of_mul_le_mul_left hfin hN

/-- the same with the edge given up to a common positive scale factor (`s = 2^1074` in the application) -/
theorem hemi_edge_scaled {A0 A1 X : R3} {s τ m : ℝ} (hs : 0 < s)
    (n0 : |A0.norm2 - 1| ≤ τ) (n1 : |A1.norm2 - 1| ≤ τ) (hτ0 : 0 ≤ τ) (hτ : τ ≤ 1 / 2 ^ 45)
    (hperp : R3.dot X (R3.cross (R3.smul s A0) (R3.smul s A1)) = 0)
    (h1 : 0 ≤ R3.dot (R3.cross (R3.smul s A0) X) (R3.cross (R3.smul s A0) (R3.smul s A1)))
    (h2 : 0 ≤ R3.dot (R3.cross X (R3.smul s A1)) (R3.cross (R3.smul s A0) (R3.smul s A1)))
    (hN : 0 < (R3.cross (R3.smul s A0) (R3.smul s A1)).norm2)
    (hm : m ≤ 1 + R3.dot A0 A1) (hm0 : 1 / 2 ^ 42 ≤ m) :
    m / 2 * X.norm ≤ R3.dot X (R3.add A0 A1) := by
  have e0 : R3.dot X (R3.cross (R3.smul s A0) (R3.smul s A1)) = s ^ 2 * R3.dot X (R3.cross A0 A1) := by
    unfold R3.dot R3.cross R3.smul; ring
  have e1 : R3.dot (R3.cross (R3.smul s A0) X) (R3.cross (R3.smul s A0) (R3.smul s A1))
      = s ^ 3 * R3.dot (R3.cross A0 X) (R3.cross A0 A1) := by
    unfold R3.dot R3.cross R3.smul; ring
  have e2 : R3.dot (R3.cross X (R3.smul s A1)) (R3.cross (R3.smul s A0) (R3.smul s A1))
      = s ^ 3 * R3.dot (R3.cross X A1) (R3.cross A0 A1) := by
    unfold R3.dot R3.cross R3.smul; ring
  have eN : (R3.cross (R3.smul s A0) (R3.smul s A1)).norm2 = s ^ 4 * (R3.cross A0 A1).norm2 := by
    unfold R3.norm2 R3.cross R3.smul; ring
  rw [e0] at hperp
  rw [e1] at h1
  rw [e2] at h2
  rw [eN] at hN
  have s2 : 0 < s ^ 2 := by positivity
  have s3 : 0 < s ^ 3 := by positivity
  have s4 : 0 < s ^ 4 := by positivity
  refine hemi_edge n0 n1 hτ0 hτ ?_ ?_ ?_ ?_ hm hm0
  · rcases mul_eq_zero.mp hperp with h | h
    · exact absurd h (ne_of_gt s2)
    · exact h
  · exact nonneg_of_mul_nonneg_right h1 s3
  · exact nonneg_of_mul_nonneg_right h2 s3
  · exact (mul_pos_iff_of_pos_left s4).mp hN

/-! ### the exact decision -/

/-- what `exactCrossingClosed … = some X` says -/
theorem exactCrossingClosed_some {A0 A1 B0 B1 X : IV3}
    (h : IA.exactCrossingClosed A0 A1 B0 B1 = some X) :
    ((A0.cross A1).cross (B0.cross B1)).isZero = false ∧
    (X = (A0.cross A1).cross (B0.cross B1) ∨ X = ((A0.cross A1).cross (B0.cross B1)).neg) ∧
    0 ≤ det3 A0 X (A0.cross A1) ∧ 0 ≤ det3 X A1 (A0.cross A1) ∧
    0 ≤ det3 B0 X (B0.cross B1) ∧ 0 ≤ det3 X B1 (B0.cross B1) := by
  unfold IA.exactCrossingClosed at h
  simp only at h
  split at h
  · exact absurd h (by simp)
  · rename_i hz
    have hz' : ((A0.cross A1).cross (B0.cross B1)).isZero = false := by simpa using hz
    split at h
    · rename_i hboth
      simp only [Bool.and_eq_true, decide_eq_true_eq] at hboth
      obtain ⟨⟨⟨⟨p1, p2⟩, p3⟩, p4⟩, ⟨⟨q1, q2⟩, q3⟩, q4⟩ := hboth
      split at h
      · have e : (A0.cross A1).cross (B0.cross B1) = X := by injection h
        subst e
        exact ⟨hz', Or.inl rfl, p1, p2, p3, p4⟩
      · have e : ((A0.cross A1).cross (B0.cross B1)).neg = X := by injection h
        rw [← e]
        exact ⟨hz', Or.inr rfl, q1, q2, q3, q4⟩
    · split at h
      · rename_i _ hok
        simp only [Bool.and_eq_true, decide_eq_true_eq] at hok
        obtain ⟨⟨⟨p1, p2⟩, p3⟩, p4⟩ := hok
        have e : (A0.cross A1).cross (B0.cross B1) = X := by injection h
        subst e
        exact ⟨hz', Or.inl rfl, p1, p2, p3, p4⟩
      · split at h
        · rename_i _ _ hok
          simp only [Bool.and_eq_true, decide_eq_true_eq] at hok
          obtain ⟨⟨⟨q1, q2⟩, q3⟩, q4⟩ := hok
          have e : ((A0.cross A1).cross (B0.cross B1)).neg = X := by injection h
          rw [← e]
          exact ⟨hz', Or.inr rfl, q1, q2, q3, q4⟩
        · exact absurd h (by simp)

theorem ofI_det3 (a b c : IV3) : ((det3 a b c : Int) : ℝ) = R3.dot (R3.cross (ofI a) (ofI b)) (ofI c) := by
  unfold det3 IV3.dot IV3.cross ofI R3.dot R3.cross
  push_cast; ring

theorem IV3.isZero_false_ne {v : IV3} (h : v.isZero = false) : v ≠ ⟨0, 0, 0⟩ := by
  intro e
  rw [e] at h
  exact absurd h (by decide)

/-- `N = 0 ⇒ N × M = 0` and `M = 0 ⇒ N × M = 0` -/
theorem IV3.norm2_pos_of_cross {N M : IV3} (h : (N.cross M).isZero = false) : 0 < N.dot N ∧ 0 < M.dot M := by
  constructor
  · by_contra hn
    obtain ⟨x, y, z⟩ := N
    simp only [IV3.dot, not_lt] at hn
    have hx : x = 0 := by nlinarith [sq_nonneg x, sq_nonneg y, sq_nonneg z]
    have hy : y = 0 := by nlinarith [sq_nonneg x, sq_nonneg y, sq_nonneg z]
    have hz : z = 0 := by nlinarith [sq_nonneg x, sq_nonneg y, sq_nonneg z]
    subst hx hy hz
    simp [IV3.cross, IV3.isZero] at h
  · by_contra hn
    obtain ⟨x, y, z⟩ := M
    simp only [IV3.dot, not_lt] at hn
    have hx : x = 0 := by nlinarith [sq_nonneg x, sq_nonneg y, sq_nonneg z]
    have hy : y = 0 := by nlinarith [sq_nonneg x, sq_nonneg y, sq_nonneg z]
    have hz : z = 0 := by nlinarith [sq_nonneg x, sq_nonneg y, sq_nonneg z]
    subst hx hy hz
    simp [IV3.cross, IV3.isZero] at h

/-- both `±(NA×NB)` are perpendicular to `NA` and to `NB` -/
theorem IV3.perp_of_cross {NA NB X : IV3} (h : X = NA.cross NB ∨ X = (NA.cross NB).neg) :
    X.dot NA = 0 ∧ X.dot NB = 0 := by
  rcases h with h | h <;> subst h <;> constructor <;> (simp only [IV3.dot, IV3.cross, IV3.neg]; ring)

/-- one edge of the margin, from the integer statements -/
theorem hemi_edge_int (a0 a1 : V3) (X : IV3)
    (n0 : |(ofV a0).norm2 - 1| ≤ 1 / 2 ^ 50 + 1 / 2 ^ 100) (n1 : |(ofV a1).norm2 - 1| ≤ 1 / 2 ^ 50 + 1 / 2 ^ 100)
    (ha : 1 / 2 ^ 40 ≤ 1 + R3.dot (ofV a0) (ofV a1))
    (hperp : X.dot ((ofV3 a0).cross (ofV3 a1)) = 0)
    (h1 : 0 ≤ det3 (ofV3 a0) X ((ofV3 a0).cross (ofV3 a1)))
    (h2 : 0 ≤ det3 X (ofV3 a1) ((ofV3 a0).cross (ofV3 a1)))
    (hN : 0 < ((ofV3 a0).cross (ofV3 a1)).dot ((ofV3 a0).cross (ofV3 a1))) :
    1 / 2 ^ 40 / 2 * (ofI X).norm ≤ R3.dot (ofI X) (R3.add (ofV a0) (ofV a1)) := by
  have hs : (0 : ℝ) < 2 ^ 1074 := by positivity
  have hperpR : R3.dot (ofI X) (R3.cross (ofI (ofV3 a0)) (ofI (ofV3 a1))) = 0 := by
    rw [← ofI_cross, ofI_dot]
    have : IA.idot X ((ofV3 a0).cross (ofV3 a1)) = 0 := hperp
    rw [this]; simp
  have h1R : 0 ≤ R3.dot (R3.cross (ofI (ofV3 a0)) (ofI X)) (R3.cross (ofI (ofV3 a0)) (ofI (ofV3 a1))) := by
    rw [← ofI_cross (ofV3 a0) (ofV3 a1), ← ofI_det3]
    exact_mod_cast h1
  have h2R : 0 ≤ R3.dot (R3.cross (ofI X) (ofI (ofV3 a1))) (R3.cross (ofI (ofV3 a0)) (ofI (ofV3 a1))) := by
    rw [← ofI_cross (ofV3 a0) (ofV3 a1), ← ofI_det3]
    exact_mod_cast h2
  have hNR : 0 < (R3.cross (ofI (ofV3 a0)) (ofI (ofV3 a1))).norm2 := by
    rw [← ofI_cross, ofI_norm2]
    have : 0 < IA.inorm2 ((ofV3 a0).cross (ofV3 a1)) := hN
    exact_mod_cast this
  rw [ofI_ofV3, ofI_ofV3] at hperpR h1R h2R hNR
  generalize (2 : ℝ) ^ 1074 = s at hs hperpR h1R h2R hNR
  exact hemi_edge_scaled hs n0 n1 (by positivity) (by norm_num) hperpR h1R h2R hNR ha (by norm_num)

theorem hemi_margin (a0 a1 b0 b1 : V3) (X : IV3)
    (h : IA.exactCrossingClosed (ofV3 a0) (ofV3 a1) (ofV3 b0) (ofV3 b1) = some X)
    (n0 : |(ofV a0).norm2 - 1| ≤ 1 / 2 ^ 50 + 1 / 2 ^ 100) (n1 : |(ofV a1).norm2 - 1| ≤ 1 / 2 ^ 50 + 1 / 2 ^ 100)
    (n2 : |(ofV b0).norm2 - 1| ≤ 1 / 2 ^ 50 + 1 / 2 ^ 100) (n3 : |(ofV b1).norm2 - 1| ≤ 1 / 2 ^ 50 + 1 / 2 ^ 100)
    (ha : 1 / 2 ^ 40 ≤ 1 + R3.dot (ofV a0) (ofV a1)) (hb : 1 / 2 ^ 40 ≤ 1 + R3.dot (ofV b0) (ofV b1)) :
    let Xr := ((ofV3 a0).cross (ofV3 a1)).cross ((ofV3 b0).cross (ofV3 b1))
    Xr ≠ ⟨0, 0, 0⟩ ∧ (X = Xr ∨ X = Xr.neg) ∧
    1 / 2 ^ 40 * (ofI X).norm ≤ R3.dot (ofI X) (R3.add (R3.add (ofV a0) (ofV a1)) (R3.add (ofV b0) (ofV b1))) := by
  intro Xr
  obtain ⟨hz, hX, p1, p2, p3, p4⟩ := exactCrossingClosed_some h
  refine ⟨IV3.isZero_false_ne hz, hX, ?_⟩
  obtain ⟨perpA, perpB⟩ := IV3.perp_of_cross hX
  obtain ⟨hNA, hNB⟩ := IV3.norm2_pos_of_cross hz
  have eA := hemi_edge_int a0 a1 X n0 n1 ha perpA p1 p2 hNA
  have eB := hemi_edge_int b0 b1 X n2 n3 hb perpB p3 p4 hNB
  have esum : R3.dot (ofI X) (R3.add (R3.add (ofV a0) (ofV a1)) (R3.add (ofV b0) (ofV b1)))
      = R3.dot (ofI X) (R3.add (ofV a0) (ofV a1)) + R3.dot (ofI X) (R3.add (ofV b0) (ofV b1)) := by
    unfold R3.dot R3.add; ring
  rw [esum]
  linarith

end S2Proofs.C16Acc
