/-
  C16Acc.Sign — the hemisphere sign correction at the exit of `Intersection`:
      q = if fl(pt · fl((a0+a1)+(b0+b1))) < 0 then −pt else pt
  is on the side of `X` (the exact intersection, `X·S ≥ m|X|`, `m ≥ 2^-40`) whenever `pt` is within `ε ≤ 2^-45` of the
  LINE through `X`.
    * `sum_dot_facts`    the float dot product with the float sum is within 2^-45 of the exact `pt·(a0+a1+b0+b1)`;
    * `sign_real`        pure real geometry: the sign of `P·S` (with a margin 2^-44) decides the sign of `P·X`;
    * `signCorrect_pos`  the combination.
-/
import S2Proofs.C16Acc.Bridge
import S2Proofs.C16Acc.Vec
import S2Proofs.FloatErr.StdModel
import S2Proofs.FloatErr.Ops
import S2Proofs.FloatErr.RealCore
import S2Proofs.FloatErr.DotProd
import S2Proofs.FloatErr2.Normal

namespace S2Proofs.C16Acc
open S2 S2.Exact S2.EdgeNum S2Proofs.F64Order S2Proofs.FloatErr S2Proofs.FE2

/-! ### float part -/

theorem uR_le_milli : uR ≤ 1 / 1000 := by unfold uR; norm_num

/-- the float dot product as a chain of rounding steps, coordinates `≤ 2` and `≤ 5` -/
theorem dotChain25 (a b : V3) (ha : Fin3 a) (hb : Fin3 b)
    (ma : |val a.x| ≤ 2 ∧ |val a.y| ≤ 2 ∧ |val a.z| ≤ 2)
    (mb : |val b.x| ≤ 5 ∧ |val b.y| ≤ 5 ∧ |val b.z| ≤ 5) :
    Fin (a.dot b) ∧
    |val (a.dot b) - (val a.x * val b.x + val a.y * val b.y + val a.z * val b.z)|
      ≤ fU uR * |val a.x * val b.x + val a.y * val b.y + val a.z * val b.z|
        + gU uR * (|val a.x * val b.x| + |val a.y * val b.y| + |val a.z * val b.z|) + hU uR * eR := by
  obtain ⟨ha1, ha2, ha3⟩ := ha
  obtain ⟨hb1, hb2, hb3⟩ := hb
  obtain ⟨ma1, ma2, ma3⟩ := ma
  obtain ⟨mb1, mb2, mb3⟩ := mb
  have m1 : |val a.x * val b.x| ≤ 10 := by have := abs_mul_le_of ma1 mb1; linarith
  have m2 : |val a.y * val b.y| ≤ 10 := by have := abs_mul_le_of ma2 mb2; linarith
  have m3 : |val a.z * val b.z| ≤ 10 := by have := abs_mul_le_of ma3 mb3; linarith
  obtain ⟨fq1, rq1, gq1⟩ := mul_step stdModel ha1 hb1 m1 (by norm_num)
  obtain ⟨fq2, rq2, gq2⟩ := mul_step stdModel ha2 hb2 m2 (by norm_num)
  obtain ⟨fq3, rq3, gq3⟩ := mul_step stdModel ha3 hb3 m3 (by norm_num)
  have ms : |val (a.x * b.x) + val (a.y * b.y)| ≤ 42 := by
    have := abs_add_le (val (a.x * b.x)) (val (a.y * b.y)); linarith
  obtain ⟨fs, rs, gs⟩ := add_step stdModel fq1 fq2 ms (by norm_num)
  have md : |val (a.x * b.x + a.y * b.y) + val (a.z * b.z)| ≤ 106 := by
    have := abs_add_le (val (a.x * b.x + a.y * b.y)) (val (a.z * b.z)); linarith
  obtain ⟨fd, rd, _⟩ := add_step stdModel fs fq3 md (by norm_num)
  refine ⟨fd, ?_⟩
  have := dot3 uR_nonneg eR_nonneg rq1 rq2 rq3 rs rd
  unfold fU gU hU
  exact this

/-- one coordinate of `sum4` -/
theorem sum4_coord {x0 x1 y0 y1 : F64} (h0 : Fin x0) (h1 : Fin x1) (h2 : Fin y0) (h3 : Fin y1)
    (m0 : |val x0| ≤ 1001 / 1000) (m1 : |val x1| ≤ 1001 / 1000)
    (m2 : |val y0| ≤ 1001 / 1000) (m3 : |val y1| ≤ 1001 / 1000) :
    Fin ((x0 + x1) + (y0 + y1)) ∧ |val ((x0 + x1) + (y0 + y1))| ≤ 5 ∧
    |val ((x0 + x1) + (y0 + y1)) - (val x0 + val x1 + (val y0 + val y1))| ≤ 11 * uR := by
  have hu := uR_nonneg
  have hu' := uR_le_milli
  obtain ⟨f1, r1, _⟩ := add_step5 h0 h1 (by linarith) (by linarith)
  obtain ⟨f2, r2, _⟩ := add_step5 h2 h3 (by linarith) (by linarith)
  have A1 : |val x0 + val x1| ≤ 2002 / 1000 := by have := abs_add_le (val x0) (val x1); linarith
  have A2 : |val y0 + val y1| ≤ 2002 / 1000 := by have := abs_add_le (val y0) (val y1); linarith
  unfold Rnd at r1 r2
  have e1 : |val (x0 + x1) - (val x0 + val x1)| ≤ uR * (2002 / 1000) := by
    have := mul_le_mul_of_nonneg_left A1 hu; linarith
  have e2 : |val (y0 + y1) - (val y0 + val y1)| ≤ uR * (2002 / 1000) := by
    have := mul_le_mul_of_nonneg_left A2 hu; linarith
  have B1 : |val (x0 + x1)| ≤ 2005 / 1000 := by
    have := abs_sub_abs_le_abs_sub (val (x0 + x1)) (val x0 + val x1); nlinarith
  have B2 : |val (y0 + y1)| ≤ 2005 / 1000 := by
    have := abs_sub_abs_le_abs_sub (val (y0 + y1)) (val y0 + val y1); nlinarith
  have A3 : |val (x0 + x1) + val (y0 + y1)| ≤ 401 / 100 := by
    have := abs_add_le (val (x0 + x1)) (val (y0 + y1)); linarith
  obtain ⟨f3, r3, _⟩ := add_step stdModel f1 f2 A3 (by norm_num)
  have r3' := r3
  unfold Rnd at r3
  have e3 : |val ((x0 + x1) + (y0 + y1)) - (val (x0 + x1) + val (y0 + y1))| ≤ uR * (401 / 100) := by
    have := mul_le_mul_of_nonneg_left A3 hu; linarith
  refine ⟨f3, ?_, ?_⟩
  · have := abs_sub_abs_le_abs_sub (val ((x0 + x1) + (y0 + y1))) (val (x0 + x1) + val (y0 + y1))
    nlinarith
  · have e : val ((x0 + x1) + (y0 + y1)) - (val x0 + val x1 + (val y0 + val y1))
        = (val ((x0 + x1) + (y0 + y1)) - (val (x0 + x1) + val (y0 + y1)))
          + (val (x0 + x1) - (val x0 + val x1)) + (val (y0 + y1) - (val y0 + val y1)) := by ring
    rw [e]
    have := abs_add_three (val ((x0 + x1) + (y0 + y1)) - (val (x0 + x1) + val (y0 + y1)))
      (val (x0 + x1) - (val x0 + val x1)) (val (y0 + y1) - (val y0 + val y1))
    linarith

theorem coord_of_norm2_le {v : R3} (h : v.norm2 ≤ 1 + 1 / 2 ^ 40) :
    |v.x| ≤ 1001 / 1000 ∧ |v.y| ≤ 1001 / 1000 ∧ |v.z| ≤ 1001 / 1000 :=
  coord_le_of_norm2 (by norm_num) (le_trans h (by norm_num))

theorem fgh_num : fU uR ≤ 2 * uR ∧ gU uR ≤ 2 * uR ∧ hU uR ≤ 4 ∧ 0 ≤ fU uR ∧ 0 ≤ gU uR := by
  have hu := uR_nonneg
  have hu' := uR_le_milli
  unfold fU gU hU
  refine ⟨?_, ?_, ?_, by positivity, by positivity⟩
  · nlinarith
  · have : (1 + uR) * (3 / 2 + uR) ≤ 2 := by nlinarith
    have := mul_le_mul_of_nonneg_left this hu
    nlinarith
  · nlinarith

theorem sum_dot_facts (pt a0 a1 b0 b1 : V3) (hp : Fin3 pt) (h0 : Fin3 a0) (h1 : Fin3 a1) (h2 : Fin3 b0) (h3 : Fin3 b1)
    (np : (ofV pt).norm2 ≤ 1 + 1 / 2 ^ 40)
    (n0 : (ofV a0).norm2 ≤ 1 + 1 / 2 ^ 49) (n1 : (ofV a1).norm2 ≤ 1 + 1 / 2 ^ 49)
    (n2 : (ofV b0).norm2 ≤ 1 + 1 / 2 ^ 49) (n3 : (ofV b1).norm2 ≤ 1 + 1 / 2 ^ 49) :
    Fin (pt.dot (sum4 a0 a1 b0 b1)) ∧
    |val (pt.dot (sum4 a0 a1 b0 b1))
        - R3.dot (ofV pt) (R3.add (R3.add (ofV a0) (ofV a1)) (R3.add (ofV b0) (ofV b1)))| ≤ 1 / 2 ^ 45 := by
  have hu := uR_nonneg
  obtain ⟨p1, p2, p3⟩ := coord_of_norm2_le np
  obtain ⟨a01, a02, a03⟩ := coord_of_norm2_le (le_trans n0 (by norm_num))
  obtain ⟨a11, a12, a13⟩ := coord_of_norm2_le (le_trans n1 (by norm_num))
  obtain ⟨b01, b02, b03⟩ := coord_of_norm2_le (le_trans n2 (by norm_num))
  obtain ⟨b11, b12, b13⟩ := coord_of_norm2_le (le_trans n3 (by norm_num))
  obtain ⟨f01, f02, f03⟩ := h0
  obtain ⟨f11, f12, f13⟩ := h1
  obtain ⟨g01, g02, g03⟩ := h2
  obtain ⟨g11, g12, g13⟩ := h3
  simp only [ofV] at p1 p2 p3 a01 a02 a03 a11 a12 a13 b01 b02 b03 b11 b12 b13
  obtain ⟨fs1, ms1, es1⟩ := sum4_coord f01 f11 g01 g11 a01 a11 b01 b11
  obtain ⟨fs2, ms2, es2⟩ := sum4_coord f02 f12 g02 g12 a02 a12 b02 b12
  obtain ⟨fs3, ms3, es3⟩ := sum4_coord f03 f13 g03 g13 a03 a13 b03 b13
  have hsx : (sum4 a0 a1 b0 b1).x = (a0.x + a1.x) + (b0.x + b1.x) := rfl
  have hsy : (sum4 a0 a1 b0 b1).y = (a0.y + a1.y) + (b0.y + b1.y) := rfl
  have hsz : (sum4 a0 a1 b0 b1).z = (a0.z + a1.z) + (b0.z + b1.z) := rfl
  obtain ⟨fd, hd⟩ := dotChain25 pt (sum4 a0 a1 b0 b1) hp ⟨by rw [hsx]; exact fs1, by rw [hsy]; exact fs2, by rw [hsz]; exact fs3⟩
    ⟨by linarith, by linarith, by linarith⟩ ⟨by rw [hsx]; exact ms1, by rw [hsy]; exact ms2, by rw [hsz]; exact ms3⟩
  refine ⟨fd, ?_⟩
  rw [hsx, hsy, hsz] at hd
  have eD : R3.dot (ofV pt) (R3.add (R3.add (ofV a0) (ofV a1)) (R3.add (ofV b0) (ofV b1)))
      = val pt.x * (val a0.x + val a1.x + (val b0.x + val b1.x))
        + val pt.y * (val a0.y + val a1.y + (val b0.y + val b1.y))
        + val pt.z * (val a0.z + val a1.z + (val b0.z + val b1.z)) := by
    unfold R3.dot R3.add ofV; rfl
  rw [eD]
  generalize val (pt.dot (sum4 a0 a1 b0 b1)) = d at hd ⊢
  generalize val ((a0.x + a1.x) + (b0.x + b1.x)) = s1 at hd ms1 es1
  generalize val ((a0.y + a1.y) + (b0.y + b1.y)) = s2 at hd ms2 es2
  generalize val ((a0.z + a1.z) + (b0.z + b1.z)) = s3 at hd ms3 es3
  generalize val a0.x + val a1.x + (val b0.x + val b1.x) = S1 at es1 ⊢
  generalize val a0.y + val a1.y + (val b0.y + val b1.y) = S2 at es2 ⊢
  generalize val a0.z + val a1.z + (val b0.z + val b1.z) = S3 at es3 ⊢
  generalize val pt.x = q1 at hd p1 ⊢
  generalize val pt.y = q2 at hd p2 ⊢
  generalize val pt.z = q3 at hd p3 ⊢
  -- sizes of the products
  have t1 : |q1 * s1| ≤ 1001 / 1000 * 5 := abs_mul_le_of p1 ms1
  have t2 : |q2 * s2| ≤ 1001 / 1000 * 5 := abs_mul_le_of p2 ms2
  have t3 : |q3 * s3| ≤ 1001 / 1000 * 5 := abs_mul_le_of p3 ms3
  have T : |q1 * s1| + |q2 * s2| + |q3 * s3| ≤ 16 := by linarith
  have Sg : |q1 * s1 + q2 * s2 + q3 * s3| ≤ 16 := le_trans (abs_add_three _ _ _) T
  obtain ⟨hf, hg, hh, hf0, hg0⟩ := fgh_num
  have k1 : fU uR * |q1 * s1 + q2 * s2 + q3 * s3| ≤ 2 * uR * 16 :=
    mul_le_mul hf Sg (abs_nonneg _) (by linarith)
  have k2 : gU uR * (|q1 * s1| + |q2 * s2| + |q3 * s3|) ≤ 2 * uR * 16 :=
    mul_le_mul hg T (by positivity) (by linarith)
  have k3 : hU uR * eR ≤ 4 * uR := by
    have he : eR ≤ uR := by
      have := eR_le
      have h2 : (1 : ℝ) / 2 ^ 250 ≤ 1 / 2 ^ 53 :=
        one_div_le_one_div_of_le (by positivity) (pow_le_pow_right₀ (by norm_num) (by norm_num))
      unfold uR; linarith
    exact mul_le_mul hh he eR_nonneg (by norm_num)
  -- perturbation of the second factor
  have c1 : |q1 * (s1 - S1)| ≤ 1001 / 1000 * (11 * uR) := abs_mul_le_of p1 es1
  have c2 : |q2 * (s2 - S2)| ≤ 1001 / 1000 * (11 * uR) := abs_mul_le_of p2 es2
  have c3 : |q3 * (s3 - S3)| ≤ 1001 / 1000 * (11 * uR) := abs_mul_le_of p3 es3
  have e : d - (q1 * S1 + q2 * S2 + q3 * S3)
      = (d - (q1 * s1 + q2 * s2 + q3 * s3)) + (q1 * (s1 - S1) + q2 * (s2 - S2) + q3 * (s3 - S3)) := by ring
  rw [e]
  have tr := abs_add_le (d - (q1 * s1 + q2 * s2 + q3 * s3)) (q1 * (s1 - S1) + q2 * (s2 - S2) + q3 * (s3 - S3))
  have tr3 := abs_add_three (q1 * (s1 - S1)) (q2 * (s2 - S2)) (q3 * (s3 - S3))
  have fin : (102 : ℝ) * uR ≤ 1 / 2 ^ 45 := by unfold uR; norm_num
  linarith

/-! ### pure real part -/

/-- `W = |X|²·P − (P·X)·X` (the component of `P` orthogonal to `X`, scaled by `|X|²`) -/
theorem orth_norm2 (P X : R3) :
    (R3.sub (R3.smul X.norm2 P) (R3.smul (R3.dot P X) X)).norm2 = X.norm2 * (R3.cross P X).norm2 := by
  unfold R3.norm2 R3.sub R3.smul R3.dot R3.cross; ring

theorem orth_dot (P X S : R3) :
    R3.dot (R3.sub (R3.smul X.norm2 P) (R3.smul (R3.dot P X) X)) S
      = X.norm2 * R3.dot P S - R3.dot P X * R3.dot X S := by
  unfold R3.norm2 R3.sub R3.smul R3.dot; ring

/-- the core inequalities: `|x2·e − d·t| ≤ 6ε·x2` and `(9/10·n)² ≤ d²` -/
theorem sign_core {P X S : R3} {ε : ℝ} (hs : R3.SinLe P X ε) (hε0 : 0 ≤ ε) (hε : ε ≤ 1 / 2 ^ 45)
    (hP : |P.norm2 - 1| ≤ 1 / 2 ^ 40) (hS : S.norm ≤ 5) :
    |X.norm2 * R3.dot P S - R3.dot P X * R3.dot X S| ≤ 6 * ε * X.norm2 ∧
    (9 / 10 * X.norm) ^ 2 ≤ (R3.dot P X) ^ 2 := by
  obtain ⟨hPl, hPu⟩ := abs_le.mp hP
  have hx0 := X.norm2_nonneg
  have hp0 := P.norm2_nonneg
  have hS2 : S.norm2 ≤ 25 := by have := R3.sq_le_of_norm_le hS; linarith
  have hε2 : ε ^ 2 ≤ 1 / 100 := by
    have : ε ^ 2 ≤ (1 / 2 ^ 45) ^ 2 := pow_le_pow_left₀ hε0 hε 2
    have h2 : ((1 : ℝ) / 2 ^ 45) ^ 2 ≤ 1 / 100 := by norm_num
    linarith
  have hε20 : 0 ≤ ε ^ 2 := sq_nonneg _
  unfold R3.SinLe at hs
  constructor
  · have h1 := R3.dot_sq_le (R3.sub (R3.smul X.norm2 P) (R3.smul (R3.dot P X) X)) S
    rw [orth_norm2, orth_dot] at h1
    have hc0 := (R3.cross P X).norm2_nonneg
    have h2 : X.norm2 * (R3.cross P X).norm2 * S.norm2 ≤ X.norm2 * (ε ^ 2 * P.norm2 * X.norm2) * 25 := by
      apply mul_le_mul _ hS2 S.norm2_nonneg
      · exact mul_nonneg hx0 (le_trans hc0 hs)
      · exact mul_le_mul_of_nonneg_left hs hx0
    have h3 : X.norm2 * (ε ^ 2 * P.norm2 * X.norm2) * 25 ≤ (6 * ε * X.norm2) ^ 2 := by
      have e : (6 * ε * X.norm2) ^ 2 - X.norm2 * (ε ^ 2 * P.norm2 * X.norm2) * 25
          = (ε ^ 2 * X.norm2 ^ 2) * (36 - 25 * P.norm2) := by ring
      have : 0 ≤ (ε ^ 2 * X.norm2 ^ 2) * (36 - 25 * P.norm2) := by
        apply mul_nonneg (by positivity)
        have : (1 : ℝ) / 2 ^ 40 ≤ 1 / 100 := by norm_num
        linarith
      linarith
    have h4 := abs_le_of_sq_le_sq' (le_trans h1 (le_trans h2 h3))
      (mul_nonneg (mul_nonneg (by norm_num) hε0) hx0)
    exact abs_le.mpr h4
  · rw [R3.lagrange] at hs
    rw [mul_pow, R3.norm_sq]
    -- d² ≥ (1 − ε²)·p2·x2 ≥ 0.99·0.99·x2
    have hq : (99 : ℝ) / 100 ≤ P.norm2 := by
      have : (1 : ℝ) / 2 ^ 40 ≤ 1 / 100 := by norm_num
      linarith
    have h1 : (99 / 100 : ℝ) * (99 / 100) ≤ (1 - ε ^ 2) * P.norm2 :=
      mul_le_mul (by linarith) hq (by norm_num) (by linarith)
    have h2 := mul_le_mul_of_nonneg_right h1 hx0
    nlinarith

theorem sign_real {P X S : R3} {ε m : ℝ} (hs : R3.SinLe P X ε) (hε0 : 0 ≤ ε) (hε : ε ≤ 1 / 2 ^ 45)
    (hP : |P.norm2 - 1| ≤ 1 / 2 ^ 40) (hX : 0 < X.norm) (hS : S.norm ≤ 5)
    (hm : m * X.norm ≤ R3.dot X S) (hm0 : 1 / 2 ^ 40 ≤ m) :
    (-(1 / 2 ^ 44) ≤ R3.dot P S → 0 < R3.dot P X) ∧ (R3.dot P S ≤ 1 / 2 ^ 44 → R3.dot P X < 0) := by
  obtain ⟨hW, hD⟩ := sign_core (X := X) hs hε0 hε hP hS
  obtain ⟨hWl, hWu⟩ := abs_le.mp hW
  have hx2 : X.norm2 = X.norm * X.norm := (R3.norm_mul_self X).symm
  have hD' : |9 / 10 * X.norm| ≤ |R3.dot P X| := sq_le_sq.mp hD
  rw [abs_of_nonneg (by positivity)] at hD'
  generalize R3.dot P X = d at *
  generalize R3.dot P S = e at *
  generalize R3.dot X S = t at *
  generalize X.norm = n at *
  generalize X.norm2 = x2 at *
  subst hx2
  have hm1 : (0 : ℝ) < 1 / 2 ^ 40 := by positivity
  have hmn : 0 ≤ m * n := mul_nonneg (by linarith) hX.le
  have hnn : 0 < n * n := mul_pos hX hX
  -- margin: 0.9·m − 6ε − 2^-44 > 0
  have hmar : 0 < 9 / 10 * m - 6 * ε - 1 / 2 ^ 44 := by
    have : (0 : ℝ) < 9 / 10 * (1 / 2 ^ 40) - 6 * (1 / 2 ^ 45) - 1 / 2 ^ 44 := by norm_num
    linarith
  constructor
  · intro he
    by_contra hn
    have hn := not_lt.mp hn
    rw [abs_of_nonpos hn] at hD'
    -- d ≤ −0.9 n, t ≥ m n ≥ 0 ⇒ d·t ≤ −0.9·m·n²
    have h1 : d * t ≤ -(9 / 10 * n) * (m * n) := by
      have a1 : d * t ≤ -(9 / 10 * n) * t := by
        apply mul_le_mul_of_nonneg_right (by linarith) (le_trans hmn hm)
      have a2 : -(9 / 10 * n) * t ≤ -(9 / 10 * n) * (m * n) := by
        apply mul_le_mul_of_nonpos_left hm
        have : 0 ≤ 9 / 10 * n := by positivity
        linarith
      linarith
    have h2 : -(1 / 2 ^ 44) * (n * n) ≤ n * n * e := by
      have := mul_le_mul_of_nonneg_left he hnn.le; linarith
    have h3 : 0 < (9 / 10 * m - 6 * ε - 1 / 2 ^ 44) * (n * n) := mul_pos hmar hnn
    nlinarith
  · intro he
    by_contra hn
    have hn := not_lt.mp hn
    rw [abs_of_nonneg hn] at hD'
    have h1 : (9 / 10 * n) * (m * n) ≤ d * t := by
      have a1 : (9 / 10 * n) * t ≤ d * t := by
        apply mul_le_mul_of_nonneg_right hD' (le_trans hmn hm)
      have a2 : (9 / 10 * n) * (m * n) ≤ (9 / 10 * n) * t := by
        apply mul_le_mul_of_nonneg_left hm (by positivity)
      linarith
    have h2 : n * n * e ≤ (1 / 2 ^ 44) * (n * n) := by
      have := mul_le_mul_of_nonneg_left he hnn.le; linarith
    have h3 : 0 < (9 / 10 * m - 6 * ε - 1 / 2 ^ 44) * (n * n) := mul_pos hmar hnn
    nlinarith

/-! ### combination -/

/-- for a finite float: `F64.lt y 0 = true ↔ val y < 0` -/
theorem lt_fz_iff {y : F64} (hy : Fin y) : F64.lt y fz = true ↔ val y < 0 := by
  obtain ⟨hz, tz⟩ := fz_facts
  rw [lt_iff hy hz, tz]
  unfold val
  have h2 : (0 : ℝ) < 2 ^ 1074 := by positivity
  constructor
  · intro h
    have : (toInt y : ℝ) < 0 := by exact_mod_cast h
    exact div_neg_of_neg_of_pos this h2
  · intro h
    have : (toInt y : ℝ) < 0 := by
      by_contra hn
      have := div_nonneg (not_lt.mp hn) h2.le
      linarith
    exact_mod_cast this

theorem norm_le_54 {v : R3} (h : v.norm2 ≤ 1 + 1 / 2 ^ 49) : v.norm ≤ 5 / 4 :=
  R3.norm_le_of_sq (by norm_num) (le_trans h (by norm_num))

theorem dot_neg_left (a b : R3) : R3.dot (R3.neg a) b = - R3.dot a b := by
  unfold R3.dot R3.neg; ring

theorem signCorrect_pos (pt a0 a1 b0 b1 : V3) (X : R3) {ε m : ℝ}
    (hp : Fin3 pt) (h0 : Fin3 a0) (h1 : Fin3 a1) (h2 : Fin3 b0) (h3 : Fin3 b1)
    (np : |(ofV pt).norm2 - 1| ≤ 1 / 2 ^ 40)
    (n0 : (ofV a0).norm2 ≤ 1 + 1 / 2 ^ 49) (n1 : (ofV a1).norm2 ≤ 1 + 1 / 2 ^ 49)
    (n2 : (ofV b0).norm2 ≤ 1 + 1 / 2 ^ 49) (n3 : (ofV b1).norm2 ≤ 1 + 1 / 2 ^ 49)
    (hs : R3.SinLe (ofV pt) X ε) (hε0 : 0 ≤ ε) (hε : ε ≤ 1 / 2 ^ 45) (hX : 0 < X.norm)
    (hm : m * X.norm ≤ R3.dot X (R3.add (R3.add (ofV a0) (ofV a1)) (R3.add (ofV b0) (ofV b1)))) (hm0 : 1 / 2 ^ 40 ≤ m) :
    let q := signCorrect pt (sum4 a0 a1 b0 b1)
    Fin3 q ∧ 0 < R3.dot (ofV q) X ∧ R3.SinLe (ofV q) X ε ∧ (ofV q).norm2 = (ofV pt).norm2 := by
  intro q
  obtain ⟨npl, npu⟩ := abs_le.mp np
  obtain ⟨fd, hd⟩ := sum_dot_facts pt a0 a1 b0 b1 hp h0 h1 h2 h3 (by linarith) n0 n1 n2 n3
  obtain ⟨hdl, hdu⟩ := abs_le.mp hd
  have hS : (R3.add (R3.add (ofV a0) (ofV a1)) (R3.add (ofV b0) (ofV b1))).norm ≤ 5 := by
    have t1 := R3.norm_add_le (R3.add (ofV a0) (ofV a1)) (R3.add (ofV b0) (ofV b1))
    have t2 := R3.norm_add_le (ofV a0) (ofV a1)
    have t3 := R3.norm_add_le (ofV b0) (ofV b1)
    have := norm_le_54 n0
    have := norm_le_54 n1
    have := norm_le_54 n2
    have := norm_le_54 n3
    linarith
  obtain ⟨sr1, sr2⟩ := sign_real hs hε0 hε np hX hS hm hm0
  have hlt := lt_fz_iff fd
  have h4445 : (1 : ℝ) / 2 ^ 45 ≤ 1 / 2 ^ 44 := by norm_num
  obtain ⟨fq, hq⟩ := signCorrect_val (s := sum4 a0 a1 b0 b1) hp
  refine ⟨fq, ?_⟩
  rcases hq with ⟨hb, hv⟩ | ⟨hb, hv⟩
  · show 0 < R3.dot (ofV (signCorrect pt (sum4 a0 a1 b0 b1))) X ∧ R3.SinLe (ofV (signCorrect pt (sum4 a0 a1 b0 b1))) X ε
      ∧ (ofV (signCorrect pt (sum4 a0 a1 b0 b1))).norm2 = (ofV pt).norm2
    rw [hv]
    have hy : 0 ≤ val (pt.dot (sum4 a0 a1 b0 b1)) := by
      by_contra hn
      have := hlt.mpr (not_le.mp hn)
      rw [hb] at this; exact absurd this (by simp)
    exact ⟨sr1 (by linarith), hs, rfl⟩
  · show 0 < R3.dot (ofV (signCorrect pt (sum4 a0 a1 b0 b1))) X ∧ R3.SinLe (ofV (signCorrect pt (sum4 a0 a1 b0 b1))) X ε
      ∧ (ofV (signCorrect pt (sum4 a0 a1 b0 b1))).norm2 = (ofV pt).norm2
    rw [hv]
    have hy : val (pt.dot (sum4 a0 a1 b0 b1)) < 0 := hlt.mp hb
    have := sr2 (by linarith)
    refine ⟨?_, hs.neg_left, R3.norm2_neg _⟩
    rw [dot_neg_left]; linarith

end S2Proofs.C16Acc
