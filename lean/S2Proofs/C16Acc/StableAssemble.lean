/-
  C16Acc.StableAssemble — the stable path of `Intersection`, assembled:

    `stable_of_proj` : float glue of the last stage (`StableGlue.tail_facts'`, `bLen_facts`) + the scaling step (`ScaleSpec`)
                       + the real-analysis core (`StableCore.stable_core`), GIVEN that the two projections are certified
                       (`|d_i − P_i| ≤ (1 − 2^-40)·ε_i`, finite, bounded);
    `stable_kernel`  : the same with the certification of the projections PROVED (`ProjGlue.projection_facts` + `ProjCore.proj_core`).
-/
import S2Proofs.C16Acc.StableCore
import S2Proofs.C16Acc.StableGlue
import S2Proofs.C16Acc.Norm
import S2Proofs.C16Acc.Final

namespace S2Proofs.C16Acc
open S2 S2.Exact S2.EdgeNum S2Proofs.F64Order S2Proofs.FloatErr S2Proofs.C16

theorem UnitR.norm_le {p : V3} (h : UnitR p) : (ofV p).norm ≤ 1 + 1 / 2 ^ 50 := by
  apply R3.norm_le_of_sq (by positivity)
  have := (abs_le.mp h.2).2
  have e : (1 : ℝ) + (1 / 2 ^ 50 + 1 / 2 ^ 100) ≤ (1 + 1 / 2 ^ 50) ^ 2 := by norm_num
  linarith

theorem UnitR.coord2 {p : V3} (h : UnitR p) : |val p.x| ≤ 2 ∧ |val p.y| ≤ 2 ∧ |val p.z| ≤ 2 := by
  have h4 : (ofV p).norm2 ≤ (2 : ℝ) ^ 2 := by
    have := h.le49
    have e : (1 : ℝ) + 1 / 2 ^ 49 ≤ 2 ^ 2 := by norm_num
    linarith
  exact coord_le_of_norm2 (by norm_num) h4

/-- the stable path, given certified projections -/
theorem stable_of_proj (HS : ScaleSpec) (a0 a1 b0 b1 r : V3) (ub0 : UnitR b0) (ub1 : UnitR b1)
    (d0 e0 d1 e1 : F64)
    (hp0 : projection b0 ((a0.sub a1).cross (a0.add a1)) ((a0.sub a1).cross (a0.add a1)).norm a0 a1 = (d0, e0))
    (hp1 : projection b1 ((a0.sub a1).cross (a0.add a1)) ((a0.sub a1).cross (a0.add a1)).norm a0 a1 = (d1, e1))
    (fd0 : Fin d0) (fd1 : Fin d1) (md0 : |val d0| ≤ 2 ^ 10) (md1 : |val d1| ≤ 2 ^ 10)
    (fe0 : Fin e0) (fe1 : Fin e1) (e0n : 0 ≤ val e0) (e0m : val e0 ≤ 2 ^ 10) (e1n : 0 ≤ val e1) (e1m : val e1 ≤ 2 ^ 10)
    (hP0 : |val d0 - R3.dot (ofV b0) (Nvec (ofV a0) (ofV a1))| ≤ (1 - 1 / 2 ^ 40) * val e0)
    (hP1 : |val d1 - R3.dot (ofV b1) (Nvec (ofV a0) (ofV a1))| ≤ (1 - 1 / 2 ^ 40) * val e1)
    (hopp : val d0 * val d1 ≤ 0)
    (hguard : 1 / 2 ^ 400 ≤ val ((d0 - d1).abs - (e0 + e1)))
    (h : intersectionStableSorted a0 a1 b0 b1 = some r) :
    Fin3 r ∧ R3.SinLe (ofV r) (Xr (ofV a0) (ofV a1) (ofV b0) (ofV b1)) (8 * uR) ∧
      |(ofV r).norm2 - 1| ≤ 20 * uR := by
  rw [C16K.sorted_eq, C16K.stableParts_eq, hp0, hp1] at h
  simp only at h
  obtain ⟨fbL, bL0, bL8, hbL⟩ := bLen_facts b0 b1 ub0.1 ub1.1 ub0.coord2 ub1.coord2
  obtain ⟨hr, fx, ⟨gx, gy, gz⟩, hn2, hdS, heS, hlt, hx, herr, hacc⟩ :=
    tail_facts' (b1.sub b0).norm d0 e0 d1 e1 b0 b1 r ub0.1 ub1.1 ub0.coord2 ub1.coord2 fbL bL0 bL8
      fd0 fd1 md0 md1 fe0 fe1 e0n e0m e1n e1m hopp hguard h
  obtain ⟨_, _, fr, hxn, hlen, s, ν, hs0, _, hrv, hν⟩ := HS _ fx gx gy gz hn2
  have hxL : val (F64.sqrt ((b1.mul d0).sub (b0.mul d1)).norm2)
      ≤ (1 + 6 * uR) * (ofV ((b1.mul d0).sub (b0.mul d1))).norm := by
    have := (abs_le.mp hlen).2
    linarith
  have hcore := stable_core (B0 := ofV b0) (B1 := ofV b1) (x := ofV ((b1.mul d0).sub (b0.mul d1))) (ν := ν)
    (P0 := R3.dot (ofV b0) (Nvec (ofV a0) (ofV a1))) (P1 := R3.dot (ofV b1) (Nvec (ofV a0) (ofV a1)))
    ub0.norm_le ub1.norm_le e0n e1n hP0 hP1 hopp hdS heS hlt hx bL0 hbL herr hacc hxL hxn hν
  have hunit := scale_unit _ fx gx gy gz hn2
  rw [hr]
  refine ⟨fr, ?_, hunit⟩
  rw [hrv]
  exact sinLe_Xcode_iff (hcore.smul_left s)

/-- unit length of an accepted stable result needs only finite, bounded projections (no side condition) -/
theorem stable_unit_of_fin (HS : ScaleSpec) (a0 a1 b0 b1 r : V3) (ub0 : UnitR b0) (ub1 : UnitR b1)
    (d0 e0 d1 e1 : F64)
    (hp0 : projection b0 ((a0.sub a1).cross (a0.add a1)) ((a0.sub a1).cross (a0.add a1)).norm a0 a1 = (d0, e0))
    (hp1 : projection b1 ((a0.sub a1).cross (a0.add a1)) ((a0.sub a1).cross (a0.add a1)).norm a0 a1 = (d1, e1))
    (fd0 : Fin d0) (fd1 : Fin d1) (md0 : |val d0| ≤ 2 ^ 10) (md1 : |val d1| ≤ 2 ^ 10)
    (h : intersectionStableSorted a0 a1 b0 b1 = some r) :
    Fin3 r ∧ |(ofV r).norm2 - 1| ≤ 20 * uR := by
  rw [C16K.sorted_eq, C16K.stableParts_eq, hp0, hp1] at h
  simp only at h
  obtain ⟨_, h2, _, hr⟩ := finish_some h
  change F64.lt ((b1.mul d0).sub (b0.mul d1)).norm2 minNormalF = false at h2
  change r = ((b1.mul d0).sub (b0.mul d1)).mul (F64.one / F64.sqrt ((b1.mul d0).sub (b0.mul d1)).norm2) at hr
  obtain ⟨fx3, ⟨gx, gy, gz⟩, _⟩ := tail_x_facts d0 d1 b0 b1 ub0.1 ub1.1 ub0.coord2 ub1.coord2 fd0 fd1 md0 md1
  have fn := norm2_fin _ fx3 ⟨gx, gy, gz⟩
  obtain ⟨fm, vm⟩ := minNormal_facts
  have hn : 1 / 2 ^ 1022 ≤ val ((b1.mul d0).sub (b0.mul d1)).norm2 := by
    rw [← vm]; exact val_le_of_lt_false fn fm h2
  have h1314 : (2 : ℝ) ^ 13 ≤ 2 ^ 14 := by norm_num
  obtain ⟨_, _, fr, _⟩ := HS _ fx3 (le_trans gx h1314) (le_trans gy h1314) (le_trans gz h1314) hn
  have hunit := scale_unit _ fx3 (le_trans gx h1314) (le_trans gy h1314) (le_trans gz h1314) hn
  rw [hr]
  exact ⟨fr, hunit⟩

end S2Proofs.C16Acc
