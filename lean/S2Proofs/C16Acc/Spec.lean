/-
  C16Acc.Spec — the interface between the work packages of the C16 accuracy analysis.

  `ScaleSpec` : the specification of "scale a float vector to unit length":
       r = x.mul (1 / sqrt (x.norm2))           (the last step of intersectionStableSorted and of V3.normalize)
  for a finite vector `x` with `fl(|x|²) ≥ 2^-1022` (the guard of the repaired intersectionStableSorted).
  It is PROVED in `C16Acc/Norm.lean` (`scaleSpec : ScaleSpec`); the other files take it as a hypothesis-free lemma from there.
-/
import S2Proofs.C16Acc.Vec
import S2Proofs.F64Order

namespace S2Proofs.C16Acc
open S2 S2Proofs.FloatErr S2Proofs.F64Order

/-- specification of `x ↦ x.mul (1 / sqrt x.norm2)`:
    the computed length is within `6u` (relative) of the true length, the result is `s·(x + ν)` with a positive real
    factor `s` within `8u` of `1/|x|` and a perturbation `ν` of relative size `u` (+ underflow `2^-500`). -/
def ScaleSpec : Prop :=
  ∀ x : V3, Fin3 x → |val x.x| ≤ 2 ^ 14 → |val x.y| ≤ 2 ^ 14 → |val x.z| ≤ 2 ^ 14 →
    1 / 2 ^ 1022 ≤ val x.norm2 →
    Fin x.norm2 ∧ Fin (F64.sqrt x.norm2) ∧ Fin3 (x.mul (F64.one / F64.sqrt x.norm2)) ∧
    1 / 2 ^ 512 ≤ (ofV x).norm ∧
    |val (F64.sqrt x.norm2) - (ofV x).norm| ≤ 6 * uR * (ofV x).norm ∧
    ∃ (s : ℝ) (ν : R3), 0 < s ∧ |s * (ofV x).norm - 1| ≤ 8 * uR ∧
      ofV (x.mul (F64.one / F64.sqrt x.norm2)) = R3.smul s (R3.add (ofV x) ν) ∧
      ν.norm ≤ (uR + 1 / 2 ^ 500) * (ofV x).norm

end S2Proofs.C16Acc
