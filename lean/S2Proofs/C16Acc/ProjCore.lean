/-
  C16Acc.ProjCore — the pure real-analysis core of the error bound of `projection`
  (`/repo/s2/edge_crossings.go`, model `S2.EdgeNum.projection`).  No floats: only ℝ and `R3`.

  Part 1: vector lemmas for the float glue (`abs_cross_norm_le`, `cross_round_norm`, `abs_dot_abs_le`, `norm_comp_rel`).
  Part 2: `proj_core`, the error bound  |d − x·N| ≤ (1 − 2^-40)·ε.
-/
import Mathlib.Analysis.Real.Sqrt
import Mathlib.Tactic.Ring
import Mathlib.Tactic.Linarith
import Mathlib.Tactic.Positivity
import Mathlib.Tactic.NormNum
import Mathlib.Tactic.GCongr
import S2Proofs.C16Acc.Vec
import S2Proofs.FloatErr.RealCore

namespace S2Proofs.C16Acc
open S2Proofs.FloatErr

/-! ## Part 1: vector lemmas -/

/-- √2 bound for the "absolute cross product": w_i = |p_j q_k| + |p_k q_j| -/
theorem abs_cross_norm_le (p q : R3) :
    (⟨|p.y * q.z| + |p.z * q.y|, |p.z * q.x| + |p.x * q.z|, |p.x * q.y| + |p.y * q.x|⟩ : R3).norm
      ≤ 14143 / 10000 * (p.norm * q.norm) := by
  have hp := p.norm_nonneg
  have hq := q.norm_nonneg
  apply R3.norm_le_of_sq (by positivity)
  have e : (14143 / 10000 * (p.norm * q.norm)) ^ 2 = (14143 / 10000) ^ 2 * (p.norm ^ 2 * q.norm ^ 2) := by ring
  rw [e, R3.norm_sq, R3.norm_sq]
  have hPQ : 0 ≤ p.norm2 * q.norm2 := mul_nonneg p.norm2_nonneg q.norm2_nonneg
  have key : (⟨|p.y * q.z| + |p.z * q.y|, |p.z * q.x| + |p.x * q.z|, |p.x * q.y| + |p.y * q.x|⟩ : R3).norm2
      ≤ 2 * (p.norm2 * q.norm2) := by
    simp only [abs_mul]
    have hpx := sq_abs p.x
    have hpy := sq_abs p.y
    have hpz := sq_abs p.z
    have hqx := sq_abs q.x
    have hqy := sq_abs q.y
    have hqz := sq_abs q.z
    unfold R3.norm2
    simp only
    rw [← hpx, ← hpy, ← hpz, ← hqx, ← hqy, ← hqz]
    generalize |p.x| = a1
    generalize |p.y| = a2
    generalize |p.z| = a3
    generalize |q.x| = b1
    generalize |q.y| = b2
    generalize |q.z| = b3
    nlinarith [sq_nonneg (a2 * b2 - a3 * b3), sq_nonneg (a3 * b3 - a1 * b1), sq_nonneg (a1 * b1 - a2 * b2),
      mul_nonneg (sq_nonneg a1) (sq_nonneg b2), mul_nonneg (sq_nonneg a1) (sq_nonneg b3),
      mul_nonneg (sq_nonneg a2) (sq_nonneg b1), mul_nonneg (sq_nonneg a2) (sq_nonneg b3),
      mul_nonneg (sq_nonneg a3) (sq_nonneg b1), mul_nonneg (sq_nonneg a3) (sq_nonneg b2)]
  have : (2 : ℝ) ≤ (14143 / 10000) ^ 2 := by norm_num
  nlinarith

/-- rounding of a cross product, from the component-wise facts to the norm -/
theorem cross_round_norm {Dv Sv Nv : R3} {u c : ℝ} (hu : 0 ≤ u) (hc : 0 ≤ c)
    (hx : |Nv.x - (Dv.y * Sv.z - Dv.z * Sv.y)| ≤ (u + u ^ 2) * (|Dv.y * Sv.z| + |Dv.z * Sv.y|) + u * |Dv.y * Sv.z - Dv.z * Sv.y| + c)
    (hy : |Nv.y - (Dv.z * Sv.x - Dv.x * Sv.z)| ≤ (u + u ^ 2) * (|Dv.z * Sv.x| + |Dv.x * Sv.z|) + u * |Dv.z * Sv.x - Dv.x * Sv.z| + c)
    (hz : |Nv.z - (Dv.x * Sv.y - Dv.y * Sv.x)| ≤ (u + u ^ 2) * (|Dv.x * Sv.y| + |Dv.y * Sv.x|) + u * |Dv.x * Sv.y - Dv.y * Sv.x| + c) :
    (R3.sub Nv (R3.cross Dv Sv)).norm ≤ (u + u ^ 2) * (14143 / 10000) * (Dv.norm * Sv.norm) + u * (R3.cross Dv Sv).norm + 2 * c := by
  have hα : 0 ≤ u + u ^ 2 := by positivity
  have h := R3.norm_le_of_comp (v := R3.sub Nv (R3.cross Dv Sv))
    (p := ⟨|Dv.y * Sv.z| + |Dv.z * Sv.y|, |Dv.z * Sv.x| + |Dv.x * Sv.z|, |Dv.x * Sv.y| + |Dv.y * Sv.x|⟩)
    (q := R3.cross Dv Sv) hα hu hc
    (by
      have : |(|Dv.y * Sv.z| + |Dv.z * Sv.y|)| = |Dv.y * Sv.z| + |Dv.z * Sv.y| := abs_of_nonneg (by positivity)
      simp only [R3.sub, R3.cross]; rw [this]; exact hx)
    (by
      have : |(|Dv.z * Sv.x| + |Dv.x * Sv.z|)| = |Dv.z * Sv.x| + |Dv.x * Sv.z| := abs_of_nonneg (by positivity)
      simp only [R3.sub, R3.cross]; rw [this]; exact hy)
    (by
      have : |(|Dv.x * Sv.y| + |Dv.y * Sv.x|)| = |Dv.x * Sv.y| + |Dv.y * Sv.x| := abs_of_nonneg (by positivity)
      simp only [R3.sub, R3.cross]; rw [this]; exact hz)
  have h2 := abs_cross_norm_le Dv Sv
  have h3 := mul_le_mul_of_nonneg_left h2 hα
  linarith

/-- Cauchy on the abs vectors -/
theorem abs_dot_abs_le (a b : R3) : |a.x * b.x| + |a.y * b.y| + |a.z * b.z| ≤ a.norm * b.norm := by
  have h := R3.dot_le a.abs b.abs
  rw [R3.norm_abs, R3.norm_abs] at h
  simpa [R3.dot, R3.abs, abs_mul] using h

theorem norm_comp_rel {v w : R3} {u : ℝ} (hu : 0 ≤ u) (hx : |v.x - w.x| ≤ u * |w.x|) (hy : |v.y - w.y| ≤ u * |w.y|)
    (hz : |v.z - w.z| ≤ u * |w.z|) :
    (R3.sub v w).norm ≤ u * w.norm := by
  have h := R3.norm_le_of_comp (v := R3.sub v w) (p := w) (q := w) (α := u) (β := 0) (γ := 0) hu le_rfl le_rfl
    (by simpa [R3.sub] using hx) (by simpa [R3.sub] using hy) (by simpa [R3.sub] using hz)
  linarith

/-! ## Part 2: the error bound of `projection` -/

/-! ### vector identities (helpers live in the namespace `ProjCore`) -/

namespace ProjCore

theorem dot_cross_endpoints (A0 A1 : R3) :
    R3.dot A0 (R3.cross (R3.sub A0 A1) (R3.add A0 A1)) = 0 ∧
    R3.dot A1 (R3.cross (R3.sub A0 A1) (R3.add A0 A1)) = 0 := by
  constructor <;> (unfold R3.dot R3.cross R3.sub R3.add; ring)

theorem dot_sub_split (B A N : R3) : R3.dot B N = R3.dot (R3.sub B A) N + R3.dot A N := by
  unfold R3.dot R3.sub; ring

theorem dot_decomp (d : ℝ) (xv xk Nv N : R3) :
    d - R3.dot xk N = (d - R3.dot xv Nv) + R3.dot xv (R3.sub Nv N) + R3.dot (R3.sub xv xk) N := by
  unfold R3.dot R3.sub; ring

theorem cross_diff (Dv Sv D S : R3) :
    R3.sub (R3.cross Dv Sv) (R3.cross D S) = R3.add (R3.cross (R3.sub Dv D) Sv) (R3.cross D (R3.sub Sv S)) := by
  unfold R3.cross R3.sub R3.add; ext <;> simp <;> ring

theorem sub_triangle (a b c : R3) : (R3.sub a c).norm ≤ (R3.sub a b).norm + (R3.sub b c).norm := by
  have e : R3.sub a c = R3.add (R3.sub a b) (R3.sub b c) := by
    unfold R3.sub R3.add; ext <;> simp
  rw [e]; exact R3.norm_add_le _ _

theorem dot_sub_add (A0 A1 : R3) : R3.dot (R3.sub A0 A1) (R3.add A0 A1) = A0.norm2 - A1.norm2 := by
  unfold R3.dot R3.sub R3.add R3.norm2; ring

/-- Lagrange: `|D||S| ≤ |D×S| + |D·S|` -/
theorem norm_mul_le_cross_add (D S : R3) : D.norm * S.norm ≤ (R3.cross D S).norm + |R3.dot D S| := by
  have h := R3.lagrange D S
  have h0 : 0 ≤ D.norm * S.norm := mul_nonneg D.norm_nonneg S.norm_nonneg
  have h1 : 0 ≤ (R3.cross D S).norm + |R3.dot D S| := add_nonneg (R3.norm_nonneg _) (abs_nonneg _)
  rw [← pow_le_pow_iff_left₀ h0 h1 (by norm_num : (2 : ℕ) ≠ 0)]
  have e1 : (D.norm * S.norm) ^ 2 = D.norm2 * S.norm2 := by rw [mul_pow, R3.norm_sq, R3.norm_sq]
  have e2 : ((R3.cross D S).norm + |R3.dot D S|) ^ 2
      = (R3.cross D S).norm2 + 2 * ((R3.cross D S).norm * |R3.dot D S|) + (R3.dot D S) ^ 2 := by
    rw [add_sq, R3.norm_sq, sq_abs]; ring
  rw [e1, e2, h]
  have := mul_nonneg (R3.norm_nonneg (R3.cross D S)) (abs_nonneg (R3.dot D S))
  linarith

theorem abs_tri (a b : ℝ) : |b| ≤ |a| + |a - b| ∧ |a| ≤ |b| + |a - b| := by
  rcases abs_cases a with ⟨h1, _⟩ | ⟨h1, _⟩ <;> rcases abs_cases b with ⟨h2, _⟩ | ⟨h2, _⟩ <;>
    rcases abs_cases (a - b) with ⟨h3, _⟩ | ⟨h3, _⟩ <;> constructor <;> linarith

/-! ### scalar lemmas (`u` abstract, `0 ≤ u ≤ 10^-9`) -/

theorem le_of_mul_one_sub {a r c c' : ℝ} (ha : 0 ≤ a) (h : a * (1 - c) ≤ r) (hc' : 0 ≤ 1 + c')
    (hc : 1 ≤ (1 + c') * (1 - c)) : a ≤ (1 + c') * r := by
  have h1 : a * 1 ≤ a * ((1 + c') * (1 - c)) := mul_le_mul_of_nonneg_left hc ha
  have h2 : (1 + c') * (a * (1 - c)) ≤ (1 + c') * r := mul_le_mul_of_nonneg_left h hc'
  linarith

theorem u_pows {u : ℝ} (hu0 : 0 ≤ u) (hu : u ≤ 1 / 10 ^ 9) :
    u ^ 2 ≤ 1 / 10 ^ 9 * u ∧ u ^ 3 ≤ 1 / 10 ^ 18 * u ∧ u ^ 4 ≤ 1 / 10 ^ 27 * u := by
  have h2 : u ^ 2 ≤ 1 / 10 ^ 9 * u := by nlinarith
  have h3 : u ^ 3 ≤ 1 / 10 ^ 18 * u := by
    have := mul_le_mul_of_nonneg_left h2 hu0
    nlinarith
  have h4 : u ^ 4 ≤ 1 / 10 ^ 27 * u := by
    have := mul_le_mul_of_nonneg_left h3 hu0
    nlinarith
  exact ⟨h2, h3, h4⟩

/-- the rounding error of `N' = fl(D'×S')` relative to `N = D×S`, in terms of `|N|` and `|D||S|` -/
theorem sK {u t nD nS nDv nSv nN nC Δc δN : ℝ} (hu0 : 0 ≤ u) (hu : u ≤ 1 / 10 ^ 9)
    (hD0 : 0 ≤ nD) (hS0 : 0 ≤ nS) (hSv0 : 0 ≤ nSv)
    (hDv : nDv ≤ (1 + u) * nD) (hSv : nSv ≤ (1 + u) * nS)
    (hΔ : Δc ≤ u * nD * nSv + nD * (u * nS)) (hC : nC ≤ nN + Δc)
    (hδ : δN ≤ ((u + u ^ 2) * (14143 / 10000) * (nDv * nSv) + u * nC + t) + Δc) :
    δN ≤ u * nN + 34144 / 10000 * u * (nD * nS) + t := by
  obtain ⟨hu2, hu3, hu4⟩ := u_pows hu0 hu
  have hP : 0 ≤ nD * nS := mul_nonneg hD0 hS0
  have p1 : nDv * nSv ≤ ((1 + u) * nD) * ((1 + u) * nS) := mul_le_mul hDv hSv hSv0 (by positivity)
  have p2 : u * nD * nSv ≤ u * nD * ((1 + u) * nS) := mul_le_mul_of_nonneg_left hSv (by positivity)
  have p3 : Δc ≤ u * (2 + u) * (nD * nS) := by linarith
  have p4 := mul_le_mul_of_nonneg_left p1 (by positivity : 0 ≤ (u + u ^ 2) * (14143 / 10000))
  have p5 := mul_le_mul_of_nonneg_left hC hu0
  have p6 := mul_le_mul_of_nonneg_left p3 hu0
  have hc : (u + u ^ 2) * (14143 / 10000) * ((1 + u) * (1 + u)) + u * (u * (2 + u)) + u * (2 + u)
      ≤ 34144 / 10000 * u := by nlinarith
  have p7 := mul_le_mul_of_nonneg_right hc hP
  linarith

/-- from `|D||S| ≤ |N| + η` to bounds in terms of `|N'|` -/
theorem sN {u t nN nNv P η δN : ℝ} (hu0 : 0 ≤ u) (hu : u ≤ 1 / 10 ^ 9) (ht0 : 0 ≤ t)
    (hnN : 0 ≤ nN) (hnNv : 0 ≤ nNv) (hη : η ≤ 16001 / 1000 * u)
    (h2 : δN ≤ u * nN + 34144 / 10000 * u * P + t) (h3 : P ≤ nN + η) (h4 : nN ≤ nNv + δN) :
    nN ≤ (1 + 5 * u) * nNv + 55 * u ^ 2 + 2 * t ∧
    δN ≤ 44145 / 10000 * u * nNv + 5465 / 100 * u ^ 2 + 2 * t := by
  obtain ⟨hu2, hu3, hu4⟩ := u_pows hu0 hu
  have b : δN ≤ 44144 / 10000 * u * nN + 54634 / 1000 * u ^ 2 + t := by
    have q1 := mul_le_mul_of_nonneg_left h3 (by positivity : 0 ≤ 34144 / 10000 * u)
    have q2 := mul_le_mul_of_nonneg_left hη (by positivity : 0 ≤ 34144 / 10000 * u)
    nlinarith
  have c : nN * (1 - 44144 / 10000 * u) ≤ nNv + 54634 / 1000 * u ^ 2 + t := by linarith
  have c2 := le_of_mul_one_sub (c' := 5 * u) hnN c (by positivity) (by nlinarith)
  have hut : u * t ≤ 1 / 10 ^ 9 * t := mul_le_mul_of_nonneg_right hu ht0
  have hN : nN ≤ (1 + 5 * u) * nNv + 55 * u ^ 2 + 2 * t := by nlinarith
  refine ⟨hN, ?_⟩
  have d1 := mul_le_mul_of_nonneg_left hN (by positivity : 0 ≤ 44144 / 10000 * u)
  have d2 : u * u * nNv ≤ 1 / 10 ^ 9 * u * nNv := by
    have := mul_le_mul_of_nonneg_right hu (mul_nonneg hu0 hnNv)
    nlinarith
  nlinarith

/-- the rounding error of `d = fl(x'·N')` in terms of `|d|` -/
theorem sE {u t E1 ad dv M : ℝ} (hu0 : 0 ≤ u) (hu : u ≤ 1 / 10 ^ 9) (ht0 : 0 ≤ t)
    (hE0 : 0 ≤ E1) (had0 : 0 ≤ ad) (hM0 : 0 ≤ M)
    (h6 : E1 ≤ fU u * dv + gU u * M + t) (h7 : dv ≤ ad + E1) (h7b : ad ≤ dv + E1) (h7c : dv ≤ M) :
    E1 ≤ 3 / 2 * u * (1 + 3 * u) * ad + 15001 / 10000 * u * M + 2 * t ∧ ad ≤ (1 + 4 * u) * M + t := by
  obtain ⟨hu2, hu3, hu4⟩ := u_pows hu0 hu
  have hf : fU u = u * (3 / 2 + u / 2) := rfl
  have hg : gU u = u * (1 + u) * (3 / 2 + u) := rfl
  have hf0 : 0 ≤ fU u := by rw [hf]; positivity
  have hg0 : 0 ≤ gU u := by rw [hg]; positivity
  have x1 := mul_le_mul_of_nonneg_left h7 hf0
  have x2 : E1 * (1 - fU u) ≤ fU u * ad + gU u * M + t := by linarith
  have x3 := le_of_mul_one_sub (c' := 2 * u) hE0 x2 (by positivity) (by rw [hf]; nlinarith)
  have x4 : (1 + 2 * u) * fU u ≤ 3 / 2 * u * (1 + 3 * u) := by rw [hf]; nlinarith
  have x5 : (1 + 2 * u) * gU u ≤ 15001 / 10000 * u := by rw [hg]; nlinarith
  have x6 := mul_le_mul_of_nonneg_right x4 had0
  have x7 := mul_le_mul_of_nonneg_right x5 hM0
  have x8 : u * t ≤ 1 / 10 ^ 9 * t := mul_le_mul_of_nonneg_right hu ht0
  refine ⟨by linarith, ?_⟩
  have y1 := mul_le_mul_of_nonneg_left h7c hf0
  have y2 : fU u + gU u ≤ 4 * u := by rw [hf, hg]; nlinarith
  have y3 := mul_le_mul_of_nonneg_right y2 hM0
  linarith

/-- the sum of the three error sources, in terms of `|d|`, `|x'||N'|` and `|x'|` -/
theorem sSum {u t nN nNv nx nxk δN E1 ad err : ℝ} (hu0 : 0 ≤ u) (hu : u ≤ 1 / 10 ^ 9)
    (ht0 : 0 ≤ t) (ht : t ≤ u ^ 2 / 1000)
    (hnx : 0 ≤ nx) (hnNv : 0 ≤ nNv) (hnN : 0 ≤ nN) (hnxk : 0 ≤ nxk)
    (h1 : err ≤ E1 + nx * δN + u * nxk * nN)
    (hδ : δN ≤ 44145 / 10000 * u * nNv + 5465 / 100 * u ^ 2 + 2 * t)
    (hN : nN ≤ (1 + 5 * u) * nNv + 55 * u ^ 2 + 2 * t)
    (h5 : nxk ≤ nx + u * nxk)
    (hE : E1 ≤ 3 / 2 * u * (1 + 3 * u) * ad + 15001 / 10000 * u * (nx * nNv) + 2 * t) :
    err ≤ 3 / 2 * u * (1 + 3 * u) * ad + 69147 / 10000 * u * (nx * nNv) + 5466 / 100 * u ^ 2 * nx + 2 * t := by
  obtain ⟨hu2, hu3, hu4⟩ := u_pows hu0 hu
  have hM : 0 ≤ nx * nNv := mul_nonneg hnx hnNv
  have a0 : nxk * (1 - u) ≤ nx := by linarith
  have a1 := le_of_mul_one_sub (c' := 2 * u) hnxk a0 (by positivity) (by nlinarith)
  have hR0 : 0 ≤ (1 + 5 * u) * nNv + 55 * u ^ 2 + 2 * t := by positivity
  have a2 : nxk * nN ≤ ((1 + 2 * u) * nx) * ((1 + 5 * u) * nNv + 55 * u ^ 2 + 2 * t) :=
    mul_le_mul a1 hN hnN (by positivity)
  have a3 := mul_le_mul_of_nonneg_left hδ hnx
  have a4 := mul_le_mul_of_nonneg_left a2 hu0
  -- the higher-order terms
  have b1 : u * ((1 + 2 * u) * (1 + 5 * u)) ≤ 10001 / 10000 * u := by nlinarith
  have b1' := mul_le_mul_of_nonneg_right b1 hM
  have b2 : u * (1 + 2 * u) * (55 * u ^ 2) ≤ 1 / 1000 * u ^ 2 := by nlinarith
  have b2' := mul_le_mul_of_nonneg_right b2 hnx
  have b3 : u * (1 + 2 * u) * (2 * t) ≤ t := by
    have : u * (1 + 2 * u) * 2 ≤ 1 := by nlinarith
    have := mul_le_mul_of_nonneg_right this ht0
    linarith
  have b3' := mul_le_mul_of_nonneg_right b3 hnx
  have b4 := mul_le_mul_of_nonneg_right ht hnx
  have b5 : 0 ≤ u ^ 2 * nx := by positivity
  linarith

/-- the final comparison with the error estimate of the code -/
theorem sFinal {u t κ nNv nx ad L dist err c1 c2 : ℝ} (hu0 : 0 ≤ u) (hu : u ≤ 1 / 10 ^ 9)
    (ht0 : 0 ≤ t)
    (hnx : 0 ≤ nx) (hnNv : 0 ≤ nNv) (had0 : 0 ≤ ad)
    (hA : err ≤ 3 / 2 * u * (1 + 3 * u) * ad + 69147 / 10000 * u * (nx * nNv) + 5466 / 100 * u ^ 2 * nx + 2 * t)
    (had : ad ≤ (1 + 4 * u) * (nx * nNv) + t)
    (hL0 : 0 ≤ L) (hL : nNv ≤ (1 + 5 * u) * L) (hdist0 : 0 ≤ dist) (hdist : nx ≤ (1 + 5 * u) * dist)
    (hc1 : 69641 / 10000 ≤ c1) (hc2 : 5542 / 100 * u ≤ c2)
    (hκ0 : 0 ≤ κ) (hκ : 1 - 1 / 10 ^ 9 ≤ κ)
    (ht2 : 4 * t ≤ 1 / 1000 * u * (L * dist)) :
    err + t ≤ κ * (((c1 * L + c2) * dist + 3 / 2 * ad) * u) := by
  obtain ⟨hu2, hu3, hu4⟩ := u_pows hu0 hu
  have hQ : 0 ≤ L * dist := mul_nonneg hL0 hdist0
  have hM : 0 ≤ nx * nNv := mul_nonneg hnx hnNv
  -- M ≤ (1+11u)·L·dist
  have m1 : nx * nNv ≤ ((1 + 5 * u) * dist) * ((1 + 5 * u) * L) := mul_le_mul hdist hL hnNv (by positivity)
  have m2 : (1 + 5 * u) * (1 + 5 * u) ≤ 1 + 11 * u := by nlinarith
  have m3 := mul_le_mul_of_nonneg_right m2 hQ
  have m4 : nx * nNv ≤ (1 + 11 * u) * (L * dist) := by linarith
  -- ad ≤ 1.001·L·dist + t
  have m5 : (1 + 4 * u) * (1 + 11 * u) ≤ 1001 / 1000 := by nlinarith
  have m6 := mul_le_mul_of_nonneg_right m5 hQ
  have m7 := mul_le_mul_of_nonneg_left m4 (by positivity : 0 ≤ 1 + 4 * u)
  have m8 : ad ≤ 1001 / 1000 * (L * dist) + t := by linarith
  -- the |d| term
  have k1 : 3 / 2 * u * (1 + 3 * u) ≤ κ * (3 / 2 * u) + 1 / 10 ^ 8 * u := by nlinarith
  have k2 := mul_le_mul_of_nonneg_right k1 had0
  have k3 := mul_le_mul_of_nonneg_left m8 (by positivity : 0 ≤ 1 / 10 ^ 8 * u)
  have k4 : 1 / 10 ^ 8 * u * t ≤ t := by
    have : 1 / 10 ^ 8 * u ≤ 1 := by linarith
    have := mul_le_mul_of_nonneg_right this ht0
    linarith
  -- the L·dist term
  have q1 := mul_le_mul_of_nonneg_left m4 (by positivity : 0 ≤ 69147 / 10000 * u)
  have q2 : 69147 / 10000 * u * (1 + 11 * u) ≤ 69148 / 10000 * u := by nlinarith
  have q3 := mul_le_mul_of_nonneg_right q2 hQ
  -- the dist term
  have r1 := mul_le_mul_of_nonneg_left hdist (by positivity : 0 ≤ 5466 / 100 * u ^ 2)
  have r2 : 5466 / 100 * u ^ 2 * (1 + 5 * u) ≤ 5467 / 100 * u ^ 2 := by nlinarith [sq_nonneg u]
  have r3 := mul_le_mul_of_nonneg_right r2 hdist0
  -- the code side
  have s1 : 69641 / 10000 * (L * dist) ≤ c1 * L * dist := by
    have := mul_le_mul_of_nonneg_right hc1 hQ
    linarith
  have s2 : 5542 / 100 * u * dist ≤ c2 * dist := mul_le_mul_of_nonneg_right hc2 hdist0
  have s3 : (69641 / 10000 * (L * dist) + 5542 / 100 * u * dist + 3 / 2 * ad) * u
      ≤ ((c1 * L + c2) * dist + 3 / 2 * ad) * u := by
    apply mul_le_mul_of_nonneg_right _ hu0
    linarith
  have s4 := mul_le_mul_of_nonneg_left s3 hκ0
  have huQ : 0 ≤ u * (L * dist) := mul_nonneg hu0 hQ
  have hud : 0 ≤ u ^ 2 * dist := by positivity
  have s5 : (1 - 1 / 10 ^ 9) * (69641 / 10000 * (u * (L * dist)) + 5542 / 100 * (u ^ 2 * dist))
      ≤ κ * (69641 / 10000 * (u * (L * dist)) + 5542 / 100 * (u ^ 2 * dist)) :=
    mul_le_mul_of_nonneg_right hκ (by positivity)
  linarith

theorem sEps {err t κ ρ X ε : ℝ} (hρ0 : 0 ≤ ρ) (hρ1 : ρ ≤ 1) (ht0 : 0 ≤ t)
    (hF : err + t ≤ ρ * κ * X) (hε : κ * X - t ≤ ε) : err ≤ ρ * ε := by
  have a := mul_le_mul_of_nonneg_left hε hρ0
  have b := mul_le_mul_of_nonneg_right hρ1 ht0
  linarith

/-! ### the main theorem -/

theorem guard_aux (G : ℝ) (hG : 0 ≤ G) : (4 : ℝ) * (1 / 2 ^ 200 * G) ≤ 1 / 1000 * uR * G := by
  have b : (4 : ℝ) * (1 / 2 ^ 200) ≤ 1 / 1000 * uR := by unfold uR; norm_num
  have := mul_le_mul_of_nonneg_right b hG
  linarith

theorem pow_split (a b : ℕ) : (1 : ℝ) / 2 ^ (a + b) = 1 / 2 ^ a * (1 / 2 ^ b) := by
  rw [pow_add, one_div_mul_one_div]

end ProjCore

open ProjCore in
/-- **Error bound of `projection`** (real-analysis core).  `A0 A1` the edge, `Bx` the point, `Ak` the closer endpoint,
    `Dv Sv Nv xv` the computed `a0−a1`, `a0+a1`, `(a0−a1)×(a0+a1)`, `x−a_k`; `L = fl|Nv|`, `dist = fl|xv|`, `d = fl(xv·Nv)`;
    `ε` the error estimate of the code; `t` collects the underflow terms. -/
theorem proj_core {A0 A1 Ak Bx Dv Sv Nv xv : R3} {L dist d ε c1 c2 t : ℝ}
    (hk : Ak = A0 ∨ Ak = A1)
    (n0 : |A0.norm2 - 1| ≤ 1 / 2 ^ 50 + 1 / 2 ^ 100) (n1 : |A1.norm2 - 1| ≤ 1 / 2 ^ 50 + 1 / 2 ^ 100)
    (hD : (R3.sub Dv (R3.sub A0 A1)).norm ≤ uR * (R3.sub A0 A1).norm)
    (hS : (R3.sub Sv (R3.add A0 A1)).norm ≤ uR * (R3.add A0 A1).norm)
    (hN : (R3.sub Nv (R3.cross Dv Sv)).norm
            ≤ (uR + uR ^ 2) * (14143 / 10000) * (Dv.norm * Sv.norm) + uR * (R3.cross Dv Sv).norm + t)
    (hx : (R3.sub xv (R3.sub Bx Ak)).norm ≤ uR * (R3.sub Bx Ak).norm)
    (hd : |d - R3.dot xv Nv| ≤ fU uR * |R3.dot xv Nv| + gU uR * (xv.norm * Nv.norm) + t)
    (hL0 : 0 ≤ L) (hL : Nv.norm ≤ (1 + 4 * uR) * L + 1 / 2 ^ 530)
    (hdist0 : 0 ≤ dist) (hdist : xv.norm ≤ (1 + 4 * uR) * dist + 1 / 2 ^ 530)
    (hc1 : 69641 / 10000 ≤ c1) (hc2 : 5542 / 100 * uR ≤ c2)
    (hε : (1 - 8 * uR) * (((c1 * L + c2) * dist + 3 / 2 * |d|) * uR) - t ≤ ε)
    (gL : 1 / 2 ^ 400 ≤ L) (gd : 1 / 2 ^ 400 ≤ dist) (ht0 : 0 ≤ t) (ht : t ≤ 1 / 2 ^ 1000) :
    |d - R3.dot Bx (R3.cross (R3.sub A0 A1) (R3.add A0 A1))| ≤ (1 - 1 / 2 ^ 40) * ε := by
  have hu0 : (0 : ℝ) ≤ uR := by unfold uR; positivity
  have hu : uR ≤ 1 / 10 ^ 9 := by unfold uR; norm_num
  -- the guards
  have g1 : (1 : ℝ) / 2 ^ 530 ≤ uR * (1 / 2 ^ 400) := by
    have a : uR * (1 / 2 ^ 400) = 1 / 2 ^ 453 := by
      have e : (453 : ℕ) = 53 + 400 := by norm_num
      rw [e, pow_split]; rfl
    rw [a]
    exact one_div_le_one_div_of_le (by positivity) (pow_le_pow_right₀ (by norm_num) (by norm_num))
  have g2 : (1 : ℝ) / 2 ^ 530 ≤ uR * L := le_trans g1 (mul_le_mul_of_nonneg_left gL hu0)
  have g3 : (1 : ℝ) / 2 ^ 530 ≤ uR * dist := le_trans g1 (mul_le_mul_of_nonneg_left gd hu0)
  have hL' : Nv.norm ≤ (1 + 5 * uR) * L := by
    have a : (1 + 4 * uR) * L + 1 / 2 ^ 530 ≤ (1 + 4 * uR) * L + uR * L := by gcongr
    have e : (1 + 4 * uR) * L + uR * L = (1 + 5 * uR) * L := by ring
    rw [e] at a
    exact le_trans hL a
  have hdist' : xv.norm ≤ (1 + 5 * uR) * dist := by
    have a : (1 + 4 * uR) * dist + 1 / 2 ^ 530 ≤ (1 + 4 * uR) * dist + uR * dist := by gcongr
    have e : (1 + 4 * uR) * dist + uR * dist = (1 + 5 * uR) * dist := by ring
    rw [e] at a
    exact le_trans hdist a
  have ht2 : 4 * t ≤ 1 / 1000 * uR * (L * dist) := by
    have q1 : (1 : ℝ) / 2 ^ 400 * (1 / 2 ^ 400) ≤ L * dist := mul_le_mul gL gd (by positivity) hL0
    have q2 : (4 : ℝ) * (1 / 2 ^ 1000) ≤ 1 / 1000 * uR * (1 / 2 ^ 400 * (1 / 2 ^ 400)) := by
      have a : (1 : ℝ) / 2 ^ 1000 = 1 / 2 ^ 200 * (1 / 2 ^ 400 * (1 / 2 ^ 400)) := by
        have e : (1000 : ℕ) = 200 + (400 + 400) := by norm_num
        rw [e, pow_split, pow_split]
      rw [a]
      exact guard_aux _ (by positivity)
    have q3 := mul_le_mul_of_nonneg_left q1 (mul_nonneg (by norm_num) hu0 : (0 : ℝ) ≤ 1 / 1000 * uR)
    have q4 : 4 * t ≤ 4 * (1 / 2 ^ 1000) := mul_le_mul_of_nonneg_left ht (by norm_num)
    exact le_trans q4 (le_trans q2 q3)
  have ht' : t ≤ uR ^ 2 / 1000 := by
    have a : (1 : ℝ) / 2 ^ 1000 ≤ 1 / 2 ^ 116 :=
      one_div_le_one_div_of_le (by positivity) (pow_le_pow_right₀ (by norm_num) (by norm_num))
    have b : (1 : ℝ) / 2 ^ 116 ≤ uR ^ 2 / 1000 := by unfold uR; norm_num
    exact le_trans ht (le_trans a b)
  clear g1 g2 g3 ht gL gd hL hdist
  -- Bx·N = xk·N
  have e0 : R3.dot Bx (R3.cross (R3.sub A0 A1) (R3.add A0 A1))
      = R3.dot (R3.sub Bx Ak) (R3.cross (R3.sub A0 A1) (R3.add A0 A1)) := by
    have h := dot_cross_endpoints A0 A1
    have h' := dot_sub_split Bx Ak (R3.cross (R3.sub A0 A1) (R3.add A0 A1))
    rcases hk with rfl | rfl
    · rw [h.1] at h'; linarith
    · rw [h.2] at h'; linarith
  rw [e0]
  -- abbreviations
  generalize hDd : R3.sub A0 A1 = D at *
  generalize hSd : R3.add A0 A1 = S at *
  generalize hxk : R3.sub Bx Ak = xk at *
  generalize hNd : R3.cross D S = N at *
  -- |D·S| ≤ 16.001 u
  have hη : |R3.dot D S| ≤ 16001 / 1000 * uR := by
    rw [← hDd, ← hSd, dot_sub_add]
    have a := abs_le.mp n0
    have b := abs_le.mp n1
    have c : (2 : ℝ) * (1 / 2 ^ 50 + 1 / 2 ^ 100) ≤ 16001 / 1000 * uR := by unfold uR; norm_num
    rw [abs_le]; constructor <;> linarith [a.1, a.2, b.1, b.2]
  have hP := norm_mul_le_cross_add D S
  rw [hNd] at hP
  -- |Dv| ≤ (1+u)|D| etc.
  have hDv : Dv.norm ≤ (1 + uR) * D.norm := by
    have := R3.norm_le_add_sub Dv D; linarith
  have hSv : Sv.norm ≤ (1 + uR) * S.norm := by
    have := R3.norm_le_add_sub Sv S; linarith
  -- |Dv×Sv − N|
  have hΔ : (R3.sub (R3.cross Dv Sv) N).norm ≤ uR * D.norm * Sv.norm + D.norm * (uR * S.norm) := by
    rw [← hNd, cross_diff]
    have t1 := R3.norm_add_le (R3.cross (R3.sub Dv D) Sv) (R3.cross D (R3.sub Sv S))
    have t2 := R3.norm_cross_le (R3.sub Dv D) Sv
    have t3 := R3.norm_cross_le D (R3.sub Sv S)
    have t4 := mul_le_mul_of_nonneg_right hD Sv.norm_nonneg
    have t5 := mul_le_mul_of_nonneg_left hS D.norm_nonneg
    linarith
  have hC : (R3.cross Dv Sv).norm ≤ N.norm + (R3.sub (R3.cross Dv Sv) N).norm := R3.norm_le_add_sub _ _
  have hδ0 : (R3.sub Nv N).norm ≤ ((uR + uR ^ 2) * (14143 / 10000) * (Dv.norm * Sv.norm)
      + uR * (R3.cross Dv Sv).norm + t) + (R3.sub (R3.cross Dv Sv) N).norm := by
    have := sub_triangle Nv (R3.cross Dv Sv) N
    linarith
  have hδ1 := sK hu0 hu D.norm_nonneg S.norm_nonneg Sv.norm_nonneg hDv hSv hΔ hC hδ0
  have hNNv : N.norm ≤ Nv.norm + (R3.sub Nv N).norm := by
    have := R3.norm_le_add_sub N Nv
    rwa [R3.norm_sub_comm N Nv] at this
  obtain ⟨hNb, hδb⟩ := sN hu0 hu ht0 N.norm_nonneg Nv.norm_nonneg hη hδ1 hP hNNv
  -- the dot product d
  have hM0 : 0 ≤ xv.norm * Nv.norm := mul_nonneg xv.norm_nonneg Nv.norm_nonneg
  obtain ⟨hdv1, hdv2⟩ := abs_tri d (R3.dot xv Nv)
  obtain ⟨hEb, hadb⟩ := sE hu0 hu ht0 (abs_nonneg _) (abs_nonneg d) hM0 hd hdv1 hdv2 (R3.abs_dot_le xv Nv)
  -- x
  have hxk' : xk.norm ≤ xv.norm + uR * xk.norm := by
    have := R3.norm_le_add_sub xk xv
    rw [R3.norm_sub_comm xk xv] at this
    linarith
  -- the decomposition
  have h1 : |d - R3.dot xk N| ≤ |d - R3.dot xv Nv| + xv.norm * (R3.sub Nv N).norm + uR * xk.norm * N.norm := by
    rw [dot_decomp d xv xk Nv N]
    have t1 := abs_add_le (d - R3.dot xv Nv + R3.dot xv (R3.sub Nv N)) (R3.dot (R3.sub xv xk) N)
    have t2 := abs_add_le (d - R3.dot xv Nv) (R3.dot xv (R3.sub Nv N))
    have t3 := R3.abs_dot_le xv (R3.sub Nv N)
    have t4 := R3.abs_dot_le (R3.sub xv xk) N
    have t5 := mul_le_mul_of_nonneg_right hx N.norm_nonneg
    linarith
  have hA := sSum hu0 hu ht0 ht' xv.norm_nonneg Nv.norm_nonneg N.norm_nonneg xk.norm_nonneg h1 hδb hNb hxk' hEb
  have hκ0 : (0 : ℝ) ≤ (1 - 1 / 2 ^ 40) * (1 - 8 * uR) := by unfold uR; norm_num
  have hκ : (1 : ℝ) - 1 / 10 ^ 9 ≤ (1 - 1 / 2 ^ 40) * (1 - 8 * uR) := by unfold uR; norm_num
  have hF := sFinal hu0 hu ht0 xv.norm_nonneg Nv.norm_nonneg (abs_nonneg d) hA hadb hL0 hL' hdist0 hdist' hc1 hc2
    hκ0 hκ ht2
  -- ε
  exact sEps (by norm_num) (by norm_num) ht0 hF hε

end S2Proofs.C16Acc
