/-
  C16Acc.StableSide — the decidable side conditions of the stable-path accuracy theorem, on the bit-exact model, and their
  real readings.

    StableSide a0 a1 b0 b1 :=
      (1) the two computed signed distances have weakly opposite signs              (OppSigns)
      (2) distSum − errorSum ≥ 2^-400                                              (the deep-underflow regime is excluded)
      (3) aNormLen ≥ 2^-400, and both `dist` values inside `projection` ≥ 2^-400     (ditto)
-/
import S2Proofs.C16Acc.Final
import S2Proofs.C16Kernel

namespace S2Proofs.C16Acc
open S2 S2.Exact S2.EdgeNum S2Proofs.F64Order S2Proofs.FloatErr S2Proofs.C16

/-- `2^-400` as a float -/
def tinyF : F64 := ⟨0x26F0000000000000⟩

theorem tinyF_facts : Fin tinyF ∧ val tinyF = 1 / 2 ^ 400 := by
  have h : Fin tinyF ∧ toInt tinyF = 2 ^ 674 := by decide +kernel
  refine ⟨h.1, ?_⟩
  unfold val
  rw [h.2]
  push_cast
  have e : (2 : ℝ) ^ 1074 = 2 ^ 674 * 2 ^ 400 := by rw [← pow_add]
  rw [e]
  field_simp

/-- the float normal of edge a as `intersectionStableSorted` computes it -/
def aNormF (a0 a1 : V3) : V3 := (a0.sub a1).cross (a0.add a1)

/-- the projection of `x` as `intersectionStableSorted` calls it -/
def projF (a0 a1 x : V3) : F64 × F64 := projection x (aNormF a0 a1) (aNormF a0 a1).norm a0 a1

/-- side conditions of the stable-path theorem (decidable, on the model) -/
def StableSide (a0 a1 b0 b1 : V3) : Prop :=
  toInt (projF a0 a1 b0).1 * toInt (projF a0 a1 b1).1 ≤ 0 ∧
  F64.le tinyF (((projF a0 a1 b0).1 - (projF a0 a1 b1).1).abs - ((projF a0 a1 b0).2 + (projF a0 a1 b1).2)) = true ∧
  F64.le tinyF (aNormF a0 a1).norm = true ∧
  F64.le tinyF (F64.sqrt (C16K.pick b0 a0 a1).norm2) = true ∧
  F64.le tinyF (F64.sqrt (C16K.pick b1 a0 a1).norm2) = true

instance (a0 a1 b0 b1 : V3) : Decidable (StableSide a0 a1 b0 b1) := by unfold StableSide; infer_instance

theorem tiny_le {y : F64} (hy : Fin y) (h : F64.le tinyF y = true) : 1 / 2 ^ 400 ≤ val y := by
  obtain ⟨ft, vt⟩ := tinyF_facts
  rw [← vt]
  have := (le_iff ft hy).mp h
  unfold val
  rw [div_le_div_iff_of_pos_right (by positivity)]
  exact_mod_cast this

theorem opp_real {d0 d1 : F64} (h : toInt d0 * toInt d1 ≤ 0) : val d0 * val d1 ≤ 0 := by
  unfold val
  have hR : ((toInt d0 * toInt d1 : Int) : ℝ) ≤ 0 := by exact_mod_cast h
  push_cast at hR
  have hp : (0 : ℝ) < 2 ^ 1074 := by positivity
  generalize (2 : ℝ) ^ 1074 = K at hp
  have e : (toInt d0 : ℝ) / K * ((toInt d1 : ℝ) / K) = ((toInt d0 : ℝ) * (toInt d1 : ℝ)) / (K * K) := by
    field_simp
  rw [e]
  exact div_nonpos_of_nonpos_of_nonneg hR (by positivity)

end S2Proofs.C16Acc
