/-
  C16Acc.Perm — the judge's exact crossing point `IA.exactCrossingClosed` does not depend on the order of its arguments.

  Under reversal of an edge or exchange of the two edges the raw vector `X = (A0×A1)×(B0×B1)` changes its sign, the four
  closed-wedge tests `ok` are permuted (as a FUNCTION of the candidate `Y` they are unchanged: `okC_reverse_a` …) and the exact
  vertex sum `S = (A0+A1)+(B0+B1)` is unchanged.  Hence the result is the same vector, except in the degenerate tie
  `ok X && ok (−X)` with `X·S = 0` (there the old order returns `−X`, the new one `−(−X) = X`).

    ecc_eq                                  `exactCrossingClosed` = `core X (ok X) (ok −X) (X·S)`
    core_neg                                `core (−X) q p (−d) = core X p q d` unless `p ∧ q ∧ d = 0`
    ecc_reverse_a / ecc_reverse_b / ecc_swap            hypothesis `SumNZ` : `X·S ≠ 0`
    ecc_reverse_a' / ecc_reverse_b' / ecc_swap'         weaker hypothesis: `result = some Y → Y·S ≠ 0`
    SumNZ.reverse_a / reverse_b / swap                  the hypothesis is invariant (so the steps chain)
    ecc_perm8                               all 8 orders
    ecc_canon                               the canonical tuple `canonArgs`
    canon_cases                             `canonArgs_mem` as an 8-fold disjunction
    sumNZ_canon                             `SumNZ` of the caller's tuple gives `SumNZ` of the canonical tuple
    canon_sum, canon_forall, canon_edges    companions for the canonical tuple
    ecc_result                              the result is `X` or `−X`, passes `ok`, and (in a tie) has `0 < Y·S` resp. `X·S ≤ 0`
-/
import S2.IA
import S2.EdgeNum
import S2Proofs.Properties.C16_Canonical
import Mathlib.Tactic.Ring
import Mathlib.Tactic.Linarith

set_option linter.unusedSimpArgs false
set_option linter.unusedVariables false

namespace S2Proofs.C16Acc
open S2 S2.Exact S2.EdgeNum

/-! ## algebra of exact vectors -/

theorem iv3_neg_neg (X : IV3) : X.neg.neg = X := by
  cases X; simp [IV3.neg]

theorem iv3_isZero_neg (X : IV3) : X.neg.isZero = X.isZero := by
  have h : ∀ x : Int, (-x == 0) = (x == 0) := by
    intro x
    by_cases hx : x = 0
    · simp [hx]
    · have : -x ≠ 0 := by omega
      simp [hx, this]
  cases X; simp only [IV3.neg, IV3.isZero, h]

theorem iv3_add_comm (a b : IV3) : a.add b = b.add a := by
  unfold IV3.add
  simp only [IV3.mk.injEq]
  refine ⟨by ring, by ring, by ring⟩

theorem iv3_cross_anti (a b : IV3) : b.cross a = (a.cross b).neg := by
  unfold IV3.cross IV3.neg
  simp only [IV3.mk.injEq]
  refine ⟨by ring, by ring, by ring⟩

theorem iv3_cross_neg_neg (a b : IV3) : a.neg.cross b.neg = a.cross b := by
  unfold IV3.cross IV3.neg
  simp only [IV3.mk.injEq]
  refine ⟨by ring, by ring, by ring⟩

theorem iv3_cross_neg_l (a b : IV3) : a.neg.cross b = (a.cross b).neg := by
  unfold IV3.cross IV3.neg
  simp only [IV3.mk.injEq]
  refine ⟨by ring, by ring, by ring⟩

theorem iv3_cross_neg_r (a b : IV3) : a.cross b.neg = (a.cross b).neg := by
  unfold IV3.cross IV3.neg
  simp only [IV3.mk.injEq]
  refine ⟨by ring, by ring, by ring⟩

theorem idot_neg_left (X S : IV3) : IA.idot X.neg S = -IA.idot X S := by
  unfold IA.idot IV3.dot IV3.neg
  simp only []
  ring

/-- reversed edge, reversed normal: the first wedge test becomes the second -/
theorem det3_rev1 (A0 A1 Y : IV3) : det3 A1 Y (A1.cross A0) = det3 Y A1 (A0.cross A1) := by
  unfold det3 IV3.dot IV3.cross
  simp only []
  ring

/-- reversed edge, reversed normal: the second wedge test becomes the first -/
theorem det3_rev2 (A0 A1 Y : IV3) : det3 Y A0 (A1.cross A0) = det3 A0 Y (A0.cross A1) := by
  unfold det3 IV3.dot IV3.cross
  simp only []
  ring

/-! ## the decision structure of `exactCrossingClosed` -/

/-- the four closed-wedge tests of `exactCrossingClosed` for the candidate `Y` -/
def okC (A0 A1 B0 B1 Y : IV3) : Bool :=
  decide (0 ≤ det3 A0 Y (A0.cross A1)) && decide (0 ≤ det3 Y A1 (A0.cross A1)) &&
    decide (0 ≤ det3 B0 Y (B0.cross B1)) && decide (0 ≤ det3 Y B1 (B0.cross B1))

/-- the raw vector `(A0×A1)×(B0×B1)` -/
def rawX (A0 A1 B0 B1 : IV3) : IV3 := (A0.cross A1).cross (B0.cross B1)

/-- the exact vertex sum -/
def vsum (A0 A1 B0 B1 : IV3) : IV3 := (A0.add A1).add (B0.add B1)

/-- the selection: `p` = "X passes", `q` = "−X passes", `d = X·S` -/
def core (X : IV3) (p q : Bool) (d : Int) : Option IV3 :=
  if X.isZero then none else
  if p && q then (if 0 < d then some X else some X.neg)
  else if p then some X else if q then some X.neg else none

theorem ecc_eq (A0 A1 B0 B1 : IV3) :
    IA.exactCrossingClosed A0 A1 B0 B1 =
      core (rawX A0 A1 B0 B1) (okC A0 A1 B0 B1 (rawX A0 A1 B0 B1)) (okC A0 A1 B0 B1 (rawX A0 A1 B0 B1).neg)
        (IA.idot (rawX A0 A1 B0 B1) (vsum A0 A1 B0 B1)) := by
  unfold IA.exactCrossingClosed core okC rawX vsum
  simp only [decide_eq_true_eq]

/-- the selection for the opposite raw vector gives the same vector, unless both candidates pass and `X·S = 0` -/
theorem core_neg (X : IV3) (p q : Bool) (d : Int) (h : X.isZero = false → p = true → q = true → d ≠ 0) :
    core X.neg q p (-d) = core X p q d := by
  unfold core
  rw [iv3_isZero_neg, iv3_neg_neg]
  by_cases hz : X.isZero = true
  · simp [hz]
  · simp only [hz, if_false, Bool.false_eq_true]
    cases p <;> cases q <;> simp
    have hd := h (by simpa using hz) rfl rfl
    by_cases h1 : 0 < d
    · have h2 : ¬ d < 0 := by omega
      simp [h1, h2]
    · have h2 : d < 0 := by omega
      simp [h1, h2]

/-! ## the three generators: what changes -/

theorem okC_reverse_a (A0 A1 B0 B1 Y : IV3) : okC A1 A0 B0 B1 Y = okC A0 A1 B0 B1 Y := by
  unfold okC
  rw [det3_rev1 A0 A1 Y, det3_rev2 A0 A1 Y]
  ac_rfl

theorem okC_reverse_b (A0 A1 B0 B1 Y : IV3) : okC A0 A1 B1 B0 Y = okC A0 A1 B0 B1 Y := by
  unfold okC
  rw [det3_rev1 B0 B1 Y, det3_rev2 B0 B1 Y]
  ac_rfl

theorem okC_swap (A0 A1 B0 B1 Y : IV3) : okC B0 B1 A0 A1 Y = okC A0 A1 B0 B1 Y := by
  unfold okC
  ac_rfl

theorem rawX_reverse_a (A0 A1 B0 B1 : IV3) : rawX A1 A0 B0 B1 = (rawX A0 A1 B0 B1).neg := by
  unfold rawX
  rw [iv3_cross_anti A0 A1, iv3_cross_neg_l]

theorem rawX_reverse_b (A0 A1 B0 B1 : IV3) : rawX A0 A1 B1 B0 = (rawX A0 A1 B0 B1).neg := by
  unfold rawX
  rw [iv3_cross_anti B0 B1, iv3_cross_neg_r]

theorem rawX_swap (A0 A1 B0 B1 : IV3) : rawX B0 B1 A0 A1 = (rawX A0 A1 B0 B1).neg := by
  unfold rawX
  rw [iv3_cross_anti]

theorem vsum_reverse_a (A0 A1 B0 B1 : IV3) : vsum A1 A0 B0 B1 = vsum A0 A1 B0 B1 := by
  unfold vsum
  rw [iv3_add_comm A1 A0]

theorem vsum_reverse_b (A0 A1 B0 B1 : IV3) : vsum A0 A1 B1 B0 = vsum A0 A1 B0 B1 := by
  unfold vsum
  rw [iv3_add_comm B1 B0]

theorem vsum_swap (A0 A1 B0 B1 : IV3) : vsum B0 B1 A0 A1 = vsum A0 A1 B0 B1 := by
  unfold vsum
  rw [iv3_add_comm]

/-! ## the hypothesis: the raw vector is not orthogonal to the vertex sum -/

/-- `X·S ≠ 0` for the raw `X = (A0×A1)×(B0×B1)` and the exact vertex sum `S = (A0+A1)+(B0+B1)` -/
def SumNZ (A0 A1 B0 B1 : IV3) : Prop :=
  IA.idot ((A0.cross A1).cross (B0.cross B1)) ((A0.add A1).add (B0.add B1)) ≠ 0

theorem sumNZ_iff (A0 A1 B0 B1 : IV3) :
    SumNZ A0 A1 B0 B1 ↔ IA.idot (rawX A0 A1 B0 B1) (vsum A0 A1 B0 B1) ≠ 0 := Iff.rfl

theorem SumNZ.reverse_a {A0 A1 B0 B1 : IV3} (h : SumNZ A0 A1 B0 B1) : SumNZ A1 A0 B0 B1 := by
  rw [sumNZ_iff] at h ⊢
  rw [rawX_reverse_a, vsum_reverse_a, idot_neg_left]
  omega

theorem SumNZ.reverse_b {A0 A1 B0 B1 : IV3} (h : SumNZ A0 A1 B0 B1) : SumNZ A0 A1 B1 B0 := by
  rw [sumNZ_iff] at h ⊢
  rw [rawX_reverse_b, vsum_reverse_b, idot_neg_left]
  omega

theorem SumNZ.swap {A0 A1 B0 B1 : IV3} (h : SumNZ A0 A1 B0 B1) : SumNZ B0 B1 A0 A1 := by
  rw [sumNZ_iff] at h ⊢
  rw [rawX_swap, vsum_swap, idot_neg_left]
  omega

/-! ## what the result is -/

/-- The result, if any, is `X` or `−X`, passes the four tests, and the tie-break is recorded: when both candidates pass, the
    result `X` has `0 < X·S`, the result `−X` has `X·S ≤ 0`. -/
theorem ecc_result {A0 A1 B0 B1 Y : IV3} (h : IA.exactCrossingClosed A0 A1 B0 B1 = some Y) :
    (rawX A0 A1 B0 B1).isZero = false ∧ okC A0 A1 B0 B1 Y = true ∧
    ((Y = rawX A0 A1 B0 B1 ∧
        (okC A0 A1 B0 B1 (rawX A0 A1 B0 B1).neg = true → 0 < IA.idot (rawX A0 A1 B0 B1) (vsum A0 A1 B0 B1))) ∨
     (Y = (rawX A0 A1 B0 B1).neg ∧
        (okC A0 A1 B0 B1 (rawX A0 A1 B0 B1) = true → IA.idot (rawX A0 A1 B0 B1) (vsum A0 A1 B0 B1) ≤ 0))) := by
  rw [ecc_eq] at h
  unfold core at h
  generalize rawX A0 A1 B0 B1 = X at h ⊢
  generalize IA.idot X (vsum A0 A1 B0 B1) = d at h ⊢
  by_cases hz : X.isZero = true
  · simp [hz] at h
  · simp only [hz, if_false, Bool.false_eq_true] at h
    have hz' : X.isZero = false := by simpa using hz
    refine ⟨hz', ?_⟩
    cases hp : okC A0 A1 B0 B1 X <;> cases hq : okC A0 A1 B0 B1 X.neg <;> simp [hp, hq] at h
    · subst h; exact ⟨hq, Or.inr ⟨rfl, by simp⟩⟩
    · subst h; exact ⟨hp, Or.inl ⟨rfl, by simp⟩⟩
    · by_cases hd : 0 < d
      · simp [hd] at h; subst h; exact ⟨hp, Or.inl ⟨rfl, fun _ => hd⟩⟩
      · simp [hd] at h; subst h; exact ⟨hq, Or.inr ⟨rfl, fun _ => by omega⟩⟩

/-- in a tie the result decides the sign of `X·S`: a result with `Y·S ≠ 0` excludes `X·S = 0` -/
theorem tie_ne_zero {A0 A1 B0 B1 : IV3}
    (hS : ∀ Y, IA.exactCrossingClosed A0 A1 B0 B1 = some Y → IA.idot Y (vsum A0 A1 B0 B1) ≠ 0)
    (hz : (rawX A0 A1 B0 B1).isZero = false)
    (hp : okC A0 A1 B0 B1 (rawX A0 A1 B0 B1) = true) (hq : okC A0 A1 B0 B1 (rawX A0 A1 B0 B1).neg = true) :
    IA.idot (rawX A0 A1 B0 B1) (vsum A0 A1 B0 B1) ≠ 0 := by
  intro h0
  have e := ecc_eq A0 A1 B0 B1
  unfold core at e
  simp only [hz, if_false, Bool.false_eq_true, hp, hq, Bool.and_self, if_true, h0, Int.lt_irrefl] at e
  have := hS _ e
  rw [idot_neg_left, h0] at this
  exact this rfl

/-! ## the three generators -/

/-- reversal of the first edge, weak hypothesis: the result (if any) is not orthogonal to the vertex sum -/
theorem ecc_reverse_a' (A0 A1 B0 B1 : IV3)
    (hS : ∀ X, IA.exactCrossingClosed A0 A1 B0 B1 = some X → IA.idot X ((A0.add A1).add (B0.add B1)) ≠ 0) :
    IA.exactCrossingClosed A1 A0 B0 B1 = IA.exactCrossingClosed A0 A1 B0 B1 := by
  rw [ecc_eq A1 A0, ecc_eq A0 A1, rawX_reverse_a, vsum_reverse_a, idot_neg_left, iv3_neg_neg]
  simp only [okC_reverse_a]
  exact core_neg _ _ _ _ (fun hz hp hq => tie_ne_zero hS hz hp hq)

/-- reversal of the second edge, weak hypothesis -/
theorem ecc_reverse_b' (A0 A1 B0 B1 : IV3)
    (hS : ∀ X, IA.exactCrossingClosed A0 A1 B0 B1 = some X → IA.idot X ((A0.add A1).add (B0.add B1)) ≠ 0) :
    IA.exactCrossingClosed A0 A1 B1 B0 = IA.exactCrossingClosed A0 A1 B0 B1 := by
  rw [ecc_eq A0 A1 B1 B0, ecc_eq A0 A1 B0 B1, rawX_reverse_b, vsum_reverse_b, idot_neg_left, iv3_neg_neg]
  simp only [okC_reverse_b]
  exact core_neg _ _ _ _ (fun hz hp hq => tie_ne_zero hS hz hp hq)

/-- exchange of the two edges, weak hypothesis -/
theorem ecc_swap' (A0 A1 B0 B1 : IV3)
    (hS : ∀ X, IA.exactCrossingClosed A0 A1 B0 B1 = some X → IA.idot X ((A0.add A1).add (B0.add B1)) ≠ 0) :
    IA.exactCrossingClosed B0 B1 A0 A1 = IA.exactCrossingClosed A0 A1 B0 B1 := by
  rw [ecc_eq B0 B1 A0 A1, ecc_eq A0 A1 B0 B1, rawX_swap, vsum_swap, idot_neg_left, iv3_neg_neg]
  simp only [okC_swap]
  exact core_neg _ _ _ _ (fun hz hp hq => tie_ne_zero hS hz hp hq)

/-- `SumNZ` implies the weak hypothesis -/
theorem SumNZ.weak {A0 A1 B0 B1 : IV3} (h : SumNZ A0 A1 B0 B1) :
    ∀ X, IA.exactCrossingClosed A0 A1 B0 B1 = some X → IA.idot X ((A0.add A1).add (B0.add B1)) ≠ 0 := by
  intro Y hY
  rw [sumNZ_iff] at h
  obtain ⟨_, _, ⟨e, _⟩ | ⟨e, _⟩⟩ := ecc_result hY
  · rw [e]; exact h
  · rw [e]; show IA.idot (rawX A0 A1 B0 B1).neg (vsum A0 A1 B0 B1) ≠ 0
    rw [idot_neg_left]; omega

theorem ecc_reverse_a (A0 A1 B0 B1 : IV3)
    (hS : IA.idot ((A0.cross A1).cross (B0.cross B1)) ((A0.add A1).add (B0.add B1)) ≠ 0) :
    IA.exactCrossingClosed A1 A0 B0 B1 = IA.exactCrossingClosed A0 A1 B0 B1 :=
  ecc_reverse_a' A0 A1 B0 B1 (SumNZ.weak hS)

theorem ecc_reverse_b (A0 A1 B0 B1 : IV3)
    (hS : IA.idot ((A0.cross A1).cross (B0.cross B1)) ((A0.add A1).add (B0.add B1)) ≠ 0) :
    IA.exactCrossingClosed A0 A1 B1 B0 = IA.exactCrossingClosed A0 A1 B0 B1 :=
  ecc_reverse_b' A0 A1 B0 B1 (SumNZ.weak hS)

theorem ecc_swap (A0 A1 B0 B1 : IV3)
    (hS : IA.idot ((A0.cross A1).cross (B0.cross B1)) ((A0.add A1).add (B0.add B1)) ≠ 0) :
    IA.exactCrossingClosed B0 B1 A0 A1 = IA.exactCrossingClosed A0 A1 B0 B1 :=
  ecc_swap' A0 A1 B0 B1 (SumNZ.weak hS)

/-- ALL 8 ARGUMENT ORDERS give the same exact crossing point -/
theorem ecc_perm8 (A0 A1 B0 B1 : IV3) (hS : SumNZ A0 A1 B0 B1) :
    IA.exactCrossingClosed A1 A0 B0 B1 = IA.exactCrossingClosed A0 A1 B0 B1 ∧
    IA.exactCrossingClosed A0 A1 B1 B0 = IA.exactCrossingClosed A0 A1 B0 B1 ∧
    IA.exactCrossingClosed A1 A0 B1 B0 = IA.exactCrossingClosed A0 A1 B0 B1 ∧
    IA.exactCrossingClosed B0 B1 A0 A1 = IA.exactCrossingClosed A0 A1 B0 B1 ∧
    IA.exactCrossingClosed B0 B1 A1 A0 = IA.exactCrossingClosed A0 A1 B0 B1 ∧
    IA.exactCrossingClosed B1 B0 A0 A1 = IA.exactCrossingClosed A0 A1 B0 B1 ∧
    IA.exactCrossingClosed B1 B0 A1 A0 = IA.exactCrossingClosed A0 A1 B0 B1 := by
  have e1 := ecc_reverse_a A0 A1 B0 B1 hS
  have e2 := ecc_reverse_b A0 A1 B0 B1 hS
  have e3 := (ecc_reverse_a A0 A1 B1 B0 hS.reverse_b).trans e2
  exact ⟨e1, e2, e3, ecc_swap A0 A1 B0 B1 hS,
    (ecc_swap A1 A0 B0 B1 hS.reverse_a).trans e1,
    (ecc_swap A0 A1 B1 B0 hS.reverse_b).trans e2,
    (ecc_swap A1 A0 B1 B0 hS.reverse_b.reverse_a).trans e3⟩

/-! ## the canonical tuple -/

/-- `canonArgs_mem` as a disjunction -/
theorem canon_cases (a0 a1 b0 b1 : V3) :
    canonArgs a0 a1 b0 b1 = (a0, a1, b0, b1) ∨ canonArgs a0 a1 b0 b1 = (a1, a0, b0, b1) ∨
    canonArgs a0 a1 b0 b1 = (a0, a1, b1, b0) ∨ canonArgs a0 a1 b0 b1 = (a1, a0, b1, b0) ∨
    canonArgs a0 a1 b0 b1 = (b0, b1, a0, a1) ∨ canonArgs a0 a1 b0 b1 = (b0, b1, a1, a0) ∨
    canonArgs a0 a1 b0 b1 = (b1, b0, a0, a1) ∨ canonArgs a0 a1 b0 b1 = (b1, b0, a1, a0) := by
  have h := S2Proofs.C16.canonArgs_mem a0 a1 b0 b1
  simpa only [List.mem_cons, List.mem_nil_iff, or_false] using h

/-- the exact crossing point of the canonical tuple is the exact crossing point of the caller's tuple -/
theorem ecc_canon (a0 a1 b0 b1 : V3)
    (hS : IA.idot (((ofV3 a0).cross (ofV3 a1)).cross ((ofV3 b0).cross (ofV3 b1)))
            (((ofV3 a0).add (ofV3 a1)).add ((ofV3 b0).add (ofV3 b1))) ≠ 0) :
    IA.exactCrossingClosed (ofV3 (canonArgs a0 a1 b0 b1).1) (ofV3 (canonArgs a0 a1 b0 b1).2.1)
        (ofV3 (canonArgs a0 a1 b0 b1).2.2.1) (ofV3 (canonArgs a0 a1 b0 b1).2.2.2)
      = IA.exactCrossingClosed (ofV3 a0) (ofV3 a1) (ofV3 b0) (ofV3 b1) := by
  obtain ⟨e1, e2, e3, e4, e5, e6, e7⟩ := ecc_perm8 (ofV3 a0) (ofV3 a1) (ofV3 b0) (ofV3 b1) hS
  rcases canon_cases a0 a1 b0 b1 with h | h | h | h | h | h | h | h <;> rw [h] <;> dsimp only
  · exact e1
  · exact e2
  · exact e3
  · exact e4
  · exact e5
  · exact e6
  · exact e7

/-- the hypothesis `SumNZ` holds for the canonical tuple iff it holds for the caller's tuple (one direction) -/
theorem sumNZ_canon (a0 a1 b0 b1 : V3) (hS : SumNZ (ofV3 a0) (ofV3 a1) (ofV3 b0) (ofV3 b1)) :
    SumNZ (ofV3 (canonArgs a0 a1 b0 b1).1) (ofV3 (canonArgs a0 a1 b0 b1).2.1)
      (ofV3 (canonArgs a0 a1 b0 b1).2.2.1) (ofV3 (canonArgs a0 a1 b0 b1).2.2.2) := by
  rcases canon_cases a0 a1 b0 b1 with h | h | h | h | h | h | h | h <;> rw [h] <;> dsimp only
  · exact hS
  · exact hS.reverse_a
  · exact hS.reverse_b
  · exact hS.reverse_b.reverse_a
  · exact hS.swap
  · exact hS.reverse_a.swap
  · exact hS.reverse_b.swap
  · exact hS.reverse_b.reverse_a.swap

/-- the exact vertex sum of the canonical tuple is the exact vertex sum of the caller's tuple -/
theorem canon_sum (a0 a1 b0 b1 : V3) :
    (((ofV3 (canonArgs a0 a1 b0 b1).1).add (ofV3 (canonArgs a0 a1 b0 b1).2.1)).add
        ((ofV3 (canonArgs a0 a1 b0 b1).2.2.1).add (ofV3 (canonArgs a0 a1 b0 b1).2.2.2)))
      = (((ofV3 a0).add (ofV3 a1)).add ((ofV3 b0).add (ofV3 b1))) := by
  rcases canon_cases a0 a1 b0 b1 with h | h | h | h | h | h | h | h <;> rw [h] <;> dsimp only
  · exact vsum_reverse_a _ _ _ _
  · exact vsum_reverse_b _ _ _ _
  · exact (vsum_reverse_a _ _ _ _).trans (vsum_reverse_b _ _ _ _)
  · exact vsum_swap _ _ _ _
  · exact (vsum_swap _ _ _ _).trans (vsum_reverse_a _ _ _ _)
  · exact (vsum_swap _ _ _ _).trans (vsum_reverse_b _ _ _ _)
  · exact (vsum_swap _ _ _ _).trans ((vsum_reverse_a _ _ _ _).trans (vsum_reverse_b _ _ _ _))

/-- a property of the four points holds for the four points of the canonical tuple -/
theorem canon_forall (P : V3 → Prop) (a0 a1 b0 b1 : V3) (h0 : P a0) (h1 : P a1) (h2 : P b0) (h3 : P b1) :
    P (canonArgs a0 a1 b0 b1).1 ∧ P (canonArgs a0 a1 b0 b1).2.1 ∧
      P (canonArgs a0 a1 b0 b1).2.2.1 ∧ P (canonArgs a0 a1 b0 b1).2.2.2 := by
  rcases canon_cases a0 a1 b0 b1 with h | h | h | h | h | h | h | h <;> rw [h] <;> dsimp only <;>
    exact ⟨by assumption, by assumption, by assumption, by assumption⟩

/-- the unordered edges are preserved: the canonical tuple consists of the two edges of the caller, each possibly reversed,
    possibly exchanged -/
theorem canon_edges (a0 a1 b0 b1 : V3) :
    ((((canonArgs a0 a1 b0 b1).1 = a0 ∧ (canonArgs a0 a1 b0 b1).2.1 = a1) ∨
        ((canonArgs a0 a1 b0 b1).1 = a1 ∧ (canonArgs a0 a1 b0 b1).2.1 = a0)) ∧
      (((canonArgs a0 a1 b0 b1).2.2.1 = b0 ∧ (canonArgs a0 a1 b0 b1).2.2.2 = b1) ∨
        ((canonArgs a0 a1 b0 b1).2.2.1 = b1 ∧ (canonArgs a0 a1 b0 b1).2.2.2 = b0))) ∨
    ((((canonArgs a0 a1 b0 b1).1 = b0 ∧ (canonArgs a0 a1 b0 b1).2.1 = b1) ∨
        ((canonArgs a0 a1 b0 b1).1 = b1 ∧ (canonArgs a0 a1 b0 b1).2.1 = b0)) ∧
      (((canonArgs a0 a1 b0 b1).2.2.1 = a0 ∧ (canonArgs a0 a1 b0 b1).2.2.2 = a1) ∨
        ((canonArgs a0 a1 b0 b1).2.2.1 = a1 ∧ (canonArgs a0 a1 b0 b1).2.2.2 = a0))) := by
  rcases canon_cases a0 a1 b0 b1 with h | h | h | h | h | h | h | h <;> rw [h] <;> dsimp only
  · exact Or.inl ⟨Or.inl ⟨rfl, rfl⟩, Or.inl ⟨rfl, rfl⟩⟩
  · exact Or.inl ⟨Or.inr ⟨rfl, rfl⟩, Or.inl ⟨rfl, rfl⟩⟩
  · exact Or.inl ⟨Or.inl ⟨rfl, rfl⟩, Or.inr ⟨rfl, rfl⟩⟩
  · exact Or.inl ⟨Or.inr ⟨rfl, rfl⟩, Or.inr ⟨rfl, rfl⟩⟩
  · exact Or.inr ⟨Or.inl ⟨rfl, rfl⟩, Or.inl ⟨rfl, rfl⟩⟩
  · exact Or.inr ⟨Or.inl ⟨rfl, rfl⟩, Or.inr ⟨rfl, rfl⟩⟩
  · exact Or.inr ⟨Or.inr ⟨rfl, rfl⟩, Or.inl ⟨rfl, rfl⟩⟩
  · exact Or.inr ⟨Or.inr ⟨rfl, rfl⟩, Or.inr ⟨rfl, rfl⟩⟩

end S2Proofs.C16Acc
