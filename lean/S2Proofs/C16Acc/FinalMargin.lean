/-
  C16Acc.FinalMargin — the exit of `Intersection` under the SHARP side condition of the hemisphere test:

    HemiMargin a0 a1 b0 b1 X  :=  X·S > 0  and  |X|² ≤ 2^80·(X·S)²      (S = the exact sum of the four vertices, X the oriented exact crossing;
                                                                         exact integer arithmetic: "X·S ≥ 2^-40·|X|")

  `final_of_kernel_margin` is `Final.final_of_kernel` with `NotAntipodal a0 a1 ∧ NotAntipodal b0 b1` replaced by `HemiMargin`;
  `hemiMargin_of_notAntipodal` (from `Hemi.hemi_margin`) shows that the latter is implied by the former — `HemiMargin` also covers inputs in which
  ONE edge is nearly antipodal and the other one is not.
-/
import S2Proofs.C16Acc.Final

namespace S2Proofs.C16Acc
open S2 S2.Exact S2.EdgeNum S2Proofs.F64Order S2Proofs.FloatErr S2Proofs.C16

/-- the exact vertex sum (integers, scaled by 2^1074) -/
def vsumI (a0 a1 b0 b1 : V3) : IV3 := ((ofV3 a0).add (ofV3 a1)).add ((ofV3 b0).add (ofV3 b1))

/-- the real vertex sum -/
noncomputable def vsumR (a0 a1 b0 b1 : V3) : R3 := R3.add (R3.add (ofV a0) (ofV a1)) (R3.add (ofV b0) (ofV b1))

/-- `X·S ≥ 2^-40·|X|` in exact integer arithmetic -/
def HemiMargin (a0 a1 b0 b1 : V3) (X : IV3) : Prop :=
  0 < IA.idot X (vsumI a0 a1 b0 b1) ∧
  IA.inorm2 X * ((scale : Int)) ^ 2 ≤ 2 ^ 80 * (IA.idot X (vsumI a0 a1 b0 b1)) ^ 2

instance (a0 a1 b0 b1 : V3) (X : IV3) : Decidable (HemiMargin a0 a1 b0 b1 X) := by unfold HemiMargin; infer_instance

theorem hemiMargin_real {a0 a1 b0 b1 : V3} {X : IV3} (h : HemiMargin a0 a1 b0 b1 X) :
    1 / 2 ^ 40 * (ofI X).norm ≤ R3.dot (ofI X) (vsumR a0 a1 b0 b1) := by
  obtain ⟨hpos, hsq⟩ := h
  have hK : (0 : ℝ) < 2 ^ 1074 := by positivity
  have hd : ((IA.idot X (vsumI a0 a1 b0 b1) : Int) : ℝ) = 2 ^ 1074 * R3.dot (ofI X) (vsumR a0 a1 b0 b1) := by
    rw [← ofI_dot]; unfold vsumI vsumR; rw [ofI_vsum, dot_smul_right]
  have hposR : (0 : ℝ) < ((IA.idot X (vsumI a0 a1 b0 b1) : Int) : ℝ) := by exact_mod_cast hpos
  have hsqR : ((IA.inorm2 X : Int) : ℝ) * (2 ^ 1074) ^ 2
      ≤ 2 ^ 80 * (((IA.idot X (vsumI a0 a1 b0 b1) : Int) : ℝ)) ^ 2 := by
    have := (Int.cast_le (R := ℝ)).mpr hsq
    push_cast at this
    rw [scale_cast] at this
    have e80 : (2 : ℝ) ^ 80 = 1208925819614629174706176 := by norm_num
    rw [e80]
    exact this
  rw [hd] at hposR hsqR
  rw [← ofI_norm2] at hsqR
  generalize (2 : ℝ) ^ 1074 = K at hK hposR hsqR
  set D := R3.dot (ofI X) (vsumR a0 a1 b0 b1) with hD
  have hDpos : 0 < D := by
    by_contra hn
    have : K * D ≤ 0 := mul_nonpos_of_nonneg_of_nonpos hK.le (not_lt.mp hn)
    linarith
  -- |X|² K² ≤ 2^80 K² D²  ⇒  |X|² ≤ 2^80 D²  ⇒  |X| ≤ 2^40 D
  have h1 : (ofI X).norm2 ≤ (2 ^ 40 * D) ^ 2 := by
    have e : (2 : ℝ) ^ 80 * (K * D) ^ 2 = (2 ^ 40 * D) ^ 2 * K ^ 2 := by ring
    rw [e] at hsqR
    exact le_of_mul_le_mul_right hsqR (by positivity)
  have h2 : (ofI X).norm ≤ 2 ^ 40 * D := R3.norm_le_of_sq (by positivity) h1
  have e40 : (1 : ℝ) / 2 ^ 40 * (2 ^ 40 * D) = D := by field_simp
  calc 1 / 2 ^ 40 * (ofI X).norm ≤ 1 / 2 ^ 40 * (2 ^ 40 * D) := mul_le_mul_of_nonneg_left h2 (by positivity)
    _ = D := e40

/-- the real vertex sum of the canonical tuple is the real vertex sum of the caller's tuple -/
theorem vsumR_canon (a0 a1 b0 b1 : V3) :
    vsumR (canonArgs a0 a1 b0 b1).1 (canonArgs a0 a1 b0 b1).2.1 (canonArgs a0 a1 b0 b1).2.2.1 (canonArgs a0 a1 b0 b1).2.2.2
      = vsumR a0 a1 b0 b1 := by
  unfold vsumR
  rcases canon_cases a0 a1 b0 b1 with h | h | h | h | h | h | h | h <;> rw [h] <;> dsimp only <;>
    (unfold R3.add; ext <;> simp <;> ring)

/-- the exact crossing direction of the canonical tuple is `±` that of the caller's tuple -/
theorem xraw_canon_pm (a0 a1 b0 b1 : V3) :
    Xraw (canonArgs a0 a1 b0 b1).1 (canonArgs a0 a1 b0 b1).2.1 (canonArgs a0 a1 b0 b1).2.2.1 (canonArgs a0 a1 b0 b1).2.2.2
        = Xraw a0 a1 b0 b1 ∨
    Xraw (canonArgs a0 a1 b0 b1).1 (canonArgs a0 a1 b0 b1).2.1 (canonArgs a0 a1 b0 b1).2.2.1 (canonArgs a0 a1 b0 b1).2.2.2
        = (Xraw a0 a1 b0 b1).neg := by
  have e : ∀ p q r s : V3, Xraw p q r s = rawX (ofV3 p) (ofV3 q) (ofV3 r) (ofV3 s) := fun _ _ _ _ => rfl
  simp only [e]
  rcases canon_cases a0 a1 b0 b1 with h | h | h | h | h | h | h | h <;> rw [h] <;> dsimp only
  · exact Or.inl rfl
  · exact Or.inr (rawX_reverse_a _ _ _ _)
  · exact Or.inr (rawX_reverse_b _ _ _ _)
  · left; rw [rawX_reverse_b, rawX_reverse_a, iv3_neg_neg]
  · exact Or.inr (rawX_swap _ _ _ _)
  · left; rw [rawX_reverse_b, rawX_swap, iv3_neg_neg]
  · left; rw [rawX_reverse_a, rawX_swap, iv3_neg_neg]
  · right; rw [rawX_reverse_b, rawX_reverse_a, rawX_swap, iv3_neg_neg]

/-- what the judge's crossing is, without any side condition: `±Xraw ≠ 0`, also w.r.t. the canonical tuple -/
theorem crossing_pm (a0 a1 b0 b1 : V3) (X : IV3)
    (hX : IA.exactCrossingClosed (ofV3 a0) (ofV3 a1) (ofV3 b0) (ofV3 b1) = some X) :
    X ≠ ⟨0, 0, 0⟩ ∧ (X = Xraw a0 a1 b0 b1 ∨ X = (Xraw a0 a1 b0 b1).neg) ∧
    Xraw (canonArgs a0 a1 b0 b1).1 (canonArgs a0 a1 b0 b1).2.1 (canonArgs a0 a1 b0 b1).2.2.1
      (canonArgs a0 a1 b0 b1).2.2.2 ≠ ⟨0, 0, 0⟩ ∧
    (X = Xraw (canonArgs a0 a1 b0 b1).1 (canonArgs a0 a1 b0 b1).2.1 (canonArgs a0 a1 b0 b1).2.2.1
        (canonArgs a0 a1 b0 b1).2.2.2 ∨
     X = (Xraw (canonArgs a0 a1 b0 b1).1 (canonArgs a0 a1 b0 b1).2.1 (canonArgs a0 a1 b0 b1).2.2.1
        (canonArgs a0 a1 b0 b1).2.2.2).neg) := by
  obtain ⟨hz, hor, _⟩ := exactCrossingClosed_some hX
  have hXr : Xraw a0 a1 b0 b1 ≠ ⟨0, 0, 0⟩ := IV3.isZero_false_ne hz
  have hor' : X = Xraw a0 a1 b0 b1 ∨ X = (Xraw a0 a1 b0 b1).neg := hor
  have hXne : X ≠ ⟨0, 0, 0⟩ := by
    rcases hor' with e | e
    · rw [e]; exact hXr
    · rw [e]; exact iv3_neg_ne_zero hXr
  refine ⟨hXne, hor', ?_, ?_⟩
  · rcases xraw_canon_pm a0 a1 b0 b1 with e | e <;> rw [e]
    · exact hXr
    · exact iv3_neg_ne_zero hXr
  · rcases xraw_canon_pm a0 a1 b0 b1 with e | e <;> rw [e]
    · exact hor'
    · rw [iv3_neg_neg]; exact hor'.symm

/-- **the exit of `Intersection` under `HemiMargin`** (cf. `final_of_kernel`) -/
theorem final_of_kernel_margin (a0 a1 b0 b1 : V3)
    (u0 : UnitPt a0) (u1 : UnitPt a1) (u2 : UnitPt b0) (u3 : UnitPt b1)
    (X : IV3) (hX : IA.exactCrossingClosed (ofV3 a0) (ofV3 a1) (ofV3 b0) (ofV3 b1) = some X)
    (hm : HemiMargin a0 a1 b0 b1 X)
    (pt : V3) (hpt : Fin3 pt) {ε : ℝ} (hε0 : 0 ≤ ε) (hε : ε ≤ 8 * uR)
    (hs : R3.SinLe (ofV pt) (ofI (Xraw (canonArgs a0 a1 b0 b1).1 (canonArgs a0 a1 b0 b1).2.1
            (canonArgs a0 a1 b0 b1).2.2.1 (canonArgs a0 a1 b0 b1).2.2.2)) ε)
    (hu : |(ofV pt).norm2 - 1| ≤ 20 * uR) :
    Fin3 (canonZero (signCorrect pt (sum4 (canonArgs a0 a1 b0 b1).1 (canonArgs a0 a1 b0 b1).2.1
            (canonArgs a0 a1 b0 b1).2.2.1 (canonArgs a0 a1 b0 b1).2.2.2))) ∧
    IA.angleLe (ofV3 (canonZero (signCorrect pt (sum4 (canonArgs a0 a1 b0 b1).1 (canonArgs a0 a1 b0 b1).2.1
            (canonArgs a0 a1 b0 b1).2.2.1 (canonArgs a0 a1 b0 b1).2.2.2)))) X ⟨8, 2 ^ 53⟩ ≠ IA.Tri.no ∧
    R3.SinLe (ofV (canonZero (signCorrect pt (sum4 (canonArgs a0 a1 b0 b1).1 (canonArgs a0 a1 b0 b1).2.1
            (canonArgs a0 a1 b0 b1).2.2.1 (canonArgs a0 a1 b0 b1).2.2.2)))) (ofI X) ε ∧
    0 < R3.dot (ofV (canonZero (signCorrect pt (sum4 (canonArgs a0 a1 b0 b1).1 (canonArgs a0 a1 b0 b1).2.1
            (canonArgs a0 a1 b0 b1).2.2.1 (canonArgs a0 a1 b0 b1).2.2.2)))) (ofI X) ∧
    (ofV (canonZero (signCorrect pt (sum4 (canonArgs a0 a1 b0 b1).1 (canonArgs a0 a1 b0 b1).2.1
            (canonArgs a0 a1 b0 b1).2.2.1 (canonArgs a0 a1 b0 b1).2.2.2)))).norm2 = (ofV pt).norm2 := by
  obtain ⟨hXne, _, _, horc⟩ := crossing_pm a0 a1 b0 b1 X hX
  have hXpos : 0 < (ofI X).norm := ofI_norm_pos hXne
  have hmr := hemiMargin_real hm
  rw [← vsumR_canon] at hmr
  obtain ⟨c0, c1, c2, c3⟩ := canon_forall UnitR a0 a1 b0 b1 (unitR_of_unitPt u0) (unitR_of_unitPt u1)
    (unitR_of_unitPt u2) (unitR_of_unitPt u3)
  generalize (canonArgs a0 a1 b0 b1).1 = t0 at *
  generalize (canonArgs a0 a1 b0 b1).2.1 = t1 at *
  generalize (canonArgs a0 a1 b0 b1).2.2.1 = t2 at *
  generalize (canonArgs a0 a1 b0 b1).2.2.2 = t3 at *
  have hsX : R3.SinLe (ofV pt) (ofI X) ε := by
    rcases horc with e | e
    · rw [e]; exact hs
    · rw [e, ofI_neg]; exact sinLe_neg_right hs
  have h20 : 20 * uR ≤ 1 / 2 ^ 40 := by unfold uR; norm_num
  have h8 : 8 * uR ≤ 1 / 2 ^ 45 := by unfold uR; norm_num
  obtain ⟨fq, hpos, hsq, hnq⟩ := signCorrect_pos pt t0 t1 t2 t3 (ofI X) (m := 1 / 2 ^ 40) hpt c0.1 c1.1 c2.1 c3.1
    (le_trans hu h20) c0.le49 c1.le49 c2.le49 c3.le49 hsX hε0 (le_trans hε h8) hXpos hmr (le_refl _)
  obtain ⟨fz, vz⟩ := canonZero_val fq
  refine ⟨fz, ?_, ?_, ?_, ?_⟩
  · apply angleLe_ne_no
    · rw [vz]; exact hpos
    · rw [vz]; exact hsq.mono hε0 hε
  · rw [vz]; exact hsq
  · rw [vz]; exact hpos
  · rw [vz]; exact hnq

/-- both edges not nearly antipodal ⇒ the margin (real form) -/
theorem hemiMargin_of_notAntipodal_real (a0 a1 b0 b1 : V3)
    (u0 : UnitPt a0) (u1 : UnitPt a1) (u2 : UnitPt b0) (u3 : UnitPt b1)
    (hna : NotAntipodal a0 a1) (hnb : NotAntipodal b0 b1)
    (X : IV3) (hX : IA.exactCrossingClosed (ofV3 a0) (ofV3 a1) (ofV3 b0) (ofV3 b1) = some X) :
    1 / 2 ^ 40 * (ofI X).norm ≤ R3.dot (ofI X) (vsumR a0 a1 b0 b1) :=
  (hemi_margin a0 a1 b0 b1 X hX (unitR_of_unitPt u0).2 (unitR_of_unitPt u1).2 (unitR_of_unitPt u2).2
    (unitR_of_unitPt u3).2 (notAntipodal_real hna) (notAntipodal_real hnb)).2.2

end S2Proofs.C16Acc
