/-
  C16Acc.SameSign — the interpolation-error formula of `intersectionStableSorted` in the "same-sign" regime (pure ℝ).

  The code interpolates along edge b with the fraction `t̃ = d0/(d0−d1)` (`d_i` computed signed distances of b's endpoints
  from the plane of edge a, true values `P_i`, `|d_i − P_i| ≤ ε_i`, true fraction `t = P0/(P0−P1)`).  The edges cross, so
  `P0·P1 ≤ 0`.  The scaled interpolation error is `|t̃ − t|·|d0−d1| = |d0·P1 − d1·P0| / |P0 − P1|`, and the code bounds it
  by `|d0·ε1 − d1·ε0| / (|d0−d1| − (ε0+ε1))`.  When rounding makes `d0, d1` the SAME sign, the numerator is smaller than
  `|d0|ε1 + |d1|ε0`; the formula is nevertheless an upper bound, because `P0·P1 ≤ 0` forces `|d1| ≤ ε1`.
-/
import Mathlib.Tactic.Ring
import Mathlib.Tactic.Linarith
import Mathlib.Tactic.Positivity
import Mathlib.Tactic.NormNum
import Mathlib.Data.Real.Basic

namespace S2Proofs.C16Acc

/-- same sign, both positive, d1 < d0 (the general case follows by symmetry) -/
theorem same_sign_formula_pos {d0 d1 ε0 ε1 P0 P1 : ℝ} (h1 : 0 < d1) (h01 : d1 < d0)
    (hε0 : 0 ≤ ε0) (hε1 : 0 ≤ ε1)
    (hP0 : |d0 - P0| ≤ ε0) (hP1 : |d1 - P1| ≤ ε1) (hcross : P0 * P1 ≤ 0)
    (hacc : ε0 + ε1 < d0 - d1) :
    0 < P0 - P1 ∧ 0 < d0 * ε1 - d1 * ε0 ∧
    |d0 * P1 - d1 * P0| / (P0 - P1) ≤ (d0 * ε1 - d1 * ε0) / (d0 - d1 - (ε0 + ε1)) := by
  have _ := h01  -- implied by `hacc`; kept in the statement for readability
  obtain ⟨hP0a, hP0b⟩ := abs_le.1 hP0
  obtain ⟨hP1a, hP1b⟩ := abs_le.1 hP1
  have hP0lo : d0 - ε0 ≤ P0 := by linarith
  have hP1lo : d1 - ε1 ≤ P1 := by linarith
  have hP0pos : 0 < P0 := by linarith
  have hd0e : 0 < d0 - ε0 := by linarith
  have hP1np : P1 ≤ 0 := by
    by_contra hc
    have hc' : 0 < P1 := lt_of_not_ge hc
    have := mul_pos hP0pos hc'
    linarith
  have hd1e : d1 ≤ ε1 := by linarith
  have hε1pos : 0 < ε1 := by linarith
  have hDE : 0 < d0 - d1 - (ε0 + ε1) := by linarith
  have hPP : 0 < P0 - P1 := by linarith
  -- positivity of the numerator
  have hN : 0 < d0 * ε1 - d1 * ε0 := by
    have e1 : d1 * ε0 ≤ ε1 * ε0 := mul_le_mul_of_nonneg_right hd1e hε0
    have e2 : ε1 * ε0 < ε1 * (d0 - d1 - ε1) := mul_lt_mul_of_pos_left (by linarith) hε1pos
    have e3 : ε1 * (d0 - d1 - ε1) ≤ ε1 * d0 := mul_le_mul_of_nonneg_left (by linarith) hε1
    nlinarith [e1, e2, e3]
  refine ⟨hPP, hN, ?_⟩
  rw [div_le_div_iff₀ hPP hDE]
  -- direction 1 :  X·(D−E) ≤ N·(P0−P1)
  have g1 : (d0 * P1 - d1 * P0) * (d0 - d1 - (ε0 + ε1)) ≤ (d0 * ε1 - d1 * ε0) * (P0 - P1) := by
    have a1 : 0 ≤ P0 * ((d0 * ε1 - d1 * ε0) + d1 * (d0 - d1 - (ε0 + ε1))) :=
      mul_nonneg hP0pos.le (by positivity)
    have a2 : 0 ≤ (-P1) * ((d0 * ε1 - d1 * ε0) + d0 * (d0 - d1 - (ε0 + ε1))) :=
      mul_nonneg (by linarith) (add_nonneg hN.le (mul_nonneg (by linarith) hDE.le))
    nlinarith [a1, a2]
  -- direction 2 :  −X·(D−E) ≤ N·(P0−P1)
  have g2 : -(d0 * P1 - d1 * P0) * (d0 - d1 - (ε0 + ε1)) ≤ (d0 * ε1 - d1 * ε0) * (P0 - P1) := by
    have hA : 0 ≤ (d0 * ε1 - d1 * ε0) - d1 * (d0 - d1 - (ε0 + ε1)) := by
      have : (d0 * ε1 - d1 * ε0) - d1 * (d0 - d1 - (ε0 + ε1)) = (ε1 - d1) * d0 + d1 * (d1 + ε1) := by ring
      rw [this]
      exact add_nonneg (mul_nonneg (by linarith) (by linarith)) (mul_nonneg h1.le (by linarith))
    have hPA : (d0 - ε0) * ((d0 * ε1 - d1 * ε0) - d1 * (d0 - d1 - (ε0 + ε1)))
        ≤ P0 * ((d0 * ε1 - d1 * ε0) - d1 * (d0 - d1 - (ε0 + ε1))) :=
      mul_le_mul_of_nonneg_right hP0lo hA
    have hA0 : 0 ≤ (d0 - ε0) * ((d0 * ε1 - d1 * ε0) - d1 * (d0 - d1 - (ε0 + ε1))) :=
      mul_nonneg hd0e.le hA
    have hG : (d0 * ε1 - d1 * ε0) * (P0 - P1) + (d0 * P1 - d1 * P0) * (d0 - d1 - (ε0 + ε1))
        = P0 * ((d0 * ε1 - d1 * ε0) - d1 * (d0 - d1 - (ε0 + ε1)))
          + P1 * (d0 * (d0 - d1 - (ε0 + ε1)) - (d0 * ε1 - d1 * ε0)) := by ring
    by_cases hB : 0 ≤ d0 * (d0 - d1 - (ε0 + ε1)) - (d0 * ε1 - d1 * ε0)
    · have hPB : (d1 - ε1) * (d0 * (d0 - d1 - (ε0 + ε1)) - (d0 * ε1 - d1 * ε0))
          ≤ P1 * (d0 * (d0 - d1 - (ε0 + ε1)) - (d0 * ε1 - d1 * ε0)) :=
        mul_le_mul_of_nonneg_right hP1lo hB
      have key : (d0 - ε0) * ((d0 * ε1 - d1 * ε0) - d1 * (d0 - d1 - (ε0 + ε1)))
          + (d1 - ε1) * (d0 * (d0 - d1 - (ε0 + ε1)) - (d0 * ε1 - d1 * ε0))
          = 2 * ((d0 * ε1 - d1 * ε0) * ε1) := by ring
      have hNe : 0 ≤ (d0 * ε1 - d1 * ε0) * ε1 := mul_nonneg hN.le hε1
      linarith
    · have hB' : d0 * (d0 - d1 - (ε0 + ε1)) - (d0 * ε1 - d1 * ε0) ≤ 0 := le_of_not_ge hB
      have hPB : 0 ≤ P1 * (d0 * (d0 - d1 - (ε0 + ε1)) - (d0 * ε1 - d1 * ε0)) :=
        mul_nonneg_of_nonpos_of_nonpos hP1np hB'
      linarith
  rcases abs_cases (d0 * P1 - d1 * P0) with ⟨h, _⟩ | ⟨h, _⟩
  · rw [h]; exact g1
  · rw [h]; exact g2

/-- both positive, either order -/
theorem same_sign_formula_pospos {d0 d1 ε0 ε1 P0 P1 : ℝ} (h0 : 0 < d0) (h1 : 0 < d1)
    (hε0 : 0 ≤ ε0) (hε1 : 0 ≤ ε1) (hP0 : |d0 - P0| ≤ ε0) (hP1 : |d1 - P1| ≤ ε1) (hcross : P0 * P1 ≤ 0)
    (hacc : ε0 + ε1 < |d0 - d1|) :
    P0 - P1 ≠ 0 ∧ |d0 * P1 - d1 * P0| / |P0 - P1| ≤ |d0 * ε1 - d1 * ε0| / (|d0 - d1| - (ε0 + ε1)) := by
  rcases abs_cases (d0 - d1) with ⟨hD, hDs⟩ | ⟨hD, hDs⟩
  · -- d1 ≤ d0
    rw [hD] at hacc ⊢
    have h01 : d1 < d0 := by linarith
    obtain ⟨a, b, c⟩ := same_sign_formula_pos h1 h01 hε0 hε1 hP0 hP1 hcross hacc
    refine ⟨ne_of_gt a, ?_⟩
    rw [abs_of_pos a, abs_of_pos b]
    exact c
  · -- d0 < d1 : exchange the roles
    rw [hD] at hacc ⊢
    have h10 : d0 < d1 := by linarith
    obtain ⟨a, b, c⟩ := same_sign_formula_pos (d0 := d1) (d1 := d0) (ε0 := ε1) (ε1 := ε0) (P0 := P1) (P1 := P0)
      h0 h10 hε1 hε0 hP1 hP0 (by rw [mul_comm]; exact hcross) (by linarith)
    refine ⟨by linarith [a] |> ne_of_lt, ?_⟩
    have e1 : |d0 * P1 - d1 * P0| = |d1 * P0 - d0 * P1| := abs_sub_comm _ _
    have e2 : |P0 - P1| = P1 - P0 := by rw [abs_sub_comm, abs_of_pos a]
    have e3 : |d0 * ε1 - d1 * ε0| = d1 * ε0 - d0 * ε1 := by rw [abs_sub_comm, abs_of_pos b]
    have e4 : -(d0 - d1) - (ε0 + ε1) = d1 - d0 - (ε1 + ε0) := by ring
    rw [e1, e2, e3, e4]
    exact c

/-- The interpolation-error formula is an upper bound when the computed distances have the same sign. -/
theorem same_sign_formula {d0 d1 ε0 ε1 P0 P1 : ℝ} (hs : 0 < d0 * d1)
    (hε0 : 0 ≤ ε0) (hε1 : 0 ≤ ε1) (hP0 : |d0 - P0| ≤ ε0) (hP1 : |d1 - P1| ≤ ε1) (hcross : P0 * P1 ≤ 0)
    (hacc : ε0 + ε1 < |d0 - d1|) :
    P0 - P1 ≠ 0 ∧ |d0 * P1 - d1 * P0| / |P0 - P1| ≤ |d0 * ε1 - d1 * ε0| / (|d0 - d1| - (ε0 + ε1)) := by
  rcases pos_and_pos_or_neg_and_neg_of_mul_pos hs with ⟨h0, h1⟩ | ⟨h0, h1⟩
  · exact same_sign_formula_pospos h0 h1 hε0 hε1 hP0 hP1 hcross hacc
  · -- both negative : apply to −d_i, −P_i
    have hP0' : |(-d0) - (-P0)| ≤ ε0 := by
      have : (-d0) - (-P0) = -(d0 - P0) := by ring
      rw [this, abs_neg]; exact hP0
    have hP1' : |(-d1) - (-P1)| ≤ ε1 := by
      have : (-d1) - (-P1) = -(d1 - P1) := by ring
      rw [this, abs_neg]; exact hP1
    have hcross' : (-P0) * (-P1) ≤ 0 := by rw [neg_mul_neg]; exact hcross
    have hacc' : ε0 + ε1 < |(-d0) - (-d1)| := by
      have : (-d0) - (-d1) = -(d0 - d1) := by ring
      rw [this, abs_neg]; exact hacc
    obtain ⟨a, c⟩ := same_sign_formula_pospos (d0 := -d0) (d1 := -d1) (P0 := -P0) (P1 := -P1)
      (by linarith) (by linarith) hε0 hε1 hP0' hP1' hcross' hacc'
    have e0 : (-P0) - (-P1) = -(P0 - P1) := by ring
    have e1 : (-d0) * (-P1) - (-d1) * (-P0) = d0 * P1 - d1 * P0 := by ring
    have e3 : (-d0) * ε1 - (-d1) * ε0 = -(d0 * ε1 - d1 * ε0) := by ring
    have e4 : (-d0) - (-d1) = -(d0 - d1) := by ring
    rw [e0] at a
    rw [e0, e1, e3, e4, abs_neg, abs_neg, abs_neg] at c
    exact ⟨neg_ne_zero.1 a, c⟩

end S2Proofs.C16Acc
