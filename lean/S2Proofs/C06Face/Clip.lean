/-
  S2Proofs.C06Face.Clip — where the uv endpoints of the face edges come from (`addFaceEdge`, `ClipToPaddedFace`,
  `clipDestination`), for unit-ish vertices:

    every endpoint is `CoordOK` (finite, |coordinate| ≤ 1 + 2^-40)
    — the `maxUV` fast path, the same-face path `validFaceXYZToUV`, the `maxSafeUVCoord` early exit of `clipDestination`
      and the exit point `scaleUV · exitPoint(exitAxis)` —
    OR it is the RE-PROJECTION `(b.X/b.Z, b.Y/b.Z)` of the edge's own endpoint, the branch `score > 0 ∧ b.Z > 0` of
    `clipDestination` (`reproj`), whose boundedness needs the geometric analysis of the two tangent tests (not done here).
-/
import S2Proofs.C06Face.SameFace

namespace S2Proofs.C06Face
open S2 S2.Exact S2.CellM S2.IndexBuild S2Proofs.F64Order S2Proofs.FloatErr S2Proofs.C06Clip

/-- the gnomonic projection of the vertex `v` onto face `f` as `clipDestination` computes it: `(b.X / b.Z, b.Y / b.Z)` in the
    (u,v,w) frame of the face -/
def reproj (f : Nat) (v : V3) : R2 :=
  ((faceXYZtoUVW f v).x / (faceXYZtoUVW f v).z, (faceXYZtoUVW f v).y / (faceXYZtoUVW f v).z)

/-- both coordinates of a uv point are `CoordOK` -/
def UVOK (p : R2) : Prop := CoordOK p.1 ∧ CoordOK p.2

theorem maxUV_facts : Fin maxUV ∧ rv maxUV ≤ 1 := by
  have hf : Fin maxUV := by decide +kernel
  refine ⟨hf, ?_⟩
  have : F64.le maxUV F64.one = true := by decide +kernel
  have := (le_iff_rv hf one_fin).1 this
  rwa [rv_one] at this

theorem maxSafe_facts : Fin maxSafeUVCoord ∧ rv maxSafeUVCoord ≤ 1 := by
  have hf : Fin maxSafeUVCoord := by decide +kernel
  refine ⟨hf, ?_⟩
  have : F64.le maxSafeUVCoord F64.one = true := by decide +kernel
  have := (le_iff_rv hf one_fin).1 this
  rwa [rv_one] at this

/-! ### `clipDestination` -/

/-- the result of `clipDestination` for a usable scaled normal that passed `intersectsFace`: the point is `CoordOK`, or the
    score is 3 (the edge is rejected on this face), or the point is the re-projection of `b` -/
theorem clipDestination_cases (a b n aTan bTan : V3) (s : F64) (hn : NOK n) (hi : intersectsFace n = true)
    (hs : ScaleOK s) :
    UVOK (clipDestination a b n aTan bTan s).1 ∨ (clipDestination a b n aTan bTan s).2 = 3 ∨
    (clipDestination a b n aTan bTan s).1 = (b.x / b.z, b.y / b.z) := by
  obtain ⟨e1, e2⟩ := exitPoint_coordOK n hn hi s hs
  unfold clipDestination
  simp only
  split
  · -- early exit
    rename_i uv heq
    left
    split at heq
    · split at heq
      · rename_i hle
        have := Option.some.inj heq
        subst this
        exact coordOK_of_fmax_le maxSafe_facts.1 maxSafe_facts.2 hle
      · cases heq
    · cases heq
  · repeat' split
    all_goals first
      | (left; exact ⟨e1, e2⟩)
      | (right; left; rfl)
      | (right; right; rfl)
      | (exfalso; omega)

/-! ### `ClipToPaddedFace` -/

/-- `ClipToPaddedFace(a, b, f, cellPadding)` in a form that exposes the two `clipDestination` calls -/
theorem clip_eq (a b : V3) (f : Nat) : ∃ aTan bTan : V3,
    clipToPaddedFace a b f cellPadding =
      if (STUV.face a == f && STUV.face b == f) = true then
        some (STUV.validFaceXYZToUV f a, STUV.validFaceXYZToUV f b)
      else if (!intersectsFace (scaledNormal a b f)) = true then none
      else if (clipDestination (faceXYZtoUVW f b) (faceXYZtoUVW f a) ((scaledNormal a b f).mul negOne) bTan aTan scaleUV).2 +
            (clipDestination (faceXYZtoUVW f a) (faceXYZtoUVW f b) (scaledNormal a b f) aTan bTan scaleUV).2 < 3 then
        some ((clipDestination (faceXYZtoUVW f b) (faceXYZtoUVW f a) ((scaledNormal a b f).mul negOne) bTan aTan scaleUV).1,
              (clipDestination (faceXYZtoUVW f a) (faceXYZtoUVW f b) (scaledNormal a b f) aTan bTan scaleUV).1)
      else none :=
  ⟨_, _, rfl⟩

/-- **endpoints of `ClipToPaddedFace`**: each returned endpoint is `CoordOK` or the re-projection of its vertex -/
theorem clip_cases (v0 v1 : V3) (h0 : UnitIsh v0) (h1 : UnitIsh v1) (f : Nat) (aUV bUV : R2)
    (h : clipToPaddedFace v0 v1 f cellPadding = some (aUV, bUV)) :
    (UVOK aUV ∨ aUV = reproj f v0) ∧ (UVOK bUV ∨ bUV = reproj f v1) := by
  obtain ⟨aTan, bTan, he⟩ := clip_eq v0 v1 f
  rw [he] at h
  split at h
  · rename_i hsame
    simp only [Bool.and_eq_true, beq_iff_eq] at hsame
    have := Option.some.inj h
    obtain ⟨_, _, _, ca1, ca2, _, _⟩ := validFace_spec v0 h0 f hsame.1
    obtain ⟨_, _, _, cb1, cb2, _, _⟩ := validFace_spec v1 h1 f hsame.2
    rw [Prod.mk.injEq] at this
    rw [← this.1, ← this.2]
    exact ⟨Or.inl ⟨ca1, ca2⟩, Or.inl ⟨cb1, cb2⟩⟩
  · split at h
    · cases h
    · rename_i hint
      have hi : intersectsFace (scaledNormal v0 v1 f) = true := by
        cases hc : intersectsFace (scaledNormal v0 v1 f)
        · rw [hc] at hint; exact absurd rfl hint
        · rfl
      have hn := scaledNormal_nok v0 v1 h0 h1 f
      have hn' := nok_neg _ hn
      have hi' : intersectsFace ((scaledNormal v0 v1 f).mul negOne) = true := by
        rw [intersectsFace_neg _ hn.fin]; exact hi
      split at h
      · rename_i hsc
        have := Option.some.inj h
        rw [Prod.mk.injEq] at this
        rw [← this.1, ← this.2]
        have cA := clipDestination_cases (faceXYZtoUVW f v1) (faceXYZtoUVW f v0) ((scaledNormal v0 v1 f).mul negOne)
          bTan aTan scaleUV hn' hi' scaleUV_ok
        have cB := clipDestination_cases (faceXYZtoUVW f v0) (faceXYZtoUVW f v1) (scaledNormal v0 v1 f)
          aTan bTan scaleUV hn hi scaleUV_ok
        constructor
        · rcases cA with c | c | c
          · exact Or.inl c
          · rw [c] at hsc; omega
          · exact Or.inr c
        · rcases cB with c | c | c
          · exact Or.inl c
          · rw [c] at hsc; omega
          · exact Or.inr c
      · cases h

/-! ### `addFaceEdge` -/

/-- what every `(face, faceEdge)` appended by `addFaceEdge` satisfies -/
def EntryOK (v0 v1 : V3) (p : Nat × FaceEdge) : Prop :=
  p.1 < 6 ∧ p.2.v0 = v0 ∧ p.2.v1 = v1 ∧
  (UVOK p.2.a ∨ p.2.a = reproj p.1 v0) ∧ (UVOK p.2.b ∨ p.2.b = reproj p.1 v1)

theorem addFaceEdge_ok (fe : FaceEdge) (h0 : UnitIsh fe.v0) (h1 : UnitIsh fe.v1) :
    ∀ p ∈ addFaceEdge fe, EntryOK fe.v0 fe.v1 p := by
  intro p hp
  unfold addFaceEdge at hp
  simp only at hp
  split at hp
  · -- the `maxUV` fast path
    rename_i fe' heq
    split at heq
    · split at heq
      · rename_i hle
        have := Option.some.inj heq
        subst this
        simp only [List.mem_singleton] at hp
        subst hp
        simp only [Bool.and_eq_true] at hle
        obtain ⟨⟨⟨l1, l2⟩, l3⟩, l4⟩ := hle
        have m := maxUV_facts
        exact ⟨face_lt_six _ h0.fin, rfl, rfl,
          Or.inl ⟨coordOK_of_abs_le m.1 m.2 l1, coordOK_of_abs_le m.1 m.2 l2⟩,
          Or.inl ⟨coordOK_of_abs_le m.1 m.2 l3, coordOK_of_abs_le m.1 m.2 l4⟩⟩
      · cases heq
    · cases heq
  · -- all six faces through `ClipToPaddedFace`
    rw [List.mem_filterMap] at hp
    obtain ⟨face, hmem, hsome⟩ := hp
    rw [List.mem_range] at hmem
    split at hsome
    · rename_i a b hclip
      have := Option.some.inj hsome
      subst this
      obtain ⟨ca, cb⟩ := clip_cases fe.v0 fe.v1 h0 h1 face a b hclip
      exact ⟨hmem, rfl, rfl, ca, cb⟩
    · cases hsome

/-! ### all shapes -/

theorem allFaceEdges_ok (shapes : Array Shape) (hu : VerticesUnit shapes) :
    ∀ p ∈ allFaceEdges shapes, EntryOK p.2.v0 p.2.v1 p := by
  intro p hp
  unfold allFaceEdges at hp
  rw [List.mem_flatMap] at hp
  obtain ⟨id, hid, hp⟩ := hp
  rw [List.mem_range] at hid
  unfold shapeFaceEdges at hp
  rw [List.mem_flatMap] at hp
  obtain ⟨e, he, hp⟩ := hp
  rw [List.mem_range] at he
  obtain ⟨u0, u1⟩ := hu id hid e he
  have := addFaceEdge_ok _ (by exact u0) (by exact u1) p hp
  obtain ⟨a1, a2, a3, a4, a5⟩ := this
  refine ⟨a1, rfl, rfl, ?_, ?_⟩
  · rw [a2]; exact a4
  · rw [a3]; exact a5

theorem faceEdgesOf_mem {all : List (Nat × FaceEdge)} {f : Nat} {fe : FaceEdge}
    (h : fe ∈ faceEdgesOf all f) : (f, fe) ∈ all := by
  unfold faceEdgesOf at h
  rw [List.mem_filterMap] at h
  obtain ⟨p, hp, hs⟩ := h
  split at hs
  · rename_i heq
    have := Option.some.inj hs
    subst this
    have : p.1 = f := by simpa using heq
    subst this
    exact hp
  · cases hs

end S2Proofs.C06Face
