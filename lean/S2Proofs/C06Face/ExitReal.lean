/-
  S2Proofs.C06Face.ExitReal — the real-number core of the exit-point analysis of `ClipToPaddedFace`.

  A directed line `x·u + y·v + z = 0` (normal `(x, y, z)`) that meets the square `[-1,1]²` leaves it through the edge that
  `exitAxis` selects; the non-trivial coordinate of the exit point is a quotient whose numerator is at most the divisor in
  magnitude.  Here: the inequalities the float comparisons of `intersectsFace` / `intersectsOppositeEdges` deliver
  (with a relative slack `ε` for the non-strict ones) imply  divisor ≠ 0  and  |numerator| ≤ |divisor|·(1+ε).
-/
import Mathlib.Tactic.Ring
import Mathlib.Tactic.Linarith
import Mathlib.Tactic.Positivity
import Mathlib.Data.Real.Basic

namespace S2Proofs.C06Face

/-- sign bit consistent with the value (a zero may carry either sign bit) -/
def SignOf (s : Bool) (x : ℝ) : Prop := (s = true → x ≤ 0) ∧ (s = false → 0 ≤ x)

theorem abs_le_of_two {N W : ℝ} (h1 : N ≤ W) (h2 : -W ≤ N) : |N| ≤ W := abs_le.2 ⟨h2, h1⟩

/-- axis U (`exitPoint(axisU)`): divisor `y`, numerator `(-u)·x − z` with `u = +1` iff `y > 0` -/
theorem exitU_real {x y z ε : ℝ} (hε : 0 ≤ ε) {sx sy sz : Bool} (hsx : SignOf sx x) (hsy : SignOf sy y) (hsz : SignOf sz z)
    (hI1 : |z| - |x| ≤ |y| * (1 + ε))
    (h : (|x| < |y| ∧ |x| + |z| ≤ |y| * (1 + ε)) ∨
         ((|x| - |z| < |y| ∧ |y| - |z| < |x|) ∧ (sx ^^ sy ^^ sz) = true)) :
    y ≠ 0 ∧ |(if 0 < y then -1 else 1) * x - z| ≤ |y| * (1 + ε) := by
  have hy0 : y ≠ 0 := by
    rintro rfl
    rcases h with ⟨h1, _⟩ | ⟨⟨h1, h2⟩, _⟩
    · simp at h1; exact absurd h1 (not_lt.2 (abs_nonneg x))
    · simp at hI1 h1; linarith
  refine ⟨hy0, ?_⟩
  have hY := abs_nonneg y
  have hYε : 0 ≤ |y| * ε := mul_nonneg hY hε
  rcases h with ⟨h1, h2⟩ | ⟨⟨h1, h2⟩, hp⟩
  · -- opposite edges: crude triangle inequality
    have hx := abs_nonneg x
    have : |(if 0 < y then -1 else 1) * x - z| ≤ |x| + |z| := by
      split
      · calc |(-1) * x - z| = |(-x) + (-z)| := by ring_nf
          _ ≤ |-x| + |-z| := abs_add_le _ _
          _ = |x| + |z| := by rw [abs_neg, abs_neg]
      · calc |1 * x - z| = |x + (-z)| := by ring_nf
          _ ≤ |x| + |-z| := abs_add_le _ _
          _ = |x| + |z| := by rw [abs_neg]
    linarith
  · -- adjacent edges: the sign pattern turns the numerator into ±(|x| − |z|)
    have key : |(if 0 < y then -1 else 1) * x - z| = |(|x| - |z|)| := by
      by_cases hy : 0 < y
      · rw [if_pos hy]
        have hsy' : sy = false := by
          cases sy
          · rfl
          · exact absurd (hsy.1 rfl) (not_le.2 hy)
        subst hsy'
        cases sx <;> cases sz <;> simp at hp
        · have a := hsx.2 rfl; have b := hsz.1 rfl
          rw [abs_of_nonneg a, abs_of_nonpos b]
          rw [show (-1 : ℝ) * x - z = -(x - -z) by ring, abs_neg]
        · have a := hsx.1 rfl; have b := hsz.2 rfl
          rw [abs_of_nonpos a, abs_of_nonneg b]
          rw [show (-1 : ℝ) * x - z = (-x - z) by ring]
      · rw [if_neg hy]
        have hy' : y < 0 := lt_of_le_of_ne (not_lt.1 hy) hy0
        have hsy' : sy = true := by
          cases sy
          · exact absurd (hsy.2 rfl) (not_le.2 hy')
          · rfl
        subst hsy'
        cases sx <;> cases sz <;> simp at hp
        · have a := hsx.2 rfl; have b := hsz.2 rfl
          rw [abs_of_nonneg a, abs_of_nonneg b]; ring_nf
        · have a := hsx.1 rfl; have b := hsz.1 rfl
          rw [abs_of_nonpos a, abs_of_nonpos b]
          rw [show (1 : ℝ) * x - z = -(-x - -z) by ring, abs_neg]
    rw [key]
    apply abs_le_of_two <;> linarith

/-- axis V (`exitPoint(axisV)`): divisor `x`, numerator `(-v)·y − z` with `v = +1` iff `x < 0` -/
theorem exitV_real {x y z ε : ℝ} (hε : 0 ≤ ε) {sx sy sz : Bool} (hsx : SignOf sx x) (hsy : SignOf sy y) (hsz : SignOf sz z)
    (hnz : x ≠ 0 ∨ y ≠ 0 ∨ z ≠ 0)
    (hI2 : |z| - |y| ≤ |x| * (1 + ε))
    (h : (|y| ≤ |x| ∧ |y| + |z| ≤ |x| * (1 + ε)) ∨
         ((|x| - |z| < |y| ∧ |y| - |z| < |x|) ∧ (sx ^^ sy ^^ sz) = false)) :
    x ≠ 0 ∧ |(if x < 0 then -1 else 1) * y - z| ≤ |x| * (1 + ε) := by
  have hx0 : x ≠ 0 := by
    rintro rfl
    rcases h with ⟨h1, h2⟩ | ⟨⟨h1, h2⟩, _⟩
    · simp at h1 h2
      have hz : |z| ≤ 0 := by subst h1; simpa using h2
      have hz' : z = 0 := abs_eq_zero.1 (le_antisymm hz (abs_nonneg z))
      rcases hnz with h | h | h
      · exact h rfl
      · exact h h1
      · exact h hz'
    · simp at hI2 h2; linarith
  refine ⟨hx0, ?_⟩
  have hX := abs_nonneg x
  have hXε : 0 ≤ |x| * ε := mul_nonneg hX hε
  rcases h with ⟨h1, h2⟩ | ⟨⟨h1, h2⟩, hp⟩
  · have : |(if x < 0 then -1 else 1) * y - z| ≤ |y| + |z| := by
      split
      · calc |(-1) * y - z| = |(-y) + (-z)| := by ring_nf
          _ ≤ |-y| + |-z| := abs_add_le _ _
          _ = |y| + |z| := by rw [abs_neg, abs_neg]
      · calc |1 * y - z| = |y + (-z)| := by ring_nf
          _ ≤ |y| + |-z| := abs_add_le _ _
          _ = |y| + |z| := by rw [abs_neg]
    linarith
  · have key : |(if x < 0 then -1 else 1) * y - z| = |(|y| - |z|)| := by
      by_cases hx : x < 0
      · rw [if_pos hx]
        have hsx' : sx = true := by
          cases sx
          · exact absurd (hsx.2 rfl) (not_le.2 hx)
          · rfl
        subst hsx'
        cases sy <;> cases sz <;> simp at hp
        · have a := hsy.2 rfl; have b := hsz.1 rfl
          rw [abs_of_nonneg a, abs_of_nonpos b]
          rw [show (-1 : ℝ) * y - z = -(y - -z) by ring, abs_neg]
        · have a := hsy.1 rfl; have b := hsz.2 rfl
          rw [abs_of_nonpos a, abs_of_nonneg b]
          rw [show (-1 : ℝ) * y - z = (-y - z) by ring]
      · rw [if_neg hx]
        have hx' : 0 < x := lt_of_le_of_ne (not_lt.1 hx) (Ne.symm hx0)
        have hsx' : sx = false := by
          cases sx
          · rfl
          · exact absurd (hsx.1 rfl) (not_le.2 hx')
        subst hsx'
        cases sy <;> cases sz <;> simp at hp
        · have a := hsy.2 rfl; have b := hsz.2 rfl
          rw [abs_of_nonneg a, abs_of_nonneg b]; ring_nf
        · have a := hsy.1 rfl; have b := hsz.1 rfl
          rw [abs_of_nonpos a, abs_of_nonpos b]
          rw [show (1 : ℝ) * y - z = -(-y - -z) by ring, abs_neg]
    rw [key]
    apply abs_le_of_two <;> linarith

end S2Proofs.C06Face
