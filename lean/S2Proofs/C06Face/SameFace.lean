/-
  S2Proofs.C06Face.SameFace — the same-face path of face clipping: `validFaceXYZToUV(face(v), v)`.

  For a unit-ish `v` and `f = face(v)`: in the (u,v,w) frame of the face the w-coordinate is positive, at least 1/2, and
  dominates the other two; both uv coordinates are correctly rounded quotients of magnitude ≤ 1, hence finite, `CoordOK`
  and within `2^-54` of the exact gnomonic coordinates `u/w`, `v/w`.
-/
import S2Proofs.C06Face.Normal

namespace S2Proofs.C06Face
open S2 S2.Exact S2.CellM S2.IndexBuild S2Proofs.F64Order S2Proofs.FloatErr S2Proofs.C06Clip

/-- exact gnomonic coordinates of `v` on face `f` (meaningful when the w-coordinate is positive) -/
noncomputable def gnoU (f : Nat) (v : V3) : ℝ := rv (faceXYZtoUVW f v).x / rv (faceXYZtoUVW f v).z
noncomputable def gnoV (f : Nat) (v : V3) : ℝ := rv (faceXYZtoUVW f v).y / rv (faceXYZtoUVW f v).z

/-- the face of a vector and its largest component -/
theorem face_cases (v : V3) (hv : Fin3 v) :
    (v.largestComponent = 0 ∧ ((STUV.face v = 0 ∧ 0 ≤ rv v.x) ∨ (STUV.face v = 3 ∧ rv v.x < 0))) ∨
    (v.largestComponent = 1 ∧ ((STUV.face v = 1 ∧ 0 ≤ rv v.y) ∨ (STUV.face v = 4 ∧ rv v.y < 0))) ∨
    (v.largestComponent = 2 ∧ ((STUV.face v = 2 ∧ 0 ≤ rv v.z) ∨ (STUV.face v = 5 ∧ rv v.z < 0))) := by
  obtain ⟨hx, hy, hz⟩ := hv
  have lx : F64.lt v.x (F64.zero false) = true ↔ rv v.x < 0 := by
    have := lt_iff_rv hx fzero_fin
    rw [rv_fzero] at this; exact this
  have ly : F64.lt v.y (F64.zero false) = true ↔ rv v.y < 0 := by
    have := lt_iff_rv hy fzero_fin
    rw [rv_fzero] at this; exact this
  have lz : F64.lt v.z (F64.zero false) = true ↔ rv v.z < 0 := by
    have := lt_iff_rv hz fzero_fin
    rw [rv_fzero] at this; exact this
  unfold STUV.face
  simp only
  rcases largest_cases v ⟨hx, hy, hz⟩ with ⟨hl, _, _⟩ | ⟨hl, _, _⟩ | ⟨hl, _, _⟩
  · refine Or.inl ⟨hl, ?_⟩
    rw [hl]
    by_cases h : F64.lt v.x (F64.zero false) = true
    · right; simp [h]; exact lx.1 h
    · left; simp [h]; exact not_lt.1 (fun hc => h (lx.2 hc))
  · refine Or.inr (Or.inl ⟨hl, ?_⟩)
    rw [hl]
    by_cases h : F64.lt v.y (F64.zero false) = true
    · right; simp [h]; exact ly.1 h
    · left; simp [h]; exact not_lt.1 (fun hc => h (ly.2 hc))
  · refine Or.inr (Or.inr ⟨hl, ?_⟩)
    rw [hl]
    by_cases h : F64.lt v.z (F64.zero false) = true
    · right; simp [h]; exact lz.1 h
    · left; simp [h]; exact not_lt.1 (fun hc => h (lz.2 hc))

theorem face_lt_six (v : V3) (hv : Fin3 v) : STUV.face v < 6 := by
  rcases face_cases v hv with ⟨_, h | h⟩ | ⟨_, h | h⟩ | ⟨_, h | h⟩ <;> rw [h.1] <;> decide

/-- one quotient of `validFaceXYZToUV`: numerator `p`, divisor `q`, both possibly negated w.r.t. the frame -/
theorem quot_spec {p q : F64} (hp : Fin p) (hq : Fin q) (hq0 : rv q ≠ 0) (h : |rv p| ≤ |rv q|) :
    CoordOK (p / q) ∧ |rv (p / q) - rv p / rv q| ≤ 1 / 2 ^ 54 := quot_coordOK hp hq hq0 h

/-- **the same-face path**: frame facts and both uv coordinates -/
theorem validFace_spec (v : V3) (hv : UnitIsh v) (f : Nat) (hf : STUV.face v = f) :
    1 / 2 ≤ rv (faceXYZtoUVW f v).z ∧
    |rv (faceXYZtoUVW f v).x| ≤ rv (faceXYZtoUVW f v).z ∧ |rv (faceXYZtoUVW f v).y| ≤ rv (faceXYZtoUVW f v).z ∧
    CoordOK (STUV.validFaceXYZToUV f v).1 ∧ CoordOK (STUV.validFaceXYZToUV f v).2 ∧
    |rv (STUV.validFaceXYZToUV f v).1 - gnoU f v| ≤ 1 / 2 ^ 54 ∧
    |rv (STUV.validFaceXYZToUV f v).2 - gnoV f v| ≤ 1 / 2 ^ 54 := by
  obtain ⟨hx, hy, hz⟩ := hv.fin
  have hsq := hv.sq_ge
  have nabs : ∀ t : ℝ, |(-t)| = |t| := abs_neg
  unfold gnoU gnoV
  subst hf
  rcases face_cases v hv.fin with ⟨hl, ⟨hf, hs⟩ | ⟨hf, hs⟩⟩ | ⟨hl, ⟨hf, hs⟩ | ⟨hf, hs⟩⟩ | ⟨hl, ⟨hf, hs⟩ | ⟨hf, hs⟩⟩
  all_goals rw [hf]
  all_goals rcases largest_cases v hv.fin with ⟨hl', d1, d2⟩ | ⟨hl', d1, d2⟩ | ⟨hl', d1, d2⟩
  all_goals first
    | (rw [hl] at hl'; exact absurd hl' (by decide))
    | skip
  · -- face 0: uvw = (y, z, x)
    have hX := half_le_of_dominant hsq d1 d2
    rw [abs_of_nonneg hs] at hX d1 d2
    have x0 : rv v.x ≠ 0 := by intro h; rw [h] at hX; norm_num at hX
    have da : |rv v.y| ≤ |rv v.x| := by rw [abs_of_nonneg hs]; exact d1
    have db : |rv v.z| ≤ |rv v.x| := by rw [abs_of_nonneg hs]; exact d2
    obtain ⟨c1, e1⟩ := quot_spec hy hx x0 da
    obtain ⟨c2, e2⟩ := quot_spec hz hx x0 db
    exact ⟨hX, d1, d2, c1, c2, e1, e2⟩
  · -- face 3: uvw = (−z, −y, −x), uv = (z/x, y/x)
    have hX := half_le_of_dominant hsq d1 d2
    rw [abs_of_neg hs] at hX d1 d2
    have x0 : rv v.x ≠ 0 := ne_of_lt hs
    have da : |rv v.z| ≤ |rv v.x| := by rw [abs_of_neg hs]; exact d2
    have db : |rv v.y| ≤ |rv v.x| := by rw [abs_of_neg hs]; exact d1
    obtain ⟨c1, e1⟩ := quot_spec hz hx x0 da
    obtain ⟨c2, e2⟩ := quot_spec hy hx x0 db
    refine ⟨?_, ?_, ?_, c1, c2, ?_, ?_⟩
    · show 1 / 2 ≤ rv (-v.x); rw [rv_neg]; exact hX
    · show |rv (-v.z)| ≤ rv (-v.x); rw [rv_neg, rv_neg, nabs]; exact d2
    · show |rv (-v.y)| ≤ rv (-v.x); rw [rv_neg, rv_neg, nabs]; exact d1
    · show |rv (v.z / v.x) - rv (-v.z) / rv (-v.x)| ≤ _
      rw [rv_neg, rv_neg, neg_div_neg_eq]; exact e1
    · show |rv (v.y / v.x) - rv (-v.y) / rv (-v.x)| ≤ _
      rw [rv_neg, rv_neg, neg_div_neg_eq]; exact e2
  · -- face 1: uvw = (−x, z, y), uv = (−x/y, z/y)
    have hY : 1 / 2 ≤ |rv v.y| :=
      half_le_of_dominant (x := rv v.y) (y := rv v.x) (z := rv v.z) (by linarith) d1 d2
    rw [abs_of_nonneg hs] at hY d1 d2
    have y0 : rv v.y ≠ 0 := by intro h; rw [h] at hY; norm_num at hY
    have da : |rv (-v.x)| ≤ |rv v.y| := by rw [rv_neg, nabs, abs_of_nonneg hs]; exact d1
    have db : |rv v.z| ≤ |rv v.y| := by rw [abs_of_nonneg hs]; exact d2
    obtain ⟨c1, e1⟩ := quot_spec (neg_fin hx) hy y0 da
    obtain ⟨c2, e2⟩ := quot_spec hz hy y0 db
    refine ⟨hY, ?_, d2, c1, c2, e1, e2⟩
    show |rv (-v.x)| ≤ rv v.y; rw [rv_neg, nabs]; exact d1
  · -- face 4: uvw = (−z, x, −y), uv = (z/y, −x/y)
    have hY : 1 / 2 ≤ |rv v.y| :=
      half_le_of_dominant (x := rv v.y) (y := rv v.x) (z := rv v.z) (by linarith) d1 d2
    rw [abs_of_neg hs] at hY d1 d2
    have y0 : rv v.y ≠ 0 := ne_of_lt hs
    have da : |rv v.z| ≤ |rv v.y| := by rw [abs_of_neg hs]; exact d2
    have db : |rv (-v.x)| ≤ |rv v.y| := by rw [rv_neg, nabs, abs_of_neg hs]; exact d1
    obtain ⟨c1, e1⟩ := quot_spec hz hy y0 da
    obtain ⟨c2, e2⟩ := quot_spec (neg_fin hx) hy y0 db
    refine ⟨?_, ?_, ?_, c1, c2, ?_, ?_⟩
    · show 1 / 2 ≤ rv (-v.y); rw [rv_neg]; exact hY
    · show |rv (-v.z)| ≤ rv (-v.y); rw [rv_neg, rv_neg, nabs]; exact d2
    · show |rv v.x| ≤ rv (-v.y); rw [rv_neg]; exact d1
    · show |rv (v.z / v.y) - rv (-v.z) / rv (-v.y)| ≤ _
      rw [rv_neg, rv_neg, neg_div_neg_eq]; exact e1
    · show |rv (-v.x / v.y) - rv v.x / rv (-v.y)| ≤ _
      have : rv v.x / rv (-v.y) = rv (-v.x) / rv v.y := by rw [rv_neg, rv_neg, div_neg, neg_div]
      rw [this]; exact e2
  · -- face 2: uvw = (−x, −y, z), uv = (−x/z, −y/z)
    have hZ : 1 / 2 ≤ |rv v.z| :=
      half_le_of_dominant (x := rv v.z) (y := rv v.x) (z := rv v.y) (by linarith) d1 d2
    rw [abs_of_nonneg hs] at hZ d1 d2
    have z0 : rv v.z ≠ 0 := by intro h; rw [h] at hZ; norm_num at hZ
    have da : |rv (-v.x)| ≤ |rv v.z| := by rw [rv_neg, nabs, abs_of_nonneg hs]; exact d1
    have db : |rv (-v.y)| ≤ |rv v.z| := by rw [rv_neg, nabs, abs_of_nonneg hs]; exact d2
    obtain ⟨c1, e1⟩ := quot_spec (neg_fin hx) hz z0 da
    obtain ⟨c2, e2⟩ := quot_spec (neg_fin hy) hz z0 db
    refine ⟨hZ, ?_, ?_, c1, c2, e1, e2⟩
    · show |rv (-v.x)| ≤ rv v.z; rw [rv_neg, nabs]; exact d1
    · show |rv (-v.y)| ≤ rv v.z; rw [rv_neg, nabs]; exact d2
  · -- face 5: uvw = (y, x, −z), uv = (−y/z, −x/z)
    have hZ : 1 / 2 ≤ |rv v.z| :=
      half_le_of_dominant (x := rv v.z) (y := rv v.x) (z := rv v.y) (by linarith) d1 d2
    rw [abs_of_neg hs] at hZ d1 d2
    have z0 : rv v.z ≠ 0 := ne_of_lt hs
    have da : |rv (-v.y)| ≤ |rv v.z| := by rw [rv_neg, nabs, abs_of_neg hs]; exact d2
    have db : |rv (-v.x)| ≤ |rv v.z| := by rw [rv_neg, nabs, abs_of_neg hs]; exact d1
    obtain ⟨c1, e1⟩ := quot_spec (neg_fin hy) hz z0 da
    obtain ⟨c2, e2⟩ := quot_spec (neg_fin hx) hz z0 db
    refine ⟨?_, ?_, ?_, c1, c2, ?_, ?_⟩
    · show 1 / 2 ≤ rv (-v.z); rw [rv_neg]; exact hZ
    · show |rv v.y| ≤ rv (-v.z); rw [rv_neg]; exact d2
    · show |rv v.x| ≤ rv (-v.z); rw [rv_neg]; exact d1
    · show |rv (-v.y / v.z) - rv v.y / rv (-v.z)| ≤ _
      have : rv v.y / rv (-v.z) = rv (-v.y) / rv v.z := by rw [rv_neg, rv_neg, div_neg, neg_div]
      rw [this]; exact e1
    · show |rv (-v.x / v.z) - rv v.x / rv (-v.z)| ≤ _
      have : rv v.x / rv (-v.z) = rv (-v.x) / rv v.z := by rw [rv_neg, rv_neg, div_neg, neg_div]
      rw [this]; exact e2

end S2Proofs.C06Face
