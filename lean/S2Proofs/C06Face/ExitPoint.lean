/-
  S2Proofs.C06Face.ExitPoint — the exit point `scaleUV · scaledN.exitPoint(scaledN.exitAxis())` of `clipDestination` is finite
  and within `1 + 2^-40` of the origin in both coordinates, for every usable scaled normal that passed `intersectsFace`.

  Float side of `ExitReal`: the float comparisons of `intersectsFace` / `intersectsOppositeEdges` are turned into real
  inequalities — the non-strict ones through the relative error `2^-53` of a float subtraction (no underflow term), the
  strict ones EXACTLY through the monotonicity of rounding (`fl(A − B) < C` for a float `C` implies `A − B < C`; a
  relative-error argument would not do: `X = Z = 1, Y = 2^-60`).
-/
import S2Proofs.C06Face.Basic
import S2Proofs.C06Face.ExitReal
import S2Proofs.CapF64.Complement
import S2Proofs.WrapFloat

namespace S2Proofs.C06Face
open S2 S2.Exact S2.CellM S2.IndexBuild S2Proofs.F64Order S2Proofs.FloatErr S2Proofs.C06Clip

/-! ### multiplication by ±1, sign bits -/

theorem negOne_fin : Fin negOne := by decide
theorem rv_negOne : rv negOne = -1 := by
  have : negOne = -F64.one := by decide
  rw [this, rv_neg, rv_one]

theorem one_mul_eq {x : F64} (hx : Fin x) : F64.one * x = x := S2Proofs.CapF64.one_mul_fin hx
theorem negOne_mul_eq {x : F64} (hx : Fin x) : negOne * x = -x := S2Proofs.CapF64.negOne_mul hx
theorem neg_one_eq : -F64.one = negOne := by decide
theorem neg_negOne_eq : -negOne = F64.one := by decide

theorem signOf_rv {x : F64} (hx : Fin x) : SignOf x.signBit (rv x) := by
  have hk := S2Proofs.F64Carrier.key_sign (S2Proofs.F64Carrier.nn_of_fin hx)
  rw [S2Proofs.F64Carrier.key_fin hx] at hk
  have hpos : (0 : ℝ) < 2 ^ 1074 := by positivity
  constructor
  · intro hs
    have : ((toInt x : ℤ) : ℝ) ≤ 0 := by exact_mod_cast hk.1 hs
    exact div_nonpos_of_nonpos_of_nonneg this (le_of_lt hpos)
  · intro hs
    have : (0 : ℝ) ≤ ((toInt x : ℤ) : ℝ) := by exact_mod_cast hk.2 hs
    exact div_nonneg this (le_of_lt hpos)

theorem abs_fin {x : F64} (hx : Fin x) : Fin (F64.abs x) := (fin_abs_iff x).2 hx

/-! ### a float subtraction: relative error and monotonicity -/

theorem uR_eq : uR = 1 / 2 ^ 53 := rfl

theorem sub_facts {p q : F64} (hp : Fin p) (hq : Fin q) (hb : |rv p - rv q| ≤ 2 ^ 30) :
    Fin (p - q) ∧ |rv (p - q) - (rv p - rv q)| ≤ uR * |rv p - rv q| ∧
    (∀ c, F64Order.Fin c → rv p - rv q ≤ rv c → rv (p - q) ≤ rv c) ∧
    (∀ c, F64Order.Fin c → rv c ≤ rv p - rv q → rv c ≤ rv (p - q)) := by
  obtain ⟨hf, _, hr⟩ := subR hp hq hb
  refine ⟨hf, hr, fun c hc h => ?_, fun c hc h => ?_⟩
  · have hq' : F64Round.val p - F64Round.val q ≤ F64Round.val c := by
      have : ((F64Round.val p - F64Round.val q : ℚ) : ℝ) ≤ ((F64Round.val c : ℚ) : ℝ) := by
        push_cast; rw [← rv_cast, ← rv_cast, ← rv_cast]; exact h
      exact_mod_cast this
    have := F64Round.IsRound.mono (F64Round.isRound_sub hp hq) (F64Round.isRound_self hc) hq'
    exact (le_iff_rv hf hc).1 this
  · have hq' : F64Round.val c ≤ F64Round.val p - F64Round.val q := by
      have : ((F64Round.val c : ℚ) : ℝ) ≤ ((F64Round.val p - F64Round.val q : ℚ) : ℝ) := by
        push_cast; rw [← rv_cast, ← rv_cast, ← rv_cast]; exact h
      exact_mod_cast this
    have := F64Round.IsRound.mono (F64Round.isRound_self hc) (F64Round.isRound_sub hp hq) hq'
    exact (le_iff_rv hc hf).1 this

/-- `d(1−u) ≤ Y → d ≤ Y(1+2u)` -/
theorem le_of_rel {d Y u : ℝ} (hu0 : 0 ≤ u) (hu : u ≤ 1 / 4) (hd : 0 ≤ d) (h : d * (1 - u) ≤ Y) :
    d ≤ Y * (1 + 2 * u) := by
  have h1 : d * (1 - u) * (1 + 2 * u) ≤ Y * (1 + 2 * u) :=
    mul_le_mul_of_nonneg_right h (by linarith)
  have h2 : 0 ≤ d * u * (1 - 2 * u) := mul_nonneg (mul_nonneg hd hu0) (by linarith)
  nlinarith

theorem two_uR : 2 * uR = 1 / 2 ^ 52 := by unfold uR; norm_num

/-- the relative slack of the non-strict comparisons: `dblEpsilon = 2^-52` -/
noncomputable def epsX : ℝ := 1 / 2 ^ 52
theorem epsX_nonneg : 0 ≤ epsX := by unfold epsX; positivity

/-- `C ≥ fl(A − B)` (floats, `A B C ≥ 0`) gives `A − B ≤ C(1 + 2^-52)` -/
theorem ge_sub_real {a b c : F64} (ha : Fin a) (hb : Fin b) (hc : Fin c) (hc0 : 0 ≤ rv c)
    (hbd : |rv a - rv b| ≤ 2 ^ 30) (h : F64.ge c (a - b) = true) : rv a - rv b ≤ rv c * (1 + epsX) := by
  obtain ⟨hf, hr, _, _⟩ := sub_facts ha hb hbd
  have h1 := (ge_iff_rv hc hf).1 h
  by_cases hd : rv a - rv b ≤ 0
  · have : 0 ≤ rv c * epsX := mul_nonneg hc0 epsX_nonneg
    linarith
  · have hd' : 0 ≤ rv a - rv b := le_of_lt (not_le.1 hd)
    rw [abs_of_nonneg hd'] at hr
    have h2 := (abs_le.1 hr).1
    have h3 : (rv a - rv b) * (1 - uR) ≤ rv c := by nlinarith
    have := le_of_rel uR_nonneg (by unfold uR; norm_num) hd' h3
    rwa [two_uR] at this

/-! ### the scaled normal: notation and the Booleans -/

theorem bd2 {p q : ℝ} (hp : |p| ≤ 2 ^ 10) (hq : |q| ≤ 2 ^ 10) : |(|p| - |q|)| ≤ 2 ^ 30 := by
  have h1 := abs_nonneg p
  have h2 := abs_nonneg q
  rw [abs_le]; constructor <;> nlinarith

section normal
variable {n : V3} (hn : NOK n)
include hn

theorem nok_abs : Fin n.x.abs ∧ Fin n.y.abs ∧ Fin n.z.abs ∧
    rv n.x.abs = |rv n.x| ∧ rv n.y.abs = |rv n.y| ∧ rv n.z.abs = |rv n.z| :=
  ⟨abs_fin hn.fin.1, abs_fin hn.fin.2.1, abs_fin hn.fin.2.2, rv_abs _, rv_abs _, rv_abs _⟩

/-- what `intersectsFace` delivers -/
theorem intersectsFace_real (hi : intersectsFace n = true) :
    |rv n.z| - |rv n.x| ≤ |rv n.y| * (1 + epsX) ∧ |rv n.z| - |rv n.y| ≤ |rv n.x| * (1 + epsX) := by
  obtain ⟨fx, fy, fz, ex, ey, ez⟩ := nok_abs hn
  unfold intersectsFace at hi
  simp only [Bool.and_eq_true] at hi
  obtain ⟨h1, h2⟩ := hi
  have b1 : |rv n.z.abs - rv n.x.abs| ≤ 2 ^ 30 := by rw [ez, ex]; exact bd2 hn.bz hn.bx
  have b2 : |rv n.z.abs - rv n.y.abs| ≤ 2 ^ 30 := by rw [ez, ey]; exact bd2 hn.bz hn.bY
  have r1 := ge_sub_real fz fx fy (by rw [ey]; exact abs_nonneg _) b1 h1
  have r2 := ge_sub_real fz fy fx (by rw [ex]; exact abs_nonneg _) b2 h2
  rw [ex, ey, ez] at r1 r2
  exact ⟨r1, r2⟩

/-- `intersectsOppositeEdges = true` -/
theorem opposite_true (h : intersectsOppositeEdges n = true) :
    (|rv n.y| ≤ |rv n.x| → |rv n.y| + |rv n.z| ≤ |rv n.x| * (1 + epsX)) ∧
    (|rv n.x| < |rv n.y| → |rv n.x| + |rv n.z| ≤ |rv n.y| * (1 + epsX)) := by
  obtain ⟨fx, fy, fz, ex, ey, ez⟩ := nok_abs hn
  have hX := abs_nonneg (rv n.x)
  have hY := abs_nonneg (rv n.y)
  have hZ := abs_nonneg (rv n.z)
  have hu := uR_nonneg
  have hue : uR ≤ epsX := by unfold uR epsX; norm_num
  have bxy : |rv n.x.abs - rv n.y.abs| ≤ 2 ^ 30 := by rw [ex, ey]; exact bd2 hn.bx hn.bY
  have bxz : |rv n.x.abs - rv n.z.abs| ≤ 2 ^ 30 := by rw [ex, ez]; exact bd2 hn.bx hn.bz
  have byz : |rv n.y.abs - rv n.z.abs| ≤ 2 ^ 30 := by rw [ey, ez]; exact bd2 hn.bY hn.bz
  obtain ⟨fD, rD, _, _⟩ := sub_facts fx fy bxy
  obtain ⟨fE, rE, _, _⟩ := sub_facts fx fz bxz
  obtain ⟨fG, rG, _, _⟩ := sub_facts fy fz byz
  rw [ex, ey] at rD
  rw [ex, ez] at rE
  rw [ey, ez] at rG
  unfold intersectsOppositeEdges at h
  simp only at h
  split at h
  · -- |fl(X − Y)| ≥ Z
    have h1 := (ge_iff_rv (abs_fin fD) fz).1 h
    rw [ez, rv_abs] at h1
    -- |fl| ≤ |X − Y|(1+u)
    have h2 : |rv (n.x.abs - n.y.abs)| ≤ |(|rv n.x| - |rv n.y|)| * (1 + uR) := by
      have := abs_add_le (|rv n.x| - |rv n.y|) (rv (n.x.abs - n.y.abs) - (|rv n.x| - |rv n.y|))
      rw [add_sub_cancel] at this
      linarith
    constructor
    · intro hle
      rw [abs_of_nonneg (show (0 : ℝ) ≤ |rv n.x| - |rv n.y| by linarith)] at h2
      nlinarith [mul_nonneg hX (sub_nonneg.2 hue), mul_nonneg hY hu]
    · intro hlt
      rw [abs_of_nonpos (show |rv n.x| - |rv n.y| ≤ (0 : ℝ) by linarith)] at h2
      nlinarith [mul_nonneg hY (sub_nonneg.2 hue), mul_nonneg hX hu]
  · split at h
    · rename_i _ hxy
      have hxy' := (ge_iff_rv fx fy).1 hxy
      rw [ex, ey] at hxy'
      have h1 := (ge_iff_rv fE fy).1 h
      rw [ey] at h1
      constructor
      · intro _
        by_cases hd : 0 ≤ |rv n.x| - |rv n.z|
        · rw [abs_of_nonneg hd] at rE
          have := (abs_le.1 rE).2
          nlinarith [mul_nonneg hX (sub_nonneg.2 hue), mul_nonneg hZ hu]
        · have hd' : |rv n.x| - |rv n.z| < 0 := not_le.1 hd
          rw [abs_of_neg hd'] at rE
          have := (abs_le.1 rE).2
          have hu1 : uR ≤ 1 / 2 := by unfold uR; norm_num
          have : uR * -(|rv n.x| - |rv n.z|) ≤ 1 / 2 * -(|rv n.x| - |rv n.z|) :=
            mul_le_mul_of_nonneg_right hu1 (by linarith)
          exfalso; linarith
      · intro hlt; exact absurd hxy' (not_le.2 hlt)
    · rename_i _ hxy
      have hxy' : ¬ (|rv n.y| ≤ |rv n.x|) := by
        intro hc; apply hxy; apply (ge_iff_rv fx fy).2; rw [ex, ey]; exact hc
      have h1 := (ge_iff_rv fG fx).1 h
      rw [ex] at h1
      constructor
      · intro hle; exact absurd hle hxy'
      · intro _
        by_cases hd : 0 ≤ |rv n.y| - |rv n.z|
        · rw [abs_of_nonneg hd] at rG
          have := (abs_le.1 rG).2
          nlinarith [mul_nonneg hY (sub_nonneg.2 hue), mul_nonneg hZ hu]
        · have hd' : |rv n.y| - |rv n.z| < 0 := not_le.1 hd
          rw [abs_of_neg hd'] at rG
          have := (abs_le.1 rG).2
          have hu1 : uR ≤ 1 / 2 := by unfold uR; norm_num
          have : uR * -(|rv n.y| - |rv n.z|) ≤ 1 / 2 * -(|rv n.y| - |rv n.z|) :=
            mul_le_mul_of_nonneg_right hu1 (by linarith)
          exfalso; linarith

/-- `intersectsOppositeEdges = false`: EXACT strict inequalities (monotonicity of rounding) -/
theorem opposite_false (h : intersectsOppositeEdges n = false) :
    |rv n.x| - |rv n.z| < |rv n.y| ∧ |rv n.y| - |rv n.z| < |rv n.x| := by
  obtain ⟨fx, fy, fz, ex, ey, ez⟩ := nok_abs hn
  have hX := abs_nonneg (rv n.x)
  have hY := abs_nonneg (rv n.y)
  have hZ := abs_nonneg (rv n.z)
  have bxy : |rv n.x.abs - rv n.y.abs| ≤ 2 ^ 30 := by rw [ex, ey]; exact bd2 hn.bx hn.bY
  have bxz : |rv n.x.abs - rv n.z.abs| ≤ 2 ^ 30 := by rw [ex, ez]; exact bd2 hn.bx hn.bz
  have byz : |rv n.y.abs - rv n.z.abs| ≤ 2 ^ 30 := by rw [ey, ez]; exact bd2 hn.bY hn.bz
  obtain ⟨fD, _, mD1, mD2⟩ := sub_facts fx fy bxy
  obtain ⟨fE, _, _, mE2⟩ := sub_facts fx fz bxz
  obtain ⟨fG, _, _, mG2⟩ := sub_facts fy fz byz
  unfold intersectsOppositeEdges at h
  simp only at h
  split at h
  · have h1 : ¬ (|rv n.z| ≤ |rv (n.x.abs - n.y.abs)|) := by
      intro hc
      have := (ge_iff_rv (abs_fin fD) fz).2 (by rw [ez, rv_abs]; exact hc)
      rw [this] at h; cases h
    have h1' := not_le.1 h1
    have hA : |rv n.x| - |rv n.y| < |rv n.z| := by
      by_contra hc
      have := mD2 n.z.abs fz (by rw [ez, ex, ey]; exact not_lt.1 hc)
      rw [ez] at this
      exact absurd (lt_of_le_of_lt this (lt_of_le_of_lt (le_abs_self _) h1')) (lt_irrefl _)
    have hB : -|rv n.z| < |rv n.x| - |rv n.y| := by
      by_contra hc
      have := mD1 (-n.z.abs) (neg_fin fz) (by rw [rv_neg, ez, ex, ey]; exact not_lt.1 hc)
      rw [rv_neg, ez] at this
      have h2 : |rv n.z| ≤ -rv (n.x.abs - n.y.abs) := by linarith
      exact absurd (lt_of_le_of_lt h2 (lt_of_le_of_lt (neg_le_abs _) h1')) (lt_irrefl _)
    constructor <;> linarith
  · split at h
    · rename_i _ hxy
      have hxy' := (ge_iff_rv fx fy).1 hxy
      rw [ex, ey] at hxy'
      have hA : |rv n.x| - |rv n.z| < |rv n.y| := by
        by_contra hc
        have := mE2 n.y.abs fy (by rw [ey, ex, ez]; exact not_lt.1 hc)
        have := (ge_iff_rv fE fy).2 this
        rw [this] at h; cases h
      refine ⟨hA, ?_⟩
      by_contra hc
      have := not_lt.1 hc
      linarith
    · rename_i _ hxy
      have hxy' : |rv n.x| < |rv n.y| := by
        by_contra hc
        apply hxy; apply (ge_iff_rv fx fy).2; rw [ex, ey]; exact not_lt.1 hc
      have hB : |rv n.y| - |rv n.z| < |rv n.x| := by
        by_contra hc
        have := mG2 n.x.abs fx (by rw [ey, ex, ez]; exact not_lt.1 hc)
        have := (ge_iff_rv fG fx).2 this
        rw [this] at h; cases h
      exact ⟨by linarith, hB⟩

end normal

/-! ### the quotient and the scaling -/

/-- `fl(s · fl(fl(m − z) / w))` for `|m − z| ≤ |w|(1 + 2^-52)` -/
theorem quot_scale_ok {m z w s : F64} (hm : Fin m) (hz : Fin z) (hw : Fin w) (hs : ScaleOK s)
    (bm : |rv m| ≤ 2 ^ 10) (bz : |rv z| ≤ 2 ^ 10) (hw0 : rv w ≠ 0)
    (h : |rv m - rv z| ≤ |rv w| * (1 + epsX)) : CoordOK (s * ((m - z) / w)) := by
  have hb : |rv m - rv z| ≤ 2 ^ 30 := by
    have := abs_sub (rv m) (rv z); linarith
  obtain ⟨fD, _, rD⟩ := subR hm hz hb
  have hW : 0 < |rv w| := abs_pos.2 hw0
  have hD : |rv (m - z)| ≤ |rv w| * ((1 + epsX) * (1 + uR)) := by
    have h1 : |rv (m - z)| ≤ |rv m - rv z| * (1 + uR) := by
      have := abs_add_le (rv m - rv z) (rv (m - z) - (rv m - rv z))
      rw [add_sub_cancel] at this
      linarith
    have h2 : |rv m - rv z| * (1 + uR) ≤ |rv w| * (1 + epsX) * (1 + uR) :=
      mul_le_mul_of_nonneg_right h (by have := uR_nonneg; linarith)
    linarith
  have hc : (1 + epsX) * (1 + uR) ≤ 1 + 1 / 2 ^ 51 := by unfold epsX uR; norm_num
  have hq : |rv (m - z) / rv w| ≤ 1 + 1 / 2 ^ 51 := by
    rw [abs_div, div_le_iff₀ hW]
    calc |rv (m - z)| ≤ |rv w| * ((1 + epsX) * (1 + uR)) := hD
      _ ≤ |rv w| * (1 + 1 / 2 ^ 51) := mul_le_mul_of_nonneg_left hc (le_of_lt hW)
      _ = (1 + 1 / 2 ^ 51) * |rv w| := by ring
  obtain ⟨fQ, sQ⟩ := divR fD hw hw0 (le_trans hq (by norm_num))
  have gQ := sQ.g2 (le_trans hq (by norm_num))
  have hQ : |rv ((m - z) / w)| ≤ 1 + 1 / 2 ^ 50 := by
    have := abs_add_le (rv (m - z) / rv w) (rv ((m - z) / w) - rv (m - z) / rv w)
    rw [add_sub_cancel] at this
    have e : (1 : ℝ) + 1 / 2 ^ 51 + 1 / 2 ^ 53 ≤ 1 + 1 / 2 ^ 50 := by norm_num
    linarith
  have hs0 : 0 ≤ rv s := by have := hs.lo; linarith
  have hP : |rv s * rv ((m - z) / w)| ≤ (1 + 1 / 2 ^ 45) * (1 + 1 / 2 ^ 50) := by
    rw [abs_mul, abs_of_nonneg hs0]
    exact mul_le_mul hs.hi hQ (abs_nonneg _) (by norm_num)
  have hP2 : (1 + 1 / 2 ^ 45 : ℝ) * (1 + 1 / 2 ^ 50) ≤ 2 := by norm_num
  obtain ⟨fP, sP⟩ := mulR hs.fin fQ (le_trans hP (le_trans hP2 (by norm_num)))
  have gP := sP.g2 (le_trans hP hP2)
  refine ⟨fP, ?_⟩
  have := abs_add_le (rv s * rv ((m - z) / w)) (rv (s * ((m - z) / w)) - rv s * rv ((m - z) / w))
  rw [add_sub_cancel] at this
  have e : (1 + 1 / 2 ^ 45 : ℝ) * (1 + 1 / 2 ^ 50) + 1 / 2 ^ 53 ≤ 1 + 1 / 2 ^ 40 := by norm_num
  linarith

/-- `fl(s · (±1))` -/
theorem scale_unit_ok {s u : F64} (hs : ScaleOK s) (hu : u = F64.one ∨ u = negOne) : CoordOK (s * u) := by
  have fu : Fin u := by rcases hu with rfl | rfl <;> decide
  have au : |rv u| = 1 := by
    rcases hu with rfl | rfl
    · rw [rv_one]; norm_num
    · rw [rv_negOne]; norm_num
  have hs0 : 0 ≤ rv s := by have := hs.lo; linarith
  have hP : |rv s * rv u| ≤ 1 + 1 / 2 ^ 45 := by
    rw [abs_mul, au, mul_one, abs_of_nonneg hs0]; exact hs.hi
  obtain ⟨fP, sP⟩ := mulR hs.fin fu (le_trans hP (by norm_num))
  have gP := sP.g2 (le_trans hP (by norm_num))
  refine ⟨fP, ?_⟩
  have := abs_add_le (rv s * rv u) (rv (s * u) - rv s * rv u)
  rw [add_sub_cancel] at this
  have e : (1 + 1 / 2 ^ 45 : ℝ) + 1 / 2 ^ 53 ≤ 1 + 1 / 2 ^ 40 := by norm_num
  linarith

/-! ### the exit point -/

theorem exitPoint_zero (n : V3) :
    exitPoint n 0 = ((if F64.gt n.y fzero then F64.one else negOne),
      ((-(if F64.gt n.y fzero then F64.one else negOne)) * n.x - n.z) / n.y) := rfl

theorem exitPoint_one (n : V3) :
    exitPoint n 1 = (((-(if F64.lt n.x fzero then F64.one else negOne)) * n.y - n.z) / n.x,
      (if F64.lt n.x fzero then F64.one else negOne)) := rfl

theorem parity_eq (n : V3) :
    (((if n.x.signBit then 1 else 0 : Nat) ^^^ (if n.y.signBit then 1 else 0 : Nat) ^^^
      (if n.z.signBit then 1 else 0 : Nat)) == 0) = !(n.x.signBit ^^ n.y.signBit ^^ n.z.signBit) := by
  cases n.x.signBit <;> cases n.y.signBit <;> cases n.z.signBit <;> decide

/-- axis U -/
theorem exitU_ok {n : V3} (hn : NOK n) {s : F64} (hs : ScaleOK s)
    (h : rv n.y ≠ 0 ∧ |(if 0 < rv n.y then -1 else 1) * rv n.x - rv n.z| ≤ |rv n.y| * (1 + epsX)) :
    CoordOK (s * (exitPoint n 0).1) ∧ CoordOK (s * (exitPoint n 0).2) := by
  obtain ⟨hy0, hb⟩ := h
  rw [exitPoint_zero]
  have hgt : F64.gt n.y fzero = true ↔ 0 < rv n.y := by
    rw [gt_iff_rv hn.fin.2.1 fzero_fin, rv_fzero]
  constructor
  · apply scale_unit_ok hs
    split
    · exact Or.inl rfl
    · exact Or.inr rfl
  · show CoordOK (s * (((-(if F64.gt n.y fzero then F64.one else negOne)) * n.x - n.z) / n.y))
    by_cases hy : 0 < rv n.y
    · rw [if_pos (hgt.2 hy), neg_one_eq, negOne_mul_eq hn.fin.1]
      rw [if_pos hy] at hb
      apply quot_scale_ok (neg_fin hn.fin.1) hn.fin.2.2 hn.fin.2.1 hs (by rw [rv_neg, abs_neg]; exact hn.bx) hn.bz hy0
      rw [rv_neg]
      rw [show (-1 : ℝ) * rv n.x - rv n.z = -rv n.x - rv n.z by ring] at hb
      exact hb
    · have hg : ¬ (F64.gt n.y fzero = true) := fun hc => hy (hgt.1 hc)
      rw [if_neg hg, neg_negOne_eq, one_mul_eq hn.fin.1]
      rw [if_neg hy, one_mul] at hb
      exact quot_scale_ok hn.fin.1 hn.fin.2.2 hn.fin.2.1 hs hn.bx hn.bz hy0 hb

/-- axis V -/
theorem exitV_ok {n : V3} (hn : NOK n) {s : F64} (hs : ScaleOK s)
    (h : rv n.x ≠ 0 ∧ |(if rv n.x < 0 then -1 else 1) * rv n.y - rv n.z| ≤ |rv n.x| * (1 + epsX)) :
    CoordOK (s * (exitPoint n 1).1) ∧ CoordOK (s * (exitPoint n 1).2) := by
  obtain ⟨hx0, hb⟩ := h
  rw [exitPoint_one]
  have hlt : F64.lt n.x fzero = true ↔ rv n.x < 0 := by
    rw [lt_iff_rv hn.fin.1 fzero_fin, rv_fzero]
  constructor
  · show CoordOK (s * (((-(if F64.lt n.x fzero then F64.one else negOne)) * n.y - n.z) / n.x))
    by_cases hx : rv n.x < 0
    · rw [if_pos (hlt.2 hx), neg_one_eq, negOne_mul_eq hn.fin.2.1]
      rw [if_pos hx] at hb
      apply quot_scale_ok (neg_fin hn.fin.2.1) hn.fin.2.2 hn.fin.1 hs (by rw [rv_neg, abs_neg]; exact hn.bY) hn.bz hx0
      rw [rv_neg]
      rw [show (-1 : ℝ) * rv n.y - rv n.z = -rv n.y - rv n.z by ring] at hb
      exact hb
    · have hg : ¬ (F64.lt n.x fzero = true) := fun hc => hx (hlt.1 hc)
      rw [if_neg hg, neg_negOne_eq, one_mul_eq hn.fin.2.1]
      rw [if_neg hx, one_mul] at hb
      exact quot_scale_ok hn.fin.2.1 hn.fin.2.2 hn.fin.1 hs hn.bY hn.bz hx0 hb
  · apply scale_unit_ok hs
    split
    · exact Or.inl rfl
    · exact Or.inr rfl

/-- **the exit point is `CoordOK`**: for a usable scaled normal that passed `intersectsFace`, both coordinates of
    `scaleUV · exitPoint(exitAxis)` are finite and at most `1 + 2^-40` in magnitude -/
theorem exitPoint_coordOK (n : V3) (hn : NOK n) (hi : intersectsFace n = true) (s : F64) (hs : ScaleOK s) :
    CoordOK (s * (exitPoint n (exitAxis n)).1) ∧ CoordOK (s * (exitPoint n (exitAxis n)).2) := by
  obtain ⟨hI1, hI2⟩ := intersectsFace_real hn hi
  have sx := signOf_rv hn.fin.1
  have sy := signOf_rv hn.fin.2.1
  have sz := signOf_rv hn.fin.2.2
  obtain ⟨fx, fy, fz, ex, ey, ez⟩ := nok_abs hn
  have hxy : F64.ge n.x.abs n.y.abs = true ↔ |rv n.y| ≤ |rv n.x| := by
    rw [ge_iff_rv fx fy, ex, ey]
  unfold exitAxis
  by_cases hopp : intersectsOppositeEdges n = true
  · obtain ⟨o1, o2⟩ := opposite_true hn hopp
    rw [if_pos hopp]
    by_cases hge : F64.ge n.x.abs n.y.abs = true
    · rw [if_pos hge]
      have hle := hxy.1 hge
      exact exitV_ok hn hs (exitV_real epsX_nonneg sx sy sz hn.nz hI2 (Or.inl ⟨hle, o1 hle⟩))
    · rw [if_neg hge]
      have hlt : |rv n.x| < |rv n.y| := not_le.1 (fun hc => hge (hxy.2 hc))
      exact exitU_ok hn hs (exitU_real epsX_nonneg sx sy sz hI1 (Or.inl ⟨hlt, o2 hlt⟩))
  · have hopp' : intersectsOppositeEdges n = false := by simpa using hopp
    have o := opposite_false hn hopp'
    rw [if_neg hopp]
    simp only
    rw [parity_eq]
    by_cases hp : (n.x.signBit ^^ n.y.signBit ^^ n.z.signBit) = true
    · rw [hp]
      simp only [Bool.not_true, Bool.false_eq_true, if_false]
      exact exitU_ok hn hs (exitU_real epsX_nonneg sx sy sz hI1 (Or.inr ⟨o, hp⟩))
    · have hp' : (n.x.signBit ^^ n.y.signBit ^^ n.z.signBit) = false := by simpa using hp
      rw [hp']
      simp only [Bool.not_false, if_true]
      exact exitV_ok hn hs (exitV_real epsX_nonneg sx sy sz hn.nz hI2 (Or.inr ⟨o, hp'⟩))

/-! ### the reversed normal `scaledN.Mul(-1)` -/

theorem mul_negOne_eq {n : V3} (hn : Fin3 n) : n.mul negOne = ⟨-n.x, -n.y, -n.z⟩ := by
  show V3.mk (negOne * n.x) (negOne * n.y) (negOne * n.z) = _
  rw [negOne_mul_eq hn.1, negOne_mul_eq hn.2.1, negOne_mul_eq hn.2.2]

theorem intersectsFace_neg (n : V3) (hn : Fin3 n) : intersectsFace (n.mul negOne) = intersectsFace n := by
  rw [mul_negOne_eq hn]
  unfold intersectsFace
  show (F64.ge (F64.abs (F64.neg n.y)) (F64.abs (F64.neg n.z) - F64.abs (F64.neg n.x)) &&
    F64.ge (F64.abs (F64.neg n.x)) (F64.abs (F64.neg n.z) - F64.abs (F64.neg n.y))) = _
  rw [S2Proofs.WrapFloat.abs_neg, S2Proofs.WrapFloat.abs_neg, S2Proofs.WrapFloat.abs_neg]

theorem nok_neg (n : V3) (hn : NOK n) : NOK (n.mul negOne) := by
  rw [mul_negOne_eq hn.fin]
  refine ⟨⟨neg_fin hn.fin.1, neg_fin hn.fin.2.1, neg_fin hn.fin.2.2⟩, ?_, ?_, ?_, ?_⟩
  · show |rv (-n.x)| ≤ _; rw [rv_neg, abs_neg]; exact hn.bx
  · show |rv (-n.y)| ≤ _; rw [rv_neg, abs_neg]; exact hn.bY
  · show |rv (-n.z)| ≤ _; rw [rv_neg, abs_neg]; exact hn.bz
  · show rv (-n.x) ≠ 0 ∨ rv (-n.y) ≠ 0 ∨ rv (-n.z) ≠ 0
    rw [rv_neg, rv_neg, rv_neg]
    rcases hn.nz with h | h | h
    · exact Or.inl (neg_ne_zero.2 h)
    · exact Or.inr (Or.inl (neg_ne_zero.2 h))
    · exact Or.inr (Or.inr (neg_ne_zero.2 h))

end S2Proofs.C06Face
