/-
  S2Proofs.C06Face.DegenFloat — float error lemmas for the re-projection branch of `clipDestination` (degenerate edges):
  error of a float product / cross-product component / dot product with explicit magnitude bounds, the tangent test
  `fl((P − A)·(N × A))` against the exact determinant, and `Normalize` as a componentwise scaling.
-/
import S2Proofs.C06Face.Clip
import S2Proofs.C06Face.DegenReal

namespace S2Proofs.C06Face
open S2 S2.Exact S2.CellM S2.IndexBuild S2Proofs.F64Order S2Proofs.FloatErr S2Proofs.C06Clip

theorem eR_tiny : eR ≤ uR / 2 ^ 30 := by
  unfold eR uR
  rw [div_div, ← pow_add]
  apply one_div_le_one_div_of_le (by positivity)
  exact pow_le_pow_right₀ (by norm_num) (by norm_num)

/-- one float product with magnitude bounds -/
theorem mulB {x y : F64} {X Y : ℝ} (hx : Fin x) (hy : Fin y) (bx : |rv x| ≤ X) (bY : |rv y| ≤ Y) (hXY : X * Y ≤ 2 ^ 20) :
    Fin (x * y) ∧ |rv (x * y) - rv x * rv y| ≤ uR * (X * Y) + eR ∧ |rv (x * y)| ≤ X * Y * (1 + uR) + eR := by
  have hX : 0 ≤ X := le_trans (abs_nonneg _) bx
  have hP : |rv x * rv y| ≤ X * Y := by
    rw [abs_mul]; exact mul_le_mul bx bY (abs_nonneg _) hX
  obtain ⟨hf, hs⟩ := mulR hx hy (le_trans hP (le_trans hXY (by norm_num)))
  have h1 : |rv (x * y) - rv x * rv y| ≤ uR * (X * Y) + eR := by
    have := hs.rel
    have h2 : uR * |rv x * rv y| ≤ uR * (X * Y) := mul_le_mul_of_nonneg_left hP uR_nonneg
    linarith
  refine ⟨hf, h1, ?_⟩
  have := abs_add_le (rv x * rv y) (rv (x * y) - rv x * rv y)
  rw [add_sub_cancel] at this
  linarith

/-- one float difference with magnitude bounds -/
theorem subB {x y : F64} {X Y : ℝ} (hx : Fin x) (hy : Fin y) (bx : |rv x| ≤ X) (bY : |rv y| ≤ Y) (hXY : X + Y ≤ 2 ^ 20) :
    Fin (x - y) ∧ |rv (x - y) - (rv x - rv y)| ≤ uR * (X + Y) ∧ |rv (x - y)| ≤ (X + Y) * (1 + uR) := by
  have hP : |rv x - rv y| ≤ X + Y := by have := abs_sub (rv x) (rv y); linarith
  obtain ⟨hf, _, hr⟩ := subR hx hy (le_trans hP (le_trans hXY (by norm_num)))
  have h1 : |rv (x - y) - (rv x - rv y)| ≤ uR * (X + Y) :=
    le_trans hr (mul_le_mul_of_nonneg_left hP uR_nonneg)
  refine ⟨hf, h1, ?_⟩
  have := abs_add_le (rv x - rv y) (rv (x - y) - (rv x - rv y))
  rw [add_sub_cancel] at this
  linarith

/-- one float sum with magnitude bounds -/
theorem addB {x y : F64} {X Y : ℝ} (hx : Fin x) (hy : Fin y) (bx : |rv x| ≤ X) (bY : |rv y| ≤ Y) (hXY : X + Y ≤ 2 ^ 20) :
    Fin (x + y) ∧ |rv (x + y) - (rv x + rv y)| ≤ uR * (X + Y) ∧ |rv (x + y)| ≤ (X + Y) * (1 + uR) := by
  have hP : |rv x + rv y| ≤ X + Y := by have := abs_add_le (rv x) (rv y); linarith
  obtain ⟨hf, _, hr⟩ := addR hx hy (le_trans hP (le_trans hXY (by norm_num)))
  have h1 : |rv (x + y) - (rv x + rv y)| ≤ uR * (X + Y) :=
    le_trans hr (mul_le_mul_of_nonneg_left hP uR_nonneg)
  refine ⟨hf, h1, ?_⟩
  have := abs_add_le (rv x + rv y) (rv (x + y) - (rv x + rv y))
  rw [add_sub_cancel] at this
  linarith

/-- a component `x1·y2 − x2·y1` of a float cross product, `|x_i| ≤ X`, `|y_i| ≤ Y`, `1 ≤ X·Y ≤ 4` -/
theorem crossB {x1 x2 y1 y2 : F64} {X Y : ℝ} (f1 : Fin x1) (f2 : Fin x2) (g1 : Fin y1) (g2 : Fin y2)
    (b1 : |rv x1| ≤ X) (b2 : |rv x2| ≤ X) (c1 : |rv y1| ≤ Y) (c2 : |rv y2| ≤ Y) (hlo : 1 ≤ X * Y) (hhi : X * Y ≤ 4) :
    Fin (x1 * y2 - x2 * y1) ∧
    |rv (x1 * y2 - x2 * y1) - (rv x1 * rv y2 - rv x2 * rv y1)| ≤ 5 * uR * (X * Y) ∧
    |rv (x1 * y2 - x2 * y1)| ≤ 21 / 10 * (X * Y) := by
  obtain ⟨p1, e1, m1⟩ := mulB f1 g2 b1 c2 (le_trans hhi (by norm_num))
  obtain ⟨p2, e2, m2⟩ := mulB f2 g1 b2 c1 (le_trans hhi (by norm_num))
  have hu : uR = 1 / 2 ^ 53 := rfl
  have he := eR_tiny
  have he0 := eR_nonneg
  have hM : X * Y * (1 + uR) + eR ≤ 101 / 100 * (X * Y) := by rw [hu] at he ⊢; nlinarith
  obtain ⟨p3, e3, m3⟩ := subB p1 p2 (le_trans m1 hM) (le_trans m2 hM) (by linarith)
  refine ⟨p3, ?_, ?_⟩
  · have e : rv (x1 * y2 - x2 * y1) - (rv x1 * rv y2 - rv x2 * rv y1) =
        (rv (x1 * y2 - x2 * y1) - (rv (x1 * y2) - rv (x2 * y1))) + ((rv (x1 * y2) - rv x1 * rv y2) - (rv (x2 * y1) - rv x2 * rv y1)) := by
      ring
    rw [e]
    have t1 := abs_add_le (rv (x1 * y2 - x2 * y1) - (rv (x1 * y2) - rv (x2 * y1)))
      ((rv (x1 * y2) - rv x1 * rv y2) - (rv (x2 * y1) - rv x2 * rv y1))
    have t2 := abs_sub (rv (x1 * y2) - rv x1 * rv y2) (rv (x2 * y1) - rv x2 * rv y1)
    rw [hu] at e1 e2 e3 he ⊢
    nlinarith
  · rw [hu] at m3; nlinarith

/-- the float dot product of two float vectors, `|x_i| ≤ X`, `|y_i| ≤ Y`, `1 ≤ X·Y ≤ 16` -/
theorem dotB {x y : V3} {X Y : ℝ} (fx : Fin3 x) (fy : Fin3 y)
    (bx : |rv x.x| ≤ X ∧ |rv x.y| ≤ X ∧ |rv x.z| ≤ X) (bY : |rv y.x| ≤ Y ∧ |rv y.y| ≤ Y ∧ |rv y.z| ≤ Y)
    (hlo : 1 ≤ X * Y) (hhi : X * Y ≤ 16) :
    Fin (x.dot y) ∧
    |rv (x.dot y) - (rv x.x * rv y.x + rv x.y * rv y.y + rv x.z * rv y.z)| ≤ 9 * uR * (X * Y) := by
  obtain ⟨p1, e1, m1⟩ := mulB fx.1 fy.1 bx.1 bY.1 (le_trans hhi (by norm_num))
  obtain ⟨p2, e2, m2⟩ := mulB fx.2.1 fy.2.1 bx.2.1 bY.2.1 (le_trans hhi (by norm_num))
  obtain ⟨p3, e3, m3⟩ := mulB fx.2.2 fy.2.2 bx.2.2 bY.2.2 (le_trans hhi (by norm_num))
  have hu : uR = 1 / 2 ^ 53 := rfl
  have he := eR_tiny
  have he0 := eR_nonneg
  have hM : X * Y * (1 + uR) + eR ≤ 101 / 100 * (X * Y) := by rw [hu] at he ⊢; nlinarith
  obtain ⟨s1, d1, n1⟩ := addB p1 p2 (le_trans m1 hM) (le_trans m2 hM) (by linarith)
  have hS : (101 / 100 * (X * Y) + 101 / 100 * (X * Y)) * (1 + uR) ≤ 203 / 100 * (X * Y) := by rw [hu]; nlinarith
  obtain ⟨s2, d2, _⟩ := addB s1 p3 (le_trans n1 hS) (le_trans m3 hM) (by linarith)
  refine ⟨s2, ?_⟩
  show |rv (x.x * y.x + x.y * y.y + x.z * y.z) - _| ≤ _
  have e : rv (x.x * y.x + x.y * y.y + x.z * y.z) - (rv x.x * rv y.x + rv x.y * rv y.y + rv x.z * rv y.z) =
      (rv (x.x * y.x + x.y * y.y + x.z * y.z) - (rv (x.x * y.x + x.y * y.y) + rv (x.z * y.z))) +
      (rv (x.x * y.x + x.y * y.y) - (rv (x.x * y.x) + rv (x.y * y.y))) +
      ((rv (x.x * y.x) - rv x.x * rv y.x) + (rv (x.y * y.y) - rv x.y * rv y.y) + (rv (x.z * y.z) - rv x.z * rv y.z)) := by
    ring
  rw [e]
  have a1 := abs_le.1 e1
  have a2 := abs_le.1 e2
  have a3 := abs_le.1 e3
  have a4 := abs_le.1 d1
  have a5 := abs_le.1 d2
  rw [hu] at a1 a2 a3 a4 a5 he ⊢
  rw [abs_le]; constructor <;> nlinarith

/-- exact value of `(p − a) · (x × y)` -/
noncomputable def tripleR (x y p a : V3) : ℝ :=
  (rv p.x - rv a.x) * (rv x.y * rv y.z - rv x.z * rv y.y) +
  (rv p.y - rv a.y) * (rv x.z * rv y.x - rv x.x * rv y.z) +
  (rv p.z - rv a.z) * (rv x.x * rv y.y - rv x.y * rv y.x)

/-- a term `d·c` against `D·C` -/
theorem term_err {d c D C ed ec md mC : ℝ} (hd : |d - D| ≤ ed) (hc : |c - C| ≤ ec) (hmc : |c| ≤ mC) (hmd : |D| ≤ md) :
    |d * c - D * C| ≤ ed * mC + md * ec := by
  have e : d * c - D * C = (d - D) * c + D * (c - C) := by ring
  rw [e]
  have h1 := abs_add_le ((d - D) * c) (D * (c - C))
  rw [abs_mul, abs_mul] at h1
  have h2 : |d - D| * |c| ≤ ed * mC := mul_le_mul hd hmc (abs_nonneg _) (le_trans (abs_nonneg _) hd)
  have h3 : |D| * |c - C| ≤ md * ec := mul_le_mul hmd hc (abs_nonneg _) (le_trans (abs_nonneg _) hmd)
  linarith

/-- **the tangent test**: `fl((p − a)·(x × y))` is within `2^-46` of the exact value, for coordinates at most `21/20`
    (`x, y`) resp. `101/100` (`p, a`) in magnitude -/
theorem test_err (x y p a : V3) (fx : Fin3 x) (fy : Fin3 y) (fp : Fin3 p) (fa : Fin3 a)
    (bx : |rv x.x| ≤ 21 / 20 ∧ |rv x.y| ≤ 21 / 20 ∧ |rv x.z| ≤ 21 / 20)
    (bY : |rv y.x| ≤ 21 / 20 ∧ |rv y.y| ≤ 21 / 20 ∧ |rv y.z| ≤ 21 / 20)
    (bp : |rv p.x| ≤ 101 / 100 ∧ |rv p.y| ≤ 101 / 100 ∧ |rv p.z| ≤ 101 / 100)
    (ba : |rv a.x| ≤ 101 / 100 ∧ |rv a.y| ≤ 101 / 100 ∧ |rv a.z| ≤ 101 / 100) :
    Fin ((p.sub a).dot (x.cross y)) ∧ |rv ((p.sub a).dot (x.cross y)) - tripleR x y p a| ≤ 1 / 2 ^ 46 := by
  have hu : uR = 1 / 2 ^ 53 := rfl
  have hXY : (1 : ℝ) ≤ 21 / 20 * (21 / 20) ∧ (21 / 20 : ℝ) * (21 / 20) ≤ 4 := by norm_num
  obtain ⟨c1f, c1e, c1m⟩ := crossB fx.2.1 fx.2.2 fy.2.1 fy.2.2 bx.2.1 bx.2.2 bY.2.1 bY.2.2 hXY.1 hXY.2
  obtain ⟨c2f, c2e, c2m⟩ := crossB fx.2.2 fx.1 fy.2.2 fy.1 bx.2.2 bx.1 bY.2.2 bY.1 hXY.1 hXY.2
  obtain ⟨c3f, c3e, c3m⟩ := crossB fx.1 fx.2.1 fy.1 fy.2.1 bx.1 bx.2.1 bY.1 bY.2.1 hXY.1 hXY.2
  obtain ⟨d1f, d1e, d1m⟩ := subB fp.1 fa.1 bp.1 ba.1 (by norm_num)
  obtain ⟨d2f, d2e, d2m⟩ := subB fp.2.1 fa.2.1 bp.2.1 ba.2.1 (by norm_num)
  obtain ⟨d3f, d3e, d3m⟩ := subB fp.2.2 fa.2.2 bp.2.2 ba.2.2 (by norm_num)
  have hdm : (101 / 100 + 101 / 100 : ℝ) * (1 + uR) ≤ 203 / 100 := by rw [hu]; norm_num
  have hcm : (21 / 10 : ℝ) * (21 / 20 * (21 / 20)) ≤ 232 / 100 := by norm_num
  have hD : ∀ (u v : ℝ), |u| ≤ 101 / 100 → |v| ≤ 101 / 100 → |u - v| ≤ 202 / 100 := by
    intro u v h1 h2; have := abs_sub u v; linarith
  -- the float dot product
  have hfd : Fin3 (p.sub a) := ⟨d1f, d2f, d3f⟩
  have hfc : Fin3 (x.cross y) := ⟨c1f, c2f, c3f⟩
  obtain ⟨tf, te⟩ := dotB (X := 203 / 100) (Y := 232 / 100) hfd hfc
    ⟨le_trans d1m hdm, le_trans d2m hdm, le_trans d3m hdm⟩
    ⟨le_trans c1m hcm, le_trans c2m hcm, le_trans c3m hcm⟩ (by norm_num) (by norm_num)
  refine ⟨tf, ?_⟩
  -- the three terms
  have t1 := term_err d1e c1e (le_trans c1m hcm) (hD _ _ bp.1 ba.1)
  have t2 := term_err d2e c2e (le_trans c2m hcm) (hD _ _ bp.2.1 ba.2.1)
  have t3 := term_err d3e c3e (le_trans c3m hcm) (hD _ _ bp.2.2 ba.2.2)
  unfold tripleR
  have te' : |rv ((p.sub a).dot (x.cross y)) -
      (rv (p.x - a.x) * rv (x.y * y.z - x.z * y.y) + rv (p.y - a.y) * rv (x.z * y.x - x.x * y.z) +
        rv (p.z - a.z) * rv (x.x * y.y - x.y * y.x))| ≤ 9 * uR * (203 / 100 * (232 / 100)) := te
  generalize rv ((p.sub a).dot (x.cross y)) = T at te' ⊢
  generalize rv (p.x - a.x) = d1 at *
  generalize rv (p.y - a.y) = d2 at *
  generalize rv (p.z - a.z) = d3 at *
  generalize rv (x.y * y.z - x.z * y.y) = k1 at *
  generalize rv (x.z * y.x - x.x * y.z) = k2 at *
  generalize rv (x.x * y.y - x.y * y.x) = k3 at *
  have a0 := abs_le.1 te'
  have a1 := abs_le.1 t1
  have a2 := abs_le.1 t2
  have a3 := abs_le.1 t3
  rw [hu] at a0 a1 a2 a3
  rw [abs_le]
  constructor <;> norm_num at a0 a1 a2 a3 ⊢ <;> linarith

end S2Proofs.C06Face
