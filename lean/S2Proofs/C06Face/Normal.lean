/-
  S2Proofs.C06Face.Normal — the normal vector of `ClipToPaddedFace` is usable (`NOK`) for unit-ish endpoints:

      normUVW = faceXYZtoUVW(f, a.PointCross(b)),   scaledN = (scaleUV·normUVW.X, scaleUV·normUVW.Y, normUVW.Z)

  `PointCross` is `(a+b) × (b−a)`, or `a.Ortho()` (r3) when that is exactly zero (degenerate edges `a = b`, `a = −b`,
  parallel vectors — the edges of a point shape are of this kind).  Both branches give a finite, bounded, NON-ZERO vector:
  the first by `FE2.rawX_spec` and the test itself, the second because the cross product with a basis vector is exact
  and contains the largest component (≥ 1/2), so `Normalize` works (`FE3.normalize_normed_of_coord`).
  Multiplication by `scaleUV ≥ 1` cannot underflow to zero (monotonicity of rounding).
-/
import S2Proofs.C06Face.ExitPoint
import S2Proofs.FloatErr2.Normal
import S2Proofs.FloatErr3.Normalize
import S2Proofs.PointCrossExact
import S2Proofs.F64Sym2

namespace S2Proofs.C06Face
open S2 S2.Exact S2.CellM S2.IndexBuild S2Proofs.F64Order S2Proofs.FloatErr S2Proofs.C06Clip

/-! ### unit-ish vectors -/

theorem UnitIsh.normLe {p : V3} (h : UnitIsh p) : NormLe p := by
  refine ⟨h.1, le_trans ?_ h.2⟩
  exact mul_le_mul_of_nonneg_right (le_abs_self _) (by norm_num)

/-- real form: `| |p|² − 1 | ≤ 2^-16` -/
theorem UnitIsh.n2 {p : V3} (h : UnitIsh p) : |S2Proofs.FE3.n2R p - 1| ≤ 1 / 2 ^ 16 := by
  have h2 := h.2
  have h3 : ((|norm2I p - (scale : ℤ) ^ 2| * 2 ^ 16 : ℤ) : ℝ) ≤ (((scale : ℤ) ^ 2 : ℤ) : ℝ) :=
    Int.cast_le.mpr h2
  push_cast at h3
  rw [scale_cast] at h3
  rw [S2Proofs.FE3.n2R_eq]
  have hS : (0 : ℝ) < (2 ^ 1074) ^ 2 := by positivity
  generalize ((2 : ℝ) ^ 1074) ^ 2 = S at *
  generalize (norm2I p : ℝ) = N at *
  have e : N / S - 1 = (N - S) / S := by field_simp
  have h16 : (0 : ℝ) < 2 ^ 16 := by norm_num
  rw [e, abs_div, abs_of_pos hS, div_le_div_iff₀ hS h16]
  linarith

theorem UnitIsh.fin {p : V3} (h : UnitIsh p) : Fin3 p := h.1

theorem UnitIsh.coord_le {p : V3} (h : UnitIsh p) : |rv p.x| ≤ 2 ∧ |rv p.y| ≤ 2 ∧ |rv p.z| ≤ 2 :=
  h.normLe.coord_le

theorem UnitIsh.sq_ge {p : V3} (h : UnitIsh p) : 1 - 1 / 2 ^ 16 ≤ rv p.x ^ 2 + rv p.y ^ 2 + rv p.z ^ 2 := by
  have := (abs_le.1 h.n2).1
  unfold S2Proofs.FE3.n2R at this
  linarith

theorem UnitIsh.sq_le {p : V3} (h : UnitIsh p) : rv p.x ^ 2 + rv p.y ^ 2 + rv p.z ^ 2 ≤ 1 + 1 / 2 ^ 16 := by
  have := (abs_le.1 h.n2).2
  unfold S2Proofs.FE3.n2R at this
  linarith

/-- a component that dominates the other two is at least 1/2 in magnitude -/
theorem half_le_of_dominant {x y z : ℝ} (h : 1 - 1 / 2 ^ 16 ≤ x ^ 2 + y ^ 2 + z ^ 2) (hy : |y| ≤ |x|) (hz : |z| ≤ |x|) :
    1 / 2 ≤ |x| := by
  have hx := abs_nonneg x
  have h1 : y ^ 2 ≤ |x| ^ 2 := by rw [← sq_abs y]; exact pow_le_pow_left₀ (abs_nonneg y) hy 2
  have h2 : z ^ 2 ≤ |x| ^ 2 := by rw [← sq_abs z]; exact pow_le_pow_left₀ (abs_nonneg z) hz 2
  have h3 : x ^ 2 = |x| ^ 2 := (sq_abs x).symm
  by_contra hc
  have hc' : |x| < 1 / 2 := not_le.1 hc
  have : |x| ^ 2 < (1 / 2) ^ 2 := pow_lt_pow_left₀ hc' hx (by norm_num)
  norm_num at h this
  linarith

/-! ### exact float products / differences -/

theorem cast_inj_rv {x : F64} {q : ℚ} (h : rv x = (q : ℝ)) : F64Round.val x = q := by
  rw [rv_cast] at h; exact_mod_cast h

/-- a product whose exact value is representable is returned exactly (as a value) -/
theorem mul_exact {x y v : F64} (hx : Fin x) (hy : Fin y) (hv : Fin v) (h : rv x * rv y = rv v) :
    Fin (x * y) ∧ rv (x * y) = rv v := by
  have hr := F64Round.isRound_mul hx hy
  have e : F64Round.val x * F64Round.val y = F64Round.val v := by
    have : ((F64Round.val x * F64Round.val y : ℚ) : ℝ) = ((F64Round.val v : ℚ) : ℝ) := by
      push_cast; rw [← rv_cast, ← rv_cast, ← rv_cast]; exact h
    exact_mod_cast this
  rw [e] at hr
  obtain ⟨hf, ht⟩ := F64Round.IsRound.fix hv hr
  exact ⟨hf, rv_eq_of_toInt ht⟩

theorem sub_exact {x y v : F64} (hx : Fin x) (hy : Fin y) (hv : Fin v) (h : rv x - rv y = rv v) :
    Fin (x - y) ∧ rv (x - y) = rv v := by
  have hr := F64Round.isRound_sub hx hy
  have e : F64Round.val x - F64Round.val y = F64Round.val v := by
    have : ((F64Round.val x - F64Round.val y : ℚ) : ℝ) = ((F64Round.val v : ℚ) : ℝ) := by
      push_cast; rw [← rv_cast, ← rv_cast, ← rv_cast]; exact h
    exact_mod_cast this
  rw [e] at hr
  obtain ⟨hf, ht⟩ := F64Round.IsRound.fix hv hr
  exact ⟨hf, rv_eq_of_toInt ht⟩

/-- `p·c − q·d` for `c, d ∈ {0, 1}` (a component of the cross product with a basis vector) -/
theorem basis_comp {p q c d v : F64} (hp : Fin p) (hq : Fin q) (hc : Fin c) (hd : Fin d) (hv : Fin v)
    (cv : rv c = 0 ∨ rv c = 1) (dv : rv d = 0 ∨ rv d = 1)
    (h : rv p * rv c - rv q * rv d = rv v) : Fin (p * c - q * d) ∧ rv (p * c - q * d) = rv v := by
  have e1 : ∃ w : F64, Fin w ∧ rv p * rv c = rv w := by
    rcases cv with h0 | h1
    · exact ⟨fzero, fzero_fin, by rw [h0, rv_fzero]; ring⟩
    · exact ⟨p, hp, by rw [h1]; ring⟩
  have e2 : ∃ w : F64, Fin w ∧ rv q * rv d = rv w := by
    rcases dv with h0 | h1
    · exact ⟨fzero, fzero_fin, by rw [h0, rv_fzero]; ring⟩
    · exact ⟨q, hq, by rw [h1]; ring⟩
  obtain ⟨w1, fw1, ew1⟩ := e1
  obtain ⟨w2, fw2, ew2⟩ := e2
  obtain ⟨f1, v1⟩ := mul_exact hp hc fw1 ew1
  obtain ⟨f2, v2⟩ := mul_exact hq hd fw2 ew2
  apply sub_exact f1 f2 hv
  rw [v1, v2, ← ew1, ← ew2]; exact h

/-! ### `r3.Vector.Ortho` -/

theorem largest_cases (p : V3) (hp : Fin3 p) :
    (p.largestComponent = 0 ∧ |rv p.y| ≤ |rv p.x| ∧ |rv p.z| ≤ |rv p.x|) ∨
    (p.largestComponent = 1 ∧ |rv p.x| ≤ |rv p.y| ∧ |rv p.z| ≤ |rv p.y|) ∨
    (p.largestComponent = 2 ∧ |rv p.x| ≤ |rv p.z| ∧ |rv p.y| ≤ |rv p.z|) := by
  obtain ⟨hx, hy, hz⟩ := hp
  have fx := abs_fin hx
  have fy := abs_fin hy
  have fz := abs_fin hz
  have gxy := gt_iff_rv fx fy
  have gxz := gt_iff_rv fx fz
  have gyz := gt_iff_rv fy fz
  rw [rv_abs, rv_abs] at gxy gxz gyz
  unfold V3.largestComponent V3.abs
  simp only
  by_cases h1 : F64.gt p.x.abs p.y.abs = true
  · rw [if_pos h1]
    have a1 := gxy.1 h1
    by_cases h2 : F64.gt p.x.abs p.z.abs = true
    · rw [if_pos h2]
      have a2 := gxz.1 h2
      exact Or.inl ⟨rfl, le_of_lt a1, le_of_lt a2⟩
    · rw [if_neg h2]
      have a2 : |rv p.x| ≤ |rv p.z| := not_lt.1 (fun hc => h2 (gxz.2 hc))
      exact Or.inr (Or.inr ⟨rfl, a2, le_trans (le_of_lt a1) a2⟩)
  · rw [if_neg h1]
    have a1 : |rv p.x| ≤ |rv p.y| := not_lt.1 (fun hc => h1 (gxy.2 hc))
    by_cases h2 : F64.gt p.y.abs p.z.abs = true
    · rw [if_pos h2]
      have a2 := gyz.1 h2
      exact Or.inr (Or.inl ⟨rfl, a1, le_of_lt a2⟩)
    · rw [if_neg h2]
      have a2 : |rv p.y| ≤ |rv p.z| := not_lt.1 (fun hc => h2 (gyz.2 hc))
      exact Or.inr (Or.inr ⟨rfl, le_trans a1 a2, a2⟩)

/-- what we need of a vector: finite, coordinates at most 5 in magnitude, not the zero vector -/
structure VOK (v : V3) : Prop where
  fin : Fin3 v
  bx : |rv v.x| ≤ 5
  bY : |rv v.y| ≤ 5
  bz : |rv v.z| ≤ 5
  nz : rv v.x ≠ 0 ∨ rv v.y ≠ 0 ∨ rv v.z ≠ 0

theorem vok_of_normed {v : V3} (h : S2Proofs.FE3.Normed v) : VOK v := by
  obtain ⟨c1, c2, c3⟩ := h.coord_le
  refine ⟨h.1, by linarith, by linarith, by linarith, ?_⟩
  by_contra hc
  simp only [not_or, not_not] at hc
  have := h.n2_ge
  unfold S2Proofs.FE3.n2R at this
  have e1 : val v.x = 0 := hc.1
  have e2 : val v.y = 0 := hc.2.1
  have e3 : val v.z = 0 := hc.2.2
  rw [e1, e2, e3] at this
  norm_num at this

theorem two_le_big : (2 : ℝ) ≤ 2 ^ 299 := by
    calc (2 : ℝ) = 2 ^ 1 := by norm_num
      _ ≤ 2 ^ 299 := pow_le_pow_right₀ (by norm_num) (by norm_num)
theorem small_le_half : (1 : ℝ) / 2 ^ 300 ≤ 1 / 2 := by
    apply one_div_le_one_div_of_le (by norm_num)
    calc (2 : ℝ) = 2 ^ 1 := by norm_num
      _ ≤ 2 ^ 300 := pow_le_pow_right₀ (by norm_num) (by norm_num)
theorem normed_of_comps {A B C : F64} (fA : Fin A) (fB : Fin B) (fC : Fin C)
    (bA : |rv A| ≤ 2) (bB : |rv B| ≤ 2) (bC : |rv C| ≤ 2)
    (hlo : 1 / 2 ≤ |rv A| ∨ 1 / 2 ≤ |rv B| ∨ 1 / 2 ≤ |rv C|) : S2Proofs.FE3.Normed (V3.normalize ⟨A, B, C⟩) := by
  have bA' : |rv A| ≤ 2 ^ 299 := le_trans bA two_le_big
  have bB' : |rv B| ≤ 2 ^ 299 := le_trans bB two_le_big
  have bC' : |rv C| ≤ 2 ^ 299 := le_trans bC two_le_big
  have hlo' : 1 / 2 ^ 300 ≤ |rv A| ∨ 1 / 2 ^ 300 ≤ |rv B| ∨ 1 / 2 ^ 300 ≤ |rv C| := by
    rcases hlo with h | h | h
    · exact Or.inl (le_trans small_le_half h)
    · exact Or.inr (Or.inl (le_trans small_le_half h))
    · exact Or.inr (Or.inr (le_trans small_le_half h))
  exact S2Proofs.FE3.normalize_normed_of_coord _ ⟨fA, fB, fC⟩ bA' bB' bC' hlo'

theorem ortho_eq0 {p : V3} (h : p.largestComponent = 0) :
    p.ortho = V3.normalize ⟨p.y * F64.one - p.z * F64.zero false, p.z * F64.zero false - p.x * F64.one,
      p.x * F64.zero false - p.y * F64.zero false⟩ := by
  unfold V3.ortho; rw [h]; rfl

theorem ortho_eq1 {p : V3} (h : p.largestComponent = 1) :
    p.ortho = V3.normalize ⟨p.y * F64.zero false - p.z * F64.zero false, p.z * F64.one - p.x * F64.zero false,
      p.x * F64.zero false - p.y * F64.one⟩ := by
  unfold V3.ortho; rw [h]; rfl

theorem ortho_eq2 {p : V3} (h : p.largestComponent = 2) :
    p.ortho = V3.normalize ⟨p.y * F64.zero false - p.z * F64.one, p.z * F64.zero false - p.x * F64.zero false,
      p.x * F64.one - p.y * F64.zero false⟩ := by
  unfold V3.ortho; rw [h]; rfl

theorem ortho_normed (p : V3) (hp : UnitIsh p) : S2Proofs.FE3.Normed p.ortho := by
  obtain ⟨hx, hy, hz⟩ := hp.fin
  obtain ⟨bx, bY, bz⟩ := hp.coord_le
  have hsq := hp.sq_ge
  have z0 : rv (F64.zero false) = 0 := rv_fzero
  have zf : Fin (F64.zero false) := fzero_fin
  have o1 : rv F64.one = 1 := rv_one
  have h0 : |(0 : ℝ)| ≤ 2 := by rw [abs_zero]; norm_num
  rcases largest_cases p hp.fin with ⟨hl, d1, d2⟩ | ⟨hl, d1, d2⟩ | ⟨hl, d1, d2⟩
  · -- x largest: ov = (0,0,1), cross = (p.y, −p.x, 0)
    rw [ortho_eq0 hl]
    have hX := half_le_of_dominant hsq d1 d2
    obtain ⟨f1, v1⟩ := basis_comp hy hz one_fin zf hy (Or.inr o1) (Or.inl z0)
      (by rw [o1, z0]; ring)
    obtain ⟨f2, v2⟩ := basis_comp hz hx zf one_fin (neg_fin hx) (Or.inl z0) (Or.inr o1)
      (by rw [o1, z0, rv_neg]; ring)
    obtain ⟨f3, v3⟩ := basis_comp hx hy zf zf zf (Or.inl z0) (Or.inl z0)
      (by rw [z0]; ring)
    apply normed_of_comps f1 f2 f3
    · rw [v1]; exact bY
    · rw [v2, rv_neg, abs_neg]; exact bx
    · rw [v3, z0]; exact h0
    · refine Or.inr (Or.inl ?_)
      rw [v2, rv_neg, abs_neg]; exact hX
  · -- y largest: ov = (1,0,0), cross = (0, p.z, −p.y)
    rw [ortho_eq1 hl]
    have hY : 1 / 2 ≤ |rv p.y| :=
      half_le_of_dominant (x := rv p.y) (y := rv p.x) (z := rv p.z) (by linarith) d1 d2
    obtain ⟨f1, v1⟩ := basis_comp hy hz zf zf zf (Or.inl z0) (Or.inl z0)
      (by rw [z0]; ring)
    obtain ⟨f2, v2⟩ := basis_comp hz hx one_fin zf hz (Or.inr o1) (Or.inl z0)
      (by rw [o1, z0]; ring)
    obtain ⟨f3, v3⟩ := basis_comp hx hy zf one_fin (neg_fin hy) (Or.inl z0) (Or.inr o1)
      (by rw [o1, z0, rv_neg]; ring)
    apply normed_of_comps f1 f2 f3
    · rw [v1, z0]; exact h0
    · rw [v2]; exact bz
    · rw [v3, rv_neg, abs_neg]; exact bY
    · refine Or.inr (Or.inr ?_)
      rw [v3, rv_neg, abs_neg]; exact hY
  · -- z largest: ov = (0,1,0), cross = (−p.z, 0, p.x)
    rw [ortho_eq2 hl]
    have hZ : 1 / 2 ≤ |rv p.z| :=
      half_le_of_dominant (x := rv p.z) (y := rv p.x) (z := rv p.y) (by linarith) d1 d2
    obtain ⟨f1, v1⟩ := basis_comp hy hz zf one_fin (neg_fin hz) (Or.inl z0) (Or.inr o1)
      (by rw [o1, z0, rv_neg]; ring)
    obtain ⟨f2, v2⟩ := basis_comp hz hx zf zf zf (Or.inl z0) (Or.inl z0)
      (by rw [z0]; ring)
    obtain ⟨f3, v3⟩ := basis_comp hx hy one_fin zf hx (Or.inr o1) (Or.inl z0)
      (by rw [o1, z0]; ring)
    apply normed_of_comps f1 f2 f3
    · rw [v1, rv_neg, abs_neg]; exact bz
    · rw [v2, z0]; exact h0
    · rw [v3]; exact bx
    · refine Or.inl ?_
      rw [v1, rv_neg, abs_neg]; exact hZ

theorem ortho_vok (p : V3) (hp : UnitIsh p) : VOK p.ortho := vok_of_normed (ortho_normed p hp)

/-! ### `PointCross` -/

theorem rv_ne_zero_of_toInt {x : F64} (h : toInt x ≠ 0) : rv x ≠ 0 := by
  intro hc
  apply h
  have : rv x = rv fzero := by rw [hc, rv_fzero]
  have := toInt_eq_of_rv this
  rw [this]; decide

/-- a float vector that Go's `==` identifies with the zero vector fails the threshold test of the repaired `PointCross` -/
theorem not_ge_of_feq_zero (x : V3) (h : V3.feq x Crossing.zero3 = true) :
    F64.ge x.norm2 EdgeNum.pointCrossMinNorm2 = false := by
  have h8 : ∀ s1 s2 s3 : Bool,
      F64.ge (V3.norm2 ⟨F64.zero s1, F64.zero s2, F64.zero s3⟩) EdgeNum.pointCrossMinNorm2 = false := by decide +kernel
  unfold V3.feq Crossing.zero3 at h
  have hfz : ∀ a : F64, F64.feq a (F64.zero false) = a.isZero := S2Proofs.C16K.feq_fz
  simp only [Bool.and_eq_true, hfz] at h
  obtain ⟨⟨h1, h2⟩, h3⟩ := h
  have e : x = ⟨F64.zero x.x.signBit, F64.zero x.y.signBit, F64.zero x.z.signBit⟩ := by
    cases x with
    | mk a b c =>
      simp only at h1 h2 h3 ⊢
      rw [← S2Proofs.F64Sym2.eq_zero_of_isZero h1, ← S2Proofs.F64Sym2.eq_zero_of_isZero h2,
        ← S2Proofs.F64Sym2.eq_zero_of_isZero h3]
  rw [e]
  exact h8 _ _ _

/-- the repaired `PointCross` (D60) returns a usable normal in all three branches: the float value (finite, ≤ 5, not zero
    because it passed the threshold), the rounded exact product (a normalised vector), or `Ortho` -/
theorem pointCross_ok (a b : V3) (ha : UnitIsh a) (hb : UnitIsh b) : VOK (Crossing.pointCross a b) := by
  show VOK (EdgeNum.pointCross a b)
  obtain ⟨hf, _, _, _, b1, b2, b3⟩ := S2Proofs.FE2.rawX_spec a b ha.normLe hb.normLe
  by_cases hge : F64.ge (EdgeNum.pointCrossFloat a b).norm2 EdgeNum.pointCrossMinNorm2 = true
  · rw [EdgeNum.pointCross_eq_float_of_ge a b hge]
    have hz : ¬ V3.feq ((a.add b).cross (b.sub a)) Crossing.zero3 = true := by
      intro hc
      have := not_ge_of_feq_zero _ hc
      unfold EdgeNum.pointCrossFloat at hge
      rw [hge] at this
      exact absurd this (by decide)
    show VOK ((a.add b).cross (b.sub a))
    refine ⟨hf, b1, b2, b3, ?_⟩
    have hz3 : Fin3 Crossing.zero3 := ⟨fzero_fin, fzero_fin, fzero_fin⟩
    have hne : ofV3 ((a.add b).cross (b.sub a)) ≠ ofV3 Crossing.zero3 := fun hc =>
      hz ((v3feq_iff hf hz3).2 hc)
    have e0 : ofV3 Crossing.zero3 = ⟨0, 0, 0⟩ := by decide
    rw [e0] at hne
    by_contra hc
    simp only [not_or, not_not] at hc
    apply hne
    have t1 : toInt ((a.add b).cross (b.sub a)).x = 0 := by
      by_contra h; exact rv_ne_zero_of_toInt h hc.1
    have t2 : toInt ((a.add b).cross (b.sub a)).y = 0 := by
      by_contra h; exact rv_ne_zero_of_toInt h hc.2.1
    have t3 : toInt ((a.add b).cross (b.sub a)).z = 0 := by
      by_contra h; exact rv_ne_zero_of_toInt h hc.2.2
    unfold ofV3
    rw [t1, t2, t3]
  · have hge' : F64.ge (EdgeNum.pointCrossFloat a b).norm2 EdgeNum.pointCrossMinNorm2 = false := by
      cases hq : F64.ge (EdgeNum.pointCrossFloat a b).norm2 EdgeNum.pointCrossMinNorm2
      · rfl
      · exact absurd hq hge
    rw [EdgeNum.pointCross_eq_exact_of_not_ge a b hge']
    unfold EdgeNum.pointCrossExact
    simp only
    by_cases hz : ((EdgeNum.PV.ofV3 a).cross (EdgeNum.PV.ofV3 b)).isZero = true
    · simp only [hz, Bool.not_true, Bool.false_eq_true, if_false]
      exact ortho_vok a ha
    · have hz' : ((EdgeNum.PV.ofV3 a).cross (EdgeNum.PV.ofV3 b)).isZero = false := by
        cases hq : ((EdgeNum.PV.ofV3 a).cross (EdgeNum.PV.ofV3 b)).isZero
        · rfl
        · exact absurd hq hz
      simp only [hz', Bool.not_false, if_true]
      exact vok_of_normed (S2Proofs.PointCrossExact.toVector_normed _ _ hz')

/-! ### the face frame and the scaling -/

theorem neg_vok_comp {x : F64} (hx : Fin x) (b : |rv x| ≤ 5) : Fin (-x) ∧ |rv (-x)| ≤ 5 := by
  refine ⟨neg_fin hx, ?_⟩; rw [rv_neg, abs_neg]; exact b

theorem rawNormal_ok (a b : V3) (ha : UnitIsh a) (hb : UnitIsh b) (f : Nat) : VOK (rawNormal a b f) := by
  have h := pointCross_ok a b ha hb
  obtain ⟨⟨f1, f2, f3⟩, b1, b2, b3, nz⟩ := h
  have n1 : ∀ x : F64, rv x ≠ 0 → rv (-x) ≠ 0 := fun x hx => by rw [rv_neg]; exact neg_ne_zero.2 hx
  have a1 : ∀ x : F64, |rv x| ≤ 5 → |rv (-x)| ≤ 5 := fun x hx => by rw [rv_neg, abs_neg]; exact hx
  unfold rawNormal faceXYZtoUVW
  split
  · refine ⟨⟨f2, f3, f1⟩, b2, b3, b1, ?_⟩
    rcases nz with h | h | h
    · exact Or.inr (Or.inr h)
    · exact Or.inl h
    · exact Or.inr (Or.inl h)
  · refine ⟨⟨neg_fin f1, f3, f2⟩, a1 _ b1, b3, b2, ?_⟩
    rcases nz with h | h | h
    · exact Or.inl (n1 _ h)
    · exact Or.inr (Or.inr h)
    · exact Or.inr (Or.inl h)
  · refine ⟨⟨neg_fin f1, neg_fin f2, f3⟩, a1 _ b1, a1 _ b2, b3, ?_⟩
    rcases nz with h | h | h
    · exact Or.inl (n1 _ h)
    · exact Or.inr (Or.inl (n1 _ h))
    · exact Or.inr (Or.inr h)
  · refine ⟨⟨neg_fin f3, neg_fin f2, neg_fin f1⟩, a1 _ b3, a1 _ b2, a1 _ b1, ?_⟩
    rcases nz with h | h | h
    · exact Or.inr (Or.inr (n1 _ h))
    · exact Or.inr (Or.inl (n1 _ h))
    · exact Or.inl (n1 _ h)
  · refine ⟨⟨neg_fin f3, f1, neg_fin f2⟩, a1 _ b3, b1, a1 _ b2, ?_⟩
    rcases nz with h | h | h
    · exact Or.inr (Or.inl h)
    · exact Or.inr (Or.inr (n1 _ h))
    · exact Or.inl (n1 _ h)
  · refine ⟨⟨f2, f1, neg_fin f3⟩, b2, b1, a1 _ b3, ?_⟩
    rcases nz with h | h | h
    · exact Or.inr (Or.inl h)
    · exact Or.inl h
    · exact Or.inr (Or.inr (n1 _ h))

/-- multiplication by a scale `≥ 1`: finite, bounded, and a non-zero value stays non-zero (no underflow to zero) -/
theorem scale_comp {s x : F64} (hs : ScaleOK s) (hx : Fin x) (bx : |rv x| ≤ 5) :
    Fin (s * x) ∧ |rv (s * x)| ≤ 2 ^ 10 ∧ (rv x ≠ 0 → rv (s * x) ≠ 0) := by
  have hs0 : 0 ≤ rv s := by have := hs.lo; linarith
  have hP : |rv s * rv x| ≤ 10 := by
    rw [abs_mul, abs_of_nonneg hs0]
    have : rv s ≤ 2 := le_trans hs.hi (by norm_num)
    nlinarith [abs_nonneg (rv x)]
  obtain ⟨fP, sP⟩ := mulR hs.fin hx (le_trans hP (by norm_num))
  refine ⟨fP, ?_, ?_⟩
  · have h1 := sP.rel
    have h2 := abs_add_le (rv s * rv x) (rv (s * x) - rv s * rv x)
    rw [add_sub_cancel] at h2
    have hu : uR * |rv s * rv x| ≤ 1 * 10 := mul_le_mul uR_le_one hP (abs_nonneg _) (by norm_num)
    have he := eR_le_one
    have : (10 : ℝ) + 1 * 10 + 1 ≤ 2 ^ 10 := by norm_num
    linarith
  · intro h0
    have vs : (1 : ℚ) ≤ F64Round.val s := by
      have : ((1 : ℚ) : ℝ) ≤ ((F64Round.val s : ℚ) : ℝ) := by rw [← rv_cast]; push_cast; exact hs.lo
      exact_mod_cast this
    rcases lt_or_gt_of_ne h0 with hneg | hpos
    · have vx : F64Round.val x < 0 := by
        have : ((F64Round.val x : ℚ) : ℝ) < ((0 : ℚ) : ℝ) := by rw [← rv_cast]; push_cast; exact hneg
        exact_mod_cast this
      have hle : F64Round.val s * F64Round.val x ≤ F64Round.val x := by nlinarith
      have := F64Round.IsRound.mono (F64Round.isRound_mul hs.fin hx) (F64Round.isRound_self hx) hle
      have := (le_iff_rv fP hx).1 this
      exact ne_of_lt (lt_of_le_of_lt this hneg)
    · have vx : 0 < F64Round.val x := by
        have : ((0 : ℚ) : ℝ) < ((F64Round.val x : ℚ) : ℝ) := by rw [← rv_cast]; push_cast; exact hpos
        exact_mod_cast this
      have hle : F64Round.val x ≤ F64Round.val s * F64Round.val x := by nlinarith
      have := F64Round.IsRound.mono (F64Round.isRound_self hx) (F64Round.isRound_mul hs.fin hx) hle
      have := (le_iff_rv hx fP).1 this
      exact ne_of_gt (lt_of_lt_of_le hpos this)

/-- **the scaled normal of `ClipToPaddedFace` is usable** for unit-ish endpoints, on every face -/
theorem scaledNormal_nok (a b : V3) (ha : UnitIsh a) (hb : UnitIsh b) (f : Nat) : NOK (scaledNormal a b f) := by
  obtain ⟨⟨f1, f2, f3⟩, b1, b2, b3, nz⟩ := rawNormal_ok a b ha hb f
  obtain ⟨g1, c1, z1⟩ := scale_comp scaleUV_ok f1 b1
  obtain ⟨g2, c2, z2⟩ := scale_comp scaleUV_ok f2 b2
  unfold scaledNormal
  refine ⟨⟨g1, g2, f3⟩, c1, c2, le_trans b3 (by norm_num), ?_⟩
  rcases nz with h | h | h
  · exact Or.inl (z1 h)
  · exact Or.inr (Or.inl (z2 h))
  · exact Or.inr (Or.inr h)

/-! ### non-vacuity -/

/-- the x axis -/
def exA : V3 := ⟨F64.one, F64.zero false, F64.zero false⟩

example : UnitIsh exA := by decide +kernel

/-- a degenerate edge `a = a` takes the `Ortho` branch of `PointCross` … -/
example : V3.feq ((exA.add exA).cross (exA.sub exA)) Crossing.zero3 = true := by decide +kernel

/-- … and its scaled normal is usable on every face -/
example (f : Nat) : NOK (scaledNormal exA exA f) :=
  scaledNormal_nok exA exA (by decide +kernel) (by decide +kernel) f

end S2Proofs.C06Face
