/-
  S2Proofs.C06Face.DegenNorm — `V3.normalize` as a componentwise scaling: `normalize v = (I·v.x, I·v.y, I·v.z)` for ONE float
  `I = fl(1 / fl(√ fl(|v|²)))` with `I²·|v|² ∈ [1 − 2^-49, 1 + 2^-49]`; consequences for dot products.
-/
import S2Proofs.C06Face.DegenFloat
import S2Proofs.FloatErr3.Normalize

namespace S2Proofs.C06Face
open S2 S2.Exact S2.CellM S2.IndexBuild S2Proofs.F64Order S2Proofs.FloatErr S2Proofs.C06Clip
open S2Proofs.FE3 S2Proofs.FE3.NormAux

/-- `Normalize` is a multiplication of the three components by one float `I` with `I·|v| ≈ 1` -/
theorem normalize_comps (v : V3) (hv : Fin3 v) (hlo : 1 / 8 ≤ n2R v) (hhi : n2R v ≤ 2) :
    ∃ I : F64, Fin I ∧ 0 ≤ rv I ∧ rv I ^ 2 * n2R v ≤ 1 + 1 / 2 ^ 49 ∧ 1 - 1 / 2 ^ 49 ≤ rv I ^ 2 * n2R v ∧
      V3.normalize v = ⟨I * v.x, I * v.y, I * v.z⟩ := by
  have hlo' : (1 : ℝ) / 2 ^ 960 ≤ n2R v := by
    refine le_trans ?_ hlo
    apply one_div_le_one_div_of_le (by norm_num)
    calc (8 : ℝ) = 2 ^ 3 := by norm_num
      _ ≤ 2 ^ 960 := pow_le_pow_right₀ (by norm_num) (by norm_num)
  have hhi' : n2R v ≤ 2 ^ 960 := by
    refine le_trans hhi ?_
    calc (2 : ℝ) = 2 ^ 1 := by norm_num
      _ ≤ 2 ^ 960 := pow_le_pow_right₀ (by norm_num) (by norm_num)
  obtain ⟨fn, hN⟩ := norm2_float v hv hlo' hhi'
  have hu : uR = 1 / 2 ^ 53 := rfl
  have hu0 := uR_nonneg
  have hV : 0 < n2R v := lt_of_lt_of_le (by norm_num) hlo
  have hd : 3 * uR + 4 * uR ^ 2 ≤ 1 / 2 := by rw [hu]; norm_num
  have hNpos : 0 < val v.norm2 := by
    have h1 := (abs_le.mp hN).1
    have h2 : (3 * uR + 4 * uR ^ 2) * n2R v ≤ 1 / 2 * n2R v := mul_le_mul_of_nonneg_right hd hV.le
    linarith
  have hfeq : F64.feq v.norm2 (F64.zero false) = false := by
    cases h : F64.feq v.norm2 (F64.zero false)
    · rfl
    · exfalso
      have h1 := (feq_iff fn (by decide)).mp h
      have h2 : toInt (F64.zero false) = 0 := by decide
      have h3 := toInt_pos_of_val_pos hNpos
      omega
  obtain ⟨t, t0, fr, h1, h2, h3, h4, fi, h5⟩ := sqrt_inv_R fn hNpos
  obtain ⟨i0, jlo, jhi⟩ := joint_real hu0 (by rw [hu]; norm_num) t0 h1 h2 h3 h4 h5
  obtain ⟨s1, s2, _⟩ := S_real hu hV.le hN jlo jhi
  have en : V3.normalize v = ⟨(F64.one / F64.sqrt v.norm2) * v.x, (F64.one / F64.sqrt v.norm2) * v.y,
      (F64.one / F64.sqrt v.norm2) * v.z⟩ := by
    unfold V3.normalize
    simp only [hfeq, Bool.false_eq_true, if_false]
    rfl
  refine ⟨F64.one / F64.sqrt v.norm2, fi, i0, ?_, ?_, en⟩
  · -- i²V(1−d) ≤ (1+3u/2+u²/2)²
    have hS0 : 0 ≤ val (F64.one / F64.sqrt v.norm2) ^ 2 * n2R v := mul_nonneg (sq_nonneg _) hV.le
    rw [hu] at s1
    show val (F64.one / F64.sqrt v.norm2) ^ 2 * n2R v ≤ _
    nlinarith
  · have hS0 : 0 ≤ val (F64.one / F64.sqrt v.norm2) ^ 2 * n2R v := mul_nonneg (sq_nonneg _) hV.le
    rw [hu] at s2
    show _ ≤ val (F64.one / F64.sqrt v.norm2) ^ 2 * n2R v
    nlinarith

/-- `(i·x)² ≤ i²·V ≤ 1 + 2^-49` gives `|i·x| ≤ 1 + 2^-49` -/
theorem abs_scaled_le {i x V : ℝ} (hx : x ^ 2 ≤ V) (hiV : i ^ 2 * V ≤ 1 + 1 / 2 ^ 49) : |i * x| ≤ 1 + 1 / 2 ^ 49 := by
  have h1 : (i * x) ^ 2 ≤ 1 + 1 / 2 ^ 49 := by
    have : (i * x) ^ 2 = i ^ 2 * x ^ 2 := by ring
    rw [this]
    exact le_trans (mul_le_mul_of_nonneg_left hx (sq_nonneg i)) hiV
  have h2 : (1 + 1 / 2 ^ 49 : ℝ) ≤ (1 + 1 / 2 ^ 49) ^ 2 := by norm_num
  have := abs_le_of_sq_le_sq' (le_trans h1 h2) (by norm_num)
  exact abs_le.2 ⟨this.1, this.2⟩

/-- dot products with a normalized vector: `normalize(v)·x = i·(v·x)` up to `(2^-53·(1+2^-49) + 2^-1075)·Σ|x_j|` -/
theorem normalize_dot (v : V3) (hv : Fin3 v) (hlo : 1 / 8 ≤ n2R v) (hhi : n2R v ≤ 2) :
    ∃ i : ℝ, 0 ≤ i ∧ i ^ 2 * n2R v ≤ 1 + 1 / 2 ^ 49 ∧ 1 - 1 / 2 ^ 49 ≤ i ^ 2 * n2R v ∧
      Fin3 (V3.normalize v) ∧
      |rv (V3.normalize v).x| ≤ 1 + 1 / 2 ^ 48 ∧ |rv (V3.normalize v).y| ≤ 1 + 1 / 2 ^ 48 ∧
      |rv (V3.normalize v).z| ≤ 1 + 1 / 2 ^ 48 ∧
      ∀ x1 x2 x3 : ℝ,
        |(rv (V3.normalize v).x * x1 + rv (V3.normalize v).y * x2 + rv (V3.normalize v).z * x3) -
          i * (rv v.x * x1 + rv v.y * x2 + rv v.z * x3)| ≤ 1 / 2 ^ 52 * (|x1| + |x2| + |x3|) := by
  obtain ⟨I, fI, i0, hi1, hi2, en⟩ := normalize_comps v hv hlo hhi
  refine ⟨rv I, i0, hi1, hi2, ?_⟩
  rw [en]
  have hV : n2R v = rv v.x ^ 2 + rv v.y ^ 2 + rv v.z ^ 2 := rfl
  have q1 := sq_nonneg (rv v.x)
  have q2 := sq_nonneg (rv v.y)
  have q3 := sq_nonneg (rv v.z)
  have a1 := abs_scaled_le (x := rv v.x) (by rw [hV]; linarith) hi1
  have a2 := abs_scaled_le (x := rv v.y) (by rw [hV]; linarith) hi1
  have a3 := abs_scaled_le (x := rv v.z) (by rw [hV]; linarith) hi1
  have big : (1 + 1 / 2 ^ 49 : ℝ) ≤ 2 ^ 30 := by norm_num
  obtain ⟨f1, s1⟩ := mulR fI hv.1 (le_trans a1 big)
  obtain ⟨f2, s2⟩ := mulR fI hv.2.1 (le_trans a2 big)
  obtain ⟨f3, s3⟩ := mulR fI hv.2.2 (le_trans a3 big)
  have hu : uR = 1 / 2 ^ 53 := rfl
  have he := eR_tiny
  have he0 := eR_nonneg
  have r1 := s1.rel
  have r2 := s2.rel
  have r3 := s3.rel
  -- each component within 2^-52·(…) hmm: u·(1+2^-49) + e ≤ 2^-52
  have c : ∀ w X : ℝ, |w - X| ≤ uR * |X| + eR → |X| ≤ 1 + 1 / 2 ^ 49 → |w - X| ≤ 1 / 2 ^ 52 ∧ |w| ≤ 1 + 1 / 2 ^ 48 := by
    intro w X h hX
    have h1 : uR * |X| ≤ uR * (1 + 1 / 2 ^ 49) := mul_le_mul_of_nonneg_left hX uR_nonneg
    have h2 : |w - X| ≤ 1 / 2 ^ 52 := by rw [hu] at h h1 he; norm_num at h h1 he ⊢; linarith
    refine ⟨h2, ?_⟩
    have := abs_add_le X (w - X)
    rw [add_sub_cancel] at this
    norm_num at h2 hX ⊢
    linarith
  obtain ⟨d1, m1⟩ := c _ _ r1 a1
  obtain ⟨d2, m2⟩ := c _ _ r2 a2
  obtain ⟨d3, m3⟩ := c _ _ r3 a3
  refine ⟨⟨f1, f2, f3⟩, m1, m2, m3, ?_⟩
  intro x1 x2 x3
  show |(rv (I * v.x) * x1 + rv (I * v.y) * x2 + rv (I * v.z) * x3) - rv I * (rv v.x * x1 + rv v.y * x2 + rv v.z * x3)| ≤ _
  have e : (rv (I * v.x) * x1 + rv (I * v.y) * x2 + rv (I * v.z) * x3) - rv I * (rv v.x * x1 + rv v.y * x2 + rv v.z * x3) =
      (rv (I * v.x) - rv I * rv v.x) * x1 + (rv (I * v.y) - rv I * rv v.y) * x2 + (rv (I * v.z) - rv I * rv v.z) * x3 := by ring
  rw [e]
  have t1 : |(rv (I * v.x) - rv I * rv v.x) * x1| ≤ 1 / 2 ^ 52 * |x1| := by
    rw [abs_mul]; exact mul_le_mul_of_nonneg_right d1 (abs_nonneg _)
  have t2 : |(rv (I * v.y) - rv I * rv v.y) * x2| ≤ 1 / 2 ^ 52 * |x2| := by
    rw [abs_mul]; exact mul_le_mul_of_nonneg_right d2 (abs_nonneg _)
  have t3 : |(rv (I * v.z) - rv I * rv v.z) * x3| ≤ 1 / 2 ^ 52 * |x3| := by
    rw [abs_mul]; exact mul_le_mul_of_nonneg_right d3 (abs_nonneg _)
  have := abs_add_le ((rv (I * v.x) - rv I * rv v.x) * x1 + (rv (I * v.y) - rv I * rv v.y) * x2)
    ((rv (I * v.z) - rv I * rv v.z) * x3)
  have := abs_add_le ((rv (I * v.x) - rv I * rv v.x) * x1) ((rv (I * v.y) - rv I * rv v.y) * x2)
  linarith

end S2Proofs.C06Face
