/-
  S2Proofs.C06Face.ExitRel — the exit point lies (up to rounding) on the line of the normal it was computed from:
  `|n.x·e1 + n.y·e2 + n.z| ≤ 3·2^-53·(|n.x| + |n.y|)` for `(e1, e2) = exitPoint n (exitAxis n)`, with `|e_i| ≤ 1 + 2^-50`,
  and the effect of the multiplication by `scaleUV`.
-/
import S2Proofs.C06Face.ExitPoint

namespace S2Proofs.C06Face
open S2 S2.Exact S2.CellM S2.IndexBuild S2Proofs.F64Order S2Proofs.FloatErr S2Proofs.C06Clip

/-- the quotient `q = fl(fl(m − z)/w)` for `|m − z| ≤ |w|(1 + 2^-52)`: finite, `|q| ≤ 1 + 2^-50`, `|w·q − (m − z)| ≤ 3u|w|` -/
theorem quot_rel {m z w : F64} (hm : Fin m) (hz : Fin z) (hw : Fin w)
    (bm : |rv m| ≤ 2 ^ 10) (bz : |rv z| ≤ 2 ^ 10) (hw0 : rv w ≠ 0)
    (h : |rv m - rv z| ≤ |rv w| * (1 + epsX)) :
    Fin ((m - z) / w) ∧ |rv ((m - z) / w)| ≤ 1 + 1 / 2 ^ 50 ∧
    |rv w * rv ((m - z) / w) - (rv m - rv z)| ≤ 3 * uR * |rv w| := by
  have hb : |rv m - rv z| ≤ 2 ^ 30 := by
    have := abs_sub (rv m) (rv z); linarith
  obtain ⟨fD, _, rD⟩ := subR hm hz hb
  have hW : 0 < |rv w| := abs_pos.2 hw0
  have hu := uR_nonneg
  have huv : uR = 1 / 2 ^ 53 := rfl
  have hev : epsX = 1 / 2 ^ 52 := rfl
  have hD : |rv (m - z)| ≤ |rv w| * ((1 + epsX) * (1 + uR)) := by
    have h1 : |rv (m - z)| ≤ |rv m - rv z| * (1 + uR) := by
      have := abs_add_le (rv m - rv z) (rv (m - z) - (rv m - rv z))
      rw [add_sub_cancel] at this
      linarith
    have h2 : |rv m - rv z| * (1 + uR) ≤ |rv w| * (1 + epsX) * (1 + uR) :=
      mul_le_mul_of_nonneg_right h (by linarith)
    linarith
  have hc : (1 + epsX) * (1 + uR) ≤ 1 + 1 / 2 ^ 51 := by unfold epsX uR; norm_num
  have hDw : |rv (m - z)| ≤ |rv w| * (1 + 1 / 2 ^ 51) := le_trans hD (mul_le_mul_of_nonneg_left hc (le_of_lt hW))
  have hq : |rv (m - z) / rv w| ≤ 1 + 1 / 2 ^ 51 := by
    rw [abs_div, div_le_iff₀ hW]; linarith
  obtain ⟨fQ, sQ⟩ := divR fD hw hw0 (le_trans hq (by norm_num))
  have gQ := sQ.g2 (le_trans hq (by norm_num))
  have hQ : |rv ((m - z) / w)| ≤ 1 + 1 / 2 ^ 50 := by
    have := abs_add_le (rv (m - z) / rv w) (rv ((m - z) / w) - rv (m - z) / rv w)
    rw [add_sub_cancel] at this
    have e : (1 : ℝ) + 1 / 2 ^ 51 + 1 / 2 ^ 53 ≤ 1 + 1 / 2 ^ 50 := by norm_num
    linarith
  refine ⟨fQ, hQ, ?_⟩
  -- w·q − D
  have r1 := sQ.rel
  have e1 : rv w * rv ((m - z) / w) - rv (m - z) = rv w * (rv ((m - z) / w) - rv (m - z) / rv w) := by
    field_simp
  have h1 : |rv w * rv ((m - z) / w) - rv (m - z)| ≤ |rv w| * (uR * (1 + 1 / 2 ^ 51) + eR) := by
    rw [e1, abs_mul]
    apply mul_le_mul_of_nonneg_left _ (le_of_lt hW)
    have : uR * |rv (m - z) / rv w| ≤ uR * (1 + 1 / 2 ^ 51) := mul_le_mul_of_nonneg_left hq hu
    linarith
  have h2 : |rv (m - z) - (rv m - rv z)| ≤ uR * (|rv w| * (1 + epsX)) :=
    le_trans rD (mul_le_mul_of_nonneg_left h hu)
  have e2 : rv w * rv ((m - z) / w) - (rv m - rv z) =
      (rv w * rv ((m - z) / w) - rv (m - z)) + (rv (m - z) - (rv m - rv z)) := by ring
  rw [e2]
  have h3 := abs_add_le (rv w * rv ((m - z) / w) - rv (m - z)) (rv (m - z) - (rv m - rv z))
  have he : eR ≤ uR / 2 ^ 30 := by
    unfold eR uR
    rw [div_div, ← pow_add]
    apply one_div_le_one_div_of_le (by positivity)
    exact pow_le_pow_right₀ (by norm_num) (by norm_num)
  have hfin : |rv w| * (uR * (1 + 1 / 2 ^ 51) + eR) + uR * (|rv w| * (1 + epsX)) ≤ 3 * uR * |rv w| := by
    rw [huv, hev] at *
    nlinarith
  linarith

/-- multiplication by the scale: `|fl(s·x) − s·x| ≤ 2^-53` for `|x| ≤ 1 + 2^-50` -/
theorem scale_rel {s x : F64} (hs : ScaleOK s) (hx : Fin x) (bx : |rv x| ≤ 1 + 1 / 2 ^ 50) :
    Fin (s * x) ∧ |rv (s * x) - rv s * rv x| ≤ 1 / 2 ^ 53 ∧ |rv (s * x)| ≤ 1 + 1 / 2 ^ 44 := by
  have hs0 : 0 ≤ rv s := by have := hs.lo; linarith
  have hP : |rv s * rv x| ≤ (1 + 1 / 2 ^ 45) * (1 + 1 / 2 ^ 50) := by
    rw [abs_mul, abs_of_nonneg hs0]
    exact mul_le_mul hs.hi bx (abs_nonneg _) (by norm_num)
  have hP2 : (1 + 1 / 2 ^ 45 : ℝ) * (1 + 1 / 2 ^ 50) ≤ 2 := by norm_num
  obtain ⟨fP, sP⟩ := mulR hs.fin hx (le_trans hP (le_trans hP2 (by norm_num)))
  have gP := sP.g2 (le_trans hP hP2)
  refine ⟨fP, gP, ?_⟩
  have := abs_add_le (rv s * rv x) (rv (s * x) - rv s * rv x)
  rw [add_sub_cancel] at this
  have e : (1 + 1 / 2 ^ 45 : ℝ) * (1 + 1 / 2 ^ 50) + 1 / 2 ^ 53 ≤ 1 + 1 / 2 ^ 44 := by norm_num
  linarith

/-- what the glue needs of an exit point `(e1, e2)` of the normal `n` -/
structure ExitRel (n : V3) (e : R2) : Prop where
  f1 : Fin e.1
  f2 : Fin e.2
  b1 : |rv e.1| ≤ 1 + 1 / 2 ^ 50
  b2 : |rv e.2| ≤ 1 + 1 / 2 ^ 50
  rel : |rv n.x * rv e.1 + rv n.y * rv e.2 + rv n.z| ≤ 3 * uR * (|rv n.x| + |rv n.y|)

theorem unit_facts {u : F64} (hu : u = F64.one ∨ u = negOne) : Fin u ∧ |rv u| ≤ 1 + 1 / 2 ^ 50 ∧ (rv u = 1 ∨ rv u = -1) := by
  rcases hu with rfl | rfl
  · exact ⟨one_fin, by rw [rv_one]; norm_num, Or.inl rv_one⟩
  · exact ⟨negOne_fin, by rw [rv_negOne]; norm_num, Or.inr rv_negOne⟩

/-- axis U -/
theorem exitU_rel {n : V3} (hn : NOK n)
    (h : rv n.y ≠ 0 ∧ |(if 0 < rv n.y then -1 else 1) * rv n.x - rv n.z| ≤ |rv n.y| * (1 + epsX)) :
    ExitRel n (exitPoint n 0) := by
  obtain ⟨hy0, hb⟩ := h
  rw [exitPoint_zero]
  have hgt : F64.gt n.y fzero = true ↔ 0 < rv n.y := by
    have := gt_iff_rv hn.fin.2.1 fzero_fin
    rw [rv_fzero] at this; exact this
  have hX := abs_nonneg (rv n.x)
  have hu := uR_nonneg
  by_cases hy : 0 < rv n.y
  · have hg := hgt.2 hy
    simp only [if_pos hg]
    rw [neg_one_eq, negOne_mul_eq hn.fin.1]
    rw [if_pos hy] at hb
    rw [show (-1 : ℝ) * rv n.x - rv n.z = -rv n.x - rv n.z by ring] at hb
    obtain ⟨fq, bq, rq⟩ := quot_rel (neg_fin hn.fin.1) hn.fin.2.2 hn.fin.2.1 (by rw [rv_neg, abs_neg]; exact hn.bx) hn.bz hy0
      (by rw [rv_neg]; exact hb)
    obtain ⟨f1, b1, _⟩ := unit_facts (Or.inl rfl)
    refine ⟨f1, fq, b1, bq, ?_⟩
    show |rv n.x * rv F64.one + rv n.y * rv ((-n.x - n.z) / n.y) + rv n.z| ≤ _
    rw [rv_neg] at rq
    rw [rv_one]
    have e : rv n.x * 1 + rv n.y * rv ((-n.x - n.z) / n.y) + rv n.z =
        rv n.y * rv ((-n.x - n.z) / n.y) - (-rv n.x - rv n.z) := by ring
    rw [e]
    have : 3 * uR * |rv n.y| ≤ 3 * uR * (|rv n.x| + |rv n.y|) :=
      mul_le_mul_of_nonneg_left (by linarith [abs_nonneg (rv n.x)]) (by linarith)
    linarith
  · have hg : ¬ (F64.gt n.y fzero = true) := fun hc => hy (hgt.1 hc)
    simp only [if_neg hg]
    rw [neg_negOne_eq, one_mul_eq hn.fin.1]
    rw [if_neg hy, one_mul] at hb
    obtain ⟨fq, bq, rq⟩ := quot_rel hn.fin.1 hn.fin.2.2 hn.fin.2.1 hn.bx hn.bz hy0 hb
    obtain ⟨f1, b1, _⟩ := unit_facts (Or.inr rfl)
    refine ⟨f1, fq, b1, bq, ?_⟩
    show |rv n.x * rv negOne + rv n.y * rv ((n.x - n.z) / n.y) + rv n.z| ≤ _
    rw [rv_negOne]
    have e : rv n.x * -1 + rv n.y * rv ((n.x - n.z) / n.y) + rv n.z =
        rv n.y * rv ((n.x - n.z) / n.y) - (rv n.x - rv n.z) := by ring
    rw [e]
    have : 3 * uR * |rv n.y| ≤ 3 * uR * (|rv n.x| + |rv n.y|) :=
      mul_le_mul_of_nonneg_left (by linarith [abs_nonneg (rv n.x)]) (by linarith)
    linarith

/-- axis V -/
theorem exitV_rel {n : V3} (hn : NOK n)
    (h : rv n.x ≠ 0 ∧ |(if rv n.x < 0 then -1 else 1) * rv n.y - rv n.z| ≤ |rv n.x| * (1 + epsX)) :
    ExitRel n (exitPoint n 1) := by
  obtain ⟨hx0, hb⟩ := h
  rw [exitPoint_one]
  have hlt : F64.lt n.x fzero = true ↔ rv n.x < 0 := by
    have := lt_iff_rv hn.fin.1 fzero_fin
    rw [rv_fzero] at this; exact this
  have hu := uR_nonneg
  by_cases hx : rv n.x < 0
  · have hg := hlt.2 hx
    simp only [if_pos hg]
    rw [neg_one_eq, negOne_mul_eq hn.fin.2.1]
    rw [if_pos hx] at hb
    rw [show (-1 : ℝ) * rv n.y - rv n.z = -rv n.y - rv n.z by ring] at hb
    obtain ⟨fq, bq, rq⟩ := quot_rel (neg_fin hn.fin.2.1) hn.fin.2.2 hn.fin.1 (by rw [rv_neg, abs_neg]; exact hn.bY) hn.bz hx0
      (by rw [rv_neg]; exact hb)
    obtain ⟨f1, b1, _⟩ := unit_facts (Or.inl rfl)
    refine ⟨fq, f1, bq, b1, ?_⟩
    show |rv n.x * rv ((-n.y - n.z) / n.x) + rv n.y * rv F64.one + rv n.z| ≤ _
    rw [rv_neg] at rq
    rw [rv_one]
    have e : rv n.x * rv ((-n.y - n.z) / n.x) + rv n.y * 1 + rv n.z =
        rv n.x * rv ((-n.y - n.z) / n.x) - (-rv n.y - rv n.z) := by ring
    rw [e]
    have : 3 * uR * |rv n.x| ≤ 3 * uR * (|rv n.x| + |rv n.y|) :=
      mul_le_mul_of_nonneg_left (by linarith [abs_nonneg (rv n.y)]) (by linarith)
    linarith
  · have hg : ¬ (F64.lt n.x fzero = true) := fun hc => hx (hlt.1 hc)
    simp only [if_neg hg]
    rw [neg_negOne_eq, one_mul_eq hn.fin.2.1]
    rw [if_neg hx, one_mul] at hb
    obtain ⟨fq, bq, rq⟩ := quot_rel hn.fin.2.1 hn.fin.2.2 hn.fin.1 hn.bY hn.bz hx0 hb
    obtain ⟨f1, b1, _⟩ := unit_facts (Or.inr rfl)
    refine ⟨fq, f1, bq, b1, ?_⟩
    show |rv n.x * rv ((n.y - n.z) / n.x) + rv n.y * rv negOne + rv n.z| ≤ _
    rw [rv_negOne]
    have e : rv n.x * rv ((n.y - n.z) / n.x) + rv n.y * -1 + rv n.z =
        rv n.x * rv ((n.y - n.z) / n.x) - (rv n.y - rv n.z) := by ring
    rw [e]
    have : 3 * uR * |rv n.x| ≤ 3 * uR * (|rv n.x| + |rv n.y|) :=
      mul_le_mul_of_nonneg_left (by linarith [abs_nonneg (rv n.y)]) (by linarith)
    linarith

/-- **the exit point lies on the line of its normal** -/
theorem exitPoint_rel (n : V3) (hn : NOK n) (hi : intersectsFace n = true) :
    ExitRel n (exitPoint n (exitAxis n)) := by
  obtain ⟨hI1, hI2⟩ := intersectsFace_real hn hi
  have sx := signOf_rv hn.fin.1
  have sy := signOf_rv hn.fin.2.1
  have sz := signOf_rv hn.fin.2.2
  obtain ⟨fx, fy, fz, ex, ey, ez⟩ := nok_abs hn
  have hxy : F64.ge n.x.abs n.y.abs = true ↔ |rv n.y| ≤ |rv n.x| := by
    rw [ge_iff_rv fx fy, ex, ey]
  unfold exitAxis
  by_cases hopp : intersectsOppositeEdges n = true
  · obtain ⟨o1, o2⟩ := opposite_true hn hopp
    rw [if_pos hopp]
    by_cases hge : F64.ge n.x.abs n.y.abs = true
    · rw [if_pos hge]
      have hle := hxy.1 hge
      exact exitV_rel hn (exitV_real epsX_nonneg sx sy sz hn.nz hI2 (Or.inl ⟨hle, o1 hle⟩))
    · rw [if_neg hge]
      have hlt : |rv n.x| < |rv n.y| := not_le.1 (fun hc => hge (hxy.2 hc))
      exact exitU_rel hn (exitU_real epsX_nonneg sx sy sz hI1 (Or.inl ⟨hlt, o2 hlt⟩))
  · have hopp' : intersectsOppositeEdges n = false := by simpa using hopp
    have o := opposite_false hn hopp'
    rw [if_neg hopp]
    simp only
    rw [parity_eq]
    by_cases hp : (n.x.signBit ^^ n.y.signBit ^^ n.z.signBit) = true
    · rw [hp]
      simp only [Bool.not_true, Bool.false_eq_true, if_false]
      exact exitU_rel hn (exitU_real epsX_nonneg sx sy sz hI1 (Or.inr ⟨o, hp⟩))
    · have hp' : (n.x.signBit ^^ n.y.signBit ^^ n.z.signBit) = false := by simpa using hp
      rw [hp']
      simp only [Bool.not_false, if_true]
      exact exitV_rel hn (exitV_real epsX_nonneg sx sy sz hn.nz hI2 (Or.inr ⟨o, hp'⟩))

end S2Proofs.C06Face
