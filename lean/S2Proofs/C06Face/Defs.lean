/-
  S2Proofs.C06Face.Defs — shared definitions of work package `c06face` (face clipping of the index builder, C06).

  * `UnitIsh p`        a finite float vector with `| |p|² − 1 | ≤ 2^-16` (decidable; every `Point` the library produces
                       qualifies; identical to `S2Proofs.C02… Unitish`)
  * `VerticesUnit`       all edge endpoints of all shapes are `UnitIsh` (what `addShapeInternal` reads)
  * `scaleUV`          the float `1 + cellPadding` of `ClipToPaddedFace(…, cellPadding)`
  * `rawNormal`, `scaledNormal`   `normUVW` / `scaledN` of `ClipToPaddedFace` (before the re-normalisation)
  * `NOK n`            what the exit-point analysis needs of a scaled normal: finite, bounded, not the zero vector
-/
import S2Proofs.C06Clip.Interp
import S2Proofs.C06Clip.CellGeom

namespace S2Proofs.C06Face
open S2 S2.Exact S2.CellM S2.IndexBuild S2Proofs.F64Order S2Proofs.FloatErr S2Proofs.C06Clip

/-- a finite float vector whose exact squared norm is within `2^-16` of 1 -/
def UnitIsh (p : V3) : Prop :=
  Fin3 p ∧ |norm2I p - (scale : ℤ) ^ 2| * 2 ^ 16 ≤ (scale : ℤ) ^ 2

instance (p : V3) : Decidable (UnitIsh p) := by unfold UnitIsh; infer_instance

/-- every edge endpoint the builder reads is unit-ish -/
def VerticesUnit (shapes : Array Shape) : Prop :=
  ∀ id, id < shapes.size → ∀ e, e < shapes[id]!.edges.size →
    UnitIsh (shapes[id]!.edges[e]!).1 ∧ UnitIsh (shapes[id]!.edges[e]!).2

instance (shapes : Array Shape) : Decidable (VerticesUnit shapes) := by unfold VerticesUnit; infer_instance

/-- `scaleUV := 1 + padding` for `padding = cellPadding` -/
def scaleUV : F64 := F64.one + cellPadding

/-- `normUVW := faceXYZtoUVW(f, a.PointCross(b))` -/
def rawNormal (a b : V3) (f : Nat) : V3 := faceXYZtoUVW f (Crossing.pointCross a b)

/-- `scaledN := {scaleUV·normUVW.X, scaleUV·normUVW.Y, normUVW.Z}` -/
def scaledNormal (a b : V3) (f : Nat) : V3 :=
  ⟨scaleUV * (rawNormal a b f).x, scaleUV * (rawNormal a b f).y, (rawNormal a b f).z⟩

/-- a usable (scaled) normal: finite, bounded, not the zero vector -/
structure NOK (n : V3) : Prop where
  fin : Fin3 n
  bx : |rv n.x| ≤ 2 ^ 10
  bY : |rv n.y| ≤ 2 ^ 10
  bz : |rv n.z| ≤ 2 ^ 10
  nz : rv n.x ≠ 0 ∨ rv n.y ≠ 0 ∨ rv n.z ≠ 0

/-- a usable scale factor: a finite float in `[1, 1 + 2^-45]` -/
structure ScaleOK (s : F64) : Prop where
  fin : Fin s
  lo : 1 ≤ rv s
  hi : rv s ≤ 1 + 1 / 2 ^ 45

theorem scaleUV_bits : scaleUV = ⟨0x3ff0000000000011⟩ := by
  have h : scaleUV.bits = (0x3ff0000000000011 : UInt64) := by decide +kernel
  cases hc : scaleUV with
  | mk b => rw [hc] at h; simp only at h; rw [h]

theorem rv_of_toInt' {x : F64} {n : ℤ} (h : toInt x = n) : rv x = (n : ℝ) / 2 ^ 1074 := by
  unfold rv S2Proofs.FloatErr.val; rw [h]

/-- `scaleUV = 1 + 17·2^-52` -/
theorem scaleUV_val : rv scaleUV = 1 + 17 / 2 ^ 52 := by
  rw [scaleUV_bits]
  have : toInt (⟨0x3ff0000000000011⟩ : F64) = 4503599627370513 * 2 ^ 1022 := by decide +kernel
  rw [rv_of_toInt' this]
  push_cast
  rw [show (2 : ℝ) ^ 1074 = 2 ^ 52 * 2 ^ 1022 by rw [← pow_add]]
  have h : (2 : ℝ) ^ 1022 ≠ 0 := by positivity
  rw [mul_div_mul_right _ _ h]
  norm_num

theorem scaleUV_ok : ScaleOK scaleUV := by
  refine ⟨by rw [scaleUV_bits]; decide, ?_, ?_⟩
  · rw [scaleUV_val]; have : (0 : ℝ) ≤ 17 / 2 ^ 52 := by positivity
    linarith
  · rw [scaleUV_val]; norm_num

end S2Proofs.C06Face
