/-
  S2Proofs.C06Face.DegenSetup — the normal of a DEGENERATE edge (`a = b`): `PointCross(a, a) = a.Ortho()`, its accuracy
  (`|Ortho(a)·a| ≤ 2^-50`), invariance of dot products / norms under the face frames, and the re-normalised normal `nHat` of
  `ClipToPaddedFace` made explicit.
-/
import S2Proofs.C06Face.DegenNorm

namespace S2Proofs.C06Face
open S2 S2.Exact S2.CellM S2.IndexBuild S2Proofs.F64Order S2Proofs.FloatErr S2Proofs.C06Clip
open S2Proofs.FE3

/-- exact dot product of the values of two float vectors -/
noncomputable def dotRV (x y : V3) : ℝ := rv x.x * rv y.x + rv x.y * rv y.y + rv x.z * rv y.z

/-- coordinates of a unit-ish vector are at most `101/100` in magnitude -/
theorem UnitIsh.coord_le1 {p : V3} (h : UnitIsh p) : |rv p.x| ≤ 101 / 100 ∧ |rv p.y| ≤ 101 / 100 ∧ |rv p.z| ≤ 101 / 100 := by
  have hs := h.sq_le
  have qx := sq_nonneg (rv p.x)
  have qy := sq_nonneg (rv p.y)
  have qz := sq_nonneg (rv p.z)
  have m : (1 + 1 / 2 ^ 16 : ℝ) ≤ (101 / 100) ^ 2 := by norm_num
  have c : ∀ t : ℝ, t ^ 2 ≤ 1 + 1 / 2 ^ 16 → |t| ≤ 101 / 100 := by
    intro t ht
    have := abs_le_of_sq_le_sq' (le_trans ht m) (by norm_num)
    exact abs_le.2 ⟨this.1, this.2⟩
  exact ⟨c _ (by linarith), c _ (by linarith), c _ (by linarith)⟩

theorem form_aux {A B C : F64} {p : V3} {va vb vc : ℝ} (hA : rv A = va) (hB : rv B = vb) (hC : rv C = vc)
    (hperp : va * rv p.x + vb * rv p.y + vc * rv p.z = 0) (hlo : 1 / 8 ≤ va ^ 2 + vb ^ 2 + vc ^ 2)
    (hhi : va ^ 2 + vb ^ 2 + vc ^ 2 ≤ 2) :
    dotRV ⟨A, B, C⟩ p = 0 ∧ 1 / 8 ≤ n2R ⟨A, B, C⟩ ∧ n2R ⟨A, B, C⟩ ≤ 2 := by
  refine ⟨?_, ?_, ?_⟩
  · show rv A * rv p.x + rv B * rv p.y + rv C * rv p.z = 0
    rw [hA, hB, hC]; exact hperp
  · show 1 / 8 ≤ rv A ^ 2 + rv B ^ 2 + rv C ^ 2
    rw [hA, hB, hC]; exact hlo
  · show rv A ^ 2 + rv B ^ 2 + rv C ^ 2 ≤ 2
    rw [hA, hB, hC]; exact hhi

/-- `Ortho(p) = Normalize(C)` for a finite `C` that is EXACTLY perpendicular to `p` -/
theorem ortho_form (p : V3) (hp : UnitIsh p) :
    ∃ C : V3, Fin3 C ∧ p.ortho = V3.normalize C ∧ dotRV C p = 0 ∧ 1 / 8 ≤ n2R C ∧ n2R C ≤ 2 := by
  obtain ⟨hx, hy, hz⟩ := hp.fin
  have hsq := hp.sq_ge
  have hsq' := hp.sq_le
  have z0 : rv (F64.zero false) = 0 := rv_fzero
  have zf : Fin (F64.zero false) := fzero_fin
  have o1 : rv F64.one = 1 := rv_one
  have qx := sq_nonneg (rv p.x)
  have qy := sq_nonneg (rv p.y)
  have qz := sq_nonneg (rv p.z)
  have sqh : ∀ t : ℝ, 1 / 2 ≤ |t| → 1 / 4 ≤ t ^ 2 := by
    intro t ht
    have : (1 / 2 : ℝ) ^ 2 ≤ |t| ^ 2 := pow_le_pow_left₀ (by norm_num) ht 2
    rw [sq_abs] at this; norm_num at this; linarith
  have ns : ∀ t : ℝ, (-t) ^ 2 = t ^ 2 := fun t => by ring
  norm_num at hsq hsq'
  rcases largest_cases p hp.fin with ⟨hl, d1, d2⟩ | ⟨hl, d1, d2⟩ | ⟨hl, d1, d2⟩
  · have hX := sqh _ (half_le_of_dominant hp.sq_ge d1 d2)
    obtain ⟨f1, v1⟩ := basis_comp hy hz one_fin zf hy (Or.inr o1) (Or.inl z0) (by rw [o1, z0]; ring)
    obtain ⟨f2, v2⟩ := basis_comp hz hx zf one_fin (neg_fin hx) (Or.inl z0) (Or.inr o1) (by rw [o1, z0, rv_neg]; ring)
    obtain ⟨f3, v3⟩ := basis_comp hx hy zf zf zf (Or.inl z0) (Or.inl z0) (by rw [z0]; ring)
    rw [rv_neg] at v2
    rw [z0] at v3
    have e1 : rv p.y * rv p.x + -rv p.x * rv p.y + 0 * rv p.z = 0 := by ring
    have e2 : 1 / 8 ≤ rv p.y ^ 2 + (-rv p.x) ^ 2 + (0 : ℝ) ^ 2 := by rw [ns]; linarith
    have e3 : rv p.y ^ 2 + (-rv p.x) ^ 2 + (0 : ℝ) ^ 2 ≤ 2 := by rw [ns]; linarith
    obtain ⟨g1, g2, g3⟩ := form_aux (p := p) v1 v2 v3 e1 e2 e3
    exact ⟨⟨p.y * F64.one - p.z * F64.zero false, p.z * F64.zero false - p.x * F64.one,
      p.x * F64.zero false - p.y * F64.zero false⟩, ⟨f1, f2, f3⟩, ortho_eq0 hl, g1, g2, g3⟩
  · have hY := sqh _ (half_le_of_dominant (x := rv p.y) (y := rv p.x) (z := rv p.z) (by linarith [hp.sq_ge]) d1 d2)
    obtain ⟨f1, v1⟩ := basis_comp hy hz zf zf zf (Or.inl z0) (Or.inl z0) (by rw [z0]; ring)
    obtain ⟨f2, v2⟩ := basis_comp hz hx one_fin zf hz (Or.inr o1) (Or.inl z0) (by rw [o1, z0]; ring)
    obtain ⟨f3, v3⟩ := basis_comp hx hy zf one_fin (neg_fin hy) (Or.inl z0) (Or.inr o1) (by rw [o1, z0, rv_neg]; ring)
    rw [rv_neg] at v3
    rw [z0] at v1
    have e1 : 0 * rv p.x + rv p.z * rv p.y + -rv p.y * rv p.z = 0 := by ring
    have e2 : 1 / 8 ≤ (0 : ℝ) ^ 2 + rv p.z ^ 2 + (-rv p.y) ^ 2 := by rw [ns]; linarith
    have e3 : (0 : ℝ) ^ 2 + rv p.z ^ 2 + (-rv p.y) ^ 2 ≤ 2 := by rw [ns]; linarith
    obtain ⟨g1, g2, g3⟩ := form_aux (p := p) v1 v2 v3 e1 e2 e3
    exact ⟨⟨p.y * F64.zero false - p.z * F64.zero false, p.z * F64.one - p.x * F64.zero false,
      p.x * F64.zero false - p.y * F64.one⟩, ⟨f1, f2, f3⟩, ortho_eq1 hl, g1, g2, g3⟩
  · have hZ := sqh _ (half_le_of_dominant (x := rv p.z) (y := rv p.x) (z := rv p.y) (by linarith [hp.sq_ge]) d1 d2)
    obtain ⟨f1, v1⟩ := basis_comp hy hz zf one_fin (neg_fin hz) (Or.inl z0) (Or.inr o1) (by rw [o1, z0, rv_neg]; ring)
    obtain ⟨f2, v2⟩ := basis_comp hz hx zf zf zf (Or.inl z0) (Or.inl z0) (by rw [z0]; ring)
    obtain ⟨f3, v3⟩ := basis_comp hx hy one_fin zf hx (Or.inr o1) (Or.inl z0) (by rw [o1, z0]; ring)
    rw [rv_neg] at v1
    rw [z0] at v2
    have e1 : -rv p.z * rv p.x + 0 * rv p.y + rv p.x * rv p.z = 0 := by ring
    have e2 : 1 / 8 ≤ (-rv p.z) ^ 2 + (0 : ℝ) ^ 2 + rv p.x ^ 2 := by rw [ns]; linarith
    have e3 : (-rv p.z) ^ 2 + (0 : ℝ) ^ 2 + rv p.x ^ 2 ≤ 2 := by rw [ns]; linarith
    obtain ⟨g1, g2, g3⟩ := form_aux (p := p) v1 v2 v3 e1 e2 e3
    exact ⟨⟨p.y * F64.zero false - p.z * F64.one, p.z * F64.zero false - p.x * F64.zero false,
      p.x * F64.one - p.y * F64.zero false⟩, ⟨f1, f2, f3⟩, ortho_eq2 hl, g1, g2, g3⟩

/-- `Ortho(p)` is perpendicular to `p` up to `2^-50` -/
theorem ortho_perp (p : V3) (hp : UnitIsh p) : |dotRV p.ortho p| ≤ 1 / 2 ^ 50 := by
  obtain ⟨C, fC, hC, hperp, hlo, hhi⟩ := ortho_form p hp
  obtain ⟨i, _, _, _, _, _, _, _, hd⟩ := normalize_dot C fC hlo hhi
  have h := hd (rv p.x) (rv p.y) (rv p.z)
  obtain ⟨bx, bY, bz⟩ := hp.coord_le1
  unfold dotRV at hperp ⊢
  rw [hC]
  rw [hperp, mul_zero, sub_zero] at h
  have : (1 : ℝ) / 2 ^ 52 * (|rv p.x| + |rv p.y| + |rv p.z|) ≤ 1 / 2 ^ 52 * (303 / 100) :=
    mul_le_mul_of_nonneg_left (by linarith) (by positivity)
  have h2 : (1 : ℝ) / 2 ^ 52 * (303 / 100) ≤ 1 / 2 ^ 50 := by norm_num
  linarith

/-! ### the face frames are isometries -/

theorem dotRV_uvw (f : Nat) (x y : V3) : dotRV (faceXYZtoUVW f x) (faceXYZtoUVW f y) = dotRV x y := by
  unfold dotRV faceXYZtoUVW
  split <;> simp only [rv_neg] <;> ring

theorem n2R_uvw (f : Nat) (x : V3) : n2R (faceXYZtoUVW f x) = n2R x := by
  unfold n2R faceXYZtoUVW
  split <;> simp only [rv_neg] <;> ring

theorem fin3_uvw (f : Nat) {x : V3} (hx : Fin3 x) : Fin3 (faceXYZtoUVW f x) := by
  obtain ⟨h1, h2, h3⟩ := hx
  unfold faceXYZtoUVW
  split
  · exact ⟨h2, h3, h1⟩
  · exact ⟨neg_fin h1, h3, h2⟩
  · exact ⟨neg_fin h1, neg_fin h2, h3⟩
  · exact ⟨neg_fin h3, neg_fin h2, neg_fin h1⟩
  · exact ⟨neg_fin h3, h1, neg_fin h2⟩
  · exact ⟨h2, h1, neg_fin h3⟩

/-- coordinates of a frame image are bounded by the coordinate bound of the original -/
theorem coord_uvw (f : Nat) {x : V3} {M : ℝ} (h : |rv x.x| ≤ M ∧ |rv x.y| ≤ M ∧ |rv x.z| ≤ M) :
    |rv (faceXYZtoUVW f x).x| ≤ M ∧ |rv (faceXYZtoUVW f x).y| ≤ M ∧ |rv (faceXYZtoUVW f x).z| ≤ M := by
  obtain ⟨h1, h2, h3⟩ := h
  have n : ∀ t : F64, |rv t| ≤ M → |rv (-t)| ≤ M := fun t ht => by rw [rv_neg, abs_neg]; exact ht
  unfold faceXYZtoUVW
  split
  · exact ⟨h2, h3, h1⟩
  · exact ⟨n _ h1, h3, h2⟩
  · exact ⟨n _ h1, n _ h2, h3⟩
  · exact ⟨n _ h3, n _ h2, n _ h1⟩
  · exact ⟨n _ h3, h1, n _ h2⟩
  · exact ⟨h2, h1, n _ h3⟩

end S2Proofs.C06Face
