/-
  S2Proofs.C06Face.Basic — the easy sources of uv endpoints of face edges are `CoordOK`:

  * `coordOK_of_abs_le`     a float `x` that passed a test `|x| ≤ m` with `m ≤ 1` finite (the `maxUV` fast path of
                            `addFaceEdge`, and — through `math.Max` — the `maxSafeUVCoord` early exit of `clipDestination`)
  * `coordOK_of_fmax_le`    `math.Max(|u|, |v|) ≤ m` gives both
  * `quot_coordOK`          `fl(x / w)` with `|x| ≤ |w|`, `w ≠ 0` (the same-face path `validFaceXYZToUV`)
-/
import S2Proofs.C06Face.Defs
import S2Proofs.F64Carrier

namespace S2Proofs.C06Face
open S2 S2.Exact S2.CellM S2.IndexBuild S2Proofs.F64Order S2Proofs.FloatErr S2Proofs.C06Clip

theorem fin_abs_iff (x : F64) : Fin (F64.abs x) ↔ Fin x := by
  rw [S2Proofs.F64Carrier.abs_eq]
  split
  · exact S2Proofs.F64Sym.isFinite_neg x
  · exact Iff.rfl

theorem fzero_fin : Fin fzero := by decide
theorem rv_fzero : rv fzero = 0 := by
  have : toInt fzero = 0 := by decide
  rw [rv_of_toInt' this]; simp

theorem one_fin : Fin F64.one := by decide
theorem rv_one : rv F64.one = 1 := S2Proofs.FE2.val_one'

/-- `0 ≤ |x|` as a float comparison, for every non-NaN `x` -/
theorem zero_le_abs {x : F64} (hx : S2Proofs.F64Carrier.NN x) : F64.le fzero (F64.abs x) = true := by
  show F64.le (F64.zero false) (F64.abs x) = true
  rw [S2Proofs.F64Carrier.le_iff_key (S2Proofs.F64Carrier.zero_nn false) (S2Proofs.F64Carrier.nn_abs hx),
    S2Proofs.F64Carrier.key_abs hx]
  have : S2Proofs.F64Carrier.key (F64.zero false) = 0 := by decide
  rw [this]; exact abs_nonneg _

/-- a float that passed `|x| ≤ m` (float comparison) for a finite `m` is finite and `|x| ≤ m` as reals -/
theorem fin_of_abs_le {x m : F64} (hm : Fin m) (h : F64.le (F64.abs x) m = true) : Fin x ∧ |rv x| ≤ rv m := by
  have hnn : S2Proofs.F64Carrier.NN (F64.abs x) := S2Proofs.F64Carrier.nn_of_le_left h
  have hnx : S2Proofs.F64Carrier.NN x := by
    unfold S2Proofs.F64Carrier.NN at hnn ⊢; rwa [S2Proofs.F64Carrier.isNaN_abs] at hnn
  have hfa : Fin (F64.abs x) := S2Proofs.F64Carrier.fin_of_between fzero_fin hm (zero_le_abs hnx) h
  have hf : Fin x := (fin_abs_iff x).1 hfa
  refine ⟨hf, ?_⟩
  rw [← rv_abs]
  exact (le_iff_rv hfa hm).1 h

theorem coordOK_of_abs_le {x m : F64} (hm : Fin m) (hm1 : rv m ≤ 1) (h : F64.le (F64.abs x) m = true) :
    CoordOK x := by
  obtain ⟨hf, hb⟩ := fin_of_abs_le hm h
  refine ⟨hf, ?_⟩
  have : (0 : ℝ) ≤ 1 / 2 ^ 40 := by positivity
  linarith

/-- `math.Max(p, q) ≤ m` (float) gives `p ≤ m` and `q ≤ m` (float), for `m` finite -/
theorem le_of_fmax_le {p q m : F64} (hm : Fin m) (h : F64.le (F64.fmax p q) m = true) :
    F64.le p m = true ∧ F64.le q m = true := by
  have hmn := S2Proofs.F64Carrier.nn_of_fin hm
  have hnn := S2Proofs.F64Carrier.nn_of_le_left h
  unfold F64.fmax at h hnn
  by_cases c1 : (p.isInf && !p.signBit) = true
  · -- p = +inf ≤ m finite: impossible
    rw [if_pos c1] at h
    simp only [Bool.and_eq_true, Bool.not_eq_true'] at c1
    exfalso
    have hpn : S2Proofs.F64Carrier.NN p := S2Proofs.F64Carrier.nn_of_le_left h
    have := (S2Proofs.F64Carrier.le_iff_key hpn hmn).1 h
    have hk : S2Proofs.F64Carrier.key p = S2Proofs.F64Carrier.BIG := by
      unfold S2Proofs.F64Carrier.key; simp [c1.1, c1.2]
    have := (S2Proofs.F64Carrier.key_bounds_fin hm).2
    omega
  · rw [if_neg c1] at h hnn
    by_cases c2 : (q.isInf && !q.signBit) = true
    · rw [if_pos c2] at h
      simp only [Bool.and_eq_true, Bool.not_eq_true'] at c2
      exfalso
      have hpn : S2Proofs.F64Carrier.NN q := S2Proofs.F64Carrier.nn_of_le_left h
      have := (S2Proofs.F64Carrier.le_iff_key hpn hmn).1 h
      have hk : S2Proofs.F64Carrier.key q = S2Proofs.F64Carrier.BIG := by
        unfold S2Proofs.F64Carrier.key; simp [c2.1, c2.2]
      have := (S2Proofs.F64Carrier.key_bounds_fin hm).2
      omega
    · rw [if_neg c2] at h hnn
      by_cases c3 : (p.isNaN || q.isNaN) = true
      · rw [if_pos c3] at hnn
        exact absurd hnn (by decide)
      · rw [if_neg c3] at h
        simp only [Bool.or_eq_true, not_or, Bool.not_eq_true] at c3
        have hp : S2Proofs.F64Carrier.NN p := c3.1
        have hq : S2Proofs.F64Carrier.NN q := c3.2
        rw [S2Proofs.F64Carrier.le_iff_key hp hmn, S2Proofs.F64Carrier.le_iff_key hq hmn]
        by_cases c4 : (p.isZero && q.isZero) = true
        · rw [if_pos c4] at h
          simp only [Bool.and_eq_true] at c4
          have fin_of_zero : ∀ z : F64, z.isZero = true → Fin z := by
            intro z hz
            unfold F64.isZero at hz
            unfold F64Order.Fin
            simp only [Bool.and_eq_true, beq_iff_eq] at hz
            rw [hz.1]; decide
          have kp : S2Proofs.F64Carrier.key p = 0 := by
            rw [S2Proofs.F64Carrier.key_fin (fin_of_zero p c4.1)]
            exact S2Proofs.F64Round.toInt_isZero c4.1
          have kq : S2Proofs.F64Carrier.key q = 0 := by
            rw [S2Proofs.F64Carrier.key_fin (fin_of_zero q c4.2)]
            exact S2Proofs.F64Round.toInt_isZero c4.2
          split at h
          · have := (S2Proofs.F64Carrier.le_iff_key hq hmn).1 h
            omega
          · have := (S2Proofs.F64Carrier.le_iff_key hp hmn).1 h
            omega
        · rw [if_neg c4] at h
          by_cases c5 : F64.gt p q = true
          · rw [if_pos c5] at h
            have h1 := (S2Proofs.F64Carrier.le_iff_key hp hmn).1 h
            unfold F64.gt at c5
            have h2 := (S2Proofs.F64Carrier.lt_iff_key hq hp).1 c5
            omega
          · rw [if_neg c5] at h
            have h1 := (S2Proofs.F64Carrier.le_iff_key hq hmn).1 h
            unfold F64.gt at c5
            have h2 : ¬ (S2Proofs.F64Carrier.key q < S2Proofs.F64Carrier.key p) := fun hc =>
              c5 ((S2Proofs.F64Carrier.lt_iff_key hq hp).2 hc)
            omega

theorem coordOK_of_fmax_le {u v m : F64} (hm : Fin m) (hm1 : rv m ≤ 1)
    (h : F64.le (F64.fmax (F64.abs u) (F64.abs v)) m = true) : CoordOK u ∧ CoordOK v := by
  obtain ⟨h1, h2⟩ := le_of_fmax_le hm h
  exact ⟨coordOK_of_abs_le hm hm1 h1, coordOK_of_abs_le hm hm1 h2⟩

/-- a correctly rounded quotient of magnitude at most 1 -/
theorem quot_coordOK {x w : F64} (hx : Fin x) (hw : Fin w) (hw0 : rv w ≠ 0) (h : |rv x| ≤ |rv w|) :
    CoordOK (x / w) ∧ |rv (x / w) - rv x / rv w| ≤ 1 / 2 ^ 54 := by
  have hq : |rv x / rv w| ≤ 1 := by
    rw [abs_div, div_le_one (abs_pos.2 hw0)]; exact h
  obtain ⟨hf, hs⟩ := divR hx hw hw0 (le_trans hq (by norm_num))
  have hg := hs.g1 hq
  refine ⟨⟨hf, ?_⟩, hg⟩
  have h1 : |rv (x / w)| ≤ |rv x / rv w| + |rv (x / w) - rv x / rv w| := by
    have := abs_add_le (rv x / rv w) (rv (x / w) - rv x / rv w)
    rwa [add_sub_cancel] at this
  have : (1 : ℝ) / 2 ^ 54 ≤ 1 / 2 ^ 40 := by norm_num
  linarith

/-- the same for a negated numerator (`-r.x / r.y` in `validFaceXYZToUV`) -/
theorem neg_fin {x : F64} (hx : Fin x) : Fin (-x) := (S2Proofs.F64Sym.isFinite_neg x).2 hx
theorem rv_neg (x : F64) : rv (-x) = - rv x := S2Proofs.FloatErr.val_neg x

end S2Proofs.C06Face
