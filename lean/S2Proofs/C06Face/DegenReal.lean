/-
  S2Proofs.C06Face.DegenReal — real geometry behind the re-projection branch of `clipDestination` for DEGENERATE edges (A = B).

  `n` is the (nearly unit) normal of the clipped great circle, `A` the (nearly unit) vertex with `A.w > 0`, `Q = (q1, q2, 1)` an exit
  point on the boundary of the padded square (`|q1|, |q2| ≤ s'`), all three nearly perpendicular to `n` (`|n·X| ≤ κ`).
  * `G1`: if the tangent test is (nearly) zero, `|det(n, A, Q)| ≤ ε`, then `A ∥ Q`, hence `A/A.w` is within the square `R`.
  * `G2`: if `A` is (nearly) between the two exit points, `det(n, P', A) ≥ −ε` and `det(n, A, P) ≥ −ε`, the same conclusion.
-/
import Mathlib.Tactic.Ring
import Mathlib.Tactic.Linarith
import Mathlib.Tactic.Positivity
import Mathlib.Tactic.NormNum
import Mathlib.Data.Real.Basic

namespace S2Proofs.C06Face.DR

/-- `det(x, y, z)` -/
def det3 (x1 x2 x3 y1 y2 y3 z1 z2 z3 : ℝ) : ℝ :=
  x1 * (y2 * z3 - y3 * z2) - x2 * (y1 * z3 - y3 * z1) + x3 * (y1 * z2 - y2 * z1)

theorem sq_le_sq_of_abs {x c : ℝ} (h : |x| ≤ c) : x ^ 2 ≤ c ^ 2 := by
  rw [← sq_abs]; exact pow_le_pow_left₀ (abs_nonneg _) h 2

theorem tri (x y d e : ℝ) : (x * d - y * e) ^ 2 ≤ 2 * x ^ 2 * d ^ 2 + 2 * y ^ 2 * e ^ 2 := by
  nlinarith [sq_nonneg (x * d + y * e)]

theorem mul_sq_le {x c d k : ℝ} (hx : x ^ 2 ≤ c) (hd : d ^ 2 ≤ k) (hc : 0 ≤ c) : x ^ 2 * d ^ 2 ≤ c * k :=
  mul_le_mul hx hd (sq_nonneg d) hc

/-- `|Q·dA − A·dQ|² ≤ 22κ²` -/
theorem core1 {dA dQ κ q1 q2 a1 a2 a3 : ℝ} (hA : a1 ^ 2 + a2 ^ 2 + a3 ^ 2 ≤ 2) (hq1 : q1 ^ 2 ≤ 4) (hq2 : q2 ^ 2 ≤ 4)
    (hdA : dA ^ 2 ≤ κ ^ 2) (hdQ : dQ ^ 2 ≤ κ ^ 2) :
    (q1 * dA - a1 * dQ) ^ 2 + (q2 * dA - a2 * dQ) ^ 2 + (1 * dA - a3 * dQ) ^ 2 ≤ 22 * κ ^ 2 := by
  have t1 := tri q1 a1 dA dQ
  have t2 := tri q2 a2 dA dQ
  have t3 := tri 1 a3 dA dQ
  have s1 := mul_sq_le hq1 hdA (by norm_num)
  have s2 := mul_sq_le hq2 hdA (by norm_num)
  have e : a1 ^ 2 * dQ ^ 2 + a2 ^ 2 * dQ ^ 2 + a3 ^ 2 * dQ ^ 2 = (a1 ^ 2 + a2 ^ 2 + a3 ^ 2) * dQ ^ 2 := by ring
  have s4 : (a1 ^ 2 + a2 ^ 2 + a3 ^ 2) * dQ ^ 2 ≤ 2 * κ ^ 2 :=
    mul_le_mul hA hdQ (sq_nonneg dQ) (by norm_num)
  nlinarith

/-- Lagrange: `|W|²|n|² = (W·n)² + |W×n|²` and `(A×Q)×n = Q(A·n) − A(Q·n)`, combined for `W = A × Q`, `Q = (q1,q2,1)`:
    `A × Q` is small when `det(n,A,Q)`, `n·A`, `n·Q` are small -/
theorem cross_small {n1 n2 n3 a1 a2 a3 q1 q2 ε κ : ℝ}
    (hn : 3 / 4 ≤ n1 ^ 2 + n2 ^ 2 + n3 ^ 2)
    (hA : a1 ^ 2 + a2 ^ 2 + a3 ^ 2 ≤ 2) (hq1 : |q1| ≤ 2) (hq2 : |q2| ≤ 2)
    (hd : |det3 n1 n2 n3 a1 a2 a3 q1 q2 1| ≤ ε) (hnA : |n1 * a1 + n2 * a2 + n3 * a3| ≤ κ)
    (hnQ : |n1 * q1 + n2 * q2 + n3| ≤ κ) :
    (a2 - a3 * q2) ^ 2 + (a3 * q1 - a1) ^ 2 + (a1 * q2 - a2 * q1) ^ 2 ≤ 4 / 3 * (ε ^ 2 + 22 * κ ^ 2) := by
  have lag : ((a2 - a3 * q2) ^ 2 + (a3 * q1 - a1) ^ 2 + (a1 * q2 - a2 * q1) ^ 2) * (n1 ^ 2 + n2 ^ 2 + n3 ^ 2) =
      (det3 n1 n2 n3 a1 a2 a3 q1 q2 1) ^ 2 +
      ((q1 * (n1 * a1 + n2 * a2 + n3 * a3) - a1 * (n1 * q1 + n2 * q2 + n3)) ^ 2 +
       (q2 * (n1 * a1 + n2 * a2 + n3 * a3) - a2 * (n1 * q1 + n2 * q2 + n3)) ^ 2 +
       (1 * (n1 * a1 + n2 * a2 + n3 * a3) - a3 * (n1 * q1 + n2 * q2 + n3)) ^ 2) := by
    unfold det3; ring
  have hd2 := sq_le_sq_of_abs hd
  have h1 : q1 ^ 2 ≤ 4 := by have := sq_le_sq_of_abs hq1; norm_num at this; exact this
  have h2 : q2 ^ 2 ≤ 4 := by have := sq_le_sq_of_abs hq2; norm_num at this; exact this
  have c := core1 hA h1 h2 (sq_le_sq_of_abs hnA) (sq_le_sq_of_abs hnQ)
  have hW0 : 0 ≤ (a2 - a3 * q2) ^ 2 + (a3 * q1 - a1) ^ 2 + (a1 * q2 - a2 * q1) ^ 2 := by positivity
  generalize (a2 - a3 * q2) ^ 2 + (a3 * q1 - a1) ^ 2 + (a1 * q2 - a2 * q1) ^ 2 = W at *
  generalize n1 ^ 2 + n2 ^ 2 + n3 ^ 2 = N at *
  have : W * N ≤ ε ^ 2 + 22 * κ ^ 2 := by rw [lag]; linarith
  nlinarith

/-! ### the constants -/

/-- bound on `|n·X|` (coplanarity) -/
noncomputable def kap : ℝ := 1 / 2 ^ 48
/-- bound on the error of a tangent test -/
noncomputable def eps1 : ℝ := 1 / 2 ^ 45
/-- half-width of the square that contains the exit points -/
noncomputable def sq' : ℝ := 1 + 1 / 2 ^ 44
/-- half-width of the square that will contain the re-projected vertex -/
noncomputable def bigR : ℝ := 1 + 1 / 2 ^ 41
/-- bound on `|A × Q|` -/
noncomputable def omg : ℝ := 1 / 2 ^ 43

theorem omg_sq : 4 / 3 * (eps1 ^ 2 + 22 * kap ^ 2) ≤ omg ^ 2 := by unfold eps1 kap omg; norm_num

/-- from `|x| ≤ ω` as a square -/
theorem abs_le_of_sq_le {x w : ℝ} (hw : 0 ≤ w) (h : x ^ 2 ≤ w ^ 2) : |x| ≤ w :=
  abs_le_of_sq_le_sq' h hw |> fun ⟨a, b⟩ => abs_le.2 ⟨a, b⟩

/-- **G1**: a (nearly) vanishing tangent test puts `A` on the ray of `Q` -/
theorem G1 {n1 n2 n3 a1 a2 a3 q1 q2 : ℝ}
    (hn : 3 / 4 ≤ n1 ^ 2 + n2 ^ 2 + n3 ^ 2)
    (hAlo : 3 / 4 ≤ a1 ^ 2 + a2 ^ 2 + a3 ^ 2) (hA : a1 ^ 2 + a2 ^ 2 + a3 ^ 2 ≤ 2) (ha3 : 0 < a3)
    (hq1 : |q1| ≤ sq') (hq2 : |q2| ≤ sq')
    (hd : |det3 n1 n2 n3 a1 a2 a3 q1 q2 1| ≤ eps1) (hnA : |n1 * a1 + n2 * a2 + n3 * a3| ≤ kap)
    (hnQ : |n1 * q1 + n2 * q2 + n3| ≤ kap) :
    |a1| ≤ bigR * a3 ∧ |a2| ≤ bigR * a3 ∧ 1 / 3 ≤ a3 := by
  have hs2 : sq' ≤ 2 := by unfold sq'; norm_num
  have hW := cross_small hn hA (le_trans hq1 hs2) (le_trans hq2 hs2) hd hnA hnQ
  have hW2 := le_trans hW omg_sq
  have hw0 : (0 : ℝ) ≤ omg := by unfold omg; positivity
  have q0 := sq_nonneg (a2 - a3 * q2)
  have q1' := sq_nonneg (a3 * q1 - a1)
  have q2' := sq_nonneg (a1 * q2 - a2 * q1)
  have e2 : |a2 - a3 * q2| ≤ omg := abs_le_of_sq_le hw0 (by linarith)
  have e1 : |a3 * q1 - a1| ≤ omg := abs_le_of_sq_le hw0 (by linarith)
  -- |a_i| ≤ a3·s' + ω
  have b1 : |a1| ≤ a3 * sq' + omg := by
    have h1 : |a1| ≤ |a3 * q1| + |a3 * q1 - a1| := by
      have := abs_sub_abs_le_abs_sub a1 (a3 * q1)
      rw [abs_sub_comm a1 (a3 * q1)] at this
      linarith
    have h2 : |a3 * q1| ≤ a3 * sq' := by
      rw [abs_mul, abs_of_pos ha3]; exact mul_le_mul_of_nonneg_left hq1 (le_of_lt ha3)
    linarith
  have b2 : |a2| ≤ a3 * sq' + omg := by
    have h1 : |a2| ≤ |a3 * q2| + |a2 - a3 * q2| := by
      have := abs_sub_abs_le_abs_sub a2 (a3 * q2)
      linarith
    have h2 : |a3 * q2| ≤ a3 * sq' := by
      rw [abs_mul, abs_of_pos ha3]; exact mul_le_mul_of_nonneg_left hq2 (le_of_lt ha3)
    linarith
  -- a3 ≥ 1/3
  have h3 : 1 / 3 ≤ a3 := by
    by_contra hc
    have hc' : a3 < 1 / 3 := not_le.1 hc
    have hb : a3 * sq' + omg ≤ 35 / 100 := by
      unfold sq' omg
      have : a3 * (1 + 1 / 2 ^ 44) ≤ 1 / 3 * (1 + 1 / 2 ^ 44) := mul_le_mul_of_nonneg_right (le_of_lt hc') (by positivity)
      norm_num at this ⊢
      linarith
    have s1 : a1 ^ 2 ≤ (35 / 100) ^ 2 := by
      rw [← sq_abs]; exact pow_le_pow_left₀ (abs_nonneg _) (le_trans b1 hb) 2
    have s2 : a2 ^ 2 ≤ (35 / 100) ^ 2 := by
      rw [← sq_abs]; exact pow_le_pow_left₀ (abs_nonneg _) (le_trans b2 hb) 2
    have s3 : a3 ^ 2 ≤ (1 / 3) ^ 2 := pow_le_pow_left₀ (le_of_lt ha3) (le_of_lt hc') 2
    norm_num at s1 s2 s3
    linarith
  have hfin : a3 * sq' + omg ≤ bigR * a3 := by
    unfold sq' omg bigR
    nlinarith
  exact ⟨le_trans b1 hfin, le_trans b2 hfin, h3⟩

/-! ### G2: the vertex between the two exit points -/

/-- a product `x·c` with `|x| ≤ m`, `0 ≤ c` -/
theorem mul_bd {x c m : ℝ} (hx : |x| ≤ m) (hc : 0 ≤ c) : -(m * c) ≤ x * c ∧ x * c ≤ m * c := by
  have h := abs_le.1 hx
  constructor <;> nlinarith

/-- a product `x·y` with `|x| ≤ m`, `|y| ≤ C` -/
theorem mul_bd2 {x y m C : ℝ} (hx : |x| ≤ m) (hy : |y| ≤ C) : -(m * C) ≤ x * y ∧ x * y ≤ m * C := by
  have h1 : |x * y| ≤ m * C := by
    rw [abs_mul]; exact mul_le_mul hx hy (abs_nonneg _) (le_trans (abs_nonneg _) hx)
  have := abs_le.1 h1
  exact ⟨this.1, this.2⟩

theorem kap_v : kap = 1 / 2 ^ 48 := rfl
theorem eps1_v : eps1 = 1 / 2 ^ 45 := rfl
theorem sq'_v : sq' = 1 + 1 / 2 ^ 44 := rfl
theorem bigR_v : bigR = 1 + 1 / 2 ^ 41 := rfl

/-- S1: `|c3|` is small -/
theorem c3_small {c1 c2 c3 D N nA nP nR : ℝ} (hIn : N * c3 = nA * D - nR * c1 - nP * c2) (hN : 3 / 4 ≤ N)
    (hnA : |nA| ≤ kap) (hnP : |nP| ≤ kap) (hnR : |nR| ≤ kap) (c1p : 0 ≤ c1) (c2p : 0 ≤ c2) :
    3 / 4 * |c3| ≤ kap * (c1 + c2 + |D|) := by
  have t2 := mul_bd hnR c1p
  have t3 := mul_bd hnP c2p
  have tD : |nA * D| ≤ kap * |D| := by rw [abs_mul]; exact mul_le_mul_of_nonneg_right hnA (abs_nonneg _)
  have tD' := abs_le.1 tD
  have h1 : |N * c3| ≤ kap * |D| + kap * c1 + kap * c2 := by
    rw [hIn, abs_le]; constructor <;> linarith
  have hN0 : 0 ≤ N := by linarith
  rw [abs_mul, abs_of_nonneg hN0] at h1
  have h2 : 3 / 4 * |c3| ≤ N * |c3| := mul_le_mul_of_nonneg_right hN (abs_nonneg _)
  linarith

/-- S2: `D > 0` -/
theorem D_pos {c1 c2 c3 D a3 n3 C3 : ℝ} (hI3 : a3 * D = c1 + c2 + n3 * c3) (ha3 : 0 < a3) (hn3 : |n3| ≤ 21 / 20)
    (hC3 : |c3| ≤ C3) (hC3b : 3 / 4 * C3 ≤ kap * (c1 + c2 + |D|)) (hc1 : eps1 < c1) (hc2 : eps1 < c2) (hD : |D| ≤ 8) :
    0 < D := by
  by_contra hc
  have hD0 : D ≤ 0 := not_lt.1 hc
  have h1 : a3 * D ≤ 0 := mul_nonpos_of_nonneg_of_nonpos (le_of_lt ha3) hD0
  have n3c := mul_bd2 hn3 hC3
  rw [kap_v] at hC3b
  rw [eps1_v] at hc1 hc2
  linarith [n3c.1]

/-- S3–S5 -/
theorem core2b {c1 c2 c3 D a1 a2 a3 n1 n2 n3 r1 r2 q1 q2 C3 : ℝ}
    (hI1 : a1 * D = r1 * c1 + q1 * c2 + n1 * c3) (hI2 : a2 * D = r2 * c1 + q2 * c2 + n2 * c3)
    (hI3 : a3 * D = c1 + c2 + n3 * c3)
    (hn1 : |n1| ≤ 21 / 20) (hn2 : |n2| ≤ 21 / 20) (hn3 : |n3| ≤ 21 / 20)
    (hr1 : |r1| ≤ sq') (hr2 : |r2| ≤ sq') (hq1 : |q1| ≤ sq') (hq2 : |q2| ≤ sq')
    (c1p : 0 ≤ c1) (c2p : 0 ≤ c2) (hDpos : 0 < D)
    (hC3 : |c3| ≤ C3) (hC3b : 3 / 4 * C3 ≤ kap * (c1 + c2 + D))
    (hAlo : 3 / 4 ≤ a1 ^ 2 + a2 ^ 2 + a3 ^ 2) :
    |a1| ≤ bigR * a3 ∧ |a2| ≤ bigR * a3 ∧ 1 / 3 ≤ a3 := by
  have hC30 : 0 ≤ C3 := le_trans (abs_nonneg _) hC3
  rw [kap_v] at hC3b
  have n3c := mul_bd2 hn3 hC3
  have n1c := mul_bd2 hn1 hC3
  have n2c := mul_bd2 hn2 hC3
  have r1c := mul_bd hr1 c1p
  have r2c := mul_bd hr2 c1p
  have q1c := mul_bd hq1 c2p
  have q2c := mul_bd hq2 c2p
  rw [sq'_v] at r1c r2c q1c q2c
  -- T bounds every |a_i D|
  have b1 : |a1 * D| ≤ (1 + 1 / 2 ^ 44) * (c1 + c2) + 21 / 20 * C3 := by
    rw [hI1, abs_le]; constructor <;> linarith [r1c.1, r1c.2, q1c.1, q1c.2, n1c.1, n1c.2]
  have b2 : |a2 * D| ≤ (1 + 1 / 2 ^ 44) * (c1 + c2) + 21 / 20 * C3 := by
    rw [hI2, abs_le]; constructor <;> linarith [r2c.1, r2c.2, q2c.1, q2c.2, n2c.1, n2c.2]
  have b3 : |a3 * D| ≤ (1 + 1 / 2 ^ 44) * (c1 + c2) + 21 / 20 * C3 := by
    rw [hI3, abs_le]; constructor <;> linarith [n3c.1, n3c.2]
  have hT0 : 0 ≤ (1 + 1 / 2 ^ 44) * (c1 + c2) + 21 / 20 * C3 := by linarith
  generalize hT : (1 + 1 / 2 ^ 44) * (c1 + c2) + 21 / 20 * C3 = T at b1 b2 b3 hT0
  have hDT : D / 2 ≤ T := by
    have s1 := sq_le_sq_of_abs b1
    have s2 := sq_le_sq_of_abs b2
    have s3 := sq_le_sq_of_abs b3
    have e : (a1 ^ 2 + a2 ^ 2 + a3 ^ 2) * D ^ 2 = (a1 * D) ^ 2 + (a2 * D) ^ 2 + (a3 * D) ^ 2 := by ring
    have h0 : 3 / 4 * D ^ 2 ≤ (a1 ^ 2 + a2 ^ 2 + a3 ^ 2) * D ^ 2 := mul_le_mul_of_nonneg_right hAlo (sq_nonneg D)
    have h : (D / 2) ^ 2 ≤ T ^ 2 := by
      have : (D / 2) ^ 2 = 1 / 4 * D ^ 2 := by ring
      rw [this]; linarith
    exact (abs_le_of_sq_le_sq' h hT0).2
  have hrho : 48 / 100 * D ≤ c1 + c2 := by rw [← hT] at hDT; linarith
  have ha3lo : 1 / 3 ≤ a3 := by
    have : 1 / 3 * D ≤ a3 * D := by rw [hI3]; linarith [n3c.1]
    exact le_of_mul_le_mul_right this hDpos
  have fin : ∀ (x r q nn : ℝ), x * D = r * c1 + q * c2 + nn * c3 → |r| ≤ sq' → |q| ≤ sq' → |nn| ≤ 21 / 20 →
      |x| ≤ bigR * a3 := by
    intro x r q nn hI hr hq hnn
    have rc := mul_bd hr c1p
    have qc := mul_bd hq c2p
    have nc := mul_bd2 hnn hC3
    rw [sq'_v] at rc qc
    have h1 : 0 ≤ (bigR * a3 - x) * D := by
      have e : (bigR * a3 - x) * D = bigR * (a3 * D) - x * D := by ring
      rw [e, hI3, hI, bigR_v]
      linarith [rc.1, rc.2, qc.1, qc.2, nc.1, nc.2, n3c.1, n3c.2]
    have h2 : 0 ≤ (bigR * a3 + x) * D := by
      have e : (bigR * a3 + x) * D = bigR * (a3 * D) + x * D := by ring
      rw [e, hI3, hI, bigR_v]
      linarith [rc.1, rc.2, qc.1, qc.2, nc.1, nc.2, n3c.1, n3c.2]
    have g1 : 0 ≤ bigR * a3 - x := nonneg_of_mul_nonneg_left h1 hDpos
    have g2 : 0 ≤ bigR * a3 + x := nonneg_of_mul_nonneg_left h2 hDpos
    rw [abs_le]; constructor <;> linarith
  exact ⟨fin a1 r1 q1 n1 hI1 hr1 hq1 hn1, fin a2 r2 q2 n2 hI2 hr2 hq2 hn2, ha3lo⟩

theorem abs_le_of_sq_le_c {x c m : ℝ} (hm : 0 ≤ m) (h : x ^ 2 ≤ c) (hc : c ≤ m ^ 2) : |x| ≤ m := by
  have := abs_le_of_sq_le_sq' (le_trans h hc) hm
  exact abs_le.2 ⟨this.1, this.2⟩

/-- **G2**: the vertex (nearly) between the entry point `P' = (r1, r2, 1)` and the exit point `P = (q1, q2, 1)` -/
theorem G2 {n1 n2 n3 a1 a2 a3 r1 r2 q1 q2 : ℝ}
    (hn : 3 / 4 ≤ n1 ^ 2 + n2 ^ 2 + n3 ^ 2) (hn' : n1 ^ 2 + n2 ^ 2 + n3 ^ 2 ≤ 11 / 10)
    (hAlo : 3 / 4 ≤ a1 ^ 2 + a2 ^ 2 + a3 ^ 2) (hA : a1 ^ 2 + a2 ^ 2 + a3 ^ 2 ≤ 2) (ha3 : 0 < a3)
    (hr1 : |r1| ≤ sq') (hr2 : |r2| ≤ sq') (hq1 : |q1| ≤ sq') (hq2 : |q2| ≤ sq')
    (hc1 : -eps1 ≤ det3 n1 n2 n3 a1 a2 a3 q1 q2 1) (hc2 : -eps1 ≤ det3 n1 n2 n3 r1 r2 1 a1 a2 a3)
    (hnA : |n1 * a1 + n2 * a2 + n3 * a3| ≤ kap) (hnP : |n1 * q1 + n2 * q2 + n3| ≤ kap)
    (hnR : |n1 * r1 + n2 * r2 + n3| ≤ kap) :
    |a1| ≤ bigR * a3 ∧ |a2| ≤ bigR * a3 ∧ 1 / 3 ≤ a3 := by
  by_cases ca : det3 n1 n2 n3 a1 a2 a3 q1 q2 1 ≤ eps1
  · exact G1 hn hAlo hA ha3 hq1 hq2 (abs_le.2 ⟨hc1, ca⟩) hnA hnP
  by_cases cb : det3 n1 n2 n3 r1 r2 1 a1 a2 a3 ≤ eps1
  · have e : det3 n1 n2 n3 a1 a2 a3 r1 r2 1 = -det3 n1 n2 n3 r1 r2 1 a1 a2 a3 := by unfold det3; ring
    exact G1 hn hAlo hA ha3 hr1 hr2 (by rw [e, abs_neg]; exact abs_le.2 ⟨hc2, cb⟩) hnA hnR
  have c1g : eps1 < det3 n1 n2 n3 a1 a2 a3 q1 q2 1 := not_le.1 ca
  have c2g : eps1 < det3 n1 n2 n3 r1 r2 1 a1 a2 a3 := not_le.1 cb
  have he : (0 : ℝ) < eps1 := by unfold eps1; positivity
  have q1n := sq_nonneg n1
  have q2n := sq_nonneg n2
  have q3n := sq_nonneg n3
  have m : (11 / 10 : ℝ) ≤ (21 / 20) ^ 2 := by norm_num
  have hn1 : |n1| ≤ 21 / 20 := abs_le_of_sq_le_c (by norm_num) (by linarith) m
  have hn2 : |n2| ≤ 21 / 20 := abs_le_of_sq_le_c (by norm_num) (by linarith) m
  have hn3 : |n3| ≤ 21 / 20 := abs_le_of_sq_le_c (by norm_num) (by linarith) m
  -- |D| ≤ 8
  have hD : |det3 n1 n2 n3 r1 r2 1 q1 q2 1| ≤ 8 := by
    have d1 : |r2 - q2| ≤ 21 / 10 := by
      have := abs_sub r2 q2; rw [sq'_v] at hr2 hq2; norm_num at hr2 hq2 ⊢; linarith
    have d2 : |r1 - q1| ≤ 21 / 10 := by
      have := abs_sub r1 q1; rw [sq'_v] at hr1 hq1; norm_num at hr1 hq1 ⊢; linarith
    have hs : sq' ≤ 101 / 100 := by rw [sq'_v]; norm_num
    have p1 := mul_bd2 (le_trans hr1 hs) (le_trans hq2 hs)
    have p2 := mul_bd2 (le_trans hr2 hs) (le_trans hq1 hs)
    have d3 : |r1 * q2 - r2 * q1| ≤ 21 / 10 := by
      rw [abs_le]; constructor <;> linarith [p1.1, p1.2, p2.1, p2.2]
    have t1 := mul_bd2 hn1 d1
    have t2 := mul_bd2 hn2 d2
    have t3 := mul_bd2 hn3 d3
    have e : det3 n1 n2 n3 r1 r2 1 q1 q2 1 = n1 * (r2 - q2) - n2 * (r1 - q1) + n3 * (r1 * q2 - r2 * q1) := by
      unfold det3; ring
    rw [e, abs_le]; constructor <;> linarith [t1.1, t1.2, t2.1, t2.2, t3.1, t3.2]
  -- the Cramer identities
  have hI1 : a1 * det3 n1 n2 n3 r1 r2 1 q1 q2 1 = r1 * det3 n1 n2 n3 a1 a2 a3 q1 q2 1 +
      q1 * det3 n1 n2 n3 r1 r2 1 a1 a2 a3 + n1 * det3 r1 r2 1 q1 q2 1 a1 a2 a3 := by unfold det3; ring
  have hI2 : a2 * det3 n1 n2 n3 r1 r2 1 q1 q2 1 = r2 * det3 n1 n2 n3 a1 a2 a3 q1 q2 1 +
      q2 * det3 n1 n2 n3 r1 r2 1 a1 a2 a3 + n2 * det3 r1 r2 1 q1 q2 1 a1 a2 a3 := by unfold det3; ring
  have hI3 : a3 * det3 n1 n2 n3 r1 r2 1 q1 q2 1 = det3 n1 n2 n3 a1 a2 a3 q1 q2 1 +
      det3 n1 n2 n3 r1 r2 1 a1 a2 a3 + n3 * det3 r1 r2 1 q1 q2 1 a1 a2 a3 := by unfold det3; ring
  have hIn : (n1 ^ 2 + n2 ^ 2 + n3 ^ 2) * det3 r1 r2 1 q1 q2 1 a1 a2 a3 =
      (n1 * a1 + n2 * a2 + n3 * a3) * det3 n1 n2 n3 r1 r2 1 q1 q2 1 -
      (n1 * r1 + n2 * r2 + n3) * det3 n1 n2 n3 a1 a2 a3 q1 q2 1 -
      (n1 * q1 + n2 * q2 + n3) * det3 n1 n2 n3 r1 r2 1 a1 a2 a3 := by unfold det3; ring
  have c1p : 0 ≤ det3 n1 n2 n3 a1 a2 a3 q1 q2 1 := by linarith
  have c2p : 0 ≤ det3 n1 n2 n3 r1 r2 1 a1 a2 a3 := by linarith
  have hC3b := c3_small hIn hn hnA hnP hnR c1p c2p
  have hDpos := D_pos hI3 ha3 hn3 (le_refl _) hC3b c1g c2g hD
  rw [abs_of_pos hDpos] at hC3b
  exact core2b hI1 hI2 hI3 hn1 hn2 hn3 hr1 hr2 hq1 hq2 c1p c2p hDpos (le_refl _) hC3b hAlo

end S2Proofs.C06Face.DR
