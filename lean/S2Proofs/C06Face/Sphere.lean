/-
  S2Proofs.C06Face.Sphere — the spherical meaning of a face edge (`FaceClipSound`, same-face case).

  * `chordU/V/W f v0 v1 t`   the point `(1−t)·v0 + t·v1` of the chord, in the (u,v,w) frame of face `f` (exact reals).
                             Its central projection onto the sphere runs through the shortest great-circle arc from
                             `v0` to `v1` as `t` runs through `[0,1]` (for non-antipodal `v0`, `v1`); central projection
                             does not care about the lengths of `v0`, `v1`.
  * `MeetsSphere f v0 v1 c`  the spherical edge meets the spherical cell `c` of face `f`: some point of the arc lies on the
                             face's side (`w > 0`) and its gnomonic image `(u/w, v/w)` lies in the uv-rectangle of `c`.
  * `gnomonic_line`          gnomonic projection maps great circles to lines: the image of the chord point at `t` is the
                             point at parameter `τ = t·w1 / ((1−t)·w0 + t·w1) ∈ [0,1]` of the uv segment between the
                             images of the endpoints (`w0, w1 > 0`) — EXACT.
  * `sameFace_meets`         for an edge with both endpoints on face `f` the face edge `validFaceXYZToUV` is within `2^-54`
                             per coordinate of that exact segment, hence `MeetsSphere → MeetsPad 2^-54 → MeetsReal`.
-/
import S2Proofs.C06Face.Clip

namespace S2Proofs.C06Face
open S2 S2.Exact S2.CellM S2.CellID S2.IndexBuild S2Proofs.F64Order S2Proofs.FloatErr S2Proofs.C06Clip

noncomputable def chordU (f : Nat) (v0 v1 : V3) (t : ℝ) : ℝ :=
  (1 - t) * rv (faceXYZtoUVW f v0).x + t * rv (faceXYZtoUVW f v1).x
noncomputable def chordV (f : Nat) (v0 v1 : V3) (t : ℝ) : ℝ :=
  (1 - t) * rv (faceXYZtoUVW f v0).y + t * rv (faceXYZtoUVW f v1).y
noncomputable def chordW (f : Nat) (v0 v1 : V3) (t : ℝ) : ℝ :=
  (1 - t) * rv (faceXYZtoUVW f v0).z + t * rv (faceXYZtoUVW f v1).z

/-- the spherical edge `v0 v1` meets the spherical cell `c` (a cell of face `f`): a point of the great-circle arc has
    positive w-coordinate on face `f` and gnomonic coordinates inside the uv-rectangle of `c` -/
def MeetsSphere (f : Nat) (v0 v1 : V3) (c : CellID) : Prop :=
  ∃ t : ℝ, 0 ≤ t ∧ t ≤ 1 ∧ 0 < chordW f v0 v1 t ∧
    cellULo c ≤ chordU f v0 v1 t / chordW f v0 v1 t ∧ chordU f v0 v1 t / chordW f v0 v1 t ≤ cellUHi c ∧
    cellVLo c ≤ chordV f v0 v1 t / chordW f v0 v1 t ∧ chordV f v0 v1 t / chordW f v0 v1 t ≤ cellVHi c

/-- **gnomonic projection maps great circles to lines** (pure algebra): with `w0, w1 > 0` and `t ∈ [0,1]` the projected
    chord point is the convex combination with weight `τ = t·w1 / ((1−t)·w0 + t·w1)` of the projected endpoints -/
theorem gnomonic_line {u0 u1 w0 w1 t : ℝ} (hw0 : 0 < w0) (hw1 : 0 < w1) (h0 : 0 ≤ t) (h1 : t ≤ 1) :
    0 < (1 - t) * w0 + t * w1 ∧
    0 ≤ t * w1 / ((1 - t) * w0 + t * w1) ∧ t * w1 / ((1 - t) * w0 + t * w1) ≤ 1 ∧
    ((1 - t) * u0 + t * u1) / ((1 - t) * w0 + t * w1) =
      u0 / w0 + t * w1 / ((1 - t) * w0 + t * w1) * (u1 / w1 - u0 / w0) := by
  have hW : 0 < (1 - t) * w0 + t * w1 := by
    rcases lt_or_eq_of_le h0 with h | h
    · have : 0 < t * w1 := mul_pos h hw1
      have : 0 ≤ (1 - t) * w0 := mul_nonneg (by linarith) (le_of_lt hw0)
      linarith
    · rw [← h]; simpa using hw0
  refine ⟨hW, ?_, ?_, ?_⟩
  · exact div_nonneg (mul_nonneg h0 (le_of_lt hw1)) (le_of_lt hW)
  · rw [div_le_one hW]
    have : 0 ≤ (1 - t) * w0 := mul_nonneg (by linarith) (le_of_lt hw0)
    linarith
  · have a := ne_of_gt hw0
    have b := ne_of_gt hw1
    have c := ne_of_gt hW
    field_simp
    ring

/-- the exact uv segment between the float endpoints stays within `δ` of the exact segment between two real points that
    are within `δ` of the float endpoints -/
theorem seg_close {a b A B τ δ : ℝ} (h0 : 0 ≤ τ) (h1 : τ ≤ 1) (ha : |a - A| ≤ δ) (hb : |b - B| ≤ δ) :
    |(a + τ * (b - a)) - (A + τ * (B - A))| ≤ δ := by
  have e : (a + τ * (b - a)) - (A + τ * (B - A)) = (1 - τ) * (a - A) + τ * (b - B) := by ring
  rw [e]
  have h2 := abs_add_le ((1 - τ) * (a - A)) (τ * (b - B))
  rw [abs_mul, abs_mul, abs_of_nonneg h0, abs_of_nonneg (by linarith : (0 : ℝ) ≤ 1 - τ)] at h2
  have h3 : (1 - τ) * |a - A| ≤ (1 - τ) * δ := mul_le_mul_of_nonneg_left ha (by linarith)
  have h4 : τ * |b - B| ≤ τ * δ := mul_le_mul_of_nonneg_left hb h0
  nlinarith

/-- **same-face case of `FaceClipSound`**: for an edge whose endpoints both lie on face `f`, the face edge
    `(validFaceXYZToUV f v0, validFaceXYZToUV f v1)` meets (up to `2^-54`) every cell the spherical edge meets -/
theorem sameFace_meets (fe : FaceEdge) (f : Nat) (h0 : UnitIsh fe.v0) (h1 : UnitIsh fe.v1)
    (hf0 : STUV.face fe.v0 = f) (hf1 : STUV.face fe.v1 = f)
    (ha : fe.a = STUV.validFaceXYZToUV f fe.v0) (hb : fe.b = STUV.validFaceXYZToUV f fe.v1) (c : CellID)
    (hm : MeetsSphere f fe.v0 fe.v1 c) : MeetsPad (1 / 2 ^ 54) fe c := by
  obtain ⟨t, t0, t1, _, m1, m2, m3, m4⟩ := hm
  obtain ⟨wa, _, _, _, _, ea1, ea2⟩ := validFace_spec fe.v0 h0 f hf0
  obtain ⟨wb, _, _, _, _, eb1, eb2⟩ := validFace_spec fe.v1 h1 f hf1
  have hw0 : 0 < rv (faceXYZtoUVW f fe.v0).z := by linarith
  have hw1 : 0 < rv (faceXYZtoUVW f fe.v1).z := by linarith
  obtain ⟨_, τ0, τ1, gU⟩ := gnomonic_line (u0 := rv (faceXYZtoUVW f fe.v0).x) (u1 := rv (faceXYZtoUVW f fe.v1).x)
    hw0 hw1 t0 t1
  obtain ⟨_, _, _, gV⟩ := gnomonic_line (u0 := rv (faceXYZtoUVW f fe.v0).y) (u1 := rv (faceXYZtoUVW f fe.v1).y)
    hw0 hw1 t0 t1
  unfold chordU chordW at m1 m2
  unfold chordV chordW at m3 m4
  rw [gU] at m1 m2
  rw [gV] at m3 m4
  rw [← ha] at ea1 ea2
  rw [← hb] at eb1 eb2
  unfold gnoU at ea1 eb1
  unfold gnoV at ea2 eb2
  have cU := seg_close τ0 τ1 ea1 eb1
  have cV := seg_close τ0 τ1 ea2 eb2
  have dU := abs_le.1 cU
  have dV := abs_le.1 cV
  refine ⟨_, τ0, τ1, ?_, ?_, ?_, ?_⟩ <;> simp only [segU, segV] <;> linarith [dU.1, dU.2, dV.1, dV.2]

theorem pad54_le_meetPad : (1 : ℝ) / 2 ^ 54 ≤ meetPad := by
  have := padR_lo
  unfold meetPad clipSlack
  unfold dblEps at *
  have : (1 : ℝ) / 2 ^ 54 ≤ 17 * (1 / 2 ^ 52) - 4 * (1 / 2 ^ 52) := by norm_num
  linarith

theorem sameFace_meetsReal (fe : FaceEdge) (f : Nat) (h0 : UnitIsh fe.v0) (h1 : UnitIsh fe.v1)
    (hf0 : STUV.face fe.v0 = f) (hf1 : STUV.face fe.v1 = f)
    (ha : fe.a = STUV.validFaceXYZToUV f fe.v0) (hb : fe.b = STUV.validFaceXYZToUV f fe.v1) (c : CellID)
    (hm : MeetsSphere f fe.v0 fe.v1 c) : MeetsReal fe c :=
  MeetsPad.mono pad54_le_meetPad (sameFace_meets fe f h0 h1 hf0 hf1 ha hb c hm)

/-! ### the face edge of a same-face edge is in the list -/

/-- for an edge with both endpoints on face `f`, `addFaceEdge` appends `(f, validFaceXYZToUV …)` -/
theorem addFaceEdge_sameFace (fe : FaceEdge) (f : Nat) (hf : f < 6) (hf0 : STUV.face fe.v0 = f) (hf1 : STUV.face fe.v1 = f) :
    (f, { fe with a := STUV.validFaceXYZToUV f fe.v0, b := STUV.validFaceXYZToUV f fe.v1 }) ∈ addFaceEdge fe := by
  unfold addFaceEdge
  simp only
  split
  · rename_i fe' heq
    split at heq
    · split at heq
      · have := Option.some.inj heq
        subst this
        rw [hf0]
        exact List.mem_singleton.2 rfl
      · cases heq
    · cases heq
  · rw [List.mem_filterMap]
    refine ⟨f, List.mem_range.2 hf, ?_⟩
    have : clipToPaddedFace fe.v0 fe.v1 f cellPadding =
        some (STUV.validFaceXYZToUV f fe.v0, STUV.validFaceXYZToUV f fe.v1) := by
      unfold clipToPaddedFace
      rw [hf0, hf1]
      simp
    rw [this]

end S2Proofs.C06Face
