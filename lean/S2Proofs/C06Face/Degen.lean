/-
  S2Proofs.C06Face.Degen — DEGENERATE edges (`v0 = v1`, the edges of point shapes): every uv endpoint that
  `ClipToPaddedFace(a, a, f, cellPadding)` returns is `CoordOK`, INCLUDING the re-projection branch of `clipDestination`.

  With `t = fl((P − A)·aTan)`, `t' = fl((P' − A)·aTan)` (P, P' the exit points of `scaledN`, `−scaledN`; `bTan = −aTan` up to
  rounding) the accepted score combinations force `|det(n̂, A, P)| ≤ ε` or `|det(n̂, A, P')| ≤ ε` or
  `det(n̂, A, P) ≥ −ε ∧ det(n̂, P', A) ≥ −ε`; `DegenReal.G1 / G2` then put `A/A.w` inside the square of half-width `1 + 2^-41`.
-/
import S2Proofs.C06Face.DegenSetup
import S2Proofs.C06Face.ExitRel
import S2Proofs.C06Clip.ClipReal

namespace S2Proofs.C06Face
open S2 S2.Exact S2.CellM S2.IndexBuild S2Proofs.F64Order S2Proofs.FloatErr S2Proofs.C06Clip
open S2Proofs.FE3

/-! ### the re-normalised normal of `ClipToPaddedFace`, explicitly -/

/-- `normUVW` after the optional rescaling and `Normalize()` -/
def nHat (a b : V3) (f : Nat) : V3 :=
  (if F64.lt (F64.fmax (rawNormal a b f).x.abs (F64.fmax (rawNormal a b f).y.abs (rawNormal a b f).z.abs)) twoPowM511
    then (rawNormal a b f).mul twoPow563 else rawNormal a b f).normalize

/-- `ClipToPaddedFace(a, b, f, cellPadding)` with the tangents spelled out -/
theorem clip_eq' (a b : V3) (f : Nat) :
    clipToPaddedFace a b f cellPadding =
      if (STUV.face a == f && STUV.face b == f) = true then
        some (STUV.validFaceXYZToUV f a, STUV.validFaceXYZToUV f b)
      else if (!intersectsFace (scaledNormal a b f)) = true then none
      else if (clipDestination (faceXYZtoUVW f b) (faceXYZtoUVW f a) ((scaledNormal a b f).mul negOne)
                ((faceXYZtoUVW f b).cross (nHat a b f)) ((nHat a b f).cross (faceXYZtoUVW f a)) scaleUV).2 +
            (clipDestination (faceXYZtoUVW f a) (faceXYZtoUVW f b) (scaledNormal a b f)
                ((nHat a b f).cross (faceXYZtoUVW f a)) ((faceXYZtoUVW f b).cross (nHat a b f)) scaleUV).2 < 3 then
        some ((clipDestination (faceXYZtoUVW f b) (faceXYZtoUVW f a) ((scaledNormal a b f).mul negOne)
                ((faceXYZtoUVW f b).cross (nHat a b f)) ((nHat a b f).cross (faceXYZtoUVW f a)) scaleUV).1,
              (clipDestination (faceXYZtoUVW f a) (faceXYZtoUVW f b) (scaledNormal a b f)
                ((nHat a b f).cross (faceXYZtoUVW f a)) ((faceXYZtoUVW f b).cross (nHat a b f)) scaleUV).1)
      else none := rfl

/-! ### one call of `clipDestination`, by kind -/

/-- the exit point of `clipDestination` as a vector `(uv.X, uv.Y, 1)` -/
def exitVec (n : V3) (s : F64) : V3 :=
  ⟨s * (exitPoint n (exitAxis n)).1, s * (exitPoint n (exitAxis n)).2, F64.one⟩

/-- the five outcomes of one call -/
inductive Kind (a b n aTan bTan : V3) (s : F64) : Prop
  | early : UVOK (b.x / b.z, b.y / b.z) → (clipDestination a b n aTan bTan s).1 = (b.x / b.z, b.y / b.z) →
      Kind a b n aTan bTan s
  | k0 : (clipDestination a b n aTan bTan s) = ((s * (exitPoint n (exitAxis n)).1, s * (exitPoint n (exitAxis n)).2), 0) →
      F64.lt (((exitVec n s).sub a).dot aTan) fzero = false → F64.lt (((exitVec n s).sub b).dot bTan) fzero = false →
      Kind a b n aTan bTan s
  | k3 : (clipDestination a b n aTan bTan s).2 = 3 → Kind a b n aTan bTan s
  | r2 : (clipDestination a b n aTan bTan s) = ((b.x / b.z, b.y / b.z), 2) →
      F64.lt (((exitVec n s).sub a).dot aTan) fzero = true → F64.le b.z fzero = false → Kind a b n aTan bTan s
  | r1 : (clipDestination a b n aTan bTan s) = ((b.x / b.z, b.y / b.z), 1) →
      F64.lt (((exitVec n s).sub a).dot aTan) fzero = false → F64.lt (((exitVec n s).sub b).dot bTan) fzero = true →
      F64.le b.z fzero = false → Kind a b n aTan bTan s

theorem clipDestination_kind (a b n aTan bTan : V3) (s : F64) : Kind a b n aTan bTan s := by
  by_cases he : (F64.gt b.z fzero = true ∧
      F64.le (F64.fmax (b.x / b.z).abs (b.y / b.z).abs) maxSafeUVCoord = true)
  · -- early exit
    have hr : clipDestination a b n aTan bTan s = ((b.x / b.z, b.y / b.z), 0) := by
      unfold clipDestination
      simp only [he.1, he.2, if_true]
    exact Kind.early (coordOK_of_fmax_le maxSafe_facts.1 maxSafe_facts.2 he.2) (by rw [hr])
  · have hnone : (if F64.gt b.z fzero = true then
          (if F64.le (F64.fmax (b.x / b.z).abs (b.y / b.z).abs) maxSafeUVCoord = true then some (b.x / b.z, b.y / b.z)
            else none)
          else (none : Option R2)) = none := by
      by_cases h1 : F64.gt b.z fzero = true
      · rw [if_pos h1]
        have : ¬ (F64.le (F64.fmax (b.x / b.z).abs (b.y / b.z).abs) maxSafeUVCoord = true) := fun h2 => he ⟨h1, h2⟩
        rw [if_neg this]
      · rw [if_neg h1]
    by_cases h1 : F64.lt (((exitVec n s).sub a).dot aTan) fzero = true
    · by_cases hz : F64.le b.z fzero = true
      · apply Kind.k3
        unfold clipDestination
        simp only
        rw [hnone]
        simp only
        have h1' : F64.lt ((V3.sub ⟨s * (exitPoint n (exitAxis n)).1, s * (exitPoint n (exitAxis n)).2, F64.one⟩ a).dot aTan)
            fzero = true := h1
        simp [h1', hz]
      · have hz' : F64.le b.z fzero = false := by simpa using hz
        apply Kind.r2 _ h1 hz'
        unfold clipDestination
        simp only
        rw [hnone]
        simp only
        have h1' : F64.lt ((V3.sub ⟨s * (exitPoint n (exitAxis n)).1, s * (exitPoint n (exitAxis n)).2, F64.one⟩ a).dot aTan)
            fzero = true := h1
        simp [h1', hz']
    · have h1f : F64.lt (((exitVec n s).sub a).dot aTan) fzero = false := by simpa using h1
      have h1' : F64.lt ((V3.sub ⟨s * (exitPoint n (exitAxis n)).1, s * (exitPoint n (exitAxis n)).2, F64.one⟩ a).dot aTan)
          fzero = false := h1f
      by_cases h2 : F64.lt (((exitVec n s).sub b).dot bTan) fzero = true
      · have h2' : F64.lt ((V3.sub ⟨s * (exitPoint n (exitAxis n)).1, s * (exitPoint n (exitAxis n)).2, F64.one⟩ b).dot bTan)
            fzero = true := h2
        by_cases hz : F64.le b.z fzero = true
        · apply Kind.k3
          unfold clipDestination
          simp only
          rw [hnone]
          simp [h1', h2', hz]
        · have hz' : F64.le b.z fzero = false := by simpa using hz
          apply Kind.r1 _ h1f h2 hz'
          unfold clipDestination
          simp only
          rw [hnone]
          simp [h1', h2', hz']
      · have h2f : F64.lt (((exitVec n s).sub b).dot bTan) fzero = false := by simpa using h2
        have h2' : F64.lt ((V3.sub ⟨s * (exitPoint n (exitAxis n)).1, s * (exitPoint n (exitAxis n)).2, F64.one⟩ b).dot bTan)
            fzero = false := h2f
        apply Kind.k0 _ h1f h2f
        unfold clipDestination
        simp only
        rw [hnone]
        simp [h1', h2']

/-! ### the normal of a degenerate edge -/

theorem rv_zero_of_sub_self {x : F64} (hx : Fin x) : Fin (x - x) ∧ rv (x - x) = 0 := by
  obtain ⟨f, v⟩ := sub_exact hx hx fzero_fin (by rw [rv_fzero]; ring)
  exact ⟨f, by rw [v, rv_fzero]⟩

theorem mul_zero_val {x y : F64} (hx : Fin x) (hy : Fin y) (h0 : rv y = 0) : Fin (x * y) ∧ rv (x * y) = 0 := by
  obtain ⟨f, v⟩ := mul_exact hx hy fzero_fin (by rw [h0, rv_fzero]; ring)
  exact ⟨f, by rw [v, rv_fzero]⟩

theorem toInt_zero_of_rv {x : F64} (h : rv x = 0) : toInt x = 0 := by
  have : rv x = rv fzero := by rw [h, rv_fzero]
  have := toInt_eq_of_rv this
  rw [this]; decide

/-- `PointCross(a, a) = a.Ortho()` -/
theorem pointCross_self (a : V3) (ha : UnitIsh a) : Crossing.pointCross a a = a.ortho := by
  obtain ⟨hx, hy, hz⟩ := ha.fin
  obtain ⟨bx, bY, bz⟩ := ha.coord_le
  obtain ⟨dx, vx⟩ := rv_zero_of_sub_self hx
  obtain ⟨dy, vy⟩ := rv_zero_of_sub_self hy
  obtain ⟨dz, vz⟩ := rv_zero_of_sub_self hz
  have sb : ∀ t : F64, Fin t → |rv t| ≤ 2 → Fin (t + t) := by
    intro t ht bt
    have : |rv t + rv t| ≤ 2 ^ 30 := by
      have := abs_add_le (rv t) (rv t); linarith
    exact (addR ht ht this).1
  have sx := sb _ hx bx
  have sy := sb _ hy bY
  have sz := sb _ hz bz
  -- every product is a zero
  obtain ⟨p1, q1⟩ := mul_zero_val sy dz vz
  obtain ⟨p2, q2⟩ := mul_zero_val sz dy vy
  obtain ⟨p3, q3⟩ := mul_zero_val sz dx vx
  obtain ⟨p4, q4⟩ := mul_zero_val sx dz vz
  obtain ⟨p5, q5⟩ := mul_zero_val sx dy vy
  obtain ⟨p6, q6⟩ := mul_zero_val sy dx vx
  obtain ⟨c1, w1⟩ := sub_exact p1 p2 fzero_fin (by rw [q1, q2, rv_fzero]; ring)
  obtain ⟨c2, w2⟩ := sub_exact p3 p4 fzero_fin (by rw [q3, q4, rv_fzero]; ring)
  obtain ⟨c3, w3⟩ := sub_exact p5 p6 fzero_fin (by rw [q5, q6, rv_fzero]; ring)
  rw [rv_fzero] at w1 w2 w3
  have hfeq : V3.feq ((a.add a).cross (a.sub a)) Crossing.zero3 = true := by
    have hf3 : Fin3 ((a.add a).cross (a.sub a)) := ⟨c1, c2, c3⟩
    have hz3 : Fin3 Crossing.zero3 := ⟨fzero_fin, fzero_fin, fzero_fin⟩
    rw [v3feq_iff hf3 hz3]
    have e0 : ofV3 Crossing.zero3 = ⟨0, 0, 0⟩ := by decide
    rw [e0]
    show (⟨toInt _, toInt _, toInt _⟩ : IV3) = _
    have t1 : toInt ((a.add a).cross (a.sub a)).x = 0 := toInt_zero_of_rv w1
    have t2 : toInt ((a.add a).cross (a.sub a)).y = 0 := toInt_zero_of_rv w2
    have t3 : toInt ((a.add a).cross (a.sub a)).z = 0 := toInt_zero_of_rv w3
    rw [t1, t2, t3]
  -- repaired `PointCross` (D60): the float value is the zero vector, below the threshold; the EXACT product a × a is zero too
  have hge : F64.ge (EdgeNum.pointCrossFloat a a).norm2 EdgeNum.pointCrossMinNorm2 = false :=
    not_ge_of_feq_zero _ hfeq
  have hiz : ((EdgeNum.PV.ofV3 a).cross (EdgeNum.PV.ofV3 a)).isZero = true := by
    have e1 : toInt a.y * toInt a.z - toInt a.z * toInt a.y = 0 := by rw [Int.mul_comm]; exact Int.sub_self _
    have e2 : toInt a.z * toInt a.x - toInt a.x * toInt a.z = 0 := by rw [Int.mul_comm]; exact Int.sub_self _
    have e3 : toInt a.x * toInt a.y - toInt a.y * toInt a.x = 0 := by rw [Int.mul_comm]; exact Int.sub_self _
    simp only [EdgeNum.PV.isZero, EdgeNum.PV.cross, EdgeNum.PV.ofV3, EdgeNum.SZ.sub, EdgeNum.SZ.mul, EdgeNum.SZ.ofF64,
      e1, e2, e3]
    decide
  show EdgeNum.pointCross a a = a.ortho
  rw [EdgeNum.pointCross_eq_exact_of_not_ge a a hge]
  unfold EdgeNum.pointCrossExact
  simp only [hiz]
  rfl

/-- a product `x·y` with `|x| ≤ m`, `|y| ≤ C` -/
theorem mul_bd2' {x y m C : ℝ} (hx : |x| ≤ m) (hy : |y| ≤ C) : -(m * C) ≤ x * y ∧ x * y ≤ m * C := by
  have h1 : |x * y| ≤ m * C := by
    rw [abs_mul]; exact mul_le_mul hx hy (abs_nonneg _) (le_trans (abs_nonneg _) hx)
  have := abs_le.1 h1
  exact ⟨this.1, this.2⟩

/-! ### the exit vector against the unscaled normal -/

/-- pure ℝ: from the relation of the exit point to the SCALED normal to the relation of the scaled exit point to the
    UNSCALED normal -/
theorem plane_real {N1 N2 N3 sv sx sy e1 e2 pu pv r d : ℝ}
    (h3 : |sx - sv * N1| ≤ d) (h4 : |sy - sv * N2| ≤ d) (h1 : |pu - sv * e1| ≤ d) (h2 : |pv - sv * e2| ≤ d)
    (hr : |sx * e1 + sy * e2 + N3| ≤ r)
    (be1 : |e1| ≤ 101 / 100) (be2 : |e2| ≤ 101 / 100) (bN1 : |N1| ≤ 101 / 100) (bN2 : |N2| ≤ 101 / 100) :
    |N1 * pu + N2 * pv + N3| ≤ r + 5 * d := by
  have hd : 0 ≤ d := le_trans (abs_nonneg _) h3
  have e : N1 * pu + N2 * pv + N3 =
      (sx * e1 + sy * e2 + N3) - (sx - sv * N1) * e1 - (sy - sv * N2) * e2 + N1 * (pu - sv * e1) + N2 * (pv - sv * e2) := by
    ring
  rw [e]
  have t1 := mul_bd2' h3 be1
  have t2 := mul_bd2' h4 be2
  have t3 := mul_bd2' bN1 h1
  have t4 := mul_bd2' bN2 h2
  have a := abs_le.1 hr
  rw [abs_le]; constructor <;> linarith [t1.1, t1.2, t2.1, t2.2, t3.1, t3.2, t4.1, t4.2]

/-! ### the geometric context of a degenerate edge -/

theorem quarter_facts : Fin (⟨0x3FD0000000000000⟩ : F64) ∧ rv (⟨0x3FD0000000000000⟩ : F64) = 1 / 4 := by
  refine ⟨by decide, ?_⟩
  have : toInt (⟨0x3FD0000000000000⟩ : F64) = 2 ^ 1072 := by decide +kernel
  rw [rv_of_toInt' this]
  push_cast
  rw [show (2 : ℝ) ^ 1074 = 2 ^ 1072 * 4 by rw [show (4 : ℝ) = 2 ^ 2 by norm_num, ← pow_add]]
  field_simp

theorem twoPowM511_small : Fin twoPowM511 ∧ rv twoPowM511 ≤ 1 / 4 := by
  have hf : Fin twoPowM511 := by decide
  refine ⟨hf, ?_⟩
  have : F64.le twoPowM511 ⟨0x3FD0000000000000⟩ = true := by decide +kernel
  have := (le_iff_rv hf quarter_facts.1).1 this
  rwa [quarter_facts.2] at this

theorem abs_le_101 {x V : ℝ} (hx : x ^ 2 ≤ V) (hV : V ≤ 1 + 1 / 2 ^ 16) : |x| ≤ 101 / 100 := by
  have m : (1 + 1 / 2 ^ 16 : ℝ) ≤ (101 / 100) ^ 2 := by norm_num
  have := abs_le_of_sq_le_sq' (le_trans hx (le_trans hV m)) (by norm_num)
  exact abs_le.2 ⟨this.1, this.2⟩

/-- for a vector of squared norm at least 3/4 the rescaling test of `ClipToPaddedFace` is negative -/
theorem no_rescale (N : V3) (hN : Fin3 N) (hlo : 3 / 4 ≤ n2R N) :
    F64.lt (F64.fmax N.x.abs (F64.fmax N.y.abs N.z.abs)) twoPowM511 = false := by
  obtain ⟨f1, f2, f3⟩ := hN
  obtain ⟨g23, v23⟩ := rv_fmax (abs_fin f2) (abs_fin f3)
  obtain ⟨g, v⟩ := rv_fmax (abs_fin f1) g23
  rw [v23, rv_abs, rv_abs, rv_abs] at v
  obtain ⟨ft, vt⟩ := twoPowM511_small
  cases h : F64.lt (F64.fmax N.x.abs (F64.fmax N.y.abs N.z.abs)) twoPowM511
  · rfl
  · exfalso
    have hl := (lt_iff_rv g ft).1 h
    rw [v] at hl
    have h1 : |rv N.x| < 1 / 4 := lt_of_le_of_lt (le_max_left _ _) (lt_of_lt_of_le hl vt)
    have h2 : |rv N.y| < 1 / 4 :=
      lt_of_le_of_lt (le_trans (le_max_left _ _) (le_max_right _ _)) (lt_of_lt_of_le hl vt)
    have h3 : |rv N.z| < 1 / 4 :=
      lt_of_le_of_lt (le_trans (le_max_right _ _) (le_max_right _ _)) (lt_of_lt_of_le hl vt)
    have s1 : rv N.x ^ 2 < (1 / 4) ^ 2 := by rw [← sq_abs]; exact pow_lt_pow_left₀ h1 (abs_nonneg _) (by norm_num)
    have s2 : rv N.y ^ 2 < (1 / 4) ^ 2 := by rw [← sq_abs]; exact pow_lt_pow_left₀ h2 (abs_nonneg _) (by norm_num)
    have s3 : rv N.z ^ 2 < (1 / 4) ^ 2 := by rw [← sq_abs]; exact pow_lt_pow_left₀ h3 (abs_nonneg _) (by norm_num)
    unfold n2R at hlo
    norm_num at s1 s2 s3
    linarith

/-- the exit vector of a scaled normal `S` (or of `−S`) is within `kap` of the plane of the re-normalised normal -/
structure ExitOK (n : V3) (P : V3) : Prop where
  fin : Fin3 P
  bx : |rv P.x| ≤ DR.sq'
  bY : |rv P.y| ≤ DR.sq'
  vz : rv P.z = 1
  perp : |rv n.x * rv P.x + rv n.y * rv P.y + rv n.z| ≤ DR.kap

/-- everything the geometry needs for a degenerate edge at `a`, on face `f` -/
structure DCtx (a : V3) (f : Nat) : Prop where
  fA : Fin3 (faceXYZtoUVW f a)
  bA : |rv (faceXYZtoUVW f a).x| ≤ 101 / 100 ∧ |rv (faceXYZtoUVW f a).y| ≤ 101 / 100 ∧ |rv (faceXYZtoUVW f a).z| ≤ 101 / 100
  nA_lo : 3 / 4 ≤ n2R (faceXYZtoUVW f a)
  nA_hi : n2R (faceXYZtoUVW f a) ≤ 2
  fn : Fin3 (nHat a a f)
  bn : |rv (nHat a a f).x| ≤ 21 / 20 ∧ |rv (nHat a a f).y| ≤ 21 / 20 ∧ |rv (nHat a a f).z| ≤ 21 / 20
  nn_lo : 3 / 4 ≤ n2R (nHat a a f)
  nn_hi : n2R (nHat a a f) ≤ 11 / 10
  perpA : |dotRV (nHat a a f) (faceXYZtoUVW f a)| ≤ DR.kap
  exit1 : ExitOK (nHat a a f) (exitVec (scaledNormal a a f) scaleUV)
  exit2 : ExitOK (nHat a a f) (exitVec ((scaledNormal a a f).mul negOne) scaleUV)

/-- the exit vector of `S` against the plane of `n̂ = Normalize(N0)` -/
theorem exitOK_of_rel {N0 S nh : V3} {e : R2} {i : ℝ}
    (fN : Fin3 N0) (bN : |rv N0.x| ≤ 101 / 100 ∧ |rv N0.y| ≤ 101 / 100 ∧ |rv N0.z| ≤ 101 / 100)
    (hSx : rv S.x = rv (scaleUV * N0.x) ∨ rv S.x = -rv (scaleUV * N0.x))
    (hSy : rv S.y = rv (scaleUV * N0.y) ∨ rv S.y = -rv (scaleUV * N0.y))
    (hSz : rv S.z = rv N0.z ∨ rv S.z = -rv N0.z)
    (hsgn : (rv S.x = rv (scaleUV * N0.x) ∧ rv S.y = rv (scaleUV * N0.y) ∧ rv S.z = rv N0.z) ∨
            (rv S.x = -rv (scaleUV * N0.x) ∧ rv S.y = -rv (scaleUV * N0.y) ∧ rv S.z = -rv N0.z))
    (er : ExitRel S e) (hi0 : 0 ≤ i) (hi1 : i ≤ 101 / 100)
    (hd : ∀ x1 x2 x3 : ℝ, |(rv nh.x * x1 + rv nh.y * x2 + rv nh.z * x3) -
          i * (rv N0.x * x1 + rv N0.y * x2 + rv N0.z * x3)| ≤ 1 / 2 ^ 52 * (|x1| + |x2| + |x3|)) :
    ExitOK nh ⟨scaleUV * e.1, scaleUV * e.2, F64.one⟩ := by
  obtain ⟨g1, d1, m1⟩ := scale_rel scaleUV_ok er.f1 er.b1
  obtain ⟨g2, d2, m2⟩ := scale_rel scaleUV_ok er.f2 er.b2
  have hs := scaleUV_ok
  have hs0 : 0 ≤ rv scaleUV := by have := hs.lo; linarith
  have huv : uR = 1 / 2 ^ 53 := rfl
  -- S.x, S.y against s·N0.x, s·N0.y
  have sc : ∀ t : F64, Fin t → |rv t| ≤ 101 / 100 → |rv (scaleUV * t) - rv scaleUV * rv t| ≤ 1 / 2 ^ 52 ∧
      |rv (scaleUV * t)| ≤ 21 / 20 := by
    intro t ft bt
    have hP : |rv scaleUV * rv t| ≤ 102 / 100 := by
      rw [abs_mul, abs_of_nonneg hs0]
      have : rv scaleUV ≤ 1 + 1 / 2 ^ 45 := hs.hi
      nlinarith [abs_nonneg (rv t)]
    obtain ⟨_, st⟩ := mulR hs.fin ft (le_trans hP (by norm_num))
    have g := st.g2 (le_trans hP (by norm_num))
    refine ⟨le_trans g (by norm_num), ?_⟩
    have := abs_add_le (rv scaleUV * rv t) (rv (scaleUV * t) - rv scaleUV * rv t)
    rw [add_sub_cancel] at this
    norm_num at g ⊢
    linarith
  obtain ⟨ex, mx⟩ := sc _ fN.1 bN.1
  obtain ⟨ey, my⟩ := sc _ fN.2.1 bN.2.1
  have be1 : |rv e.1| ≤ 101 / 100 := le_trans er.b1 (by norm_num)
  have be2 : |rv e.2| ≤ 101 / 100 := le_trans er.b2 (by norm_num)
  -- the relation in terms of +S (for −S multiply by −1)
  have hrel : |rv (scaleUV * N0.x) * rv e.1 + rv (scaleUV * N0.y) * rv e.2 + rv N0.z| ≤ 3 * uR * (21 / 20 + 21 / 20) := by
    have h := er.rel
    rcases hsgn with ⟨a1, a2, a3⟩ | ⟨a1, a2, a3⟩
    · rw [a1, a2, a3] at h
      refine le_trans h ?_
      exact mul_le_mul_of_nonneg_left (by linarith) (by rw [huv]; positivity)
    · rw [a1, a2, a3] at h
      have e' : -rv (scaleUV * N0.x) * rv e.1 + -rv (scaleUV * N0.y) * rv e.2 + -rv N0.z =
          -(rv (scaleUV * N0.x) * rv e.1 + rv (scaleUV * N0.y) * rv e.2 + rv N0.z) := by ring
      rw [e', abs_neg, abs_neg, abs_neg] at h
      refine le_trans h ?_
      exact mul_le_mul_of_nonneg_left (by linarith) (by rw [huv]; positivity)
  have d1' : |rv (scaleUV * e.1) - rv scaleUV * rv e.1| ≤ 1 / 2 ^ 52 := le_trans d1 (by norm_num)
  have d2' : |rv (scaleUV * e.2) - rv scaleUV * rv e.2| ≤ 1 / 2 ^ 52 := le_trans d2 (by norm_num)
  have hpl := plane_real ex ey d1' d2' hrel be1 be2 bN.1 bN.2.1
  -- through the normalisation
  have hdd := hd (rv (scaleUV * e.1)) (rv (scaleUV * e.2)) 1
  simp only [mul_one, abs_one] at hdd
  have hsq : (1 : ℝ) + 1 / 2 ^ 44 = DR.sq' := rfl
  refine ⟨⟨g1, g2, one_fin⟩, by rw [← hsq]; exact m1, by rw [← hsq]; exact m2, rv_one, ?_⟩
  show |rv nh.x * rv (scaleUV * e.1) + rv nh.y * rv (scaleUV * e.2) + rv nh.z| ≤ DR.kap
  have hk : DR.kap = 1 / 2 ^ 48 := rfl
  rw [hk]
  have a1 := abs_le.1 hdd
  have hm1 : |rv (scaleUV * e.1)| ≤ 1 + 1 / 2 ^ 44 := m1
  have hm2 : |rv (scaleUV * e.2)| ≤ 1 + 1 / 2 ^ 44 := m2
  have iN : |i * (rv N0.x * rv (scaleUV * e.1) + rv N0.y * rv (scaleUV * e.2) + rv N0.z)| ≤
      101 / 100 * (3 * uR * (21 / 20 + 21 / 20) + 5 * (1 / 2 ^ 52)) := by
    rw [abs_mul, abs_of_nonneg hi0]
    exact mul_le_mul hi1 hpl (abs_nonneg _) (by norm_num)
  have a3 := abs_le.1 iN
  rw [huv] at a3
  rw [abs_le]
  constructor <;> norm_num at a1 a3 hm1 hm2 ⊢ <;> linarith

/-- **the context holds** for every unit-ish `a`, every face, as soon as the clipped line meets the face -/
theorem degen_ctx (a : V3) (ha : UnitIsh a) (f : Nat) (hi : intersectsFace (scaledNormal a a f) = true) : DCtx a f := by
  -- the vertex
  have fA := fin3_uvw f ha.fin
  have bA := coord_uvw f ha.coord_le1
  have nA : n2R (faceXYZtoUVW f a) = n2R a := n2R_uvw f a
  have hn2a := ha.n2
  have ha2 := abs_le.1 hn2a
  -- the raw normal
  have hraw : rawNormal a a f = faceXYZtoUVW f a.ortho := by unfold rawNormal; rw [pointCross_self a ha]
  have hno := ortho_normed a ha
  have fN : Fin3 (rawNormal a a f) := by rw [hraw]; exact fin3_uvw f hno.1
  have nN : n2R (rawNormal a a f) = n2R a.ortho := by rw [hraw]; exact n2R_uvw f _
  have hN2 := abs_le.1 hno.n2
  have bO : |rv a.ortho.x| ≤ 101 / 100 ∧ |rv a.ortho.y| ≤ 101 / 100 ∧ |rv a.ortho.z| ≤ 101 / 100 := by
    have q1 := sq_nonneg (rv a.ortho.x)
    have q2 := sq_nonneg (rv a.ortho.y)
    have q3 := sq_nonneg (rv a.ortho.z)
    have hV : n2R a.ortho ≤ 1 + 1 / 2 ^ 16 := by norm_num at hN2 ⊢; linarith [hN2.2]
    have e : n2R a.ortho = rv a.ortho.x ^ 2 + rv a.ortho.y ^ 2 + rv a.ortho.z ^ 2 := rfl
    exact ⟨abs_le_101 (by rw [e]; linarith) hV, abs_le_101 (by rw [e]; linarith) hV, abs_le_101 (by rw [e]; linarith) hV⟩
  have bN : |rv (rawNormal a a f).x| ≤ 101 / 100 ∧ |rv (rawNormal a a f).y| ≤ 101 / 100 ∧
      |rv (rawNormal a a f).z| ≤ 101 / 100 := by rw [hraw]; exact coord_uvw f bO
  have hNlo : 3 / 4 ≤ n2R (rawNormal a a f) := by rw [nN]; norm_num at hN2 ⊢; linarith [hN2.1]
  have hNlo' : 1 - 1 / 2 ^ 49 ≤ n2R (rawNormal a a f) := by rw [nN]; norm_num at hN2 ⊢; linarith [hN2.1]
  have hNhi : n2R (rawNormal a a f) ≤ 2 := by rw [nN]; norm_num at hN2 ⊢; linarith [hN2.2]
  -- the re-normalised normal
  have hnh : nHat a a f = (rawNormal a a f).normalize := by
    unfold nHat
    rw [no_rescale _ fN hNlo]
    simp
  obtain ⟨i, i0, iv1, iv2, fn, c1, c2, c3, hd⟩ := normalize_dot (rawNormal a a f) fN (by linarith) hNhi
  have h600b : (2 : ℝ) ≤ 2 ^ 600 := by
    calc (2 : ℝ) = 2 ^ 1 := by norm_num
      _ ≤ 2 ^ 600 := pow_le_pow_right₀ (by norm_num) (by norm_num)
  have h600a : (1 : ℝ) / 2 ^ 600 ≤ 1 / 2 := one_div_le_one_div_of_le (by norm_num) h600b
  have hhalf : (1 : ℝ) / 2 ≤ n2R (rawNormal a a f) := by linarith
  have hnn := normalize_normed (rawNormal a a f) fN (le_trans h600a hhalf) (le_trans hNhi h600b)
  have hi1 : i ≤ 101 / 100 := by
    by_contra hc
    have hc' : (101 / 100 : ℝ) < i := not_le.1 hc
    have h2 : (101 / 100 : ℝ) ^ 2 < i ^ 2 := pow_lt_pow_left₀ hc' (by norm_num) (by norm_num)
    have h3 : (101 / 100 : ℝ) ^ 2 * n2R (rawNormal a a f) ≤ i ^ 2 * n2R (rawNormal a a f) :=
      mul_le_mul_of_nonneg_right (le_of_lt h2) (by linarith)
    norm_num at h3 iv1 hNlo'
    nlinarith
  have hnok := scaledNormal_nok a a ha ha f
  have er1 := exitPoint_rel _ hnok hi
  have hnok' := nok_neg _ hnok
  have hi' : intersectsFace ((scaledNormal a a f).mul negOne) = true := by
    rw [intersectsFace_neg _ hnok.fin]; exact hi
  have er2 := exitPoint_rel _ hnok' hi'
  have hneg := mul_negOne_eq hnok.fin
  have b48 : (1 : ℝ) + 1 / 2 ^ 48 ≤ 21 / 20 := by norm_num
  refine ⟨fA, bA, by rw [nA]; linarith [ha2.1], by rw [nA]; linarith [ha2.2], by rw [hnh]; exact fn,
    by rw [hnh]; exact ⟨le_trans c1 b48, le_trans c2 b48, le_trans c3 b48⟩,
    by rw [hnh]; have := hnn.n2_ge; norm_num at this ⊢; linarith,
    by rw [hnh]; have := hnn.n2_le; norm_num at this ⊢; linarith, ?_, ?_, ?_⟩
  · -- n̂ · A
    rw [hnh]
    have h := hd (rv (faceXYZtoUVW f a).x) (rv (faceXYZtoUVW f a).y) (rv (faceXYZtoUVW f a).z)
    have hp : dotRV (rawNormal a a f) (faceXYZtoUVW f a) = dotRV a.ortho a := by rw [hraw]; exact dotRV_uvw f _ _
    have hperp := ortho_perp a ha
    rw [← hp] at hperp
    unfold dotRV at hperp ⊢
    have hk : DR.kap = 1 / 2 ^ 48 := rfl
    rw [hk]
    have iN : |i * (rv (rawNormal a a f).x * rv (faceXYZtoUVW f a).x + rv (rawNormal a a f).y * rv (faceXYZtoUVW f a).y +
        rv (rawNormal a a f).z * rv (faceXYZtoUVW f a).z)| ≤ 101 / 100 * (1 / 2 ^ 50) := by
      rw [abs_mul, abs_of_nonneg i0]
      exact mul_le_mul hi1 hperp (abs_nonneg _) (by norm_num)
    have a1 := abs_le.1 h
    have a3 := abs_le.1 iN
    obtain ⟨x1, x2, x3⟩ := bA
    rw [abs_le]
    constructor <;> norm_num at a1 a3 ⊢ <;> linarith
  · -- the exit vector of scaledN
    rw [hnh]
    have sx : (scaledNormal a a f).x = scaleUV * (rawNormal a a f).x := by simp only [scaledNormal]
    have sy : (scaledNormal a a f).y = scaleUV * (rawNormal a a f).y := by simp only [scaledNormal]
    have sz : (scaledNormal a a f).z = (rawNormal a a f).z := by simp only [scaledNormal]
    have ex := congrArg rv sx
    have ey := congrArg rv sy
    have ez := congrArg rv sz
    have := exitOK_of_rel fN bN (Or.inl ex) (Or.inl ey) (Or.inl ez) (Or.inl ⟨ex, ey, ez⟩) er1 i0 hi1 hd
    exact this
  · -- the exit vector of −scaledN
    rw [hnh]
    have sx : (scaledNormal a a f).x = scaleUV * (rawNormal a a f).x := by simp only [scaledNormal]
    have sy : (scaledNormal a a f).y = scaleUV * (rawNormal a a f).y := by simp only [scaledNormal]
    have sz : (scaledNormal a a f).z = (rawNormal a a f).z := by simp only [scaledNormal]
    have ex : rv ((scaledNormal a a f).mul negOne).x = -rv (scaleUV * (rawNormal a a f).x) := by
      rw [hneg, ← sx]; exact rv_neg _
    have ey : rv ((scaledNormal a a f).mul negOne).y = -rv (scaleUV * (rawNormal a a f).y) := by
      rw [hneg, ← sy]; exact rv_neg _
    have ez : rv ((scaledNormal a a f).mul negOne).z = -rv (rawNormal a a f).z := by
      rw [hneg, ← sz]; exact rv_neg _
    have := exitOK_of_rel fN bN (Or.inr ex) (Or.inr ey) (Or.inr ez) (Or.inr ⟨ex, ey, ez⟩) er2 i0 hi1 hd
    exact this

/-! ### from the float tests to the determinants -/

theorem triple_det (n A P : V3) :
    tripleR n A P A = DR.det3 (rv n.x) (rv n.y) (rv n.z) (rv A.x) (rv A.y) (rv A.z) (rv P.x) (rv P.y) (rv P.z) := by
  unfold tripleR DR.det3; ring

theorem triple_det' (n A P : V3) :
    tripleR A n P A = -DR.det3 (rv n.x) (rv n.y) (rv n.z) (rv A.x) (rv A.y) (rv A.z) (rv P.x) (rv P.y) (rv P.z) := by
  unfold tripleR DR.det3; ring

/-- the two tangent tests of one exit vector `P`, as statements about `det(n̂, A, P)` -/
theorem tests_of_exit {a : V3} {f : Nat} (c : DCtx a f) {P : V3} (hP : ExitOK (nHat a a f) P) :
    (F64.lt ((P.sub (faceXYZtoUVW f a)).dot ((nHat a a f).cross (faceXYZtoUVW f a))) fzero = false →
      -(1 / 2 ^ 46) ≤ DR.det3 (rv (nHat a a f).x) (rv (nHat a a f).y) (rv (nHat a a f).z)
        (rv (faceXYZtoUVW f a).x) (rv (faceXYZtoUVW f a).y) (rv (faceXYZtoUVW f a).z) (rv P.x) (rv P.y) 1) ∧
    (F64.lt ((P.sub (faceXYZtoUVW f a)).dot ((faceXYZtoUVW f a).cross (nHat a a f))) fzero = false →
      DR.det3 (rv (nHat a a f).x) (rv (nHat a a f).y) (rv (nHat a a f).z)
        (rv (faceXYZtoUVW f a).x) (rv (faceXYZtoUVW f a).y) (rv (faceXYZtoUVW f a).z) (rv P.x) (rv P.y) 1 ≤ 1 / 2 ^ 46) := by
  have hs : DR.sq' ≤ 101 / 100 := by unfold DR.sq'; norm_num
  have bP : |rv P.x| ≤ 101 / 100 ∧ |rv P.y| ≤ 101 / 100 ∧ |rv P.z| ≤ 101 / 100 :=
    ⟨le_trans hP.bx hs, le_trans hP.bY hs, by rw [hP.vz]; norm_num⟩
  have bA' : |rv (faceXYZtoUVW f a).x| ≤ 21 / 20 ∧ |rv (faceXYZtoUVW f a).y| ≤ 21 / 20 ∧ |rv (faceXYZtoUVW f a).z| ≤ 21 / 20 :=
    ⟨by linarith [c.bA.1], by linarith [c.bA.2.1], by linarith [c.bA.2.2]⟩
  obtain ⟨f1, e1⟩ := test_err (nHat a a f) (faceXYZtoUVW f a) P (faceXYZtoUVW f a) c.fn c.fA hP.fin c.fA c.bn bA' bP c.bA
  obtain ⟨f2, e2⟩ := test_err (faceXYZtoUVW f a) (nHat a a f) P (faceXYZtoUVW f a) c.fA c.fn hP.fin c.fA bA' c.bn bP c.bA
  rw [triple_det, hP.vz] at e1
  rw [triple_det', hP.vz] at e2
  constructor
  · intro h
    have h0 : ¬ (rv ((P.sub (faceXYZtoUVW f a)).dot ((nHat a a f).cross (faceXYZtoUVW f a))) < rv fzero) := by
      intro hc; rw [(lt_iff_rv f1 fzero_fin).2 hc] at h; cases h
    rw [rv_fzero] at h0
    have := (abs_le.1 e1).2
    linarith [not_lt.1 h0]
  · intro h
    have h0 : ¬ (rv ((P.sub (faceXYZtoUVW f a)).dot ((faceXYZtoUVW f a).cross (nHat a a f))) < rv fzero) := by
      intro hc; rw [(lt_iff_rv f2 fzero_fin).2 hc] at h; cases h
    rw [rv_fzero] at h0
    have := (abs_le.1 e2).2
    linarith [not_lt.1 h0]

/-- the re-projection is `CoordOK` once `A/A.w` is in the square of half-width `1 + 2^-41` -/
theorem reproj_ok {A : V3} (fA : Fin3 A) (h3 : 1 / 3 ≤ rv A.z) (h1 : |rv A.x| ≤ DR.bigR * rv A.z)
    (h2 : |rv A.y| ≤ DR.bigR * rv A.z) : UVOK (A.x / A.z, A.y / A.z) := by
  have hz : rv A.z ≠ 0 := by intro h; rw [h] at h3; norm_num at h3
  have hzp : 0 < rv A.z := by linarith
  have hR : DR.bigR = 1 + 1 / 2 ^ 41 := rfl
  have one : ∀ x : F64, Fin x → |rv x| ≤ DR.bigR * rv A.z → CoordOK (x / A.z) := by
    intro x fx hx
    have hq : |rv x / rv A.z| ≤ 1 + 1 / 2 ^ 41 := by
      rw [abs_div, abs_of_pos hzp, div_le_iff₀ hzp, ← hR]; exact hx
    obtain ⟨fq, sq⟩ := divR fx fA.2.2 hz (le_trans hq (by norm_num))
    have g := sq.g2 (le_trans hq (by norm_num))
    refine ⟨fq, ?_⟩
    have := abs_add_le (rv x / rv A.z) (rv (x / A.z) - rv x / rv A.z)
    rw [add_sub_cancel] at this
    have e : (1 : ℝ) + 1 / 2 ^ 41 + 1 / 2 ^ 53 ≤ 1 + 1 / 2 ^ 40 := by norm_num
    linarith
  exact ⟨one _ fA.1 h1, one _ fA.2.1 h2⟩

/-- an exit vector's uv point is `CoordOK` -/
theorem exit_uvok {n P : V3} (h : ExitOK n P) : CoordOK P.x ∧ CoordOK P.y := by
  have hs : DR.sq' ≤ 1 + 1 / 2 ^ 40 := by unfold DR.sq'; norm_num
  exact ⟨⟨h.fin.1, le_trans h.bx hs⟩, ⟨h.fin.2.1, le_trans h.bY hs⟩⟩

/-! ### the three geometric conclusions -/

section concl
variable {a : V3} {f : Nat} (c : DCtx a f)
include c

theorem az_pos (hz : F64.le (faceXYZtoUVW f a).z fzero = false) : 0 < rv (faceXYZtoUVW f a).z := by
  by_contra hc
  have := (le_iff_rv c.fA.2.2 fzero_fin).2 (by rw [rv_fzero]; exact not_lt.1 hc)
  rw [this] at hz; cases hz

/-- both tests of ONE exit vector are non-negative: the vertex is on the ray of that exit vector -/
theorem reproj_of_zero {P : V3} (hP : ExitOK (nHat a a f) P)
    (h1 : F64.lt ((P.sub (faceXYZtoUVW f a)).dot ((nHat a a f).cross (faceXYZtoUVW f a))) fzero = false)
    (h2 : F64.lt ((P.sub (faceXYZtoUVW f a)).dot ((faceXYZtoUVW f a).cross (nHat a a f))) fzero = false)
    (hz : F64.le (faceXYZtoUVW f a).z fzero = false) :
    UVOK ((faceXYZtoUVW f a).x / (faceXYZtoUVW f a).z, (faceXYZtoUVW f a).y / (faceXYZtoUVW f a).z) := by
  obtain ⟨t1, t2⟩ := tests_of_exit c hP
  have d1 := t1 h1
  have d2 := t2 h2
  have he : (1 : ℝ) / 2 ^ 46 ≤ DR.eps1 := by unfold DR.eps1; norm_num
  have hd : |DR.det3 (rv (nHat a a f).x) (rv (nHat a a f).y) (rv (nHat a a f).z)
      (rv (faceXYZtoUVW f a).x) (rv (faceXYZtoUVW f a).y) (rv (faceXYZtoUVW f a).z) (rv P.x) (rv P.y) 1| ≤ DR.eps1 := by
    rw [abs_le]; constructor <;> linarith
  obtain ⟨g1, g2, g3⟩ := DR.G1 c.nn_lo c.nA_lo c.nA_hi (az_pos c hz) hP.bx hP.bY hd c.perpA hP.perp
  exact reproj_ok c.fA g3 g1 g2

/-- the first test of the exit vector `P` of `scaledN` and the first test of the exit vector `P'` of `−scaledN` are
    non-negative: the vertex is between the two exit points -/
theorem reproj_of_between {P P' : V3} (hP : ExitOK (nHat a a f) P) (hP' : ExitOK (nHat a a f) P')
    (h1 : F64.lt ((P.sub (faceXYZtoUVW f a)).dot ((nHat a a f).cross (faceXYZtoUVW f a))) fzero = false)
    (h2 : F64.lt ((P'.sub (faceXYZtoUVW f a)).dot ((faceXYZtoUVW f a).cross (nHat a a f))) fzero = false)
    (hz : F64.le (faceXYZtoUVW f a).z fzero = false) :
    UVOK ((faceXYZtoUVW f a).x / (faceXYZtoUVW f a).z, (faceXYZtoUVW f a).y / (faceXYZtoUVW f a).z) := by
  have d1 := (tests_of_exit c hP).1 h1
  have d2 := (tests_of_exit c hP').2 h2
  have he : (1 : ℝ) / 2 ^ 46 ≤ DR.eps1 := by unfold DR.eps1; norm_num
  have e : DR.det3 (rv (nHat a a f).x) (rv (nHat a a f).y) (rv (nHat a a f).z) (rv P'.x) (rv P'.y) 1
      (rv (faceXYZtoUVW f a).x) (rv (faceXYZtoUVW f a).y) (rv (faceXYZtoUVW f a).z) =
      -DR.det3 (rv (nHat a a f).x) (rv (nHat a a f).y) (rv (nHat a a f).z)
        (rv (faceXYZtoUVW f a).x) (rv (faceXYZtoUVW f a).y) (rv (faceXYZtoUVW f a).z) (rv P'.x) (rv P'.y) 1 := by
    unfold DR.det3; ring
  obtain ⟨g1, g2, g3⟩ := DR.G2 c.nn_lo c.nn_hi c.nA_lo c.nA_hi (az_pos c hz) hP'.bx hP'.bY hP.bx hP.bY
    (by linarith) (by rw [e]; linarith) c.perpA hP.perp hP'.perp
  exact reproj_ok c.fA g3 g1 g2

end concl

/-! ### the theorem -/

/-- **degenerate edges**: every endpoint `ClipToPaddedFace(a, a, f, cellPadding)` returns is `CoordOK`, for every unit-ish `a`
    and every face — including the re-projection branch of `clipDestination` -/
theorem clip_degenerate_ok (a : V3) (ha : UnitIsh a) (f : Nat) (p q : R2)
    (h : clipToPaddedFace a a f cellPadding = some (p, q)) : UVOK p ∧ UVOK q := by
  rw [clip_eq'] at h
  split at h
  · rename_i hsame
    simp only [Bool.and_eq_true, beq_iff_eq] at hsame
    have := Option.some.inj h
    obtain ⟨_, _, _, ca1, ca2, _, _⟩ := validFace_spec a ha f hsame.1
    rw [Prod.mk.injEq] at this
    rw [← this.1, ← this.2]
    exact ⟨⟨ca1, ca2⟩, ⟨ca1, ca2⟩⟩
  · split at h
    · cases h
    · rename_i hint
      have hi : intersectsFace (scaledNormal a a f) = true := by
        cases hc : intersectsFace (scaledNormal a a f)
        · rw [hc] at hint; exact absurd rfl hint
        · rfl
      have c := degen_ctx a ha f hi
      have xA := exit_uvok c.exit2
      have xB := exit_uvok c.exit1
      have kA := clipDestination_kind (faceXYZtoUVW f a) (faceXYZtoUVW f a) ((scaledNormal a a f).mul negOne)
        ((faceXYZtoUVW f a).cross (nHat a a f)) ((nHat a a f).cross (faceXYZtoUVW f a)) scaleUV
      have kB := clipDestination_kind (faceXYZtoUVW f a) (faceXYZtoUVW f a) (scaledNormal a a f)
        ((nHat a a f).cross (faceXYZtoUVW f a)) ((faceXYZtoUVW f a).cross (nHat a a f)) scaleUV
      split at h
      · rename_i hsc
        have := Option.some.inj h
        rw [Prod.mk.injEq] at this
        rw [← this.1, ← this.2]
        rcases kA with ⟨ua, ea⟩ | ⟨ea, ta1, ta2⟩ | ea3 | ⟨ea, ta1, za⟩ | ⟨ea, ta1, ta2, za⟩
        · -- A early: the re-projection is fine
          rcases kB with ⟨ub, eb⟩ | ⟨eb, tb1, tb2⟩ | eb3 | ⟨eb, tb1, zb⟩ | ⟨eb, tb1, tb2, zb⟩
          · rw [ea, eb]; exact ⟨ua, ub⟩
          · rw [ea, eb]; exact ⟨ua, xB⟩
          · rw [eb3] at hsc; omega
          · rw [ea, eb]; exact ⟨ua, ua⟩
          · rw [ea, eb]; exact ⟨ua, ua⟩
        · -- A: exit point kept (score 0)
          rcases kB with ⟨ub, eb⟩ | ⟨eb, tb1, tb2⟩ | eb3 | ⟨eb, tb1, zb⟩ | ⟨eb, tb1, tb2, zb⟩
          · rw [ea, eb]; exact ⟨xA, ub⟩
          · rw [ea, eb]; exact ⟨xA, xB⟩
          · rw [eb3] at hsc; omega
          · rw [ea, eb]; exact ⟨xA, reproj_of_zero c c.exit2 ta2 ta1 zb⟩
          · rw [ea, eb]; exact ⟨xA, reproj_of_zero c c.exit2 ta2 ta1 zb⟩
        · rw [ea3] at hsc; omega
        · -- A re-projected with score 2
          rcases kB with ⟨ub, eb⟩ | ⟨eb, tb1, tb2⟩ | eb3 | ⟨eb, tb1, zb⟩ | ⟨eb, tb1, tb2, zb⟩
          · rw [ea, eb]; exact ⟨ub, ub⟩
          · rw [ea, eb]; exact ⟨reproj_of_zero c c.exit1 tb1 tb2 za, xB⟩
          · rw [eb3] at hsc; omega
          · rw [ea, eb] at hsc; simp at hsc
          · rw [ea, eb] at hsc; simp at hsc
        · -- A re-projected with score 1
          rcases kB with ⟨ub, eb⟩ | ⟨eb, tb1, tb2⟩ | eb3 | ⟨eb, tb1, zb⟩ | ⟨eb, tb1, tb2, zb⟩
          · rw [ea, eb]; exact ⟨ub, ub⟩
          · rw [ea, eb]; exact ⟨reproj_of_zero c c.exit1 tb1 tb2 za, xB⟩
          · rw [eb3] at hsc; omega
          · rw [ea, eb] at hsc; simp at hsc
          · rw [ea, eb]
            have := reproj_of_between c c.exit1 c.exit2 tb1 ta1 za
            exact ⟨this, this⟩
      · cases h

/-! ### `addFaceEdge` and the whole collection -/

/-- every face edge `addFaceEdge` appends for a degenerate edge at a unit-ish point has `CoordOK` endpoints -/
theorem addFaceEdge_degenerate (fe : FaceEdge) (h0 : UnitIsh fe.v0) (hd : fe.v0 = fe.v1) :
    ∀ p ∈ addFaceEdge fe, UVOK p.2.a ∧ UVOK p.2.b := by
  intro p hp
  have h1 : UnitIsh fe.v1 := hd ▸ h0
  obtain ⟨_, _, _, ca, cb⟩ := addFaceEdge_ok fe h0 h1 p hp
  unfold addFaceEdge at hp
  simp only at hp
  split at hp
  · -- fast path: already `CoordOK`
    rcases ca with ca | ca
    · rcases cb with cb | cb
      · exact ⟨ca, cb⟩
      · rename_i fe' heq
        split at heq
        · split at heq
          · rename_i hle
            have := Option.some.inj heq
            subst this
            simp only [List.mem_singleton] at hp
            subst hp
            simp only [Bool.and_eq_true] at hle
            obtain ⟨⟨⟨l1, l2⟩, l3⟩, l4⟩ := hle
            have m := maxUV_facts
            exact ⟨ca, ⟨coordOK_of_abs_le m.1 m.2 l3, coordOK_of_abs_le m.1 m.2 l4⟩⟩
          · cases heq
        · cases heq
    · rename_i fe' heq
      split at heq
      · split at heq
        · rename_i hle
          have := Option.some.inj heq
          subst this
          simp only [List.mem_singleton] at hp
          subst hp
          simp only [Bool.and_eq_true] at hle
          obtain ⟨⟨⟨l1, l2⟩, l3⟩, l4⟩ := hle
          have m := maxUV_facts
          exact ⟨⟨coordOK_of_abs_le m.1 m.2 l1, coordOK_of_abs_le m.1 m.2 l2⟩,
            ⟨coordOK_of_abs_le m.1 m.2 l3, coordOK_of_abs_le m.1 m.2 l4⟩⟩
        · cases heq
      · cases heq
  · rw [List.mem_filterMap] at hp
    obtain ⟨face, _, hsome⟩ := hp
    split at hsome
    · rename_i a b hclip
      have := Option.some.inj hsome
      subst this
      rw [← hd] at hclip
      exact clip_degenerate_ok fe.v0 h0 face a b hclip
    · cases hsome

theorem allFaceEdges_degenerate (shapes : Array Shape) (hu : VerticesUnit shapes) :
    ∀ p ∈ allFaceEdges shapes, p.2.v0 = p.2.v1 → UVOK p.2.a ∧ UVOK p.2.b := by
  intro p hp hd
  have he := allFaceEdges_ok shapes hu p hp
  unfold allFaceEdges at hp
  rw [List.mem_flatMap] at hp
  obtain ⟨id, hid, hp⟩ := hp
  rw [List.mem_range] at hid
  unfold shapeFaceEdges at hp
  rw [List.mem_flatMap] at hp
  obtain ⟨e, he', hp⟩ := hp
  rw [List.mem_range] at he'
  obtain ⟨u0, u1⟩ := hu id hid e he'
  obtain ⟨_, a2, a3, _, _⟩ := addFaceEdge_ok _ (by exact u0) (by exact u1) p hp
  exact addFaceEdge_degenerate _ (by exact u0) (by rw [← a2, ← a3]; exact hd) p hp

end S2Proofs.C06Face
