/-
  S2Proofs.CellIDRoundTrip — helper lemmas for the round-trip properties of C01:
  tokens (`toToken` / `fromToken`), debug strings (`toStr` / `fromStr`) and `maxTile`.
-/
import S2Proofs.CellIDLemmas
open S2 S2.CellID
namespace S2Proofs

/-! ### A. tokens -/

/-- the `n` low hex digits of `x`, most significant first -/
def hexDigitsR : Nat → Nat → List Char
  | 0, _ => []
  | n+1, x => hexDigitsR n (x / 16) ++ [hexDigit (x % 16)]

theorem hexDigitsR_length (n x : Nat) : (hexDigitsR n x).length = n := by
  induction n generalizing x with
  | zero => rfl
  | succ n ih => simp [hexDigitsR, ih]

theorem hexDigitsR_eq_map (n x : Nat) :
    hexDigitsR n x = (List.range n).map fun k => hexDigit (x / 16^(n-1-k) % 16) := by
  induction n generalizing x with
  | zero => rfl
  | succ n ih =>
    rw [hexDigitsR, ih, List.range_succ, List.map_append]
    congr 1
    · apply List.map_congr_left
      intro k hk
      have hk := List.mem_range.mp hk
      have : n + 1 - 1 - k = (n - 1 - k) + 1 := by omega
      rw [this, Nat.pow_succ, Nat.mul_comm, Nat.div_div_eq_div_mul]
    · simp

theorem nibble_toNat (x : UInt64) (s : Nat) (hs : s < 64) :
    ((x >>> UInt64.ofNat s) &&& 15).toNat = x.toNat / 2^s % 16 := by
  rw [UInt64.toNat_and, shiftRight_lit_toNat x s hs]
  exact Nat.and_two_pow_sub_one_eq_mod _ 4

theorem hex16_eq (x : UInt64) : hex16 x = hexDigitsR 16 x.toNat := by
  rw [hexDigitsR_eq_map]
  unfold hex16
  apply List.map_congr_left
  intro k hk
  have hk := List.mem_range.mp hk
  rw [nibble_toNat _ _ (by omega), Nat.pow_mul]

theorem dropTrailingZeros_snoc (l : List Char) (c : Char) :
    dropTrailingZeros (l ++ [c]) = if c == '0' then dropTrailingZeros l else l ++ [c] := by
  unfold dropTrailingZeros
  rw [List.reverse_append, List.reverse_singleton, List.singleton_append, List.dropWhile_cons]
  split <;> simp

theorem hexVal_hexDigit (d : Nat) (hd : d < 16) : hexVal (hexDigit d) = some d := by
  interval_cases d <;> decide

theorem hexDigit_eq_zero (d : Nat) (hd : d < 16) : hexDigit d = '0' ↔ d = 0 := by
  interval_cases d <;> decide

/-- lower-case hex digit -/
def IsLowerHex (c : Char) : Prop := ('0' ≤ c ∧ c ≤ '9') ∨ ('a' ≤ c ∧ c ≤ 'f')

instance (c : Char) : Decidable (IsLowerHex c) := by unfold IsLowerHex; infer_instance

theorem hexDigit_isLowerHex (d : Nat) (hd : d < 16) : IsLowerHex (hexDigit d) := by
  interval_cases d <;> decide

theorem hexDigitsR_isLowerHex (n x : Nat) : ∀ c ∈ hexDigitsR n x, IsLowerHex c := by
  induction n generalizing x with
  | zero => intro c hc; simp [hexDigitsR] at hc
  | succ n ih =>
    intro c hc
    rw [hexDigitsR, List.mem_append, List.mem_singleton] at hc
    rcases hc with hc | rfl
    · exact ih _ c hc
    · exact hexDigit_isLowerHex _ (Nat.mod_lt _ (by omega))

/-- the accumulator step of `parseHex` -/
def hexStep (acc : Option Nat) (c : Char) : Option Nat :=
  match acc, hexVal c with
  | some a, some v => some (16 * a + v)
  | _, _ => none

theorem parseHex_eq (cs : List Char) (h : cs ≠ []) : parseHex cs = cs.foldl hexStep (some 0) := by
  unfold parseHex
  have : cs.isEmpty = false := by cases cs <;> simp_all
  rw [this]; rfl

theorem foldl_hexDigitsR (n a y : Nat) (hy : y < 16^n) :
    (hexDigitsR n y).foldl hexStep (some a) = some (a * 16^n + y) := by
  induction n generalizing y with
  | zero => simp [hexDigitsR] at *; omega
  | succ n ih =>
    have h16 : y / 16 < 16^n := by
      rw [Nat.pow_succ] at hy; omega
    rw [hexDigitsR, List.foldl_append, ih _ h16]
    simp only [List.foldl_cons, List.foldl_nil, hexStep, hexVal_hexDigit _ (Nat.mod_lt y (by omega : 0 < 16))]
    congr 1
    rw [Nat.pow_succ]
    have := Nat.div_add_mod y 16
    rw [Nat.mul_add, ← Nat.mul_assoc, Nat.mul_comm 16 a, Nat.mul_assoc]
    have e : a * (16 * 16^n) = a * (16^n * 16) := by rw [Nat.mul_comm 16]
    omega

/-- the trimmed digit string of a non-zero `x < 16^n` -/
theorem trimmed_spec (n x : Nat) (h0 : 0 < x) (hx : x < 16^n) :
    let s := dropTrailingZeros (hexDigitsR n x)
    s ≠ [] ∧ s.length ≤ n ∧ (∀ c ∈ s, IsLowerHex c) ∧ s.getLast? ≠ some '0' ∧
      ∃ v, s.foldl hexStep (some 0) = some v ∧ v * 16^(n - s.length) = x := by
  induction n generalizing x with
  | zero => simp at hx; omega
  | succ n ih =>
    intro s
    have hs : s = if hexDigit (x % 16) == '0' then dropTrailingZeros (hexDigitsR n (x / 16))
        else hexDigitsR n (x / 16) ++ [hexDigit (x % 16)] := by
      show dropTrailingZeros (hexDigitsR (n+1) x) = _
      rw [hexDigitsR, dropTrailingZeros_snoc]
    have hm : x % 16 < 16 := Nat.mod_lt _ (by omega)
    by_cases hz : x % 16 = 0
    · have hd : (hexDigit (x % 16) == '0') = true := by
        rw [beq_iff_eq]; exact (hexDigit_eq_zero _ hm).mpr hz
      rw [hd] at hs; simp only [if_true] at hs
      have h16 : x / 16 < 16^n := by rw [Nat.pow_succ] at hx; omega
      obtain ⟨h1, h2, h3, h4, v, hv, hvx⟩ := ih (x / 16) (by omega) h16
      rw [hs]
      refine ⟨h1, by omega, h3, h4, v, hv, ?_⟩
      have : n + 1 - (dropTrailingZeros (hexDigitsR n (x / 16))).length
          = (n - (dropTrailingZeros (hexDigitsR n (x / 16))).length) + 1 := by omega
      rw [this, Nat.pow_succ, ← Nat.mul_assoc, hvx]; omega
    · have hd : (hexDigit (x % 16) == '0') = false := by
        rw [beq_eq_false_iff_ne]; intro h; exact hz ((hexDigit_eq_zero _ hm).mp h)
      rw [hd] at hs; simp only [Bool.false_eq_true, if_false] at hs
      have hs' : s = hexDigitsR (n+1) x := by rw [hs, hexDigitsR]
      refine ⟨?_, ?_, ?_, ?_, x, ?_, ?_⟩
      · rw [hs]; simp
      · rw [hs', hexDigitsR_length]
      · rw [hs']; exact hexDigitsR_isLowerHex _ _
      · rw [hs, List.getLast?_append]; simp
        intro h; exact hz ((hexDigit_eq_zero _ hm).mp h)
      · rw [hs', foldl_hexDigitsR _ _ _ hx]; simp
      · rw [hs', hexDigitsR_length]; simp

theorem hexDigitsR_zero (n : Nat) : dropTrailingZeros (hexDigitsR n 0) = [] := by
  induction n with
  | zero => rfl
  | succ n ih =>
    have h0 : hexDigit (0 % 16) = '0' := by decide
    rw [hexDigitsR, dropTrailingZeros_snoc, h0]
    simpa using ih

/-- shifting the parsed value back into place -/
theorem shl_nibbles_toNat (v len : Nat) (hlen : 0 < len) (hlen16 : len ≤ 16)
    (hv : v * 16^(16 - len) < 2^64) :
    (UInt64.ofNat v <<< UInt64.ofNat (4 * (16 - len))).toNat = v * 16^(16 - len) := by
  rw [UInt64.toNat_shiftLeft, UInt64.toNat_ofNat', UInt64.toNat_ofNat', Nat.shiftLeft_eq]
  have hpos : 0 < 16^(16 - len) := Nat.pow_pos (by omega)
  have hv' : v < 2^64 := by
    have : v ≤ v * 16^(16 - len) := Nat.le_mul_of_pos_right _ hpos
    omega
  have e1 : 4 * (16 - len) % 2^64 % 64 = 4 * (16 - len) := by omega
  rw [e1, Nat.mod_eq_of_lt hv', Nat.pow_mul]
  exact Nat.mod_eq_of_lt hv

/-- everything there is to know about the token of a non-zero word -/
theorem toToken_spec (id : UInt64) (h : id ≠ 0) :
    ∃ s : List Char, toToken id = String.ofList s ∧ s ≠ [] ∧ s.length ≤ 16 ∧
      (∀ c ∈ s, IsLowerHex c) ∧ s.getLast? ≠ some '0' ∧
      ∃ v, parseHex s = some v ∧ v * 16^(16 - s.length) = id.toNat := by
  have hpos : 0 < id.toNat := by
    rcases Nat.eq_zero_or_pos id.toNat with h0 | h0
    · exact absurd (UInt64.toNat_inj.mp (by rw [h0, zero_toNat])) h
    · exact h0
  obtain ⟨h1, h2, h3, h4, v, hv, hvx⟩ := trimmed_spec 16 id.toNat hpos id.toNat_lt
  refine ⟨dropTrailingZeros (hexDigitsR 16 id.toNat), ?_, h1, h2, h3, h4, v, ?_, hvx⟩
  · unfold toToken
    simp only [hex16_eq]
    have : (dropTrailingZeros (hexDigitsR 16 id.toNat)).isEmpty = false := by
      cases hh : dropTrailingZeros (hexDigitsR 16 id.toNat) with
      | nil => exact absurd hh h1
      | cons _ _ => rfl
    rw [this]; rfl
  · rw [parseHex_eq _ h1]; exact hv

theorem fromToken_ofList (s : List Char) (v : Nat) (h1 : s ≠ []) (h2 : s.length ≤ 16)
    (hv : parseHex s = some v) (hlt : v * 16^(16 - s.length) < 2^64) :
    (fromToken (String.ofList s)).toNat = v * 16^(16 - s.length) := by
  unfold fromToken
  simp only [String.toList_ofList]
  have hlen : 0 < s.length := List.length_pos_iff.mpr h1
  rw [if_neg (by omega), hv]
  simp only []
  split
  · exact shl_nibbles_toNat v s.length hlen h2 hlt
  · have : s.length = 16 := by omega
    rw [this] at hlt ⊢
    simp only [Nat.sub_self, Nat.pow_zero, Nat.mul_one] at hlt ⊢
    rw [UInt64.toNat_ofNat']; exact Nat.mod_eq_of_lt hlt

/-! ### B. debug strings -/

theorem digitChar_toNat (n : Nat) (hn : n < 6) : (Char.ofNat (48 + n)).toNat = 48 + n := by
  interval_cases n <;> rfl

theorem childPosition_toNat (x : CellID) (n : Nat) (hn : n < 30) :
    childPosition x (n+1) = x.toNat / 2^(59 - 2*n) % 4 := by
  unfold childPosition
  have e : 2 * (maxLevel - (n+1)) + 1 = 59 - 2*n := by simp only [maxLevel]; omega
  rw [e, UInt64.toNat_and, shiftRight_lit_toNat x _ (by omega)]
  exact Nat.and_two_pow_sub_one_eq_mod _ 2

theorem childPosition_lt (x : CellID) (n : Nat) (hn : n < 30) : childPosition x (n+1) < 4 := by
  rw [childPosition_toNat x n hn]; omega

theorem rt_child_parent {x : CellID} {k n : Nat} (h : IsCell x k) (hn : n < k) :
    child (parent x n) (childPosition x (n+1)) = parent x (n+1) := by
  have hk := h.k_le
  have hp := h.parent_isCell (j := n) (by omega)
  apply UInt64.toNat_inj.mp
  rw [hp.child_toNat (by omega) (childPosition_lt x n (by omega)), childPosition_toNat x n (by omega),
    parent_toNat x n (by omega), parent_toNat x (n+1) (by omega)]
  have hn30 : n < 30 := by omega
  clear hp h
  interval_cases n <;> cell_omega

theorem rt_parent_zero (x : CellID) : parent x 0 = fromFace (face x) := by
  apply UInt64.toNat_inj.mp
  rw [parent_toNat x 0 (by omega), face_toNat]
  unfold fromFace
  rw [UInt64.toNat_add, UInt64.toNat_shiftLeft, UInt64.toNat_ofNat', lsbForLevel_toNat 0 (by omega),
    Nat.shiftLeft_eq]
  have : (61:UInt64).toNat % 64 = 61 := rfl
  rw [this]
  have := x.toNat_lt
  cell_omega

theorem IsCell.rt_parent_self {x : CellID} {k : Nat} (h : IsCell x k) : parent x k = x := by
  apply UInt64.toNat_inj.mp
  rw [parent_toNat x k h.k_le, h.low]
  have := Nat.mod_le x.toNat (2^(61 - 2*k))
  rw [h.low] at this
  omega

/-- the accumulator step of `fromStr` -/
def strStep (acc : Option CellID) (c : Char) : Option CellID :=
  match acc with
  | none => none
  | some id =>
    let cp := (c.toNat + 256 - 48) % 256
    if c.toNat ≥ 256 || cp > 3 then none else some (child id cp)

theorem strStep_digit (id : CellID) (t : Nat) (ht : t < 4) :
    strStep (some id) (Char.ofNat (48 + t)) = some (child id t) := by
  unfold strStep
  simp only [digitChar_toNat t (by omega)]
  have e : (48 + t + 256 - 48) % 256 = t := by omega
  rw [e]
  have : (decide (48 + t ≥ 256) || decide (t > 3)) = false := by
    simp; omega
  rw [this]; rfl

theorem foldl_digits {x : CellID} {k : Nat} (h : IsCell x k) (n : Nat) (hn : n ≤ k) :
    ((List.range n).map fun j => Char.ofNat (48 + childPosition x (j+1))).foldl strStep
      (some (fromFace (face x))) = some (parent x n) := by
  induction n with
  | zero => simp [rt_parent_zero]
  | succ n ih =>
    have hk := h.k_le
    rw [List.range_succ, List.map_append, List.foldl_append, ih (by omega)]
    simp only [List.map_cons, List.map_nil, List.foldl_cons, List.foldl_nil]
    rw [strStep_digit _ _ (childPosition_lt x n (by omega)), rt_child_parent h (by omega)]

theorem IsCell.toStr_eq {x : CellID} {k : Nat} (h : IsCell x k) :
    toStr x = String.ofList ((Char.ofNat (48 + face x)) :: '/' ::
      ((List.range k).map fun j => Char.ofNat (48 + childPosition x (j+1)))) := by
  have hv : isValid x = true := (isValid_iff x).mpr ⟨k, h⟩
  unfold toStr
  simp only [hv, Bool.not_true, Bool.false_eq_true, if_false, h.level_eq]

theorem fromStr_digits (f : Nat) (hf : f < 6) (ds : List Char) (hlen : ds.length ≤ 30) :
    fromStr (String.ofList (Char.ofNat (48 + f) :: '/' :: ds))
      = (ds.foldl strStep (some (fromFace f))).getD 0 := by
  unfold fromStr
  simp only [String.toList_ofList, List.length_cons, maxLevel]
  rw [if_neg (by omega), if_neg (by omega)]
  simp only [digitChar_toNat f hf]
  have e : (48 + f + 256 - 48) % 256 = f := by omega
  rw [e]
  have : (decide (48 + f ≥ 256) || decide (f > 5) || '/' != '/') = false := by
    simp; omega
  rw [this]
  rfl

theorem IsCell.fromStr_toStr {x : CellID} {k : Nat} (h : IsCell x k) : fromStr (toStr x) = x := by
  rw [h.toStr_eq, fromStr_digits _ h.face_lt6 _ (by simp; exact h.k_le),
    foldl_digits h k (Nat.le_refl k), h.rt_parent_self]
  rfl


theorem fromStr_invalid_prefix (t : String) : fromStr ("Invalid: " ++ t) = 0 := by
  unfold fromStr
  simp only [String.toList_append]
  have : "Invalid: ".toList = ['I','n','v','a','l','i','d',':',' '] := by decide
  rw [this]
  simp only [List.cons_append, List.nil_append]
  split
  · rfl
  · split
    · rfl
    · rfl

theorem toStr_invalid (x : CellID) (h : isValid x = false) : fromStr (toStr x) = 0 := by
  unfold toStr
  simp only [h, Bool.not_false, if_true]
  exact fromStr_invalid_prefix _

/-! ### C. maxTile -/

/-- the leaf range of a level-`i` cell has `2^(61-2i) - 1` ids -/
theorem IsCell.rt_rangeMax_of_min {c : CellID} {i : Nat} (h : IsCell c i) :
    (rangeMax c).toNat = (rangeMin c).toNat + 2^(61 - 2*i) - 2 := by
  rw [h.rangeMin_eq, h.rangeMax_eq]
  have hle : 2^(60 - 2*i) ≤ c.toNat := by
    have := Nat.mod_le c.toNat (2^(61 - 2*i)); rw [h.low] at this; exact this
  have e1 : 61 - 2*i = (60 - 2*i) + 1 := by have := h.k_le; omega
  have hpos := Nat.two_pow_pos (60 - 2*i)
  rw [e1, Nat.pow_succ]; omega

/-- among cells with the same `rangeMin`, coarser means larger `rangeMax` -/
theorem IsCell.rt_rangeMax_antitone {c c' : CellID} {i i' : Nat} (h : IsCell c i) (h' : IsCell c' i')
    (hmin : (rangeMin c).toNat = (rangeMin c').toNat) (hii : i ≤ i') :
    (rangeMax c').toNat ≤ (rangeMax c).toNat := by
  rw [h.rt_rangeMax_of_min, h'.rt_rangeMax_of_min, hmin]
  have : 2^(61 - 2*i') ≤ 2^(61 - 2*i) := Nat.pow_le_pow_right (by omega) (by omega)
  omega

/-- `rangeMin c - 1` is a multiple of the grid step of the level of `c` -/
theorem IsCell.rt_rangeMin_mod {c : CellID} {i : Nat} (h : IsCell c i) :
    ((rangeMin c).toNat - 1) % 2^(61 - 2*i) = 0 := by
  rw [h.rangeMin_eq]
  have hle : 2^(60 - 2*i) ≤ c.toNat := by
    have := Nat.mod_le c.toNat (2^(61 - 2*i)); rw [h.low] at this; exact this
  have := Nat.div_add_mod c.toNat (2^(61 - 2*i))
  rw [h.low] at this
  have e : c.toNat - 2^(60 - 2*i) + 1 - 1 = 2^(61 - 2*i) * (c.toNat / 2^(61 - 2*i)) := by omega
  rw [e]; exact Nat.mul_mod_right _ _

/-- leaf ranges of two cells are nested or disjoint -/
theorem IsCell.rt_ranges_nested_or_disjoint {x y : CellID} {k j : Nat} (hx : IsCell x k) (hy : IsCell y j) :
    ((rangeMin x).toNat ≤ (rangeMin y).toNat ∧ (rangeMax y).toNat ≤ (rangeMax x).toNat) ∨
    ((rangeMin y).toNat ≤ (rangeMin x).toNat ∧ (rangeMax x).toNat ≤ (rangeMax y).toNat) ∨
      (rangeMax x).toNat < (rangeMin y).toNat ∨ (rangeMax y).toNat < (rangeMin x).toNat := by
  rw [hx.rangeMin_eq, hx.rangeMax_eq, hy.rangeMin_eq, hy.rangeMax_eq]
  by_cases hkj : k ≤ j
  · obtain ⟨hb, hne, hadd⟩ := hy.finer_facts k hkj
    obtain ⟨hk, hf, hlow⟩ := hx
    have hpos := Nat.two_pow_pos (60 - 2*j)
    interval_cases k <;> cell_omega
  · obtain ⟨hb, hne, hadd⟩ := hx.finer_facts j (by omega)
    obtain ⟨hj, hf, hlow⟩ := hy
    have hpos := Nat.two_pow_pos (60 - 2*k)
    interval_cases j <;> cell_omega

/-- for a cell starting before `limit`'s range, "ends before the id `limit`" (what the Go code
    tests) is the same as "ends before `limit.RangeMin()`" (what the doc comment promises) -/
theorem IsCell.rt_lt_limit_iff {c limit : CellID} {i kl : Nat} (hc : IsCell c i) (hl : IsCell limit kl)
    (hmin : (rangeMin c).toNat < (rangeMin limit).toNat) :
    (rangeMax c).toNat < limit.toNat ↔ (rangeMax c).toNat < (rangeMin limit).toNat := by
  have h1 := hl.rangeMin_le
  rcases hc.rt_ranges_nested_or_disjoint hl with h | h | h | h <;> omega

theorem IsCell.rt_child0 {x : CellID} {k : Nat} (h : IsCell x k) (hk : k < 30) :
    IsCell (child x 0) (k+1) ∧ rangeMin (child x 0) = rangeMin x ∧ parent (child x 0) k = x := by
  have hc := h.child_isCell hk (t := 0) (by omega)
  refine ⟨hc, ?_, ?_⟩
  · apply UInt64.toNat_inj.mp
    rw [hc.rangeMin_eq, h.rangeMin_eq, h.child_toNat hk (by omega)]
    obtain ⟨_, hf, hlow⟩ := h
    clear hc
    interval_cases k <;> cell_omega
  · apply UInt64.toNat_inj.mp
    rw [parent_toNat _ k (by omega), h.child_toNat hk (by omega)]
    obtain ⟨_, hf, hlow⟩ := h
    clear hc
    interval_cases k <;> cell_omega

theorem IsCell.rt_leaf_range {x : CellID} (h : IsCell x 30) : (rangeMax x).toNat = (rangeMin x).toNat := by
  rw [h.rangeMin_eq, h.rangeMax_eq]; have := h.ne_zero; cell_omega

/-- the `shrink` loop of `MaxTile` -/
theorem shrink_spec_id (limit : CellID) {kl : Nat} (hl : IsCell limit kl) :
    ∀ (fuel : Nat) (ci : CellID) (k : Nat), IsCell ci k → 30 - k ≤ fuel →
      limit.toNat ≤ (rangeMax ci).toNat → (rangeMin ci).toNat < (rangeMin limit).toNat →
      ∃ j, k < j ∧ IsCell (maxTile.shrink limit fuel ci) j ∧
        rangeMin (maxTile.shrink limit fuel ci) = rangeMin ci ∧
        (rangeMax (maxTile.shrink limit fuel ci)).toNat < limit.toNat ∧
        limit.toNat ≤ (rangeMax (parent (maxTile.shrink limit fuel ci) (j-1))).toNat ∧
        rangeMin (parent (maxTile.shrink limit fuel ci) (j-1)) = rangeMin ci ∧
        ∀ fuel', 30 - k ≤ fuel' → maxTile.shrink limit fuel' ci = maxTile.shrink limit fuel ci := by
  intro fuel
  induction fuel with
  | zero =>
    intro ci k h hf hge hlt
    exfalso
    have hk := h.k_le
    have : k = 30 := by omega
    subst this
    have := h.rt_leaf_range
    have := hl.rangeMin_le
    omega
  | succ fuel ih =>
    intro ci k h hf hge hlt
    have hk30 : k < 30 := by
      rcases Nat.lt_or_ge k 30 with hk | hk
      · exact hk
      · exfalso
        have hk := h.k_le
        have : k = 30 := by omega
        subst this
        have := h.rt_leaf_range
        have := hl.rangeMin_le
        omega
    obtain ⟨hc, hcmin, hcpar⟩ := h.rt_child0 hk30
    have hunf : ∀ f, maxTile.shrink limit (f+1) ci =
        if rangeMax (child ci 0) < limit then child ci 0 else maxTile.shrink limit f (child ci 0) :=
      fun _ => rfl
    by_cases hcl : rangeMax (child ci 0) < limit
    · have hres : ∀ f, maxTile.shrink limit (f+1) ci = child ci 0 := by
        intro f; rw [hunf, if_pos hcl]
      rw [hres]
      refine ⟨k+1, by omega, hc, hcmin, UInt64.lt_iff_toNat_lt.mp hcl, ?_, ?_, ?_⟩
      · simp only [Nat.add_sub_cancel]; rw [hcpar]; exact hge
      · simp only [Nat.add_sub_cancel]; rw [hcpar]
      · intro fuel' hf'
        obtain ⟨f', rfl⟩ : ∃ f', fuel' = f' + 1 := ⟨fuel' - 1, by omega⟩
        exact hres f'
    · have hres : ∀ f, maxTile.shrink limit (f+1) ci = maxTile.shrink limit f (child ci 0) := by
        intro f; rw [hunf, if_neg hcl]
      have hge' : limit.toNat ≤ (rangeMax (child ci 0)).toNat :=
        UInt64.le_iff_toNat_le.mp (UInt64.not_lt.mp hcl)
      obtain ⟨j, hj, h1, h2, h3, h4, h5, h6⟩ := ih (child ci 0) (k+1) hc (by omega) hge' (by rw [hcmin]; exact hlt)
      rw [hres]
      refine ⟨j, by omega, h1, by rw [h2, hcmin], h3, h4, by rw [h5, hcmin], ?_⟩
      intro fuel' hf'
      obtain ⟨f', rfl⟩ : ∃ f', fuel' = f' + 1 := ⟨fuel' - 1, by omega⟩
      rw [hres]; exact h6 f' (by omega)

/-- the parent keeps `rangeMin` when `rangeMin - 1` is on the parent's grid -/
theorem IsCell.rt_parent_rangeMin {r : CellID} {j : Nat} (h : IsCell r j) (hj : 0 < j)
    (hmod : ((rangeMin r).toNat - 1) % 2^(63 - 2*j) = 0) :
    (rangeMin (parent r (j-1))).toNat = (rangeMin r).toNat := by
  have hp := h.parent_isCell (j := j-1) (by omega)
  have hj30 := h.k_le
  rw [hp.rangeMin_eq, parent_toNat r (j-1) (by omega)]
  rw [h.rangeMin_eq] at hmod ⊢
  obtain ⟨_, hf, hlow⟩ := h
  clear hp
  interval_cases j <;> cell_omega

/-- the `grow` loop of `MaxTile` -/
theorem grow_spec_id (limit : CellID) :
    ∀ (fuel : Nat) (ci : CellID) (k : Nat), IsCell ci k → k ≤ fuel →
      (rangeMax ci).toNat < limit.toNat →
      ∃ j, j ≤ k ∧ IsCell (maxTile.grow limit fuel ci (rangeMin ci)) j ∧
        rangeMin (maxTile.grow limit fuel ci (rangeMin ci)) = rangeMin ci ∧
        (rangeMax (maxTile.grow limit fuel ci (rangeMin ci))).toNat < limit.toNat ∧
        (j = 0 ∨ rangeMin (parent (maxTile.grow limit fuel ci (rangeMin ci)) (j-1)) ≠ rangeMin ci ∨
          limit.toNat ≤ (rangeMax (parent (maxTile.grow limit fuel ci (rangeMin ci)) (j-1))).toNat) ∧
        ∀ fuel', k ≤ fuel' →
          maxTile.grow limit fuel' ci (rangeMin ci) = maxTile.grow limit fuel ci (rangeMin ci) := by
  intro fuel
  induction fuel with
  | zero =>
    intro ci k h hf hlt
    have hk0 : k = 0 := by omega
    subst hk0
    have hface : isFace ci = true := by rw [h.isFace_eq]; simp
    have h0 : maxTile.grow limit 0 ci (rangeMin ci) = ci := rfl
    rw [h0]
    refine ⟨0, Nat.le_refl _, h, rfl, hlt, Or.inl rfl, ?_⟩
    intro fuel' _
    rcases fuel' with _ | f'
    · rfl
    · show (if isFace ci then ci else _) = ci
      rw [if_pos hface]
  | succ fuel ih =>
    intro ci k h hf hlt
    have hunf : ∀ f s, maxTile.grow limit (f+1) ci s =
        if isFace ci then ci else
          if (rangeMin (immediateParent ci) != s || decide (rangeMax (immediateParent ci) ≥ limit))
          then ci else maxTile.grow limit f (immediateParent ci) s :=
      fun _ _ => rfl
    by_cases hk0 : k = 0
    · subst hk0
      have hface : isFace ci = true := by rw [h.isFace_eq]; simp
      have hres : ∀ f, maxTile.grow limit f ci (rangeMin ci) = ci := by
        intro f
        rcases f with _ | f
        · rfl
        · rw [hunf, if_pos hface]
      rw [hres]
      refine ⟨0, Nat.le_refl _, h, rfl, hlt, Or.inl rfl, ?_⟩
      intro fuel' _; exact hres fuel'
    · have hface : isFace ci = false := by rw [h.isFace_eq]; simp [hk0]
      have hip : immediateParent ci = parent ci (k-1) := h.immediateParent_eq (by omega)
      have hp : IsCell (parent ci (k-1)) (k-1) := h.parent_isCell (by omega)
      by_cases hcond : (rangeMin (parent ci (k-1)) != rangeMin ci ||
          decide (rangeMax (parent ci (k-1)) ≥ limit)) = true
      · have hres : ∀ f, maxTile.grow limit (f+1) ci (rangeMin ci) = ci := by
          intro f; rw [hunf, hip, hface, hcond]; rfl
        rw [hres]
        refine ⟨k, Nat.le_refl _, h, rfl, hlt, ?_, ?_⟩
        · right
          rw [Bool.or_eq_true, bne_iff_ne, decide_eq_true_eq] at hcond
          rcases hcond with hc | hc
          · exact Or.inl hc
          · exact Or.inr (UInt64.le_iff_toNat_le.mp hc)
        · intro fuel' hf'
          obtain ⟨f', rfl⟩ : ∃ f', fuel' = f' + 1 := ⟨fuel' - 1, by omega⟩
          exact hres f'
      · have hcond' := hcond
        rw [Bool.or_eq_true, bne_iff_ne, decide_eq_true_eq, not_or, not_not] at hcond'
        obtain ⟨hmin, hmax⟩ := hcond'
        have hmax' : (rangeMax (parent ci (k-1))).toNat < limit.toNat :=
          UInt64.lt_iff_toNat_lt.mp (UInt64.not_le.mp hmax)
        have hres : ∀ f, maxTile.grow limit (f+1) ci (rangeMin ci) =
            maxTile.grow limit f (parent ci (k-1)) (rangeMin ci) := by
          intro f
          rw [hunf, hip, hface, Bool.eq_false_iff.mpr hcond]; rfl
        obtain ⟨j, hj, h1, h2, h3, h4, h5⟩ := ih (parent ci (k-1)) (k-1) hp (by omega) hmax'
        rw [hres]
        rw [hmin] at h1 h2 h3 h4 h5
        refine ⟨j, by omega, h1, h2, h3, h4, ?_⟩
        intro fuel' hf'
        obtain ⟨f', rfl⟩ : ∃ f', fuel' = f' + 1 := ⟨fuel' - 1, by omega⟩
        rw [hres]; exact h5 f' (by omega)

/-- when `grow` stops at `r`, no coarser cell with the same `rangeMin` ends before `limit` -/
theorem IsCell.rt_grow_stop_optimal {r c limit : CellID} {j i : Nat} (hr : IsCell r j) (hc : IsCell c i)
    (hstop : j = 0 ∨ rangeMin (parent r (j-1)) ≠ rangeMin r ∨
      limit.toNat ≤ (rangeMax (parent r (j-1))).toNat)
    (hmin : rangeMin c = rangeMin r) (hmax : (rangeMax c).toNat < limit.toNat) : j ≤ i := by
  rcases Nat.lt_or_ge i j with hij | hij
  · exfalso
    have hj30 := hr.k_le
    have hp : IsCell (parent r (j-1)) (j-1) := hr.parent_isCell (by omega)
    have hmod := hc.rt_rangeMin_mod
    rw [hmin] at hmod
    have hmod' := mod_zero_of_coarser _ (63 - 2*j) (61 - 2*i) (by omega) hmod
    have hpm := hr.rt_parent_rangeMin (by omega) hmod'
    rcases hstop with h0 | hne | hge
    · omega
    · exact hne (UInt64.toNat_inj.mp hpm)
    · have := hc.rt_rangeMax_antitone hp (by rw [hpm, hmin]) (by omega)
      omega
  · exact hij

theorem maxTile_unfold (ci limit : CellID) :
    maxTile ci limit =
      if rangeMin ci ≥ rangeMin limit then limit
      else if rangeMax ci ≥ limit then maxTile.shrink limit 32 ci
      else maxTile.grow limit 32 ci (rangeMin ci) := rfl

/-- `MaxTile` when the start lies before `limit`'s range: the result is the coarsest cell with the
    same `rangeMin` that ends before `rangeMin limit`. -/
theorem maxTile_core {ci limit : CellID} {k kl : Nat} (h : IsCell ci k) (hl : IsCell limit kl)
    (hlt : (rangeMin ci).toNat < (rangeMin limit).toNat) :
    ∃ j, IsCell (maxTile ci limit) j ∧ rangeMin (maxTile ci limit) = rangeMin ci ∧
      (rangeMax (maxTile ci limit)).toNat < (rangeMin limit).toNat ∧
      ∀ c i, IsCell c i → rangeMin c = rangeMin ci →
        (rangeMax c).toNat < (rangeMin limit).toNat → j ≤ i := by
  have hnge : ¬ rangeMin ci ≥ rangeMin limit := by
    intro hge; have := UInt64.le_iff_toNat_le.mp hge; omega
  have hlmin := hl.rangeMin_le
  rw [maxTile_unfold, if_neg hnge]
  by_cases hbig : rangeMax ci ≥ limit
  · rw [if_pos hbig]
    obtain ⟨j, hj, h1, h2, h3, h4, h5, _⟩ :=
      shrink_spec_id limit hl 32 ci k h (by omega) (UInt64.le_iff_toNat_le.mp hbig) hlt
    refine ⟨j, h1, h2, ?_, ?_⟩
    · exact (h1.rt_lt_limit_iff hl (by rw [h2]; exact hlt)).mp h3
    · intro c i hc hcmin hcmax
      rcases Nat.lt_or_ge i j with hij | hij
      · exfalso
        have hp : IsCell (parent (maxTile.shrink limit 32 ci) (j-1)) (j-1) :=
          h1.parent_isCell (by omega)
        have := hc.rt_rangeMax_antitone hp (by rw [h5, hcmin]) (by omega)
        omega
      · exact hij
  · rw [if_neg hbig]
    have hsmall : (rangeMax ci).toNat < limit.toNat :=
      UInt64.lt_iff_toNat_lt.mp (UInt64.not_le.mp hbig)
    obtain ⟨j, hj, h1, h2, h3, h4, _⟩ := grow_spec_id limit 32 ci k h (by have := h.k_le; omega) hsmall
    generalize maxTile.grow limit 32 ci (rangeMin ci) = r at h1 h2 h3 h4 ⊢
    refine ⟨j, h1, h2, ?_, ?_⟩
    · exact (h1.rt_lt_limit_iff hl (by rw [h2]; exact hlt)).mp h3
    · intro c i hc hcmin hcmax
      rw [← h2] at h4 hcmin
      exact h1.rt_grow_stop_optimal hc h4 hcmin (by omega)

/-- the loops of `MaxTile` are independent of the fuel (Go: unbounded `for`) -/
theorem maxTile_fuel {ci limit : CellID} {k kl : Nat} (h : IsCell ci k) (hl : IsCell limit kl)
    (hlt : (rangeMin ci).toNat < (rangeMin limit).toNat) :
    (rangeMax ci ≥ limit → ∀ n, 30 - k ≤ n → maxTile.shrink limit n ci = maxTile.shrink limit 32 ci) ∧
    (¬ rangeMax ci ≥ limit → ∀ n, k ≤ n →
      maxTile.grow limit n ci (rangeMin ci) = maxTile.grow limit 32 ci (rangeMin ci)) := by
  constructor
  · intro hbig
    obtain ⟨j, _, _, _, _, _, _, h6⟩ :=
      shrink_spec_id limit hl 32 ci k h (by omega) (UInt64.le_iff_toNat_le.mp hbig) hlt
    exact h6
  · intro hbig
    have hsmall : (rangeMax ci).toNat < limit.toNat :=
      UInt64.lt_iff_toNat_lt.mp (UInt64.not_le.mp hbig)
    obtain ⟨j, _, _, _, _, _, h6⟩ := grow_spec_id limit 32 ci k h (by have := h.k_le; omega) hsmall
    exact h6

/-- same `rangeMin` and coarser-or-equal level ⇒ contains -/
theorem IsCell.rt_contains_of_same_min {r c : CellID} {j i : Nat} (hr : IsCell r j) (hc : IsCell c i)
    (hmin : rangeMin c = rangeMin r) (hji : j ≤ i) : contains r c = true := by
  rw [contains_iff]
  have := hr.rt_rangeMax_antitone hc (by rw [hmin]) hji
  have := hc.rangeMin_le
  rw [← hmin]; omega


theorem IsCell.rt_eq_of_same_min {a b : CellID} {j : Nat} (ha : IsCell a j) (hb : IsCell b j)
    (hmin : rangeMin a = rangeMin b) : a = b := by
  apply UInt64.toNat_inj.mp
  have h := congrArg UInt64.toNat hmin
  rw [ha.rangeMin_eq, hb.rangeMin_eq] at h
  have h1 := Nat.mod_le a.toNat (2^(61 - 2*j)); rw [ha.low] at h1
  have h2 := Nat.mod_le b.toNat (2^(61 - 2*j)); rw [hb.low] at h2
  omega

end S2Proofs
